import Rangers.Model.Ledger
import Rangers.Generated.LedgerFacts
/-!
# C06 — tie of the ledger model to the source by generated facts (T-gen)

`Generated/LedgerFacts.lean` is rewritten from /repo's working tree on every run by `gen/cmd/c06facts`.
The tables below are maintained by hand next to the model. A new call of a ledger primitive anywhere in `src/`,
a call whose result starts or stops being used, a re-ordered / added / removed ledger-relevant call inside a
function the model transcribes, or a changed constant makes one of these theorems fail to check.
-/
namespace Rangers.Props.C06Sites
open Rangers.Ledger Rangers.Generated

/-- every call site of a ledger primitive, with the model function that transcribes it -/
def expectedSites : List (String × String × String × Bool × String) := [
  ("src/core/genesis_block.go", "genGenesisBlock", "SetBalance", false, "genesis allocation (initial state, not a transaction)"),
  ("src/core/genesis_block.go", "genGenesisBlock", "SetBalance", false, "genesis allocation (initial state, not a transaction)"),
  ("src/core/genesis_block_dev.go", "addDevTestAsset", "SetBalance", false, "genesis allocation (initial state, not a transaction)"),
  ("src/core/genesis_block_dev.go", "addDevTestAsset", "SetBalance", false, "genesis allocation (initial state, not a transaction)"),
  ("src/core/genesis_block_dev.go", "addDevTestAsset", "SetBalance", false, "genesis allocation (initial state, not a transaction)"),
  ("src/core/genesis_block_dev.go", "addDevTestAsset", "SetBalance", false, "genesis allocation (initial state, not a transaction)"),
  ("src/core/genesis_block_dev.go", "genDevGenesisBlock", "SetBalance", false, "genesis allocation (initial state, not a transaction)"),
  ("src/core/genesis_block_dev.go", "genDevGenesisBlock", "SetBalance", false, "genesis allocation (initial state, not a transaction)"),
  ("src/core/genesis_block_robin.go", "addRobinTestAsset", "SetBalance", false, "genesis allocation (initial state, not a transaction)"),
  ("src/core/genesis_block_robin.go", "addRobinTestAsset", "SetBalance", false, "genesis allocation (initial state, not a transaction)"),
  ("src/core/genesis_block_robin.go", "addRobinTestAsset", "SetBalance", false, "genesis allocation (initial state, not a transaction)"),
  ("src/core/genesis_block_robin.go", "genRobinGenesisBlock", "SetBalance", false, "genesis allocation (initial state, not a transaction)"),
  ("src/core/genesis_block_robin.go", "genRobinGenesisBlock", "SetBalance", false, "genesis allocation (initial state, not a transaction)"),
  ("src/core/genesis_sub.go", "genSubGenesisBlock", "SetBalance", false, "genesis allocation (initial state, not a transaction)"),
  ("src/core/genesis_sub.go", "genSubGenesisBlock", "SetBalance", false, "genesis allocation (initial state, not a transaction)"),
  ("src/core/genesis_sub.go", "genSubGenesisBlock", "SetBalance", false, "genesis allocation (initial state, not a transaction)"),
  ("src/core/genesis_sub.go", "genSubGenesisBlock", "SetBalance", false, "genesis allocation (initial state, not a transaction)"),
  ("src/core/genesis_sub.go", "genSubGenesisBlock", "SetBalance", false, "genesis allocation (initial state, not a transaction)"),
  ("src/core/genesis_sub.go", "genSubGenesisBlock", "SetBalance", false, "genesis allocation (initial state, not a transaction)"),
  ("src/core/vmexecutor.go", "deductGasFee", "AddBalance", false, "deductGasFee (= chargeGas)"),
  ("src/core/vmexecutor.go", "deductGasFee", "SubBalance", false, "deductGasFee (= chargeGas)"),
  ("src/core/vmexecutor_sub.go", "transfer", "AddBalance", false, "NOT MODELLED: sub-chain reward transfer (IsSub() only)"),
  ("src/core/vmexecutor_sub.go", "transfer", "SubBalance", false, "NOT MODELLED: sub-chain reward transfer (IsSub() only)"),
  ("src/eth_rpc/api.go", "StateOverride.Apply", "SetBalance", false, "not a transaction path (eth_call state override on a throw-away state)"),
  ("src/executor/contract_executor.go", "contractExecutor.Execute", "AddBalance", false, "contractExecute (chargeGas step)"),
  ("src/executor/contract_executor.go", "contractExecutor.Execute", "SubBalance", false, "contractExecute (chargeGas step)"),
  ("src/executor/miner_node_executor.go", "minerNodeExecutor.Execute", "SubBalance", false, "nodeTx (debits 10 RPG and credits nobody: known finding burn-operator-node-fee)"),
  ("src/service/game.go", "transferBalance", "AddBalance", false, "transferBalance"),
  ("src/service/game.go", "transferBalance", "SubBalance", true, "transferBalance"),
  ("src/service/miner_manager.go", "MinerManager.AddMiner", "SubBalance", false, "minerApply / minerAdd / opStake"),
  ("src/service/miner_manager.go", "MinerManager.AddStake", "SubBalance", false, "minerApply / minerAdd / opStake"),
  ("src/service/refund_manager.go", "RefundManager.CheckAndMove", "AddBalance", false, "refundMove"),
  ("src/service/transaction_pool.go", "TxPool.ProcessFee", "AddBalance", false, "processFee"),
  ("src/service/transaction_pool.go", "TxPool.ProcessFee", "SubBalance", false, "processFee"),
  ("src/storage/account/account_object_ft.go", "accountObject.AddFT", "SetFT", true, "account-object FT branch: unreachable for SYSTEM-RPG (GetERC20Binding always found)"),
  ("src/storage/account/account_object_ft.go", "accountObject.AddFT", "SetFT", true, "account-object FT branch: unreachable for SYSTEM-RPG (GetERC20Binding always found)"),
  ("src/storage/account/account_object_ft.go", "accountObject.SubFT", "SetFT", false, "account-object FT branch: unreachable for SYSTEM-RPG (GetERC20Binding always found)"),
  ("src/storage/account/accountdb.go", "AccountDB.AddBalance", "AddFT", false, "addBal"),
  ("src/storage/account/accountdb.go", "AccountDB.SetBalance", "SetFT", false, "put (driver op set)"),
  ("src/storage/account/accountdb.go", "AccountDB.SubBalance", "SubFT", true, "subBal"),
  ("src/storage/account/accountdb.go", "AccountDB.Transfer", "AddBalance", false, "not on any transaction path (no caller in src/); has its own sign test"),
  ("src/storage/account/accountdb.go", "AccountDB.Transfer", "SubBalance", false, "not on any transaction path (no caller in src/); has its own sign test"),
  ("src/storage/account/accountdb_tuntun.go", "AccountDB.AddFT", "AddFT", true, "addBal (ERC-20 branch; this call is the unreachable non-bound branch)"),
  ("src/storage/account/accountdb_tuntun.go", "AccountDB.SetFT", "SetFT", false, "put (ERC-20 branch; unreachable non-bound branch)"),
  ("src/storage/account/accountdb_tuntun.go", "AccountDB.SubFT", "SubFT", true, "subBal (ERC-20 branch; this call is the unreachable non-bound branch)"),
  ("src/vm/evm.go", "EVM.AuthCall", "Transfer", false, "exec (.authcall)"),
  ("src/vm/evm.go", "EVM.Call", "Transfer", false, "exec (.call) / evmCallTop"),
  ("src/vm/evm.go", "EVM.StaticCall", "AddBalance", false, "exec (.staticcall)"),
  ("src/vm/evm.go", "EVM.create", "Transfer", false, "exec (.create) / evmCreateTop"),
  ("src/vm/init.go", "Transfer", "AddBalance", false, "vmTransfer"),
  ("src/vm/init.go", "Transfer", "SubBalance", false, "vmTransfer"),
  ("src/vm/instructions.go", "opSuicide", "AddBalance", false, "suicide")
]

/-- the functions the model transcribes: ledger-relevant calls and every `return`, in source order
    (e.g. `AccountDB.Suicide` has no return between its nil test and zeroing the balance) -/
def expectedOrder : List (String × List String) := [
  ("src/core/vmexecutor.go:VMExecutor.Execute", ["BeforeExecute", "Snapshot", "Execute", "RevertToSnapshot", "deductGasFee", "return"]),
  ("src/core/vmexecutor.go:VMExecutor.after", ["return", "Add", "CalculateReward", "Add", "CheckAndMove", "CheckAndMove"]),
  ("src/core/vmexecutor.go:deductGasFee", ["return", "GetBalance", "Cmp", "SubBalance", "AddBalance"]),
  ("src/executor/base_executor.go:baseFeeExecutor.BeforeExecute", ["validateNonce", "return", "ProcessFee", "return", "return"]),
  ("src/executor/contract_executor.go:contractExecutor.BeforeExecute", ["validateNonce", "return", "ProcessFee", "return", "decodeContractData", "return", "preCheckContractFee", "return", "return"]),
  ("src/executor/contract_executor.go:contractExecutor.Execute", ["return", "IntrinsicGas", "return", "return", "Create", "Call", "GetBalance", "Cmp", "SubBalance", "AddBalance", "return", "return"]),
  ("src/executor/contract_executor.go:preCheckContractFee", ["GetBalance", "Cmp", "Add", "return", "return"]),
  ("src/executor/jsonrpc_executor.go:jsonrpcExecutor.BeforeExecute", ["validateNonce", "return", "ProcessFee", "return", "decodeContractData", "return", "preCheckContractFee", "return", "return"]),
  ("src/executor/miner_executor.go:minerAddExecutor.Execute", ["return", "return", "return", "AddStake"]),
  ("src/executor/miner_executor.go:minerApplyExecutor.Execute", ["return", "return", "return", "AddMiner", "return"]),
  ("src/executor/miner_executor.go:minerRefundExecutor.Execute", ["return", "return", "ParseUint", "return", "GetRefundStake", "return", "AddRefundInfo", "AddRefundInfo", "return"]),
  ("src/executor/miner_node_executor.go:minerNodeExecutor.Execute", ["GetBalance", "Cmp", "return", "SubBalance", "GetMinerIdByAccount", "return", "GetMiner", "return", "return", "UpdateMiner", "return"]),
  ("src/service/game.go:ChangeAssets", ["transferBalance", "return", "GetBalance", "return"]),
  ("src/service/game.go:transferBalance", ["StrToBigInt", "return", "Sign", "return", "GetBalance", "Cmp", "return", "AddBalance", "SubBalance", "return"]),
  ("src/service/miner_manager.go:MinerManager.AddMiner", ["return", "return", "return", "GetBalance", "Cmp", "return", "GetMiner", "return", "GetMinerIdByAccount", "return", "SubBalance", "UpdateMiner", "return"]),
  ("src/service/miner_manager.go:MinerManager.AddStake", ["return", "GetBalance", "Cmp", "return", "GetMinerById", "GetMinerById", "return", "return", "SubBalance", "UpdateMiner", "return"]),
  ("src/service/miner_manager.go:MinerManager.RemoveMiner", ["IsContract", "SetData", "SetData", "SetData", "SetData", "return", "SetData", "SetData"]),
  ("src/service/refund_manager.go:RefundManager.CheckAndMove", ["return", "return", "AddBalance"]),
  ("src/service/refund_manager.go:RefundManager.GetRefundStake", ["GetMiner", "return", "return", "return", "RemoveMiner", "UpdateMiner", "return"]),
  ("src/service/transaction_pool.go:TxPool.ProcessFee", ["GetBalance", "Cmp", "return", "SubBalance", "AddBalance", "return"]),
  ("src/storage/account/accountdb.go:AccountDB.Suicide", ["return", "GetBalance", "setBalance", "return"]),
  ("src/storage/account/accountdb_tuntun.go:AccountDB.AddFT", ["return", "Add", "SetData", "setData", "return", "return", "AddFT"]),
  ("src/storage/account/accountdb_tuntun.go:AccountDB.SubFT", ["return", "Cmp", "return", "SetData", "setData", "return", "return", "SubFT"]),
  ("src/vm/evm.go:EVM.AuthCall", ["return", "Sign", "CanTransfer", "return", "Snapshot", "Sign", "return", "Transfer", "RevertToSnapshot", "return"]),
  ("src/vm/evm.go:EVM.Call", ["return", "Sign", "CanTransfer", "return", "Snapshot", "Sign", "return", "Transfer", "RevertToSnapshot", "return"]),
  ("src/vm/evm.go:EVM.CallCode", ["return", "CanTransfer", "return", "Snapshot", "RevertToSnapshot", "return"]),
  ("src/vm/evm.go:EVM.DelegateCall", ["return", "Snapshot", "RevertToSnapshot", "return"]),
  ("src/vm/evm.go:EVM.StaticCall", ["return", "Snapshot", "AddBalance", "RevertToSnapshot", "return"]),
  ("src/vm/evm.go:EVM.create", ["return", "return", "CanTransfer", "return", "return", "Snapshot", "Transfer", "RevertToSnapshot", "return"]),
  ("src/vm/init.go:CanTransfer", ["Sign", "return", "return", "Cmp", "GetBalance"]),
  ("src/vm/init.go:Transfer", ["SubBalance", "AddBalance"]),
  ("src/vm/instructions.go:opStake", ["ParseUint", "GetMinerIdByAccount", "AddStake", "return"]),
  ("src/vm/instructions.go:opSuicide", ["GetBalance", "AddBalance", "Suicide", "return"]),
  ("src/vm/instructions.go:opUnStake", ["GetMinerIdByAccount", "ParseUint", "GetRefundStake", "Cmp", "AddRefundInfo", "AddRefundInfo", "Add", "return"]),
  ("src/vm/instructions.go:opUnStakeAll", ["GetMinerIdByAccount", "return", "GetRefundStake", "return", "AddRefundInfo", "Add", "return"])
]

/-- the flag inventory: which fork tests each transcribed function makes (sorted multiset: a new or removed
    `IsProposalNNN()` on a ledger path breaks `flags_as_modelled`; moving one among independent statements does not) -/
def expectedFlagReads : List (String × List String) := [
  ("src/core/vmexecutor.go:VMExecutor.Execute", ["IsProposal006", "IsProposal006", "IsProposal007", "IsProposal007", "IsProposal013", "IsProposal013", "IsProposal015", "IsProposal018", "IsProposal018", "IsProposal027"]),
  ("src/executor/contract_executor.go:contractExecutor.Execute", ["IsProposal007", "IsProposal015", "IsProposal015", "IsProposal015", "IsProposal017", "IsProposal026"]),
  ("src/executor/contract_executor.go:preCheckContractFee", ["IsProposal015"]),
  ("src/service/transaction_pool.go:TxPool.ProcessFee", ["IsProposal026"]),
  ("src/storage/account/accountdb_tuntun.go:AccountDB.AddFT", ["IsProposal002"]),
  ("src/storage/account/accountdb_tuntun.go:AccountDB.SubFT", ["IsProposal002"]),
  ("src/vm/evm.go:EVM.create", ["IsProposal006", "IsProposal007", "IsProposal026"])
]

/-- the account the balance guard looks at is the account the transfer debits, in every EVM entry point:
    `Call` / `CallCode` / `create`: the caller (model: `canTransfer s.bal self v` then `vmTransfer s.bal self …`);
    `AuthCall`: the sponsor = tx origin (model: `canTransfer s.bal origin v` then `vmTransfer s.bal origin to v`) -/
def expectedGuardArgs : List (String × String) := [
  ("src/vm/evm.go:EVM.AuthCall:CanTransfer", "sponsor | value"),
  ("src/vm/evm.go:EVM.AuthCall:Transfer", "sponsor | addr | value"),
  ("src/vm/evm.go:EVM.Call:CanTransfer", "caller.Address() | value"),
  ("src/vm/evm.go:EVM.Call:Transfer", "caller.Address() | addr | value"),
  ("src/vm/evm.go:EVM.CallCode:CanTransfer", "caller.Address() | value"),
  ("src/vm/evm.go:EVM.create:CanTransfer", "caller.Address() | value"),
  ("src/vm/evm.go:EVM.create:Transfer", "caller.Address() | address | value")
]

def hexOf (n : Nat) : String := String.ofList (Nat.toDigits 16 n)

/-- constants, rendered from the model's own definitions -/
def expectedConsts : List (String × String) := [
  ("src/common/constant.go:GasMagnification", toString gasMagnification),
  ("src/common/constant_economy.go:BLANCE_NAME", "\"SYSTEM-RPG\""),
  ("src/common/constant_economy.go:FeeAccount", "HexToAddress(\"0x" ++ hexOf feeAccount ++ "\")"),
  ("src/executor/contract_executor.go:defaultGasLimit", "6000000"),
  ("src/executor/contract_executor.go:defaultGasPrice", "NewInt(" ++ toString gasPrice ++ ")"),
  ("src/executor/contract_executor.go:p017defaultGasLimit", toString p017GasLimit),
  ("src/executor/contract_executor.go:p026defaultGasLimit", toString p026GasLimit),
  ("src/executor/miner_node_executor.go:ten", "StrToBigInt(\"10\")"),
  ("src/middleware/types/transaction.go:DefaultGasPrice", "NewInt(" ++ toString gasPrice ++ ")"),
  ("src/service/transaction_pool.go:delta", "StrToBigInt(\"0.0001\")"),
  ("src/service/transaction_pool.go:delta026", "StrToBigInt(\"0.001\")"),
  ("src/vm/param.go:CallCreateDepth", "1024"),
  ("src/vm/param.go:TxDataNonZeroGasEIP2028", toString nonZeroByteGas),
  ("src/vm/param.go:TxDataZeroGas", toString zeroByteGas),
  ("src/vm/param.go:TxGas", toString txGas),
  ("src/vm/param.go:TxGasContractCreation", toString txGasCreate)
]

/-- package-level state written inside the files of the ledger path: only the start-up singletons and loggers, and the
    process-wide cache of the token contract address (`loadContractCache`, written until the binding exists). No
    transaction path assigns to, or mutates in place, a package-level `big.Int` (fee, gas price, `ten`, `big0` …). -/
def expectedGlobalWrites : List (String × String × String) := [
  ("src/service/miner_manager.go", "InitMinerManager", "assign MinerManagerImpl"),
  ("src/service/miner_manager.go", "InitMinerManager", "assign MinerManagerImpl"),
  ("src/service/refund_manager.go", "InitRefundManager", "assign RefundManagerImpl"),
  ("src/service/refund_manager.go", "InitRefundManager", "assign RefundManagerImpl"),
  ("src/service/refund_manager.go", "InitRefundManager", "assign RefundManagerImpl"),
  ("src/service/refund_manager.go", "InitRefundManager", "assign RefundManagerImpl"),
  ("src/service/reward_calculator.go", "InitRewardCalculator", "assign RewardCalculatorImpl"),
  ("src/service/reward_calculator.go", "InitRewardCalculator", "assign RewardCalculatorImpl"),
  ("src/service/transaction_pool.go", "initTransactionPool", "assign txpoolInstance"),
  ("src/storage/account/accountdb_eth.go", "AccountDB.loadContractCache", "assign rpgContractAddress"),
  ("src/vm/init.go", "InitVM", "assign logger")
]

/-- The functions of the ledger path keep no hidden package-level state between calls (go/ast inventory). -/
theorem globals_untouched : LedgerFacts.globalWrites = expectedGlobalWrites := by decide

/-- No ledger call site is unaccounted for, and no "result used" flag has changed. -/
theorem sites_accounted :
    LedgerFacts.sites = expectedSites.map (fun e => (e.1, e.2.1, e.2.2.1, e.2.2.2.1)) := by decide

/-- Every site is mapped to a model function or explicitly listed as outside the model. -/
theorem sites_mapped : expectedSites.all (fun e => e.2.2.2.2 != "UNMAPPED") = true := by decide

/-- Inside every transcribed function the ledger-relevant calls are those, in that order, the model follows
    (balance test before debit, credit/debit pairs, snapshot / revert placement). -/
theorem order_as_transcribed : LedgerFacts.order = expectedOrder := by decide

/-- The ledger paths test exactly the fork flags the model takes as input (002, 015, 017, 018, 026, 027; 006/007/013 are
    nonce / log bookkeeping outside the ledger). -/
theorem flags_as_modelled : LedgerFacts.flagReads = expectedFlagReads := by decide

/-- Guard and debit name the same account expression at every EVM entry point, as the model transcribes them. -/
theorem guard_checks_the_debited_account : LedgerFacts.guardArgs = expectedGuardArgs := by decide

/-- The numeric conversions on the way into a balance slot / a stake, as `Model/Decimal.lean` (C18) composes them and
    `Props/C06Real.lean` relates them to the exact primitives of `Model/Ledger.lean`:
    `AddFT/SetFT` = `ftAdd/ftSet` (one `FormatDecimalForERC20`), `SubFT` = `ftSub` (`ForERC20` on the amount, `ForRocket` on
    the returned remainder), `GetFT` = `ftGet`; `AddStake/AddMiner` debit `stakeToBigInt` (`Float64ToBigInt`),
    `GetRefundStake` refunds `uint64ToBigInt`; STAKE/UNSTAKE read `stakeArg` (`ParseUint ∘ BigIntToStrWithoutDot`). -/
def expectedConversions : List (String × List String) := [
  ("src/executor/miner_executor.go:minerRefundExecutor.Execute", ["ParseUint"]),
  ("src/service/game.go:transferBalance", ["StrToBigInt"]),
  ("src/service/miner_manager.go:MinerManager.AddMiner", ["Float64ToBigInt"]),
  ("src/service/miner_manager.go:MinerManager.AddStake", ["Float64ToBigInt"]),
  ("src/service/refund_manager.go:RefundManager.GetRefundStake", ["Uint64ToBigInt"]),
  ("src/storage/account/accountdb_tuntun.go:AccountDB.AddFT", ["FormatDecimalForERC20"]),
  ("src/storage/account/accountdb_tuntun.go:AccountDB.GetFT", ["FormatDecimalForRocket"]),
  ("src/storage/account/accountdb_tuntun.go:AccountDB.SetFT", ["FormatDecimalForERC20"]),
  ("src/storage/account/accountdb_tuntun.go:AccountDB.SubFT", ["FormatDecimalForERC20", "FormatDecimalForRocket"]),
  ("src/utility/data_convert.go:BigIntToStrWithoutDot", ["BigIntToStr"]),
  ("src/utility/data_convert.go:FormatDecimalForERC20", ["BigIntToStr", "strToBigInt"]),
  ("src/utility/data_convert.go:FormatDecimalForRocket", ["bigIntToStr", "StrToBigInt"]),
  ("src/utility/data_convert.go:Uint64ToBigInt", ["SetUint64"]),
  ("src/vm/instructions.go:opStake", ["ParseUint", "BigIntToStrWithoutDot"]),
  ("src/vm/instructions.go:opUnStake", ["ParseUint", "BigIntToStrWithoutDot"]),
  ("src/vm/instructions.go:opUnStakeAll", ["SetUint64"])
]

theorem conversions_as_modelled : LedgerFacts.conversions = expectedConversions := by decide

/-- Every comparison of a `Cmp` / `Sign` result with a literal in the transcribed functions, next to the model line:
    `SubFT` refuses on `remain.Cmp(value) < 0` (`subBal`: `slot < v`); `CanTransfer` is `Sign < 0 → false`, then
    `Cmp >= 0` (`canTransfer`); `transferBalance` refuses `Sign == -1` and `Cmp == -1` (`amt < 0`, `get src < amt`);
    `ProcessFee`, `AddStake`, `AddMiner`, `preCheckContractFee` refuse on `Cmp < 0`; the gas charge clamps on `Cmp < 0`
    (`chargeGas`); `minerNodeExecutor` refuses on `ten.Cmp(balance) > 0` (`nodeTxWith`: `get src < fee`); `opUnStake`
    adds the second refund entry on `real.Cmp(money) > 0` (`v < real`); `Call/AuthCall` skip the transfer on `Sign == 0`
    (`v != 0`). A changed operator (`<` for `<=`, a dropped sign test) changes this list. -/
def expectedCompares : List (String × List String) := [
  ("src/core/vmexecutor.go:VMExecutor.Execute", []),
  ("src/core/vmexecutor.go:VMExecutor.after", []),
  ("src/core/vmexecutor.go:deductGasFee", ["Cmp<0"]),
  ("src/executor/base_executor.go:baseFeeExecutor.BeforeExecute", []),
  ("src/executor/contract_executor.go:contractExecutor.BeforeExecute", []),
  ("src/executor/contract_executor.go:contractExecutor.Execute", ["Cmp<0"]),
  ("src/executor/contract_executor.go:preCheckContractFee", ["Cmp<0"]),
  ("src/executor/jsonrpc_executor.go:jsonrpcExecutor.BeforeExecute", []),
  ("src/executor/miner_executor.go:minerAddExecutor.Execute", []),
  ("src/executor/miner_executor.go:minerApplyExecutor.Execute", []),
  ("src/executor/miner_executor.go:minerRefundExecutor.Execute", []),
  ("src/executor/miner_node_executor.go:minerNodeExecutor.Execute", ["Cmp>0"]),
  ("src/service/game.go:ChangeAssets", []),
  ("src/service/game.go:transferBalance", ["Sign==-1", "Cmp==-1"]),
  ("src/service/miner_manager.go:MinerManager.AddMiner", ["Cmp<0"]),
  ("src/service/miner_manager.go:MinerManager.AddStake", ["Cmp<0"]),
  ("src/service/miner_manager.go:MinerManager.RemoveMiner", []),
  ("src/service/refund_manager.go:RefundManager.CheckAndMove", []),
  ("src/service/refund_manager.go:RefundManager.GetRefundStake", []),
  ("src/service/transaction_pool.go:TxPool.ProcessFee", ["Cmp<0"]),
  ("src/storage/account/accountdb.go:AccountDB.Suicide", []),
  ("src/storage/account/accountdb_tuntun.go:AccountDB.AddFT", []),
  ("src/storage/account/accountdb_tuntun.go:AccountDB.GetFT", []),
  ("src/storage/account/accountdb_tuntun.go:AccountDB.SetFT", []),
  ("src/storage/account/accountdb_tuntun.go:AccountDB.SubFT", ["Cmp<0"]),
  ("src/utility/data_convert.go:BigIntToStrWithoutDot", []),
  ("src/utility/data_convert.go:FormatDecimalForERC20", ["Sign==0"]),
  ("src/utility/data_convert.go:FormatDecimalForRocket", ["Sign==0"]),
  ("src/utility/data_convert.go:Uint64ToBigInt", []),
  ("src/vm/evm.go:EVM.AuthCall", ["Sign!=0", "Sign==0"]),
  ("src/vm/evm.go:EVM.Call", ["Sign!=0", "Sign==0"]),
  ("src/vm/evm.go:EVM.CallCode", []),
  ("src/vm/evm.go:EVM.DelegateCall", []),
  ("src/vm/evm.go:EVM.StaticCall", []),
  ("src/vm/evm.go:EVM.create", []),
  ("src/vm/init.go:CanTransfer", ["Sign<0", "Cmp>=0"]),
  ("src/vm/init.go:Transfer", []),
  ("src/vm/instructions.go:opStake", []),
  ("src/vm/instructions.go:opSuicide", []),
  ("src/vm/instructions.go:opUnStake", ["Cmp>0"]),
  ("src/vm/instructions.go:opUnStakeAll", [])
]

theorem compares_as_modelled : LedgerFacts.compares = expectedCompares := by decide

/-- The constants of the model are the constants of the source. -/
theorem constants_match : LedgerFacts.consts = expectedConsts := by decide

/-- The transaction fee of the model is `StrToBigInt("0.001")`. -/
theorem fee_is_delta026 : strToBigInt "0.001" = .val txFee := by decide +kernel

end Rangers.Props.C06Sites
