import Rangers.Model.BlockExec
import Rangers.Props.C01
/-!
# C01 (continued) — blocks of any size: the sort result is unique when `Less` is total

For more than 12 transactions Go runs pdqsort, which the model does not replicate.  The driver
answers such blocks only when the insertion-sorted list is `strictSorted`; this file proves that
then *every* permutation satisfying Go's post-condition (`sort.IsSorted`: no adjacent inversion)
is that very list — whatever algorithm, pivot choice or input order produced it.
-/
namespace Rangers.Props.C01C
open Rangers Rangers.Model.BlockExec Rangers.Props.C01
open List

theorem noAdjInv_tail {lt : α → α → Bool} {a : α} {l : List α} (h : noAdjInv lt (a :: l)) : noAdjInv lt l := by
  cases l with
  | nil => trivial
  | cons b l => exact h.2

/-- in a list without adjacent inversion, the element right before `a` is not greater than `a` -/
theorem noAdjInv_pred {lt : α → α → Bool} (s : List α) (p a : α) (r : List α)
    (h : noAdjInv lt (s ++ p :: a :: r)) : lt a p = false := by
  induction s with
  | nil => exact h.1
  | cons x s ih => exact ih (noAdjInv_tail h)

theorem strictSorted_cons {lt : α → α → Bool} {a : α} {l : List α} (h : strictSorted lt (a :: l) = true) :
    (∀ b ∈ l, lt a b = true ∧ lt b a = false) ∧ strictSorted lt l = true := by
  simp only [strictSorted, Bool.and_eq_true, all_eq_true, Bool.not_eq_true'] at h
  exact h

/-- a strictly sorted list has no duplicates (`Less` is irreflexive on it) -/
theorem strictSorted_head_not_mem {lt : α → α → Bool} {a : α} {l : List α} (h : strictSorted lt (a :: l) = true) :
    a ∉ l := by
  intro hm
  have := (strictSorted_cons h).1 a hm
  rw [this.1] at this
  exact absurd this.2 (by simp)

theorem strictSorted_nodup {lt : α → α → Bool} : ∀ {l : List α}, strictSorted lt l = true → l.Nodup
  | [], _ => Pairwise.nil
  | _ :: _, h => nodup_cons.mpr ⟨strictSorted_head_not_mem h, strictSorted_nodup (strictSorted_cons h).2⟩

/-- **sort_result_unique_total.**  If `l₁` is strictly sorted under `lt`, every permutation `l₂` of it
    that has no adjacent inversion equals `l₁`. -/
theorem sort_result_unique_total {α : Type} [DecidableEq α] (lt : α → α → Bool) :
    ∀ (l₁ l₂ : List α), strictSorted lt l₁ = true → l₂ ~ l₁ → noAdjInv lt l₂ → l₂ = l₁
  | [], l₂, _, p, _ => p.eq_nil
  | a :: t, l₂, hs, p, hc => by
    obtain ⟨hall, hst⟩ := strictSorted_cons hs
    have hnot : a ∉ t := strictSorted_head_not_mem hs
    have ha : a ∈ l₂ := p.symm.subset mem_cons_self
    cases l₂ with
    | nil => cases ha
    | cons x rest =>
      have hx : x = a := by
        apply Classical.byContradiction
        intro hne
        have har : a ∈ rest := by
          rcases mem_cons.mp ha with h | h
          · exact absurd h.symm hne
          · exact h
        obtain ⟨s, r, hsplit⟩ := append_of_mem har
        -- the element right before `a` in x :: rest
        have : ∃ s' q, x :: s = s' ++ [q] := by
          rcases eq_nil_or_concat (x :: s) with h | ⟨s', q, h⟩
          · cases h
          · exact ⟨s', q, by simpa using h⟩
        obtain ⟨s', q, hq⟩ := this
        have hl2 : x :: rest = s' ++ q :: a :: r := by
          rw [hsplit, ← cons_append, hq, append_assoc]; rfl
        have hqa : lt a q = false := noAdjInv_pred s' q a r (hl2 ▸ hc)
        have hqmem : q ∈ x :: rest := by rw [hl2]; simp
        have hqne : q ≠ a := by
          intro e
          have hnd : (x :: rest).Nodup := p.nodup_iff.mpr (strictSorted_nodup hs)
          rw [hl2, e] at hnd
          have h2 : (a :: a :: r).Nodup := (nodup_append.mp hnd).2.1
          exact (nodup_cons.mp h2).1 mem_cons_self
        have hqt : q ∈ t := by
          rcases mem_cons.mp (p.subset hqmem) with h | h
          · exact absurd h hqne
          · exact h
        have := (hall q hqt).1
        rw [this] at hqa
        cases hqa
      subst hx
      have prest : rest ~ t := (perm_cons x).mp p
      rw [sort_result_unique_total lt t rest hst prest (noAdjInv_tail hc)]

/-- for blocks of any size: when the driver's `sortTxsAny` answers on a list longer than 12, whatever
    `sort.Sort` returned (a permutation without adjacent inversion) is the list the model executes -/
theorem sortTxsAny_is_any_sorted_result (f : Flags) (txs out goOut : List Tx) (hlen : txs.length > 12)
    (hm : sortTxsAny f txs = some out) (hperm : goOut ~ txs) (hsorted : noAdjInv (txLess f) goOut) :
    goOut = out := by
  unfold sortTxsAny at hm
  simp only [show ¬ txs.length ≤ 12 by omega, if_false] at hm
  split at hm
  · rename_i hs
    cases hm
    exact sort_result_unique_total (txLess f) _ _ hs (hperm.trans (sortTxs_perm f txs).symm) hsorted
  · cases hm

example : strictSorted (txLess ⟨true, true, true, true, true, true⟩) [txA, txB] = true := by decide
example : noAdjInv (txLess ⟨true, true, true, true, true, true⟩) [txA, txB] := ⟨by decide, trivial⟩

end Rangers.Props.C01C
