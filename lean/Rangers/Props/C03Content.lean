import Rangers.Proofs.TrieDBContent
import Rangers.Proofs.TrieDBContentExample
import Rangers.Proofs.TrieRun
/-!
# C03 — completeness as a statement about *content* (composition with C02)

`Props/C03.lean` proves completeness over the hash/reference structure
(`commit_complete`: same tree of blob tags).  Here the blobs are C02's collapsed
trie nodes and the reader is C02's `expand` (`resolveHash`/`expandNode` with every
reference followed): after all batches of a successful commit, every trie
(account trie, every storage trie) and every code blob that was readable below
the root through cache-then-disk is readable **with the same value from the disk
alone**; combined with C02's `expand_collapse`, a trie that `Trie.Commit` put
into the memory database reopens from disk as the very same trie, so every key
reads the same.

Remaining hypotheses, all explicit:
* `Inv s` — holds in every reachable state (`Props.C03.reachable_invariant`);
  contains `Consistent` = a hash names one blob between cache and disk;
* `blobOf : Bytes → Blob` — "the blob with this hash" is a function (no collision
  among the stored nodes), and `Functional (commitStore H t)` (C02's form of the
  same for the nodes of one trie commit);
* `NeedOk` — the abstract `need` lists cover the references of the real content
  (tie: the harness's node describer; the trace/prefix comparison would differ);
* a physical batch write is atomic and durable (the disk after the commit *is*
  `out.st.disk`): LevelDB, not proved.
-/
namespace Rangers.Props.C03Content
open Rangers Rangers.Trie Rangers.Model.TrieDB

/-- **Completeness, content level.**  After a commit that reported success,
    for every hash `hB` a reader could reach from the committed root before the
    commit: the trie below `hB` resolves from the disk alone to the same trie it
    resolved to through cache-then-disk, and a raw blob (contract code) under
    `hB` is read with the same bytes. -/
theorem state_complete_from_disk (κ : Bytes → Hash) (blobOf : Bytes → Blob) (s : St) (rootB : Bytes)
    (fuel : Nat) (out : CommitOut) (hi : Inv s) (hneed : NeedOk κ blobOf (liveLookup s))
    (hc : commit s (κ rootB) none fuel = some out) (hB : Bytes) (hreach : LiveReach s (κ rootB) (κ hB)) :
    (∀ f t, expandF (cget κ blobOf (liveLookup s)) f (.hashRef hB) = some t →
            expandF (cget κ blobOf (diskGet out.st.disk)) f (.hashRef hB) = some t) ∧
    (∀ b, rawget κ blobOf (liveLookup s) hB = some b → rawget κ blobOf (diskGet out.st.disk) hB = some b) := by
  obtain ⟨ws, hw, hd⟩ := commit_none_disk hc
  have hcov := covered_of_reach hi hw hreach
  rw [hd]
  refine ⟨fun f t ht => ?_, fun b hb => ?_⟩
  · exact commit_content_transfer hi hneed hw f (.hashRef hB) t (by intro r hr; simp [refsC] at hr; subst hr; exact hcov) ht
  · unfold rawget at hb ⊢
    cases hl : liveLookup s (κ hB) with
    | none => simp [hl] at hb
    | some dn =>
      have := (commit_step hi hw (κ hB) hcov dn hl).1
      simp only [hl] at hb
      simp only [this]
      exact hb

/-- storage roots and code hashes named by a reachable account-leaf node are reachable:
    `state_complete_from_disk` applies to every storage trie and every code blob of the state. -/
theorem leaf_targets_reachable (κ : Bytes → Hash) (s : St) (rootB parentB targetB : Bytes) (dn : DNode)
    (hp : LiveReach s (κ rootB) (κ parentB)) (hl : liveLookup s (κ parentB) = some dn)
    (ht : κ targetB ∈ dn.need) : LiveReach s (κ rootB) (κ targetB) :=
  LiveReach.step hp hl ht

/-- **Composition with C02's reload theorem.**  A trie `t` (any minimal-form trie,
    e.g. the account trie or a storage trie after any history) whose `Trie.Commit`
    entries the live node database answers, and whose root hash is reachable from
    the committed state root, reopens **from the disk alone** as `t` itself after
    the node commit — so `TryGet` of every key returns what it returned before. -/
theorem committed_trie_reopens_from_disk (H : Bytes → Bytes) (κ : Bytes → Hash) (blobOf : Bytes → Blob)
    (s : St) (rootB : Bytes) (fuel : Nat) (out : CommitOut) (hi : Inv s)
    (hneed : NeedOk κ blobOf (liveLookup s)) (hc : commit s (κ rootB) none fuel = some out)
    (t : Trie.Node) (hwf : WF t) (hnc : Functional (commitStore H t))
    (hstored : ∀ h cn, (commitStore H t).lookup h = some cn → cget κ blobOf (liveLookup s) h = some cn)
    (hreach : LiveReach s (κ rootB) (κ (H (enc H t)))) :
    expandF (cget κ blobOf (diskGet out.st.disk)) (2 * height t + 2) (.hashRef (H (enc H t))) = some t ∧
    ∀ t', expandF (cget κ blobOf (diskGet out.st.disk)) (2 * height t + 2) (.hashRef (H (enc H t))) = some t' →
      ∀ key, Trie.lookup t' key = Trie.lookup t key := by
  have hre : Trie.reload H t = some t := reload_eq H t (Or.inr hwf) hnc
  have hr : Trie.reload H t = Trie.expand (commitStore H t) (2 * height t + 2) (.hashRef (H (enc H t))) := by
    cases t with
    | nil => exact absurd hwf not_WF_nil
    | _ => rfl
  rw [hr, expand_eq_expandF] at hre
  have hlive : expandF (cget κ blobOf (liveLookup s)) (2 * height t + 2) (.hashRef (H (enc H t))) = some t :=
    expandF_transfer _ _ (fun _ => True) (fun h _ cn hcn => ⟨hstored h cn hcn, fun _ _ => trivial⟩)
      _ _ _ (fun _ _ => trivial) hre
  have hdisk := (state_complete_from_disk κ blobOf s rootB fuel out hi hneed hc _ hreach).1 _ _ hlive
  refine ⟨hdisk, fun t' ht' key => ?_⟩
  rw [hdisk] at ht'
  cases ht'
  rfl

/-! ## non-vacuity: a one-leaf trie committed to an empty store

`exH` stands for the hash function (any function will do: a commit of a single
node cannot collide), `exT` is the trie after `Update([1],[2])`, the memory cache
holds its only node. -/

example : ∃ out, commit exS (exK exRoot) none 2 = some out ∧ out.ok = true ∧ out.st.cache = [] := ⟨_, rfl, rfl, rfl⟩

example : WF exT ∧ Functional (commitStore exH exT) ∧ LiveReach exS (exK exRoot) (exK (exH (enc exH exT))) := by
  refine ⟨?_, ?_, LiveReach.root (by decide)⟩
  · have : WFRoot (Trie.run [.upd [1] [2]]) := (represents_run [.upd [1] [2]]).wf
    rcases this with h | h
    · exact absurd h (by simp [Trie.run] <;> intro hc <;> cases hc)
    · exact h
  · intro e1 h1 e2 h2 _
    have hs : commitStore exH exT = [(exH (enc exH exT), collapse exH exT)] := rfl
    rw [hs] at h1 h2
    simp only [List.mem_singleton] at h1 h2
    rw [h1, h2]

example : NeedOk exK exBlob (liveLookup exS) := by
  intro h dn cn _ hb r hr
  unfold exBlob at hb
  split at hb
  · simp only [Blob.node.injEq] at hb
    subst hb
    have : refsC (collapse exH exT) = [] := by decide
    rw [this] at hr
    simp at hr
  · simp at hb

example : ∀ h cn, (commitStore exH exT).lookup h = some cn → cget exK exBlob (liveLookup exS) h = some cn := by
  intro h cn hl
  have hs : commitStore exH exT = [(exRoot, collapse exH exT)] := rfl
  rw [hs, List.lookup_cons] at hl
  by_cases hh : h = exRoot
  · subst hh
    simp at hl
    subst hl
    unfold cget
    have : liveLookup exS (exK exRoot) = some ⟨(enc exH exT).length, 0, []⟩ := by decide
    simp [this, exBlob]
  · have : (h == exRoot) = false := by simpa using hh
    simp [this] at hl

end Rangers.Props.C03Content
