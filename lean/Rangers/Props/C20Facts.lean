import Rangers.Model.Miner
import Rangers.Generated.C20Facts
import Rangers.Model.MinerRefundHeight
/-!
T-gen obligations for C20: the constants and structural facts the miner model was written against,
re-extracted from the go-rangers working tree on every run (`gen/cmd/c20facts`). If the source
changes one of them, the corresponding theorem stops checking and the check turns red until the
model (and the theorems about it) have been brought in line.
-/
namespace Rangers.Props.C20Facts
open Rangers Rangers.Miner

theorem constants_match :
    validatorStake = Generated.C20.validatorStake ∧ proposerStake = Generated.C20.proposerStake ∧
    heightAfterStake = Generated.C20.heightAfterStake ∧ refundDelay = Generated.C20.refundHeight ∧
    fee = Generated.C20.fee026Wei ∧ typeValidator = Generated.C20.minerTypeValidator ∧
    typeProposer = Generated.C20.minerTypeProposer ∧ statusNormal = Generated.C20.minerStatusNormal ∧
    statusAbort = Generated.C20.minerStatusAbort := by decide

theorem fee_account_matches : String.join (feeAccount.map hexOfByte) = Generated.C20.feeAccountHex := by decide

/-- `AddMiner` rejects in the order the model's `addMiner` does: type, minimum stake, keys, balance,
    id in use, account in use. -/
theorem addMiner_check_order :
    Generated.C20.addMinerChecks = ["miner type error", "not enough stake", "VrfPublicKey or PublicKey is empty",
      "not enough max", "miner is existed", "miner account is existed"] := by decide

/-- Application compares with `<` (so the minimum itself is enough), re-activation with `>`
    (`minStake` / `reactivates` in the model). -/
theorem comparison_operators_as_modelled :
    Generated.C20.addMinerMinimum = ["< common.ValidatorStake", "< common.ProposerStake"] ∧
    Generated.C20.addStakeReactivation = ["> common.ProposerStake", "> common.ValidatorStake"] := by decide

/-- `UpdateMiner` writes record/stake/account/status under `id`, `H id`, `H² id`, `H³ id`;
    `RemoveMiner` writes four empty values or stake + status. -/
theorem write_counts_as_modelled :
    Generated.C20.updateMinerSetData = 4 ∧ Generated.C20.updateMinerSha256 = 3 ∧ Generated.C20.removeMinerSetData = 6 := by decide

/-- The refund executor still appends to a copy of the per-height list (`pendingAdd` models the loss). -/
theorem refund_bookkeeping_as_modelled : Generated.C20.refundOkBranchStoresBack = false := by decide

/-- The call sequence of `VMExecutor.Execute`/`after` that `runTx`/`endBlock` (and the harness) mirror. -/
theorem sequencing_as_mirrored :
    Generated.C20.vmExecutorCalls = ["prepare", "BeforeExecute", "Snapshot", "Execute", "RevertToSnapshot", "after", "IntermediateRoot"] ∧
    Generated.C20.vmExecutorAfterCalls = ["Add", "Add", "CheckAndMove", "CheckAndMove"] := by decide

/-- `AddMiner` writes the public-key cache only after its last rejecting return and after the registry
    write (`pkAfter` in the model: only an accepted application reaches it). -/
theorem pk_put_is_last : Generated.C20.addMinerPkPutLast = true := by decide

/-- `AddStake` updates `miner.Stake` before the re-activation test reads it (`addStakeApply` decides on the new stake). -/
theorem addStake_decides_on_new_stake : Generated.C20.addStakeUpdatesStakeBeforeStatusTest = true := by decide

/-- Shared mutable state: on the miner path only the two service constructors assign package-level variables
    (no scratch buffers, caches or singletons are written while transactions execute). -/
theorem no_package_state_written_on_path :
    Generated.C20.packageLevelWrites =
      ["miner_manager.go:InitMinerManager:MinerManagerImpl", "refund_manager.go:InitRefundManager:RefundManagerImpl"] := by
  decide

/-- Fork configuration: exactly these proposal / network flags are read on the miner path. The model fixes each of
    them to its value beyond the last proposal of the network (dev: height ≥ 12; mainnet: height ≥ 69329000; robin:
    height ≥ 84150000; `IsMainnet` is an input of the driver; `IsSub` false; heights ≠ Proposal004/010/011/019Block).
    A new flag read on the path breaks this theorem. -/
theorem fork_flags_on_path :
    Generated.C20.forkFlagsOnPath = ["IsMainnet", "IsProposal003", "IsProposal004", "IsProposal006", "IsProposal007",
      "IsProposal012", "IsProposal013", "IsProposal015", "IsProposal018", "IsProposal021", "IsProposal026", "IsProposal027",
      "IsSub", "LocalChainConfig.Proposal004Block", "LocalChainConfig.Proposal010Block", "LocalChainConfig.Proposal011Block",
      "LocalChainConfig.Proposal019Block"] := by decide

/-- The "refund more than the stake" guard is the unsigned comparison `miner.Stake < money` and what stays locked is
    the unsigned difference `miner.Stake - money` (`execRefund`: `m.stake < refundMoney …`, `m.stake - money` on `Nat`
    below 2^64 — no signed detour on which amounts above 2^63 change sign). -/
theorem refund_guard_as_modelled :
    Generated.C20.refundGuard = ["miner.Stake < money"] ∧ Generated.C20.refundLeft = ["left := miner.Stake - money"] := by decide

/-- Every numeric type conversion in the arithmetic of miner_manager.go / refund_manager.go: the two `float64(stake)`
    debits the model has as `f64`, literal/length widenings to `uint64`, and the group count of the pre-Proposal012
    refund height. A new narrowing or sign-changing conversion (e.g. `int64(miner.Stake)`) breaks this fact. -/
theorem numeric_conversions_as_modelled :
    Generated.C20.numericConversions =
      ["miner_manager.go:AddMiner:float64(miner.Stake)", "miner_manager.go:AddStake:float64(delta)",
       "miner_manager.go:GetProposerTotalStake:uint64(…)", "miner_manager.go:GetProposerTotalStakeWithDetail:uint64(…)",
       "miner_manager.go:GetValidatorsStake:uint64(…)", "refund_manager.go:getRefundHeight:int(…)",
       "refund_manager.go:getRefundHeight:uint64(…)"] := by decide

/-- `getRefundHeight`: its branch conditions in source order (what `refundHeightOf` follows) and the two block counts. -/
theorem refund_height_as_modelled :
    Generated.C20.refundHeightConds =
      ["common.IsProposal012()", "minerType == common.MinerTypeValidator", "situation != \"fork\"", "delta > 0",
       "base != math.MaxUint64", "common.IsProposal004() && height <= 0", "common.LocalChainConfig.Proposal011Block == now"] ∧
    refundBlocks = Generated.C20.refundBlocks ∧ rewardBlocks = Generated.C20.rewardBlocks := by decide

end Rangers.Props.C20Facts
