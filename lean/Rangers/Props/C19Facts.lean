import Rangers.Model.GroupChain
import Rangers.Generated.GroupChainFacts
/-!
C19, tie T-gen: the write discipline the translator `gen/cmd/c19facts` reads off
`src/core/*.go` on every run is exactly the one the model performs.

`Generated.GroupChainFacts` is regenerated from the working tree before this file is
checked. A re-ordered `Put`, a changed key expression, an extra write, a new caller of
`save`/`remove` or a new writer of `count`/`lastGroup` changes the generated lists and
breaks one of the theorems below.
-/
namespace Rangers.Props.C19Facts
open Rangers Rangers.Model.GroupChain
open Rangers.Generated.GroupChainFacts

/-- Source text of a key expression, recognised from the key the MODEL writes (for a chain
    with `count` groups, the group `g` at hand and, for `remove`, its predecessor `pre`). -/
def keyText (count : Nat) (g : Group) (k : Bytes) : String :=
  if k = g.id then "group.Id"
  else if k = curKey then "[]byte(lastGroupKey)"
  else if k = cntKey then "[]byte(groupCountKey)"
  else if k = hkey count then "generateKey(chain.count)"
  else if k = hkey (count - 1) then "generateKey(chain.count - 1)"
  else "?"

def valText (count : Nat) (g : Group) (pre : Option Group) : Val → String
  | .grp x => if x = stamped count g then "‹json.Marshal(group)›#0" else "?"
  | .ref id =>
    if id = g.id then "group.Id"
    else if some id = pre.map (·.id) then "‹chain.getGroupById(group.Header.PreGroup)›.Id" else "?"
  | .cnt n => if n = count + 1 then "utility.UInt64ToByte(chain.count + 1)" else "utility.UInt64ToByte(chain.count)"

def writeText (count : Nat) (g : Group) (pre : Option Group) : Write → String
  | .put k v => "Put " ++ keyText count g k ++ " <- " ++ valText count g pre v
  | .del k => "Delete " ++ keyText count g k

/-- The value stored under `gcount` by a write list (to place `count++` / `count--`). -/
def countWritten : List Write → Option Nat
  | [] => none
  | .put k (.cnt n) :: t => if k = cntKey then some n else countWritten t
  | _ :: t => countWritten t

/-- The model's `save`, rendered as the source statements it stands for: the first physical write
    as a plain `Put`, the second one as a batch of `Put`s whose `Write` error is returned (the model
    leaves memory untouched when that write fails: `saveF … (some 1)`), then `count++`. -/
def modelSaveEffects (c : Chain) (g : Group) : List String :=
  match saveGroups c.count g with
  | [first, batch] =>
    first.map (writeText c.count g none) ++
    ["NewBatch"] ++
    batch.map (fun w => "Batch" ++ writeText c.count g none w) ++
    (if (saveF c g (some 1)).2.1 = true ∧ (saveF c g (some 1)).1.count = c.count
        ∧ (saveF c g (some 1)).1.last = c.last ∧ (saveF c g (some 1)).1.mirror = c.mirror
      then ["BatchWrite (error returned)"] else ["?"]) ++
    (if countWritten (first ++ batch) = some (c.count + 1) ∧ (save c g).count = c.count + 1 then ["chain.count++"] else ["?"])
  | _ => ["?"]

/-- In-memory / sqlite statements of `save` the model accounts for (sorted as the translator sorts). -/
def modelSaveMemory (c : Chain) (g : Group) : List String :=
  (if (save c g).last.id = g.id then ["chain.lastGroup = group"] else ["?"]) ++
  (if (save c g).last.height = c.count then ["group.GroupHeight = chain.count"] else ["?"]) ++
  (if g.id ∈ (save c g).mirror then ["mysql.InsertGroup group"] else ["?"])

def modelRemoveEffects (c : Chain) (g pre : Group) : List String :=
  let ws := removeWrites c.count g pre
  let txt := ws.map (writeText c.count g (some pre))
  txt.take 3 ++
  (if countWritten ws = some (c.count - 1) ∧ (remove c g).2.count = c.count - 1 then ["chain.count--"] else ["?"]) ++
  txt.drop 3

def modelRemoveMemory (c : Chain) (g pre : Group) : List String :=
  (if (remove c g).2.last = pre then ["chain.lastGroup = ‹chain.getGroupById(group.Header.PreGroup)›"] else ["?"]) ++
  (if g.id ∉ (remove c g).2.mirror then ["mysql.DeleteGroup group.Id"] else ["?"])

/-- A generic witness state: five groups on chain, last group `wG` with predecessor `wP`. -/
def wP : Group := { id := [0xd4], pre := [0xc3], parent := [0x90, 0x01], height := 3, create := 4 }
def wG : Group := { id := [0xe5, 0xe6], pre := [0xd4], parent := [0x90, 0x01], height := 4, create := 5 }
def wN : Group := { id := [0xf7], pre := [0xe5, 0xe6], parent := [0x90, 0x01], height := 7777, create := 6 }
def wC : Chain :=
  { disk := [([0xd4], .grp wP), ([0xe5, 0xe6], .grp wG)], count := 5, last := wG, mirror := [[0xe5, 0xe6], [0xd4]] }

set_option maxRecDepth 8000 in
/-- `groupChain.save` in the source performs exactly the model's effects, in the model's order and
    grouping (one `Put`, then one batch of three whose error is returned, then `count++`). -/
theorem save_effects_match :
    saveEffects = modelSaveEffects wC wN ∧ saveMemory = modelSaveMemory wC wN := by decide

/-- `groupChain.remove` in the source performs exactly the model's effects, in the model's order
    (after the `fix:` commit: `Delete generateKey(chain.count - 1)`). -/
theorem remove_effects_match :
    removeEffects = modelRemoveEffects wC wG wP ∧ removeMemory = modelRemoveMemory wC wG wP := by decide

/-- (Locals are shown as ‹defining expression›#result-index; a name defined twice shows its first
    definition — `exist` below.) `AddGroup`'s guards, in the order `addCheck` evaluates them: already stored → exists;
    consensus check; parent stored; predecessor = last; then `save`. -/
theorem add_guards_match : addGuards =
    ["nil == group",
     "‹chain.groups.Has(group.Id)›#0, _ := chain.groups.Has(group.Id); ‹chain.groups.Has(group.Id)›#0",
     "‹consensusHelper.CheckGroup(group)›#0, ‹consensusHelper.CheckGroup(group)›#1 := consensusHelper.CheckGroup(group)",
     "!‹consensusHelper.CheckGroup(group)›#0",
     "‹chain.groups.Has(group.Id)›#0, _ := chain.groups.Has(group.Header.Parent)",
     "!‹chain.groups.Has(group.Id)›#0",
     "!bytes.Equal(chain.lastGroup.Id, group.Header.PreGroup)",
     "return chain.save(group)"] := by decide

set_option maxRecDepth 8000 in
/-- Nobody but `save`, `remove` and start-up writes the group store, `count` or `lastGroup`
    anywhere in package core, and they write exactly this much. -/
theorem only_known_writers : stateWriters =
    ["*groupChain.remove: Delete",
     "*groupChain.remove: Delete",
     "*groupChain.remove: Put",
     "*groupChain.remove: Put",
     "*groupChain.remove: chain.count--",
     "*groupChain.remove: chain.lastGroup = ‹chain.getGroupById(group.Header.PreGroup)›",
     "*groupChain.save: BatchPut",
     "*groupChain.save: BatchPut",
     "*groupChain.save: BatchPut",
     "*groupChain.save: BatchWrite",
     "*groupChain.save: NewBatch",
     "*groupChain.save: Put",
     "*groupChain.save: chain.count++",
     "*groupChain.save: chain.lastGroup = group",
     "*groupChain.save: group.GroupHeight = chain.count",
     "initGroupChain: ‹&groupChain{}›.count = utility.ByteToUInt64(‹chain.groups.Get([]byte(groupCountKey))›#0)",
     "initGroupChain: ‹&groupChain{}›.lastGroup = lastGroup"] := by decide

/-- `save` is called by start-up (genesis groups) and `AddGroup` only; `remove` by the fork
    switch (`removeFromCommonAncestor`) only — the operations `Props/C19.lean` covers. -/
theorem callers_match :
    saveCallers = ["initGroupChain", "*groupChain.AddGroup"] ∧
    removeCallers = ["*groupChain.removeFromCommonAncestor"] := by decide

/-- Lock discipline (what makes the sequential theorems of `Props/C19.lean` apply to concurrent
    callers): `AddGroup` takes the chain lock — released only on return — BEFORE it reads the parent
    entry and `lastGroup` and calls `save`; `removeFromCommonAncestor`, the only caller of `remove`,
    takes it before reading the height and calling `remove`; `save`/`remove` never touch the lock.
    Only the duplicate-id check and the consensus check run outside the lock. -/
theorem lock_discipline :
    addLockOrder = ["Has group.Id", "CheckGroup", "Lock", "defer Unlock", "Has group.Header.Parent",
                    "touch chain.lastGroup", "call chain.save"] ∧
    ancestorLockOrder = ["Lock", "defer Unlock", "call chain.height", "call chain.getGroupByHeight",
                         "call chain.remove"] ∧
    saveLockOps = [] ∧ removeLockOps = [] := by decide

/-! ### key spaces: the model's keys are the source's, and the fork database cannot reach them -/

def bytesOf (s : String) : Bytes := s.toList.map (fun c => UInt8.ofNat c.toNat)

/-- The model's bookkeeping keys are the source's constants. -/
theorem model_keys_match_source :
    bytesOf lastGroupKey = curKey ∧ bytesOf groupCountKey = cntKey := by decide

/-- All prefixed stores share one LevelDB; the fork database's prefix extends the chain's
    (`"groupFork" = "group" ++ "Fork"`), so every fork key `X` is the chain-side raw key `"Fork" ++ X`. -/
theorem fork_prefix_extends_chain_prefix :
    groupForkDBPrefix.toList = groupChainPrefix.toList ++ "Fork".toList := by decide

/-- The raw keys the group chain uses (without the store prefix), for a 32-byte id and a height key. -/
def chainKeys (id hk : List Char) : List (List Char) :=
  [id, hk, lastGroupKey.toList, groupCountKey.toList]

/-- The raw keys `groupChainFork` uses: `group.Id`, `generateHeightKey(h)`, and its two markers. -/
def forkKeys (id hk : List Char) : List (List Char) :=
  [id, hk, latestGroupHeightKey.toList, groupCommonAncestorHeightKey.toList]

/-- With real (32-byte) group ids and 8-byte height keys, no physical key of the fork database is
    a physical key of the group chain: the shared key space is harmless. (An id of the form
    `"Fork" ++ X` — 12 or 36 bytes — would collide; the correspondence run exercises that.) -/
theorem fork_keyspace_disjoint (id id' hk hk' : List Char) (h1 : id.length = 32) (h2 : id'.length = 32)
    (h3 : hk.length = 8) (h4 : hk'.length = 8) :
    ∀ ck ∈ chainKeys id hk, ∀ fk ∈ forkKeys id' hk',
      groupChainPrefix.toList ++ ck ≠ groupForkDBPrefix.toList ++ fk := by
  intro ck hck fk hfk e
  rw [fork_prefix_extends_chain_prefix, List.append_assoc] at e
  have e' : ck = "Fork".toList ++ fk := List.append_cancel_left e
  have hl : ck.length = 4 + fk.length := by rw [e']; simp; omega
  have hf : fk.length = 32 ∨ fk.length = 8 ∨ fk.length = 11 ∨ fk.length = 24 := by
    simp only [forkKeys, List.mem_cons, List.mem_nil_iff, or_false] at hfk
    rcases hfk with rfl | rfl | rfl | rfl
    · exact Or.inl h2
    · exact Or.inr (Or.inl h4)
    · exact Or.inr (Or.inr (Or.inl (by decide)))
    · exact Or.inr (Or.inr (Or.inr (by decide)))
  simp only [chainKeys, List.mem_cons, List.mem_nil_iff, or_false] at hck
  rcases hck with rfl | rfl | rfl | rfl
  · omega
  · omega
  · have : lastGroupKey.toList.length = 8 := by decide
    omega
  · have : groupCountKey.toList.length = 6 := by decide
    omega

example : (chainKeys (List.replicate 32 'a') (List.replicate 8 'h')).length = 4 := rfl

/-! ### all the state there is -/

/-- The chain object has exactly the state the model has: `count`, `lastGroup`, the store
    (`groups`) — plus the lock and the joined-groups store, which the property does not touch.
    A cache or any other new field in front of the store has to be modelled before this holds again.
    The only package-level variable written is the singleton pointer at start-up, and no network /
    fork-schedule flag is read: the behaviour does not depend on the chain configuration or height. -/
theorem state_inventory :
    groupChainFields = ["count uint64", "lock sync.RWMutex", "lastGroup *types.Group",
                        "groups db.Database", "joinedGroups *db.LDBDatabase"] ∧
    packageStateWrites = ["initGroupChain: groupChainImpl"] ∧
    forkFlagReads = [] := by decide

/-! ### refusals and results -/

/-- `removeFromCommonAncestor` ignores the result of `remove` and carries on with the next lower
    height, and `remove` addresses the height slot as `count-1`: that is sound only because every
    refusal of `remove` (`return false`) happens BEFORE its first effect — store write, count /
    lastGroup update or sqlite statement — and, on a chain that represents a list, never fires inside
    the loop (`Props/C19.lean: inv_remove`, `inv_rmto`). A refusal after an effect, or a new ignored
    result, changes these lists. `save`'s error results are consumed by both callers. -/
theorem result_discipline :
    removeReturns = ["return true after 0 effects", "return false after 0 effects",
                     "return true after 7 effects"] ∧
    saveReturns = ["return err after 0 effects", "return err after 2 effects", "return nil after 5 effects"] ∧
    resultUses = ["initGroupChain: save result assigned", "*groupChain.AddGroup: save result returned",
                  "*groupChain.removeFromCommonAncestor: remove result ignored"] := by decide

/-! ### selection rule, header rewrite and fork switch: the source has the model's shape -/

set_option maxRecDepth 8000 in
/-- `AddGroup` overwrites `DismissHeight` with `CreateHeight + GetGroupWorkDuration()` (model:
    `prepare`); `availableGroupsAt` walks the iterator, keeps a group iff `DismissHeight > h` (strict),
    and at the first other group appends `GetGroupByHeight(0)` and breaks (model: `availWalk`);
    `triggerOnChain` removes down to the ancestor once, then `AddGroup`s the fork's groups in height
    order and stops at the first refusal (model: `forkSwitch` / `addAll`). -/
theorem selection_and_switch_shape :
    addHeaderRewrite = ["header.WorkHeight = header.CreateHeight + uint64(common.GROUP_Work_GAP)",
                        "header.DismissHeight = header.CreateHeight + common.GetGroupWorkDuration()"] ∧
    availableShape = ["for g := iter.Current(); g != nil; g = iter.MovePre()", "call iter.Current()",
                      "call iter.MovePre()", "if g.Header.DismissHeight > h", "call append(gs, g)",
                      "call chain.GetGroupByHeight(0)", "call append(gs, genesis)", "break", "return gs"] ∧
    triggerOnChainShape = ["if fork.current == fork.header",
                           "call groupChain.removeFromCommonAncestor(fork.getGroup(fork.header))",
                           "call fork.getGroup(fork.header)",
                           "for fork.current <= fork.latestGroup.GroupHeight",
                           "call fork.getGroup(fork.current)", "if forkGroup == nil", "return false",
                           "call groupChain.AddGroup(forkGroup)", "if err == nil", "continue",
                           "return false", "return true"] := by decide

end Rangers.Props.C19Facts
