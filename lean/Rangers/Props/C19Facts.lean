import Rangers.Model.GroupChain
import Rangers.Generated.GroupChainFacts
/-!
C19, tie T-gen: the write discipline the translator `gen/cmd/c19facts` reads off
`src/core/*.go` on every run is exactly the one the model performs.

`Generated.GroupChainFacts` is regenerated from the working tree before this file is
checked. A re-ordered `Put`, a changed key expression, an extra write, a new caller of
`save`/`remove` or a new writer of `count`/`lastGroup` changes the generated lists and
breaks one of the theorems below.
-/
namespace Rangers.Props.C19Facts
open Rangers Rangers.Model.GroupChain
open Rangers.Generated.GroupChainFacts

/-- Source text of a key expression, recognised from the key the MODEL writes (for a chain
    with `count` groups, the group `g` at hand and, for `remove`, its predecessor `pre`). -/
def keyText (count : Nat) (g : Group) (k : Bytes) : String :=
  if k = g.id then "group.Id"
  else if k = curKey then "[]byte(lastGroupKey)"
  else if k = cntKey then "[]byte(groupCountKey)"
  else if k = hkey count then "generateKey(chain.count)"
  else if k = hkey (count - 1) then "generateKey(chain.count - 1)"
  else "?"

def valText (count : Nat) (g : Group) (pre : Option Group) : Val → String
  | .grp x => if x = stamped count g then "‹json.Marshal(group)›#0" else "?"
  | .ref id =>
    if id = g.id then "group.Id"
    else if some id = pre.map (·.id) then "‹chain.getGroupById(group.Header.PreGroup)›.Id" else "?"
  | .cnt _ => "utility.UInt64ToByte(chain.count)"

def writeText (count : Nat) (g : Group) (pre : Option Group) : Write → String
  | .put k v => "Put " ++ keyText count g k ++ " <- " ++ valText count g pre v
  | .del k => "Delete " ++ keyText count g k

/-- The value stored under `gcount` by a write list (to place `count++` / `count--`). -/
def countWritten : List Write → Option Nat
  | [] => none
  | .put k (.cnt n) :: t => if k = cntKey then some n else countWritten t
  | _ :: t => countWritten t

/-- The model's `save`, rendered as the source statements it stands for: the writes up to the
    one that stores the incremented count, with `count++` placed before that one. -/
def modelSaveEffects (c : Chain) (g : Group) : List String :=
  let ws := saveWrites c.count g
  let txt := ws.map (writeText c.count g none)
  txt.take 3 ++
  (if countWritten ws = some (c.count + 1) ∧ (save c g).count = c.count + 1 then ["chain.count++"] else ["?"]) ++
  txt.drop 3

/-- In-memory / sqlite statements of `save` the model accounts for (sorted as the translator sorts). -/
def modelSaveMemory (c : Chain) (g : Group) : List String :=
  (if (save c g).last.id = g.id then ["chain.lastGroup = group"] else ["?"]) ++
  (if (save c g).last.height = c.count then ["group.GroupHeight = chain.count"] else ["?"]) ++
  (if g.id ∈ (save c g).mirror then ["mysql.InsertGroup group"] else ["?"])

def modelRemoveEffects (c : Chain) (g pre : Group) : List String :=
  let ws := removeWrites c.count g pre
  let txt := ws.map (writeText c.count g (some pre))
  txt.take 3 ++
  (if countWritten ws = some (c.count - 1) ∧ (remove c g).2.count = c.count - 1 then ["chain.count--"] else ["?"]) ++
  txt.drop 3

def modelRemoveMemory (c : Chain) (g pre : Group) : List String :=
  (if (remove c g).2.last = pre then ["chain.lastGroup = ‹chain.getGroupById(group.Header.PreGroup)›"] else ["?"]) ++
  (if g.id ∉ (remove c g).2.mirror then ["mysql.DeleteGroup group.Id"] else ["?"])

/-- A generic witness state: five groups on chain, last group `wG` with predecessor `wP`. -/
def wP : Group := { id := [0xd4], pre := [0xc3], parent := [0x90, 0x01], height := 3, create := 4 }
def wG : Group := { id := [0xe5, 0xe6], pre := [0xd4], parent := [0x90, 0x01], height := 4, create := 5 }
def wN : Group := { id := [0xf7], pre := [0xe5, 0xe6], parent := [0x90, 0x01], height := 7777, create := 6 }
def wC : Chain :=
  { disk := [([0xd4], .grp wP), ([0xe5, 0xe6], .grp wG)], count := 5, last := wG, mirror := [[0xe5, 0xe6], [0xd4]] }

/-- `groupChain.save` in the source performs exactly the model's effects, in the model's order. -/
theorem save_effects_match :
    saveEffects = modelSaveEffects wC wN ∧ saveMemory = modelSaveMemory wC wN := by decide

/-- `groupChain.remove` in the source performs exactly the model's effects, in the model's order
    (after the `fix:` commit: `Delete generateKey(chain.count - 1)`). -/
theorem remove_effects_match :
    removeEffects = modelRemoveEffects wC wG wP ∧ removeMemory = modelRemoveMemory wC wG wP := by decide

/-- (Locals are shown as ‹defining expression›#result-index; a name defined twice shows its first
    definition — `exist` below.) `AddGroup`'s guards, in the order `addCheck` evaluates them: already stored → exists;
    consensus check; parent stored; predecessor = last; then `save`. -/
theorem add_guards_match : addGuards =
    ["nil == group",
     "‹chain.groups.Has(group.Id)›#0, _ := chain.groups.Has(group.Id); ‹chain.groups.Has(group.Id)›#0",
     "‹consensusHelper.CheckGroup(group)›#0, ‹consensusHelper.CheckGroup(group)›#1 := consensusHelper.CheckGroup(group)",
     "!‹consensusHelper.CheckGroup(group)›#0",
     "‹chain.groups.Has(group.Id)›#0, _ := chain.groups.Has(group.Header.Parent)",
     "!‹chain.groups.Has(group.Id)›#0",
     "!bytes.Equal(chain.lastGroup.Id, group.Header.PreGroup)",
     "return chain.save(group)"] := by decide

/-- Nobody but `save`, `remove` and start-up writes the group store, `count` or `lastGroup`
    anywhere in package core, and they write exactly this much. -/
theorem only_known_writers : stateWriters =
    ["*groupChain.remove: Delete",
     "*groupChain.remove: Delete",
     "*groupChain.remove: Put",
     "*groupChain.remove: Put",
     "*groupChain.remove: chain.count--",
     "*groupChain.remove: chain.lastGroup = ‹chain.getGroupById(group.Header.PreGroup)›",
     "*groupChain.save: Put",
     "*groupChain.save: Put",
     "*groupChain.save: Put",
     "*groupChain.save: Put",
     "*groupChain.save: chain.count++",
     "*groupChain.save: chain.lastGroup = group",
     "*groupChain.save: group.GroupHeight = chain.count",
     "initGroupChain: ‹&groupChain{}›.count = utility.ByteToUInt64(‹chain.groups.Get([]byte(groupCountKey))›#0)",
     "initGroupChain: ‹&groupChain{}›.lastGroup = lastGroup"] := by decide

/-- `save` is called by start-up (genesis groups) and `AddGroup` only; `remove` by the fork
    switch (`removeFromCommonAncestor`) only — the operations `Props/C19.lean` covers. -/
theorem callers_match :
    saveCallers = ["initGroupChain", "*groupChain.AddGroup"] ∧
    removeCallers = ["*groupChain.removeFromCommonAncestor"] := by decide

/-- Lock discipline (what makes the sequential theorems of `Props/C19.lean` apply to concurrent
    callers): `AddGroup` takes the chain lock — released only on return — BEFORE it reads the parent
    entry and `lastGroup` and calls `save`; `removeFromCommonAncestor`, the only caller of `remove`,
    takes it before reading the height and calling `remove`; `save`/`remove` never touch the lock.
    Only the duplicate-id check and the consensus check run outside the lock. -/
theorem lock_discipline :
    addLockOrder = ["Has group.Id", "CheckGroup", "Lock", "defer Unlock", "Has group.Header.Parent",
                    "touch chain.lastGroup", "call chain.save"] ∧
    ancestorLockOrder = ["Lock", "defer Unlock", "call chain.height", "call chain.getGroupByHeight",
                         "call chain.remove"] ∧
    saveLockOps = [] ∧ removeLockOps = [] := by decide

end Rangers.Props.C19Facts
