import Rangers.Proofs.Evm10Mem
import Rangers.Props.C10B
/-!
# C10, part 4 — what memory contains after each memory-writing opcode

All statements are byte-wise with `List.getD · 0`: reading past the end of call data / code /
a short PUSH yields 0, which is exactly the specification's zero fill.  `m` is the memory
`execute` sees (already resized), `m'` the memory it leaves.
-/
namespace Rangers.Props.C10
open Rangers Rangers.Model.Evm10 Rangers.Model.Evm10.U256 Rangers.Proofs.Evm10

/-- the 32-byte big-endian form read back as a word is the word: `SetBytes(Bytes32(v)) = v` -/
theorem word_bytes_roundtrip (v : Word) : setBytes (toBytes32 v) = v := setBytes_toBytes32 v

/-- MSTORE: bytes `off..off+31` become the big-endian bytes of the value (most significant
first), everything else and the length are unchanged. -/
theorem mstore_spec (m m' : Bytes) (off : Nat) (v : Word) (h : Mem.set32 m off v = some m') :
    m'.length = m.length ∧
    ∀ j, m'.getD j 0 = if off ≤ j ∧ j < off + 32 then (toBytes32 v).getD (j - off) 0 else m.getD j 0 := by
  obtain ⟨e, hb⟩ := set32_eq_splice h
  refine ⟨set32_length h, ?_⟩
  intro j
  rw [e, splice_getD _ _ _ (by rw [toBytes32_length]; exact hb), toBytes32_length]

/-- byte `i` of the big-endian form is ⌊v / 256^(31−i)⌋ mod 256 -/
theorem toBytes32_byte (v : Word) (i : Nat) (hi : i < 32) :
    ((toBytes32 v).getD i 0).toNat = (v.toNat / 2 ^ (8 * (31 - i))) % 256 := by
  simp only [toBytes32, List.getD_eq_getElem?_getD, List.getElem?_map, List.getElem?_range hi,
    Option.map_some, Option.getD_some, byteAt, Nat.shiftRight_eq_div_pow]
  simp [UInt8.toNat_ofNat']

/-- MSTORE then MLOAD at the same offset returns the stored word. -/
theorem mload_after_mstore (m m' : Bytes) (off : Nat) (v : Word) (h : Mem.set32 m off v = some m') :
    (Mem.getPtr m' off 32).map setBytes = some v := by
  obtain ⟨e, hb⟩ := set32_eq_splice h
  have hlen := set32_length h
  unfold Mem.getPtr
  have h1 : m'.length > off := by omega
  have h2 : off + 32 ≤ m'.length := by omega
  simp only [show (32 : Nat) ≠ 0 by omega, if_false, h1, if_true, h2, Option.map_some]
  congr 1
  rw [← setBytes_toBytes32 v]
  congr 1
  rw [e, splice, toBytes32_length]
  have hto : (m.take off).length = off := by simp; omega
  rw [List.append_assoc, List.drop_append_of_le_length (by omega), List.drop_of_length_le (by omega)]
  simp [toBytes32_length]

example : Mem.set32 (List.replicate 64 0) 1 (0xabcd : Word) ≠ none := by decide

/-- MSTORE8: byte `off` becomes the low 8 bits of the value, nothing else changes. -/
theorem mstore8_spec (m m' : Bytes) (off : Nat) (val : Word)
    (h : Mem.setByte m off (UInt8.ofNat (lo64 val)) = some m') :
    m'.length = m.length ∧ (m'.getD off 0).toNat = val.toNat % 256 ∧
    ∀ j, j ≠ off → m'.getD j 0 = m.getD j 0 := by
  obtain ⟨e, hb⟩ := setByte_eq_splice h
  refine ⟨setByte_length h, ?_, ?_⟩
  · rw [e, splice_getD _ _ _ (by simpa using hb)]
    have : off ≤ off ∧ off < off + ([UInt8.ofNat (lo64 val)] : Bytes).length := by simp
    rw [if_pos this]
    simp only [Nat.sub_self, List.getD_cons_zero, UInt8.toNat_ofNat', lo64]
    omega
  · intro j hj
    rw [e, splice_getD _ _ _ (by simpa using hb)]
    have : ¬ (off ≤ j ∧ j < off + ([UInt8.ofNat (lo64 val)] : Bytes).length) := by
      simp only [List.length_singleton]; omega
    rw [if_neg this]

example : Mem.setByte [1, 2, 3] 1 9 = some [1, 9, 3] := by decide

/-- MCOPY (EIP-5656): the destination range receives the bytes the source range held BEFORE the
copy (so overlapping ranges behave like memmove); everything else is unchanged. -/
theorem mcopy_spec (m m' : Bytes) (dst src len : Nat) (h : Mem.copy m dst src len = some m')
    (hd : dst + len ≤ m.length) :
    m'.length = m.length ∧
    ∀ j, m'.getD j 0 = if dst ≤ j ∧ j < dst + len then m.getD (src + (j - dst)) 0 else m.getD j 0 := by
  refine ⟨copy_length h, ?_⟩
  intro j
  by_cases hl : len = 0
  · subst hl
    have : m' = m := by simpa [Mem.copy] using h.symm
    rw [this]
    have : ¬ (dst ≤ j ∧ j < dst + 0) := by omega
    rw [if_neg this]
  · obtain ⟨e, hs⟩ := copy_eq_splice h hl hd
    have hlen : ((m.drop src).take len).length = len := by simp; omega
    rw [e, splice_getD _ _ _ (by rw [hlen]; exact hd), hlen]
    by_cases hin : dst ≤ j ∧ j < dst + len
    · rw [if_pos hin, if_pos hin, getD_take_drop]
      have : j - dst < len := by omega
      rw [if_pos this]
    · rw [if_neg hin, if_neg hin]

example : Mem.copy [1, 2, 3, 4, 5] 1 0 3 = some [1, 1, 2, 3, 5] := by decide

/-- CALLDATACOPY / CODECOPY (`Set(memOff, len, getData(src, start, len))`): the range receives
`src[start + i]`, ZERO where that is beyond the end of `src`; the rest is unchanged. -/
theorem copy_in_spec (m m' src : Bytes) (off size start : Nat)
    (h : Mem.set m off size (getData src start size) = some m') :
    m'.length = m.length ∧
    ∀ j, m'.getD j 0 =
      if off ≤ j ∧ j < off + size then src.getD (start + (j - off)) 0 else m.getD j 0 := by
  refine ⟨memSet_length h, ?_⟩
  intro j
  by_cases hs : size = 0
  · subst hs
    rw [set_zero] at h
    have : m' = m := by simpa using h.symm
    rw [this]
    have : ¬ (off ≤ j ∧ j < off + 0) := by omega
    rw [if_neg this]
  · obtain ⟨e, hb⟩ := set_eq_splice h hs
    have hlen : ((getData src start size).take size).length = size := by
      simp [getData_length]
    have htk : (getData src start size).take size = getData src start size :=
      List.take_of_length_le (by rw [getData_length]; omega)
    rw [e, splice_getD _ _ _ (by rw [hlen]; exact hb), hlen]
    by_cases hin : off ≤ j ∧ j < off + size
    · rw [if_pos hin, if_pos hin, htk, getData_getD _ _ _ _ (by omega)]
    · rw [if_neg hin, if_neg hin]

example : Mem.set [9, 9, 9, 9, 9] 1 3 (getData [7, 8] 1 3) = some [9, 8, 0, 0, 9] := by decide

/-- RETURNDATACOPY when it succeeds (`end ≤ len(returnData)`): the exact slice, no padding. -/
theorem returndatacopy_spec (m m' rd : Bytes) (off size start : Nat) (hin : start + size ≤ rd.length)
    (h : Mem.set m off size ((rd.drop start).take (start + size - start)) = some m') :
    m'.length = m.length ∧
    ∀ j, m'.getD j 0 =
      if off ≤ j ∧ j < off + size then rd.getD (start + (j - off)) 0 else m.getD j 0 := by
  refine ⟨memSet_length h, ?_⟩
  intro j
  by_cases hs : size = 0
  · subst hs
    rw [set_zero] at h
    have : m' = m := by simpa using h.symm
    rw [this]
    have : ¬ (off ≤ j ∧ j < off + 0) := by omega
    rw [if_neg this]
  · obtain ⟨e, hb⟩ := set_eq_splice h hs
    have hk : start + size - start = size := by omega
    rw [hk] at e
    have hlen : (((rd.drop start).take size).take size).length = size := by simp; omega
    rw [e, splice_getD _ _ _ (by rw [hlen]; exact hb), hlen, List.take_take, Nat.min_self]
    by_cases hj : off ≤ j ∧ j < off + size
    · rw [if_pos hj, if_pos hj, getD_take_drop]
      have : j - off < size := by omega
      rw [if_pos this]
    · rw [if_neg hj, if_neg hj]

/-- PUSHn: the value pushed is the big-endian number of the n bytes after the opcode, a byte
beyond the end of the code counting as zero (truncated PUSH data is right-padded). -/
theorem push_padding_spec (code : Bytes) (pc n : Nat) :
    pushValue code pc n = setBytes (pushBytes code pc n) ∧
    (pushBytes code pc n).length = n ∧
    ∀ i, i < n → (pushBytes code pc n).getD i 0 = code.getD (pc + 1 + i) 0 := by
  refine ⟨pushValue_eq code pc n, by simp [pushBytes], ?_⟩
  intro i hi
  simp [pushBytes, List.getD_eq_getElem?_getD, List.getElem?_range hi]

example : pushValue [0x61, 0xab] 0 2 = (0xab00 : Word) := by decide

/-! ## Invariants along a run -/

/-- frames reachable from `f0` by interpreter steps that continue -/
inductive Reachable (H : Bytes → Bytes) (t : Table) (p : GasParams) (f0 : Frame) : Frame → Prop
  | refl : Reachable H t p f0 f0
  | step {f f' : Frame} : Reachable H t p f0 f → step H t p f = .next f' → Reachable H t p f0 f'

/-- one step keeps memory a whole number of words and never shrinks it -/
theorem step_mem_aligned (H : Bytes → Bytes) (t : Table) (p : GasParams) (f f' : Frame)
    (hs : step H t p f = .next f') :
    f.mem.length ≤ f'.mem.length ∧ (f.mem.length % 32 = 0 → f'.mem.length % 32 = 0) := by
  obtain ⟨info, gas2, last, ms, f1, res, _, _, _, hms, hex, hf'⟩ := step_next_decomp hs
  have hl := execOp_mem_length hex
  have hpost : f'.mem.length = f1.mem.length := by
    rw [hf']; unfold postExec; simp only; split <;> split <;> rfl
  rw [hpost, hl]
  rcases hms with ⟨_, h0⟩ | ⟨sz, _, hsz⟩
  · subst h0; simp [preExec]
  · obtain ⟨_, hmod⟩ := safeMul_words hsz
    simp only [preExec]
    split
    · rw [resize_length]; constructor
      · omega
      · intro h; omega
    · exact ⟨Nat.le_refl _, id⟩

/-- **MSIZE is word-rounded along every run**: every frame reachable from the initial frame has
memory a multiple of 32 bytes (so `MSIZE` pushes a multiple of 32), keeps the code and its
analysis, and therefore satisfies the hypotheses of the jump theorems. -/
theorem run_invariants (H : Bytes → Bytes) (t : Table) (p : GasParams) (code input : Bytes)
    (gas : Nat) (hc : code.length < 2 ^ 64) (f : Frame)
    (hr : Reachable H t p (Frame.init code input gas) f) :
    f.mem.length % 32 = 0 ∧ f.code = code ∧ f.bitmap = Bitvec.codeBitmap code ∧ f.input = input := by
  induction hr with
  | refl => exact ⟨rfl, rfl, rfl, rfl⟩
  | @step f f' _ hs ih =>
    obtain ⟨a, b, c, d⟩ := ih
    obtain ⟨x, y, z⟩ := step_keeps_code H t p f f' hs
    refine ⟨(step_mem_aligned H t p f f' hs).2 a, by rw [x, b], by rw [y, c], by rw [z, d]⟩

example : Reachable (fun _ => []) (Rangers.Generated.Evm10.table 7)
    (Rangers.Generated.Evm10.gasParams true) (Frame.init [0x5b] [] 100) (Frame.init [0x5b] [] 100) :=
  Reachable.refl

end Rangers.Props.C10
