import Rangers.Model.VrfCurve
import Rangers.Proofs.C16Window
import Rangers.Proofs.C16Radix
/-!
Property C16, part 6: the sliding-window scalar multiplication of the code
(`slide` + `GeDoubleScalarMultVartime`, which the driver executes as `VrfCurve.smul`) against
plain double-and-add, in an arbitrary commutative group.

Proved: the window loop (with the table A, 3A, …, 15A built as in the code, leading zero digits
skipped) computes (value of the digit string) • A for EVERY digit string with odd-or-zero
digits; double-and-add computes k • A; hence the two agree whenever `slide k` is a sound
recoding of k. NOT proved in general: `valueLSB (slide k) = k` for all k (the carry logic of
`slide`); it is checked by kernel evaluation for the boundary scalars below and exercised by
the correspondence run (`smul` ops, incl. scalars with long runs of ones and the top bit set).
-/
namespace Rangers.Props.C16Window
open Rangers.Model.VrfCurve Rangers.Proofs.C16Window

theorem sliding_window_computes_digit_value {G : Type} [AddCommGroup G] (A : G) (ds : List Int)
    (hodd : OddOrZero ds) :
    windowMulWith (0 : G) (fun x => x + x) (· + ·) (· - ·) ds A = valueLSB ds • A :=
  windowMul_group A ds hodd

theorem double_and_add_computes_multiple {G : Type} [AddCommGroup G] (A : G) (n k : Nat) :
    daWith (0 : G) (fun x => x + x) (· + ·) A n k = ((k % 2 ^ n : ℕ) : ℤ) • A :=
  da_group A n k

theorem sliding_window_eq_double_and_add {G : Type} [AddCommGroup G] (A : G) (k : Nat)
    (hk : k < 2 ^ 256) (hodd : OddOrZero (slide k)) (hval : valueLSB (slide k) = k) :
    windowMulWith (0 : G) (fun x => x + x) (· + ·) (· - ·) (slide k) A
      = daWith (0 : G) (fun x => x + x) (· + ·) A 256 k :=
  window_eq_doubleAndAdd A k hk hodd hval

/-- decidable form of the recoding's soundness for one scalar -/
def slideSound (k : Nat) : Bool :=
  (slide k).all (fun d => d == 0 || d % 2 == 1) && (slide k).all (fun d => -15 ≤ d && d ≤ 15) &&
    valueLSB (slide k) == (k : Int)

/-- `slide` is a sound recoding of boundary scalars the VRF meets: L−1 (largest reduced s / k),
    the largest 128-bit challenge, 2^255−1 (bound of the clamped secret scalar). -/
theorem slide_sound_on_boundary_scalars :
    slideSound (L - 1) ∧ slideSound (2 ^ 128 - 1) ∧ slideSound (2 ^ 255 - 1) := by
  decide +kernel

/-- beyond the documented precondition (top bit set, all ones) the carry runs off the array and
    the recoding is NOT sound — the code relies on `a[31] <= 127` -/
theorem slide_unsound_without_precondition : slideSound (2 ^ 256 - 1) = false := by decide +kernel

theorem slideSound_spec (k : Nat) (h : slideSound k = true) :
    OddOrZero (slide k) ∧ valueLSB (slide k) = k := by
  unfold slideSound at h
  simp only [Bool.and_eq_true, List.all_eq_true, Bool.or_eq_true, beq_iff_eq] at h
  exact ⟨fun d hd => h.1.1 d hd, h.2⟩

/-! ### `GeScalarMultBase`: signed radix-16 digits and the table of multiples of B -/

open Rangers.Proofs.C16Radix in
/-- The 64 signed digits `GeScalarMultBase` computes represent the scalar exactly — for EVERY scalar below
    2^256 (unlike `slide`, no precondition and no unproved carry invariant). -/
theorem signed_radix16_represents_scalar (k : Nat) (hk : k < 16 ^ 64) :
    valueR 16 (signedRadix16 k) = (k : Int) := signedRadix16_value k hk

open Rangers.Proofs.C16Radix in
/-- `GeScalarMultBase` (odd digits, ×16, even digits, table entry `tbl pos d = d·256^pos·B`) computes k • B
    in any commutative group, for every scalar below 2^256. -/
theorem base_mul_computes_multiple {G : Type} [AddCommGroup G] (B : G) (tbl : Nat → Int → G)
    (htbl : ∀ pos d, tbl pos d = (d * 256 ^ pos) • B) (k : Nat) (hk : k < 16 ^ 64) :
    baseMulWith (0 : G) (fun x => x + x) (· + ·) tbl (signedRadix16 k) = (k : Int) • B :=
  radix16_mul B tbl htbl k hk

/-- non-vacuity / shape: the digits of 2^255 − 1 are −1, then 62 zeros, then 8 (all within [−8, 8]) -/
example : signedRadix16 (2 ^ 255 - 1) = (-1 : Int) :: List.replicate 62 0 ++ [8] := by decide +kernel

end Rangers.Props.C16Window
