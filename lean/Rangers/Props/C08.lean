import Rangers.Model.RLP
import Rangers.Model.RLPStream
import Rangers.Model.RLPTyped
/-! C08 property theorems (work in progress). -/
namespace Rangers.Props.C08
open Rangers Rangers.RLP

theorem encode_str_single (x : UInt8) (h : x.toNat ≤ 0x7f) : encode (.str [x]) = [x] := by
  simp [encode, encString, h]

end Rangers.Props.C08
