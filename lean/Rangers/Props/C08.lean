import Rangers.Model.RLP
import Rangers.Proofs.RLPItem
/-!
# C08 — RLP coding is canonical, lossless and total: the generic item coder

Theorems about `decodeItem` / `decodeBytes` / `encode` of `Model/RLP.lean` (the functions the
driver executes for `anyp`, `split`, `count`).  `Props/C08Stream.lean` has the `Stream`
invariants, `Props/C08Typed.lean` the typed coders.
-/
namespace Rangers.Props.C08
open Rangers Rangers.RLP

/-- Lossless: decoding the encoding of any item the encoder can produce (all payloads
    < 2^64 bytes) returns the item and exactly the bytes that followed it. -/
theorem decode_encode (it : Item) (rest : Bytes) (h : it.sizeOK) :
    decodeItem (encode it ++ rest) = .ok (it, rest) := by
  unfold decodeItem
  have h1 := (dec_complete (fuelI it)).1 it rest h (Nat.le_refl _)
  have h2 := dec_mono_le (Nat.le_max_left (fuelI it) (itemFuel (encode it ++ rest))) _ _ h1 (by simp)
  have h3 := (dec_fuel_suffices (itemFuel (encode it ++ rest))).1 (encode it ++ rest) (by unfold itemFuel; omega)
  have h4 := dec_mono_le (Nat.le_max_right (fuelI it) (itemFuel (encode it ++ rest))) _ _ rfl h3
  rw [← h4, h2]

example : (Item.list [.str [0x00], .str [], .list [.str [0x80, 0x01]]]).sizeOK := by
  simp [Item.sizeOK, Item.sizeOKs, encodeList, encode, encString, encHead, encListPayload]

/-- Canonical: a byte string the decoder accepts is exactly the encoder's output for the decoded
    item followed by the unread rest — every item has one accepted encoding. -/
theorem encode_decode (b : Bytes) (it : Item) (rest : Bytes)
    (h : decodeItem b = .ok (it, rest)) : b = encode it ++ rest :=
  (dec_sound _).1 b it rest h

example : decodeItem [0xc2, 0x00, 0x05, 0xff] = .ok (.list [.str [0x00], .str [0x05]], [0xff]) := by rfl

/-- Total: the model's recursion fuel is never the reason for a rejection. -/
theorem decodeItem_total (b : Bytes) : decodeItem b ≠ .error .fuel :=
  (dec_fuel_suffices _).1 b (by unfold itemFuel; omega)

/-- `DecodeBytes`: no trailing data — an accepted input is the encoding, nothing more. -/
theorem decodeBytes_canonical (b : Bytes) (it : Item) (h : decodeBytes b = .ok it) : b = encode it := by
  unfold decodeBytes at h
  cases hd : decodeItem b with
  | error e => rw [hd] at h; cases h
  | ok r =>
    obtain ⟨it', rest⟩ := r
    rw [hd] at h
    simp only at h
    split at h
    · rename_i he
      injection h with h; subst h
      have := encode_decode b it' rest hd
      have hr : rest = [] := by simpa using he
      rw [hr] at this; simpa using this
    · cases h

theorem decodeBytes_encode (it : Item) (h : it.sizeOK) : decodeBytes (encode it) = .ok it := by
  have := decode_encode it [] h
  rw [List.append_nil] at this
  simp [decodeBytes, this]

/-- One accepted encoding per value. -/
theorem decode_unique (b₁ b₂ : Bytes) (it : Item)
    (h₁ : decodeBytes b₁ = .ok it) (h₂ : decodeBytes b₂ = .ok it) : b₁ = b₂ := by
  rw [decodeBytes_canonical b₁ it h₁, decodeBytes_canonical b₂ it h₂]

set_option maxRecDepth 8192 in
example : decodeBytes [0x82, 0x04, 0x00] = .ok (.str [0x04, 0x00]) := by rfl

/-- Trailing data is rejected. -/
theorem trailing_rejected (it : Item) (x : UInt8) (rest : Bytes) (h : it.sizeOK) :
    decodeBytes (encode it ++ x :: rest) = .error .moreThanOne := by
  simp [decodeBytes, decode_encode it (x :: rest) h]

/-- Single bytes below 0x80 must be unprefixed: `81 xx` is rejected. -/
theorem single_byte_unprefixed (x : UInt8) (rest : Bytes) (hx : x.toNat < 0x80) :
    readKind (0x81 :: x :: rest) = .error .canonSize := by
  have : headLt128 (x :: rest) = true := by simp [headLt128, hx]
  simp [readKind, this]

/-- Minimal length prefixes: an accepted long-form header (more than one header byte) carries a
    size ≥ 56 whose big-endian bytes have no leading zero; an accepted header is the one the
    encoder writes for that size. -/
theorem header_minimal (buf : Bytes) (k : Kind) (ts cs : Nat) (h : readKind buf = .ok (k, ts, cs)) :
    (k = .byte → ts = 0 ∧ cs = 1) ∧
    (k = .string → buf.take ts = encHead 0x80 0xb7 cs) ∧
    (k = .list → buf.take ts = encHead 0xc0 0xf7 cs) ∧
    (1 < ts → 56 ≤ cs) := by
  obtain ⟨_, _, hc⟩ := readKind_inv h
  rcases hc with ⟨hk, hts, hcs, _⟩ | ⟨hk, hh, _⟩ | ⟨hk, hh⟩
  · subst hk; exact ⟨fun _ => ⟨hts, hcs⟩, (fun h => by cases h), (fun h => by cases h), by omega⟩
  · subst hk
    refine ⟨(fun h => by cases h), fun _ => hh, (fun h => by cases h), ?_⟩
    intro hts
    by_cases h56 : cs < 56
    · rw [encHead_small _ _ h56] at hh
      have := congrArg List.length hh
      simp only [List.length_take, List.length_cons, List.length_nil] at this
      omega
    · omega
  · subst hk
    refine ⟨(fun h => by cases h), (fun h => by cases h), fun _ => hh, ?_⟩
    intro hts
    by_cases h56 : cs < 56
    · rw [encHead_small _ _ h56] at hh
      have := congrArg List.length hh
      simp only [List.length_take, List.length_cons, List.length_nil] at this
      omega
    · omega

example : readKind [0xb8, 0x37] = .error .canonSize := by rfl
example : readKind [0xb9, 0x00, 0x38] = .error .canonSize := by rfl

/-- Integers: the content accepted as an unsigned integer of `bits` bits is exactly the minimal
    big-endian form (`putint`): no leading zero, nothing for 0. -/
theorem integers_canonical (bits : Nat) (c : Bytes) (n : Nat) :
    uintOfContent bits c = .ok n ↔ (c = toBE n ∧ c.length ≤ bits / 8) := by
  unfold uintOfContent
  constructor
  · intro h
    split at h
    · cases h
    · rename_i hl
      cases c with
      | nil => simp only at h; injection h with h; subst h; exact ⟨rfl, by simp⟩
      | cons b0 tl =>
        simp only at h
        split at h
        · cases h
        · rename_i hb
          injection h with h; subst h
          exact ⟨(toBE_beNat _ (by simpa [Minimal] using hb)).symm, by omega⟩
  · intro ⟨hc, hl⟩
    have hl' : ¬ c.length > bits / 8 := by omega
    rw [if_neg hl']
    cases hcc : c with
    | nil =>
      simp only
      rw [hcc] at hc
      have : n = 0 := by
        have := congrArg beNat hc
        rw [beNat_toBE] at this; simpa [beNat] using this.symm
      rw [this]
    | cons b0 tl =>
      simp only
      have hm : Minimal (b0 :: tl) := by rw [← hcc, hc]; exact toBE_minimal n
      have hb : ¬ b0.toNat = 0 := by simpa [Minimal] using hm
      rw [if_neg hb, ← hcc, hc, beNat_toBE]

theorem big_integers_canonical (c : Bytes) (n : Nat) : bigOfContent c = .ok n ↔ c = toBE n := by
  unfold bigOfContent
  constructor
  · intro h
    cases c with
    | nil => simp only at h; injection h with h; subst h; rfl
    | cons b0 tl =>
      simp only at h
      split at h
      · cases h
      · rename_i hb
        injection h with h; subst h
        exact (toBE_beNat _ (by simpa [Minimal] using hb)).symm
  · intro hc
    cases hcc : c with
    | nil =>
      simp only
      rw [hcc] at hc
      have : n = 0 := by
        have := congrArg beNat hc
        rw [beNat_toBE] at this; simpa [beNat] using this.symm
      rw [this]
    | cons b0 tl =>
      simp only
      have hm : Minimal (b0 :: tl) := by rw [← hcc, hc]; exact toBE_minimal n
      have hb : ¬ b0.toNat = 0 := by simpa [Minimal] using hm
      rw [if_neg hb, ← hcc, hc, beNat_toBE]

example : uintOfContent 64 [0x00, 0x01] = .error .canonInt := by rfl
example : uintOfContent 64 [0x04, 0x00] = .ok 1024 := by rfl

end Rangers.Props.C08
