import Rangers.Proofs.ChainStoreWeight
/-!
# Property C05 — the block store holds one hash-linked canonical chain across reorgs and crashes

All theorems are about `Rangers.Model.ChainStore`, the model the driver `drv_c05` executes against
the real chain on every run. Vocabulary (defined in `Proofs/ChainStoreInv.lean`, `…Ops.lean`):

* `ChainInv d c` — disk `d` holds exactly the chain `c` (head first): recorded head = `c`'s head,
  `c` is linked by parent hashes down to a height-0 block, the hash index and the height index
  contain exactly the blocks of `c` (so nothing above the head, nothing in height gaps), every
  chain block's state root is committed, both intent marks are absent.
* `Inv T d m c` — `ChainInv d c`, the in-memory head / topBlocks cache / futureBlocks agree with the
  disk, and every stored block belongs to the delivered block tree `T`.
* `ValidTree T` — the hypothesis on delivered blocks: a child is higher than its parent and its
  cumulative QN is not lower (what consensus checks; the store itself does not).
* `St.arm (some k)` — the process will die in front of physical write number `k` of the next op.
-/
namespace Rangers.Props.C05
open Rangers.Model.ChainStore Rangers.Proofs.ChainStore

/-! ## the quiescent-point clause, spelled out -/

/-- What `ChainInv` gives, in the words of the property: the recorded head is the head of a chain
    linked down to genesis; every chain block is returned by the height index at its height and
    contained in the hash index; no height above the head is indexed; the head's state root is
    committed; no intent mark is left. -/
theorem chain_clauses {d : Disk} {c : List Block} (ci : ChainInv d c) :
    ∃ hd, d.current = some hd ∧ c.head? = some hd ∧ Linked c ∧
      (∀ x ∈ c, d.blocks x.hash = some x ∧ d.heights x.height = some x) ∧
      (∀ n x, d.heights n = some x → n ≤ hd.height ∧ x ∈ c) ∧
      (∀ h x, d.blocks h = some x → x ∈ c) ∧
      d.roots hd.hash = true ∧ d.addMark = none ∧ d.removeMark = none := by
  have hne := ci.linked.ne_nil
  cases c with
  | nil => exact absurd rfl hne
  | cons hd rest =>
    refine ⟨hd, ci.cur, rfl, ci.linked, fun x hx => ⟨ci.blocks_mem x hx, ci.heights_mem x hx⟩, ?_,
      fun h x hx => (ci.blocks_only h x hx).1, ci.roots hd (List.mem_cons_self ..), ci.noAdd, ci.noRemove⟩
    intro n x hx
    have := ci.heights_only n x hx
    refine ⟨?_, this.1⟩
    have := ci.linked.le_head x this.1
    omega

/-- The store right after genesis creation satisfies the invariant (the genesis block carries no transactions). -/
theorem inv_genesis (T : Nat → Option Block) (g : Block) (h0 : g.height = 0) (htx : g.txs = [])
    (hT : T g.hash = some g) : Inv T (genesisState g).disk (genesisState g).mem [g] := by
  have ci : ChainInv (genesisState g).disk [g] := {
    linked := h0
    cur := rfl
    blocks_mem := by intro x hx; simp at hx; subst hx; simp [genesisState]
    heights_mem := by intro x hx; simp at hx; subst hx; simp [genesisState]
    blocks_only := by
      intro h x hx
      simp only [genesisState] at hx
      rcases upd_eq_some hx with ⟨e, hv⟩ | ⟨_, hm⟩
      · simp at hv; subst hv; exact ⟨List.mem_cons_self .., e.symm⟩
      · cases hm
    heights_only := by
      intro n x hx
      simp only [genesisState] at hx
      rcases upd_eq_some hx with ⟨e, hv⟩ | ⟨_, hm⟩
      · simp at hv; subst hv; exact ⟨List.mem_cons_self .., e.symm⟩
      · cases hm
    verify_mem := by intro x hx; simp at hx; subst hx; simp [genesisState]
    verify_only := by
      intro n hn
      simp only [genesisState] at hn
      rcases updB_eq_true hn with ⟨e, _⟩ | ⟨_, hm⟩
      · exact ⟨g, List.mem_cons_self .., e.symm⟩
      · cases hm
    roots := by intro x hx; simp at hx; subst hx; simp [genesisState]
    noAdd := rfl
    noRemove := rfl
    exec_mem := by intro x hx t ht; simp at hx; subst hx; rw [htx] at ht; cases ht
    exec_only := by intro t h hh; cases hh
    txdisj := List.pairwise_singleton _ _ }
  refine ⟨ci, rfl, ?_, ?_, ?_⟩
  · intro n z hz; cases hz
  · intro k f hf; cases hf
  · intro z hz; simp at hz; subst hz; exact hT

/-- The pool clause, spelled out: at every state satisfying the invariant a transaction is marked executed
    exactly when a block of the head's chain contains it, and it is marked with that block. -/
theorem pool_exact {d : Disk} {c : List Block} (ci : ChainInv d c) (t h : Nat) :
    d.executed t = some h ↔ ∃ x ∈ c, x.hash = h ∧ t ∈ x.txs := by
  constructor
  · exact ci.exec_only t h
  · rintro ⟨x, hx, rfl, ht⟩
    exact ci.exec_mem x hx t ht

/-! ## the in-memory caches -/

/-- **caches_agree.** Under the invariant every cache entry agrees with the store or is absent: a header in
    the topBlocks cache is the header the height index holds at that height (and its block is in the hash
    index); an orphan parked in futureBlocks is parked under its own parent hash and is a tree block. The
    invariant is preserved by every delivery, reorg, crash + restart (`inv_add`, `inv_crash`), so this holds
    at every quiescent point. -/
theorem caches_agree {T : Nat → Option Block} {d : Disk} {m : Mem} {c : List Block} (inv : Inv T d m c) :
    (∀ n z, m.top n = some z → d.heights n = some z ∧ d.blocks z.hash = some z ∧ z ∈ c) ∧
    (∀ k f, m.future k = some f → f.pre = k ∧ T f.hash = some f) := by
  refine ⟨fun n z hz => ?_, inv.fut⟩
  have h := inv.cache n z hz
  have hc := (inv.chain.heights_only n z h).1
  exact ⟨h, inv.chain.blocks_mem z hc, hc⟩

/-- **cache_transparent.** The cache-reading query `QueryBlockHeaderByHeight(h, true)` (hence `GetBlockHash`,
    `QueryBlock`) returns exactly what the height index holds, at every height — also at heights the current
    chain skips — whatever subset of the index the topBlocks LRU currently keeps (so LRU eviction of that
    cache is not observable). -/
theorem cache_transparent {T : Nat → Option Block} (s : St) (c : List Block) (inv : Inv T s.disk s.mem c) (h : Nat) :
    s.lookupHeight h = s.disk.heights h := by
  unfold St.lookupHeight
  split
  · rename_i x hx
    exact (inv.cache h x hx).symm
  · rfl

/-! ## absent crashes -/

/-- **inv_add.** Delivering any block of a valid tree through `AddBlockOnChain` — extension, sibling of
    lower / equal / higher weight, duplicate, orphan, block with irreproducible roots — leaves the
    store holding exactly one chain again (for every recursion bound `fuel`). By induction this covers
    every delivery order of every block tree. -/
theorem inv_add {T : Nat → Option Block} (vt : ValidTree T) (fuel : Nat) (s : St) (b : Block) (c : List Block)
    (hs : Safe s) (inv : Inv T s.disk s.mem c) (hT : T b.hash = some b) :
    ∃ c', Inv T (addBlock fuel s b).1.disk (addBlock fuel s b).1.mem c' ∧ Safe (addBlock fuel s b).1 := by
  have hsafe := safe_addBlock fuel b s hs
  exact ⟨_, (Out.of_alive (addBlock_post vt fuel s b c hs.1 inv hT) hsafe.1).choose_spec, hsafe⟩

/-- every delivery order of every sequence of tree blocks -/
theorem inv_add_all {T : Nat → Option Block} (vt : ValidTree T) (fuel : Nat) :
    ∀ (bs : List Block) (s : St) (c : List Block), Safe s → Inv T s.disk s.mem c → (∀ b ∈ bs, T b.hash = some b) →
      ∃ c', Inv T (bs.foldl (fun s b => (addBlock fuel s b).1) s).disk (bs.foldl (fun s b => (addBlock fuel s b).1) s).mem c' := by
  intro bs
  induction bs with
  | nil => intro s c _ inv _; exact ⟨c, inv⟩
  | cons b bs ih =>
    intro s c hs inv hT
    obtain ⟨c1, inv1, hs1⟩ := inv_add vt fuel s b c hs inv (hT b (List.mem_cons_self ..))
    exact ih _ c1 hs1 inv1 (fun b' hb' => hT b' (List.mem_cons_of_mem _ hb'))

/-- A clean restart of a quiescent node changes nothing: same chain, no panic. -/
theorem inv_restart {T : Nat → Option Block} (s : St) (c : List Block) (hs : Safe s) (inv : Inv T s.disk s.mem c) :
    Inv T (restart s).1.disk (restart s).1.mem c ∧ (restart s).2 = .ok := by
  have h := restart_spec (T := T) hs.1 (Or.inl inv.chain) inv.fromT
  have hsafe := safe_restart s hs
  exact ⟨Out.of_alive h.1 hsafe.1, h.2 hsafe.1⟩

/-! ## crashes -/

/-- **inv_crash.** A process death in front of ANY physical write of a block delivery (any `k`: inside
    `insertBlock`, inside any `remove` of a reorg, inside the orphan cascade), followed by a restart,
    yields a store that again holds exactly one chain; start-up does not panic. (If `k` exceeds the
    number of writes the delivery simply completes.) -/
theorem inv_crash {T : Nat → Option Block} (vt : ValidTree T) (fuel : Nat) (s : St) (b : Block) (c : List Block)
    (inv : Inv T s.disk s.mem c) (hT : T b.hash = some b) (k : Nat) :
    let s' := (addBlock fuel (s.arm (some k)) b).1
    ∃ c', Inv T (restart (s'.arm none)).1.disk (restart (s'.arm none)).1.mem c' ∧ (restart (s'.arm none)).2 = .ok := by
  intro s'
  have hp := addBlock_post vt fuel (s.arm (some k)) b c rfl inv hT
  have hrec : ∃ c', RecTo s'.disk c' ∧ ∀ z ∈ c', T z.hash = some z := by
    rcases hp with ⟨_, c', inv'⟩ | ⟨_, r⟩
    · exact ⟨c', Or.inl inv'.chain, inv'.fromT⟩
    · exact r
  obtain ⟨c', hr, hT'⟩ := hrec
  have h := restart_spec (T := T) (s := s'.arm none) rfl hr hT'
  have hsafe := safe_restart (s'.arm none) (arm_safe s')
  exact ⟨c', Out.of_alive h.1 hsafe.1, h.2 hsafe.1⟩

/-- **inv_crash, pool clause.** After a death in front of ANY write of a delivery — including the tx pool's own
    batch write and each of its deletes, in their real position between the intent marks — and a restart, a
    transaction is marked executed exactly when a block of the recovered head's chain contains it. -/
theorem inv_crash_pool {T : Nat → Option Block} (vt : ValidTree T) (fuel : Nat) (s : St) (b : Block) (c : List Block)
    (inv : Inv T s.disk s.mem c) (hT : T b.hash = some b) (k : Nat) :
    let s' := (addBlock fuel (s.arm (some k)) b).1
    ∃ c', Inv T (restart (s'.arm none)).1.disk (restart (s'.arm none)).1.mem c' ∧
      ∀ t h, (restart (s'.arm none)).1.disk.executed t = some h ↔ ∃ x ∈ c', x.hash = h ∧ t ∈ x.txs := by
  intro s'
  obtain ⟨c', inv', _⟩ := inv_crash vt fuel s b c inv hT k
  exact ⟨c', inv', pool_exact inv'.chain⟩

/-- **Deaths during the repair itself.** From any disk a crashed delivery can leave behind, any number
    of restarts that each die in front of an arbitrary write of the start-up repair, followed by one
    restart that survives, end in the invariant for the same base chain. -/
theorem inv_crash_repeated {T : Nat → Option Block} {c : List Block} (hT : ∀ z ∈ c, T z.hash = some z) :
    ∀ (ks : List Nat) (s : St), RecTo s.disk c →
      let s' := ks.foldl (fun s k => (restart (s.arm (some k))).1) s
      Inv T (restart (s'.arm none)).1.disk (restart (s'.arm none)).1.mem c ∧ (restart (s'.arm none)).2 = .ok := by
  intro ks
  induction ks with
  | nil =>
    intro s hr
    have h := restart_spec (T := T) (s := s.arm none) rfl hr hT
    have hsafe := safe_restart (s.arm none) (arm_safe s)
    exact ⟨Out.of_alive h.1 hsafe.1, h.2 hsafe.1⟩
  | cons k ks ih =>
    intro s hr
    have h := (restart_spec (T := T) (s := s.arm (some k)) rfl hr hT).1
    have hr' : RecTo (restart (s.arm (some k))).1.disk c := by
      rcases h with ⟨_, inv'⟩ | ⟨_, r⟩
      · exact Or.inl inv'.chain
      · exact r
    exact ih _ hr'

/-- The disk a death inside a block delivery leaves behind is always of the shape the repair handles:
    a clean chain, or a clean chain plus parts of ONE marked block that is a child of its head. -/
theorem crash_state_recoverable {T : Nat → Option Block} (vt : ValidTree T) (fuel : Nat) (s : St) (b : Block)
    (c : List Block) (inv : Inv T s.disk s.mem c) (hT : T b.hash = some b) (k : Nat) :
    Rec (addBlock fuel (s.arm (some k)) b).1.disk := by
  have hp := addBlock_post vt fuel (s.arm (some k)) b c rfl inv hT
  rcases hp with ⟨_, c', inv'⟩ | ⟨_, c', r, _⟩
  · exact Or.inl ⟨c', inv'.chain⟩
  · exact r.rec

/-! ## one atomic head move (the unit the intent marks protect) -/

/-- **head_after_crash, per marked step.** `remove x` on the head `x` of chain `x :: c`: whatever write the
    process dies in front of, the restarted node's chain is `x :: c` (the old head) or `c` (the new
    head) — never anything else. -/
theorem head_after_crash_remove {T : Nat → Option Block} (s : St) (x : Block) (c : List Block)
    (inv : Inv T s.disk s.mem (x :: c)) (hc : c ≠ []) (k : Nat) :
    let s' := (remove (s.arm (some k)) x).1
    (Inv T (restart (s'.arm none)).1.disk (restart (s'.arm none)).1.mem c ∨
     Inv T (restart (s'.arm none)).1.disk (restart (s'.arm none)).1.mem (x :: c)) ∧
    (restart (s'.arm none)).2 = .ok := by
  intro s'
  have hp := remove_spec (T := T) (s := s.arm (some k)) rfl inv hc
  have hsafe := safe_restart (s'.arm none) (arm_safe s')
  have hTc : ∀ z ∈ c, T z.hash = some z := fun z hz => inv.fromT z (List.mem_cons_of_mem _ hz)
  have hrec : RecTo s'.disk c ∨ RecTo s'.disk (x :: c) := by
    rcases hp with ⟨_, p⟩ | ⟨_, r⟩
    · exact Or.inl (Or.inl p.1.chain)
    · rcases r with r | r
      · exact Or.inl r
      · exact Or.inr (Or.inl r)
  rcases hrec with hr | hr
  · have h := restart_spec (T := T) (s := s'.arm none) rfl hr hTc
    exact ⟨Or.inl (Out.of_alive h.1 hsafe.1), h.2 hsafe.1⟩
  · have h := restart_spec (T := T) (s := s'.arm none) rfl hr inv.fromT
    exact ⟨Or.inr (Out.of_alive h.1 hsafe.1), h.2 hsafe.1⟩

/-- **head_after_crash, per marked step.** `insertBlock b` on top of chain `c` (up to and including the erase
    of the add mark): the restarted node's chain is `c` (old head) or `b :: c` (new head). -/
theorem head_after_crash_insert {T : Nat → Option Block} (s : St) (b y : Block) (c : List Block)
    (inv : Inv T s.disk s.mem c) (hp : b.pre = y.hash) (hy : c.head? = some y) (hh : y.height < b.height)
    (hn : s.disk.blocks b.hash = none) (hT : T b.hash = some b) (hfresh : ∀ z ∈ c, ∀ t ∈ b.txs, t ∉ z.txs) (k : Nat) :
    let s' := insertB (insertA (s.arm (some k)) b) b
    (Inv T (restart (s'.arm none)).1.disk (restart (s'.arm none)).1.mem c ∨
     Inv T (restart (s'.arm none)).1.disk (restart (s'.arm none)).1.mem (b :: c)) ∧
    (restart (s'.arm none)).2 = .ok := by
  intro s'
  have hq := insertAB_spec (T := T) (s := s.arm (some k)) rfl inv hp hy hh hn hT hfresh
  have hsafe := safe_restart (s'.arm none) (arm_safe s')
  rcases hq with ⟨_, p⟩ | ⟨_, r⟩
  · have h := restart_spec (T := T) (s := s'.arm none) rfl (Or.inl p.1.chain) p.1.fromT
    exact ⟨Or.inr (Out.of_alive h.1 hsafe.1), h.2 hsafe.1⟩
  · have h := restart_spec (T := T) (s := s'.arm none) rfl r inv.fromT
    exact ⟨Or.inl (Out.of_alive h.1 hsafe.1), h.2 hsafe.1⟩

/-! ## fork choice -/

/-- **head_change_guarded.** `addBlockOnChain` touches the store only if the coming block extends the
    head, or its parent is on the local chain and it carries a strictly larger cumulative QN, or an
    equal one while the local block right above the fork point does not beat it on (prove value,
    then hash). In every other case the disk — hence the head — is exactly what it was. -/
theorem head_change_guarded (fuel : Nat) (s : St) (b : Block) (hg : ¬ Guard s b) :
    (addCore fuel s b).1.disk = s.disk :=
  addCore_guarded fuel s b hg

/-- Full statement of the weight clause: after a crash-free delivery of any block of a valid tree through
    `AddBlockOnChain` (recursion bound at least 2: one re-entry after a reorg), the store holds a chain `c'`
    that is not lighter than the old chain `c` in the order the property states — `WeightGE`: `c'` extends
    `c`, or its cumulative QN is larger, or it is equal and at the fork point the first block of `c'` above
    it is not beaten by the first block of `c` above it on (prove value, then hash). -/
def FullStatementHeadWeight (T : Nat → Option Block) : Prop :=
  ∀ (fuel : Nat) (s : St) (b : Block) (c : List Block), ValidTree T → Safe s → Inv T s.disk s.mem c →
    T b.hash = some b →
    ∃ c', Inv T (addBlock (fuel + 2) s b).1.disk (addBlock (fuel + 2) s b).1.mem c' ∧ WeightGE c c'

/-- **head_weight_monotone** (full). The proof follows the re-entry of `addBlockOnChain` after
    `removeFromCommonAncestor`: the removal stops exactly at the fork point (`removeLoop_safe`), the
    re-entry inserts the coming block on top of it (`addCore_inserts`), and in the equal-QN branch the local
    block the model looks up at `forkPoint.height + 1` is the first local block above the fork point
    (`Linked.child_of`) — so a tie-break taken against any other local block is outside this theorem and
    shows up as a correspondence difference. -/
theorem head_weight_monotone (T : Nat → Option Block) : FullStatementHeadWeight T := by
  intro fuel s b c vt hs inv hT
  unfold addBlock
  split
  · refine ⟨c, ⟨inv.chain, inv.latest, inv.cache, ?_, inv.fromT⟩, WeightGE.refl c⟩
    intro k f hk
    have hk' : upd s.mem.future b.pre (some b) k = some f := hk
    rcases upd_eq_some hk' with ⟨e, hv⟩ | ⟨_, hm⟩
    · simp at hv; subst hv; exact ⟨e.symm, hT⟩
    · exact inv.fut k f hm
  · split
    · exact ⟨c, inv, WeightGE.refl c⟩
    · obtain ⟨c', h1, h2, _⟩ := (addCore_weight vt fuel s b c hs inv hT).2
      exact ⟨c', h1, h2⟩

/-- The plain reading: the head's cumulative QN never decreases. -/
theorem head_qn_monotone {T : Nat → Option Block} (vt : ValidTree T) (fuel : Nat) (s : St) (b : Block) (c : List Block)
    (hs : Safe s) (inv : Inv T s.disk s.mem c) (hT : T b.hash = some b) :
    s.mem.latest.totalQN ≤ (addBlock (fuel + 2) s b).1.mem.latest.totalQN := by
  obtain ⟨c', inv', hw⟩ := head_weight_monotone T fuel s b c vt hs inv hT
  obtain ⟨rest, hc⟩ := head_of_latest inv
  obtain ⟨rest', hc'⟩ := head_of_latest inv'
  rcases hw with hsuf | ⟨hd, hd', h1, h2, h3⟩
  · have hl := inv'.chain.linked
    rw [hc'] at hl
    exact qn_le_head vt rest' _ hl (by rw [← hc']; exact inv'.fromT) _
      (by rw [← hc']; exact suffix_mem hsuf (by rw [hc]; exact List.mem_cons_self ..))
  · rw [hc] at h1; rw [hc'] at h2
    simp at h1 h2
    subst h1; subst h2
    rcases h3 with h | h
    · omega
    · omega

/-! ## the tie-break order and the header request id (pure functions on the path) -/

/-- **pvGreater is a strict total order on (prove value, hash)** — `chainPvGreatThanRemote`: irreflexive,
    asymmetric, transitive, and two blocks neither of which beats the other agree on prove value and hash. So
    the fork-point tie-break of `WeightGE` is a well-defined order: no cycle of equal-QN forks can replace each
    other in turn. -/
theorem pvGreater_strict_order (a b c : Block) :
    pvGreater a a = false ∧
    (pvGreater a b = true → pvGreater b a = false) ∧
    (pvGreater a b = true → pvGreater b c = true → pvGreater a c = true) ∧
    (pvGreater a b = false → pvGreater b a = false → a.pv = b.pv ∧ a.hash = b.hash) := by
  unfold pvGreater
  refine ⟨?_, ?_, ?_, ?_⟩
  · simp
  · intro h
    by_cases x1 : a.pv > b.pv
    · have y1 : ¬ b.pv > a.pv := by omega
      have y2 : b.pv < a.pv := by omega
      simp [y1, y2]
    · by_cases x2 : a.pv < b.pv
      · simp [x1, x2] at h
      · simp [x1, x2] at h
        have y1 : ¬ b.pv > a.pv := by omega
        have y2 : ¬ b.pv < a.pv := by omega
        simp [y1, y2]; omega
  · intro h1 h2
    by_cases x1 : a.pv > b.pv
    · by_cases x2 : b.pv > c.pv
      · have : a.pv > c.pv := by omega
        simp [this]
      · by_cases x3 : b.pv < c.pv
        · simp [x2, x3] at h2
        · have e : b.pv = c.pv := by omega
          have : a.pv > c.pv := by omega
          simp [this]
    · by_cases x1' : a.pv < b.pv
      · simp [x1, x1'] at h1
      · have e : a.pv = b.pv := by omega
        simp [x1, x1'] at h1
        by_cases x2 : b.pv > c.pv
        · have : a.pv > c.pv := by omega
          simp [this]
        · by_cases x3 : b.pv < c.pv
          · simp [x2, x3] at h2
          · simp [x2, x3] at h2
            have e2 : a.pv = c.pv := by omega
            have n1 : ¬ a.pv > c.pv := by omega
            have n2 : ¬ a.pv < c.pv := by omega
            simp [n1, n2]; omega
  · intro h1 h2
    by_cases x1 : a.pv > b.pv
    · simp [x1] at h1
    · by_cases x2 : a.pv < b.pv
      · have : b.pv > a.pv := x2
        simp [this] at h2
      · have e : a.pv = b.pv := by omega
        have y1 : ¬ b.pv > a.pv := by omega
        have y2 : ¬ b.pv < a.pv := by omega
        simp [x1, x2] at h1
        simp [y1, y2] at h2
        exact ⟨e, by omega⟩

/-- **requestIdFrom** (`getRequestIdFromTransactions`): the header request id never goes below the parent's, is
    the parent's or one of the block's transaction request ids, and dominates every transaction request id that
    is non-zero … i.e. it is `max(parent, max of the transactions)`. -/
theorem requestIdFrom_spec (reqs : List Nat) (last : Nat) :
    last ≤ requestIdFrom reqs last ∧
    (∀ r ∈ reqs, r ≤ requestIdFrom reqs last) ∧
    (requestIdFrom reqs last = last ∨ requestIdFrom reqs last ∈ reqs) := by
  have key : ∀ (l : List Nat) (acc : Nat),
      acc ≤ l.foldl (fun acc r => if r > acc then r else acc) acc ∧
      (∀ r ∈ l, r ≤ l.foldl (fun acc r => if r > acc then r else acc) acc) ∧
      (l.foldl (fun acc r => if r > acc then r else acc) acc = acc ∨
        l.foldl (fun acc r => if r > acc then r else acc) acc ∈ l) := by
    intro l
    induction l with
    | nil => intro acc; simp
    | cons x xs ih =>
      intro acc
      simp only [List.foldl_cons]
      by_cases hx : x > acc
      · simp only [hx, if_true]
        obtain ⟨h1, h2, h3⟩ := ih x
        refine ⟨by omega, ?_, ?_⟩
        · intro r hr
          rcases List.mem_cons.mp hr with e | e
          · subst e; exact h1
          · exact h2 r e
        · rcases h3 with e | e
          · rw [e]; exact Or.inr (List.mem_cons_self ..)
          · exact Or.inr (List.mem_cons_of_mem _ e)
      · simp only [hx, if_false]
        obtain ⟨h1, h2, h3⟩ := ih acc
        refine ⟨h1, ?_, ?_⟩
        · intro r hr
          rcases List.mem_cons.mp hr with e | e
          · subst e; omega
          · exact h2 r e
        · rcases h3 with e | e
          · exact Or.inl e
          · exact Or.inr (List.mem_cons_of_mem _ e)
  obtain ⟨_, k2, k3⟩ := key reqs 0
  unfold requestIdFrom
  simp only
  split
  · rename_i h
    refine ⟨by omega, k2, ?_⟩
    rcases k3 with e | e
    · exact absurd e h.1
    · exact Or.inr e
  · rename_i h
    refine ⟨Nat.le_refl _, ?_, Or.inl rfl⟩
    intro r hr
    have := k2 r hr
    by_cases z : reqs.foldl (fun acc r => if r > acc then r else acc) 0 = 0
    · omega
    · have : ¬ reqs.foldl (fun acc r => if r > acc then r else acc) 0 > last := fun g => h ⟨z, g⟩
      omega

/-- A block whose header request id is not the one its transactions and its parent justify is rejected by
    `verifyBlock` (unless its verification is cached) and nothing changes. -/
theorem verify_rejects_bad_request_id (s : St) (b pre : Block) (hc : s.mem.verified.contains b.hash = false)
    (hp : s.disk.blocks b.pre = some pre) (hr : requestIdFrom b.txReqs pre.reqId ≠ b.reqId) :
    (verify s b).2 = false ∧ (verify s b).1.disk = s.disk ∧ (verify s b).1.mem.verified = s.mem.verified := by
  have hreq : (requestIdFrom b.txReqs pre.reqId != b.reqId) = true := by simpa using hr
  unfold verify
  rw [if_neg (by rw [hc]; simp)]
  simp only [hp]
  split
  · exact ⟨rfl, rfl, rfl⟩
  · first
    | exact ⟨rfl, rfl, rfl⟩
    | (rw [if_pos hreq]; exact ⟨rfl, rfl, rfl⟩)

/-- **nextPvGreatThanFork** (the fork switch's tie guard): it lets an equal-QN fork through only if both
    branches have a block right above the common ancestor and the local one does not beat the fork's on
    (prove value, hash). -/
theorem nextPvGreatThanFork_false_iff (localLatest : Nat) (localNext : Option Block) (anc : Block) (forkLatest : Nat)
    (forkNext : Option Block) :
    nextPvGreatThanFork localLatest localNext anc forkLatest forkNext = false ↔
      anc.height < forkLatest ∧ anc.height < localLatest ∧
      ∃ f c, forkNext = some f ∧ localNext = some c ∧ pvGreater c f = false := by
  unfold nextPvGreatThanFork
  constructor
  · intro h
    split at h
    · rename_i hg
      split at h
      · rename_i f c
        exact ⟨hg.1, hg.2, f, c, rfl, rfl, h⟩
      · cases h
    · cases h
  · rintro ⟨h1, h2, f, c, rfl, rfl, hp⟩
    simp [h1, h2, hp]

/-! ## the sync fork switch (`blockChainFork.triggerOnChain`), the second block-adding path -/

/-- **fork_switch_inv.** The fork switch — `removeFromCommonAncestor` called directly, then the fork's blocks
    through `tryAddBlockOnChain` one by one, stopping at the first that is not added — preserves the whole
    invariant (chain, indexes, caches, pool clause) for ANY common ancestor and ANY list of tree blocks,
    whatever `triggerOnChain`'s own checks decided; and a death in front of any of its writes leaves a
    recoverable disk (`Post` = alive with `Inv`, or dead on a `Rec` disk). It is a composition of the two
    steps the other theorems cover. -/
theorem fork_switch_inv {T : Nat → Option Block} (vt : ValidTree T) (fuel : Nat) (s : St) (anc : Block) (bs : List Block)
    (c : List Block) (inv : Inv T s.disk s.mem c) (hT : ∀ b ∈ bs, T b.hash = some b) :
    (Safe s → ∃ c', Inv T (forkSwitch fuel s anc bs).disk (forkSwitch fuel s anc bs).mem c') ∧
    (∀ k, ∃ c', Inv T (restart ((forkSwitch fuel (s.arm (some k)) anc bs).arm none)).1.disk
        (restart ((forkSwitch fuel (s.arm (some k)) anc bs).arm none)).1.mem c') := by
  constructor
  · intro hs
    have hsafe : Safe (forkSwitch fuel s anc bs) := safe_forkAdd fuel bs _ (safe_removeFrom anc s hs)
    exact Out.of_alive (forkSwitch_post vt fuel s anc bs c hs.1 inv hT) hsafe.1
  · intro k
    have hp := forkSwitch_post vt fuel (s.arm (some k)) anc bs c rfl inv hT
    have hrec : ∃ c', RecTo (forkSwitch fuel (s.arm (some k)) anc bs).disk c' ∧ ∀ z ∈ c', T z.hash = some z := by
      rcases hp with ⟨_, c', inv'⟩ | ⟨_, r⟩
      · exact ⟨c', Or.inl inv'.chain, inv'.fromT⟩
      · exact r
    obtain ⟨c', hr, hT'⟩ := hrec
    have h := restart_spec (T := T) (s := (forkSwitch fuel (s.arm (some k)) anc bs).arm none) rfl hr hT'
    have hsafe := safe_restart ((forkSwitch fuel (s.arm (some k)) anc bs).arm none) (arm_safe _)
    exact ⟨c', Out.of_alive h.1 hsafe.1⟩

/-! ## transactions of removed and added blocks -/

/-- **reorg_pool, end to end.** After a crash-free `AddBlockOnChain` of any block of a valid tree — whatever
    happens: nothing, an extension with a cascade of parked orphans, or a reorg that removes any number of
    blocks and re-enters — the store holds a chain `c'` such that (new chain) a transaction is marked executed
    exactly when a block of `c'` contains it, with that block's hash; and (removed blocks) every transaction of
    every block of the old chain `c` that is no longer on `c'` is pending again, unless a block of `c'`
    contains it (then it is executed there). -/
theorem reorg_pool {T : Nat → Option Block} (vt : ValidTree T) (fuel : Nat) (s : St) (b : Block) (c : List Block)
    (hs : Safe s) (inv : Inv T s.disk s.mem c) (hT : T b.hash = some b) :
    ∃ c', Inv T (addBlock (fuel + 2) s b).1.disk (addBlock (fuel + 2) s b).1.mem c' ∧
      (∀ t h, (addBlock (fuel + 2) s b).1.disk.executed t = some h ↔ ∃ x ∈ c', x.hash = h ∧ t ∈ x.txs) ∧
      (∀ x ∈ c, x ∉ c' → ∀ t ∈ x.txs, t ∈ (addBlock (fuel + 2) s b).1.mem.pending ∨ ∃ y ∈ c', t ∈ y.txs) := by
  unfold addBlock
  split
  · have inv' : Inv T s.disk (s.setMem { s.mem with future := upd s.mem.future b.pre (some b) }).mem c := by
      refine ⟨inv.chain, inv.latest, inv.cache, ?_, inv.fromT⟩
      intro k f hk
      have hk' : upd s.mem.future b.pre (some b) k = some f := hk
      rcases upd_eq_some hk' with ⟨e, hv⟩ | ⟨_, hm⟩
      · simp at hv; subst hv; exact ⟨e.symm, hT⟩
      · exact inv.fut k f hm
    exact ⟨c, inv', pool_exact inv.chain, fun x hx hn => absurd hx hn⟩
  · split
    · exact ⟨c, inv, pool_exact inv.chain, fun x hx hn => absurd hx hn⟩
    · obtain ⟨c', h1, _, h3⟩ := (addCore_weight vt fuel s b c hs inv hT).2
      exact ⟨c', h1, pool_exact h1.chain, h3⟩

/-- **reorg_pool, removal half.** When a live node removes the head `x` (one step of a reorg), every
    transaction of `x` is un-marked in the executed store and is pending again; nothing that was
    pending is lost. -/
theorem reorg_pool_remove {T : Nat → Option Block} (s : St) (x : Block) (c : List Block) (hs : Safe s)
    (inv : Inv T s.disk s.mem (x :: c)) (hc : c ≠ []) :
    (∀ t ∈ x.txs, (remove s x).1.disk.executed t = none ∧ t ∈ (remove s x).1.mem.pending) ∧
    (∀ t ∈ s.mem.pending, t ∈ (remove s x).1.mem.pending) := by
  have h := Out.of_alive (remove_spec hs.1 inv hc) (safe_remove x s hs).1
  exact ⟨h.2.1, h.2.2.1⟩

/-- **reorg_pool, insertion half.** When a live node inserts `b`, every transaction of `b` is marked
    executed in `b` and is no longer pending. -/
theorem reorg_pool_insert {T : Nat → Option Block} (s : St) (b y : Block) (c : List Block) (hs : Safe s)
    (inv : Inv T s.disk s.mem c) (hp : b.pre = y.hash) (hy : c.head? = some y) (hh : y.height < b.height)
    (hn : s.disk.blocks b.hash = none) (hT : T b.hash = some b) (hfresh : ∀ z ∈ c, ∀ t ∈ b.txs, t ∉ z.txs) :
    ∀ t ∈ b.txs, (insertB (insertA s b) b).disk.executed t = some b.hash ∧ t ∉ (insertB (insertA s b) b).mem.pending := by
  have hsafe : Safe (insertB (insertA s b) b) := safe_insertB b _ (safe_writes _ s hs)
  exact (Out.of_alive (insertAB_spec hs.1 inv hp hy hh hn hT hfresh) hsafe.1).2.1


/-! ## non-vacuity: a concrete tree and concrete states satisfy the hypotheses -/

def exG : Block := { hash := 1, pre := 0, height := 0, totalQN := 0, pv := 0, txs := [], valid := true }
def exB1 : Block := { hash := 2, pre := 1, height := 1, totalQN := 1, pv := 5, txs := [7], valid := true }
def exB2 : Block := { hash := 3, pre := 1, height := 2, totalQN := 2, pv := 4, txs := [8], valid := true }
def exT : Nat → Option Block := fun h => if h = 1 then some exG else if h = 2 then some exB1 else if h = 3 then some exB2 else none

theorem exT_anc {a b : Block} (h : IsAnc exT a b) : a = exG := by
  induction h with
  | parent hb hp =>
    unfold exT at hb
    split at hb
    · simp at hb; subst hb; simp [exT, exG] at hp
    · split at hb
      · simp at hb; subst hb; simp [exT, exB1] at hp; exact hp.symm
      · split at hb
        · simp at hb; subst hb; simp [exT, exB2] at hp; exact hp.symm
        · cases hb
  | step _ _ _ ih => exact ih

theorem exT_valid : ValidTree exT := by
  constructor
  · intro b q hb hq
    unfold exT at hb
    split at hb
    · simp at hb; subst hb; simp [exT, exG] at hq
    · split at hb
      · simp at hb; subst hb
        simp [exT, exB1] at hq; subst hq; simp [exG, exB1]
      · split at hb
        · simp at hb; subst hb
          simp [exT, exB2] at hq; subst hq; simp [exG, exB2]
        · cases hb
  · intro a b h t _
    rw [exT_anc h]; simp [exG]

/-- the genesis store is a state to which `inv_add`, `inv_crash`, `inv_restart` apply -/
example : Inv exT (genesisState exG).disk (genesisState exG).mem [exG] ∧ Safe (genesisState exG) :=
  ⟨inv_genesis exT exG rfl rfl rfl, rfl, rfl⟩

/-- … and so is the store after delivering an extension and then a heavier sibling (a reorg) -/
example : ∃ c, Inv exT ([exB1, exB2].foldl (fun s b => (addBlock 4 s b).1) (genesisState exG)).disk
    ([exB1, exB2].foldl (fun s b => (addBlock 4 s b).1) (genesisState exG)).mem c :=
  inv_add_all exT_valid 4 [exB1, exB2] (genesisState exG) [exG] ⟨rfl, rfl⟩ (inv_genesis exT exG rfl rfl rfl)
    (by intro b hb; simp at hb; rcases hb with rfl | rfl <;> rfl)

/-- a two-block chain, as `head_after_crash_remove` and `reorg_pool_remove` need it -/
example : Inv exT (insertB (insertA (genesisState exG) exB1) exB1).disk (insertB (insertA (genesisState exG) exB1) exB1).mem
    [exB1, exG] :=
  (Out.of_alive (insertAB_spec (T := exT) (s := genesisState exG) (y := exG) rfl (inv_genesis exT exG rfl rfl rfl)
    rfl rfl (by decide) rfl rfl (by intro z hz t _; simp at hz; subst hz; simp [exG])) rfl).1

/-- the guard is neither always true nor always false -/
example : Guard (genesisState exG) exB1 := Or.inl rfl
example : ¬ Guard (genesisState exG) { exB1 with pre := 99 } := by
  intro h
  rcases h with h | ⟨anc, h, _⟩
  · exact absurd h (by decide)
  · simp [genesisState, upd, exG] at h


/-- `head_weight_monotone` applies to the genesis store and a block of the example tree -/
example : ∃ c', Inv exT (addBlock 2 (genesisState exG) exB1).1.disk (addBlock 2 (genesisState exG) exB1).1.mem c' ∧
    WeightGE [exG] c' :=
  head_weight_monotone exT 0 (genesisState exG) exB1 [exG] exT_valid ⟨rfl, rfl⟩ (inv_genesis exT exG rfl rfl rfl) rfl

/-! The weight order discriminates on the tie-break at the fork point (the class of a wrong local block
    being consulted): local chain `A – L1(pv 900) – L2(pv 100)`, fork tip `C` on `A` with the same cumulative
    QN. With pv 950 the fork is not lighter, with pv 500 it IS lighter although it beats `L2`. -/
def wA : Block := { hash := 10, pre := 0, height := 0, totalQN := 1, pv := 0, txs := [], valid := true }
def wL1 : Block := { hash := 11, pre := 10, height := 1, totalQN := 2, pv := 900, txs := [], valid := true }
def wL2 : Block := { hash := 12, pre := 11, height := 2, totalQN := 3, pv := 100, txs := [], valid := true }
def wC (pv : Nat) : Block := { hash := 13, pre := 10, height := 2, totalQN := 3, pv := pv, txs := [], valid := true }

example : WeightGE [wL2, wL1, wA] [wC 950, wA] :=
  Or.inr ⟨wL2, wC 950, rfl, rfl, Or.inr ⟨rfl, wA, by simp, by simp, wL1, by simp, wC 950, by simp, rfl, rfl, by decide⟩⟩

example : ¬ WeightGE [wL2, wL1, wA] [wC 500, wA] := by
  intro h
  rcases h with h | ⟨hd, hd', h1, h2, h3⟩
  · revert h; decide
  · simp at h1 h2; subst h1; subst h2
    rcases h3 with h | ⟨_, fork, hf, hf', ln, hl, nb, hn, e1, e2, e3⟩
    · revert h; decide
    · simp at hf hf' hl hn
      rcases hn with rfl | rfl
      · rcases hf' with rfl | rfl
        · revert e2; decide
        · rcases hl with rfl | rfl | rfl
          · revert e1; decide
          · revert e3; decide
          · revert e1; decide
      · revert e2
        rcases hf' with rfl | rfl <;> decide

/-- What the fork switch does NOT give: the weight clause. With no (addable) fork block the head simply moves
    back to the common ancestor. `triggerOnChain` guards this with its own comparison of the fork tip's QN and
    by only switching to forks whose blocks it holds; a fork block that fails `tryAddBlockOnChain` midway
    leaves the head below the old one. This path is outside the property's quantifier (blocks delivered through
    the add-block entry point) and is not exercised by the correspondence. -/
theorem fork_switch_can_lower_head :
    ∃ (s : St) (anc : Block), Safe s ∧ (forkSwitch 4 s anc []).mem.latest.totalQN < s.mem.latest.totalQN :=
  ⟨insertB (insertA (genesisState exG) exB1) exB1, exG, ⟨rfl, rfl⟩, by decide⟩

/-- non-vacuity of the new pure-function theorems -/
example : pvGreater { exB1 with pv := 9 } exB1 = true ∧ pvGreater exB1 { exB1 with hash := 1 } = true := by decide
example : requestIdFrom [0, 7, 3] 5 = 7 ∧ requestIdFrom [0, 3] 5 = 5 ∧ requestIdFrom [] 0 = 0 := by decide
example : nextPvGreatThanFork 3 (some exB1) exG 2 (some { exB1 with pv := 9 }) = false := by decide

/-! ## the hypotheses of `ValidTree` are needed: what the store does when consensus does not enforce them

`core` itself checks none of the three `ValidTree` conditions (height above the parent's, cumulative QN not below
the parent's, no transaction of an ancestor repeated); the consensus layer does (`VerifyNewBlock`), and
Proposal008 does the third at verification time. With consensus stubbed to accept, the real store behaves as the
model below — replayed by `corpus/C05/11…13` (monitor off, correspondence on): documented quirks, not findings,
since the property quantifies over trees of VALID blocks. -/

def twoChain : St := insertB (insertA (genesisState exG) exB1) exB1
def sameHeight : Block := { hash := 9, pre := 2, height := 1, totalQN := 2, pv := 1, txs := [], valid := true }
def lowerQN : Block := { hash := 9, pre := 2, height := 2, totalQN := 0, pv := 1, txs := [], valid := true }
def repeatsTx : Block := { hash := 9, pre := 2, height := 2, totalQN := 2, pv := 1, txs := [7], valid := true }

/-- Without "child higher than parent": an extension at its parent's height overwrites the parent's slot of the
    height index; no chain satisfies the invariant afterwards. -/
theorem inv_add_needs_height_counterexample :
    ¬ ∃ c, ChainInv (addBlock 4 twoChain sameHeight).1.disk c := by
  rintro ⟨c, ci⟩
  have hb : (addBlock 4 twoChain sameHeight).1.disk.blocks 2 = some exB1 := by decide
  have hh : (addBlock 4 twoChain sameHeight).1.disk.heights 1 = some sameHeight := by decide
  have hm := (ci.blocks_only 2 exB1 hb).1
  have := ci.heights_mem exB1 hm
  have e : exB1.height = 1 := rfl
  rw [e, hh] at this
  exact absurd this (by decide)

/-- Without "cumulative QN not below the parent's": an extension with a lower TotalQN is accepted and the head's
    cumulative QN decreases (`head_qn_monotone` fails). -/
theorem head_qn_needs_valid_qn_counterexample :
    (addBlock 4 twoChain lowerQN).1.mem.latest.totalQN < twoChain.mem.latest.totalQN := by decide

/-- Without "no ancestor transaction repeated" (and before Proposal008, which otherwise rejects the block): the
    executed record of the transaction moves to the later block and the pool clause fails for the ancestor. -/
theorem pool_needs_txfresh_counterexample :
    ¬ ∃ c, ChainInv (addBlock 4 { twoChain with p008 := false } repeatsTx).1.disk c := by
  rintro ⟨c, ci⟩
  have hb : (addBlock 4 { twoChain with p008 := false } repeatsTx).1.disk.blocks 2 = some exB1 := by decide
  have he : (addBlock 4 { twoChain with p008 := false } repeatsTx).1.disk.executed 7 = some 9 := by decide
  have hm := (ci.blocks_only 2 exB1 hb).1
  have := ci.exec_mem exB1 hm 7 (by decide)
  rw [he] at this
  exact absurd this (by decide)

end Rangers.Props.C05
