import Rangers.Model.ChainStore
/-! Property C05 — placeholder while the tie is being built; replaced by the real theorems. -/
namespace Rangers.Props.C05
open Rangers.Model.ChainStore

/-- After the process died nothing reaches the disk. -/
theorem write_dead (s : St) (w : Write) (h : s.crashed = true) : s.write w = s := by
  simp [St.write, h]

end Rangers.Props.C05
