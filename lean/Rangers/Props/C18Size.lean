import Rangers.Proofs.DecimalSize
/-!
# C18 (deepening) — how large can the parsed integer get? (resource observation, not part of C18)

`strToBigInt` accepts `e`/`p` exponent forms, and `Float.Int` materialises the integer:
a 9-character amount such as `"9e2726818"` becomes a 9-million-bit integer
(`"9e272681876"`, 11 characters, gives ~0.9·10^9 bits: a ~113 MB allocation; building it is
fast, but printing it — e.g. `raw.TransferValue.String()` in the insufficient-funds log line of
`preCheckContractFee` — takes minutes of CPU in the real code). The theorems state exactly what bounds the size: the length of the
string **plus the value of its exponent**. Without an exponent marker the result is linear in
the input length. C18 as stated (lossless conversion of decimal strings) is not affected;
this is recorded for the owners of the resource-bound properties (C06 amount validation,
C07 admission, C11 total/bounded execution).
-/
namespace Rangers.Props.C18Size
open Rangers.Decimal

/-- **Size bound for every input**: bits(result) ≤ 4·|s| + 5·exp + 4·d + 8, where `exp` is
    the (decimal or binary) exponent the string carries (`expPart`). -/
theorem result_size_bound (s : Str) (d : Int) (v : Int) (h : strToBigInt s d = .ok v) :
    (bitLen v.natAbs : Int) ≤ 4 * (s.length : Int) + 5 * ((expPart s).toNat : Int) + 4 * (d.toNat : Int) + 8 :=
  strToBigInt_size s d v h

example : strToBigInt "12.5".toList 18 = .ok 12500000000000000000 ∧ expPart "12.5".toList = 0 ∧
    expPart "-3e17".toList = 17 := by decide +kernel

/-- what one would like for an amount field: result size linear in the input length -/
def FullStatementLinearSize : Prop :=
  ∀ (s : Str) (d : Int) (v : Int), strToBigInt s d = .ok v →
    (bitLen v.natAbs : Int) ≤ 4 * (s.length : Int) + 4 * (d.toNat : Int) + 8

/-- The provable restriction: a string without `e`, `E`, `p`, `P` (in particular every decimal
    string C18 speaks of, and everything `bigIntToStr` prints) yields at most
    `4·|s| + 4·d + 8` bits. Rejecting exponent markers before calling `StrToBigInt` is
    therefore sufficient to bound the work. -/
theorem linear_size_partial (s : Str) (d : Int) (v : Int) (h : strToBigInt s d = .ok v)
    (hno : ∀ c ∈ s, c ≠ 'e' ∧ c ≠ 'E' ∧ c ≠ 'p' ∧ c ≠ 'P') :
    (bitLen v.natAbs : Int) ≤ 4 * (s.length : Int) + 4 * (d.toNat : Int) + 8 := by
  have := strToBigInt_size s d v h
  rw [expPart_eq_zero s hno] at this
  simpa using this

example : ∀ c ∈ "115792089237316195423570985008687907853269984665640564039457.584007913129639935".toList,
    c ≠ 'e' ∧ c ≠ 'E' ∧ c ≠ 'p' ∧ c ≠ 'P' := by decide +kernel

/-- bits of an `ok` result (0 otherwise) -/
def resBits : Res → Int
  | .ok v => (bitLen v.natAbs : Int)
  | _ => 0

/-- With an exponent the size is exponential in the length: 7 characters give more than
    66 000 bits (the same op on the real code: corpus `size 31653230303030 18`; `"9e2726818"`
    → 9 058 362 bits there). -/
theorem linear_size_counterexample : ¬ FullStatementLinearSize := by
  intro h
  have hb : (66000 : Int) < resBits (strToBigInt "1e20000".toList 18) := by decide +kernel
  cases hr : strToBigInt "1e20000".toList 18 with
  | ok v =>
    rw [hr] at hb
    simp only [resBits] at hb
    have := h "1e20000".toList 18 v hr
    have hl : ("1e20000".toList.length : Int) = 7 := by decide
    rw [hl] at this
    norm_num at this
    omega
  | err => rw [hr] at hb; simp [resBits] at hb
  | panic => rw [hr] at hb; simp [resBits] at hb

end Rangers.Props.C18Size
