import Rangers.Props.C20B
/-!
# C20 (continued) — the operator-node transaction (type 7), further readers and house-keeping writers

`runNode`/`execNode` (Model/Miner.lean) model `minerNodeExecutor.Execute` with the EVM call to the main-node contract
as an external input `create2 : Option Bytes`; the correspondence stream drives the real executor against a stand-in
contract.
-/
namespace Rangers.Props.C20D
open Rangers Rangers.Miner

theorem execNode_fail (cfg : Cfg) (st : State) (src : Bytes) (c2 : Option Bytes) :
    (execNode cfg st src c2).1 ≠ "ok" → (execNode cfg st src c2).2 = st := by
  unfold execNode
  by_cases hb : st.balOf (toAddr src) < nodePrice
  · simp [hb]
  · simp only [hb, if_false]
    cases byAccount cfg (st.subBal (toAddr src) nodePrice) src with
    | none => simp
    | some id =>
      simp only
      cases getMiner cfg (st.subBal (toAddr src) nodePrice) id with
      | none => simp
      | some m => cases c2 <;> simp

/-- Full strength: a rejected operator-node transaction changes nothing but the fee (the 10-token debit that precedes
    the checks is journaled and reverted). -/
theorem node_rejected_only_fee (cfg : Cfg) (st : State) (src : Bytes) (c2 : Option Bytes)
    (h : (runNode cfg st src c2).1 ≠ "ok") :
    (runNode cfg st src c2).2 = st ∨ processFee st src = some (runNode cfg st src c2).2 := by
  unfold runNode at h ⊢
  cases hf : processFee st src with
  | none => left; rfl
  | some st1 =>
    right
    simp only [hf] at h ⊢
    by_cases hok : (execNode cfg st1 src c2).1 = "ok"
    · simp only [hok, if_true] at h; exact absurd rfl h
    · simp only [hok, if_false]

/-- What an accepted operator-node transaction is: the sender could pay fee and price, controls a miner (as the
    block-stale by-account lookup sees it), the contract answered with an address, and the only registry change is that
    miner's account. -/
theorem node_accepted (cfg : Cfg) (st : State) (src : Bytes) (c2 : Option Bytes) (h : (runNode cfg st src c2).1 = "ok") :
    ∃ st1 id m a, processFee st src = some st1 ∧ nodePrice ≤ st1.balOf (toAddr src) ∧ c2 = some a ∧
      byAccount cfg (st1.subBal (toAddr src) nodePrice) src = some id ∧
      getMiner cfg (st1.subBal (toAddr src) nodePrice) id = some m ∧
      (runNode cfg st src c2).2 = updateMiner cfg (st1.subBal (toAddr src) nodePrice) { m with account := a } none := by
  unfold runNode at h ⊢
  cases hf : processFee st src with
  | none => simp [hf] at h
  | some st1 =>
    simp only [hf] at h ⊢
    by_cases hok : (execNode cfg st1 src c2).1 = "ok"
    · simp only [hok, if_true]
      unfold execNode at hok ⊢
      by_cases hb : st1.balOf (toAddr src) < nodePrice
      · simp [hb] at hok
      · simp only [hb, if_false] at hok ⊢
        cases hid : byAccount cfg (st1.subBal (toAddr src) nodePrice) src with
        | none => simp [hid] at hok
        | some id =>
          simp only [hid] at hok ⊢
          cases hm : getMiner cfg (st1.subBal (toAddr src) nodePrice) id with
          | none => simp [hm] at hok
          | some m =>
            simp only [hm] at hok ⊢
            cases c2 with
            | none => simp at hok
            | some a => exact ⟨st1, id, m, a, rfl, by omega, rfl, hid, hm, rfl⟩
    · simp [hok] at h

/-- The price is destroyed: after an accepted operator-node transaction the sum of all balances is lower by exactly
    10 tokens (the fee moved to the fee account), nothing is escrowed or scheduled for it (finding
    `operator-node-burns-10-rpg`). -/
theorem node_burns_price (cfg : Cfg) (st : State) (src : Bytes) (c2 : Option Bytes) (h : (runNode cfg st src c2).1 = "ok") :
    balTotal (runNode cfg st src c2).2 + nodePrice = balTotal st ∧
      (runNode cfg st src c2).2.escrow = st.escrow ∧ (runNode cfg st src c2).2.pending = st.pending := by
  obtain ⟨st1, id, m, a, hfee, hle, _, _, _, hst⟩ := node_accepted cfg st src c2 h
  have hl := processFee_live st st1 src hfee
  have hf := updateMiner_pending cfg (st1.subBal (toAddr src) nodePrice) { m with account := a } none
  rw [hst, balTotal_of_bal _ _ (updateMiner_bal ..), hf.1, hf.2.1]
  have := balTotal_subBal st1 (toAddr src) nodePrice hle
  rw [← balTotal_processFee st st1 src hfee]
  exact ⟨this, hl.2.2.2.1, hl.2.2.1⟩

/-- … while every recorded stake stays what it was and the invariant survives: only the 10 tokens are missing from the
    conserved sum. -/
theorem node_wealth (cfg : Cfg) (U : List Bytes) (st : State) (src : Bytes) (c2 : Option Bytes) (hraw : RawOK cfg)
    (hs : SepU cfg U) (hn : U.Nodup) (hinv : Inv cfg U st) (h : (runNode cfg st src c2).1 = "ok")
    (hdec : ∀ a, c2 = some a → cfg.dec a = none) (hU : ∀ id, byAccount cfg st src = some id → id ∈ U) :
    Inv cfg U (runNode cfg st src c2).2 ∧ wealth cfg U (runNode cfg st src c2).2 + nodePrice = wealth cfg U st := by
  obtain ⟨st1, id, m, a, hfee, hle, hc2, hid, hm, hst⟩ := node_accepted cfg st src c2 h
  obtain ⟨hinv1, hw1⟩ := inv_fee cfg U st st1 src hinv hfee
  have hl := processFee_live st st1 src hfee
  have hinv2 : Inv cfg U (st1.subBal (toAddr src) nodePrice) :=
    ⟨recKeyed_of_live cfg st1 _ rfl hinv1.rk, clean_of_live cfg U st1 _ rfl hinv1.clean, hinv1.pn, hinv1.a20⟩
  have hidU : id ∈ U := by
    apply hU
    rw [← byAccount_congr cfg st (st1.subBal (toAddr src) nodePrice) hl.1 hl.2.1]; exact hid
  have hrk' : RecKeyed cfg (updateMiner cfg (st1.subBal (toAddr src) nodePrice) { m with account := a } none) := by
    apply recKeyed_updateMiner_none _ _ _ hraw hinv2.rk
    intro info _ hd
    rw [hdec a hc2] at hd; cases hd
  obtain ⟨hinv3, hw3⟩ := chacc_preserves cfg U (st1.subBal (toAddr src) nodePrice) id a m hs hn hinv2 hidU hm hrk'
  rw [hst]
  refine ⟨hinv3, ?_⟩
  rw [hw3, ← hw1]
  have hsub := balTotal_subBal st1 (toAddr src) nodePrice hle
  unfold wealth
  have e1 : stakeTotal cfg (st1.subBal (toAddr src) nodePrice) U = stakeTotal cfg st1 U := rfl
  have e2 : pendingSum (st1.subBal (toAddr src) nodePrice).pending = pendingSum st1.pending := rfl
  have e3 : escTotal (st1.subBal (toAddr src) nodePrice) = escTotal st1 := rfl
  rw [e1, e2, e3]
  omega

def stNode : State := run toyCfg funded [.tx (.apply addr1 [0x11] 0 800 [] [1] [1]), .tx (.apply addr2 [0x22] 1 2000 [] [1] [1]), .endBlock 101]

/-- Non-vacuity: an accepted operator-node transaction, and its effect on the account and on the total. -/
example : (runNode toyCfg stNode addr1 (some (List.replicate 20 0xfb))).1 = "ok" ∧
    ((getMinerById toyCfg (runNode toyCfg stNode addr1 (some (List.replicate 20 0xfb))).2 .val [0x11]).map (·.account))
      = some (List.replicate 20 0xfb) ∧
    balTotal (runNode toyCfg stNode addr1 (some (List.replicate 20 0xfb))).2 + nodePrice = balTotal stNode := by decide
example : (runNode toyCfg stNode addr1 none).1 = "fail:create2" ∧ (runNode toyCfg funded addr1 none).1 = "fail:nominer" := by decide

/-- "An account controls at most one miner" for the operator-node transaction: the new controlling account is never
    one that already controls a miner. -/
def FullStatementNodeKeepsAccountsUnique : Prop :=
  ∀ cfg st src a id' m', (runNode cfg st src (some a)).1 = "ok" →
    getMiner cfg st id' = some m' → m'.account = a → m'.account = src

/-- False of the code: unlike the change-account transaction the operator-node executor never asks
    `GetMinerIdByAccount(newAccount)`. Witness (also corpus 07, model = code): miner 0x22 already has the address the
    contract answers. With the real main-node contract the answer is a fresh create2 address, so this is a documented
    quirk, not a finding. -/
theorem node_account_check_counterexample : ¬ FullStatementNodeKeepsAccountsUnique := by
  intro h
  obtain ⟨m', hm'⟩ : ∃ m, getMiner toyCfg stNode [0x22] = some m := Option.isSome_iff_exists.mp (by decide)
  have hacc : m'.account = addr2 := by
    have : (getMiner toyCfg stNode [0x22]).map (·.account) = some addr2 := by decide
    rw [hm'] at this; simpa using this
  have := h toyCfg stNode addr1 addr2 [0x22] m' (by decide) hm' hacc
  rw [hacc] at this
  exact absurd this (by decide)

/-! ## `GetValidatorsStake` and `RemoveUnusedValidator` -/

theorem validatorsStake_fold (cfg : Cfg) (st : State) (ms : List Bytes) (acc : Nat × List (Bytes × Nat)) (hacc : acc.1 < 2 ^ 64) :
    (ms.foldl (fun acc id =>
      let s := u64 ((st.live .val).get (slotStake cfg id))
      if s = 0 then acc
      else ((acc.1 + s) % 2 ^ 64, mapAdd acc.2 (toAddr ((st.live .val).get (slotAcct cfg id))) s)) acc).1
      = (acc.1 + (ms.map (stakeAt cfg st .val)).sum) % 2 ^ 64 := by
  induction ms generalizing acc with
  | nil => simp [Nat.mod_eq_of_lt hacc]
  | cons id ms ih =>
    simp only [List.foldl_cons, List.map_cons, List.sum_cons]
    by_cases hz : u64 ((st.live .val).get (slotStake cfg id)) = 0
    · simp only [hz, if_true]
      rw [ih acc hacc]
      have : stakeAt cfg st .val id = 0 := hz
      rw [this]; simp
    · simp only [hz, if_false]
      rw [ih _ (Nat.mod_lt _ (by decide))]
      have : stakeAt cfg st .val id = u64 ((st.live .val).get (slotStake cfg id)) := rfl
      rw [this]
      simp only
      omega

/-- Full strength: the total `GetValidatorsStake` returns for a member list is the (`uint64`) sum of the stakes the
    validator registry records for them (members without stake contribute nothing). -/
theorem validatorsStake_total (cfg : Cfg) (st : State) (ms : List Bytes) :
    (validatorsStake cfg st ms).1 = (ms.map (stakeAt cfg st .val)).sum % 2 ^ 64 := by
  unfold validatorsStake
  rw [validatorsStake_fold cfg st ms (0, []) (by decide)]
  simp

example : (validatorsStake toyCfg stNode [[0x11], [0x22], [0x11]]).1 = 1600 := by decide

theorem removeMiner_other (cfg : Cfg) (st : State) (id acc : Bytes) (l : Nat) :
    (removeMiner cfg st id acc typeValidator l).live .prop = st.live .prop ∧
    (removeMiner cfg st id acc typeValidator l).live .zero = st.live .zero ∧
    (removeMiner cfg st id acc typeValidator l).bal = st.bal ∧ (removeMiner cfg st id acc typeValidator l).escrow = st.escrow ∧
    (removeMiner cfg st id acc typeValidator l).pending = st.pending ∧ (removeMiner cfg st id acc typeValidator l).pk = st.pk := by
  have hd : dbOfType typeValidator = .val := by decide
  unfold removeMiner
  rw [hd]
  split <;> simp [State.write, State.setLive]

/-- `RemoveUnusedValidator` touches the validator registry only: proposers, balances, escrow, the block's refund
    context and the key cache are untouched — in particular NOTHING is refunded for the stakes it removes (robin-only
    house-keeping at Proposal010Block / Proposal019Block; documented quirk, not reachable on mainnet). -/
theorem purge_touches_validators_only (cfg : Cfg) (st : State) (white : List Bytes) :
    (removeUnusedValidator cfg st white).live .prop = st.live .prop ∧ (removeUnusedValidator cfg st white).bal = st.bal ∧
    (removeUnusedValidator cfg st white).escrow = st.escrow ∧ (removeUnusedValidator cfg st white).pending = st.pending := by
  unfold removeUnusedValidator
  generalize ((iter cfg st .val).filter (fun m => m.status = statusNormal ∧ m.id ∉ white)) = ms
  induction ms generalizing st with
  | nil => exact ⟨rfl, rfl, rfl, rfl⟩
  | cons m ms ih =>
    simp only [List.foldl_cons]
    obtain ⟨h1, h2, h3, h4⟩ := ih (removeMiner cfg st m.id m.account typeValidator 0)
    obtain ⟨g1, _, g3, g4, g5, _⟩ := removeMiner_other cfg st m.id m.account 0
    exact ⟨h1.trans g1, h2.trans g3, h3.trans g4, h4.trans g5⟩

/-- What it does to the validators: with no whitelist the committed validator 0x11 of `stNode` is gone, its 800 tokens
    of stake with it, and no balance or escrow entry appears. -/
example : getMinerById toyCfg (removeUnusedValidator toyCfg stNode []) .val [0x11] = none ∧
    stakeAt toyCfg (removeUnusedValidator toyCfg stNode []) .val [0x11] = 0 ∧
    (getMinerById toyCfg (removeUnusedValidator toyCfg stNode [[0x11]]) .val [0x11]).isSome = true ∧
    balTotal (removeUnusedValidator toyCfg stNode []) = balTotal stNode := by decide

/-! ## the two arithmetic hypotheses of the conservation theorems, refuted without them -/

/-- "What is debited for a stake is the stake" (needed by `lock_conservation_*`, which assume stake < 2^53). -/
def FullStatementDebitExact : Prop := ∀ s, s ≤ maxU64 → stakeWei s = s * wei

/-- False of the code: the debit goes through `float64(stake)`; 2^53+1 tokens are debited as 2^53. Replayed on the real
    code by corpus 04/06 (payer with 2^120 wei) and reported as `outside_hypothesis` by the searcher: not reachable while
    fewer than 2^53 tokens exist. -/
theorem debit_exact_counterexample : ¬ FullStatementDebitExact := by
  intro h
  exact absurd (h (2 ^ 53 + 1) (by decide)) (by decide)

def richState : State := { State.empty 100 with bal := [(addr1, 2 ^ 130)] }

/-- "An accepted add-stake of `delta` raises the recorded stake by `delta`" (the run theorems assume no `uint64` wrap). -/
def FullStatementAddRaisesStake : Prop :=
  ∀ cfg st src id delta d, C20.Reachable cfg st → (runTx cfg st (.add src id delta)).1 = "ok" →
    stakeAt cfg st d id ≤ stakeAt cfg (runTx cfg st (.add src id delta)).2 d id

/-- False of the code: `miner.Stake + delta` wraps (the `< 0` test on a `uint64` never fires). Witness: stake 400,
    add 2^64 − 400 → stake 0. Needs a payer holding ≥ 1.8·10^37 wei: same unreachable corner as above. -/
theorem add_wraps_counterexample : ¬ FullStatementAddRaisesStake := by
  intro h
  have hr : C20.Reachable toyCfg (run toyCfg richState [.tx (.apply addr1 [0x11] 0 400 [] [1] [1]), .endBlock 101]) :=
    ⟨100, _, [.tx (.apply addr1 [0x11] 0 400 [] [1] [1]), .endBlock 101], by
      intro o ho
      simp only [List.mem_cons, List.not_mem_nil, or_false] at ho
      rcases ho with rfl | rfl
      · exact ⟨by decide, by decide⟩
      · trivial, rfl⟩
  have := h toyCfg _ addr1 [0x11] (2 ^ 64 - 400) .val hr (by decide)
  exact absurd this (by decide)

end Rangers.Props.C20D
