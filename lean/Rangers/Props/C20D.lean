import Rangers.Props.C20B
/-!
# C20 (continued) — the operator-node transaction (type 7), further readers and house-keeping writers

`runNode`/`execNode` (Model/Miner.lean) model `minerNodeExecutor.Execute` with the EVM call to the main-node contract
as an external input `create2 : Option Bytes`; the correspondence stream drives the real executor against a stand-in
contract.
-/
namespace Rangers.Props.C20D
open Rangers Rangers.Miner

theorem execNode_fail (cfg : Cfg) (st : State) (src : Bytes) (c2 : Option Bytes) :
    (execNode cfg st src c2).1 ≠ "ok" → (execNode cfg st src c2).2 = st := by
  unfold execNode
  by_cases hb : st.balOf (toAddr src) < nodePrice
  · simp [hb]
  · simp only [hb, if_false]
    cases byAccount cfg (st.subBal (toAddr src) nodePrice) src with
    | none => simp
    | some id =>
      simp only
      cases getMiner cfg (st.subBal (toAddr src) nodePrice) id with
      | none => simp
      | some m => cases c2 <;> simp

/-- Full strength: a rejected operator-node transaction changes nothing but the fee (the 10-token debit that precedes
    the checks is journaled and reverted). -/
theorem node_rejected_only_fee (cfg : Cfg) (st : State) (src : Bytes) (c2 : Option Bytes)
    (h : (runNode cfg st src c2).1 ≠ "ok") :
    (runNode cfg st src c2).2 = st ∨ processFee st src = some (runNode cfg st src c2).2 := by
  unfold runNode at h ⊢
  cases hf : processFee st src with
  | none => left; rfl
  | some st1 =>
    right
    simp only [hf] at h ⊢
    by_cases hok : (execNode cfg st1 src c2).1 = "ok"
    · simp only [hok, if_true] at h; exact absurd rfl h
    · simp only [hok, if_false]

/-- What an accepted operator-node transaction is: the sender could pay fee and price, controls a miner (as the
    block-stale by-account lookup sees it), the contract answered with an address, and the only registry change is that
    miner's account. -/
theorem node_accepted (cfg : Cfg) (st : State) (src : Bytes) (c2 : Option Bytes) (h : (runNode cfg st src c2).1 = "ok") :
    ∃ st1 id m a, processFee st src = some st1 ∧ nodePrice ≤ st1.balOf (toAddr src) ∧ c2 = some a ∧
      byAccount cfg (st1.subBal (toAddr src) nodePrice) src = some id ∧
      getMiner cfg (st1.subBal (toAddr src) nodePrice) id = some m ∧
      (runNode cfg st src c2).2 = updateMiner cfg (st1.subBal (toAddr src) nodePrice) { m with account := a } none := by
  unfold runNode at h ⊢
  cases hf : processFee st src with
  | none => simp [hf] at h
  | some st1 =>
    simp only [hf] at h ⊢
    by_cases hok : (execNode cfg st1 src c2).1 = "ok"
    · simp only [hok, if_true]
      unfold execNode at hok ⊢
      by_cases hb : st1.balOf (toAddr src) < nodePrice
      · simp [hb] at hok
      · simp only [hb, if_false] at hok ⊢
        cases hid : byAccount cfg (st1.subBal (toAddr src) nodePrice) src with
        | none => simp [hid] at hok
        | some id =>
          simp only [hid] at hok ⊢
          cases hm : getMiner cfg (st1.subBal (toAddr src) nodePrice) id with
          | none => simp [hm] at hok
          | some m =>
            simp only [hm] at hok ⊢
            cases c2 with
            | none => simp at hok
            | some a => exact ⟨st1, id, m, a, rfl, by omega, rfl, hid, hm, rfl⟩
    · simp [hok] at h

/-- The price is destroyed: after an accepted operator-node transaction the sum of all balances is lower by exactly
    10 tokens (the fee moved to the fee account), nothing is escrowed or scheduled for it (finding
    `operator-node-burns-10-rpg`). -/
theorem node_burns_price (cfg : Cfg) (st : State) (src : Bytes) (c2 : Option Bytes) (h : (runNode cfg st src c2).1 = "ok") :
    balTotal (runNode cfg st src c2).2 + nodePrice = balTotal st ∧
      (runNode cfg st src c2).2.escrow = st.escrow ∧ (runNode cfg st src c2).2.pending = st.pending := by
  obtain ⟨st1, id, m, a, hfee, hle, _, _, _, hst⟩ := node_accepted cfg st src c2 h
  have hl := processFee_live st st1 src hfee
  have hf := updateMiner_pending cfg (st1.subBal (toAddr src) nodePrice) { m with account := a } none
  rw [hst, balTotal_of_bal _ _ (updateMiner_bal ..), hf.1, hf.2.1]
  have := balTotal_subBal st1 (toAddr src) nodePrice hle
  rw [← balTotal_processFee st st1 src hfee]
  exact ⟨this, hl.2.2.2.1, hl.2.2.1⟩

/-- … while every recorded stake stays what it was and the invariant survives: only the 10 tokens are missing from the
    conserved sum. -/
theorem node_wealth (cfg : Cfg) (U : List Bytes) (st : State) (src : Bytes) (c2 : Option Bytes) (hraw : RawOK cfg)
    (hs : SepU cfg U) (hn : U.Nodup) (hinv : Inv cfg U st) (h : (runNode cfg st src c2).1 = "ok")
    (hdec : ∀ a, c2 = some a → cfg.dec a = none) (hU : ∀ id, byAccount cfg st src = some id → id ∈ U) :
    Inv cfg U (runNode cfg st src c2).2 ∧ wealth cfg U (runNode cfg st src c2).2 + nodePrice = wealth cfg U st := by
  obtain ⟨st1, id, m, a, hfee, hle, hc2, hid, hm, hst⟩ := node_accepted cfg st src c2 h
  obtain ⟨hinv1, hw1⟩ := inv_fee cfg U st st1 src hinv hfee
  have hl := processFee_live st st1 src hfee
  have hinv2 : Inv cfg U (st1.subBal (toAddr src) nodePrice) :=
    ⟨recKeyed_of_live cfg st1 _ rfl hinv1.rk, clean_of_live cfg U st1 _ rfl hinv1.clean, hinv1.pn, hinv1.a20⟩
  have hidU : id ∈ U := by
    apply hU
    rw [← byAccount_congr cfg st (st1.subBal (toAddr src) nodePrice) hl.1 hl.2.1]; exact hid
  have hrk' : RecKeyed cfg (updateMiner cfg (st1.subBal (toAddr src) nodePrice) { m with account := a } none) := by
    apply recKeyed_updateMiner_none _ _ _ hraw hinv2.rk
    intro info _ hd
    rw [hdec a hc2] at hd; cases hd
  obtain ⟨hinv3, hw3⟩ := chacc_preserves cfg U (st1.subBal (toAddr src) nodePrice) id a m hs hn hinv2 hidU hm hrk'
  rw [hst]
  refine ⟨hinv3, ?_⟩
  rw [hw3, ← hw1]
  have hsub := balTotal_subBal st1 (toAddr src) nodePrice hle
  unfold wealth
  have e1 : stakeTotal cfg (st1.subBal (toAddr src) nodePrice) U = stakeTotal cfg st1 U := rfl
  have e2 : pendingSum (st1.subBal (toAddr src) nodePrice).pending = pendingSum st1.pending := rfl
  have e3 : escTotal (st1.subBal (toAddr src) nodePrice) = escTotal st1 := rfl
  rw [e1, e2, e3]
  omega

def stNode : State := run toyCfg funded [.tx (.apply addr1 [0x11] 0 800 [] [1] [1]), .tx (.apply addr2 [0x22] 1 2000 [] [1] [1]), .endBlock 101]

/-- Non-vacuity: an accepted operator-node transaction, and its effect on the account and on the total. -/
example : (runNode toyCfg stNode addr1 (some (List.replicate 20 0xfb))).1 = "ok" ∧
    ((getMinerById toyCfg (runNode toyCfg stNode addr1 (some (List.replicate 20 0xfb))).2 .val [0x11]).map (·.account))
      = some (List.replicate 20 0xfb) ∧
    balTotal (runNode toyCfg stNode addr1 (some (List.replicate 20 0xfb))).2 + nodePrice = balTotal stNode := by decide
example : (runNode toyCfg stNode addr1 none).1 = "fail:create2" ∧ (runNode toyCfg funded addr1 none).1 = "fail:nominer" := by decide

/-- "An account controls at most one miner" for the operator-node transaction: the new controlling account is never
    one that already controls a miner. -/
def FullStatementNodeKeepsAccountsUnique : Prop :=
  ∀ cfg st src a id' m', (runNode cfg st src (some a)).1 = "ok" →
    getMiner cfg st id' = some m' → m'.account = a → m'.account = src

/-- False of the code: unlike the change-account transaction the operator-node executor never asks
    `GetMinerIdByAccount(newAccount)`. Witness (also corpus 07, model = code): miner 0x22 already has the address the
    contract answers. With the real main-node contract the answer is a fresh create2 address, so this is a documented
    quirk, not a finding. -/
theorem node_account_check_counterexample : ¬ FullStatementNodeKeepsAccountsUnique := by
  intro h
  obtain ⟨m', hm'⟩ : ∃ m, getMiner toyCfg stNode [0x22] = some m := Option.isSome_iff_exists.mp (by decide)
  have hacc : m'.account = addr2 := by
    have : (getMiner toyCfg stNode [0x22]).map (·.account) = some addr2 := by decide
    rw [hm'] at this; simpa using this
  have := h toyCfg stNode addr1 addr2 [0x22] m' (by decide) hm' hacc
  rw [hacc] at this
  exact absurd this (by decide)

end Rangers.Props.C20D
