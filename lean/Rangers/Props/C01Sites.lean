import Rangers.Generated.NondetSites
/-!
# C01 — every source of nondeterminism the translator finds is accounted for

`Rangers.Generated.NondetSites` is rewritten from the go-rangers working tree by
`gen/cmd/c01facts` on every run.  A site key encodes kind, file, function, the ranged
expression and the *shape* of the loop body (set of callees, early exit).  A new
range-over-map, clock/rand call, go statement or float use on the execution path, or a new
call inside one of the known loop bodies, produces a key that is in none of the three
lists below, and `sites_accounted` stops checking.
-/
namespace Rangers.Props.C01Sites
open Rangers.Generated.NondetSites

/-- sites that are a fold over an explicit iteration order in `Model/BlockExec.lean`, with an order-irrelevance theorem in `Props/C01.lean` -/
def modelled : List Nat := [
  1214644477106985,  -- maprange src/service/game.go ChangeAssets [targets] — keys collected, then sort.Strings (fix:) — changeAssets_order_irrelevant
  1251486961250260,  -- maprange src/service/refund_manager.go RefundManager.Add [data] — refund_add_order_irrelevant
  3252808477731677,  -- maprange src/service/refund_manager.go RefundManager.CheckAndMove [refundList] — checkAndMove_order_irrelevant
  1159134369751614,  -- maprange src/service/reward_calculator.go RewardCalculator.CalculateReward [total] — reward_order_irrelevant (ρ.total)
  2649703203380604,  -- maprange src/service/reward_calculator.go RewardCalculator.calculateRewardPerBlock [proposersStake] — reward_map_order_irrelevant
  4133328550058675,  -- maprange src/service/reward_calculator.go RewardCalculator.calculateRewardPerBlock [validatorStake] — reward_map_order_irrelevant
  3936070550088349  -- maprange src/storage/account/accountdb.go AccountDB.Finalise [adb.accountObjectsDirty] — finalise_order_irrelevant / root_deterministic
]

/-- sites whose loop body is a pointwise write per distinct key (the shape proved order-irrelevant for Finalise / the assign loop), or whose value is excluded by a stated hypothesis -/
def provedIrrelevant : List Nat := [
  3856436940803613,  -- clock src/core/vmexecutor.go VMExecutor.Execute [utility.GetTime guard=casting] — reading used only under situation == "casting" (excluded by hypothesis)
  3856436672368157,  -- clock src/core/vmexecutor.go VMExecutor.Execute [utility.GetTime guard=casting] — reading used only under situation == "casting" (excluded by hypothesis)
  819878443287521,  -- clock src/core/vmexecutor.go VMExecutor.Execute [utility.GetTime guard=none in=log] — argument of the perf log line only
  853210697014512,  -- float src/service/miner_manager.go MinerManager.AddMiner [float64 arithmetic] — Float64ToBigInt(float64(stake)) inside the uninterpreted miner executor
  2729115008603403,  -- float src/service/miner_manager.go MinerManager.AddStake [float64 arithmetic] — idem
  1651635626124009,  -- float src/service/reward_calculator.go RewardCalculator.NextRewardHeight [float64 arithmetic] — ceil(float64(h)/float64(n)): deterministic IEEE-754, input of RewardIn.nextHeight
  4053208236702098,  -- float src/service/reward_calculator.go RewardCalculator.calculateRewardPerBlock [float64 arithmetic] — float leaves are uninterpreted numbers of RewardIn
  995355851358404,  -- float src/service/reward_calculator.go getTotalReward [float64 arithmetic] — idem
  1193841345351180,  -- maprange src/storage/account/access_list.go accessList.Copy [a.addresses] — copy into a fresh map (pointwise)
  463605537198112,  -- maprange src/storage/account/access_list.go accessList.Copy [slotMap] — copy into a fresh map (pointwise)
  3985031088353963,  -- maprange src/storage/account/account_object.go Storage.Copy [s] — copy into a fresh map (pointwise)
  2705308017770881,  -- maprange src/storage/account/account_object.go accountObject.updateTrie [ao.dirtyStorage] — one trie write per distinct storage key: same shape as Finalise (finalise_order_irrelevant)
  4416968965708562,  -- maprange src/storage/account/account_object_tuntun.go accountObject.getAllRefund [c.cachedStorage] — assignment into a fresh map keyed by BytesToAddress(key); keys distinct for 20-byte ids (assign loop, reward_map_order_irrelevant shape); its result is ranged by CheckAndMove (modelled)
  4244592305674814,  -- syncrange src/storage/account/accountdb.go AccountDB.Commit [adb.accountObjects] — per-address trie write after execution, same shape as Finalise
  4244764451203326,  -- maprange src/storage/account/accountdb.go AccountDB.SetStorage [storage] — SetData per distinct key (pointwise)
  1948980877343030,  -- maprange src/storage/account/transient_storage.go transientStorage.Copy [t] — copy into a fresh map (pointwise)
  2047608538149921  -- maprange src/vm/logger.go Storage.Copy [s] — copy into a fresh map (pointwise)
]

/-- sites in the scanned files that block execution never reaches -/
def outOfPath : List Nat := [
  155724176486280,  -- float src/middleware/types/receipt.go Receipt.Size [float64 arithmetic] — cache size accounting
  1874387891556681,  -- go src/service/transaction_pool.go TxPool.MarkExecuted [mysql.InsertLogs] — after the block is executed and accepted (log export)
  3615489623871734,  -- maprange src/storage/account/account_object.go Storage.String [s] — debug printing only
  2736704378582563,  -- maprange src/vm/contracts.go init [PrecompiledContracts] — vm.PrecompiledAddresses is never read (ActivePrecompiles has no caller)
  2650438225647281  -- clock src/vm/vm_test_helper.go setDefaults [time.Now guard=none] — test helper
]

theorem sites_accounted : ∀ k ∈ siteKeys, k ∈ modelled ∨ k ∈ provedIrrelevant ∨ k ∈ outOfPath := by
  decide

/-- the sites the model folds over still exist in the source (a vanished site means a stale model) -/
theorem modelled_sites_exist : ∀ k ∈ modelled, k ∈ siteKeys := by
  decide

/-- the generated key list is the key column of the generated table -/
theorem siteKeys_eq : siteKeys = sites.map (·.key) := by
  decide

example : siteKeys ≠ [] := by decide

end Rangers.Props.C01Sites
