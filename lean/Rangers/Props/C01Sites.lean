import Rangers.Generated.NondetSites
/-!
# C01 — every source of nondeterminism the translator finds is accounted for

`Rangers.Generated.NondetSites` is rewritten from the go-rangers working tree by
`gen/cmd/c01facts` on every run.  A site key encodes kind, file, function, the ranged
expression and the *shape* of the loop body (set of callees, early exit), the guard of a clock
reading, or the name of the proposal flag read.  A new range-over-map, clock/rand call, go
statement, float use, `IsProposalNNN` / `GetBlockHeight` read on the execution path, or a new call
inside one of the known loop bodies, produces a key that is in none of the lists below, and
`sites_accounted` stops checking.  (This file is produced by gen/cmd/c01facts/mkprops.py from the
reviewed classification table; it is never rewritten by bin/check.)
-/
namespace Rangers.Props.C01Sites
open Rangers.Generated.NondetSites

set_option maxRecDepth 20000

/-- sites that are a fold over an explicit iteration order in `Model/BlockExec.lean`, with an order-irrelevance theorem in `Props/C01.lean` -/
def modelled : List Nat := [
  1214644477106985,  -- maprange src/service/game.go ChangeAssets [targets] — keys collected, then sort.Strings (fix:) — changeAssets_order_irrelevant
  1251486961250260,  -- maprange src/service/refund_manager.go RefundManager.Add [data] — refund_add_order_irrelevant
  3252808477731677,  -- maprange src/service/refund_manager.go RefundManager.CheckAndMove [refundList] — checkAndMove_order_irrelevant
  1159134369751614,  -- maprange src/service/reward_calculator.go RewardCalculator.CalculateReward [total] — reward_order_irrelevant (ρ.total)
  2649703203380604,  -- maprange src/service/reward_calculator.go RewardCalculator.calculateRewardPerBlock [proposersStake] — reward_map_order_irrelevant
  4133328550058675,  -- maprange src/service/reward_calculator.go RewardCalculator.calculateRewardPerBlock [validatorStake] — reward_map_order_irrelevant
  3936070550088349  -- maprange src/storage/account/accountdb.go AccountDB.Finalise [adb.accountObjectsDirty] — finalise_order_irrelevant / root_deterministic
]

/-- sites whose loop body is a pointwise write per distinct key (the shape proved order-irrelevant for Finalise / the assign loop), whose value is excluded by a stated hypothesis, or float code that is modelled bit-exactly -/
def provedIrrelevant : List Nat := [
  3856436940803613,  -- clock src/core/vmexecutor.go VMExecutor.Execute [utility.GetTime guard=casting] — reading used only under situation == "casting" (excluded by hypothesis)
  3856436672368157,  -- clock src/core/vmexecutor.go VMExecutor.Execute [utility.GetTime guard=casting] — reading used only under situation == "casting" (excluded by hypothesis)
  819878443287521,  -- clock src/core/vmexecutor.go VMExecutor.Execute [utility.GetTime guard=none in=log] — argument of the perf log line only
  853210697014512,  -- float src/service/miner_manager.go MinerManager.AddMiner [float64 arithmetic] — Float64ToBigInt(float64(stake)) = stake·10^18 exactly (stake < 2^53)
  2729115008603403,  -- float src/service/miner_manager.go MinerManager.AddStake [float64 arithmetic] — idem
  1651635626124009,  -- float src/service/reward_calculator.go RewardCalculator.NextRewardHeight [float64 arithmetic] — ceil(float64(h)/float64(n)): modelled exactly (nextRewardHeight)
  4053208236702098,  -- float src/service/reward_calculator.go RewardCalculator.calculateRewardPerBlock [float64 arithmetic] — bit-exact model Model/RewardFloat.lean (mul, div, uint64→float64, Float64ToBigInt)
  995355851358404,  -- float src/service/reward_calculator.go getTotalReward [float64 arithmetic] — math.Pow result enters the model as a float64 bit pattern (the remaining float assumption)
  1193841345351180,  -- maprange src/storage/account/access_list.go accessList.Copy [a.addresses] — copy into a fresh map (pointwise)
  463605537198112,  -- maprange src/storage/account/access_list.go accessList.Copy [slotMap] — copy into a fresh map (pointwise)
  3985031088353963,  -- maprange src/storage/account/account_object.go Storage.Copy [s] — copy into a fresh map (pointwise)
  2705308017770881,  -- maprange src/storage/account/account_object.go accountObject.updateTrie [ao.dirtyStorage] — one trie write per distinct storage key: same shape as Finalise (finalise_order_irrelevant)
  4416968965708562,  -- maprange src/storage/account/account_object_tuntun.go accountObject.getAllRefund [c.cachedStorage] — assignment into a fresh map keyed by BytesToAddress(key); keys distinct for 20-byte ids; its result is ranged by CheckAndMove (modelled)
  4244592305674814,  -- syncrange src/storage/account/accountdb.go AccountDB.Commit [adb.accountObjects] — per-address trie write after execution, same shape as Finalise
  4244764451203326,  -- maprange src/storage/account/accountdb.go AccountDB.SetStorage [storage] — SetData per distinct key (pointwise)
  1948980877343030,  -- maprange src/storage/account/transient_storage.go transientStorage.Copy [t] — copy into a fresh map (pointwise)
  2047608538149921  -- maprange src/vm/logger.go Storage.Copy [s] — copy into a fresh map (pointwise)
]

/-- sites in the scanned files that block execution never reaches -/
def outOfPath : List Nat := [
  155724176486280,  -- float src/middleware/types/receipt.go Receipt.Size [float64 arithmetic] — cache size accounting
  1874387891556681,  -- go src/service/transaction_pool.go TxPool.MarkExecuted [mysql.InsertLogs] — after the block is executed and accepted (log export)
  4265891022610158,  -- flag src/service/transaction_pool.go TxPool.PackForCast [IsProposal018] — packing for casting, not execution
  3615489623871734,  -- maprange src/storage/account/account_object.go Storage.String [s] — debug printing only
  2736704378582563,  -- maprange src/vm/contracts.go init [PrecompiledContracts] — vm.PrecompiledAddresses is never read (ActivePrecompiles has no caller)
  2650438225647281  -- clock src/vm/vm_test_helper.go setDefaults [time.Now guard=none] — test helper
]

/-- proposal-flag reads that are fields of `Flags` (quantified in every theorem; `flagsAt` derives them from the process-wide height, see Props/C01B) -/
def flagsModelled : List Nat := [
  2016476681857258,  -- flag src/core/vmexecutor.go VMExecutor.Execute [IsProposal006] — Flags.p006
  2016476413421802,  -- flag src/core/vmexecutor.go VMExecutor.Execute [IsProposal006] — Flags.p006
  1828620449447686,  -- flag src/core/vmexecutor.go VMExecutor.Execute [IsProposal007] — Flags.p007
  1828620717883142,  -- flag src/core/vmexecutor.go VMExecutor.Execute [IsProposal007] — Flags.p007
  1566736151754309,  -- flag src/core/vmexecutor.go VMExecutor.Execute [IsProposal018] — Flags.p018
  1566736420189765,  -- flag src/core/vmexecutor.go VMExecutor.Execute [IsProposal018] — Flags.p018
  1067181934379030,  -- flag src/executor/base_executor.go validateNonce [IsProposal018] — Flags.p018
  695224622119948,  -- flag src/executor/base_executor.go validateNonce [IsProposal021] — Flags.p021
  3776577679993333,  -- flag src/middleware/types/transaction.go Transactions.Less [IsProposal016] — Flags.p016
  4117761051150406,  -- flag src/middleware/types/transaction.go Transactions.Less [IsProposal021] — Flags.p021
  4435616011513700  -- flag src/middleware/types/transaction.go Transactions.Less [IsProposal023] — Flags.p023
]

/-- proposal-flag reads in interpreted code whose value the model holds fixed (stated assumption of the correspondence: harness runs them active) -/
def flagsHeldFixed : List Nat := [
  2646494419772892,  -- flag src/core/vmexecutor.go VMExecutor.Execute [IsProposal013] — where receipt logs come from; held at the dev value (active) — same read of the process height
  2646494151337436,  -- flag src/core/vmexecutor.go VMExecutor.Execute [IsProposal013] — where receipt logs come from; held at the dev value (active) — same read of the process height
  2328648049344193,  -- flag src/core/vmexecutor.go VMExecutor.Execute [IsProposal015] — receipt.GasUsed; held active
  1210114004675794,  -- flag src/core/vmexecutor.go VMExecutor.Execute [IsProposal027] — gas fee of failed contract tx; inside the uninterpreted step
  746476463036839,  -- flag src/service/miner_manager.go MinerManager.UpdateMiner [IsProposal003] — status byte written (active)
  716629568959828,  -- flag src/service/refund_manager.go RefundManager.getRefundHeight [IsProposal004] — p012 active / p004 active in the modelled miner refund (refund height = now + 36000)
  2091338548641459,  -- flag src/service/refund_manager.go RefundManager.getRefundHeight [IsProposal012] — p012 active / p004 active in the modelled miner refund (refund height = now + 36000)
  2945477660024741,  -- flag src/service/transaction_pool.go TxPool.ProcessFee [IsProposal026] — fee constant = Env.fee, passed per block
  3937565181941891,  -- flag src/storage/account/accountdb_tuntun.go AccountDB.AddFT [IsProposal002] — journaled vs raw write in the ERC20-binding path; same content
  4252596473140683  -- flag src/storage/account/accountdb_tuntun.go AccountDB.SubFT [IsProposal002] — idem
]

/-- proposal-flag reads inside the uninterpreted executors -/
def flagsInUninterpreted : List Nat := [
  1613676919829222,  -- flag src/executor/contract_executor.go IntrinsicGas [IsProposal026] — inside Env.other (EVM / contract executor): part of the uninterpreted deterministic step, which therefore also depends on the process height
  4190586856486957,  -- flag src/executor/contract_executor.go contractExecutor.Execute [IsProposal007] — inside Env.other (EVM / contract executor): part of the uninterpreted deterministic step, which therefore also depends on the process height
  745735329012713,  -- flag src/executor/contract_executor.go contractExecutor.Execute [IsProposal015] — inside Env.other (EVM / contract executor): part of the uninterpreted deterministic step, which therefore also depends on the process height
  745735597448170,  -- flag src/executor/contract_executor.go contractExecutor.Execute [IsProposal015] — inside Env.other (EVM / contract executor): part of the uninterpreted deterministic step, which therefore also depends on the process height
  745734792141801,  -- flag src/executor/contract_executor.go contractExecutor.Execute [IsProposal015] — inside Env.other (EVM / contract executor): part of the uninterpreted deterministic step, which therefore also depends on the process height
  487666313421566,  -- flag src/executor/contract_executor.go contractExecutor.Execute [IsProposal017] — inside Env.other (EVM / contract executor): part of the uninterpreted deterministic step, which therefore also depends on the process height
  2591229366658006,  -- flag src/executor/contract_executor.go contractExecutor.Execute [IsProposal026] — inside Env.other (EVM / contract executor): part of the uninterpreted deterministic step, which therefore also depends on the process height
  1145138392073122,  -- flag src/executor/contract_executor.go contractExecutor.decodeContractData [IsProposal005] — inside Env.other (EVM / contract executor): part of the uninterpreted deterministic step, which therefore also depends on the process height
  86390292176870,  -- flag src/executor/contract_executor.go contractExecutor.decodeContractData [IsProposal017] — inside Env.other (EVM / contract executor): part of the uninterpreted deterministic step, which therefore also depends on the process height
  1703277345385760,  -- flag src/executor/contract_executor.go preCheckContractFee [IsProposal015] — inside Env.other (EVM / contract executor): part of the uninterpreted deterministic step, which therefore also depends on the process height
  87652477679558,  -- flag src/vm/evm.go EVM.create [IsProposal006] — inside Env.other (EVM / contract executor): part of the uninterpreted deterministic step, which therefore also depends on the process height
  217616845894899,  -- flag src/vm/evm.go EVM.create [IsProposal007] — inside Env.other (EVM / contract executor): part of the uninterpreted deterministic step, which therefore also depends on the process height
  1558905320132702,  -- flag src/vm/evm.go EVM.create [IsProposal026] — inside Env.other (EVM / contract executor): part of the uninterpreted deterministic step, which therefore also depends on the process height
  4109903882767048,  -- flag src/vm/gas_table.go gasCreate2 [IsProposal026] — inside Env.other (EVM / contract executor): part of the uninterpreted deterministic step, which therefore also depends on the process height
  3730341296338322,  -- flag src/vm/gas_table.go gasExpEIP158 [IsProposal026] — inside Env.other (EVM / contract executor): part of the uninterpreted deterministic step, which therefore also depends on the process height
  945952674316280,  -- flag src/vm/gas_table.go gasExpFrontier [IsProposal026] — inside Env.other (EVM / contract executor): part of the uninterpreted deterministic step, which therefore also depends on the process height
  453570103511046,  -- flag src/vm/gas_table.go gasSStore [IsProposal015] — inside Env.other (EVM / contract executor): part of the uninterpreted deterministic step, which therefore also depends on the process height
  4135456344970176,  -- flag src/vm/gas_table.go gasSStore [IsProposal026] — inside Env.other (EVM / contract executor): part of the uninterpreted deterministic step, which therefore also depends on the process height
  2931637079757790,  -- flag src/vm/gas_table.go gasSStoreEIP2200 [IsProposal015] — inside Env.other (EVM / contract executor): part of the uninterpreted deterministic step, which therefore also depends on the process height
  3272829040849459,  -- flag src/vm/gas_table.go gasSStoreEIP2200 [IsProposal026] — inside Env.other (EVM / contract executor): part of the uninterpreted deterministic step, which therefore also depends on the process height
  4469690667242246,  -- flag src/vm/gas_table.go gasSha3 [IsProposal026] — inside Env.other (EVM / contract executor): part of the uninterpreted deterministic step, which therefore also depends on the process height
  4116766534599044,  -- flag src/vm/gas_table.go makeGasLog [IsProposal026] — inside Env.other (EVM / contract executor): part of the uninterpreted deterministic step, which therefore also depends on the process height
  815210440111050,  -- flag src/vm/gas_table.go memoryCopierGas [IsProposal026] — inside Env.other (EVM / contract executor): part of the uninterpreted deterministic step, which therefore also depends on the process height
  4235225489193412  -- flag src/vm/gas_table.go memoryGasCost [IsProposal026] — inside Env.other (EVM / contract executor): part of the uninterpreted deterministic step, which therefore also depends on the process height
]

/-- process-local state touched by functions reachable from VMExecutor.Execute (run-time-assigned package variables, side stores in struct fields of core/service/executor/middleware types, context entries), each with the reason it cannot make two replicas differ — or the recorded finding it belongs to -/
def processLocalAccounted : List Nat := [
  1586386065276082,  -- global src/common/constant_economy.go GetBlocksPerEpoch [common.epochBlocks] — memoised constant
  556501283414633,  -- gwrite src/common/constant_economy.go GetBlocksPerEpoch [common.epochBlocks] — memoisation of a constant (epoch / castingInterval): idempotent write
  3959112389092664,  -- global src/common/constant_economy.go GetCastingInterval [common.Genesis] — sub-chain configuration read once from genesis.json at start-up; nil on the main chain
  1146294235989518,  -- global src/common/constant_economy.go GetRefundBlocks [common.refundBlocks] — memoised constant
  3743961262164148,  -- gwrite src/common/constant_economy.go GetRefundBlocks [common.refundBlocks] — idem
  3836124506624883,  -- global src/common/constant_economy.go GetRewardBlocks [common.rewardBlocks] — memoised constant rewardTime / castingInterval
  391520268361102,  -- gwrite src/common/constant_economy.go GetRewardBlocks [common.rewardBlocks] — idem
  2931297799957989,  -- global src/common/height.go GetBlockHeight [common.localChainInfo] — process-wide chain height behind every IsProposalNNN: the recorded known finding (Props/C01B)
  3209629353064584,  -- global src/common/version.go ChainId [common.LocalChainConfig] — fork table / chain config fixed at start-up; together with localChainInfo it yields the flags (known finding flags-from-process-chain-height)
  4151770717763579,  -- global src/common/version.go GetChainId [common.Genesis] — sub-chain configuration read once from genesis.json at start-up; nil on the main chain
  1647692153788362,  -- global src/common/version.go IsMainnet [common.LocalChainConfig] — fork table / chain config fixed at start-up; together with localChainInfo it yields the flags (known finding flags-from-process-chain-height)
  695522378607906,  -- global src/common/version.go IsProposal001 [common.LocalChainConfig] — fork table / chain config fixed at start-up; together with localChainInfo it yields the flags (known finding flags-from-process-chain-height)
  858553951947752,  -- global src/common/version.go IsProposal002 [common.LocalChainConfig] — fork table / chain config fixed at start-up; together with localChainInfo it yields the flags (known finding flags-from-process-chain-height)
  105525629532085,  -- global src/common/version.go IsProposal003 [common.LocalChainConfig] — fork table / chain config fixed at start-up; together with localChainInfo it yields the flags (known finding flags-from-process-chain-height)
  1181987941491911,  -- global src/common/version.go IsProposal004 [common.LocalChainConfig] — fork table / chain config fixed at start-up; together with localChainInfo it yields the flags (known finding flags-from-process-chain-height)
  904980413132327,  -- global src/common/version.go IsProposal005 [common.LocalChainConfig] — fork table / chain config fixed at start-up; together with localChainInfo it yields the flags (known finding flags-from-process-chain-height)
  3108002567582069,  -- global src/common/version.go IsProposal006 [common.LocalChainConfig] — fork table / chain config fixed at start-up; together with localChainInfo it yields the flags (known finding flags-from-process-chain-height)
  1089400300737822,  -- global src/common/version.go IsProposal007 [common.LocalChainConfig] — fork table / chain config fixed at start-up; together with localChainInfo it yields the flags (known finding flags-from-process-chain-height)
  3145353939429149,  -- global src/common/version.go IsProposal012 [common.LocalChainConfig] — fork table / chain config fixed at start-up; together with localChainInfo it yields the flags (known finding flags-from-process-chain-height)
  3889775006746044,  -- global src/common/version.go IsProposal013 [common.LocalChainConfig] — fork table / chain config fixed at start-up; together with localChainInfo it yields the flags (known finding flags-from-process-chain-height)
  544248671081930,  -- global src/common/version.go IsProposal015 [common.LocalChainConfig] — fork table / chain config fixed at start-up; together with localChainInfo it yields the flags (known finding flags-from-process-chain-height)
  4249309163164585,  -- global src/common/version.go IsProposal017 [common.LocalChainConfig] — fork table / chain config fixed at start-up; together with localChainInfo it yields the flags (known finding flags-from-process-chain-height)
  1138679154885458,  -- global src/common/version.go IsProposal018 [common.LocalChainConfig] — fork table / chain config fixed at start-up; together with localChainInfo it yields the flags (known finding flags-from-process-chain-height)
  886646486206285,  -- global src/common/version.go IsProposal021 [common.LocalChainConfig] — fork table / chain config fixed at start-up; together with localChainInfo it yields the flags (known finding flags-from-process-chain-height)
  4267182550193073,  -- global src/common/version.go IsProposal026 [common.LocalChainConfig] — fork table / chain config fixed at start-up; together with localChainInfo it yields the flags (known finding flags-from-process-chain-height)
  581895781666497,  -- global src/common/version.go IsProposal027 [common.LocalChainConfig] — fork table / chain config fixed at start-up; together with localChainInfo it yields the flags (known finding flags-from-process-chain-height)
  1020331752086191,  -- global src/common/version.go IsSub [common.Genesis] — sub-chain configuration read once from genesis.json at start-up; nil on the main chain
  2735802628458516,  -- global src/common/version.go MainNodeContract [common.LocalChainConfig] — fork table / chain config fixed at start-up; together with localChainInfo it yields the flags (known finding flags-from-process-chain-height)
  1749754366047902,  -- global src/core/blockchain.go blockChain.GetBalance [middleware.AccountDBManagerInstance] — reached only through nil-accountdb fall-backs (GetLatestStateDB) that the executor never takes: it always passes its AccountDB
  2344143680704768,  -- chainread src/core/blockchain.go blockChain.GetBlockHash [QueryBlockHeaderByHeight] — main-chain index lookup behind GetHash (ancestors only, see bound)
  3509427703353898,  -- store src/core/blockchain.go blockChain.QueryBlockHeaderByHeight [chain.heightDB.Get [db.Database]] — QueryBlockHeaderByHeight in calcDifficulty second part: header of an ancestor block (chain history, not modelled part)
  1339141148764422,  -- store src/core/blockchain.go blockChain.QueryBlockHeaderByHeight [chain.topBlocks.Get [lru.Cache]] — idem (LRU in front of heightDB)
  840308082172872,  -- store src/core/fork_block.go blockChainFork.getBlock [fork.db.Get [db.Database]] — fork-path lookup of ancestor blocks / groups: same replicated data through the fork store
  1508782448490363,  -- chainread src/core/fork_block.go syncProcessor.GetBlockHash [GetBlockHeader] — fork-path lookup behind GetHash (fork store, then main chain below the fork point)
  555558504157632,  -- store src/core/fork_group.go groupChainFork.getGroupById [fork.db.Get [db.Database]] — fork-path lookup of ancestor blocks / groups: same replicated data through the fork store
  3790870022054829,  -- global src/core/groupchain.go GroupIterator.MovePre [core.groupChainImpl] — group lookup for the reward: replicated group-chain data (model input RewardCfg.group)
  3931571774650457,  -- global src/core/groupchain.go groupChain.ForkIterator [core.SyncProcessor] — fork-path chain helper (same data, other handle)
  3051595373328901,  -- store src/core/groupchain.go groupChain.getGroupByHeight [chain.groups.Get [db.Database]] — group chain lookup for the reward (RewardCfg.group)
  1547127731335756,  -- store src/core/groupchain.go groupChain.getGroupById [chain.groups.Get [db.Database]] — group chain lookup for the reward (RewardCfg.group)
  663652526811403,  -- global src/core/sync_helper.go GroupForkIterator.MovePre [core.SyncProcessor] — fork-path chain helper (same data, other handle)
  2784864557967805,  -- global src/core/sync_helper.go GroupForkIterator.MovePre [core.groupChainImpl] — group lookup for the reward: replicated group-chain data (model input RewardCfg.group)
  341200470507001,  -- chainread src/core/sync_helper.go syncProcessor.GetBlockHeader [QueryBlockHeaderByHeight] — idem
  804587230785933,  -- ctx src/core/vmexecutor.go VMExecutor.Execute [delete contractAddress] — idem
  571519956649298,  -- ctx src/core/vmexecutor.go VMExecutor.Execute [delete logs] — idem
  311953710960808,  -- ctx src/core/vmexecutor.go VMExecutor.Execute [read contractAddress] — deleted after use
  439081352695986,  -- ctx src/core/vmexecutor.go VMExecutor.Execute [read gasUsed] — never deleted: a later transaction of the SAME block sees the previous value (deterministic: the context map is new per execution; part of OpaqueOut.extra)
  439081621131443,  -- ctx src/core/vmexecutor.go VMExecutor.Execute [read gasUsed] — never deleted: a later transaction of the SAME block sees the previous value (deterministic: the context map is new per execution; part of OpaqueOut.extra)
  1591660604209917,  -- ctx src/core/vmexecutor.go VMExecutor.Execute [read logs] — pre-Proposal013 receipts; deleted after every transaction
  1591660335774461,  -- ctx src/core/vmexecutor.go VMExecutor.Execute [read logs] — pre-Proposal013 receipts; deleted after every transaction
  268146971126033,  -- global src/core/vmexecutor.go VMExecutor.Execute [common.LocalChainConfig] — fork table / chain config fixed at start-up; together with localChainInfo it yields the flags (known finding flags-from-process-chain-height)
  35461906675605,  -- global src/core/vmexecutor.go VMExecutor.after [common.LocalChainConfig] — fork table / chain config fixed at start-up; together with localChainInfo it yields the flags (known finding flags-from-process-chain-height)
  3188132833106357,  -- global src/core/vmexecutor.go VMExecutor.after [service.RefundManagerImpl] — singleton handle; holds chain helpers only
  3193999342649376,  -- global src/core/vmexecutor.go VMExecutor.after [service.RewardCalculatorImpl] — singleton handle; holds chain helpers only
  4195555124260919,  -- chainread src/core/vmexecutor.go VMExecutor.calcDifficulty [QueryBlockHeaderByHeight] — header rewardBlocks below the executing height (second part of calcDifficulty, not modelled)
  793470408142866,  -- global src/core/vmexecutor.go VMExecutor.calcDifficulty [common.LocalChainConfig] — fork table / chain config fixed at start-up; together with localChainInfo it yields the flags (known finding flags-from-process-chain-height)
  2168668332877904,  -- global src/core/vmexecutor.go VMExecutor.calcDifficulty [core.blockChainImpl] — context["chain"] (BLOCKHASH) and calcDifficulty second part: chain data below the block = part of the parent history, not modelled
  3083301722862101,  -- ctx src/core/vmexecutor.go VMExecutor.prepare [write refund] — prepare(): context["refund"] reset at the start of every execution (Loop.refunds starts empty)
  1838929760992338,  -- global src/core/vmexecutor.go removeUnusedValidator [service.MinerManagerImpl] — singleton handle assigned at start-up; its mutable side store is listed as store sites (pkCache)
  3345912616700556,  -- global src/core/vmexecutor.go removeUnusedValidator1 [service.MinerManagerImpl] — singleton handle assigned at start-up; its mutable side store is listed as store sites (pkCache)
  4384574610358504,  -- global src/core/vmexecutor_sub.go VMExecutor.calcSubReward [core.SyncProcessor] — fork-path chain helper (same data, other handle)
  351071048086676,  -- global src/core/vmexecutor_sub.go VMExecutor.calcSubReward [core.groupChainImpl] — group lookup for the reward: replicated group-chain data (model input RewardCfg.group)
  4169917642551588,  -- global src/core/vmexecutor_sub.go VMExecutor.calcSubReward [service.MinerManagerImpl] — singleton handle assigned at start-up; its mutable side store is listed as store sites (pkCache)
  103517113165635,  -- ctx src/executor/contract_executor.go contractExecutor.BeforeExecute [write contractData] — BeforeExecute of the same transaction
  1239331964152800,  -- ctx src/executor/contract_executor.go contractExecutor.Execute [read chain] — set by newVMExecutor
  1496130770102911,  -- ctx src/executor/contract_executor.go contractExecutor.Execute [read contractData] — written by BeforeExecute of the same transaction
  558653414380971,  -- ctx src/executor/contract_executor.go contractExecutor.Execute [write contractAddress] — executor output
  2765036081659078,  -- ctx src/executor/contract_executor.go contractExecutor.Execute [write gasUsed] — executor output
  3703183435874273,  -- ctx src/executor/contract_executor.go contractExecutor.Execute [write logs] — executor output of this transaction
  1667593595840116,  -- chainread src/executor/contract_executor.go getBlockHashFn [GetBlockHash] — the GetHash callback handed to the EVM
  3026413669229130,  -- ctx src/executor/jsonrpc_executor.go jsonrpcExecutor.BeforeExecute [write contractData] — BeforeExecute of the same transaction
  3524014543335158,  -- global src/executor/miner_executor.go minerAddExecutor.Execute [service.MinerManagerImpl] — singleton handle assigned at start-up; its mutable side store is listed as store sites (pkCache)
  2950453199794815,  -- global src/executor/miner_executor.go minerApplyExecutor.Execute [service.MinerManagerImpl] — singleton handle assigned at start-up; its mutable side store is listed as store sites (pkCache)
  3790123787520443,  -- global src/executor/miner_executor.go minerChangeAccountExecutor.Execute [service.MinerManagerImpl] — singleton handle assigned at start-up; its mutable side store is listed as store sites (pkCache)
  538961933330636,  -- ctx src/executor/miner_executor.go minerRefundExecutor.Execute [read situation] — set by newVMExecutor; only selects which group helper answers
  1785094154492522,  -- global src/executor/miner_executor.go minerRefundExecutor.Execute [service.RefundManagerImpl] — singleton handle; holds chain helpers only
  1489649670282627,  -- ctx src/executor/miner_node_executor.go minerNodeExecutor.Execute [write logs] — executor output of this transaction
  748598297064738,  -- global src/executor/miner_node_executor.go minerNodeExecutor.Execute [service.MinerManagerImpl] — singleton handle assigned at start-up; its mutable side store is listed as store sites (pkCache)
  4262637398453481,  -- global src/executor/tx_executor.go GetTxExecutor [executor.txExecutorsImpl] — static executor registry built by InitExecutors
  4438383272148860,  -- store src/executor/tx_executor.go GetTxExecutor [txExecutorsImpl.executors[] [map]] — static executor registry
  3569149086770667,  -- ctx src/middleware/types/refund.go GetRefundInfo [read refund] — set by prepare() in this execution
  3147397168732421,  -- store src/service/miner_manager.go MinerManager.AddMiner [mm.pkCache.Put [db.LDBDatabase]] — write-only on the execution path: no function reachable from Execute reads pkCache (a read would be a new store site)
  2868100070939455,  -- global src/service/miner_manager.go MinerManager.GetMiner [service.MinerManagerImpl] — singleton handle assigned at start-up; its mutable side store is listed as store sites (pkCache)
  424992939623107,  -- global src/service/miner_manager.go MinerManager.GetMinerById [middleware.AccountDBManagerInstance] — reached only through nil-accountdb fall-backs (GetLatestStateDB) that the executor never takes: it always passes its AccountDB
  913689094792706,  -- global src/service/miner_manager.go MinerManager.minerIterator [middleware.AccountDBManagerInstance] — reached only through nil-accountdb fall-backs (GetLatestStateDB) that the executor never takes: it always passes its AccountDB
  2915113451559121,  -- global src/service/refund_manager.go RefundManager.GetRefundStake [service.MinerManagerImpl] — singleton handle assigned at start-up; its mutable side store is listed as store sites (pkCache)
  2600552664367281,  -- global src/service/refund_manager.go RefundManager.getRefundHeight [common.LocalChainConfig] — fork table / chain config fixed at start-up; together with localChainInfo it yields the flags (known finding flags-from-process-chain-height)
  3744152152431079,  -- global src/service/refund_manager.go RefundManager.getRefundHeight [service.RewardCalculatorImpl] — singleton handle; holds chain helpers only
  4263638341011424,  -- global src/service/reward_calculator.go RewardCalculator.calculateRewardPerBlock [service.MinerManagerImpl] — singleton handle assigned at start-up; its mutable side store is listed as store sites (pkCache)
  1821241674178939,  -- global src/service/transaction_pool.go GetTransactionPool [service.txpoolInstance] — singleton handle; ProcessFee touches only the AccountDB passed in
  4382738886316098,  -- global src/storage/account/accountdb_eth.go AccountDB.GetERC20Binding [account.rpgContractAddress] — cache of the RPG ERC20 binding, a genesis-time constant of the state (AddERC20Binding is only called by genesis); re-read while zero
  1544806820199954,  -- global src/storage/account/accountdb_eth.go AccountDB.loadContractCache [account.rpgContractAddress] — cache of the RPG ERC20 binding, a genesis-time constant of the state (AddERC20Binding is only called by genesis); re-read while zero
  3357059105603057,  -- gwrite src/storage/account/accountdb_eth.go AccountDB.loadContractCache [account.rpgContractAddress] — cache fill from the state (genesis-time constant binding); the only writes to package-level state on the execution path
  1120316242070643,  -- chainread src/vm/instructions.go opBlockhash [GetHash] — GetHash callback = context["chain"].GetBlockHash: the node own block index; admissible arguments are ancestors only (pinned fact bound), which every replica executing on this parent stores identically
  2299093385721356,  -- global src/vm/instructions.go opGetStake [service.MinerManagerImpl] — singleton handle assigned at start-up; its mutable side store is listed as store sites (pkCache)
  1345470300932530,  -- global src/vm/instructions.go opStake [service.MinerManagerImpl] — singleton handle assigned at start-up; its mutable side store is listed as store sites (pkCache)
  3464153620990312,  -- global src/vm/instructions.go opStakeNum [service.MinerManagerImpl] — singleton handle assigned at start-up; its mutable side store is listed as store sites (pkCache)
  163677751831524,  -- global src/vm/instructions.go opUnStake [service.MinerManagerImpl] — singleton handle assigned at start-up; its mutable side store is listed as store sites (pkCache)
  2971169474138726,  -- global src/vm/instructions.go opUnStake [service.RefundManagerImpl] — singleton handle; holds chain helpers only
  2346697547349197,  -- global src/vm/instructions.go opUnStakeAll [service.MinerManagerImpl] — singleton handle assigned at start-up; its mutable side store is listed as store sites (pkCache)
  3808932209785630,  -- global src/vm/instructions.go opUnStakeAll [service.RefundManagerImpl] — singleton handle; holds chain helpers only
  2182657831887046  -- global src/vm/interpreter.go NewEVMInterpreter [common.LocalChainConfig] — fork table / chain config fixed at start-up; together with localChainInfo it yields the flags (known finding flags-from-process-chain-height)
]

/-- facts about statement order / bounds the model relies on, pinned verbatim: a re-ordered statement or a changed bound changes the key -/
def pinnedFacts : List Nat := [
  1628760563375621,  -- guards src/core/vmexecutor.go VMExecutor.Execute [_.situation == 'casting' | 0 != len(_) && _.situation != 'casting' | 0 == _.Type | common.IsProposal013() | _.situation == 'casting' && utility.GetTime().Sub(_) > MaxCastBlockTime | common.IsProposal006() && !common.IsProposal007() | _ != nil | common.IsProposal018() && !_ | _ | !_ | !common.IsProposal018() | common.IsProposal027() && types.IsContractTx(_.Type) | _ != nil | _.Source != '' | !common.IsProposal006() | common.IsProposal007() | !(types.IsContractTx(_.Type) && _) | common.IsProposal013() | _ != nil | _.context['logs'] != nil | _ != nil | _ != nil && common.IsProposal015() | _.block.Header.Height == common.LocalChainConfig.Proposal010Block | _.block.Header.Height == common.LocalChainConfig.Proposal019Block] — branch conditions (locals blanked) of VMExecutor.Execute in source order, as followed by the model
  2127774949120221,  -- order src/core/vmexecutor.go VMExecutor.Execute [prepare,Sort,continue,Prepare,DEADLINE,break,IncreaseNonce,GetTxExecutor,BeforeExecute,continue,Snapshot,Execute,RevertToSnapshot,deductGasFee,IncreaseNonce,SetNonce,NewReceipt,GetLogs,removeUnusedValidator,removeUnusedValidator1,after,IntermediateRoot] — call order of Execute: the cast deadline is tested (and the loop left) before IncreaseNonce / BeforeExecute / Execute of that transaction touch the ledger — what castBlock models and cast_cutoff_consistent uses; sort before the loop, clean-ups and after() before IntermediateRoot
  2109389179110332,  -- guards src/core/vmexecutor.go VMExecutor.after [0 == strings.Compare('testing',_.situation) | common.IsSub() | common.LocalChainConfig.Proposal004Block == _] — branch conditions (locals blanked) of VMExecutor.after in source order, as followed by the model
  3117401005268865,  -- guards src/core/vmexecutor.go VMExecutor.calcDifficulty [_ < common.LocalChainConfig.Proposal025Block | 0 != len(_) | _ < common.LocalChainConfig.Proposal025Block + common.GetRewardBlocks() | nil == _ | _ == 0] — branch conditions (locals blanked) of VMExecutor.calcDifficulty in source order, as followed by the model
  2515526779535959,  -- guards src/core/vmexecutor.go deductGasFee [_ == nil | _.Cmp(_) < 0] — branch conditions (locals blanked) of deductGasFee in source order, as followed by the model
  1022286818051580,  -- guards src/core/vmexecutor.go removeUnusedValidator [_ == nil] — branch conditions (locals blanked) of removeUnusedValidator in source order, as followed by the model
  903019856456591,  -- guards src/executor/base_executor.go baseFeeExecutor.BeforeExecute [_ != nil | _ != nil] — branch conditions (locals blanked) of baseFeeExecutor.BeforeExecute in source order, as followed by the model
  220501940604705,  -- guards src/executor/base_executor.go validateNonce [common.IsProposal021() && _.Type != types.TransactionTypeETHTX | common.IsProposal018() | _ > _.Nonce | _ < _.Nonce] — branch conditions (locals blanked) of validateNonce in source order, as followed by the model
  4314199085184152,  -- guards src/executor/contract_executor.go IntrinsicGas [_ | len(_) > 0 | _ != 0 | (math.MaxUint64 - _) / _ < _ | (math.MaxUint64 - _) / vm.TxDataZeroGas < _ | common.IsProposal026()] — branch conditions (locals blanked) of IntrinsicGas in source order, as followed by the model
  4235601163667341,  -- guards src/executor/contract_executor.go contractExecutor.BeforeExecute [_ != nil | _ != nil | _ != '' | _ != nil] — branch conditions (locals blanked) of contractExecutor.BeforeExecute in source order, as followed by the model
  4476146538871419,  -- guards src/executor/contract_executor.go contractExecutor.Execute [common.IsSub() && _.Target == common.WhitelistForCreate | 2 != _ | _.Target == '' | common.IsProposal015() | _ != nil | _.GasLimit < _ | common.IsProposal015() | common.IsProposal017() && _ > p017defaultGasLimit | common.IsProposal026() | _ > p026defaultGasLimit | _.Target == '' | common.IsProposal007() | common.IsProposal015() | _.Cmp(_) < 0 | _ != nil] — branch conditions (locals blanked) of contractExecutor.Execute in source order, as followed by the model
  1780883263423632,  -- guards src/executor/contract_executor.go contractExecutor.decodeContractData [_ != nil | _.GasLimit == '' || _.GasLimit == '0' | common.IsProposal017() | _ != nil | _ != nil | common.IsProposal005() && (_.AbiData == '' || _.AbiData == '0x0')] — branch conditions (locals blanked) of contractExecutor.decodeContractData in source order, as followed by the model
  1921619503109481,  -- guards src/executor/contract_executor.go preCheckContractFee [common.IsProposal015() | _.Cmp(new(big.Int).Add(_,_.TransferValue)) < 0] — branch conditions (locals blanked) of preCheckContractFee in source order, as followed by the model
  1836253584729373,  -- guards src/executor/miner_executor.go minerAddExecutor.Execute [_ != nil | utility.IsEmptyByteSlice(_.Id) | nil != _] — branch conditions (locals blanked) of minerAddExecutor.Execute in source order, as followed by the model
  831008041885318,  -- guards src/executor/miner_executor.go minerApplyExecutor.Execute [_ != nil | common.IsMainnet() && _.Type == common.MinerTypeProposer | nil != _ | utility.IsEmptyByteSlice(_.Id) | nil != _ | utility.IsEmptyByteSlice(_.Id) | utility.IsEmptyByteSlice(_.Account)] — branch conditions (locals blanked) of minerApplyExecutor.Execute in source order, as followed by the model
  1399491743586546,  -- guards src/executor/miner_executor.go minerChangeAccountExecutor.Execute [_ != nil | nil == _ | 0 == bytes.Compare(_.Account,_.Account) | bytes.Compare(_.Account,_) != 0 | nil != _] — branch conditions (locals blanked) of minerChangeAccountExecutor.Execute in source order, as followed by the model
  331302186177054,  -- guards src/executor/miner_executor.go minerRefundExecutor.Execute [nil == _ || nil == _ || nil == _.Sign | nil != _ | _ != nil | _ != nil | _] — branch conditions (locals blanked) of minerRefundExecutor.Execute in source order, as followed by the model
  3924785208088733,  -- guards src/executor/operator_executor.go operatorExecutor.transfer [0 == len(_) | nil != _] — branch conditions (locals blanked) of operatorExecutor.transfer in source order, as followed by the model
  1154932212912244,  -- guards src/middleware/types/refund.go RefundInfoList.AddRefundInfo [bytes.Compare(_,_.Id) == 0 | _] — branch conditions (locals blanked) of RefundInfoList.AddRefundInfo in source order, as followed by the model
  2471093610083561,  -- guards src/middleware/types/transaction.go Transactions.Less [_[_].RequestId == 0 && _[_].RequestId == 0 | common.IsProposal023() | _[_].Source == _[_].Source | _[_].Nonce != _[_].Nonce | 0 == bytes.Compare(_,_) | common.IsProposal021() | _[_].Source == _[_].Source | common.IsProposal016() && _[_].Source == _[_].Source] — branch conditions (locals blanked) of Transactions.Less in source order, as followed by the model
  3258931978876016,  -- guards src/service/game.go ChangeAssets [!_ | _ != '' | !_.IsEmpty() | !_.IsEmpty()] — branch conditions (locals blanked) of ChangeAssets in source order, as followed by the model
  4280567044644227,  -- guards src/service/game.go transferBalance [_ != nil | _.Sign() == -1 | _.Cmp(_) == -1] — branch conditions (locals blanked) of transferBalance in source order, as followed by the model
  4153718592607948,  -- guards src/service/miner_manager.go MinerIterator.Current [_ != nil | len(_.Id) == 0 | nil != _ && 1 == len(_) | _.Status == common.MinerStatusAbort] — branch conditions (locals blanked) of MinerIterator.Current in source order, as followed by the model
  406513465418397,  -- guards src/service/miner_manager.go MinerManager.AddMiner [_.Type != common.MinerTypeValidator && _.Type != common.MinerTypeProposer | (_.Type == common.MinerTypeValidator && _.Stake < common.ValidatorStake) || (_.Type == common.MinerTypeProposer && _.Stake < common.ProposerStake) | utility.IsEmptyByteSlice(_.VrfPublicKey) || utility.IsEmptyByteSlice(_.PublicKey) | _.Cmp(_) < 0 | _.GetMiner(_,_) != nil | nil != _] — branch conditions (locals blanked) of MinerManager.AddMiner in source order, as followed by the model
  2952071578527006,  -- guards src/service/miner_manager.go MinerManager.AddStake [_ == 0 | _.Cmp(_) < 0 | nil == _ | nil == _ | _.Stake < 0 | _.Type == common.MinerTypeProposer && _.Stake > common.ProposerStake || _.Type == common.MinerTypeValidator && _.Stake > common.ValidatorStake] — branch conditions (locals blanked) of MinerManager.AddStake in source order, as followed by the model
  2838836590324761,  -- guards src/service/miner_manager.go MinerManager.GetMinerById [_ == nil | _ != nil && len(_) > 0 | nil != _ | nil != _ && 1 == len(_) | 0 != len(_)] — branch conditions (locals blanked) of MinerManager.GetMinerById in source order, as followed by the model
  3133686232735880,  -- guards src/service/miner_manager.go MinerManager.GetMinerIdByAccount [nil == _ | 0 == bytes.Compare(_.Account,_) | nil == _ | 0 == bytes.Compare(_.Account,_)] — branch conditions (locals blanked) of MinerManager.GetMinerIdByAccount in source order, as followed by the model
  435596902100149,  -- guards src/service/miner_manager.go MinerManager.GetProposerTotalStakeWithDetail [_ == nil | nil == _ || common.MinerStatusNormal != _.Status || _ < _.ApplyHeight | _ == 0 | nil == _] — branch conditions (locals blanked) of MinerManager.GetProposerTotalStakeWithDetail in source order, as followed by the model
  3724828542680545,  -- guards src/service/miner_manager.go MinerManager.GetValidatorsStake [0 == _] — branch conditions (locals blanked) of MinerManager.GetValidatorsStake in source order, as followed by the model
  3926387235696109,  -- guards src/service/miner_manager.go MinerManager.RemoveMiner [_ == 0 && !_.IsContract(common.BytesToAddress(_))] — branch conditions (locals blanked) of MinerManager.RemoveMiner in source order, as followed by the model
  2965944977307916,  -- guards src/service/miner_manager.go MinerManager.RemoveUnusedValidator [nil == _ || common.MinerStatusNormal != _.Status | _ | nil == _] — branch conditions (locals blanked) of MinerManager.RemoveUnusedValidator in source order, as followed by the model
  2957721264600868,  -- guards src/service/miner_manager.go MinerManager.UpdateMiner [_ | common.IsProposal003()] — branch conditions (locals blanked) of MinerManager.UpdateMiner in source order, as followed by the model
  3183538165829418,  -- guards src/service/refund_manager.go RefundManager.Add [nil == _ || nil == _ || 0 == len(_) | _.IsEmpty() | nil == _ || 0 == len(_)] — branch conditions (locals blanked) of RefundManager.Add in source order, as followed by the model
  2044938934486058,  -- guards src/service/refund_manager.go RefundManager.CheckAndMove [nil == _ | nil == _ || 0 == len(_)] — branch conditions (locals blanked) of RefundManager.CheckAndMove in source order, as followed by the model
  3787654012936979,  -- guards src/service/refund_manager.go RefundManager.GetRefundStake [nil == _ | 0 != bytes.Compare(_,_.Account) | _ == math.MaxUint64 | _.Stake < _ | _.Type == common.MinerTypeProposer && _ < common.ProposerStake || _.Type == common.MinerTypeValidator && _ < common.ValidatorStake] — branch conditions (locals blanked) of RefundManager.GetRefundStake in source order, as followed by the model
  1305450227522373,  -- guards src/service/refund_manager.go RefundManager.getRefundHeight [common.IsProposal012() | _ == common.MinerTypeValidator | _ != 'fork' | _ > 0 | _ != math.MaxUint64 | common.IsProposal004() && _ <= 0 | common.LocalChainConfig.Proposal011Block == _] — branch conditions (locals blanked) of RefundManager.getRefundHeight in source order, as followed by the model
  3407451704400574,  -- guards src/service/reward_calculator.go RewardCalculator.CalculateReward [nil == _ || 0 == len(_)] — branch conditions (locals blanked) of RewardCalculator.CalculateReward in source order, as followed by the model
  3686763930576353,  -- guards src/service/reward_calculator.go RewardCalculator.NextRewardHeight [] — branch conditions (locals blanked) of RewardCalculator.NextRewardHeight in source order, as followed by the model
  993244962204717,  -- guards src/service/reward_calculator.go RewardCalculator.calculateRewardPerBlock [_ != 0 | nil == _.GroupId | _ != 'fork' | _ == nil | _ != 0] — branch conditions (locals blanked) of RewardCalculator.calculateRewardPerBlock in source order, as followed by the model
  4482658790777760,  -- guards src/service/reward_calculator.go addReward [_] — branch conditions (locals blanked) of addReward in source order, as followed by the model
  2982317221269302,  -- guards src/service/transaction_pool.go TxPool.ProcessFee [common.IsProposal026() | _.Cmp(_) < 0] — branch conditions (locals blanked) of TxPool.ProcessFee in source order, as followed by the model
  2556450385335009,  -- fields src/storage/account/account_object.go accountObject [address common.Address; addrHash common.Hash; data Account; db *AccountDB; dbErr error; trie Trie; nftSet *ast.ArrayType; dirtyNFTSet bool; cachedLock sync.RWMutex; cachedStorage Storage; dirtyStorage Storage; suicided bool; touched bool; deleted bool; onDirty *ast.FuncType] — field list of accountObject: a state handle (AccountDB on a root) owns its trie and objects; storageDB keeps no cache of tries, so handles opened on the same root never share a mutable trie
  612237959989873,  -- guards src/storage/account/accountdatasource.go NewDatabase [] — branch conditions (locals blanked) of NewDatabase in source order, as followed by the model
  1458558267746951,  -- fields src/storage/account/accountdatasource.go storageDB [db *trie.NodeDatabase; mu sync.Mutex; codeSizeCache *lru.Cache; codeCache *fastcache.Cache] — field list of storageDB: a state handle (AccountDB on a root) owns its trie and objects; storageDB keeps no cache of tries, so handles opened on the same root never share a mutable trie
  4366626866693257,  -- guards src/storage/account/accountdatasource.go storageDB.CopyTrie [] — branch conditions (locals blanked) of storageDB.CopyTrie in source order, as followed by the model
  74665269401649,  -- guards src/storage/account/accountdatasource.go storageDB.OpenStorageTrie [] — branch conditions (locals blanked) of storageDB.OpenStorageTrie in source order, as followed by the model
  34068632992642,  -- guards src/storage/account/accountdatasource.go storageDB.OpenTrie [_ != nil] — branch conditions (locals blanked) of storageDB.OpenTrie in source order, as followed by the model
  668383076264713,  -- fields src/storage/account/accountdb.go AccountDB [db AccountDatabase; trie Trie; accessList *accessList; accountObjectsLock *sync.Mutex; accountObjects *sync.Map; accountObjectsDirty *ast.MapType; dbErr error; refund uint64; transientStorage transientStorage; transitions transition; validRevisions *ast.ArrayType; nextRevisionID int; thash common.Hash; bhash common.Hash; txIndex int; logs *ast.MapType; logSize uint] — field list of AccountDB: a state handle (AccountDB on a root) owns its trie and objects; storageDB keeps no cache of tries, so handles opened on the same root never share a mutable trie
  627130064648257,  -- guards src/storage/account/accountdb.go NewAccountDB [_ != nil] — branch conditions (locals blanked) of NewAccountDB in source order, as followed by the model
  3369878446308394  -- bound src/vm/instructions.go opBlockhash [GetHash iff num64 >= lower && num64 < upper] — BLOCKHASH asks the node chain index only for lower <= n < BlockNumber: strictly below the executing height (Model.blockhashAsksChain, blockhash_reads_only_ancestors)
]

def accounted : List Nat := modelled ++ provedIrrelevant ++ outOfPath ++ flagsModelled ++ flagsHeldFixed ++ flagsInUninterpreted ++ processLocalAccounted ++ pinnedFacts

theorem sites_accounted_bool : siteKeys.all (fun k => accounted.contains k) = true := by
  decide

theorem sites_accounted : ∀ k ∈ siteKeys, k ∈ accounted := by
  intro k hk
  have := List.all_eq_true.mp sites_accounted_bool k hk
  simpa using this

/-- the sites the model folds over still exist in the source (a vanished site means a stale model) -/
theorem modelled_sites_exist : (modelled ++ flagsModelled).all (fun k => siteKeys.contains k) = true := by
  decide

/-- the generated key list is the key column of the generated table -/
theorem siteKeys_eq : siteKeys = sites.map (·.key) := by
  decide

/-- every proposal-flag read on the path is pinned: the flag reads found are exactly the classified ones -/
theorem flag_reads_pinned :
    ((sites.filter (fun s => s.kind == "flag")).map (·.key)).all
      (fun k => (flagsModelled ++ flagsHeldFixed ++ flagsInUninterpreted ++ outOfPath).contains k) = true := by
  decide

/-- every process-local state access found on the execution path is one of the classified ones -/
theorem process_local_reads_pinned :
    ((sites.filter (fun s => s.kind == "global" || s.kind == "store" || s.kind == "ctx" || s.kind == "gwrite" || s.kind == "chainread")).map (·.key)).all
      (fun k => processLocalAccounted.contains k) = true := by
  decide

/-- the statement-order fact of `VMExecutor.Execute` and the BLOCKHASH window are exactly the pinned ones -/
theorem order_and_bounds_pinned :
    ((sites.filter (fun s => s.kind == "order" || s.kind == "bound" || s.kind == "guards" || s.kind == "fields")).map (·.key)) = pinnedFacts := by
  decide

example : processLocalAccounted ≠ [] := by decide
example : siteKeys ≠ [] := by decide
example : flagsModelled ≠ [] := by decide

end Rangers.Props.C01Sites
