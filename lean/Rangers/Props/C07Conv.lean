import Rangers.Props.C07
import Rangers.Proofs.TxAuthDecimal
import Rangers.Props.C18
/-!
# C07 — the renderings in `ConvertTx` rest on C18 (decimal) and C09 (JSON)

The declared `Data` of a wrapped Ethereum transaction is the JSON of four strings. The
decimal renderings are the ones C18 models and proves loss-free; the JSON frame is C09's
`quote` / `commaSep`.
-/
namespace Rangers.Props.C07
open Rangers Rangers.Model.TxAuth

/-- Nonce, chain id, gas price and gas limit are rendered by `Nat.toDigits 10`
    (`strconv.FormatUint`, `big.Int.String`), the value by C18's `BigIntToStr`. -/
theorem conv_renderings_are_c18 (e : EthTx) :
    decimal e.price = (Nat.toDigits 10 e.price).map charByte ∧
    decimal e.gas = (Nat.toDigits 10 e.gas).map charByte ∧
    decimal (deriveChainId e.v) = (Nat.toDigits 10 (deriveChainId e.v)).map charByte ∧
    bigIntToStr e.value = (Decimal.BigIntToStr (e.value : Int)).map charByte :=
  ⟨decimal_eq_toDigits _, decimal_eq_toDigits _, decimal_eq_toDigits _, bigIntToStr_eq_c18 _⟩

/-- The value an accepted wrapped transaction declares is exact: the `transferValue`
    string in `Data` is C18's `BigIntToStr` of the payload's value, which the contract
    executor's `StrToBigInt` reads back unchanged (C18 `evm_value_unchanged`), for every
    256-bit value. -/
theorem eth_value_string_exact (e : EthTx) (h : e.value < 2 ^ 256) :
    ∃ s : Decimal.Str, bigIntToStr e.value = s.map charByte ∧
      Decimal.StrToBigInt s = .ok (e.value : Int) := by
  refine ⟨Decimal.BigIntToStr (e.value : Int), bigIntToStr_eq_c18 _, ?_⟩
  have := Props.C18.evm_value_unchanged (e.value : Int) (by omega) (by exact_mod_cast h)
  exact this

example : bigIntToStr 1500000000000000000 = "1.500000000000000000".toList.map charByte := by decide

/-- The JSON `ConvertTx` declares is C09's frame: `{` + comma-separated `"key":"value"`
    pairs (C09 `Json.quote`, `Json.commaSep`) + `}`, keys and order as in `types.ContractData`. -/
theorem contractDataJson_is_c09_frame (e : EthTx) :
    contractDataJson e =
      [123] ++ Json.commaSep [
        Json.quote [103,97,115,80,114,105,99,101] ++ [58] ++ Json.quote (decimal e.price),
        Json.quote [103,97,115,76,105,109,105,116] ++ [58] ++ Json.quote (decimal e.gas),
        Json.quote [116,114,97,110,115,102,101,114,86,97,108,117,101] ++ [58] ++ Json.quote (bigIntToStr e.value),
        Json.quote [97,98,105,68,97,116,97] ++ [58] ++ Json.quote (toHex0x e.data)] ++ [125] := by
  simp [contractDataJson, jsonField, Json.commaSep, Json.quote]

/-- the key bytes above are the ASCII of the struct tags -/
theorem contractData_keys :
    Json.ascii "gasPrice" = [103,97,115,80,114,105,99,101] ∧
    Json.ascii "gasLimit" = [103,97,115,76,105,109,105,116] ∧
    Json.ascii "transferValue" = [116,114,97,110,115,102,101,114,86,97,108,117,101] ∧
    Json.ascii "abiData" = [97,98,105,68,97,116,97] := by decide

end Rangers.Props.C07
