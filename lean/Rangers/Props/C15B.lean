import Rangers.Model.Round
import Rangers.Generated.C15Facts
import Rangers.Proofs.Round
import Rangers.Proofs.RoundLive
import Rangers.Proofs.RoundSrc
/-!
C15, clauses 2 and 3: at the threshold the recovered signatures verify under the group key, and no
set of faulty senders can stop an otherwise valid block from being finalised. Cryptography is the
explicit hypothesis `Lawful` (discharged for the abstract bn256 group in `Props/C15Crypto.lean`).
-/
namespace Rangers.Props.C15
open Rangers.Model.Round Rangers.Proofs.Round
open Rangers.Generated

variable {G : Type}

/-! ### Clause 2: at the threshold the recovered signatures verify under the group key

`Lawful` (Proofs/RoundLive.lean) is the explicit statement of what is borrowed:
C14 — `VerifySig(pk_i, d, σ)` iff `σ` is member `i`'s share on `d` (and nil signatures are rejected);
C13 — Lagrange recovery from the shares on `d` of any `k = GetGroupK(n)` distinct members is the group
signature on `d`, which is non-nil, on the curve and verifies under the group public key. -/

/-- **threshold_recovers_valid** (full strength): in every reachable state — any stored early
messages, any packets in any order, the chain stub answering anything — as soon as `k` shares are
present (equivalently: `canProcessed`), the header carries signatures that `round2.checkSignature`
accepts: the recovered block signature verifies over `bh.Hash` and the recovered beacon value over
`preBH.Random` under the group public key. -/
theorem threshold_recovers_valid (c : Crypto G) (env : Env) (hsrc : FromSource env) (hn : 0 < env.groupSize)
    (sh : Id → Data → G) (gs : Data → G) (hl : Lawful c env sh gs)
    (future : List (VMsg G)) (ws : List (Bool × Wire G)) :
    let st := (Proc.runX c env (Proc.init c env future) ws).party.rs
    (groupK env.groupSize ≤ st.gSign.witness.length ∨ st.canProcessed = true) →
      st.canProcessed = true ∧ st.gSign.witness.length = groupK env.groupSize ∧
      sigOk c env.hash st.bhSignature = true ∧ sigOk c env.prevRandom st.bhRandom = true := by
  intro st hreach
  have hb := fromSource_binds hsrc
  have h2 : Inv2 c env gs st :=
    runX_inv2 c env hb sh gs hl ws _ (init_inv2 c env hb (groupK_pos hn) sh gs hl future)
  have hcp : st.canProcessed = true := by
    rcases hreach with hlen | hcp
    · cases hc : st.canProcessed
      · have := (h2.open_ hc).1; omega
      · rfl
    · exact hcp
  obtain ⟨hlen, _, _, hs1, hs2⟩ := h2.closed hcp
  refine ⟨hcp, hlen, ?_, ?_⟩
  · rw [hs1]; exact sigOk_groupSig c env sh gs hl env.hash
  · rw [hs2]; exact sigOk_groupSig c env sh gs hl env.prevRandom

/-- The share sets never exceed the threshold and stay in lock-step. -/
theorem share_sets_in_step (c : Crypto G) (env : Env) (hsrc : FromSource env) (hn : 0 < env.groupSize)
    (sh : Id → Data → G) (gs : Data → G) (hl : Lawful c env sh gs)
    (future : List (VMsg G)) (ws : List (Bool × Wire G)) :
    let st := (Proc.runX c env (Proc.init c env future) ws).party.rs
    st.gSign.witness.map (·.1) = st.rSign.witness.map (·.1) ∧ st.gSign.witness.length ≤ groupK env.groupSize := by
  intro st
  have hb := fromSource_binds hsrc
  have h2 : Inv2 c env gs st :=
    runX_inv2 c env hb sh gs hl ws _ (init_inv2 c env hb (groupK_pos hn) sh gs hl future)
  refine ⟨h2.ids_eq, ?_⟩
  cases hc : st.canProcessed
  · have := (h2.open_ hc).1; omega
  · have := (h2.closed hc).1; omega

/-! ### Clause 3: a faulty member (or any number of them) cannot stop finalisation -/

/-- **one_faulty_cannot_block** (full strength for the collection logic): let the block not be on
the chain yet and let the honest verify messages of at least `k` distinct members with registered keys
be among the delivered packets. Then — whatever else is delivered (shares over other hashes, replays,
garbage points, non-members, duplicates, undecodable packets, messages filed under other hashes),
in whatever order, and whatever messages were stored before the round started — the party ends with
`done`: `round2.checkSignature` passed and `GenerateBlock` received the group signature on `bh.Hash`
and the group signature on `preBH.Random`, both of which verify under the group public key. -/
theorem one_faulty_cannot_block (c : Crypto G) (env : Env) (hsrc : FromSource env)
    (hex : env.blockExists = false) (hn : 0 < env.groupSize)
    (sh : Id → Data → G) (gs : Data → G) (hl : Lawful c env sh gs)
    (future : List (VMsg G)) (ws : List (Wire G))
    (honest : List (Id × MsgId)) (hnd : (honest.map (·.1)).Nodup)
    (hlen : groupK env.groupSize ≤ honest.length)
    (hmem : ∀ p ∈ honest, p.1 ∈ env.pkKnown ∧ Wire.ok (honestMsg env sh p.1 p.2) ∈ ws ∧
      p.2 ∉ future.map (·.mid)) :
    let pr := Proc.run c env (Proc.init c env future) ws
    pr.ending = some true ∧
    pr.party.rs.generated = some (some (gs env.hash), some (gs env.prevRandom)) ∧
    sigOk c env.hash (some (gs env.hash)) = true ∧ sigOk c env.prevRandom (some (gs env.prevRandom)) = true := by
  intro pr
  have hb := fromSource_binds hsrc
  have hk := groupK_pos hn
  have hfinished : Finished env gs pr := by
    rcases init_state c env hb hex hk sh gs hl future with hc | hf | hr
    · -- collecting: count the honest senders
      have hrun := run_collecting c env hb hex sh gs hl (future.map (·.mid)) ws _ hc
      rcases hrun.1 with hcol | hfin
      · exfalso
        have hsub : (honest.map (·.1)) ⊆ (pr.party.rs.gSign.witness.map (·.1)) := by
          intro i hi
          obtain ⟨p, hp, rfl⟩ := List.mem_map.mp hi
          obtain ⟨hpk, hw, hmid⟩ := hmem p hp
          rcases hrun.2 p.1 p.2 hw hpk hmid with he | hhas
          · have : pr.ending = none := hcol.ending
            rw [this] at he; cases he
          · exact (has_eq_true_iff _ _).mp hhas
        have h1 := List.Nodup.length_le_of_subset hnd hsub
        have h2 : pr.party.rs.gSign.witness.length < groupK env.groupSize := (hcol.inv2.open_ hcol.cp).1
        simp only [List.length_map] at h1
        omega
      · exact hfin
    · exact run_finished c env gs ws _ hf
    · -- the party recovered inside round1.Start; the first honest message makes it advance
      apply run_ready c env hex sh gs hl ws _ hr
      cases honest with
      | nil => simp at hlen; omega
      | cons p rest =>
        obtain ⟨hpk, hw, _⟩ := hmem p (by simp)
        exact ⟨p.1, p.2, hw, hpk⟩
  exact ⟨hfinished.ending, hfinished.gen, sigOk_groupSig c env sh gs hl _, sigOk_groupSig c env sh gs hl _⟩

/-- **one_faulty_cannot_block_after_cast**: the same for a round entered with the ids round0 had
already processed (the cast message's id, `Proc.initWith`): the state the life cycle actually hands
to round1. The honest messages' ids must be new (they are hashes of different bytes). -/
theorem one_faulty_cannot_block_after_cast (c : Crypto G) (env : Env) (hsrc : FromSource env)
    (hex : env.blockExists = false) (hn : 0 < env.groupSize)
    (sh : Id → Data → G) (gs : Data → G) (hl : Lawful c env sh gs)
    (processed : List MsgId) (future : List (VMsg G)) (ws : List (Wire G))
    (honest : List (Id × MsgId)) (hnd : (honest.map (·.1)).Nodup)
    (hlen : groupK env.groupSize ≤ honest.length)
    (hmem : ∀ p ∈ honest, p.1 ∈ env.pkKnown ∧ Wire.ok (honestMsg env sh p.1 p.2) ∈ ws ∧
      p.2 ∉ processed ++ future.map (·.mid)) :
    let pr := Proc.run c env (Proc.initWith c env processed future) ws
    pr.ending = some true ∧
    pr.party.rs.generated = some (some (gs env.hash), some (gs env.prevRandom)) ∧
    sigOk c env.hash (some (gs env.hash)) = true ∧ sigOk c env.prevRandom (some (gs env.prevRandom)) = true := by
  intro pr
  have hb := fromSource_binds hsrc
  have hk := groupK_pos hn
  have hfinished : Finished env gs pr := by
    rcases initWith_state c env hb hex hk sh gs hl processed future with hc | hf | hr
    · -- collecting: count the honest senders
      have hrun := run_collecting c env hb hex sh gs hl (processed ++ future.map (·.mid)) ws _ hc
      rcases hrun.1 with hcol | hfin
      · exfalso
        have hsub : (honest.map (·.1)) ⊆ (pr.party.rs.gSign.witness.map (·.1)) := by
          intro i hi
          obtain ⟨p, hp, rfl⟩ := List.mem_map.mp hi
          obtain ⟨hpk, hw, hmid⟩ := hmem p hp
          rcases hrun.2 p.1 p.2 hw hpk hmid with he | hhas
          · have : pr.ending = none := hcol.ending
            rw [this] at he; cases he
          · exact (has_eq_true_iff _ _).mp hhas
        have h1 := List.Nodup.length_le_of_subset hnd hsub
        have h2 : pr.party.rs.gSign.witness.length < groupK env.groupSize := (hcol.inv2.open_ hcol.cp).1
        simp only [List.length_map] at h1
        omega
      · exact hfin
    · exact run_finished c env gs ws _ hf
    · -- the party recovered inside round1.Start; the first honest message makes it advance
      apply run_ready c env hex sh gs hl ws _ hr
      cases honest with
      | nil => simp at hlen; omega
      | cons p rest =>
        obtain ⟨hpk, hw, _⟩ := hmem p (by simp)
        exact ⟨p.1, p.2, hw, hpk⟩
  exact ⟨hfinished.ending, hfinished.gen, sigOk_groupSig c env sh gs hl _, sigOk_groupSig c env sh gs hl _⟩

/-- **byzantine_cannot_cause_error** (safety form of clause 3): as long as the block is not on the
chain, no sequence of packets whatsoever — and no stored early messages — makes the party end with an
error: it keeps collecting or ends `done`. (The only error ending of the signing round is "block already
existed".) -/
theorem byzantine_cannot_cause_error (c : Crypto G) (env : Env) (hsrc : FromSource env)
    (hex : env.blockExists = false) (hn : 0 < env.groupSize)
    (sh : Id → Data → G) (gs : Data → G) (hl : Lawful c env sh gs)
    (future : List (VMsg G)) (ws : List (Wire G)) :
    (Proc.run c env (Proc.init c env future) ws).ending ≠ some false := by
  have hb := fromSource_binds hsrc
  have h := run_tri c env hb hex sh gs hl (future.map (·.mid)) ws _
    (init_state c env hb hex (groupK_pos hn) sh gs hl future)
  rcases h with h | h | h
  · rw [h.ending]; simp
  · rw [h.ending]; simp
  · rw [h.ending]; simp

/-- The same statement for the handler that does not bind the signed hash to the block. -/
def FullStatementLivenessUnbound : Prop :=
  ∀ (c : Crypto Sym) (env : Env), env.bindsHash = false → env.blockExists = false → 0 < env.groupSize →
    ∀ (sh : Id → Data → Sym) (gs : Data → Sym), Lawful c env sh gs →
      ∀ (ws : List (Wire Sym)) (honest : List (Id × MsgId)), (honest.map (·.1)).Nodup →
        groupK env.groupSize ≤ honest.length →
        (∀ p ∈ honest, p.1 ∈ env.pkKnown ∧ Wire.ok (honestMsg env sh p.1 p.2) ∈ ws) →
        (Proc.run c env (Proc.init c env []) ws).ending = some true

theorem symParts_shares (d : Data) (ids : List Id) :
    symParts (ids.map fun i => (i, Sym.share i d)) = some (ids.map fun i => (i, i, d)) := by
  induction ids with
  | nil => rfl
  | cons i rest ih => simp [symParts, ih]

/-- The symbolic threshold group (the instance the driver runs) satisfies `Lawful`, for every group
whose registered keys are the DKG members: the hypotheses of the theorems above are satisfiable. -/
theorem symCrypto_lawful (env : Env) (hn : 0 < env.groupSize) :
    Lawful (symCrypto (groupK env.groupSize) env.pkKnown) env (fun i d => Sym.share i d) (fun d => Sym.group d) := by
  refine ⟨?_, ?_, ?_, ?_⟩
  · intro id d s _; simp [symCrypto]
  · intro id d s h
    have : s = Sym.share id d := by simpa [symCrypto] using h
    subst this; simp [symCrypto]
  · intro d; simp [symCrypto]
  · intro ids d hnd hmem hlen
    have hk := groupK_pos hn
    show (symCrypto (groupK env.groupSize) env.pkKnown).recover _ = _
    simp only [symCrypto, symParts_shares]
    cases ids with
    | nil => simp at hlen; omega
    | cons i rest =>
      have hgrp : comboIsGroup (groupK env.groupSize) env.pkKnown d ((i :: rest).map fun i => (i, i, d)) = true := by
        simp only [comboIsGroup, Bool.and_eq_true, beq_iff_eq, List.length_map, decide_eq_true_eq,
          List.all_eq_true, List.map_map]
        refine ⟨⟨hlen, ?_⟩, ?_⟩
        · intro p hp
          obtain ⟨j, hj, rfl⟩ := List.mem_map.mp hp
          simp [hmem j hj]
        · have : ((fun p : Id × Id × Data => p.1) ∘ fun i => (i, i, d)) = id := rfl
          rw [this, List.map_id]; exact hnd
      simp only [List.map_cons] at hgrp ⊢
      rw [if_pos hgrp]

/-- Non-vacuity of `one_faulty_cannot_block`: group of 3 (k = 2), members 1 and 2 honest, member 0
sends a share over another hash first — the block is finalised. -/
example :
    let env : Env := { leadEnv with bindsHash := true }
    let c := symCrypto 2 [0, 1, 2]
    (Proc.run c env (Proc.init c env []) [.ok leadMsg,
        .ok (honestMsg env (fun i d => Sym.share i d) 1 1), .ok (honestMsg env (fun i d => Sym.share i d) 2 2)]).ending
      = some true := by decide

/-- Without the binding check the same history ends the party with an error: the liveness clause is false. -/
theorem one_faulty_cannot_block_unbound_counterexample : ¬ FullStatementLivenessUnbound := by
  intro h
  have hl : Lawful (symCrypto 2 [0, 1, 2]) leadEnv (fun i d => Sym.share i d) (fun d => Sym.group d) :=
    symCrypto_lawful leadEnv (by decide)
  have := h (symCrypto 2 [0, 1, 2]) leadEnv rfl rfl (by decide) _ _ hl
    [.ok leadMsg, .ok (honestMsg leadEnv (fun i d => Sym.share i d) 1 1),
      .ok (honestMsg leadEnv (fun i d => Sym.share i d) 2 2)]
    [(1, 1), (2, 2)] (by decide) (by decide)
    (by
      intro p hp
      simp only [List.mem_cons, List.not_mem_nil, or_false] at hp
      rcases hp with rfl | rfl
      · exact ⟨by decide, by simp⟩
      · exact ⟨by decide, by simp⟩)
  exact absurd this (by decide)


end Rangers.Props.C15
