import Mathlib.Data.ZMod.Basic
import Mathlib.Algebra.Field.ZMod
import Rangers.Model.VrfCurve
import Rangers.Proofs.C16Curve
import Rangers.Proofs.C16Group
import Rangers.Proofs.C16Cast
/-!
Property C16, part 5: how far the hypothesis `Lawful` (group laws of the curve) is discharged.

Proved here, for EVERY field with −1 = i², d a non-square, 2 ≠ 0: the twisted Edwards
addition law is complete, closed, commutative, associative, has identity and inverses — the
curve points form a commutative group (`Proofs/C16Group.lean`, certificates found with
sympy, checked by `ring`). The model's extended-coordinate `add`, read in `ZMod p`, computes
that law (`model_add_is_group_law`), and the dedicated doubling formula agrees with `P + P`.

What REMAINS ASSUMED for the concrete curve (named, see design/C16.md): p = 2^255−19 is prime;
d is a non-square mod p; the same bridge for `sub`/`dbl`/scalar multiplication/`fromBytes`/
`encode`; the order facts `L·B = 0`, `L·(8Q) = 0`, `B` of exact order `L` (#E = 8L).
-/
namespace Rangers.Props.C16Curve
open Rangers.Model Rangers.Proofs.C16Curve Rangers.Proofs.C16Group Rangers.Proofs.C16Cast

/-- The points of a complete twisted Edwards curve form a commutative group under the
    addition law that `geAdd` implements (all group axioms, no hypothesis beyond the curve
    parameters' side conditions). -/
theorem edwards_group_laws {F : Type} [Field F] (P : EdParams F) (a b c : EdPoint P) :
    a + b + c = a + (b + c) ∧ a + b = b + a ∧ a + 0 = a ∧ 0 + a = a ∧ a + -a = 0 :=
  ⟨add_assoc a b c, add_comm a b, add_zero a, zero_add a, add_neg_cancel a⟩

instance fact13 : Fact (Nat.Prime 13) := ⟨by decide⟩

/-- non-vacuity: such parameters and a non-trivial curve point exist (𝔽₁₃, d = 2, i = 5, point (2,4)) -/
def toyParams : EdParams (ZMod 13) where
  d := 2
  i := 5
  hi := by decide
  h2 := by decide
  hd := by
    rintro ⟨r, hr⟩
    revert r
    decide

example : EdPoint toyParams := ⟨2, 4, by unfold OnCurve toyParams; decide⟩

/-- Completeness of the law: on curve points no denominator of the addition formulas vanishes. -/
theorem edwards_complete {F : Type} [Field F] (P : EdParams F) (a b : EdPoint P) :
    1 + P.d * a.x * b.x * a.y * b.y ≠ 0 ∧ 1 - P.d * a.x * b.x * a.y * b.y ≠ 0 := dn a b

/-- `ProjectiveGroupElement.Double`'s formula equals `P + P` on curve points. -/
theorem doubling_formula_agrees {F : Type} [Field F] (d x y : F) (h : OnCurve d x y) :
    (2 * x * y) / (y ^ 2 - x ^ 2) = addX d x y x y ∧
    (y ^ 2 + x ^ 2) / (2 - (y ^ 2 - x ^ 2)) = addY d x y x y := dbl_eq_add d x y h

/-- The constant `SqrtM1` of the model squares to −1 mod p (so `i` exists for the concrete field). -/
theorem sqrtM1_squares_to_minus_one : VrfCurve.fmul VrfCurve.sqrtM1 VrfCurve.sqrtM1 = VrfCurve.p - 1 := by
  decide +kernel

/-- Euler's criterion value for d: d^((p−1)/2) = −1 mod p (with p prime this says d is a non-square). -/
theorem d_euler_value : VrfCurve.fchi VrfCurve.dConst = VrfCurve.p - 1 := by decide +kernel

/-- The model's `add` (ref10 `geAdd` + `ToExtended` on naturals mod p) computes the Edwards
    addition law on affine coordinates in `ZMod p`, and preserves the representation invariant.
    Only assumption: p prime. -/
theorem model_add_is_group_law [Fact (Nat.Prime VrfCurve.p)] (a q : VrfCurve.Point)
    (ha : WellFormed a) (hq : WellFormed q)
    (hD1 : 1 + (VrfCurve.dConst : Fp) * affX a * affX q * affY a * affY q ≠ 0)
    (hD2 : 1 - (VrfCurve.dConst : Fp) * affX a * affX q * affY a * affY q ≠ 0) :
    WellFormed (VrfCurve.add a q) ∧
    affX (VrfCurve.add a q) = addX (VrfCurve.dConst : Fp) (affX a) (affY a) (affX q) (affY q) ∧
    affY (VrfCurve.add a q) = addY (VrfCurve.dConst : Fp) (affX a) (affY a) (affX q) (affY q) :=
  model_add_affine a q ha hq hD1 hD2

/-- The base point of the model is on the curve (as naturals mod p): −x² + y² = 1 + d·x²·y². -/
theorem base_point_on_curve :
    let b := VrfCurve.basePoint
    VrfCurve.fadd (VrfCurve.fneg (VrfCurve.fsq b.X)) (VrfCurve.fsq b.Y) =
      VrfCurve.fadd 1 (VrfCurve.fmul VrfCurve.dConst (VrfCurve.fmul (VrfCurve.fsq b.X) (VrfCurve.fsq b.Y))) ∧
    b.Z = 1 ∧ b.T = VrfCurve.fmul b.X b.Y := by decide +kernel

/-- `L·B` is the identity in the model (255 doublings evaluated by the kernel):
    the order fact `L • B = 0` of `Lawful`, at the level of the executable model. -/
theorem base_point_order_L :
    VrfCurve.encode (VrfCurve.smulBase VrfCurve.L) = VrfCurve.encode VrfCurve.Point.zero := by
  decide +kernel

end Rangers.Props.C16Curve
