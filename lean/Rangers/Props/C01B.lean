import Rangers.Model.BlockExec
import Rangers.Props.C01
/-!
# C01 (continued) — process-local inputs

The proposal flags are not part of (parent state, header, transaction list): the Go code reads
them from the process-wide `common.GetBlockHeight()`.  Full statement, the provable restriction,
and the counterexample (replayed on the implementation by the searcher scenario
`lead-global-height-flags`; recorded in known-findings.txt, key `flags-from-process-chain-height`).
-/
namespace Rangers.Props.C01B
open Rangers Rangers.Model.BlockExec Rangers.Props.C01

/-- what the property asks: the chain height of the executing node does not matter -/
def FullStatementChainHeightIrrelevant : Prop :=
  ∀ (ρ : Orders) (env : Env) (t : ForkTable) (g₁ g₂ : Nat) (hd : Header) (rw : St → Option RewardIn)
    (ids : List Addr) (s : St) (txs : List Tx),
    (execBlockAt ρ env t g₁ hd rw ids s txs).receipts.map (·.hash)
      = (execBlockAt ρ env t g₂ hd rw ids s txs).receipts.map (·.hash)

/-- two nodes are on the same side of every activation height -/
def SameSide (t : ForkTable) (g₁ g₂ : Nat) : Prop :=
  (g₁ ≥ t.p006 ↔ g₂ ≥ t.p006) ∧ (g₁ ≥ t.p007 ↔ g₂ ≥ t.p007) ∧ (g₁ ≥ t.p016 ↔ g₂ ≥ t.p016) ∧
  (g₁ ≥ t.p018 ↔ g₂ ≥ t.p018) ∧ (g₁ ≥ t.p021 ↔ g₂ ≥ t.p021) ∧ (g₁ ≥ t.p023 ↔ g₂ ≥ t.p023)

theorem flagsAt_sameSide (t : ForkTable) (g₁ g₂ : Nat) (h : SameSide t g₁ g₂) : flagsAt t g₁ = flagsAt t g₂ := by
  obtain ⟨h1, h2, h3, h4, h5, h6⟩ := h
  unfold flagsAt
  simp only [decide_eq_decide.mpr h1, decide_eq_decide.mpr h2, decide_eq_decide.mpr h3,
    decide_eq_decide.mpr h4, decide_eq_decide.mpr h5, decide_eq_decide.mpr h6]

/-- Provable restriction: replicas whose chain tops are on the same side of every activation height
    (in particular: every replica that executes the block on top of its own chain, `g = height-1`)
    compute the same result, under any iteration orders. -/
theorem chain_height_irrelevant_partial (ρ₁ ρ₂ : Orders) (v₁ : OrdersValid ρ₁) (v₂ : OrdersValid ρ₂) (env : Env)
    (t : ForkTable) (g₁ g₂ : Nat) (hs : SameSide t g₁ g₂) (hd : Header) (rw : St → Option RewardIn) (ids : List Addr)
    (s : St) (txs : List Tx)
    (hmap : ∀ s r vs, rw s = some r → r.validators = some vs → (vs.map Prod.fst).Nodup) :
    execBlockAt ρ₁ env t g₁ hd rw ids s txs = execBlockAt ρ₂ env t g₂ hd rw ids s txs := by
  unfold execBlockAt
  rw [flagsAt_sameSide t g₁ g₂ hs]
  exact exec_deterministic ρ₁ ρ₂ v₁ v₂ env _ hd rw ids s txs hmap

def devTable : ForkTable := ⟨0, 0, 0, 0, 0, 12⟩
example : SameSide devTable 11 10 := by unfold SameSide devTable; decide
example : ¬ SameSide devTable 11 15 := by unfold SameSide devTable; decide

def cexEnv : Env := ⟨99, 1, fun _ _ s => ⟨s, false, [], 0, [], false⟩⟩
def cexTx1 : Tx := ⟨0x10, 0, 0, 100, [97], 1, 1, 1, .empty⟩
def cexTx2 : Tx := ⟨0x20, 0, 0, 100, [97], 1, 1, 1, .empty⟩

/-- dev fork table (Proposal023 = 12), block of two transactions of one source with equal nonce:
    a node whose top is 11 executes them in list order, a node whose top is 15 (fork path) sorts by
    hash descending — the receipts (and with real transfers the ledger) differ. -/
theorem chain_height_counterexample : ¬ FullStatementChainHeightIrrelevant := by
  intro h
  have := h Orders.id cexEnv devTable 11 15 { height := 12, p004Block := 1 } (fun _ => none) [] St.empty [cexTx1, cexTx2]
  unfold execBlockAt at this
  rw [receipts_in_list_order, receipts_in_list_order] at this
  revert this
  decide

/-! ## exactly which executions are affected

`checkStates` / `runTransactions` execute block `h` on top of the node's own chain, so the
process-wide height is `h - 1` on every such replica.  Only `verifyStateAndReceipt` (situation
"fork") executes a block while the local top is something else. -/

def heightsOf (t : ForkTable) : List Nat := [t.p006, t.p007, t.p016, t.p018, t.p021, t.p023]

/-- some activation height lies strictly above the lower and at or below the higher of the two tops -/
def ActivationBetween (t : ForkTable) (g₁ g₂ : Nat) : Prop :=
  ∃ b ∈ heightsOf t, min g₁ g₂ < b ∧ b ≤ max g₁ g₂

theorem sameSide_of_no_activation_between (t : ForkTable) (g₁ g₂ : Nat) (h : ¬ ActivationBetween t g₁ g₂) :
    SameSide t g₁ g₂ := by
  have key : ∀ b ∈ heightsOf t, (g₁ ≥ b ↔ g₂ ≥ b) := by
    intro b hb
    have hn : ¬ (min g₁ g₂ < b ∧ b ≤ max g₁ g₂) := fun hc => h ⟨b, hb, hc⟩
    omega
  unfold SameSide
  simp only [heightsOf, List.mem_cons, List.mem_nil_iff, or_false, forall_eq_or_imp, forall_eq] at key
  exact key

/-- all replicas that execute the block on top of their own chain (normal and casting path:
    process height = header height − 1) agree, whatever iteration orders they pick -/
theorem normal_path_replicas_agree (ρ₁ ρ₂ : Orders) (v₁ : OrdersValid ρ₁) (v₂ : OrdersValid ρ₂) (env : Env)
    (t : ForkTable) (hd : Header) (rw : St → Option RewardIn) (ids : List Addr) (s : St) (txs : List Tx)
    (hmap : ∀ s r vs, rw s = some r → r.validators = some vs → (vs.map Prod.fst).Nodup) :
    execBlockAt ρ₁ env t (hd.height - 1) hd rw ids s txs = execBlockAt ρ₂ env t (hd.height - 1) hd rw ids s txs :=
  chain_height_irrelevant_partial ρ₁ ρ₂ v₁ v₂ env t _ _
    ⟨Iff.rfl, Iff.rfl, Iff.rfl, Iff.rfl, Iff.rfl, Iff.rfl⟩ hd rw ids s txs hmap

/-- **Which executions the known finding touches.**  A replica whose process-wide height is `g`
    (fork path) can disagree with the replicas on the normal path only if an activation height
    lies between `g` and `header.Height − 1`. -/
theorem affected_only_if_activation_between (ρ₁ ρ₂ : Orders) (v₁ : OrdersValid ρ₁) (v₂ : OrdersValid ρ₂) (env : Env)
    (t : ForkTable) (g : Nat) (hd : Header) (rw : St → Option RewardIn) (ids : List Addr) (s : St) (txs : List Tx)
    (hmap : ∀ s r vs, rw s = some r → r.validators = some vs → (vs.map Prod.fst).Nodup)
    (hne : execBlockAt ρ₁ env t g hd rw ids s txs ≠ execBlockAt ρ₂ env t (hd.height - 1) hd rw ids s txs) :
    ActivationBetween t g (hd.height - 1) := by
  apply Classical.byContradiction
  intro hno
  exact hne (chain_height_irrelevant_partial ρ₁ ρ₂ v₁ v₂ env t g (hd.height - 1)
    (sameSide_of_no_activation_between t g _ hno) hd rw ids s txs hmap)

example : ActivationBetween devTable 15 (12 - 1) := ⟨12, by decide, by decide⟩
example : ¬ ActivationBetween devTable 20 (14 - 1) := by
  intro ⟨b, hb, h1, h2⟩
  simp [heightsOf, devTable] at hb
  rcases hb with rfl | rfl <;> omega

end Rangers.Props.C01B
