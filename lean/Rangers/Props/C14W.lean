import Rangers.Proofs.Bls14Curve
import Rangers.Props.C14U
import Rangers.Model.Bls14Hash
/-!
# C14, part 5 — the model's G1 arithmetic is the elliptic-curve group law

Under the single number-theoretic hypothesis that `p` (`bn256.P`, re-read from the source) is
prime, the model's `Pt.neg`, `Pt.add`, `Pt.double`, `Pt.mul` — tied to `G1.Neg/Add/ScalarMult`
by the correspondence run — are negation, addition and scalar multiplication of Mathlib's
`WeierstrassCurve.Affine.Point` group of `y² = x³ + 3` over `ZMod p`, and the meaning map is
injective on valid points. So the interpretation `Interp` of part 3 needs to ASSUME only the
pairing (bilinear, trivial kernel against `g₂`); signing with the model's own `sign`
verifies, and the algebraically related values of the property's quantifier (`−σ`, `σ + σ'`,
signatures for other messages) are rejected as statements about the model's own operations.

Primality of `p` is not proved here (no factorisation of `p − 1` is available in the sandbox;
the cofactor is a 163-bit composite): it is a hypothesis `[Fact (Nat.Prime P)]`, sampled by the
searcher (`ProbablyPrime`) on every run.
-/
namespace Rangers.Props.C14
open Rangers Rangers.Model.Bls14 Rangers.Proofs.Bls14

variable [hp : Fact (Nat.Prime P)]

/-- `Pt.neg` is the group inverse; valid points stay valid. -/
theorem g1_neg_is_group_law (a : Pt) (ha : Valid a) : Valid a.neg ∧ ι a.neg = -ι a :=
  ι_neg a ha

/-- `Pt.add` (chord, tangent, opposite points, identity — every branch) is the group law. -/
theorem g1_add_is_group_law (a b : Pt) (ha : Valid a) (hb : Valid b) :
    Valid (a.add b) ∧ ι (a.add b) = ι a + ι b :=
  ι_add a b ha hb

/-- `Pt.mul` (MSB-first double-and-add, as `curvePoint.Mul`) is scalar multiplication. -/
theorem g1_mul_is_scalar_mul (a : Pt) (ha : Valid a) (k : ℕ) (hk : k < 2 ^ 512) :
    Valid (Pt.mul a k) ∧ ι (Pt.mul a k) = k • ι a :=
  ι_mul a ha k hk

/-- Distinct valid byte-level points are distinct group elements. -/
theorem g1_meaning_injective (a b : Pt) (ha : Valid a) (hb : Valid b) (h : ι a = ι b) : a = b :=
  ι_inj a b ha hb h

omit hp in
example : Valid g1Gen ∧ Valid .inf := by
  refine ⟨⟨?_, ?_⟩, ⟨rfl, rfl⟩⟩ <;> decide

section pairing
variable {G2 GT : Type} [AddCommGroup G2] [CommGroup GT]

/-- The interpretation on the real curve group: only the pairing `e` is assumed
    (bilinear, trivial kernel against `κ g₂`). -/
noncomputable def curveInterp (e : W.Point → G2 → GT) (bil : Bilinear e) (κ : Pt2 → G2)
    (nd : ∀ a, e a (κ g2Gen) = 1 → a = 0) : Interp W.Point G2 GT where
  e := e
  bil := bil
  ι := ι
  κ := κ
  ι_inf := rfl
  ι_inj := fun a b ha ra hb rb h => ι_inj a b ⟨ha, ra⟩ ⟨hb, rb⟩ h
  nondeg := nd

variable (e : W.Point → G2 → GT) (bil : Bilinear e) (κ : Pt2 → G2)
  (nd : ∀ a, e a (κ g2Gen) = 1 → a = 0)

/-- The model's own `sign` produces the honest signature in the sense of part 3. -/
theorem sign_is_honest (sk : ℕ) (hsk : sk < 2 ^ 512) (hm : Pt) (hv : Valid hm) (pk : Pt2)
    (hpk : κ pk = sk • κ g2Gen) :
    Honest (curveInterp e bil κ nd) sk hm (Pt.mul hm sk) pk :=
  have h := ι_mul hm hv sk hsk
  ⟨hpk, h.2, h.1.1, h.1.2⟩

/-- **Completeness**: "verification returns true for the signature produced by the matching
    secret key" — for the model's `sign` (= `Sign`), every key and every message point. -/
theorem sign_verifies (sk : ℕ) (hsk : sk < 2 ^ 512) (hm : Pt) (hv : Valid hm) (pk : Pt2)
    (hpk : κ pk = sk • κ g2Gen) :
    verifySig (curveInterp e bil κ nd).pairEq hm (.pt pk) (sign sk hm) = .accept :=
  honest_accepted _ (sign_is_honest e bil κ nd sk hsk hm hv pk hpk)

/-- **Soundness** in the same terms: nothing but `sign sk hm` is accepted. -/
theorem only_sign_verifies (sk : ℕ) (hsk : sk < 2 ^ 512) (hm : Pt) (hv : Valid hm) (pk : Pt2)
    (hpk : κ pk = sk • κ g2Gen) (sig : Sig) (hsr : ∀ s, sig = .pt s → s.reduced = true) :
    verifySig (curveInterp e bil κ nd).pairEq hm (.pt pk) sig = .accept ↔ sig = sign sk hm :=
  verify_iff_unique _ (sign_is_honest e bil κ nd sk hsk hm hv pk hpk) sig hsr

/-- `σ + σ'` for any valid non-identity `σ'` (e.g. another valid signature), computed with the
    model's `Pt.add`, is rejected. -/
theorem sum_sig_rejected (sk : ℕ) (hsk : sk < 2 ^ 512) (hm : Pt) (hv : Valid hm) (pk : Pt2)
    (hpk : κ pk = sk • κ g2Gen) (σ' : Pt) (hv' : Valid σ') (hne : σ' ≠ .inf) :
    verifySig (curveInterp e bil κ nd).pairEq hm (.pt pk) (.pt (Pt.add (Pt.mul hm sk) σ')) = .reject := by
  have H := sign_is_honest e bil κ nd sk hsk hm hv pk hpk
  have hs := ι_add (Pt.mul hm sk) σ' ⟨H.onCurve, H.reduced⟩ hv'
  refine sum_rejected _ H hs.1.2 (ι σ') ?_ hs.2
  intro h0
  exact hne (ι_inj σ' .inf hv' ⟨rfl, rfl⟩ (by rw [h0]; rfl))

/-- `−σ`, computed with the model's `Pt.neg`, is rejected unless `2σ = 0`. -/
theorem neg_sig_rejected (sk : ℕ) (hsk : sk < 2 ^ 512) (hm : Pt) (hv : Valid hm) (pk : Pt2)
    (hpk : κ pk = sk • κ g2Gen) (h2 : 2 • ι (Pt.mul hm sk) ≠ 0) :
    verifySig (curveInterp e bil κ nd).pairEq hm (.pt pk) (.pt (Pt.neg (Pt.mul hm sk))) = .reject := by
  have H := sign_is_honest e bil κ nd sk hsk hm hv pk hpk
  have hn := ι_neg (Pt.mul hm sk) ⟨H.onCurve, H.reduced⟩
  apply verify_rejects_of_ne _ H _ (by rintro s ⟨⟩; exact hn.1.2)
  intro h
  have := congrArg ι (G1Val.pt.inj h)
  rw [hn.2] at this
  apply h2
  rw [two_nsmul]
  nth_rewrite 1 [← this]
  exact neg_add_cancel _

/-- A signature made (with the model's `sign`) for another message point is rejected, when the
    group has prime exponent `r ∤ sk` (`#E(F_p) = r`, assumed). -/
theorem other_message_sig_rejected (sk r : ℕ) (hsk : sk < 2 ^ 512) (hm hm' : Pt) (hv : Valid hm)
    (hv' : Valid hm') (pk : Pt2) (hpk : κ pk = sk • κ g2Gen)
    (hr : r.Prime) (hexp : ∀ a : W.Point, r • a = 0) (hnd : ¬ r ∣ sk) (hne : hm' ≠ hm) :
    verifySig (curveInterp e bil κ nd).pairEq hm (.pt pk) (sign sk hm') = .reject :=
  other_message_rejected _ (sign_is_honest e bil κ nd sk hsk hm hv pk hpk)
    (sign_is_honest e bil κ nd sk hsk hm' hv' pk hpk) hr hexp hnd
    (fun h => hne (ι_inj hm' hm hv' hv h))

/-- A signature made with another key `sk' ≢ sk (mod r)` for the same message is rejected. -/
theorem other_key_sig_rejected (sk sk' r : ℕ) (hsk : sk < 2 ^ 512) (hsk' : sk' < 2 ^ 512)
    (hm : Pt) (hv : Valid hm) (hm0 : hm ≠ .inf) (pk pk' : Pt2)
    (hpk : κ pk = sk • κ g2Gen) (hpk' : κ pk' = sk' • κ g2Gen)
    (hr : r.Prime) (hexp : ∀ a : W.Point, r • a = 0) (hne : ¬ sk' ≡ sk [MOD r]) :
    verifySig (curveInterp e bil κ nd).pairEq hm (.pt pk) (sign sk' hm) = .reject :=
  other_key_rejected _ (sign_is_honest e bil κ nd sk hsk hm hv pk hpk)
    (sign_is_honest e bil κ nd sk' hsk' hm hv pk' hpk') hr hexp hne
    (fun h0 => hm0 (ι_inj hm .inf hv ⟨rfl, rfl⟩ (by
      have h0' : ι hm = 0 := h0
      rw [h0']; rfl)))

/-- **The identity signature is rejected for every hashed message**: `H(m)` is a non-identity curve
    point for every `m` (postcondition of the unbounded loop), so under a key with `r ∤ sk` the honest
    signature `sk·H(m)` is not the identity, and the 64-zero-byte signature does not verify. (With a
    bounded loop falling back to the identity this fails: both pairings would be 1.) -/
theorem identity_sig_rejected_for_hashed_message (sk r : ℕ) (hsk : sk < 2 ^ 512) (m : Bytes) (hm : Pt)
    (hh : hashToG1 m = some hm) (pk : Pt2) (hpk : κ pk = sk • κ g2Gen)
    (hr : r.Prime) (hexp : ∀ a : W.Point, r • a = 0) (hnd : ¬ r ∣ sk) :
    verifySig (curveInterp e bil κ nd).pairEq hm (.pt pk) (.pt .inf) = .reject ∧
    verifySig (curveInterp e bil κ nd).pairEq hm (.pt pk) (deserializeSign (List.replicate 64 0)) = .reject := by
  have hv : Valid hm := hashToG1_onCurve m hm hh
  have hne : hm ≠ .inf := hashToG1_ne_identity m hm hh
  have hι : ι hm ≠ 0 := fun h0 => hne (ι_inj hm .inf hv ⟨rfl, rfl⟩ (by rw [h0]; rfl))
  have H := sign_is_honest e bil κ nd sk hsk hm hv pk hpk
  have hnz : sk • (curveInterp e bil κ nd).ι hm ≠ 0 := by
    intro h0
    exact hι (eq_zero_of_nsmul_of_prime r sk hr (ι hm) (hexp _) h0 hnd)
  have h1 := identity_rejected _ H hnz
  refine ⟨h1, ?_⟩
  have : deserializeSign (List.replicate 64 0) = .pt .inf := by decide
  rw [this]; exact h1

end pairing

end Rangers.Props.C14
