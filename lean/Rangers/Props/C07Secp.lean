import Rangers.Props.C07
import Rangers.Proofs.TxAuthSecp
/-!
# C07 — the secp256k1 layer as decision logic

`libRecover` / `libVerify` model libsecp256k1's `secp256k1_ext_ecdsa_recover` /
`secp256k1_ext_ecdsa_verify` down to the curve operations (parameters `recoverCore`,
`verifyCore`): scalar overflow (r, s ≥ N), zero components and the **low-s rule**
(`!secp256k1_scalar_is_high(&s)`) are modelled clauses, as are the recovery-id checks of the two
Go wrappers (`src/common/secp256k1`: 27..30 ↦ 0..3; `src/eth_crypto/secp256k1`: < 4).  So
the ECDSA twin `(r, N−s, v⊕1)` is rejected *by a theorem*, on both paths.
-/
namespace Rangers.Props.C07
open Rangers Rangers.Model.TxAuth

/-- What every accepted native signature satisfies, whatever the curve operations are:
    65 wire bytes, 1 ≤ r < N, 1 ≤ s ≤ N/2 (low-s), recovery id 0..3 or 27..30. -/
theorem native_accept_sig_range (cr : Crypto) (cfg : ChainCfg) (h : Nat) (tx : Tx)
    (hacc : verifyNative cr cfg h tx = .ok) :
    ∃ sg, tx.sign = some sg ∧ sg.bytes.length = 65 ∧
      (1 ≤ sg.r ∧ sg.r < secpN) ∧ (1 ≤ sg.s ∧ sg.s ≤ secpHalfN) := by
  obtain ⟨_, _, sg, pk, hs, hrec, hver, _⟩ := (native_accept_iff cr cfg h tx).1 hacc
  have hlen := recoverPubkey_len _ _ _ _ hrec
  obtain ⟨hr, hs', _⟩ := sign_components sg hlen
  obtain ⟨h1, h2, _⟩ := (libVerify_spec cr pk tx.hash _).1 hver
  rw [hr] at h1
  rw [hs'] at h2
  exact ⟨sg, hs, hlen, h1, h2⟩

/-- **Low-s rule, native path**: a signature with s > N/2 is rejected whatever it recovers to. -/
theorem native_high_s_rejected (cr : Crypto) (cfg : ChainCfg) (h : Nat) (tx : Tx) (sg : Sign)
    (hs : tx.sign = some sg) (hhigh : sg.s > secpHalfN) : verifyNative cr cfg h tx ≠ .ok := by
  intro hacc
  obtain ⟨sg', hs', _, _, h2⟩ := native_accept_sig_range cr cfg h tx hacc
  rw [hs] at hs'; cases hs'
  omega

/-- The ECDSA twin of an accepted signature — s replaced by N − s, with *any* r and any
    recovery byte — is rejected (this is the mutant the seeded regression C07-a lets through). -/
theorem sign_twin_rejected (cr : Crypto) (cfg : ChainCfg) (h : Nat) (tx : Tx) (sg sg' : Sign)
    (hs : tx.sign = some sg) (hacc : verifyNative cr cfg h tx = .ok) (htwin : sg'.s = secpN - sg.s) :
    verifyNative cr cfg h { tx with sign := some sg' } ≠ .ok := by
  obtain ⟨sg0, hs0, _, _, h2⟩ := native_accept_sig_range cr cfg h tx hacc
  rw [hs] at hs0; cases hs0
  apply native_high_s_rejected cr cfg h _ sg' rfl
  have : secpN - secpHalfN > secpHalfN := by decide
  omega

example : ∃ sg sg' : Sign, sg'.s = secpN - sg.s ∧ sg.s ≤ secpHalfN := ⟨⟨1, 1, 27⟩, ⟨1, secpN - 1, 28⟩, rfl, by decide⟩

/-- An accepted changed signature, sharpened: besides recovering a verifying key with the
    same address, the new signature itself is in range and low-s — so it is not the twin, and
    the only *modelled* freedom left is the spelling of the recovery id. -/
theorem sign_mutation_partial_lowS (cr : Crypto) (cfg : ChainCfg) (h : Nat) (tx : Tx) (sg' : Option Sign)
    (hacc : verifyNative cr cfg h tx = .ok)
    (hacc' : verifyNative cr cfg h { tx with sign := sg' } = .ok) :
    ∃ sg s', tx.sign = some sg ∧ sg' = some s' ∧
      (1 ≤ s'.r ∧ s'.r < secpN) ∧ (1 ≤ s'.s ∧ s'.s ≤ secpHalfN) ∧
      (s'.r = sg.r → s'.s = sg.s → s'.bytes.length = 65 ∧ sg.bytes.length = 65) := by
  obtain ⟨sg, hs, hl, _, _⟩ := native_accept_sig_range cr cfg h tx hacc
  obtain ⟨s', hs', hl', hr', hss'⟩ := native_accept_sig_range cr cfg h _ hacc'
  exact ⟨sg, s', hs, hs', hr', hss', fun _ _ => ⟨hl', hl⟩⟩

/-- What the EIP-155 / Homestead sender recovery requires of the payload's signature values. -/
theorem ethSender_sig_range (cr : Crypto) (c : Nat) (e : EthTx) (sender : Bytes)
    (h : ethSender cr c e = some sender) :
    (1 ≤ e.r ∧ e.r < secpN) ∧ (1 ≤ e.s ∧ e.s ≤ secpHalfN) := by
  have key : ∀ (sh : Bytes) (vb : Int), recoverPlain cr sh e.r e.s vb = some sender →
      (1 ≤ e.r ∧ e.r < secpN) ∧ (1 ≤ e.s ∧ e.s ≤ secpHalfN) := by
    intro sh vb hrp
    by_cases c1 : vb.natAbs ≥ 256
    · exact absurd hrp (by simp [recoverPlain, c1])
    · by_cases c2 : e.r < 1 ∨ e.s < 1
      · exact absurd hrp (by simp only [recoverPlain, c1, c2, ↓reduceIte]; simp)
      · by_cases c3 : e.s > secpHalfN
        · exact absurd hrp (by simp only [recoverPlain, c1, c2, c3, ↓reduceIte]; simp)
        · by_cases c4 : e.r < secpN
          · exact ⟨⟨by omega, c4⟩, by omega, by omega⟩
          · exact absurd hrp (by simp only [recoverPlain, c1, c2, c3, c4, ↓reduceIte, false_and, not_false_eq_true]; simp)
  unfold ethSender at h
  by_cases hp : isProtectedV e.v = true
  · simp only [hp, not_true_eq_false, ↓reduceIte] at h
    by_cases hc : deriveChainId e.v = c
    · simp only [hc, ne_eq, not_true_eq_false, ↓reduceIte] at h
      exact key _ _ h
    · simp [hc] at h
  · simp only [hp] at h
    exact key _ _ h

/-- **Low-s rule, ETH path**: an accepted wrapped transaction carries 1 ≤ r < N and
    1 ≤ s ≤ N/2; hence the twin payload (s ↦ N − s, any v) is rejected. -/
theorem eth_accept_sig_range (cr : Crypto) (cfg : ChainCfg) (h : Nat) (tx : Tx)
    (hacc : verifyEth cr cfg h tx = .ok) :
    ∃ e, decodeTx (fromHex tx.extraData) = some e ∧
      (1 ≤ e.r ∧ e.r < secpN) ∧ (1 ≤ e.s ∧ e.s ≤ secpHalfN) := by
  obtain ⟨e, s, hd, _, hs, _⟩ := (eth_accept_iff cr cfg h tx).1 hacc
  exact ⟨e, hd, ethSender_sig_range cr _ e s hs⟩

theorem eth_twin_rejected (cr : Crypto) (cfg : ChainCfg) (h : Nat) (tx tx' : Tx) (e e' : EthTx)
    (hacc : verifyEth cr cfg h tx = .ok)
    (hd : decodeTx (fromHex tx.extraData) = some e) (hd' : decodeTx (fromHex tx'.extraData) = some e')
    (htwin : e'.s = secpN - e.s) : verifyEth cr cfg h tx' ≠ .ok := by
  intro hacc'
  obtain ⟨e0, hd0, _, h2⟩ := eth_accept_sig_range cr cfg h tx hacc
  obtain ⟨e1, hd1, _, h3⟩ := eth_accept_sig_range cr cfg h tx' hacc'
  rw [hd] at hd0; cases hd0
  rw [hd'] at hd1; cases hd1
  have : secpN - secpHalfN > secpHalfN := by decide
  omega

end Rangers.Props.C07
