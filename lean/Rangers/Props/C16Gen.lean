import Rangers.Basic.Hex
import Rangers.Model.Vrf
import Rangers.Model.Qn
import Rangers.Generated.C16Facts
import Rangers.Generated.C16Sites
/-!
Property C16, part 4 (T-gen): facts re-extracted from the go-rangers source on every run
must match what the model hard-wires. A changed constant, a re-ordered or added call in
`ECVRFVerify` / `ECVRFProve` / `validateProve` / `calQn` / `verifyBlockVRF`, or a new
unpadded call site of `VRFProof2Hash` / `decodeProof` breaks one of these obligations.
-/
namespace Rangers.Props.C16Gen
open Rangers Rangers.Model Rangers.Generated

/-- proof layout: `ProveSize = N2 + N + N2 = 80`, as sliced by the model -/
theorem layout_matches_model :
    C16Facts.proveSize = Vrf.proveSize ∧ C16Facts.n2 = Vrf.gammaSize ∧ C16Facts.n = Vrf.cSize ∧
    C16Facts.n2 = Vrf.sSize ∧ C16Facts.proveSize = C16Facts.n2 + C16Facts.n + C16Facts.n2 := by decide

/-- domain-separation bytes of `hashToCurve` / `hashPoints` -/
theorem suite_bytes_match_model :
    C16Facts.suiteHex.map ofHex? = [some VrfCurve.suite, some [0x01], some [0x02]] := by decide

/-- the denominator of `calcVrfValueRatio` is 2^256 − 1 -/
theorem max256_matches_model :
    (ofHex? C16Facts.max256Hex).map beToNat = some Qn.max256 := by decide +kernel

/-- the live parameters are inside the scope of `qn_range_partial` and make the stake
    ratio's numerator non-zero whenever difficulty ≥ 1 -/
theorem params_in_scope :
    0 < C16Facts.maxQN ∧ C16Facts.maxQN < 2 ^ 52 ∧ 0 < C16Facts.potentialProposal ∧
    C16Facts.potentialProposal ≤ C16Facts.potentialProposalMax := by decide

/-- `ECVRFVerify`: pad, decode, reduce s, H, Y, U = sB − cY, V = sH − cΓ, hash — in this order -/
theorem verify_call_order :
    C16Sites.verifyCalls =
      ["tryZeroPadding", "decodeProof", "edwards25519.ScReduce", "hashToCurve", "hPoint.FromBytes",
       "yPoint.FromBytes", "edwards25519.GeScalarMult", "temp3Point.ToCached",
       "edwards25519.GeScalarMultBase", "edwards25519.GeSub", "tempP1Point.ToExtended",
       "edwards25519.GeScalarMult", "temp3Point.ToCached", "edwards25519.GeScalarMult",
       "edwards25519.GeSub", "tempP1Point.ToExtended", "hashPoints"] := by decide

theorem prove_call_order :
    C16Sites.proveCalls =
      ["stringToPoint", "expandSecret", "hashToCurve", "hPoint.FromBytes", "edwards25519.GeScalarMult",
       "vrfNonceGeneration", "edwards25519.GeScalarMultBase", "kBPoint.ToBytes",
       "edwards25519.GeScalarMult", "kHPoint.ToBytes", "hashPoints", "gamma.ToBytes",
       "edwards25519.ScMulAdd", "buf.Write", "buf.Write", "buf.Write", "buf.Bytes"] := by decide

theorem decode_call_order :
    C16Sites.decodeProofCalls = ["stringToPoint"] ∧
    C16Sites.stringToPointCalls = ["isCanonical", "point.FromBytes"] ∧
    C16Sites.hashToCurveCalls =
      ["sha512.New", "hash.Write", "hash.Write", "hash.Write", "hash.Write", "hash.Sum", "fromUniform"] := by
  decide

/-- `validateProve`: pad, value ratio, stake ratio, compare, THEN `calQn` (which caps the
    ratio in place — after the comparison) -/
theorem validate_call_order :
    C16Sites.validateProveCalls =
      ["tryZeroPadding", "calcVrfValueRatio", "common.GetRewardBlocks", "calcStakeRatio",
       "vrfValueRatio.Cmp", "calQn"] ∧
    C16Sites.calQnCalls = ["stakeRatio.Cmp", "stakeRatio.Set", "SetInt64", "Quo", "Float64", "Quo", "math.Floor"] ∧
    C16Sites.calcStakeRatioCalls = ["SetInt64", "calcPotentialProposal", "SetFloat64", "Quo"] := by decide

/-- `verifyBlockVRF`: proof bytes from the header's big integer, VRF verify, then the rule -/
theorem header_check_call_order :
    C16Sites.verifyBlockVRFCalls =
      ["vrf.VRFProve", "bh.ProveValue.Bytes", "CalDeltaByTime", "vrf.VRFVerify", "genVrfMsg", "validateProve"] := by
  decide

/-- Every place that slices a proof (`VRFProof2Hash`, `decodeProof`, `calcVrfValueRatio`)
    is reached only with a proof padded to `ProveSize` in the same function — except
    `calcVrfValueRatio` itself, whose only caller (`validateProve`) is in the list and pads. -/
theorem slice_sites_padded :
    C16Sites.sliceSites.all (fun s => s.2.2.2 || (s.2.1 == "calcVrfValueRatio")) = true ∧
    C16Sites.sliceSites.any (fun s => s.2.1 == "validateProve" && s.2.2.1 == "calcVrfValueRatio" && s.2.2.2) = true ∧
    (C16Sites.sliceSites.filter (fun s => s.2.2.1 == "calcVrfValueRatio")).length = 1 := by decide

/-- No function of `common/ed25519/vrf.go`, `consensus/logical/vrf_with_stake.go`,
    `consensus/vrf/vrf.go` (other than `init`) writes package-level state, as far as go/ast can
    tell: no assignment to / into a package-level variable, no `&v`, no `append`/`copy` into its
    backing array, no mutating method on a package-level receiver or on a local alias of one
    (`rat1`, `max256`, `suite`, `one`, `two` are only read). This is what makes "deterministic
    function of its inputs" independent of call history and of concurrent callers. -/
theorem no_package_state_writes : C16Sites.stateWrites = [] := by decide

/-- The only configuration / fork-schedule reads on the VRF path are the two in `validateProve`
    (`Proposal025Block + GetRewardBlocks()`, the model's `threshold` input). A new `IsProposalNNN()` /
    config branch on the path breaks this obligation (and must then enter the model as an input). -/
theorem config_reads_pinned :
    C16Sites.configReads =
      ["vrf_with_stake.go:validateProve:common.LocalChainConfig.Proposal025Block",
       "vrf_with_stake.go:validateProve:common.GetRewardBlocks"] := by decide

/-- The consensus-side VRF functions never write through a parameter (caller-owned header fields / byte
    slices), with the single recorded exception that `calQn` caps its `stakeRatio` argument in place (a fresh
    `*big.Rat` made by its only caller). In particular `genVrfMsg` does not write into `random`
    (= the parent header's `Random`). go/ast, aliases followed through `x := p`, `x = p[:k]`, `x = append(x, …)`. -/
theorem param_writes_pinned :
    C16Sites.paramWrites =
      [("vrf_with_stake.go", "calQn", "calls stakeRatio.Set (receiver is a parameter)")] := by decide

/-- The slot count is derived from the block's time and the PARENT's time on both sides (never from the
    header's own, unchecked `PreTime` field). -/
theorem slot_times_pinned :
    C16Sites.calDeltaCallArgs =
      ["verifyBlockVRF(bh.CurTime, preBH.CurTime)", "genProve(castTime, vrfWorker.baseBH.CurTime)"] := by decide

end Rangers.Props.C16Gen
