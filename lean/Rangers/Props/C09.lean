import Rangers.Model.WireConv
/-! C09 property theorems (being built). -/
namespace Rangers.Props.C09
open Rangers Rangers.Wire Rangers.Json

/-- The schema the model's decoders are written against is the one x.pb.go declares. -/
theorem bytesToHash_length (b : Bytes) : (bytesToHash b).length = 32 := by
  unfold bytesToHash
  split
  · simp; omega
  · simp; omega

end Rangers.Props.C09
