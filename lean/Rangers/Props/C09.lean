import Rangers.Proofs.C09Msgs
/-!
# C09 — block/header/transaction/group wire codecs are lossless and total

Property theorems about the model the driver `drv_c09` executes (`Model/Wire.lean`,
`Model/WireConv.lean`, `Model/Json.lean`). Part 1: ties to the source (T-gen) and totality.
-/
namespace Rangers.Props.C09
open Rangers Rangers.Wire Rangers.Json

/-! ## T-gen obligations: facts regenerated from the working tree on every run -/

/-- The schema the model's decoders and encoders are written against (field numbers and wire kinds
    used in `txOfRaws`, `headerOfRaws`, … ) is exactly what the struct tags of x.pb.go declare. -/
def modelSchema : List (Nat × Nat × Nat × Nat) := [
  (1, 1, 2, 0), (1, 2, 0, 0), (1, 3, 2, 0), (1, 4, 2, 0), (1, 5, 0, 1), (1, 6, 2, 0), (1, 7, 2, 0),
  (1, 8, 0, 0), (1, 9, 2, 0), (1, 10, 2, 0), (1, 11, 0, 0), (1, 12, 2, 0), (1, 13, 2, 0), (1, 14, 2, 0),
  (1, 15, 2, 0),
  (2, 1, 2, 2),
  (3, 1, 2, 0), (3, 2, 0, 0), (3, 3, 2, 0), (3, 4, 2, 0), (3, 5, 2, 0), (3, 6, 0, 0), (3, 7, 2, 0),
  (3, 8, 2, 0), (3, 9, 2, 0), (3, 10, 2, 0), (3, 11, 0, 0), (3, 12, 2, 2), (3, 13, 2, 0), (3, 14, 2, 0),
  (3, 15, 2, 0), (3, 16, 2, 0), (3, 17, 2, 0), (3, 18, 2, 0), (3, 19, 2, 0), (3, 20, 2, 0),
  (4, 1, 2, 0), (4, 2, 2, 0),
  (5, 1, 2, 1), (5, 2, 2, 2),
  (6, 1, 2, 0), (6, 2, 2, 0), (6, 3, 2, 0), (6, 4, 2, 0), (6, 5, 2, 0), (6, 6, 2, 1), (6, 7, 0, 1),
  (6, 8, 2, 0),
  (7, 1, 2, 1), (7, 2, 2, 0), (7, 3, 2, 0), (7, 4, 2, 0), (7, 5, 2, 2), (7, 6, 0, 0),
  (8, 1, 2, 2),
  (9, 1, 2, 1), (9, 2, 2, 1)]

theorem schema_matches_source : Generated.C09.protoSchema = modelSchema := by decide

/-- Every pointer dereference the translator found in serialization.go is one the model knows
    (a converter it models, a field of that converter's message). A dereference added anywhere
    else in the file shows up as `fn = 9` or `field = 0` and breaks this obligation. -/
def knownSite (s : Generated.C09.DerefSite) : Bool :=
  (s.fn == 1 && [1, 2, 4, 5, 8, 10, 11, 12, 15].contains s.field) ||
  (s.fn == 2 && [2, 6, 11].contains s.field) ||
  (s.fn == 3 && [7, 8].contains s.field) ||
  (s.fn == 4 && [6].contains s.field)

theorem sites_known : Generated.C09.derefSites.all knownSite = true := by decide

/-- No dereference of an optional field is left unguarded in the source. -/
theorem sites_guarded :
    Generated.C09.derefSites.all (fun s => s.guarded || s.required) = true := by decide

/-- The parsers report a header whose times do not decode as an error. -/
theorem nil_header_is_error :
    Generated.C09.headerNilIsError = true ∧ Generated.C09.blockNilHeaderIsError = true := by decide

/-- The model treats every `Marshal*` / `UnMarshal*` / converter as a pure function of its argument
    (a marshal result is a value, not a view of a buffer another call rewrites). The source agrees:
    no function of serialization.go touches a package-level variable other than the logger. -/
theorem codec_is_stateless : Generated.C09.sharedStateRefs = 0 := by decide

/-! ## parse_total: parsing arbitrary bytes yields an object or an error, never a panic, never (nil, nil) -/

def IsObjOrErr {α : Type} : Outcome α → Prop
  | .ok _ => True
  | .err => True
  | .nilObj => False
  | .panic _ => False

theorem derefNat_safe (fn field : Nat) (h : siteSafe fn field = true) (o : Option Nat) :
    derefNat fn field o = .ok (o.getD 0) := by
  cases o <;> simp [derefNat, h]

theorem derefStr_safe (fn field : Nat) (h : siteSafe fn field = true) (o : Option Bytes) :
    derefStr fn field o = .ok (o.getD []) := by
  cases o <;> simp [derefStr, h]

theorem derefNat_some (fn field v : Nat) : derefNat fn field (some v) = .ok v := rfl

/-- The converter itself is total on every protobuf struct (all optional fields may be absent). -/
theorem pbToTx_total (p : PbTx) : ∃ t, pbToTx p = .ok t := by
  simp only [pbToTx,
    derefStr_safe 1 1 (by decide), derefNat_safe 1 2 (by decide), derefNat_safe 1 11 (by decide),
    derefStr_safe 1 4 (by decide), derefNat_safe 1 8 (by decide), derefStr_safe 1 10 (by decide),
    derefStr_safe 1 12 (by decide), derefStr_safe 1 15 (by decide)]
  cases hty : p.type with
  | some v => simp only [derefNat_some]; exact ⟨_, rfl⟩
  | none =>
    -- `Type` is a required field: the dereference stays, but see `parse_total_tx`
    by_cases hs : siteSafe 1 5 = true
    · simp only [derefNat, hs, if_true]; exact ⟨_, rfl⟩
    · exact absurd (by decide : siteSafe 1 5 = true) hs

theorem pbToTxs_total (ps : List PbTx) : ∃ ts, pbToTxs ps = .ok ts := by
  induction ps with
  | nil => exact ⟨[], rfl⟩
  | cons p ps ih =>
    obtain ⟨t, ht⟩ := pbToTx_total p
    obtain ⟨ts, hts⟩ := ih
    exact ⟨t :: ts, by simp only [pbToTxs, ht, hts]⟩

theorem parse_total_tx (bs : Bytes) : IsObjOrErr (unmarshalTx bs) := by
  unfold unmarshalTx
  cases decTx bs with
  | none => trivial
  | some p => obtain ⟨t, ht⟩ := pbToTx_total p; simp only [ht]; trivial

theorem parse_total_txs (bs : Bytes) : IsObjOrErr (unmarshalTxs bs) := by
  unfold unmarshalTxs
  cases decTxSlice bs with
  | none => trivial
  | some ps => obtain ⟨ts, hts⟩ := pbToTxs_total ps; simp only [hts]; trivial

theorem pbToHeader_ok_or_nil (p : PbHeader) : (∃ h, pbToHeader p = .ok h) ∨ pbToHeader p = .nilObj := by
  simp only [pbToHeader, derefNat_safe 2 2 (by decide), derefNat_safe 2 11 (by decide),
    derefNat_safe 2 6 (by decide)]
  cases binToTime (p.preTime.getD []) with
  | none => exact Or.inr rfl
  | some pt =>
    cases binToTime (p.curTime.getD []) with
    | none => exact Or.inr rfl
    | some ct => exact Or.inl ⟨_, rfl⟩

theorem parse_total_header (bs : Bytes) : IsObjOrErr (unmarshalHeader bs) := by
  unfold unmarshalHeader
  cases decHeader bs with
  | none => trivial
  | some p =>
    rcases pbToHeader_ok_or_nil p with ⟨h, hh⟩ | hn
    · simp only [hh]; trivial
    · simp only [hn, nil_header_is_error.1, if_true]; trivial

/-- A parsed block is an error or an object *with* a header (what `newBlockHandler` dereferences). -/
theorem parse_total_block (bs : Bytes) :
    IsObjOrErr (unmarshalBlock bs) ∧ ∀ b, unmarshalBlock bs = .ok b → b.header.isSome = true := by
  unfold unmarshalBlock
  cases decBlock bs with
  | none => exact ⟨trivial, fun b h => by cases h⟩
  | some p =>
    obtain ⟨ts, hts⟩ := pbToTxs_total p.transactions
    have hb : Generated.C09.blockNilHeaderIsError = true := nil_header_is_error.2
    cases hph : p.header with
    | none =>
      simp only [pbToBlock, hph, hb]
      exact ⟨trivial, fun b h => by cases h⟩
    | some ph =>
      rcases pbToHeader_ok_or_nil ph with ⟨h, hh⟩ | hn
      · simp only [pbToBlock, hph, hh, hts, hb]
        exact ⟨trivial, fun b h => by cases h; rfl⟩
      · simp only [pbToBlock, hph, hn, hts, hb]
        exact ⟨trivial, fun b h => by cases h⟩

/-- `Header` is a required field of `Group`: after a successful Unmarshal it is present, so the
    unchecked `PbToGroupHeader(g.Header)` is never entered with nil. -/
theorem decGroup_header_some (bs : Bytes) (p : PbGroup) (h : decGroup bs = some p) :
    ∃ g, p.header = some g := by
  unfold decGroup at h
  cases hr : parseRaw bs with
  | none => simp [hr] at h
  | some rs =>
    simp only [hr] at h
    split at h
    · cases hm : mergedChunks groupHeaderReq (allLen 1 rs) with
      | none => simp [hm] at h
      | some hrs =>
        simp only [hm, Option.some.injEq] at h
        subst h
        exact ⟨_, rfl⟩
    · cases h

theorem parse_total_group (bs : Bytes) : IsObjOrErr (unmarshalGroup bs) := by
  unfold unmarshalGroup
  cases hd : decGroup bs with
  | none => trivial
  | some p =>
    obtain ⟨g, hg⟩ := decGroup_header_some bs p hd
    simp only [pbToGroup, hg, pbToGroupHeader, derefNat_safe 3 7 (by decide), derefStr_safe 3 8 (by decide),
      derefNat_safe 4 6 (by decide)]
    trivial

/-- Non-vacuity: the DESIGN lead inputs are errors or objects in the model (they were panics
    before the nil-safe getters), and a well-formed message is an object. -/
example : (match unmarshalTx [0x28, 0x01] with
    | .ok t => t.type == 1 && t.nonce == 0 && t.chainId == [] && t.hash == List.replicate 32 0
    | _ => false) = true := by decide
example : unmarshalHeader [] = .err := by decide
example : unmarshalBlock [0x0a, 0x00] = .err := by decide

end Rangers.Props.C09
