import Rangers.Proofs.Evm10Step
import Rangers.Proofs.Evm10NoPanic
/-!
# C10, part 2 — jump destinations, program counter, the jump table

* `bitmap_exact` : the transcribed `codeBitmap` marks exactly the PUSH-data positions
  (specification side `InPushData`, decoding from position 0, in `Proofs/Evm10Bitmap.lean`).
* `validJumpdest_iff`, `jump_lands_on_jumpdest`, `jumpi_lands_on_jumpdest`,
  `jump_elsewhere_fails` : a JUMP/JUMPI that continues lands on a 0x5b byte outside PUSH data,
  every other destination is `ErrInvalidJump`.
* `step_keeps_code`, `pc_spec` : code/analysis/calldata never change, the pc of a non-jump
  instruction advances by 1 + its PUSH-data width.
* `table_ops_bound` : every computational opcode slot of every generated jump table (8 fork
  configurations) names the transcribed function the Yellow Paper / EIPs assign to that byte,
  with the stack demand δ/α and flags of the specification.
-/
namespace Rangers.Props.C10
open Rangers Rangers.Model.Evm10 Rangers.Model.Evm10.U256 Rangers.Proofs.Evm10
open Rangers.Generated.Evm10

theorem bitmap_exact (code : Bytes) (i : Nat) :
    Bitvec.codeSegment (Bitvec.codeBitmap code) i = true ↔ ¬ InPushData code i :=
  codeSegment_codeBitmap code i

example : InPushData [0x60, 0x5b, 0x5b] 1 :=
  ⟨0, Boundary.zero, by decide, by decide, by decide⟩

example : ¬ InPushData [0x60, 0x5b, 0x5b] 2 := by
  rw [← bitmap_exact]; decide

/-- A frame as the interpreter builds it: the analysis is that of its code; code length is a Go
slice length (below 2^63). -/
def FrameWF (f : Frame) : Prop := f.bitmap = Bitvec.codeBitmap f.code ∧ f.code.length < 2 ^ 64

example : FrameWF (Frame.init [0x60, 0x5b, 0x5b] [] 100) := ⟨rfl, by decide⟩

theorem init_wf (code input : Bytes) (gas : Nat) (h : code.length < 2 ^ 64) :
    FrameWF (Frame.init code input gas) := ⟨rfl, h⟩

/-- `validJumpdest` accepts exactly: inside the code, a JUMPDEST byte, not PUSH data. -/
theorem validJumpdest_iff (f : Frame) (hwf : FrameWF f) (dest : Word) :
    validJumpdest f dest = true ↔
      dest.toNat < f.code.length ∧ f.code.getD dest.toNat 0 = 0x5b ∧ ¬ InPushData f.code dest.toNat := by
  obtain ⟨hb, hl⟩ := hwf
  unfold validJumpdest uint64WithOverflow
  by_cases hu : isUint64 dest = true
  · have hlo : lo64 dest = dest.toNat := lo64_of_isUint64 dest hu
    simp only [hu, hlo, Bool.not_true, Bool.false_or, decide_eq_true_eq]
    by_cases hlt : dest.toNat < f.code.length
    · have : ¬ dest.toNat ≥ f.code.length := by omega
      simp only [this, if_false, hlt, true_and]
      by_cases h5 : f.code.getD dest.toNat 0 = 0x5b
      · simp only [h5, bne_self_eq_false, Bool.false_eq_true, if_false, true_and]
        rw [hb, bitmap_exact]
      · have : (f.code.getD dest.toNat 0 != 0x5b) = true := by
          rw [bne_iff_ne]; exact h5
        simp only [this, if_true, Bool.false_eq_true, false_iff]
        intro h; exact h5 h.1
    · have : dest.toNat ≥ f.code.length := by omega
      simp [this, hlt]
  · have hge : ¬ dest.toNat < 2 ^ 64 := by simpa [isUint64] using hu
    have : ¬ dest.toNat < f.code.length := by omega
    simp [hu, this]

/-- JUMP at `execute` level: valid destination → pc := destination, else `ErrInvalidJump`. -/
theorem jump_exec (H : Bytes → Bytes) (f : Frame) (dest : Word) (rest : List Word)
    (hst : f.stack = dest :: rest) :
    execOp H .opJump f =
      if validJumpdest f dest then .ok { f with stack := rest, pc := dest.toNat } []
      else .err .invalidJump := by
  simp only [execOp, hst]
  by_cases hv : validJumpdest f dest = true
  · have hu : isUint64 dest = true := by
      unfold validJumpdest uint64WithOverflow at hv
      by_cases hu : isUint64 dest = true
      · exact hu
      · simp [hu] at hv
    simp [hv, lo64_of_isUint64 dest hu]
  · simp [hv]

/-- JUMPI at `execute` level. -/
theorem jumpi_exec (H : Bytes → Bytes) (f : Frame) (dest cond : Word) (rest : List Word)
    (hst : f.stack = dest :: cond :: rest) :
    execOp H .opJumpi f =
      if cond.toNat = 0 then .ok { f with stack := rest, pc := f.pc + 1 } []
      else if validJumpdest f dest then .ok { f with stack := rest, pc := dest.toNat } []
      else .err .invalidJump := by
  simp only [execOp, hst]
  by_cases hc : cond.toNat = 0
  · have : isZero cond = true := (isZero_iff_toNat cond).2 hc
    simp [this, hc]
  · have : isZero cond = false := by
      cases h : isZero cond
      · rfl
      · exact absurd ((isZero_iff_toNat cond).1 h) hc
    simp only [this, Bool.not_false, if_true, hc, if_false]
    by_cases hv : validJumpdest f dest = true
    · have hu : isUint64 dest = true := by
        unfold validJumpdest uint64WithOverflow at hv
        by_cases hu : isUint64 dest = true
        · exact hu
        · simp [hu] at hv
      simp [hv, lo64_of_isUint64 dest hu]
    · simp [hv]

theorem preExec_wf {f : Frame} (hwf : FrameWF f) (g l m : Nat) : FrameWF (preExec f g l m) := hwf

/-- **A JUMP that continues lands on a real JUMPDEST outside PUSH data** — stated about the
interpreter step, for any jump table whose current slot runs `opJump` with the `jumps` flag. -/
theorem jump_lands_on_jumpdest (H : Bytes → Bytes) (t : Table) (p : GasParams) (f f' : Frame)
    (hwf : FrameWF f) (info : OpInfo) (hget : t.get (getOp f.code f.pc) = some info)
    (hexec : info.exec = .opJump) (hflag : info.jumps = true)
    (hs : step H t p f = .next f') :
    ∃ dest rest, f.stack = dest :: rest ∧ f'.stack = rest ∧ f'.pc = dest.toNat ∧
      f'.pc < f.code.length ∧ f.code.getD f'.pc 0 = 0x5b ∧ ¬ InPushData f.code f'.pc := by
  obtain ⟨info', gas2, last, ms, f1, res, hget', hmin, _, _, hex, hf'⟩ := step_next_decomp hs
  rw [hget] at hget'
  have : info' = info := by simpa using hget'.symm
  subst this
  rw [hexec] at hex
  cases hst : f.stack with
  | nil => simp [execOp, preExec, hst] at hex
  | cons dest rest =>
    have hst' : (preExec f gas2 last ms).stack = dest :: rest := hst
    rw [jump_exec H _ dest rest hst'] at hex
    by_cases hv : validJumpdest (preExec f gas2 last ms) dest = true
    · simp only [hv, if_true, ExecResult.ok.injEq] at hex
      obtain ⟨h1, _⟩ := hex
      have hpc : f'.pc = dest.toNat := by
        rw [hf', postExec, hflag, ← h1]; simp; split <;> rfl
      have hstk : f'.stack = rest := by
        rw [hf', postExec, hflag, ← h1]; simp; split <;> rfl
      obtain ⟨a, b, c⟩ := (validJumpdest_iff _ (preExec_wf hwf gas2 last ms) dest).1 hv
      exact ⟨dest, rest, rfl, hstk, hpc, by rw [hpc]; exact a, by rw [hpc]; exact b, by rw [hpc]; exact c⟩
    · simp [hv] at hex

/-- **JUMPI**: with a zero condition the pc advances by one, otherwise as for JUMP. -/
theorem jumpi_lands_on_jumpdest (H : Bytes → Bytes) (t : Table) (p : GasParams) (f f' : Frame)
    (hwf : FrameWF f) (info : OpInfo) (hget : t.get (getOp f.code f.pc) = some info)
    (hexec : info.exec = .opJumpi) (hflag : info.jumps = true)
    (hs : step H t p f = .next f') :
    ∃ dest cond rest, f.stack = dest :: cond :: rest ∧ f'.stack = rest ∧
      (if cond.toNat = 0 then f'.pc = f.pc + 1
       else f'.pc = dest.toNat ∧ f'.pc < f.code.length ∧ f.code.getD f'.pc 0 = 0x5b ∧
            ¬ InPushData f.code f'.pc) := by
  obtain ⟨info', gas2, last, ms, f1, res, hget', hmin, _, _, hex, hf'⟩ := step_next_decomp hs
  rw [hget] at hget'
  have : info' = info := by simpa using hget'.symm
  subst this
  rw [hexec] at hex
  cases hst : f.stack with
  | nil => simp [execOp, preExec, hst] at hex
  | cons dest tl =>
    cases htl : tl with
    | nil => subst htl; simp [execOp, preExec, hst] at hex
    | cons cond rest =>
      subst htl
      have hst' : (preExec f gas2 last ms).stack = dest :: cond :: rest := hst
      rw [jumpi_exec H _ dest cond rest hst'] at hex
      refine ⟨dest, cond, rest, rfl, ?_, ?_⟩
      · by_cases hc : cond.toNat = 0
        · simp only [hc, if_true, ExecResult.ok.injEq] at hex
          rw [hf', postExec, hflag, ← hex.1]; simp; split <;> rfl
        · simp only [hc, if_false] at hex
          by_cases hv : validJumpdest (preExec f gas2 last ms) dest = true
          · simp only [hv, if_true, ExecResult.ok.injEq] at hex
            rw [hf', postExec, hflag, ← hex.1]; simp; split <;> rfl
          · simp [hv] at hex
      · by_cases hc : cond.toNat = 0
        · simp only [hc, if_true, ExecResult.ok.injEq] at hex ⊢
          rw [hf', postExec, hflag, ← hex.1]; simp [preExec]; split <;> rfl
        · simp only [hc, if_false] at hex ⊢
          by_cases hv : validJumpdest (preExec f gas2 last ms) dest = true
          · simp only [hv, if_true, ExecResult.ok.injEq] at hex
            have hpc : f'.pc = dest.toNat := by
              rw [hf', postExec, hflag, ← hex.1]; simp; split <;> rfl
            obtain ⟨a, b, c⟩ := (validJumpdest_iff _ (preExec_wf hwf gas2 last ms) dest).1 hv
            exact ⟨hpc, by rw [hpc]; exact a, by rw [hpc]; exact b, by rw [hpc]; exact c⟩
          · simp [hv] at hex

/-- **Every other destination is `ErrInvalidJump`**: if the destination is outside the code, not a
0x5b byte, or inside PUSH data, `execute` of JUMP (and of JUMPI with a non-zero condition)
returns the error and nothing else. -/
theorem jump_elsewhere_fails (H : Bytes → Bytes) (f : Frame) (hwf : FrameWF f)
    (dest cond : Word) (rest : List Word)
    (hbad : ¬ (dest.toNat < f.code.length ∧ f.code.getD dest.toNat 0 = 0x5b ∧
               ¬ InPushData f.code dest.toNat)) :
    (f.stack = dest :: rest → execOp H .opJump f = .err .invalidJump) ∧
    (f.stack = dest :: cond :: rest → cond.toNat ≠ 0 → execOp H .opJumpi f = .err .invalidJump) := by
  have hv : ¬ validJumpdest f dest = true := fun h => hbad ((validJumpdest_iff f hwf dest).1 h)
  constructor
  · intro hst; rw [jump_exec H f dest rest hst]; simp [hv]
  · intro hst hc; rw [jumpi_exec H f dest cond rest hst]; simp [hc, hv]

example : ¬ ((3 : Word).toNat < ([0x60, 0x5b, 0x5b] : Bytes).length ∧
    ([0x60, 0x5b, 0x5b] : Bytes).getD (3 : Word).toNat 0 = 0x5b ∧
    ¬ InPushData [0x60, 0x5b, 0x5b] (3 : Word).toNat) := by
  intro h; exact absurd h.1 (by decide)

/-- Code, its analysis and the call data never change; gas only through the loop. -/
theorem step_keeps_code (H : Bytes → Bytes) (t : Table) (p : GasParams) (f f' : Frame)
    (hs : step H t p f = .next f') :
    f'.code = f.code ∧ f'.bitmap = f.bitmap ∧ f'.input = f.input := by
  obtain ⟨info, gas2, last, ms, f1, res, _, _, _, _, hex, hf'⟩ := step_next_decomp hs
  obtain ⟨a, b, c, _⟩ := execOp_frame hex
  subst hf'
  unfold postExec
  simp only [preExec] at a b c
  refine ⟨?_, ?_, ?_⟩ <;> (split <;> split <;> simp_all)

theorem step_keeps_wf (H : Bytes → Bytes) (t : Table) (p : GasParams) (f f' : Frame)
    (hwf : FrameWF f) (hs : step H t p f = .next f') : FrameWF f' := by
  obtain ⟨a, b, _⟩ := step_keeps_code H t p f f' hs
  unfold FrameWF at *
  rw [a, b]; exact hwf

/-- **pc**: an instruction whose slot is not flagged `jumps` and is not JUMP/JUMPI moves the pc
forward by one plus the width of its PUSH data (`pushWidth`: n for PUSHn, 0 otherwise). -/
theorem pc_spec (H : Bytes → Bytes) (t : Table) (p : GasParams) (f f' : Frame) (info : OpInfo)
    (hget : t.get (getOp f.code f.pc) = some info) (hj : info.jumps = false)
    (h1 : info.exec ≠ .opJump) (h2 : info.exec ≠ .opJumpi)
    (hs : step H t p f = .next f') :
    f'.pc = f.pc + 1 + pushWidth info.exec := by
  obtain ⟨info', gas2, last, ms, f1, res, hget', _, _, _, hex, hf'⟩ := step_next_decomp hs
  rw [hget] at hget'
  have : info' = info := by simpa using hget'.symm
  subst this
  obtain ⟨_, _, _, _, _, _, hpc⟩ := execOp_frame hex
  have := hpc h1 h2
  subst hf'
  unfold postExec
  simp only [hj, Bool.not_false, if_true]
  split <;> simp_all [preExec] <;> omega



/-! ## Memory is resized before `execute`; no Go panic branch is reachable -/

/-- **Memory resize law** (interpreter.go: `memorySize = toWordSize(memSize)*32`, `mem.Resize`):
the memory `execute` sees is the old memory grown to the word-rounded requested size — at least
the requested size, less than one word more, a multiple of 32. -/
theorem mem_resize_before_exec (f : Frame) (gas2 last ms sz : Nat)
    (h : safeMul (toWordSize sz) 32 = (ms, false)) :
    (preExec f gas2 last ms).mem.length = max f.mem.length ms ∧
    sz ≤ ms ∧ ms < sz + 32 ∧ ms % 32 = 0 ∧
    (preExec f gas2 last ms).mem.take f.mem.length = f.mem := by
  obtain ⟨h1, h2⟩ := safeMul_words h
  have h3 : ms < sz + 32 := by
    unfold safeMul toWordSize maxUint64 at h
    simp only [Prod.mk.injEq, decide_eq_false_iff_not] at h
    obtain ⟨a, b⟩ := h
    split at a <;> omega
  refine ⟨?_, h1, h3, h2, ?_⟩
  · simp only [preExec]
    split
    · exact resize_length _ _
    · omega
  · simp only [preExec]
    split
    · unfold Mem.resize; split <;> simp
    · simp

example : safeMul (toWordSize 33) 32 = (64, false) := by decide

/-- the size requested for an access `[off, off+len)` with `len > 0` is exactly `off + len`
(no uint64 wrap-around when the overflow flag is clear) -/
theorem memsize_is_touched_end (off l : Word) (sz : Nat) (hl : lo64 l ≠ 0)
    (h : calcMemSize64 off l = (sz, false)) :
    lo64 off + lo64 l = sz ∧ sz < 2 ^ 64 ∧ isUint64 off = true :=
  calc_two hl h

example : calcMemSize64 (32 : Word) (5 : Word) = (37, false) := by decide

/-- Full statement: under a consistent table NO step reaches a Go run-time panic (an empty-stack
pop, a slice or index outside memory, the explicit `panic` in `Memory.Set`/`Set32`, the
`returnData[offset64:end64]` slice). -/
def FullStatementNoPanic : Prop :=
  ∀ (H : Bytes → Bytes) (t : Table) (p : GasParams) (f : Frame),
    tableOK t = true → step H t p f ≠ .fail .goPanic

/-- **Proved at full strength**: the `minStack` check covers every pop (DUP/SWAP indices
included), and for the ten memory-touching functions the interpreter's resize to the
word-rounded size computed by the slot's `memorySize` function puts every access in bounds
(`Proofs/Evm10NoPanic.lean`: `cover_one`, `cover_two`, `execOp_no_panic_mem`). -/
theorem no_go_panic : FullStatementNoPanic :=
  fun H t p f ht => step_no_goPanic H t p f ht

/-- … in particular for each of the eight generated jump tables, whatever the frame. -/
theorem no_go_panic_generated (H : Bytes → Bytes) (cfg : Nat) (p : GasParams) (f : Frame) :
    step H (table cfg) p f ≠ .fail .goPanic :=
  step_no_goPanic H (table cfg) p f (tables_ok cfg)

example : tableOK (table 7) = true := tables_ok 7


/-! ## Stack manipulation, PUSH data, hashing -/

/-- DUPn pushes a copy of the n-th item (1 = top). -/
theorem dup_spec (H : Bytes → Bytes) (f : Frame) (n : Nat) (w : Word) (hn : 0 < n)
    (h : f.stack[n - 1]? = some w) :
    execOp H (.dup n) f = .ok { f with stack := w :: f.stack } [] := by
  have : n ≠ 0 := by omega
  simp [execOp, this, h]

example : ([5, 6, 7] : List Word)[2 - 1]? = some 6 := by decide

/-- SWAPn exchanges the top with the item n below it and touches nothing else. -/
theorem swap_spec (H : Bytes → Bytes) (f : Frame) (n : Nat) (top w : Word) (rest : List Word)
    (hn : 0 < n) (hs : f.stack = top :: rest) (h : f.stack[n]? = some w) :
    execOp H (.swap n) f = .ok { f with stack := (w :: rest).set n top } [] := by
  have : n ≠ 0 := by omega
  simp only [execOp, hs] at h ⊢
  simp [this, h]

example : ([5, 6, 7] : List Word)[2]? = some 7 := by decide

/-- PUSHn (`makePush(size, n)`): pushes `pushValue` and advances the pc over the data. -/
theorem push_spec (H : Bytes → Bytes) (f : Frame) (size n : Nat) :
    execOp H (.push size n) f =
      .ok { f with stack := pushValue f.code f.pc n :: f.stack, pc := f.pc + size } [] := rfl

/-- SHA3 relative to the hash parameter `H`: the hash of the memory range, as a big-endian word. -/
theorem sha3_spec (H : Bytes → Bytes) (f : Frame) (offset size : Word) (rest : List Word)
    (data : Bytes) (hs : f.stack = offset :: size :: rest)
    (hd : Mem.getPtr f.mem (lo64 offset) (lo64 size) = some data) :
    execOp H .opSha3 f = .ok { f with stack := setBytes (H data) :: rest } [] := by
  simp [execOp, hs, hd]

example : Mem.getPtr [1, 2, 3, 4] 1 2 = some [2, 3] := by decide

/-- MSTORE then MLOAD at the same offset reads back the 32 bytes written; the length and all
other bytes are unchanged. -/
theorem mstore_then_read (m m' : Bytes) (off : Nat) (v : Word) (h : Mem.set32 m off v = some m') :
    m'.length = m.length ∧ Mem.getPtr m' off 32 = some (toBytes32 v) ∧
    m'.take off = m.take off ∧ m'.drop (off + 32) = m.drop (off + 32) := by
  unfold Mem.set32 at h
  split at h
  · simp at h
  · rename_i hle
    have hlen : (toBytes32 v).length = 32 := by simp [toBytes32]
    simp only [Option.some.injEq] at h
    subst h
    have hto : (m.take off).length = off := by simp; omega
    refine ⟨?_, ?_, ?_, ?_⟩
    · simp [hlen]; omega
    · unfold Mem.getPtr
      simp only [List.length_append, hto, hlen, List.length_drop]
      have h1 : off + 32 + (m.length - (off + 32)) > off := by omega
      have h2 : off + 32 ≤ off + 32 + (m.length - (off + 32)) := by omega
      simp only [show (32:Nat) ≠ 0 by omega, if_false, h1, if_true, h2]
      rw [List.append_assoc, List.drop_append_of_le_length (by omega), List.drop_of_length_le (by omega)]
      simp [hlen]
    · rw [List.append_assoc, List.take_append_of_le_length (by omega), List.take_of_length_le (by omega)]
    · have hl : (m.take off ++ toBytes32 v).length = off + 32 := by simp [hlen]; omega
      have := List.drop_left (l₁ := m.take off ++ toBytes32 v) (l₂ := m.drop (off + 32))
      rw [hl] at this; exact this

end Rangers.Props.C10
