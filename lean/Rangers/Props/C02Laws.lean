import Rangers.Props.C02
import Rangers.Proofs.TrieLaws
/-!
# C02 — algebraic laws of the root, stated outright

Corollaries of `run_history_independent` (Props/C02.lean) in the shapes callers rely on: the
state root after a block does not depend on the order in which independent accounts were
written, re-writing a value is a no-op for the root, a write that is undone leaves the root of
the state before it, and an empty write is a delete.  Each holds after an arbitrary history
`pre` and before an arbitrary continuation `post` (both may contain hash / commit / reopen /
cache-limit steps), for every hash function `H`.
-/
namespace Rangers.Props.C02
open Rangers Rangers.Trie Rangers.Proofs.TrieLaws

/-- **writes to different keys commute** -/
theorem root_update_comm (H : Bytes → Bytes) (pre post : List Op) (k₁ k₂ v₁ v₂ : Bytes) (hne : k₁ ≠ k₂) :
    rootHash H (run (pre ++ [.upd k₁ v₁, .upd k₂ v₂] ++ post))
      = rootHash H (run (pre ++ [.upd k₂ v₂, .upd k₁ v₁] ++ post)) := by
  apply root_congr
  intro m
  funext k
  simp only [List.foldl, specStep]
  by_cases h1 : k = k₁ <;> by_cases h2 : k = k₂ <;> simp_all

/-- **a write and a delete of different keys commute** -/
theorem root_update_delete_comm (H : Bytes → Bytes) (pre post : List Op) (k₁ k₂ v : Bytes) (hne : k₁ ≠ k₂) :
    rootHash H (run (pre ++ [.upd k₁ v, .del k₂] ++ post))
      = rootHash H (run (pre ++ [.del k₂, .upd k₁ v] ++ post)) := by
  apply root_congr
  intro m
  funext k
  simp only [List.foldl, specStep]
  by_cases h1 : k = k₁ <;> by_cases h2 : k = k₂ <;> simp_all

/-- **writing twice is writing once** (the later value wins; in particular re-writing the
    same value does not move the root), with any bookkeeping steps in between -/
theorem root_update_overwrite (H : Bytes → Bytes) (pre post : List Op) (k v₁ v₂ : Bytes) :
    rootHash H (run (pre ++ [.upd k v₁, .commit, .reopen, .upd k v₂] ++ post))
      = rootHash H (run (pre ++ [.upd k v₂] ++ post)) := by
  apply root_congr
  intro m
  funext k'
  simp only [List.foldl, specStep]
  by_cases h1 : k' = k <;> simp_all

/-- **insert then delete restores the root** when the key was absent before -/
theorem root_insert_delete_restores (H : Bytes → Bytes) (pre : List Op) (k v : Bytes)
    (habs : finalMap pre k = none) :
    rootHash H (run (pre ++ [.upd k v, .hash, .del k])) = rootHash H (run pre) := by
  apply root_history_independent
  rw [finalMap_append]
  funext k'
  simp only [List.foldl, specStep]
  by_cases h1 : k' = k
  · subst h1; simp [habs]
  · simp [h1]

/-- **overwrite then write back restores the root** when the key held `v₀` before -/
theorem root_write_back_restores (H : Bytes → Bytes) (pre : List Op) (k v v₀ : Bytes) (hv₀ : v₀ ≠ [])
    (hold : finalMap pre k = some v₀) :
    rootHash H (run (pre ++ [.upd k v, .commit, .upd k v₀])) = rootHash H (run pre) := by
  apply root_history_independent
  rw [finalMap_append]
  funext k'
  simp only [List.foldl, specStep]
  by_cases h1 : k' = k
  · subst h1; simp [hold, hv₀]
  · simp [h1]

/-- **an empty write is a delete** -/
theorem root_empty_write_is_delete (H : Bytes → Bytes) (pre post : List Op) (k : Bytes) :
    rootHash H (run (pre ++ [.upd k []] ++ post)) = rootHash H (run (pre ++ [.del k] ++ post)) := by
  apply root_congr
  intro m
  funext k'
  simp only [List.foldl, specStep]
  by_cases h1 : k' = k <;> simp_all

/-- **reads and bookkeeping steps never move the root** -/
theorem root_bookkeeping_transparent (H : Bytes → Bytes) (pre post : List Op) (k s : Bytes) (n : Nat) :
    rootHash H (run (pre ++ [.get k, .hash, .commit, .reopen, .dbcommit, .cachelimit n, .iter s] ++ post))
      = rootHash H (run (pre ++ [] ++ post)) := by
  apply root_congr
  intro m
  simp only [List.foldl, specStep]

-- non-vacuity of the two hypotheses used above
example : finalMap [.upd [1] [7], .commit] [2] = none := by simp [finalMap, specStep]
example : finalMap [.upd [1] [7], .commit] [1] = some [7] ∧ ([7] : Bytes) ≠ [] := by simp [finalMap, specStep]

end Rangers.Props.C02
