import Rangers.Props.C04
/-!
# C04 — the readers the driver prints, the transaction / block boundary, and the by-ways of the package

* `reader_*` : the answer each reader function gives (what `drv_c04` prints and the harness compares with the real
  accessor) is the corresponding field of `obs` — so the restoration theorems, stated on `obs`, are statements about
  the answers of `Exist`, `GetNonce`, `GetData`, `HasSuicided`, `GetCodeHash`, `GetCode`, `GetBalance`.
* `*_ends_snapshots` : `Finalise`, `Commit`, `Reset`, `Clean` drop the journal and the revision stack — afterwards
  `RevertToSnapshot` of any id panics; `Prepare` only replaces tx context and access list.
* `toAddr_*`, `cacheAll_*`, `getAllRefund_*`, `setStorage_*`, `addERC20Binding_*` : the definitions added in the
  model-growth round.
-/
namespace Rangers.Props.C04D
open Rangers Rangers.Model.Journal Rangers.Proofs.Journal Rangers.Props.C04

/-! ## readers -/

theorem liveObj_of_res {s : ADB} {a : Addr} : liveObj s a = (match res s a with | .live o => some o | _ => none) := rfl

theorem reader_exist (c : Cfg) (s : ADB) (hs : s.crashed = false) (a : Addr) (k : Key) (th h : Hash) :
    (exist s a).2 = (obs c s a k th h).exist := by
  simp only [obs, exist, hs, Bool.false_eq_true, if_false, liveObj_of_res]
  cases hr : res s a with
  | absent => rw [(resolve_absent hr).1]; rfl
  | deleted => rw [resolve_deleted hr]; rfl
  | live o => obtain ⟨s1, e, _⟩ := resolve_live hr; rw [e]; rfl

theorem reader_nonce (c : Cfg) (s : ADB) (hs : s.crashed = false) (a : Addr) (k : Key) (th h : Hash) :
    (getNonce s a).2 = (obs c s a k th h).nonce := by
  simp only [obs, getNonce, hs, Bool.false_eq_true, if_false, liveObj_of_res]
  cases hr : res s a with
  | absent => rw [(resolve_absent hr).1]; rfl
  | deleted => rw [resolve_deleted hr]; rfl
  | live o => obtain ⟨s1, e, _⟩ := resolve_live hr; rw [e]; rfl

theorem reader_suicided (c : Cfg) (s : ADB) (hs : s.crashed = false) (a : Addr) (k : Key) (th h : Hash) :
    (hasSuicided s a).2 = (obs c s a k th h).suicided := by
  simp only [obs, hasSuicided, hs, Bool.false_eq_true, if_false, liveObj_of_res]
  cases hr : res s a with
  | absent => rw [(resolve_absent hr).1]; rfl
  | deleted => rw [resolve_deleted hr]; rfl
  | live o => obtain ⟨s1, e, _⟩ := resolve_live hr; rw [e]; rfl

theorem reader_codeHash (c : Cfg) (s : ADB) (hs : s.crashed = false) (a : Addr) (k : Key) (th h : Hash) :
    (getCodeHash s a).2 = (obs c s a k th h).codeHash := by
  simp only [obs, getCodeHash, hs, Bool.false_eq_true, if_false, liveObj_of_res]
  cases hr : res s a with
  | absent => rw [(resolve_absent hr).1]; rfl
  | deleted => rw [resolve_deleted hr]; rfl
  | live o => obtain ⟨s1, e, _⟩ := resolve_live hr; rw [e]; rfl

theorem reader_data (c : Cfg) (s : ADB) (hs : s.crashed = false) (a : Addr) (k : Key) (th h : Hash) :
    (getData s a k).2 = (obs c s a k th h).slot := by
  simp only [obs, getData, hs, Bool.false_eq_true, if_false, liveObj_of_res]
  cases hr : res s a with
  | absent => rw [(resolve_absent hr).1]; rfl
  | deleted => rw [resolve_deleted hr]; rfl
  | live o =>
    obtain ⟨s1, e, m, hd, _⟩ := resolve_live hr
    rw [e]
    exact (readAt_sim k m hd).2.1

theorem reader_code (c : Cfg) (s : ADB) (hs : s.crashed = false) (a : Addr) (k : Key) (th h : Hash) :
    (getCode s a).2 = (obs c s a k th h).code := by
  simp only [obs, getCode, hs, Bool.false_eq_true, if_false, liveObj_of_res]
  cases hr : res s a with
  | absent => rw [(resolve_absent hr).1]; rfl
  | deleted => rw [resolve_deleted hr]; rfl
  | live o =>
    obtain ⟨s1, e, m, hd, hf, _⟩ := resolve_live hr
    rw [e]
    simp only [(revAt_loadCode c m hd).2.1, codeLookup_eq]
    rw [hf]; rfl

theorem reader_balance (c : Cfg) (s : ADB) (hs : s.crashed = false) (a : Addr) (k : Key) (th h : Hash) :
    (getBalance c s a).2 = (obs c s a k th h).balance := by
  simp only [obs, getBalance, hs, Bool.false_eq_true, if_false, liveObj_of_res]
  cases hr : res s c.tok with
  | deleted => rw [resolveNew_deleted hr]; rfl
  | absent =>
    rw [resolveNew_absent hr]
    simp [readAt, Obj.read, Obj.fresh, mget, beToNat]
  | live o =>
    obtain ⟨s1, e, m, hd, _⟩ := resolve_live hr
    rw [resolveNew_live hr, e]
    simp only [Option.map_some, Option.getD_some]
    rw [(readAt_sim (c.balKey a) m hd).2.1]

/-! ## transaction / block boundary -/

theorem finalise_ends_snapshots (c : Cfg) (d : Bool) (s : ADB) (hs : s.crashed = false) (id : Nat) :
    (finalise d s).journal = [] ∧ (finalise d s).revisions = [] ∧ (finalise d s).refund = 0 ∧
    (revert c (finalise d s) id).crashed = true := by
  have h : (finalise d s).journal = [] ∧ (finalise d s).revisions = [] ∧ (finalise d s).refund = 0 := by
    simp [finalise, hs, clearJournal]
  refine ⟨h.1, h.2.1, h.2.2, ?_⟩
  unfold revert
  split
  · assumption
  · rw [h.2.1]; simp [findRev, crash]

theorem commit_ends_snapshots (c : Cfg) (d : Bool) (s : ADB) (hs : s.crashed = false) (id : Nat) :
    (commit d s).journal = [] ∧ (commit d s).revisions = [] ∧ (commit d s).committed = (commit d s).trie ∧
    (revert c (commit d s) id).crashed = true := by
  have h : (commit d s).journal = [] ∧ (commit d s).revisions = [] ∧ (commit d s).committed = (commit d s).trie := by
    simp [commit, hs, clearJournal]
  refine ⟨h.1, h.2.1, h.2.2, ?_⟩
  unfold revert
  split
  · assumption
  · rw [h.2.1]; simp [findRev, crash]

theorem reset_ends_snapshots (c : Cfg) (s : ADB) (hs : s.crashed = false) (id : Nat) :
    (reset s).journal = [] ∧ (reset s).revisions = [] ∧ (reset s).objs = [] ∧ (reset s).dirtySet = [] ∧
    (reset s).trie = s.committed ∧ (reset s).transient = s.transient ∧ (reset s).nextRev = s.nextRev ∧
    (revert c (reset s) id).crashed = true := by
  simp [reset, hs, revert, findRev, crash]

theorem clean_ends_snapshots (c : Cfg) (s : ADB) (hs : s.crashed = false) (id : Nat) :
    (clean s).journal = [] ∧ (clean s).revisions = [] ∧ (clean s).objs = [] ∧ (clean s).dirtySet = [] ∧
    (clean s).trie = s.trie ∧ (revert c (clean s) id).crashed = true := by
  simp [clean, hs, clearJournal, revert, findRev, crash]

/-- `Prepare` replaces the tx context and the access list and touches nothing a snapshot records elsewhere: the
    journal keeps entries of the old access list — which is why `Prepare` is a boundary op, not a region op -/
theorem prepare_only_context (s : ADB) (hs : s.crashed = false) (th bh : Hash) (ti : Nat) :
    prepare s th bh ti = { s with thash := th, bhash := bh, txIndex := ti, al := ⟨[], []⟩ } := by
  simp [prepare, hs]

/-- `NewAccountDB(lastCommittedRoot)`: nothing of the old session survives but the committed trie and the code blobs -/
theorem reopen_fresh (s : ADB) :
    (reopen s).trie = s.committed ∧ (reopen s).objs = [] ∧ (reopen s).dirtySet = [] ∧ (reopen s).journal = [] ∧
    (reopen s).revisions = [] ∧ (reopen s).nextRev = 0 ∧ (reopen s).codes = s.codes ∧ (reopen s).crashed = false := by
  simp [reopen, ADB.empty]

/-- the three thin readers are their underlying reader as far as the state goes (so they are covered by the
    restoration theorem through `GetBalance`, `GetCode`, `GetData`) and answer what `obs` says -/
theorem thin_readers (c : Cfg) (s : ADB) (a : Addr) (k : Key) (n : Nat) :
    (canTransfer c s a n).1 = (getBalance c s a).1 ∧ (isContract s a).1 = (getCode s a).1 ∧
    (getState s a k).1 = (getData s a k).1 ∧ (getState s a k).2 = toHash (getData s a k).2 ∧
    (canTransfer c s a n).2 = decide ((getBalance c s a).2 ≥ n) := ⟨rfl, rfl, rfl, rfl, rfl⟩

/-! ## definitions added in the model-growth round -/

theorem toAddr_length (b : Bytes) : (toAddr b).length = 20 := by
  unfold toAddr; split
  · simp; omega
  · simp; omega

/-- the quirk: `BytesToAddress` right-pads short input, `BytesToHash` left-pads it -/
example : toAddr [1, 2] = [1, 2] ++ List.replicate 18 0 ∧ toHash [1, 2] = List.replicate 30 0 ++ [1, 2] := by decide

/-- `GetAllRefund` on an existing account changes no answer of any query of the property (it only fills the read
    cache); on a missing account it creates it (a journaled creation, as `GetBalance` does for the token contract) -/
theorem getAllRefund_preserves_obs (c : Cfg) (s : ADB) (a : Addr) (o : Obj) (hs : s.crashed = false)
    (hr : res s a = .live o) (b : Addr) (k : Key) (th h : Hash) :
    obs c (getAllRefund s a).1 b k th h = obs c s b k th h := by
  obtain ⟨s1, e, m, hd, hf, rr⟩ := resolve_live hr
  have hst : (getAllRefund s a).1 = putObj s1 a o.cacheAll := by
    simp [getAllRefund, hs, resolveNew_live hr, e]
  have fs1 : Frame s1 s := by rw [hf]; exact ⟨rfl, rfl, rfl, rfl, rfl, rfl, fun _ _ => rfl, rfl, rfl, rfl⟩
  have hsim : Sim (getAllRefund s a).1 s := by
    rw [hst]
    refine sim_of_res_upd (a := a) (o := o) (x := o.cacheAll) (show (putObj s1 a o.cacheAll).crashed = s.crashed from (by rw [hf] : s1.crashed = s.crashed)) ((putObj_Frame _ _ _).trans fs1) hr (fun b' => ?_)
      ⟨rfl, rfl, rfl, fun k' => cacheAll_get o k', rfl⟩
    rw [res_putObj s1 a b' _ (by exact hd)]
    by_cases hab : a = b' <;> simp [hab, rr b']
  exact obs_of_sim c hsim (by rw [hst]; show s1.crashed = false; rw [hf]; exact hs) b k th h

theorem getAllRefund_creates_absent (c : Cfg) (s : ADB) (a : Addr) (hs : s.crashed = false) (hr : res s a = .absent)
    (k : Key) (th h : Hash) :
    (obs c (getAllRefund s a).1 a k th h).exist = true ∧ (obs c s a k th h).exist = false := by
  have hst : ∃ u, (getAllRefund s a).1 = putObj u a Obj.fresh.cacheAll := by
    simp only [getAllRefund, hs, Bool.false_eq_true, if_false, resolveNew_absent hr]
    exact ⟨_, rfl⟩
  obtain ⟨u, hu⟩ := hst
  constructor
  · simp only [obs, liveObj_of_res, hu]
    rw [res_putObj u a a _ rfl]; simp
  · simp [obs, liveObj_of_res, hr]

/-- … but it is one more trigger of the `empty()` finding: afterwards the storage-only account is no longer "empty" -/
example : emptyView sStorageOnly A1 = true ∧ emptyView (getAllRefund sStorageOnly A1).1 A1 = false ∧
    (getAllRefund sStorageOnly A1).2 = [(toAddr [0x6b], 7)] := by decide

/-- `SetStorage` journals like `SetData`: a reverted `SetStorage` is undone (instance of the headline theorem) -/
example : let s := setNonce ADB.empty A1 1
    let r := revert c0 (setStorage (snapshot s).1 A1 [(toHash [1], toHash [2]), (toHash [3], toHash [4])]) (snapshot s).2
    r.crashed = false ∧ obs c0 r A1 (toHash [1]) [] [] = obs c0 s A1 (toHash [1]) [] [] ∧
    (obs c0 (setStorage s A1 [(toHash [1], toHash [2])]) A1 (toHash [1]) [] []).slot = toHash [2] := by decide

/-- `AddERC20Binding` refuses an existing binding account and otherwise writes the three records -/
theorem addERC20Binding_existing (s : ADB) (bind contract : Addr) (pos dec : Nat) (hs : s.crashed = false)
    (o : Obj) (hr : res s bind = .live o) : (addERC20Binding s bind contract pos dec).2 = false := by
  obtain ⟨s1, e, _⟩ := resolve_live hr
  simp [addERC20Binding, hs, exist, e]

example : (addERC20Binding ADB.empty [0xb1] A1 3 18).2 = true ∧
    (obs c0 (addERC20Binding ADB.empty [0xb1] A1 3 18).1 [0xb1] [0x70] [] []).slot = [0, 0, 0, 0, 0, 0, 0, 3] ∧
    (addERC20Binding (addERC20Binding ADB.empty [0xb1] A1 3 18).1 [0xb1] A1 4 18).2 = false := by decide

end Rangers.Props.C04D
