import Rangers.Proofs.PoolPack
import Rangers.Proofs.PoolCrash
/-!
# C17, part D — expiry, evictions, where `MarkExecuted` writes, crash between two writes, `Clear()`

Statements about the parts of the pool the first round left unmodelled. All of them are executed by
`drv_c17` against the real pool (`expire`, `markz` with the write gate of `db.VerifC05Gate`, `evq`,
`restart`, `clear` ops).
-/
namespace Rangers.Props.C17D
open Rangers Rangers.Pool

/-! ## Expiry (ring timer, `simpleContainer.growRing`) -/

/-- Expiry only removes pending entries: executed records, the batch, the gate nonce, the evicted cache and
the limit are untouched, and what stays pending was pending (in the same order). -/
theorem expire_only_pending (s : Pool) :
    s.expire.executed = s.executed ∧ s.expire.batch = s.batch ∧ s.expire.gate = s.gate ∧
    s.expire.evicted = s.evicted ∧ s.expire.limit = s.limit ∧ s.expire.hashes.Sublist s.hashes :=
  ⟨rfl, rfl, rfl, rfl, rfl, hashes_expire_sublist s⟩

/-- An entry survives a cycle (with its ring advanced) iff its ring was below `expiredRing - 1`; so a
transaction leaves the pool on the fifth cycle after it was (last) pushed. -/
theorem expire_spec (s : Pool) (t : Tx) (r : Nat) :
    (⟨t, r + 1⟩ : Entry) ∈ s.expire.pending ↔ (⟨t, r⟩ : Entry) ∈ s.pending ∧ r + 1 < expiredRing := by
  simp only [Pool.expire, List.mem_filter, List.mem_map, decide_eq_true_eq]
  constructor
  · rintro ⟨⟨e, he, heq⟩, hr⟩
    have h1 : e.tx = t := by have := congrArg Entry.tx heq; simpa using this
    have h2 : e.ring = r := by have := congrArg Entry.ring heq; simp at this; omega
    refine ⟨?_, hr⟩
    cases e; simp at h1 h2; subst h1 h2; exact he
  · rintro ⟨he, hr⟩
    exact ⟨⟨⟨t, r⟩, he, rfl⟩, hr⟩

example : ((((Pool.empty 3).addTransaction ⟨1, 11, [], 0, 0, 0⟩).1.expire.expire.expire.expire).pending.length = 1) ∧
    ((((Pool.empty 3).addTransaction ⟨1, 11, [], 0, 0, 0⟩).1.expire.expire.expire.expire.expire).pending.length = 0) := by decide

/-! ## Where inside `MarkExecuted` the batch is written does not matter -/

/-- For every choice of record sizes (hence every placement of the 100 KiB mid-loop writes) a well-formed
`MarkExecuted` ends `ok` with the same pending set, the same executed set and an empty batch as the
size-free `markExecuted` the other theorems speak about. -/
theorem mark_any_sizes (s : Pool) (rs : List (Nat × Nat)) (txs : List Tx) (evicted : List Nat)
    (hi : Inv s) (hc : Covered (rs.map (·.1)) txs) (hz : ∀ p ∈ rs, 0 < p.2) :
    ∃ s' ws, s.markExecutedZ rs txs evicted none = (s', ws, .ok) ∧
      s'.hashes = (s.markExecuted (rs.map (·.1)) txs evicted).1.hashes ∧
      (∀ k, k ∈ s'.execHashes ↔ k ∈ (s.markExecuted (rs.map (·.1)) txs evicted).1.execHashes) ∧
      Inv s' := by
  obtain ⟨s', ws, he, h1, h2, h3, _, h5⟩ := markExecutedZ_ok (evicted := evicted) hi.batch hi.attached hc hz
  obtain ⟨s'', he', g1, g2, _, _, _⟩ := markExecuted_ok (evicted := evicted) hi.batch hi.attached hc
  refine ⟨s', ws, he, by rw [he', h1, g1], by intro k; rw [he', h2, g2], ?_, ?_, h3, h5⟩
  · rw [h1]; exact hi.nodup.sublist List.filter_sublist
  · intro h hm
    rw [h1, List.mem_filter] at hm
    rw [h2]
    rintro (x | x)
    · exact hi.disjoint h hm.1 x
    · have := hm.2
      simp only [Bool.not_eq_true', List.contains_eq_mem, decide_eq_false_iff_not, List.mem_append, not_or] at this
      exact this.1 x

example : ((Pool.empty 9).markExecutedZ [(11, 60000), (12, 60000), (13, 5)] [⟨1, 11, [], 0, 0, 0⟩, ⟨2, 12, [], 0, 0, 0⟩, ⟨3, 13, [], 0, 0, 0⟩] [] none).2.1
    = [2, 1] := by decide

/-! ## Process death between two batch writes, then restart -/

/-- If the process dies right before the `k`-th physical write of a `MarkExecuted` call, the pending
container and the evicted cache are as before the call, no old executed record is lost, and every record
present is an old one or belongs to a receipt of this very block (the correspondence run additionally
observes that they are the receipts of the first `k-1` writes). -/
theorem mark_crash_sound (s s' : Pool) (rs : List (Nat × Nat)) (txs : List Tx) (evicted : List Nat) (k : Nat) (ws : List Nat)
    (hi : Inv s) (hc : Covered (rs.map (·.1)) txs) (hz : ∀ p ∈ rs, 0 < p.2)
    (h : s.markExecutedZ rs txs evicted (some k) = (s', ws, .crash)) :
    s'.pending = s.pending ∧ s'.evicted = s.evicted ∧ (∀ x, x ∈ s.execHashes → x ∈ s'.execHashes) ∧
      (∀ x, x ∈ s'.execHashes → x ∈ s.execHashes ∨ x ∈ rs.map (·.1)) :=
  markExecutedZ_crash hi.batch hi.attached hc hz h

/-- **The records present after such a death are exactly the old ones plus those of a prefix of the block's
receipts, in receipt order** (the receipts covered by the physical writes that went through): never a record
from the middle or the end of the block without all earlier ones. Together with `restart_inv` and
`mark_any_sizes`: re-delivering the block after the restart completes exactly the missing suffix. -/
theorem mark_crash_prefix (s s' : Pool) (rs : List (Nat × Nat)) (txs : List Tx) (evicted : List Nat) (k : Nat) (ws : List Nat)
    (hi : Inv s) (hc : Covered (rs.map (·.1)) txs)
    (h : s.markExecutedZ rs txs evicted (some k) = (s', ws, .crash)) :
    ∃ n, n ≤ rs.length ∧ ∀ x, x ∈ s'.execHashes ↔ x ∈ s.execHashes ∨ x ∈ (rs.take n).map (·.1) :=
  markExecutedZ_crash_prefix hi.batch hi.attached hc h

/-- After the restart the invariant holds again, whatever state the death left: nothing is pending, the
unwritten batch is gone, the records stay. Re-delivering the block then completes its records (`mark_any_sizes`). -/
theorem restart_inv (s : Pool) : Inv s.restart ∧ s.restart.executed = s.executed ∧ s.restart.pending = [] :=
  ⟨⟨by simp [Pool.restart, Pool.hashes], by simp [Pool.restart, Pool.hashes], by simp [Pool.restart, GateOnly], rfl⟩, rfl, rfl⟩

example : ((Pool.empty 9).markExecutedZ [(11, 60000), (12, 60000), (13, 5)] [⟨1, 11, [], 0, 0, 0⟩, ⟨2, 12, [], 0, 0, 0⟩, ⟨3, 13, [], 0, 0, 0⟩] [] (some 2)).2
    = ([2], .crash) := by decide

/-! ## A batch write that returns an error (write fault, not a crash) -/

/-- What one would want: whatever the store answers, a `MarkExecuted` call that returns leaves every receipt of the
block recorded (or reports the failure). -/
def FullStatementWriteError : Prop :=
  ∀ (s : Pool) (rs : List (Nat × Nat)) (txs : List Tx), Inv s → Covered (rs.map (·.1)) txs → (∀ p ∈ rs, 0 < p.2) →
    ∀ h ∈ rs.map (·.1), (s.markExecutedWriteError rs txs []).isExecuted h = true

/-- False of the model, which transcribes the source here (`MarkExecuted` has no error result and drops what
`batch.Write` returns, then resets the batch — pinned by `Props/C17B.dropped_errors_as_modelled`): after a failed
write the block's transactions are neither pending nor recorded, and a re-submission is accepted. Outside the
property's quantifier (store faults are not among its operations); kept as a statement so that a change of the error
handling is noticed. -/
theorem write_error_loses_records : ¬ FullStatementWriteError := by
  intro h
  have := h (Pool.empty 5) [(11, 1)] [⟨1, 11, [], 0, 0, 0⟩] (inv_empty 5)
    (by intro x hx; simp at hx; subst hx; exact ⟨⟨1, 11, [], 0, 0, 0⟩, by simp, rfl⟩) (by intro p hp; simp at hp; subst hp; simp) 11 (by simp)
  revert this
  decide

example : (((Pool.empty 5).markExecutedWriteError [(11, 1)] [⟨1, 11, [], 0, 0, 0⟩] []).addTransaction ⟨1, 11, [], 0, 0, 0⟩).2 = .ok := by decide

/-! ## Evictions (`header.EvictedTxs`, the `evictedTxs` LRU) -/

/-- Evicted hashes leave the pending container… -/
theorem evicted_removed_from_pending (s : Pool) (receipts : List Nat) (txs : List Tx) (evicted : List Nat)
    (hi : Inv s) (hc : Covered receipts txs) :
    ∀ h ∈ evicted, (s.markExecuted receipts txs evicted).1.contains h = false := by
  obtain ⟨s', he, hh, _⟩ := markExecuted_ok (evicted := evicted) hi.batch hi.attached hc
  intro h hm
  rw [he]
  cases hcn : s'.contains h with
  | false => rfl
  | true =>
    have := contains_iff.mp hcn
    rw [hh, List.mem_filter] at this
    have h2 := this.2; simp at h2; exact absurd hm h2.2

/-- The corner the receipt loop does not reach: a block **without receipts** still has its evicted list applied —
evicted cache updated, hashes removed from pending — and nothing else changes (no guard clause in front of the
eviction bookkeeping; chain-driven: a block whose only transaction was not addable). -/
theorem mark_no_receipts_still_evicts (s : Pool) (txs : List Tx) (evicted : List Nat) :
    s.markExecuted [] txs evicted = ((s.evictAll evicted).removeHashes evicted, false) ∧
    (∀ h ∈ evicted, (s.markExecuted [] txs evicted).1.contains h = false) ∧
    (s.markExecuted [] txs evicted).1.executed = s.executed := by
  have e : s.markExecuted [] txs evicted = ((s.evictAll evicted).removeHashes evicted, false) := by
    simp [Pool.markExecuted, Pool.markExecutedZ]
  refine ⟨e, ?_, by rw [e]; rfl⟩
  intro h hm
  rw [e]
  cases hc : ((s.evictAll evicted).removeHashes evicted).contains h with
  | false => rfl
  | true =>
    have := mem_hashes_removeHashes.mp (contains_iff.mp hc)
    exact absurd hm this.2

example : (((Pool.empty 5).addTransaction ⟨1, 11, [], 0, 0, 0⟩).1.markExecuted [] [] [11]).1.pending = [] := by decide

/-- …but, as the code is (the check against the evicted cache in `AddTransaction` is commented out), an
evicted transaction that was not executed is admitted again when submitted again: the cache is write-only.
(Not a C17 violation: the transaction was never executed.) -/
theorem evicted_readmitted (s : Pool) (receipts : List Nat) (txs : List Tx) (evicted : List Nat) (t : Tx)
    (hi : Inv s) (hc : Covered receipts txs) (he : t.hash ∈ evicted) (hr : t.hash ∉ receipts) (hx : s.isExecuted t.hash = false) :
    ((s.markExecuted receipts txs evicted).1.addTransaction t).2 = .ok := by
  obtain ⟨s', hes, hh, hxs, _, _, _⟩ := markExecuted_ok (evicted := evicted) hi.batch hi.attached hc
  rw [hes]
  have h1 : s'.existed t.hash = false := by
    cases hex : s'.existed t.hash with
    | false => rfl
    | true =>
      rcases existed_iff.mp hex with h | h
      · rw [hh, List.mem_filter] at h; have h2 := h.2; simp at h2; exact absurd he h2.2
      · rcases (hxs _).mp h with h | h
        · have := isExecuted_iff.mpr h; rw [hx] at this; cases this
        · exact absurd h hr
  simp [Pool.addTransaction, add_fresh h1]

/-- The cache never holds more than its capacity. -/
theorem lru_bounded (cap : Nat) (l : List Nat) (h : Nat) (hl : l.length ≤ cap) : (lruAdd cap l h).length ≤ cap := by
  unfold lruAdd
  simp only
  have hf : (l.filter (fun x => x != h)).length ≤ l.length := List.length_filter_le _ _
  split
  · simp [List.length_dropLast]; omega
  · rename_i hn; simp at hn ⊢; omega

example : lruAdd 2 [7, 8] 9 = [9, 7] ∧ lruAdd 2 [7, 8] 8 = [8, 7] := by decide

/-! ## Lookup (`GetTransaction`) -/

theorem execGet_none_iff (ex : List (Nat × Option Tx)) (h : Nat) : execGet ex h = none ↔ h ∉ ex.map (·.1) := by
  induction ex with
  | nil => simp [execGet]
  | cons p r ih =>
    obtain ⟨k, v⟩ := p
    by_cases hk : k = h
    · simp [execGet, hk]
    · simp only [execGet, hk, if_false, List.map_cons, List.mem_cons, not_or]
      rw [ih]
      exact ⟨fun x => ⟨fun e => hk e.symm, x⟩, fun x => x.2⟩

/-- `GetTransaction` answers `ErrNil` exactly for the hashes `IsExisted` denies: the two lookups never disagree. -/
theorem get_nil_iff (s : Pool) (h : Nat) : s.get h = .nil ↔ s.existed h = false := by
  have hex : s.existed h = false ↔ h ∉ s.hashes ∧ h ∉ s.execHashes := by
    constructor
    · intro e; constructor <;> intro hm
      · have := existed_iff.mpr (Or.inl hm); rw [e] at this; cases this
      · have := existed_iff.mpr (Or.inr hm); rw [e] at this; cases this
    · rintro ⟨h1, h2⟩
      cases e : s.existed h with
      | false => rfl
      | true => rcases existed_iff.mp e with x | x; exact absurd x h1; exact absurd x h2
  rw [hex]
  unfold Pool.get
  cases hf : s.pending.find? (fun e => e.tx.hash == h) with
  | some e =>
    simp only [reduceCtorEq, false_iff, not_and]
    intro hn
    have := List.find?_some hf
    have hm := List.mem_of_find?_eq_some hf
    exact absurd (List.mem_map.mpr ⟨e, hm, by simpa using this⟩) hn
  | none =>
    have hn : h ∉ s.hashes := by
      intro hm
      obtain ⟨e, he, rfl⟩ := List.mem_map.mp hm
      have := List.find?_eq_none.mp hf e he
      simp at this
    simp only
    cases hg : execGet s.executed h with
    | some v =>
      simp only [reduceCtorEq, false_iff, not_and]
      intro _ hx
      have := (execGet_none_iff s.executed h).mpr hx
      rw [hg] at this; cases this
    | none => simp only [true_iff]; exact ⟨hn, (execGet_none_iff s.executed h).mp hg⟩

/-- A pending hash is answered from the container (with a transaction of that hash), never from the store. -/
theorem get_pending_of_contains (s : Pool) (h : Nat) (hc : s.contains h = true) : ∃ t, s.get h = .pending t ∧ t.hash = h := by
  obtain ⟨e, he, rfl⟩ := List.mem_map.mp (contains_iff.mp hc)
  unfold Pool.get
  cases hf : s.pending.find? (fun x => x.tx.hash == e.tx.hash) with
  | some x => exact ⟨x.tx, rfl, by simpa using List.find?_some hf⟩
  | none => have := List.find?_eq_none.mp hf e he; simp at this

example : ((Pool.empty 3).addTransaction ⟨1, 11, [], 0, 0, 0⟩).1.get 11 = .pending ⟨1, 11, [], 0, 0, 0⟩ ∧ (Pool.empty 3).get 11 = .nil := by decide

/-! ## `Clear()` -/

/-- What at-most-once would say if `Clear()` were one of the pool's operations. -/
def FullStatementWithClear : Prop :=
  ∀ (s : Pool) (receipts : List Nat) (txs : List Tx) (t : Tx), Inv s → Covered receipts txs → t.hash ∈ receipts →
    ((s.clear.markExecuted receipts txs []).1.addTransaction t).2 = .exist

/-- It is false of the model and of the code (correspondence run `pool-clear`): `Clear()` replaces the store
the pool reads while the batch keeps writing to the old one, so afterwards no executed record is ever seen
and every executed transaction is admitted again. `Clear()` has no caller in the node (generated fact
`interface_callers_as_modelled`); it must not get one. -/
theorem clear_breaks_at_most_once : ¬ FullStatementWithClear := by
  intro h
  have := h (Pool.empty 5) [11] [⟨1, 11, [], 0, 0, 0⟩] ⟨1, 11, [], 0, 0, 0⟩ (inv_empty 5)
    (by intro x hx; simp at hx; subst hx; exact ⟨⟨1, 11, [], 0, 0, 0⟩, by simp, rfl⟩) (by simp)
  revert this
  decide

end Rangers.Props.C17D
