import Rangers.Props.C06
import Rangers.Props.C18
import Rangers.Props.C18Aux
/-!
# C06 — the ledger primitives are the real conversions

`Model/Ledger.lean` writes the balance primitives with exact integer arithmetic (`addBal`, `subBal`, `get`,
`toWei`, `v / wei`).  The Go code reaches the slot through decimal strings and 512-bit floats:

* `AccountDB.AddFT/SubFT/SetFT` pass the amount through `FormatDecimalForERC20(amount, 18)`
  (`= strToBigInt(BigIntToStr(amount), 18)`), `GetFT` and the value `SubFT` returns through
  `FormatDecimalForRocket`;
* `MinerManager.AddStake/AddMiner` debit `Float64ToBigInt(float64(stake))`;
* the refund path credits `Uint64ToBigInt(stake)`;
* the stake opcodes read `ParseUint(BigIntToStrWithoutDot(money))`.

C18's `Model/Decimal.lean` models those functions exactly (`ftAdd`, `ftSub`, `ftGet`, `ftSet`, `stakeToBigInt`,
`uint64ToBigInt`, `stakeArg`).  The theorems below state when the ledger primitives ARE those functions, prove
that the condition is an invariant of the ledger, and show with concrete witnesses what happens outside of it
(the same witnesses are run against the real functions by the `conv` stream of the C06 harness).
-/
namespace Rangers.Props.C06Real
open Rangers.Ledger Rangers.Decimal

/-! ## 1. Balance slots -/

/-- **`addBal` is `AccountDB.AddFT`** (ERC-20 branch, 18 decimals) for every slot and every amount — of either
    sign — below `2^509` in magnitude: the decimal-string / 512-bit-float round trip of
    `FormatDecimalForERC20` is the identity there. -/
theorem addBal_is_AddFT (b : Bal) (a : Addr) (n : Int) (hn : n.natAbs < 2 ^ 509) :
    ftAdd 18 (get b a) n = some (get (addBal b a n) a) := by
  have h510 : (2 : ℕ) ^ 509 < 2 ^ 510 := Nat.pow_lt_pow_right (by norm_num) (by norm_num)
  unfold ftAdd
  rw [Rangers.Props.C18.erc20_18_id n (by omega)]
  simp only [addBal, get_put_same]

example : ftAdd 18 (get [(1, 5)] 1) 7 = some (get (addBal [(1, 5)] 1 7) 1) := by decide +kernel

/-- **`subBal` is `AccountDB.SubFT`**: same refusal test (`remain < value`), same new slot, and the `*big.Int` it
    returns (`FormatDecimalForRocket` of the remainder; the refused case returns the untouched slot) is exact. -/
theorem subBal_is_SubFT (b : Bal) (a : Addr) (n : Int) (hb : get b a < 2 ^ 509) (hn : n.natAbs < 2 ^ 509) :
    ftSub 18 (get b a) n =
      some ((subBal b a n).2, get (subBal b a n).1 a,
            .ok (if (subBal b a n).2 then ((get b a : Nat) : Int) - n else ((get b a : Nat) : Int))) := by
  have h510 : (2 : ℕ) ^ 509 < 2 ^ 510 := Nat.pow_lt_pow_right (by norm_num) (by norm_num)
  have h509 : (2 : ℕ) ^ 510 = 2 * 2 ^ 509 := by rw [show 510 = 509 + 1 from rfl, Nat.pow_succ]; omega
  unfold ftSub
  rw [Rangers.Props.C18.erc20_18_id n (by omega)]
  unfold subBal
  by_cases hlt : ((get b a : Nat) : Int) < n
  · simp [hlt]
  · simp only [hlt, if_false, get_put_same, Option.some.injEq, Prod.mk.injEq, true_and, if_true]
    exact Rangers.Props.C18.rocket_18_id _ (by omega)

example : ftSub 18 (get [(1, 5)] 1) 7 = some (false, 5, .ok 5) ∧ (subBal [(1, 5)] 1 7).2 = false := by decide +kernel

/-- **`get` is `GetBalance`/`GetFT`** and **`put` is `SetBalance`/`SetFT`** below `2^510`. -/
theorem get_is_GetFT_put_is_SetFT (b : Bal) (a : Addr) (n : Int) (hb : get b a < 2 ^ 510) (hn : n.natAbs < 2 ^ 510) :
    ftGet 18 (get b a) = .ok ((get b a : Nat) : Int) ∧ ftSet 18 n = some (get (put b a n.natAbs) a) := by
  constructor
  · unfold ftGet; exact Rangers.Props.C18.rocket_18_id _ (by simpa using hb)
  · unfold ftSet; rw [Rangers.Props.C18.erc20_18_id n hn, get_put_same]

example : ftGet 18 (get [(1, 5)] 1) = .ok 5 ∧ ftSet 18 (-9) = some 9 := by decide +kernel

/-- What one would like to write: the primitives agree with the code for every slot and amount. -/
def FullStatementAddIsAddFT : Prop :=
  ∀ (b : Bal) (a : Addr) (n : Int), ftAdd 18 (get b a) n = some (get (addBal b a n) a)

/-- The proved restriction of `FullStatementAddIsAddFT` (amounts below `2^509`). -/
theorem addBal_is_AddFT_partial (b : Bal) (a : Addr) (n : Int) (hn : n.natAbs < 2 ^ 509) :
    ftAdd 18 (get b a) n = some (get (addBal b a n) a) := addBal_is_AddFT b a n hn

/-- Without the bound it is false: crediting `2^513 + 1` wei to an empty slot stores `2^513 + 2` in the code
    (the 512-bit float rounds away from zero) — the `conv` stream runs this witness against the real `AddFT`.
    It needs an amount above `2^509`, which no balance test lets through (`amounts_that_pass_are_bounded`). -/
theorem addBal_is_AddFT_counterexample : ¬ FullStatementAddIsAddFT := by
  intro h
  have := h [] 0 (2 ^ 513 + 1)
  revert this
  decide +kernel

/-- every slot is bounded by the sum of all slots -/
theorem slot_le_total (b : Bal) (a : Addr) : get b a ≤ total b := get_le_total b a

/-- An amount that passed a balance test (`vm.CanTransfer`; `transferBalance`, `ProcessFee`, `AddStake`,
    `minerNodeExecutor` use the same comparison) is non-negative and at most the slot, hence below any bound on
    the sum of all balances. -/
theorem amounts_that_pass_are_bounded (b : Bal) (a : Addr) (v : Int) (B : Nat) (hB : total b < B)
    (h : canTransfer b a v = true) : 0 ≤ v ∧ v.natAbs < B := by
  unfold canTransfer at h
  have := get_le_total b a
  by_cases hv : v < 0
  · simp [hv] at h
  · simp only [hv, if_false, decide_eq_true_eq] at h
    omega

example : canTransfer [(1, 5)] 1 5 = true ∧ canTransfer [(1, 5)] 1 6 = false ∧ canTransfer [(1, 5)] 1 (-1) = false := by decide

/-- **The bound is an invariant of transactions**: if all balances together are below `2^509` wei (the supply
    is about `2^91` wei), then after any transaction of any type every slot is still below `2^509` — so along
    every execution the exact primitives of the model and the string/float primitives of the code coincide
    (`addBal_is_AddFT`, `subBal_is_SubFT`, `get_is_GetFT_put_is_SetFT`). -/
theorem real_bound_invariant_tx (fuel : Nat) (w : World) (hj : w.fl.p002 = true) (tx : Tx)
    (hB : total w.st.bal < 2 ^ 509) (a : Addr) :
    total (execTx fuel w tx).1.st.bal < 2 ^ 509 ∧ get (execTx fuel w tx).1.st.bal a < 2 ^ 509 := by
  have h1 := Rangers.Props.C06.tx_never_mints fuel w hj tx
  have h2 := get_le_total (execTx fuel w tx).1.st.bal a
  omega

/-- … and of blocks, as long as what the escrow pays out at this height fits as well. -/
theorem real_bound_invariant_block (fuel : Nat) (w : World) (hj : w.fl.p002 = true) (h : Nat) (txs : List Tx)
    (rewards : Escrow)
    (hB : total w.st.bal + ((dueAt (Rangers.Props.C06.escrowAtPayout fuel w h txs rewards) h).map (·.2)).sum < 2 ^ 509)
    (a : Addr) :
    get (execBlock fuel w h txs rewards).1.st.bal a < 2 ^ 509 := by
  have h1 := Rangers.Props.C06.block_mints_only_due fuel w hj h txs rewards
  have h2 := get_le_total (execBlock fuel w h txs rewards).1.st.bal a
  omega

/-! ## 2. Stake amounts -/

/-- **`toWei` is `Uint64ToBigInt`** (the refund path: `GetRefundStake` returns `Uint64ToBigInt(refund)`), for
    every `n`. -/
theorem toWei_is_Uint64ToBigInt (n : Nat) : uint64ToBigInt n = ((toWei n : Nat) : Int) := by
  unfold uint64ToBigInt
  rw [toWei_eq, wei]
  push_cast
  rfl

/-- **`v / wei` with the 64-bit range test is `ParseUint(BigIntToStrWithoutDot(v))`**, the argument reader of
    STAKE / UNSTAKE (`opStake` refuses when it is `none`, `opUnStake` takes "all"). -/
theorem stake_target_is_stakeArg (v : Nat) :
    stakeArg (v : Int) = if v / wei > uint64Max then none else some (v / wei) := by
  rw [Rangers.Props.C18Aux.stakeArg_value (v : Int) (by omega)]
  simp only [Int.natAbs_natCast]
  have hw : wei = 10 ^ 18 := by decide
  have hu : uint64Max + 1 = 2 ^ 64 := by decide
  rw [hw]
  by_cases h : v / 10 ^ 18 < 2 ^ 64
  · rw [if_pos h, if_neg (by omega)]
  · rw [if_neg h, if_pos (by omega)]

example : stakeArg ((25 * 10 ^ 17 : Nat) : Int) = some 2 := by decide +kernel

/-- **`toWei` is the stake debit `Float64ToBigInt(float64(n))`** of `AddStake` / `AddMiner` below `2^53` whole
    tokens. -/
theorem toWei_is_stake_debit_partial (n : Nat) (h : n < 2 ^ 53) : stakeToBigInt n = .ok ((toWei n : Nat) : Int) := by
  rw [(Rangers.Props.C18Aux.stake_exact n h).1, toWei_eq, wei]
  push_cast
  rfl

example : stakeToBigInt 400 = .ok 400000000000000000000 := by decide +kernel

/-- What one would like to write: the debit is exact for every 64-bit stake. -/
def FullStatementStakeDebitExact : Prop :=
  ∀ n : Nat, n < 2 ^ 64 → stakeToBigInt n = .ok ((n : Int) * 10 ^ 18)

/-- It is false from `2^53 + 1` on, and the error goes the wrong way for conservation: `AddStake` with
    `2^53 + 1` tokens debits `2^53` tokens (float64 rounding) and raises the stake by `2^53 + 1`; the refund path
    is exact, so refunding that stake pays **one whole token more than was debited**.  Run against the real
    `Float64ToBigInt` / `Uint64ToBigInt` by the `conv` stream (`stk 9007199254740993`).  Unreachable on a
    ledger whose sum of balances is below `2^53` tokens (`AddStake` tests `balance >= debit` first, and
    `real_bound_invariant_tx` keeps the sum from growing); documented in design/C06.md, not a finding. -/
theorem stake_debit_counterexample :
    ¬ FullStatementStakeDebitExact ∧
    stakeToBigInt (2 ^ 53 + 1) = .ok ((2 ^ 53 : Int) * 10 ^ 18) ∧
    uint64ToBigInt (2 ^ 53 + 1) - (2 ^ 53 : Int) * 10 ^ 18 = 10 ^ 18 := by
  refine ⟨Rangers.Props.C18Aux.stake_exact_counterexample, ?_, ?_⟩ <;> decide +kernel

end Rangers.Props.C06Real

namespace Rangers.Props.C06Real
open Rangers.Ledger

/-! ## 3. Intrinsic gas, byte for byte -/

/-- **`intrinsicGas` (on byte counts, as `contractExecute` uses it) is `executor.IntrinsicGas` (on the bytes, in
    uint64 arithmetic with its two overflow guards and the unchecked ×30)** for every input below `2^40` bytes,
    every flag vector, call and creation. -/
theorem intrinsicGas_is_IntrinsicGas (fl : Flags) (create : Bool) (data : List Nat) (h : data.length < 2 ^ 40) :
    intrinsicGasOf fl create data =
      some (intrinsicGas fl create (data.filter (fun b => b != 0)).length
              (data.length - (data.filter (fun b => b != 0)).length)) := by
  have hf : (data.filter (fun b => b != 0)).length ≤ data.length := List.length_filter_le _ _
  unfold intrinsicGasOf intrinsicGas
  simp only []
  generalize (data.filter (fun b => b != 0)).length = nz at hf ⊢
  generalize data.length = L at h hf ⊢
  have e1 : uint64Max = 18446744073709551615 := rfl
  have e2 : txGasCreate = 53000 := rfl
  have e3 : txGas = 21000 := rfl
  have e4 : nonZeroByteGas = 16 := rfl
  have e5 : zeroByteGas = 4 := rfl
  have e6 : gasMagnification = 30 := rfl
  have e7 : (2 : Nat) ^ 40 = 1099511627776 := by decide
  rw [e1, e4, e5, e6, e2, e3]
  rw [e7] at h
  cases create <;> cases fl.p026 <;> simp only [if_true, if_false, Bool.false_eq_true] <;>
    (rw [if_neg (by omega), if_neg (by omega)]) <;> simp only [Option.some.injEq] <;> omega

example : intrinsicGasOf {} false [1, 0, 0, 2] = some ((21000 + 2 * 16 + 2 * 4) * 30) := by decide

/-- The overflow guard exists and answers `none` (`ErrGasUintOverflow`) — for an input of 2^60 non-zero bytes,
    stated on the counts since such a list cannot be written down. What the guards do **not** cover is the
    multiplication by `GasMagnification`: `intrinsicGasOf` wraps there, as the code does. -/
theorem intrinsicGas_magnification_wraps :
    ((18446744073709551615 - 21000) / 16) * 16 + 21000 < 18446744073709551616 ∧
    (((18446744073709551615 - 21000) / 16) * 16 + 21000) * 30 % 18446744073709551616
      < ((18446744073709551615 - 21000) / 16) * 16 + 21000 := by decide

/-! ## 4. RemoveMiner -/

/-- `GetRefundStake` removes through `RemoveMiner` exactly when what is left is below the minimum stake of the
    miner's type, and otherwise rewrites the stake (`UpdateMiner`). -/
theorem getRefundStake_removes_by_removeMiner (r : Reg) (hasCode : Addr → Bool) (id : Nat) (account : Addr) (money : Nat)
    (m : MinerRec) (hm : regGet r id = some m) (ha : m.account = account)
    (hs : (if money = uint64Max then m.stake else money) ≤ m.stake) :
    getRefundStake r hasCode id account money =
      let mo := if money = uint64Max then m.stake else money
      let left := m.stake - mo
      some (if left < minStake m.typ then removeMiner r hasCode m left else regSet r { m with stake := left },
            mo, m.account) := by
  have hid := regGet_id r id m hm
  subst hid
  unfold getRefundStake removeMiner
  rw [hm]
  simp only
  rw [if_neg (by simpa using ha), if_neg (by omega)]
  subst ha
  by_cases h1 : m.stake - (if money = uint64Max then m.stake else money) < minStake m.typ
  · by_cases h2 : m.stake - (if money = uint64Max then m.stake else money) = 0 <;>
      by_cases h3 : hasCode m.account = true <;> simp [h1, h2, h3]
  · simp [h1]

/-- `RemoveMiner` with nothing left lowers the registry stake by exactly the miner's stake, whatever the account is
    (wiped record or zeroed stake slot) — no balance, no escrow entry is written: the stake is gone.  This is what
    the two migrations of `VMExecutor.Execute` (`removeUnusedValidator` at Proposal010Block,
    `removeUnusedValidator1` at Proposal019Block) do to every validator they remove; `execBlock` does not run
    them (design/C06.md, coverage table). -/
theorem removeMiner_all_drops_its_stake (r : Reg) (hasCode : Addr → Bool) (m : MinerRec) (hm : regGet r m.id = some m) :
    stakeSum (removeMiner r hasCode m 0) + toWei m.stake = stakeSum r := by
  unfold removeMiner
  by_cases h : hasCode m.account = true
  · simp only [h, Bool.not_true, Bool.and_false, Bool.false_eq_true, if_false]
    have := stakeSum_regSet r m { m with stake := 0 } hm
    have h0 : toWei 0 = 0 := rfl
    simp only [h0] at this
    omega
  · simp only [h, Bool.not_false, Bool.and_true, decide_true, if_true]
    exact stakeSum_regDel r m.id m hm

end Rangers.Props.C06Real
