import Rangers.Proofs.Evm10Spec
import Rangers.Proofs.Evm10Table
/-!
# C10 — EVM computational opcodes implement the Ethereum specification

Part 1: the word operations.  Each theorem relates a function the model's `execOp`
applies (a transcription of the `opX` wrapper in `src/vm/instructions.go` over the
`holiman/uint256` methods) to the Yellow Paper (Appendix H.2) / EIP-145 definition
written in `Nat` / `Int` arithmetic modulo 2^256.  `x` is always the operand popped
first (μ_s[0]), `y` the second (μ_s[1]).

`sval` (two's-complement reading) is defined in `Proofs/Evm10Spec.lean`.
Memory, stack, jump and table theorems are in `Props/C10B.lean`.
-/
namespace Rangers.Props.C10
open Rangers Rangers.Model.Evm10 Rangers.Model.Evm10.U256 Rangers.Proofs.Evm10

/-! ## 0s: arithmetic -/

/-- ADD: μ'_s[0] = μ_s[0] + μ_s[1] (mod 2^256) -/
theorem add_spec (x y : Word) : (add x y).toNat = (x.toNat + y.toNat) % 2 ^ 256 := by
  simp [add, BitVec.toNat_add]

/-- MUL -/
theorem mul_spec (x y : Word) : (mul x y).toNat = (x.toNat * y.toNat) % 2 ^ 256 := by
  simp [mul, BitVec.toNat_mul]

/-- SUB: μ_s[0] − μ_s[1] modulo 2^256 (as an integer statement) -/
theorem sub_spec (x y : Word) :
    ((sub x y).toNat : Int) = ((x.toNat : Int) - (y.toNat : Int)) % 2 ^ 256 := by
  have hy := y.isLt
  have hx := x.isLt
  simp only [sub, BitVec.toNat_sub]
  omega

/-- DIV: 0 if μ_s[1] = 0, else ⌊μ_s[0] / μ_s[1]⌋ -/
theorem div_spec (x y : Word) :
    (div x y).toNat = if y.toNat = 0 then 0 else x.toNat / y.toNat := by
  rw [div_eq, BitVec.toNat_udiv]
  by_cases h : y.toNat = 0 <;> simp [h]

/-- MOD: 0 if μ_s[1] = 0, else μ_s[0] mod μ_s[1] -/
theorem mod_spec (x y : Word) :
    (mod x y).toNat = if y.toNat = 0 then 0 else x.toNat % y.toNat := by
  by_cases h : y.toNat = 0
  · have : y = 0#256 := BitVec.eq_of_toNat_eq (by simpa using h)
    simp [mod_eq, this]
  · simp [mod_toNat x y h, h]

/-- SDIV: 0 if μ_s[1] = 0; −2^255 if μ_s[0] = −2^255 ∧ μ_s[1] = −1; otherwise the quotient
truncated toward zero, sgn(a/b)·⌊|a/b|⌋ — all in the signed reading. -/
theorem sdiv_spec (x y : Word) :
    sval (sdiv x y) =
      if sval y = 0 then 0
      else if sval x = -2 ^ 255 ∧ sval y = -1 then -2 ^ 255
      else Int.tdiv (sval x) (sval y) := by
  rw [sdiv_eq]
  simp only [sval_eq_toInt]
  by_cases hy : y.toInt = 0
  · have : y = 0#256 := (sval_zero_iff y).1 (by rw [sval_eq_toInt]; exact hy)
    subst this
    simp [BitVec.sdiv_eq]
    cases x.msb <;> simp
  · simp only [hy, if_false]
    by_cases hov : x.toInt = -2 ^ 255 ∧ y.toInt = -1
    · simp only [hov, and_self, if_true]
      have hx : x = BitVec.intMin 256 := by
        apply BitVec.toInt_inj.1; rw [hov.1]; decide
      have hy' : y = -1#256 := by
        apply BitVec.toInt_inj.1; rw [hov.2]; decide
      subst hx hy'
      decide
    · simp only [hov, if_false]
      apply BitVec.toInt_sdiv_of_ne_or_ne
      by_cases hx : x = BitVec.intMin 256
      · right
        intro hy'
        apply hov
        subst hx hy'
        constructor <;> decide
      · exact Or.inl hx

/-- SMOD: 0 if μ_s[1] = 0, else sgn(μ_s[0])·(|μ_s[0]| mod |μ_s[1]|): the remainder of the
truncated division, which has the sign of the dividend. -/
theorem smod_spec (x y : Word) :
    sval (smod x y) = if sval y = 0 then 0 else Int.tmod (sval x) (sval y) := by
  rw [smod_eq]
  by_cases hy : y = 0#256
  · subst hy; simp [sval_eq_toInt]
  · have : sval y ≠ 0 := fun h => hy ((sval_zero_iff y).1 h)
    simp only [hy, this, if_false]
    simp only [sval_eq_toInt, BitVec.toInt_srem]

/-- ADDMOD: 0 if μ_s[2] = 0, else (μ_s[0] + μ_s[1]) mod μ_s[2] with the sum NOT reduced
modulo 2^256 first.  `opAddmod` is the wrapper including its own zero test. -/
theorem addmod_spec (x y m : Word) :
    (opAddmod x y m).toNat = if m.toNat = 0 then 0 else (x.toNat + y.toNat) % m.toNat := by
  unfold opAddmod
  by_cases h : m.toNat = 0
  · have : isZero m = true := (isZero_iff_toNat m).2 h
    simp [this, h]
  · have hz : isZero m = false := by
      cases hh : isZero m
      · rfl
      · exact absurd ((isZero_iff_toNat m).1 hh) h
    simp only [hz, Bool.false_eq_true, if_false, h]
    exact addmod_toNat x y m h

/-- MULMOD: 0 if μ_s[2] = 0, else (μ_s[0] · μ_s[1]) mod μ_s[2] on the full 512-bit product. -/
theorem mulmod_spec (x y m : Word) :
    (mulmod x y m).toNat = if m.toNat = 0 then 0 else (x.toNat * y.toNat) % m.toNat :=
  mulmod_toNat x y m

/-- EXP: μ_s[0] ^ μ_s[1] mod 2^256 — the square-and-multiply loop of `uint256.Exp` over the
bits of the exponent computes the power (induction over the loop). -/
theorem exp_spec (b e : Word) : (exp b e).toNat = b.toNat ^ e.toNat % 2 ^ 256 :=
  exp_toNat b e

/-- SIGNEXTEND(k = μ_s[0], x = μ_s[1]): for k < 31, with t = 8k+7 the sign bit position,
bit i of the result is x_i for i ≤ t and x_t above; for k ≥ 31 the word is unchanged.
`execOp` calls `extendSign num back` with `back` the operand popped first. -/
theorem signextend_spec (k x : Word) (i : Nat) (hi : i < 256) :
    (extendSign x k).getLsbD i =
      if k.toNat < 31 then
        (if i ≤ 8 * k.toNat + 7 then x.getLsbD i else x.getLsbD (8 * k.toNat + 7))
      else x.getLsbD i :=
  extendSign_getLsbD x k i hi

/-! ## 10s: comparison and bitwise logic -/

theorem lt_spec (x y : Word) : lt x y = decide (x.toNat < y.toNat) := rfl
theorem gt_spec (x y : Word) : gt x y = decide (x.toNat > y.toNat) := rfl

/-- SLT: signed comparison in the two's-complement reading -/
theorem slt_spec (x y : Word) : slt x y = decide (sval x < sval y) := by
  rw [slt_eq]; simp only [sval_eq_toInt]

theorem sgt_spec (x y : Word) : sgt x y = decide (sval x > sval y) := by
  rw [sgt_eq]; simp only [sval_eq_toInt, gt_iff_lt]

theorem eq_spec (x y : Word) : eq x y = decide (x.toNat = y.toNat) := by
  unfold eq
  by_cases h : x = y
  · subst h; simp
  · have : x.toNat ≠ y.toNat := fun e => h (BitVec.eq_of_toNat_eq e)
    simp [h, this]

theorem iszero_spec (x : Word) : isZero x = decide (x.toNat = 0) := by
  by_cases h : x.toNat = 0
  · simp [(isZero_iff_toNat x).2 h, h]
  · have : isZero x = false := by
      cases hh : isZero x
      · rfl
      · exact absurd ((isZero_iff_toNat x).1 hh) h
    simp [this, h]

/-- the 0/1 encoding of comparison results pushed on the stack -/
theorem ofBool_spec (b : Bool) : (ofBool b).toNat = if b then 1 else 0 := by
  cases b <;> rfl

theorem and_spec (x y : Word) (i : Nat) : (U256.and x y).getLsbD i = (x.getLsbD i && y.getLsbD i) := by
  simp [U256.and]
theorem or_spec (x y : Word) (i : Nat) : (U256.or x y).getLsbD i = (x.getLsbD i || y.getLsbD i) := by
  simp [U256.or]
theorem xor_spec (x y : Word) (i : Nat) : (U256.xor x y).getLsbD i = (x.getLsbD i ^^ y.getLsbD i) := by
  simp [U256.xor]
/-- NOT: bitwise complement, i.e. 2^256 − 1 − μ_s[0] -/
theorem not_spec (x : Word) : (U256.not x).toNat = 2 ^ 256 - 1 - x.toNat := by
  simp [U256.not, BitVec.toNat_not]

/-- BYTE(i = μ_s[0], x = μ_s[1]): the i-th byte counted from the most significant end,
0 for i ≥ 32 (including every i ≥ 2^64). -/
theorem byte_spec (i x : Word) :
    (byte x i).toNat = if i.toNat < 32 then (x.toNat / 2 ^ (8 * (31 - i.toNat))) % 256 else 0 :=
  byte_toNat x i

/-! ## EIP-145 shifts (shift = μ_s[0], value = μ_s[1]) — one formula for EVERY shift count -/

/-- SHL: (value · 2^shift) mod 2^256; in particular 0 for shift ≥ 256 -/
theorem shl_spec (s v : Word) : (opSHL s v).toNat = (v.toNat * 2 ^ s.toNat) % 2 ^ 256 :=
  opSHL_toNat s v

/-- SHR: ⌊value / 2^shift⌋; in particular 0 for shift ≥ 256 -/
theorem shr_spec (s v : Word) : (opSHR s v).toNat = v.toNat / 2 ^ s.toNat :=
  opSHR_toNat s v

/-- SAR: ⌊value / 2^shift⌋ in the signed reading (floor, so −1 for a negative value and
shift ≥ 256, 0 for a non-negative one). -/
theorem sar_spec (s v : Word) : sval (opSAR s v) = sval v / (2 : Int) ^ s.toNat := by
  simp only [sval_eq_toInt]; exact opSAR_toInt s v

theorem shl_ge_256 (s v : Word) (h : 256 ≤ s.toNat) : opSHL s v = 0#256 := by
  apply BitVec.eq_of_toNat_eq
  rw [shl_spec]
  have : s.toNat = 256 + (s.toNat - 256) := by omega
  rw [this, Nat.pow_add, ← Nat.mul_assoc, Nat.mul_comm v.toNat, Nat.mul_assoc]
  simp

example : (256 : Nat) ≤ (0x100#256 : Word).toNat := by decide

theorem sar_ge_256 (s v : Word) (h : 256 ≤ s.toNat) :
    opSAR s v = if sval v < 0 then allOnes else 0#256 := by
  apply BitVec.toInt_inj.1
  rw [← sval_eq_toInt, sar_spec]
  obtain ⟨hlo, hhi⟩ := toInt_bounds v
  rw [sval_eq_toInt]
  have hpowN : (2:Nat) ^ 256 ≤ 2 ^ s.toNat := Nat.pow_le_pow_right (by omega) h
  have hpow : (2:Int) ^ 256 ≤ (2:Int) ^ s.toNat := by exact_mod_cast hpowN
  by_cases hn : v.toInt < 0
  · simp only [hn, if_true]
    rw [Int.ediv_eq_neg_one_of_neg_of_le hn (by omega)]
    decide
  · simp only [hn, if_false]
    rw [Int.ediv_eq_zero_of_lt (by omega) (by omega)]
    decide

example : (256 : Nat) ≤ (allOnes : Word).toNat ∧ sval (allOnes : Word) < 0 := by decide

end Rangers.Props.C10
