import Rangers.Model.Evm10Interp
import Rangers.Generated.Evm10JumpTable
/-! C10 — property theorems (first instalment; see design/C10.md). -/
namespace Rangers.Props.C10
open Rangers Rangers.Model.Evm10 Rangers.Model.Evm10.U256

/-- ADD is addition modulo 2^256. -/
theorem add_spec (x y : Word) : (add x y).toNat = (x.toNat + y.toNat) % 2 ^ 256 := by
  simp [add, BitVec.toNat_add]

end Rangers.Props.C10
