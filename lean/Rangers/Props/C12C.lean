import Rangers.Props.C04
import Rangers.Model.Evm12Spec
/-!
# C12 ⇐ C04: where `RevertRestoresObs` comes from

The frame theorems of `Props/C12.lean` / `C12B.lean` assume of `RevertToSnapshot` only
`RevertRestoresObs rv` (the observation is restored). This file connects that hypothesis to the C04
theorem `revert_restores_obs_partial` about the journal model `Rangers.Model.Journal` (the model
`drv_c04` executes against the real `AccountDB`):

* `Bridge` / `project`: every component of the C12 observation (existence, nonce, balance, code,
  storage slot, `GetLogs(hash)`, miner stake) is a C04 query on the journal state (the stake is a
  storage slot of the miner database account).
* `c12_obs_from_c04_queries`: states that answer all C04 queries alike have the same projection.
* `c04_revert_restores_c12_obs`: hence, under EXACTLY the hypotheses of C04's theorem -- Proposal002 on,
  state not crashed, revision stack accounted for (`RevsOk`, `Inv`), every op of the region `StepOk`
  (covered op; `SetCode` on a 32-byte code hash, `Suicide` on a canonical balance slot, `AddLog` with
  `logSize + 1 < 2^64` and no empty log list for the hash; no `GetCommittedState`, whose cache side
  effect is C04's own counterexample), the revert itself not panicking -- snapshot, any region, revert
  restores the projected C12 observation. This is `RevertRestoresObs` for a `RevertToSnapshot`
  implemented by the journal.
* `c12_mutators_in_c04_domain`: the journal ops the C12 frame model's mutators correspond to
  (`SetState`→setData, `SetNonce`, `CreateAccount`, `AddBalance`/`SubBalance`, `SetCode`, `Suicide`,
  `AddLog`, `SetTransientState`, `AddAddressToAccessList`, nested `Snapshot`/`RevertToSnapshot`, the
  getters) are all inside C04's proved domain: `Covered`, or one of the three ops with a side
  condition. Neither `GetCommittedState` nor `AddSlotToAccessList` is issued by the frames (the SSTORE
  gas function of this code base is flat and never reads the committed value; EIP-2929 is off).
* `JournalImpl.revert_restores_obs`: the composition in general form -- for ANY abstraction
  function from journal states to C12 worlds that is determined by the C04 queries, the world
  abstracted from the reverted journal has the observation of the world abstracted at the snapshot.

What is NOT proved here (and is covered by the two correspondence runs against the same real
`AccountDB` instead): that each C12 world mutator commutes with the abstraction function (a full
simulation between `Evm12World` and `Journal`).
-/
namespace Rangers.Props.C12C
open Rangers Rangers.Model
open Rangers.Model.Journal (ADB Cfg Op LogRec)

/-- how symbolic C12 entities are laid out in the real state -/
structure Bridge where
  addr : Evm12.Addr → Journal.Addr
  slot : Nat → Journal.Key
  hash : Nat → Journal.Hash
  code : Bytes → Evm12.Code
  log : LogRec → Evm12.Log
  /-- the miner database account and the slot holding the stake of the miner registered for an account -/
  minerDb : Journal.Addr
  stakeKey : Evm12.Addr → Journal.Key

/-- the C12 observation in query form (logs per transaction hash, as `GetLogs` answers) -/
structure Queries where
  exist : Evm12.Addr → Bool
  nonce : Evm12.Addr → Nat
  bal : Evm12.Addr → Nat
  code : Evm12.Addr → Evm12.Code
  stor : Evm12.Addr → Nat → Nat
  getLogs : Nat → List Evm12.Log
  stake : Evm12.Addr → Nat
  sui : Evm12.Addr → Bool

/-- the same of a C12 world -/
def queriesOf (w : Evm12.World) : Queries :=
  { exist := w.exists?, nonce := w.getNonce, bal := w.getBalance, code := w.getCode, stor := w.getState,
    getLogs := w.getLogs, stake := w.getStake, sui := w.hasSuicided }

/-- equal observations answer all queries alike -/
theorem queries_of_obs {w w' : Evm12.World} (h : Evm12.obs w' = Evm12.obs w) : queriesOf w' = queriesOf w := by
  have h1 := congrArg Evm12.Obs.exist h
  have h2 := congrArg Evm12.Obs.nonce h
  have h3 := congrArg Evm12.Obs.bal h
  have h4 := congrArg Evm12.Obs.code h
  have h5 := congrArg Evm12.Obs.stor h
  have h6 : w'.logs = w.logs := congrArg Evm12.Obs.logs h
  have h7 := congrArg Evm12.Obs.stake h
  have h8 := congrArg Evm12.Obs.sui h
  simp only [Evm12.obs] at h1 h2 h3 h4 h5 h7 h8
  simp only [queriesOf, h1, h2, h3, h4, h5, h7, h8]
  congr 1
  funext th
  simp [Evm12.World.getLogs, h6]

/-- projection of a journal state to the C12 queries: each one is a C04 query -/
def project (b : Bridge) (c : Cfg) (s : ADB) : Queries :=
  let q := fun (a : Journal.Addr) (k : Journal.Key) (th : Journal.Hash) => Journal.obs c s a k th []
  { exist := fun a => (q (b.addr a) [] []).exist
    nonce := fun a => (q (b.addr a) [] []).nonce
    bal := fun a => (q (b.addr a) [] []).balance
    code := fun a => b.code (q (b.addr a) [] []).code
    stor := fun a k => beToNat (q (b.addr a) (b.slot k) []).slot
    getLogs := fun th => (q [] [] (b.hash th)).logs.map b.log
    stake := fun a => beToNat (q b.minerDb (b.stakeKey a) []).slot
    sui := fun a => (q (b.addr a) [] []).suicided }

/-- states that answer every C04 query alike have the same C12 projection -/
theorem c12_obs_from_c04_queries (b : Bridge) (c : Cfg) (s s' : ADB)
    (h : ∀ a k th hh, Journal.obs c s' a k th hh = Journal.obs c s a k th hh) :
    project b c s' = project b c s := by
  simp only [project, h]

/-- **C04 ⇒ the hypothesis of C12**, under C04's own side conditions: snapshot, any region of
    `StepOk` ops (nested snapshots and reverts included), revert -- the projected C12 observation is
    the one at the snapshot. -/
theorem c04_revert_restores_c12_obs (b : Bridge) (c : Cfg) (hp : c.p002 = true) (s : ADB) (G : List ADB)
    (ops : List Op) (hs : s.crashed = false) (ok : Proofs.Journal.RevsOk s) (inv : Proofs.Journal.Inv c s G)
    (hrun : Proofs.Journal.RunOk (C04.StepOk c) c (Journal.snapshot s).1 ops)
    (hnc : (Journal.revert c (Journal.run c (Journal.snapshot s).1 ops) (Journal.snapshot s).2).crashed = false) :
    project b c (Journal.revert c (Journal.run c (Journal.snapshot s).1 ops) (Journal.snapshot s).2)
      = project b c s :=
  c12_obs_from_c04_queries b c s _
    (fun a k th hh => C04.revert_restores_obs_partial c hp s G ops hs ok inv hrun hnc a k th hh)

/-- non-vacuity: C04's demo region (writes of every covered kind with nested snapshots) satisfies the
    side conditions from the empty state -/
example : Proofs.Journal.RunOk (C04.StepOk C04.c0) C04.c0 (Journal.snapshot ADB.empty).1 C04.demoOps := by
  decide

/-- the journal ops behind the mutators and getters of the C12 frame model are all in C04's domain -/
theorem c12_mutators_in_c04_domain (a t : Journal.Addr) (k v : Bytes) (n id : Nat) (code h topics data : Bytes) :
    C04.Covered (.setData a k v) = true ∧ C04.Covered (.setNonce a n) = true ∧ C04.Covered (.create a) = true
    ∧ C04.Covered (.addBal a n) = true ∧ C04.Covered (.subBal a n) = true ∧ C04.Covered (.transfer a t n) = true
    ∧ C04.Covered (.tset a k v) = true ∧ C04.Covered (.alAddr a) = true
    ∧ C04.Covered .snapshot = true ∧ C04.Covered (.revert id) = true
    ∧ C04.Covered (.qExist a) = true ∧ C04.Covered (.qNonce a) = true ∧ C04.Covered (.qBal a) = true
    ∧ C04.Covered (.qData a k) = true ∧ C04.Covered (.qCode a) = true ∧ C04.Covered (.qCodeHash a) = true
    ∧ C04.Covered (.qSuicided a) = true ∧ C04.Covered (.qEmpty a) = true
    ∧ (∀ c s, C04.StepOk c s (.setCode a code h) ↔ C04.CodeHashOk s a)
    ∧ (∀ c s, C04.StepOk c s (.suicide a) ↔ Proofs.Journal.SuicideOk c s a)
    ∧ (∀ c s, C04.StepOk c s (.addLog a topics data) ↔ Proofs.Journal.AddLogOk s)
    ∧ C04.Covered (.qCommitted a k) = false := by
  refine ⟨rfl, rfl, rfl, rfl, rfl, rfl, rfl, rfl, rfl, rfl, rfl, rfl, rfl, rfl, rfl, rfl, rfl, rfl, ?_, ?_, ?_, rfl⟩
  · intro c s; exact Iff.rfl
  · intro c s; exact Iff.rfl
  · intro c s; exact Iff.rfl

/-- A journaled implementation of the C12 world: an abstraction function whose observation is determined
    by the C04 queries (e.g. via `project`). -/
structure JournalImpl where
  c : Cfg
  abs : ADB → Evm12.World
  determined : ∀ s s', (∀ a k th hh, Journal.obs c s' a k th hh = Journal.obs c s a k th hh) →
    Evm12.obs (abs s') = Evm12.obs (abs s)

/-- non-vacuity: an abstraction that reads two accounts' nonce, balance and one slot off the journal -/
example (c : Cfg) : JournalImpl :=
  { c := c
    abs := fun s =>
      { nonce := [(.base 1, (Journal.obs c s [1] [] [] []).nonce), (.base 2, (Journal.obs c s [2] [] [] []).nonce)]
        bal := [(.base 1, (Journal.obs c s [1] [] [] []).balance)]
        stor := [((.base 2, 0), beToNat (Journal.obs c s [2] [0] [] []).slot)] }
    determined := by
      intro s s' h
      simp only [h] }

/-- the composition in general form: the world abstracted from the reverted journal has the observation
    of the world abstracted at the snapshot -- `RevertRestoresObs` for `rv (abs s) _ := abs (revert …)` -/
theorem JournalImpl.revert_restores_obs (J : JournalImpl) (hp : J.c.p002 = true) (s : ADB) (G : List ADB)
    (ops : List Op) (hs : s.crashed = false) (ok : Proofs.Journal.RevsOk s) (inv : Proofs.Journal.Inv J.c s G)
    (hrun : Proofs.Journal.RunOk (C04.StepOk J.c) J.c (Journal.snapshot s).1 ops)
    (hnc : (Journal.revert J.c (Journal.run J.c (Journal.snapshot s).1 ops) (Journal.snapshot s).2).crashed = false) :
    Evm12.obs (J.abs (Journal.revert J.c (Journal.run J.c (Journal.snapshot s).1 ops) (Journal.snapshot s).2))
      = Evm12.obs (J.abs s) :=
  J.determined s _ (fun a k th hh => C04.revert_restores_obs_partial J.c hp s G ops hs ok inv hrun hnc a k th hh)

end Rangers.Props.C12C
