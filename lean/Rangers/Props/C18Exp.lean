import Rangers.Proofs.DecimalExp
/-!
# C18 (hardening round, continued) — exponent forms are exact too

`StrToBigInt` accepts `[sign] digits ["." digits] (e|E) [sign] digits` (a lead of DESIGN 6:
not a decimal string in C18's sense, but accepted wherever an amount string is). These
theorems show that such amounts are converted without loss as well: the value
`N·10^(K-f)` (N the digit value, f the number of fraction digits, K the exponent) times
`10^d` is truncated exactly, under the same `2^510` bound, as long as `|K - f| ≤ 248`
(`pow5` exact). Compared with the Go code by the `parse`/`pf` ops on exponent strings.
-/
namespace Rangers.Props.C18Exp
open Rangers.Decimal

/-- exponent not larger than the number of fraction digits (all negative exponents):
    `strToBigInt = ± ⌊N·10^d / 10^(f-K)⌋`. -/
theorem exponent_form_small (sg : Option Bool) (ip fp : Str) (dot upper : Bool) (esg : Option Bool) (eds : Str)
    (d : Nat) (hip : allDig ip) (hfp : allDig fp) (hdot : dot = false → fp = []) (hne : ip ++ fp ≠ [])
    (hed : allDig eds) (hene : eds ≠ [])
    (hK : expVal esg eds ≤ fp.length) (hg : (fp.length : Int) - expVal esg eds ≤ 248) (hf : fp.length ≤ 1000000)
    (hbound : Nat.ofDigitChars 10 (ip ++ fp) 0 * 10 ^ (d - ((fp.length : Int) - expVal esg eds).toNat) < 2 ^ 510) :
    strToBigInt (signStr sg ++ (plainBody ip fp dot ++ expSuffix upper esg eds)) (d : Int) =
      .ok (if signNeg sg then
            -((Nat.ofDigitChars 10 (ip ++ fp) 0 * 10 ^ d / 10 ^ ((fp.length : Int) - expVal esg eds).toNat : ℕ) : Int)
           else ((Nat.ofDigitChars 10 (ip ++ fp) 0 * 10 ^ d / 10 ^ ((fp.length : Int) - expVal esg eds).toNat : ℕ) : Int)) :=
  strToBigInt_exp_small sg ip fp dot upper esg eds d hip hfp hdot hne hed hene hK hg hf hbound

example : signStr (some true) ++ (plainBody "1".toList "5".toList true ++ expSuffix false (some true) "3".toList)
      = "-1.5e-3".toList ∧ expVal (some true) "3".toList = -3 ∧
    strToBigInt "-1.5e-3".toList 18 = .ok (-1500000000000000) := by decide +kernel

/-- exponent larger than the number of fraction digits: the integer `± N·10^(K-f+d)`. -/
theorem exponent_form_large (sg : Option Bool) (ip fp : Str) (dot upper : Bool) (esg : Option Bool) (eds : Str)
    (d : Nat) (hip : allDig ip) (hfp : allDig fp) (hdot : dot = false → fp = []) (hne : ip ++ fp ≠ [])
    (hed : allDig eds) (hene : eds ≠ [])
    (hK : (fp.length : Int) < expVal esg eds) (hg : expVal esg eds - fp.length ≤ 248) (hf : fp.length ≤ 900000)
    (hbound : Nat.ofDigitChars 10 (ip ++ fp) 0 * 10 ^ ((expVal esg eds - fp.length).toNat + d) < 2 ^ 510) :
    strToBigInt (signStr sg ++ (plainBody ip fp dot ++ expSuffix upper esg eds)) (d : Int) =
      .ok (if signNeg sg then
            -((Nat.ofDigitChars 10 (ip ++ fp) 0 * 10 ^ ((expVal esg eds - fp.length).toNat + d) : ℕ) : Int)
           else ((Nat.ofDigitChars 10 (ip ++ fp) 0 * 10 ^ ((expVal esg eds - fp.length).toNat + d) : ℕ) : Int)) :=
  strToBigInt_exp_large sg ip fp dot upper esg eds d hip hfp hdot hne hed hene hK hg hf hbound

example : signStr none ++ (plainBody "1".toList [] false ++ expSuffix false none "30".toList) = "1e30".toList ∧
    expVal none "30".toList = 30 ∧ strToBigInt "1e30".toList 18 = .ok (10 ^ 48) ∧
    strToBigInt "2.5E+3".toList 18 = .ok (2500 * 10 ^ 18) := by decide +kernel

end Rangers.Props.C18Exp
