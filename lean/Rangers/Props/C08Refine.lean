import Rangers.Model.RLP
import Rangers.Model.RLPTyped
import Rangers.Proofs.RLPKindRefine
import Rangers.Proofs.RLPTypedFuel
import Rangers.Proofs.RLPStreamRefine
import Rangers.Proofs.RLPStreamRefine2
/-!
# C08 — the decoders agree with each other

* `readKind_agrees_readHead`: raw.go's header parser and the Stream's (slice form) accept the same
  headers with the same boundaries, up to the single-byte canonicity check the Stream makes later.
* `any_refines_decodeItem`: whatever the generic item decoder (`decodeItem`, on raw.go's parser)
  accepts, the Stream-style `interface{}` decoder (`decT .any`: `decodeInterface` with list bounds as
  slices, executed by the driver for `dec any`) accepts with the same value and the same rest;
  `any_accepts_canonical`: and what *it* accepts is canonical.  (The state-machine model `sDecodeAny`
  is tied to both by the correspondence run: `any` vs `anyp` vs `dec any` on the same bytes.)
-/
namespace Rangers.Props.C08
open Rangers Rangers.RLP

theorem readKind_agrees_readHead (b : Bytes) (k : Kind) (ts cs : Nat) :
    readKind b = .ok (k, ts, cs) ↔
      (readHead b = .ok (k, ts, cs) ∧ ¬ (k = .string ∧ cs = 1 ∧ headLt128 (b.drop ts) = true)) :=
  readKind_iff_readHead b k ts cs

set_option maxRecDepth 8192 in
example : readHead [0x81, 0x05] = .ok (.string, 1, 1) ∧ readKind [0x81, 0x05] = .error .canonSize := by
  constructor <;> rfl

/-- generic decoding through the Stream-style decoder returns what `decodeItem` returns -/
theorem any_refines_decodeItem (b : Bytes) (it : Item) (rest : Bytes) (h : decodeItem b = .ok (it, rest))
    (f : Nat) (hf : vfuel (ofItem it) + 1 ≤ f) : decT f .any b = .ok (ofItem it, rest) := by
  have hb : b = encode it ++ rest := (dec_sound _).1 b it rest h
  have hok : it.sizeOK := (decoded_sizeOK _).1 b it rest h
  have := (typed_complete f).1 .any (ofItem it) (encode it) rest (wfv_any_ofItem it hok) (encT_any_ofItem it)
    (by simp only [axtra]; omega)
  rw [norm_any_ofItem] at this
  rw [hb]; exact this

/-- … in particular `DecodeBytes(b, &interface{})` at the typed level -/
theorem decodeTy_any_of_decodeBytes (b : Bytes) (it : Item) (h : decodeBytes b = .ok it) :
    decodeTy .any b = .ok (ofItem it) := by
  unfold decodeBytes at h
  cases hd : decodeItem b with
  | error e => rw [hd] at h; cases h
  | ok r =>
    obtain ⟨it', rest⟩ := r
    rw [hd] at h
    simp only at h
    split at h
    · rename_i he
      injection h with h; subst h
      have hr : rest = [] := by simpa using he
      subst hr
      have h1 := any_refines_decodeItem b it' [] hd (vfuel (ofItem it') + 1) (Nat.le_refl _)
      have h2 := decT_mono_le (Nat.le_max_left (vfuel (ofItem it') + 1) (typedFuel .any b)) .any b _ h1 (by simp)
      have h3 := typed_fuel_suffices .any b
      have h4 := decT_mono_le (Nat.le_max_right (vfuel (ofItem it') + 1) (typedFuel .any b)) .any b _ rfl h3
      unfold decodeTy
      rw [← h4, h2]; simp
    · cases h

/-- and what the Stream-style decoder accepts is the canonical encoding of the value it returns -/
theorem any_accepts_canonical (b : Bytes) (v : Val) (h : decodeTy .any b = .ok v) : encT .any v = .ok b := by
  unfold decodeTy at h
  cases hd : decT (typedFuel .any b) .any b with
  | error e => rw [hd] at h; cases h
  | ok r =>
    obtain ⟨v', rest⟩ := r
    rw [hd] at h
    simp only at h
    split at h
    · rename_i he
      injection h with h; subst h
      obtain ⟨e, he1, he2⟩ := (typed_sound _).1 .any b v' rest (by simp [Ty.plain]) hd
      have hr : rest = [] := by simpa using he
      rw [hr, List.append_nil] at he2
      rw [he2]; exact he1
    · cases h

/-! ## The `Stream` state machine refines the slice parser, at any nesting depth

State: a `DecodeBytes`-style stream (`limited`, `remaining = len(inp)`) positioned at an element
boundary (`kind = none`) with any stack of open lists; the *visible window* is what the innermost
list (or the input limit) still allows: `inp.take (avail stack len)`. -/

/-- `Kind()` returns exactly the header the slice parser `readHead` finds in the visible window (kind,
    size; 0 for a single byte), consumes exactly the header bytes from reader, list position and
    input budget, and caches it without error. -/
theorem stream_kind_refines_readHead (s : Stream) (x : UInt8) (tl : Bytes) (st : List (Nat × Nat))
    (k : Kind) (ts cs : Nat) (hc : Core s (x :: tl) st) (hk : s.kind = none)
    (ha1 : 1 ≤ avail st (x :: tl).length) (hav : avail st (x :: tl).length ≤ (x :: tl).length)
    (hh : readHead ((x :: tl).take (avail st (x :: tl).length)) = .ok (k, ts, cs)) :
    (sKind s).1 = .ok (k, kSize k cs) ∧
    Core (sKind s).2 ((x :: tl).drop (hdrLen k ts)) (bump st (hdrLen k ts)) ∧
    (sKind s).2.kind = some k ∧ (sKind s).2.kinderr = none :=
  let ⟨h1, h2, h3, _, h5, _⟩ := sKind_ok hc hk ha1 hav hh
  ⟨h1, h2, h3, h5⟩

/-- `Bytes()` returns exactly the content the slice parser delimits and leaves the stream at the next
    element boundary (reader, list position and budget advanced by header + content, `Kind` re-armed). -/
theorem stream_bytes_refines (s : Stream) (x : UInt8) (tl : Bytes) (st : List (Nat × Nat))
    (k : Kind) (ts cs : Nat) (hc : Core s (x :: tl) st) (hk : s.kind = none)
    (ha1 : 1 ≤ avail st (x :: tl).length) (hav : avail st (x :: tl).length ≤ (x :: tl).length)
    (hh : readHead ((x :: tl).take (avail st (x :: tl).length)) = .ok (k, ts, cs)) (hnl : k ≠ .list)
    (hcanon : ¬ (k = .string ∧ cs = 1 ∧ headLt128 (((x :: tl).take (avail st (x :: tl).length)).drop ts) = true)) :
    (sBytes s).1 = .ok ((((x :: tl).take (avail st (x :: tl).length)).drop ts).take cs) ∧
    Core (sBytes s).2 ((x :: tl).drop (ts + cs)) (bump st (ts + cs)) ∧ (sBytes s).2.kind = none :=
  sBytes_ok hc hk ha1 hav hh hnl hcanon

-- non-vacuity: inside an open list with one byte already consumed
example : Core (runOps [.list, .bytes] (newStream [0xc4, 0x01, 0x82, 0xaa, 0xbb] 0)) [0x82, 0xaa, 0xbb] [(1, 4)] :=
  ⟨rfl, rfl, rfl, rfl⟩
example : (sBytes (runOps [.list, .bytes] (newStream [0xc4, 0x01, 0x82, 0xaa, 0xbb] 0))).1 = .ok [0xaa, 0xbb] := by rfl

/-- The state machine refines the pure decoder, from any element boundary at any nesting depth:
    if `decodeItem`'s recursive descent accepts the visible window as `(it, rest)`, generic decoding
    through the Stream methods (`Kind`, `List`, `Bytes`, `ListEnd`, the element loop) returns `it` and
    leaves reader, list positions and input budget advanced by exactly the bytes of the item. -/
theorem stream_refines_decodeItem_at (f : Nat) (s : Stream) (inp : Bytes) (st : List (Nat × Nat)) (it : Item)
    (rest : Bytes) (hc : Core s inp st) (hk : s.kind = none) (hav : avail st inp.length ≤ inp.length)
    (h : decItemF f (inp.take (avail st inp.length)) = .ok (it, rest)) :
    ∃ n, n + rest.length = avail st inp.length ∧ (sDecodeAny (f + 1) s).1 = .ok it ∧
      Core (sDecodeAny (f + 1) s).2 (inp.drop n) (bump st n) ∧ (sDecodeAny (f + 1) s).2.kind = none :=
  (stream_refines f).1 s inp st it rest hc hk hav h

/-- … and the element loop inside an open list yields exactly the items of the list payload, ending
    at the end of the list (`pos = size`), so `ListEnd` succeeds. -/
theorem stream_elements_refine (f : Nat) (s : Stream) (inp : Bytes) (p sz : Nat) (r : List (Nat × Nat))
    (xs : List Item) (hc : Core s inp ((p, sz) :: r)) (hk : s.kind = none) (hav : sz - p ≤ inp.length)
    (hps : p ≤ sz) (h : decItemsF f (inp.take (sz - p)) = .ok xs) :
    (sAnyElems (f + 1) s).1 = .ok xs ∧ Core (sAnyElems (f + 1) s).2 (inp.drop (sz - p)) ((sz, sz) :: r) ∧
      (sAnyElems (f + 1) s).2.kind = none :=
  (stream_refines f).2 s inp p sz r xs hc hk hav hps h

/-- `DecodeBytes(b, &interface{})` through the `Stream` state machine accepts everything the pure
    decoder accepts, with the same item (and `encode_decode` makes that item's encoding `b`). -/
theorem stream_refines_decodeItem (b : Bytes) (it : Item) (h : decodeBytes b = .ok it) :
    sDecodeBytesAny b = .ok it := by
  unfold decodeBytes at h
  cases hd : decodeItem b with
  | error e => rw [hd] at h; cases h
  | ok t =>
    obtain ⟨it', rest⟩ := t
    rw [hd] at h
    simp only at h
    split at h
    · rename_i he
      injection h with h; subst h
      have hr : rest = [] := by simpa using he
      subst hr
      have hcore : Core (newStream b b.length) b [] := ⟨rfl, by simp [newStream], rfl, rfl⟩
      have hm := dec_mono_le (show itemFuel b ≤ 2 * b.length + 3 by unfold itemFuel; omega) b _ hd (by simp)
      have hw : b.take (avail [] b.length) = b := by simp [avail]
      obtain ⟨n, hn, a1, a2, _⟩ := (stream_refines (2 * b.length + 3)).1 (newStream b b.length) b [] it' [] hcore rfl
        (by simp [avail]) (by rw [hw]; exact hm)
      unfold sDecodeBytesAny anyFuel
      have hinp : (newStream b b.length).inp = b := rfl
      rw [hinp]
      cases hr : sDecodeAny (2 * b.length + 4) (newStream b b.length) with
      | mk res s1 =>
        rw [hr] at a1 a2
        simp only at a1 a2
        subst a1
        simp only
        have : s1.inp = [] := by
          rw [a2.inp_eq]
          simp only [avail, List.length_nil, Nat.add_zero] at hn
          rw [hn]; simp
        simp [this]
    · cases h


-- non-vacuity (through the theorem: evaluating the state machine by `rfl` is needlessly expensive)
set_option maxRecDepth 8192 in
example : sDecodeBytesAny [0xc4, 0x01, 0xc1, 0x80, 0x05] = .ok (.list [.str [1], .list [.str []], .str [5]]) :=
  stream_refines_decodeItem _ _ (by rfl)

end Rangers.Props.C08
