import Rangers.Model.RLP
import Rangers.Model.RLPTyped
import Rangers.Proofs.RLPKindRefine
import Rangers.Proofs.RLPTypedFuel
/-!
# C08 — the decoders agree with each other

* `readKind_agrees_readHead`: raw.go's header parser and the Stream's (slice form) accept the same
  headers with the same boundaries, up to the single-byte canonicity check the Stream makes later.
* `any_refines_decodeItem`: whatever the generic item decoder (`decodeItem`, on raw.go's parser)
  accepts, the Stream-style `interface{}` decoder (`decT .any`: `decodeInterface` with list bounds as
  slices, executed by the driver for `dec any`) accepts with the same value and the same rest;
  `any_accepts_canonical`: and what *it* accepts is canonical.  (The state-machine model `sDecodeAny`
  is tied to both by the correspondence run: `any` vs `anyp` vs `dec any` on the same bytes.)
-/
namespace Rangers.Props.C08
open Rangers Rangers.RLP

theorem readKind_agrees_readHead (b : Bytes) (k : Kind) (ts cs : Nat) :
    readKind b = .ok (k, ts, cs) ↔
      (readHead b = .ok (k, ts, cs) ∧ ¬ (k = .string ∧ cs = 1 ∧ headLt128 (b.drop ts) = true)) :=
  readKind_iff_readHead b k ts cs

set_option maxRecDepth 8192 in
example : readHead [0x81, 0x05] = .ok (.string, 1, 1) ∧ readKind [0x81, 0x05] = .error .canonSize := by
  constructor <;> rfl

/-- generic decoding through the Stream-style decoder returns what `decodeItem` returns -/
theorem any_refines_decodeItem (b : Bytes) (it : Item) (rest : Bytes) (h : decodeItem b = .ok (it, rest))
    (f : Nat) (hf : vfuel (ofItem it) + 1 ≤ f) : decT f .any b = .ok (ofItem it, rest) := by
  have hb : b = encode it ++ rest := (dec_sound _).1 b it rest h
  have hok : it.sizeOK := (decoded_sizeOK _).1 b it rest h
  have := (typed_complete f).1 .any (ofItem it) (encode it) rest (wfv_any_ofItem it hok) (encT_any_ofItem it)
    (by simp only [axtra]; omega)
  rw [norm_any_ofItem] at this
  rw [hb]; exact this

/-- … in particular `DecodeBytes(b, &interface{})` at the typed level -/
theorem decodeTy_any_of_decodeBytes (b : Bytes) (it : Item) (h : decodeBytes b = .ok it) :
    decodeTy .any b = .ok (ofItem it) := by
  unfold decodeBytes at h
  cases hd : decodeItem b with
  | error e => rw [hd] at h; cases h
  | ok r =>
    obtain ⟨it', rest⟩ := r
    rw [hd] at h
    simp only at h
    split at h
    · rename_i he
      injection h with h; subst h
      have hr : rest = [] := by simpa using he
      subst hr
      have h1 := any_refines_decodeItem b it' [] hd (vfuel (ofItem it') + 1) (Nat.le_refl _)
      have h2 := decT_mono_le (Nat.le_max_left (vfuel (ofItem it') + 1) (typedFuel .any b)) .any b _ h1 (by simp)
      have h3 := typed_fuel_suffices .any b
      have h4 := decT_mono_le (Nat.le_max_right (vfuel (ofItem it') + 1) (typedFuel .any b)) .any b _ rfl h3
      unfold decodeTy
      rw [← h4, h2]; simp
    · cases h

/-- and what the Stream-style decoder accepts is the canonical encoding of the value it returns -/
theorem any_accepts_canonical (b : Bytes) (v : Val) (h : decodeTy .any b = .ok v) : encT .any v = .ok b := by
  unfold decodeTy at h
  cases hd : decT (typedFuel .any b) .any b with
  | error e => rw [hd] at h; cases h
  | ok r =>
    obtain ⟨v', rest⟩ := r
    rw [hd] at h
    simp only at h
    split at h
    · rename_i he
      injection h with h; subst h
      obtain ⟨e, he1, he2⟩ := (typed_sound _).1 .any b v' rest (by simp [Ty.plain]) hd
      have hr : rest = [] := by simpa using he
      rw [hr, List.append_nil] at he2
      rw [he2]; exact he1
    · cases h

end Rangers.Props.C08
