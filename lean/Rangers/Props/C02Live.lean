import Rangers.Proofs.TrieLiveRun
import Rangers.Props.C02
/-!
# C02, the live trie: cache flags, unloaded (hash) nodes, lazy resolution, cache generations

`Trie.lstep` (Model/TrieMachine.lean, executed by `Drive/C02.lean`) is the trie as it sits in
memory: `nodeFlag{hash,gen,dirty}` on every node, clean subtrees unloaded to `hashNode`s by
`Commit` according to the cache-generation rule, `tryGet`/`insert`/`delete` resolving hash nodes
against the node database on demand (including the `resolve` inside `delete`'s branch reduction),
`hasher.hash` reusing cached hashes.  These theorems say that none of this is observable:
every operation answers what the fully loaded, flag-free model of `Props/C02.lean` answers.

Hypothesis `HistoryHashOK H ops`: **among the nodes that occur in the history** (`Occurs ops`: every
node of every intermediate trie — a finite set) no two different ones share a hash, none hashes to
one of the two constants `NewTrie` takes for "empty trie", and digests are 32 bytes.  (A hypothesis
over *all* nodes would be unsatisfiable by any 32-byte hash and make the theorems vacuous; an
earlier version of this file had that flaw.)  `Sim H U lt t`: the live trie `lt` stands for the loaded trie `t`
(`AbsR`: same shape up to unloaded subtrees whose hash is in the store; `FlagOK`: every cached
hash is the node's hash, every clean node is in the store).
-/
namespace Rangers.Props.C02Live
open Rangers Rangers.Trie

/-- **lazy resolution is transparent**: a hash node standing for `t` resolves (`resolveHash` →
    `expandNode`) to a loaded node standing for `t`; needs no collision hypothesis. -/
theorem resolve_transparent (H : Bytes → Bytes) (st : Store) (child : Bool) (t : Node) (l : LNode)
    (h : HashOf H st child t l) (gen : Nat) :
    ∃ l', resolveHash st gen (H (enc H t)) = some l' ∧ AbsL H st child t l' :=
  resolve_hashOf h gen

/-- `tryGet` on a partially unloaded trie reads what the loaded trie reads, and the path it
    caches back into the trie still stands for the same trie -/
theorem get_on_partial_trie (H : Bytes → Bytes) (st : Store) (gen : Nat) (t : Node) (child : Bool) (l : LNode)
    (key : Key) (f : Nat) (ht : WFRoot t) (hk : ValidKey key) (habs : AbsR H st child t l)
    (hf : 2 * key.length + 2 ≤ f) :
    ∃ l' dr, getL st gen f l key = some (get t key, l', dr) ∧ AbsR H st child t l' :=
  getL_refines H st gen t child l key f ht hk habs hf

/-- `insert` on a partially unloaded trie: same dirty result, and the new live trie stands for
    the loaded trie after the same insert (hence same content, same root) -/
theorem insert_on_partial_trie (H : Bytes → Bytes) (st : Store) (gen : Nat) (val : Bytes) (t : Node)
    (child : Bool) (l : LNode) (key : Key) (f : Nat) (ht : WFRoot t) (hk : ValidKey key)
    (habs : AbsR H st child t l) (hf : 2 * key.length + 2 ≤ f) :
    ∃ l', insertL st gen f l key (.value val) = some ((insert t key (.value val)).1, l') ∧
      AbsL H st child (insert t key (.value val)).2 l' :=
  insertL_refines H st gen val t child l key f ht hk habs hf

/-- `delete` on a partially unloaded trie, including the resolution of the remaining child in the
    branch reduction -/
theorem delete_on_partial_trie (H : Bytes → Bytes) (st : Store) (gen : Nat) (t : Node)
    (child : Bool) (l : LNode) (key : Key) (f : Nat) (ht : WFRoot t) (hk : ValidKey key)
    (habs : AbsR H st child t l) (hf : 2 * key.length + 2 ≤ f) :
    ∃ l', deleteL st gen f l key = some ((delete t key).1, l') ∧ AbsL H st child (delete t key).2 l' :=
  deleteL_refines H st gen t child l key f ht hk habs hf

/-- **the hasher**: whatever mixture of cached hashes, dirty nodes and unloaded subtrees the live
    trie is, `hasher.hash` returns the reference the loaded model computes (`refOf`, or the hash
    when forced), leaves a live trie that still stands for `t` (with truthful flags, whichever
    clean nodes the cache-generation rule unloaded), only adds to the store, and with a database
    stores every node of `t`. -/
theorem hasher_spec (H : Bytes → Bytes) (U : Node → Prop) (hnc : NoColl H U) (hcl : ClosedU U) (gen limit : Nat)
    (withDb : Bool) (t : Node) (ht : WF t) (hU : U t) (child : Bool) (l : LNode) (st : Store)
    (hs : StoreSound H U st) (habs : AbsR H st child t l) :
    HashSpec H U st withDb child t (hashL H gen limit withDb l (!child) st) :=
  hashL_spec hnc hcl gen limit withDb t ht hU child l st hs habs

/-- **the disk path**: `decodeNode` on the RLP blob the hasher wrote for a minimal-form node
    (children embedded when < 32 bytes, otherwise 32-byte hash references; hex-prefix keys) yields
    exactly the live node `expandNode` builds from the collapsed node kept in the memory cache.
    Hypotheses: hashes are 32 bytes long, the blob is shorter than 2^64 bytes. -/
theorem decodeNode_encodeNode (H : Bytes → Bytes) (h32 : ∀ x, (H x).length = 32) (gen : Nat) (t : Node)
    (ht : WF t) (hsz : (enc H t).length < 256 ^ 8) (hh : Option Bytes) (f : Nat) (rest : Bytes)
    (hf : 20 * (enc H t).length + 20 ≤ f) :
    decodeNode gen f hh (enc H t ++ rest) = expandNode gen hh (collapse H t) := by
  rw [← (encC_collapse H t ht).1]
  exact decodeNode_collapse H h32 gen t ht hsz hh f rest hf

/-- …so resolving from disk and resolving from the memory cache agree -/
theorem disk_path_eq_memory_path (H : Bytes → Bytes) (h32 : ∀ x, (H x).length = 32) (st : Store) (gen : Nat)
    (t : Node) (ht : WF t) (hsz : (enc H t).length < 256 ^ 8) (h : Bytes)
    (hlk : st.lookup h = some (collapse H t)) : resolveHashDisk st gen h = resolveHash st gen h :=
  resolveHashDisk_eq H h32 st gen t ht hsz h hlk

-- non-vacuity: the executable Keccak-256 returns 32 bytes; a one-leaf trie is small
example : ∀ x, (Keccak.keccak256 x).length = 32 := by intro x; simp [Keccak.keccak256, Keccak.laneBytes]
example (H : Bytes → Bytes) : WF (run [.upd [1] [2]]) ∧ (enc H (run [.upd [1] [2]])).length < 256 ^ 8 := by
  have hr : run [.upd [1] [2]] = .short [0, 1, 16] (.value [2]) := rfl
  refine ⟨(C02.run_wf _).resolve_left (by rw [hr]; simp), ?_⟩
  have : (enc H (run [.upd [1] [2]])).length = 5 := by rw [hr]; rfl
  rw [this]; decide

/-- one step of the two machines: same observation, simulation preserved -/
theorem live_step_refines (H : Bytes → Bytes) (U : Node → Prop) (hok : HashOK H U) (F : Nat) (lt : LTrie) (t : Node)
    (h : Sim H U lt t) (hF : 2 * height t + 2 ≤ F) (hsz : (enc H t).length < 256 ^ 8) (hU : U t) (op : Op) :
    (lstep H F lt op).2 = (nstep H t op).2 ∧ Sim H U (lstep H F lt op).1 (nstep H t op).1 :=
  sim_step hok F h hF hsz hU op

/-- the assumption on the hash function, restricted to the nodes that occur in the history -/
structure HistoryHashOK (H : Bytes → Bytes) (ops : List Op) : Prop where
  nocoll : NoColl H (Occurs ops)
  noconst : ∀ t, Occurs ops t → WF t → H (enc H t) ≠ emptyRoot ∧ H (enc H t) ≠ List.replicate 32 0
  len32 : ∀ x, (H x).length = 32

theorem HistoryHashOK.toHashOK {H : Bytes → Bytes} {ops : List Op} (h : HistoryHashOK H ops) : HashOK H (Occurs ops) :=
  ⟨h.nocoll, closedU_occurs ops, h.noconst, h.len32⟩

/-- **unloading, reloading and caching are unobservable**: over any history of updates, deletes,
    reads, `Hash`, `Commit`, reopen, cache-limit changes and iterations, the live trie answers
    exactly what the fully loaded trie answers.  The iteration fuel only has to cover the longest
    key written (`4 * maxKeyBytes + 6`; the driver uses 8200). -/
theorem live_run_observes (H : Bytes → Bytes) (ops : List Op) (hok : HistoryHashOK H ops) (F : Nat)
    (hF : 4 * maxKeyBytes ops + 6 ≤ F)
    (hsz : ∀ pre, pre <+: ops → (enc H (run pre)).length < 256 ^ 8) :
    (lrun H F LTrie.empty ops).2 = (nrun H .nil ops).2 ∧ Sim H (Occurs ops) (lrun H F LTrie.empty ops).1 (run ops) := by
  have := lrun_sim hok.toHashOK F ops LTrie.empty .nil (sim_empty H _) (fun pre hp => occurs_run hp) (fun pre hp => by
    have h1 := height_run_le pre
    have h2 := maxKeyBytes_prefix hp
    show 2 * height (run pre) + 2 ≤ F
    omega) hsz
  rw [nrun_nil_state] at this
  exact this

/-- the loaded machine's state is the `run` of `Props/C02`, so all its theorems transfer -/
theorem loaded_machine_state (H : Bytes → Bytes) (ops : List Op) : (nrun H .nil ops).1 = run ops :=
  nrun_nil_state H ops

/-- reads on the live trie return the last write (via `Props.C02.reads_last_write`) -/
theorem live_reads_last_write (H : Bytes → Bytes) (ops : List Op) (hok : HistoryHashOK H ops) (F : Nat) (k : Bytes)
    (hF : 4 * maxKeyBytes ops + 6 ≤ F)
    (hsz : ∀ pre, pre <+: ops → (enc H (run pre)).length < 256 ^ 8) :
    (lstep H F (lrun H F LTrie.empty ops).1 (.get k)).2 = .value (finalMap ops k) := by
  obtain ⟨_, hs⟩ := live_run_observes H ops hok F hF hsz
  have hh := height_run_le ops
  have := (sim_step hok.toHashOK F hs (by omega) (hsz ops (List.prefix_refl _)) (occurs_run (List.prefix_refl _)) (.get k)).1
  rw [this]
  simp only [nstep]
  rw [C02.reads_last_write]

/-- the root the live trie reports is history-independent and equals the loaded model's root
    (hence the Yellow Paper root, `Props.C02.root_eq_yellow_paper`) -/
theorem live_root (H : Bytes → Bytes) (ops : List Op) (hok : HistoryHashOK H ops) (F : Nat)
    (hF : 4 * maxKeyBytes ops + 6 ≤ F)
    (hsz : ∀ pre, pre <+: ops → (enc H (run pre)).length < 256 ^ 8) :
    (lstep H F (lrun H F LTrie.empty ops).1 .hash).2 = .root (rootHash H (run ops)) ∧
    (lstep H F (lrun H F LTrie.empty ops).1 .commit).2 = .root (rootHash H (run ops)) ∧
    (lstep H F (lrun H F LTrie.empty ops).1 .reopen).2 = .root (rootHash H (run ops)) ∧
    (lstep H F (lrun H F LTrie.empty ops).1 .dbcommit).2 = .root (rootHash H (run ops)) := by
  obtain ⟨_, hs⟩ := live_run_observes H ops hok F hF hsz
  have hh := height_run_le ops
  have hz := hsz ops (List.prefix_refl _)
  have hu : Occurs ops (run ops) := occurs_run (List.prefix_refl _)
  exact ⟨(sim_step hok.toHashOK F hs (by omega) hz hu .hash).1, (sim_step hok.toHashOK F hs (by omega) hz hu .commit).1,
    (sim_step hok.toHashOK F hs (by omega) hz hu .reopen).1, (sim_step hok.toHashOK F hs (by omega) hz hu .dbcommit).1⟩

-- non-vacuity of `Sim`: the empty live trie stands for the empty trie
example (H : Bytes → Bytes) (U : Node → Prop) : Sim H U LTrie.empty .nil := sim_empty H U

/-- a 32-byte toy hash (the first 32 bytes, zero padded) for the non-vacuity example below -/
def toyHash (x : Bytes) : Bytes := (x ++ List.replicate 32 0).take 32

/-- **non-vacuity of `HistoryHashOK`**: a concrete history (one write, a commit, a reopen) and a
    concrete 32-byte hash satisfy the hypothesis of the run theorems — the only minimal-form node
    that occurs is the leaf, and it does not hash to either constant. -/
theorem historyHashOK_witness : HistoryHashOK toyHash [.upd [1] [2], .commit, .reopen] := by
  have hocc : ∀ t, Occurs [.upd [1] [2], .commit, .reopen] t → WF t → t = .short [0, 1, 16] (.value [2]) := by
    rintro t ⟨pre, hp, hm⟩ hwf
    have hpre : pre = [] ∨ pre = [.upd [1] [2]] ∨ pre = [.upd [1] [2], .commit] ∨ pre = [.upd [1] [2], .commit, .reopen] := by
      obtain ⟨suf, hs⟩ := hp
      match pre, suf, hs with
      | [], _, _ => exact Or.inl rfl
      | [_], _, hs => simp at hs; exact Or.inr (Or.inl (by rw [hs.1]))
      | [_, _], _, hs => simp at hs; exact Or.inr (Or.inr (Or.inl (by rw [hs.1, hs.2.1])))
      | [_, _, _], _, hs => simp at hs; exact Or.inr (Or.inr (Or.inr (by rw [hs.1, hs.2.1, hs.2.2.1])))
      | _ :: _ :: _ :: _ :: _, _, hs => simp at hs
    have hruns : run pre = .nil ∨ run pre = .short [0, 1, 16] (.value [2]) := by
      rcases hpre with rfl | rfl | rfl | rfl
      · exact Or.inl rfl
      · exact Or.inr rfl
      · exact Or.inr rfl
      · exact Or.inr rfl
    rcases hruns with h | h
    · rw [h] at hm; simp [subnodes] at hm; subst hm; exact absurd hwf not_WF_nil
    · rw [h] at hm
      simp only [subnodes, List.mem_cons, List.mem_singleton, List.not_mem_nil, or_false] at hm
      rcases hm with rfl | rfl
      · rfl
      · exact absurd hwf (not_WF_value _)
  refine ⟨fun a b ha hb wa wb _ => by rw [hocc a ha wa, hocc b hb wb], fun t ht hwf => ?_, fun x => by simp [toyHash]⟩
  rw [hocc t ht hwf]
  decide
-- non-vacuity of the fuel bound: the driver's fuel covers a history with 32-byte keys
example : 4 * maxKeyBytes [.upd (List.replicate 32 7) [1], .commit, .get (List.replicate 32 7)] + 6 ≤ 8200 := by decide

end Rangers.Props.C02Live
