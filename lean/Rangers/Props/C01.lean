import Rangers.Model.BlockExec
import Rangers.Proofs.BlockExec
/-!
# C01 — block execution is replica-deterministic

Theorems about `Rangers.Model.BlockExec` (the model the driver `drv_c01` executes).
Each map-range site of the Go code is a fold over an *arbitrary* order; the theorems
quantify over all orders (`List.Perm`).
-/
namespace Rangers.Props.C01
open Rangers Rangers.Model.BlockExec Rangers.Proofs.BlockExec
open List

theorem nodup_map_inj {α β : Type} (f : α → β) : ∀ (l : List α), (l.map f).Nodup →
    ∀ a b, a ∈ l → b ∈ l → f a = f b → a = b
  | [], _, _, _, ha, _, _ => by cases ha
  | x :: l, h, a, b, ha, hb, hf => by
    simp only [map_cons, nodup_cons, mem_map, not_exists, not_and] at h
    cases ha with
    | head =>
      cases hb with
      | head => rfl
      | tail _ hb => exact absurd hf.symm (h.1 b hb)
    | tail _ ha =>
      cases hb with
      | head => exact absurd hf (h.1 a ha)
      | tail _ hb => exact nodup_map_inj f l h.2 a b ha hb hf

/-! ## site 1: `RefundManager.Add` ranges `map[uint64]RefundInfoList` -/

theorem refund_add_order_irrelevant (l₁ l₂ : List (Nat × List (Addr × Nat))) (s : St) (p : l₁ ~ l₂) :
    refundAddIn l₁ s = refundAddIn l₂ s := by
  unfold refundAddIn
  exact p.foldl_eq' (fun x _ y _ z => refundAddList_comm x.1 y.1 x.2 y.2 z) s

/-- the inner slice of one height may be permuted as well (the reward list is built in map order) -/
theorem refund_list_order_irrelevant (h : Nat) (l₁ l₂ : List (Addr × Nat)) (s : St) (p : l₁ ~ l₂) :
    refundAddList h s l₁ = refundAddList h s l₂ := by
  unfold refundAddList
  exact p.foldl_eq' (fun x _ y _ z => addEscrow_comm z h h x.1 y.1 x.2 y.2) s

example : (refundAddIn [(7, [(1, 5)]), (9, [(1, 2), (2, 3)])] St.empty).escrow 9 2 = 3 := by decide

/-! ## site 2: `RefundManager.CheckAndMove` ranges `map[Address]*big.Int` -/

theorem checkAndMove_order_irrelevant (h : Nat) (l₁ l₂ : List (Addr × Nat)) (s : St) (p : l₁ ~ l₂) :
    checkAndMoveIn h l₁ s = checkAndMoveIn h l₂ s := by
  unfold checkAndMoveIn
  exact p.foldl_eq' (fun x _ y _ z => cmStep_comm h z x y) s

example : (checkAndMoveIn 7 [(1, 5), (2, 6)] (addEscrow St.empty 7 1 5)).bal 2 = 6 := by decide

/-! ## site 3: `ChangeAssets` (the loop the fix replaced, and the fixed function) -/

/-- what one would like to say about the unfixed loop: any two iteration orders of the same
    target map give the same result -/
def FullStatementChangeAssetsIn : Prop :=
  ∀ (l₁ l₂ : List Target) (s : St) (src : Addr), l₁ ~ l₂ →
    (changeAssetsIn l₁ s src).isSome = (changeAssetsIn l₂ s src).isSome

/-- restriction that is provable: no target is the source itself -/
theorem changeAssetsIn_order_irrelevant_partial (l₁ l₂ : List Target) (s : St) (src : Addr)
    (hns : ∀ t ∈ l₁, t.addr ≠ src) (p : l₁ ~ l₂) :
    changeAssetsIn l₁ s src = changeAssetsIn l₂ s src := by
  unfold changeAssetsIn
  exact p.foldl_eq' (fun x hx y hy z => caStep_comm src z x y (hns x hx) (hns y hy)) _

example : ∀ t ∈ [(⟨[1], 2, .val 3⟩ : Target), ⟨[2], 3, .val 4⟩], t.addr ≠ 1 := by decide

def cexBal : St := { St.empty with bal := fun a => if a = 1 then 10 else 0 }
def cexSelf : Target := ⟨[1], 1, .val 8⟩
def cexOther : Target := ⟨[2], 2, .val 5⟩

/-- balance 10, targets {self: 8, other: 5}: self first succeeds, other first fails
    (replayed on the implementation by the searcher scenario `lead-self-target`). -/
theorem changeAssetsIn_counterexample : ¬ FullStatementChangeAssetsIn := by
  intro h
  have := h [cexSelf, cexOther] [cexOther, cexSelf] cexBal 1 (Perm.swap _ _ _)
  revert this
  decide

/-! ### the fixed `ChangeAssets`: keys sorted first -/

def keyLe (a b : Target) : Prop := a.key ≤ b.key

theorem insertKey_perm (t : Target) (l : List Target) : insertKey t l ~ t :: l := by
  induction l with
  | nil => exact Perm.refl _
  | cons u us ih =>
    simp only [insertKey]
    split
    · exact Perm.refl _
    · exact (Perm.cons u ih).trans (Perm.swap t u us)

theorem sortTargets_perm (l : List Target) : sortTargets l ~ l := by
  induction l with
  | nil => exact Perm.refl _
  | cons t ts ih => exact (insertKey_perm t _).trans (Perm.cons t ih)

theorem insertKey_sorted (t : Target) (l : List Target) (h : l.Pairwise keyLe) :
    (insertKey t l).Pairwise keyLe := by
  induction l with
  | nil => simp [insertKey]
  | cons u us ih =>
    simp only [insertKey]
    have hu := (pairwise_cons.mp h)
    split
    · rename_i hlt
      have hlt' : t.key < u.key := by simpa [bytesLt] using hlt
      refine pairwise_cons.mpr ⟨?_, h⟩
      intro x hx
      rcases mem_cons.mp hx with rfl | hx
      · exact List.le_of_lt hlt'
      · exact List.le_trans (List.le_of_lt hlt') (hu.1 x hx)
    · rename_i hlt
      have hge : u.key ≤ t.key := by
        have : ¬ t.key < u.key := by simpa [bytesLt] using hlt
        exact List.not_lt.mp this
      refine pairwise_cons.mpr ⟨?_, ih hu.2⟩
      intro x hx
      rcases mem_cons.mp ((insertKey_perm t us).subset hx) with rfl | hx
      · exact hge
      · exact hu.1 x hx

theorem sortTargets_sorted (l : List Target) : (sortTargets l).Pairwise keyLe := by
  induction l with
  | nil => exact Pairwise.nil
  | cons t ts ih => exact insertKey_sorted t _ ih

/-- The fixed `ChangeAssets` does not depend on the order in which the JSON map hands out its
    entries: for a map (pairwise distinct keys) every enumeration gives the same result,
    whether or not the source is among the targets. -/
theorem changeAssets_order_irrelevant (l₁ l₂ : List Target) (s : St) (src : Addr)
    (hmap : (l₁.map (·.key)).Nodup) (p : l₁ ~ l₂) :
    changeAssets l₁ s src = changeAssets l₂ s src := by
  unfold changeAssets
  have hp : sortTargets l₁ ~ sortTargets l₂ := (sortTargets_perm l₁).trans (p.trans (sortTargets_perm l₂).symm)
  have hinj : ∀ a b, a ∈ l₁ → b ∈ l₁ → a.key = b.key → a = b := by
    intro a b ha hb hk
    exact nodup_map_inj _ _ hmap a b ha hb hk
  have : sortTargets l₁ = sortTargets l₂ := by
    refine Perm.eq_of_pairwise (le := keyLe) ?_ (sortTargets_sorted l₁) (sortTargets_sorted l₂) hp
    intro a b ha hb hab hba
    exact hinj a b ((sortTargets_perm l₁).subset ha) (p.symm.subset ((sortTargets_perm l₂).subset hb))
      (List.le_antisymm hab hba)
  rw [this]

example : ([cexSelf, cexOther].map (·.key)).Nodup := by decide
example : changeAssets [cexSelf, cexOther] cexBal 1 = changeAssets [cexOther, cexSelf] cexBal 1 := by
  exact changeAssets_order_irrelevant _ _ _ _ (by decide) (Perm.swap _ _ _)

/-- The fix is conservative: whenever the old loop gave one result for every iteration order of
    the map, the fixed function returns exactly that result. -/
theorem fix_conservative (ts : List Target) (s : St) (src : Addr) (r : CA)
    (hold : ∀ l, l ~ ts → changeAssetsIn l s src = r) :
    changeAssets ts s src = r :=
  hold _ (sortTargets_perm ts)

/-! ## site 4: the reward loops -/

theorem rmap_add_val (m : RMap) (l : List (Addr × Nat)) :
    (l.foldl RMap.add m).val = l.foldl (fun f e => upd f e.1 (f e.1 + e.2)) m.val := by
  induction l generalizing m with
  | nil => rfl
  | cons e l ih => simp only [foldl_cons]; rw [ih]; rfl

theorem rmap_assign_val (m : RMap) (l : List (Addr × Nat)) :
    (l.foldl RMap.assign m).val = l.foldl (fun f e => upd f e.1 e.2) m.val := by
  induction l generalizing m with
  | nil => rfl
  | cons e l ih => simp only [foldl_cons]; rw [ih]; rfl

theorem addKey_mem (m : RMap) (a x : Addr) : x ∈ m.addKey a ↔ x = a ∨ x ∈ m.keys := by
  unfold RMap.addKey
  split
  · rename_i h
    have : a ∈ m.keys := by simpa using h
    constructor
    · exact Or.inr
    · rintro (rfl | h) <;> assumption
  · simp

theorem addKey_nodup (m : RMap) (a : Addr) (h : m.keys.Nodup) : (m.addKey a).Nodup := by
  unfold RMap.addKey
  split
  · exact h
  · rename_i hc
    have : a ∉ m.keys := by simpa using hc
    exact nodup_cons.mpr ⟨this, h⟩

theorem fold_keys (step : RMap → Addr × Nat → RMap) (hk : ∀ m e, (step m e).keys = m.addKey e.1)
    (m : RMap) (l : List (Addr × Nat)) :
    (∀ x, x ∈ (l.foldl step m).keys ↔ x ∈ l.map Prod.fst ∨ x ∈ m.keys) ∧
    (m.keys.Nodup → (l.foldl step m).keys.Nodup) := by
  induction l generalizing m with
  | nil => simp
  | cons e l ih =>
    simp only [foldl_cons, map_cons, mem_cons]
    obtain ⟨h1, h2⟩ := ih (step m e)
    refine ⟨fun x => ?_, fun hn => h2 (by rw [hk]; exact addKey_nodup m e.1 hn)⟩
    rw [h1 x, hk, addKey_mem]
    constructor
    · rintro (h | h | h)
      · exact Or.inl (Or.inr h)
      · exact Or.inl (Or.inl h)
      · exact Or.inr h
    · rintro ((h | h) | h)
      · exact Or.inr (Or.inl h)
      · exact Or.inl h
      · exact Or.inr (Or.inr h)

/-- The `result` map of `calculateRewardPerBlock` is the same function with the same key set for
    every iteration order of `proposersStake` and of `validatorStake` (the latter is a Go map, so
    its keys are pairwise distinct: `hv`). -/
theorem reward_map_order_irrelevant (r : RewardIn) (p₁ p₂ v₁ v₂ : List (Addr × Nat))
    (hp : p₁ ~ p₂) (hv : v₁ ~ v₂) (hnd : (v₁.map Prod.fst).Nodup) :
    (rewardMap r p₁ v₁).val = (rewardMap r p₂ v₂).val ∧ (rewardMap r p₁ v₁).keys ~ (rewardMap r p₂ v₂).keys := by
  unfold rewardMap
  constructor
  · rw [rmap_assign_val, rmap_assign_val, rmap_add_val, rmap_add_val]
    have e1 : p₁.foldl (fun f e => upd f e.1 (f e.1 + e.2)) (RMap.add ⟨fun _ => 0, []⟩ r.castor).val
        = p₂.foldl (fun f e => upd f e.1 (f e.1 + e.2)) (RMap.add ⟨fun _ => 0, []⟩ r.castor).val := by
      refine hp.foldl_eq' (fun x _ y _ z => ?_) _
      funext k; simp only [upd]; grind
    rw [e1]
    refine hv.foldl_eq' (fun x hx y hy z => ?_) _
    by_cases hxy : x.1 = y.1
    · have : x = y := nodup_map_inj _ _ hnd x y hx hy hxy
      rw [this]
    · funext k; simp only [upd]; grind
  · have hadd : ∀ m e, (RMap.add m e).keys = m.addKey e.1 := fun _ _ => rfl
    have hasg : ∀ m e, (RMap.assign m e).keys = m.addKey e.1 := fun _ _ => rfl
    have k0 : (RMap.add ⟨fun _ => 0, []⟩ r.castor).keys.Nodup := by
      show (RMap.addKey ⟨fun _ => 0, []⟩ r.castor.1).Nodup
      exact addKey_nodup _ _ Pairwise.nil
    have a1 := fold_keys RMap.add hadd (RMap.add ⟨fun _ => 0, []⟩ r.castor) p₁
    have a2 := fold_keys RMap.add hadd (RMap.add ⟨fun _ => 0, []⟩ r.castor) p₂
    have b1 := fold_keys RMap.assign hasg (p₁.foldl RMap.add (RMap.add ⟨fun _ => 0, []⟩ r.castor)) v₁
    have b2 := fold_keys RMap.assign hasg (p₂.foldl RMap.add (RMap.add ⟨fun _ => 0, []⟩ r.castor)) v₂
    refine (perm_ext_iff_of_nodup (b1.2 (a1.2 k0)) (b2.2 (a2.2 k0))).mpr (fun x => ?_)
    rw [b1.1, b2.1, a1.1, a2.1]
    have m1 : x ∈ p₁.map Prod.fst ↔ x ∈ p₂.map Prod.fst := (hp.map _).mem_iff
    have m2 : x ∈ v₁.map Prod.fst ↔ x ∈ v₂.map Prod.fst := (hv.map _).mem_iff
    rw [m1, m2]

/-- Whole reward step: `result` map built under any orders, then ranged under any order into the
    refund escrow — the ledger is the same. -/
theorem reward_order_irrelevant (r : RewardIn) (h : Nat) (p₁ p₂ v₁ v₂ : List (Addr × Nat)) (t₁ t₂ : List Addr)
    (s : St) (hp : p₁ ~ p₂) (hv : v₁ ~ v₂) (hnd : (v₁.map Prod.fst).Nodup)
    (ht₁ : t₁ ~ (rewardMap r p₁ v₁).keys) (ht₂ : t₂ ~ (rewardMap r p₂ v₂).keys) :
    rewardAddIn h (rewardMap r p₁ v₁) t₁ s = rewardAddIn h (rewardMap r p₂ v₂) t₂ s := by
  obtain ⟨hval, hkeys⟩ := reward_map_order_irrelevant r p₁ p₂ v₁ v₂ hp hv hnd
  unfold rewardAddIn
  rw [hval]
  exact refund_list_order_irrelevant h _ _ s ((ht₁.trans (hkeys.trans ht₂.symm)).map _)

example : ((rewardMap ⟨(1, 10), [(2, 3), (1, 4)], some [(3, 7)], 100⟩ [(2, 3), (1, 4)] [(3, 7)]).val 1 = 14)
    ∧ ([(3, 7)].map Prod.fst : List Nat).Nodup := by decide

/-- Without distinct keys an assignment loop *would* be order dependent (why `hnd` is needed). -/
theorem assign_needs_distinct_keys :
    (rewardMap ⟨(1, 0), [], some [], 0⟩ [] [(5, 1), (5, 2)]).val 5 ≠ (rewardMap ⟨(1, 0), [], some [], 0⟩ [] [(5, 2), (5, 1)]).val 5 := by
  decide

/-! ## site 5: `AccountDB.Finalise` ranges `accountObjectsDirty` -/

theorem finalise_step_comm (leaf : Addr → Option Nat) (t : Addr → Option Nat) (a b : Addr) :
    (fun x => if x = b then leaf b else (fun x => if x = a then leaf a else t x) x)
      = (fun x => if x = a then leaf a else (fun x => if x = b then leaf b else t x) x) := by
  funext x
  by_cases h1 : x = a <;> by_cases h2 : x = b <;> simp_all

theorem finalise_order_irrelevant (l₁ l₂ : List Addr) (leaf trie : Addr → Option Nat) (p : l₁ ~ l₂) :
    finaliseIn l₁ leaf trie = finaliseIn l₂ leaf trie := by
  unfold finaliseIn
  exact p.foldl_eq' (fun x _ y _ z => finalise_step_comm leaf z x y) trie

/-- closed form: after `Finalise` a dirty address holds its new leaf, every other address is untouched -/
theorem finalise_pointwise (l : List Addr) (leaf trie : Addr → Option Nat) (x : Addr) :
    finaliseIn l leaf trie x = if x ∈ l then leaf x else trie x := by
  unfold finaliseIn
  induction l generalizing trie with
  | nil => simp
  | cons a l ih =>
    simp only [foldl_cons, mem_cons]
    rw [ih]
    by_cases h1 : x ∈ l <;> by_cases h2 : x = a <;> simp_all

/-- `no_process_local_leak` (content level): an account that was merely loaded / touched — it is in
    the dirty set but its leaf is what the trie already holds — does not change the result, so the
    root does not depend on which accounts a replica happened to load or mark. -/
theorem no_process_local_leak (l : List Addr) (a : Addr) (leaf trie : Addr → Option Nat)
    (hclean : leaf a = trie a) :
    finaliseIn (a :: l) leaf trie = finaliseIn l leaf trie := by
  funext x
  rw [finalise_pointwise, finalise_pointwise]
  by_cases h1 : x ∈ l <;> by_cases h2 : x = a <;> simp_all

example : finaliseIn [1, 2] (fun a => some (a + 10)) (fun _ => none) 2 = some 12 := by decide

/-! ## the sort -/

theorem sinkRev_perm (lt : α → α → Bool) (x : α) (l : List α) : sinkRev lt x l ~ x :: l := by
  induction l with
  | nil => exact Perm.refl _
  | cons y ys ih =>
    simp only [sinkRev]
    split
    · exact (Perm.cons y ih).trans (Perm.swap x y ys)
    · exact Perm.refl _

/-- sorting neither loses nor duplicates a transaction -/
theorem sortTxs_perm (f : Flags) (txs : List Tx) : sortTxs f txs ~ txs := by
  unfold sortTxs insertionSort
  have key : ∀ (l acc : List Tx), (l.foldl (fun acc x => sinkRev (txLess f) x acc) acc) ~ l ++ acc := by
    intro l
    induction l with
    | nil => intro acc; exact Perm.refl _
    | cons x l ih =>
      intro acc
      simp only [foldl_cons, cons_append]
      exact (ih _).trans ((Perm.append_left l (sinkRev_perm _ x acc)).trans perm_middle)
  have := key txs []
  simp only [append_nil] at this
  exact (reverse_perm _).trans this

/-- `sort_deterministic`: when `Less` is asymmetric on the block's transactions, any two strictly
    sorted arrangements of the same transactions coincide — the executed order does not depend on
    the sorting algorithm or on the order the proposer packed them. -/
theorem sort_deterministic (f : Flags) (l₁ l₂ : List Tx) (p : l₁ ~ l₂)
    (hasym : ∀ a b, a ∈ l₁ → b ∈ l₁ → txLess f a b = true → txLess f b a = true → a = b)
    (h₁ : l₁.Pairwise (fun a b => txLess f a b = true)) (h₂ : l₂.Pairwise (fun a b => txLess f a b = true)) :
    l₁ = l₂ :=
  Perm.eq_of_pairwise (fun a b ha hb => hasym a b ha (p.symm.subset hb)) h₁ h₂ p

def txA : Tx := ⟨3, 0, 0, 100, [1], 1, 1, 9, .empty⟩
def txB : Tx := ⟨2, 0, 0, 100, [2], 2, 2, 5, .empty⟩
example : [txA, txB].Pairwise (fun a b => txLess ⟨true, true, true, true, true, true⟩ a b = true) := by decide

/-- `Less` is not a strict weak order when two sources differ only in spelling (same number,
    different string): incomparability is not transitive, so for such blocks only the concrete
    algorithm (`insertionSort`, what Go runs for ≤ 12 elements) fixes the order. -/
theorem less_not_weak_order_counterexample :
    ∃ (f : Flags) (a b c : Tx), txLess f a b = false ∧ txLess f b a = false ∧ txLess f b c = false ∧ txLess f c b = false
      ∧ txLess f a c = true :=
  ⟨⟨true, true, true, true, true, true⟩,
   ⟨1, 0, 0, 100, [97], 1, 1, 7, .empty⟩, ⟨2, 0, 0, 100, [65], 1, 1, 7, .empty⟩, ⟨3, 0, 1, 100, [97], 1, 1, 7, .empty⟩,
   by decide⟩

/-! ## outputs follow the sorted transaction list -/

theorem stepTx_receipts (env : Env) (f : Flags) (h : Nat) (L : Loop) (tx : Tx) :
    ((stepTx env f h L tx).receipts.map (·.hash)) =
      (if tx.typ = 0 then [] else [tx.hash]) ++ L.receipts.map (·.hash) := by
  unfold stepTx
  by_cases h0 : tx.typ = 0
  · simp [h0]
  · simp only [h0, if_false]
    repeat' split
    all_goals simp

theorem loop_receipts (env : Env) (f : Flags) (h : Nat) (txs : List Tx) (L : Loop) :
    ((txs.foldl (stepTx env f h) L).receipts.map (·.hash)).reverse =
      (L.receipts.map (·.hash)).reverse ++ (txs.filter (fun t => t.typ ≠ 0)).map (·.hash) := by
  induction txs generalizing L with
  | nil => simp
  | cons t ts ih =>
    simp only [foldl_cons]
    rw [ih, stepTx_receipts]
    by_cases h0 : t.typ = 0 <;> simp [h0]

/-- `receipts_in_list_order`: one receipt per executed (type ≠ 0) transaction, in sorted-list order -/
theorem receipts_in_list_order (ρ : Orders) (env : Env) (f : Flags) (hd : Header) (rw : St → Option RewardIn)
    (ids : List Addr) (s : St) (txs : List Tx) :
    (execBlock ρ env f hd rw ids s txs).receipts.map (·.hash) =
      ((sortTxs f txs).filter (fun t => t.typ ≠ 0)).map (·.hash) := by
  unfold execBlock
  simp only [map_reverse]
  have := loop_receipts env f hd.height (sortTxs f txs) ⟨s, [], [], []⟩
  simpa using this

theorem stepTx_evicted (env : Env) (f : Flags) (h : Nat) (L : Loop) (tx : Tx) :
    (stepTx env f h L tx).evicted = L.evicted ∨ (stepTx env f h L tx).evicted = tx.hash :: L.evicted := by
  unfold stepTx
  by_cases h0 : tx.typ = 0
  · simp [h0]
  · simp only [h0, if_false]
    repeat' split
    all_goals first | exact Or.inl rfl | exact Or.inr rfl

theorem loop_evicted (env : Env) (f : Flags) (h : Nat) (txs : List Tx) (L : Loop) :
    ∃ sub, sub.Sublist (txs.map (·.hash)) ∧
      (txs.foldl (stepTx env f h) L).evicted.reverse = L.evicted.reverse ++ sub := by
  induction txs generalizing L with
  | nil => exact ⟨[], Sublist.refl _, by simp⟩
  | cons t ts ih =>
    simp only [foldl_cons, map_cons]
    obtain ⟨sub, hs, he⟩ := ih (stepTx env f h L t)
    rcases stepTx_evicted env f h L t with h1 | h1
    · exact ⟨sub, hs.cons _, by rw [he, h1]⟩
    · exact ⟨t.hash :: sub, hs.cons_cons _, by rw [he, h1]; simp⟩

/-- `evicted_in_list_order`: the evicted hashes are a subsequence of the sorted transaction list -/
theorem evicted_in_list_order (ρ : Orders) (env : Env) (f : Flags) (hd : Header) (rw : St → Option RewardIn)
    (ids : List Addr) (s : St) (txs : List Tx) :
    (execBlock ρ env f hd rw ids s txs).evicted.Sublist ((sortTxs f txs).map (·.hash)) := by
  unfold execBlock
  obtain ⟨sub, hs, he⟩ := loop_evicted env f hd.height (sortTxs f txs) ⟨s, [], [], []⟩
  simp only [reverse_nil, nil_append] at he
  simpa [he] using hs

/-! ## the whole block -/

/-- an `Orders` is admissible when each component returns a permutation of its argument —
    all a Go map iteration can do -/
structure OrdersValid (ρ : Orders) : Prop where
  refund : ∀ l, ρ.refund l ~ l
  proposers : ∀ l, ρ.proposers l ~ l
  validators : ∀ l, ρ.validators l ~ l
  total : ∀ l, ρ.total l ~ l
  checkMove : ∀ l, ρ.checkMove l ~ l
  dirty : ∀ l, ρ.dirty l ~ l

theorem id_valid : OrdersValid Orders.id := ⟨fun _ => .refl _, fun _ => .refl _, fun _ => .refl _, fun _ => .refl _, fun _ => .refl _, fun _ => .refl _⟩
theorem rev_valid : OrdersValid Orders.rev :=
  ⟨reverse_perm, reverse_perm, reverse_perm, reverse_perm, reverse_perm, reverse_perm⟩
theorem rotl_perm (l : List α) : rotl l ~ l := by
  cases l with
  | nil => exact .refl _
  | cons a l => exact perm_append_singleton a l
theorem rot_valid : OrdersValid Orders.rot := ⟨rotl_perm, rotl_perm, rotl_perm, rotl_perm, rotl_perm, rotl_perm⟩

theorem rewardStep_deterministic (ρ₁ ρ₂ : Orders) (v₁ : OrdersValid ρ₁) (v₂ : OrdersValid ρ₂) (rw : Option RewardIn) (s : St)
    (hmap : ∀ r vs, rw = some r → r.validators = some vs → (vs.map Prod.fst).Nodup) :
    rewardStepIn ρ₁ rw s = rewardStepIn ρ₂ rw s := by
  unfold rewardStepIn
  cases rw with
  | none => rfl
  | some r =>
    cases hvs : r.validators with
    | none => simp only [hvs]
    | some vs =>
      simp only [hvs]
      have hnd := hmap r vs rfl hvs
      have hnd' : ((ρ₁.validators vs).map Prod.fst).Nodup := ((v₁.validators vs).map _).nodup_iff.mpr hnd
      exact reward_order_irrelevant r r.nextHeight _ _ _ _ _ _ s
        ((v₁.proposers _).trans (v₂.proposers _).symm) ((v₁.validators _).trans (v₂.validators _).symm) hnd'
        (v₁.total _) (v₂.total _)

theorem after_deterministic (ρ₁ ρ₂ : Orders) (v₁ : OrdersValid ρ₁) (v₂ : OrdersValid ρ₂) (hd : Header) (rw : St → Option RewardIn)
    (ids : List Addr) (refunds : List (Nat × Addr × Nat)) (s : St)
    (hmap : ∀ s r vs, rw s = some r → r.validators = some vs → (vs.map Prod.fst).Nodup) :
    afterIn ρ₁ hd rw ids refunds s = afterIn ρ₂ hd rw ids refunds s := by
  unfold afterIn
  generalize calcDifficulty hd (specialHeights hd s) = s0
  have e1 : refundAddIn (ρ₁.refund (groupRefunds refunds [])) s0 = refundAddIn (ρ₂.refund (groupRefunds refunds [])) s0 :=
    refund_add_order_irrelevant _ _ s0 ((v₁.refund _).trans (v₂.refund _).symm)
  simp only [e1]
  generalize refundAddIn (ρ₂.refund (groupRefunds refunds [])) s0 = s1
  rw [rewardStep_deterministic ρ₁ ρ₂ v₁ v₂ (rw s1) s1 (hmap s1)]
  generalize rewardStepIn ρ₂ (rw s1) s1 = s2
  have e3 : checkAndMoveIn hd.height (ρ₁.checkMove (refundList s2 hd.height ids)) s2
      = checkAndMoveIn hd.height (ρ₂.checkMove (refundList s2 hd.height ids)) s2 :=
    checkAndMove_order_irrelevant _ _ _ s2 ((v₁.checkMove _).trans (v₂.checkMove _).symm)
  rw [e3]
  generalize checkAndMoveIn hd.height (ρ₂.checkMove (refundList s2 hd.height ids)) s2 = s3
  split
  · exact checkAndMove_order_irrelevant _ _ _ s3 ((v₁.checkMove _).trans (v₂.checkMove _).symm)
  · rfl

/-- **exec_deterministic.**  For every environment (fee constants, and *any* deterministic behaviour of
    the uninterpreted executors), flags, header, reward inputs, parent ledger and transaction list:
    the post-ledger, the receipts and the evicted list do not depend on the iteration orders the
    runtime picks at the map-range sites.  (`situation ≠ "casting"` is built into `execBlock`; the
    validator-stake keys are distinct because they are the keys of a Go map.) -/
theorem exec_deterministic (ρ₁ ρ₂ : Orders) (v₁ : OrdersValid ρ₁) (v₂ : OrdersValid ρ₂) (env : Env) (f : Flags) (hd : Header)
    (rw : St → Option RewardIn) (ids : List Addr) (s : St) (txs : List Tx)
    (hmap : ∀ s r vs, rw s = some r → r.validators = some vs → (vs.map Prod.fst).Nodup) :
    execBlock ρ₁ env f hd rw ids s txs = execBlock ρ₂ env f hd rw ids s txs := by
  unfold execBlock
  simp only
  rw [after_deterministic ρ₁ ρ₂ v₁ v₂ hd rw ids _ _ hmap]

example : ∀ (s : St) r vs, (fun _ : St => some (⟨(1, 10), [(2, 3)], some [(3, 7), (4, 1)], 100⟩ : RewardIn)) s = some r →
    r.validators = some vs → (vs.map Prod.fst).Nodup := by
  intro _ r vs h1 h2
  cases h1
  cases h2
  decide

/-- the state root is the same under every iteration order of the dirty set -/
theorem root_deterministic (ρ₁ ρ₂ : Orders) (v₁ : OrdersValid ρ₁) (v₂ : OrdersValid ρ₂) (hash : (Addr → Option Nat) → Nat)
    (dirty : List Addr) (leaf trie : Addr → Option Nat) :
    rootIn ρ₁ hash dirty leaf trie = rootIn ρ₂ hash dirty leaf trie := by
  unfold rootIn
  rw [finalise_order_irrelevant _ _ leaf trie ((v₁.dirty dirty).trans (v₂.dirty dirty).symm)]

/-- the input order of the transaction list is irrelevant too once `Less` is a strict total order
    on it: two packings of the same transactions that both sort strictly execute identically -/
theorem exec_independent_of_packing (ρ : Orders) (env : Env) (f : Flags) (hd : Header) (rw : St → Option RewardIn)
    (ids : List Addr) (s : St) (t₁ t₂ : List Tx) (p : t₁ ~ t₂)
    (hasym : ∀ a b, a ∈ t₁ → b ∈ t₁ → txLess f a b = true → txLess f b a = true → a = b)
    (h₁ : (sortTxs f t₁).Pairwise (fun a b => txLess f a b = true))
    (h₂ : (sortTxs f t₂).Pairwise (fun a b => txLess f a b = true)) :
    execBlock ρ env f hd rw ids s t₁ = execBlock ρ env f hd rw ids s t₂ := by
  have hs : sortTxs f t₁ = sortTxs f t₂ := by
    refine sort_deterministic f _ _ ((sortTxs_perm f t₁).trans (p.trans (sortTxs_perm f t₂).symm)) ?_ h₁ h₂
    intro a b ha hb
    exact hasym a b ((sortTxs_perm f t₁).subset ha) ((sortTxs_perm f t₁).subset hb)
  unfold execBlock
  rw [hs]

end Rangers.Props.C01
