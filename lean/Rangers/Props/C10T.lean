import Rangers.Proofs.Evm10Table
/-!
# C10, part 3 — the generated jump tables agree with the opcode specification (T-gen)

`Generated/Evm10JumpTable.lean` is rewritten from the live interpreter on every run
(`gen/cmd/c10facts` through the hook `vm.VerifJumpTableAt`); the theorems below are
re-checked against it, so a re-pointed `execute`, a changed stack demand, a lost or gained
`jumps` flag, a re-parameterised `makePush/makeDup/makeSwap` closure or an opcode enabled in
the wrong fork breaks the build.
-/
namespace Rangers.Props.C10
open Rangers Rangers.Model.Evm10 Rangers.Proofs.Evm10
open Rangers.Generated.Evm10


/-- fixed part of the specification: (byte, function, δ, α) -/
def specFixed : List (Nat × Exec × Nat × Nat) :=
  [(0x00, .opStop, 0, 0),
   (0x01, .opAdd, 2, 1),
   (0x02, .opMul, 2, 1),
   (0x03, .opSub, 2, 1),
   (0x04, .opDiv, 2, 1),
   (0x05, .opSdiv, 2, 1),
   (0x06, .opMod, 2, 1),
   (0x07, .opSmod, 2, 1),
   (0x08, .opAddmod, 3, 1),
   (0x09, .opMulmod, 3, 1),
   (0x0a, .opExp, 2, 1),
   (0x0b, .opSignExtend, 2, 1),
   (0x10, .opLt, 2, 1),
   (0x11, .opGt, 2, 1),
   (0x12, .opSlt, 2, 1),
   (0x13, .opSgt, 2, 1),
   (0x14, .opEq, 2, 1),
   (0x15, .opIszero, 1, 1),
   (0x16, .opAnd, 2, 1),
   (0x17, .opOr, 2, 1),
   (0x18, .opXor, 2, 1),
   (0x19, .opNot, 1, 1),
   (0x1a, .opByte, 2, 1),
   (0x1b, .opSHL, 2, 1),
   (0x1c, .opSHR, 2, 1),
   (0x1d, .opSAR, 2, 1),
   (0x20, .opSha3, 2, 1),
   (0x35, .opCallDataLoad, 1, 1),
   (0x36, .opCallDataSize, 0, 1),
   (0x37, .opCallDataCopy, 3, 0),
   (0x38, .opCodeSize, 0, 1),
   (0x39, .opCodeCopy, 3, 0),
   (0x3d, .opReturnDataSize, 0, 1),
   (0x3e, .opReturnDataCopy, 3, 0),
   (0x50, .opPop, 1, 0),
   (0x51, .opMload, 1, 1),
   (0x52, .opMstore, 2, 0),
   (0x53, .opMstore8, 2, 0),
   (0x56, .opJump, 1, 0),
   (0x57, .opJumpi, 2, 0),
   (0x58, .opPc, 0, 1),
   (0x59, .opMsize, 0, 1),
   (0x5a, .opGas, 0, 1),
   (0x5b, .opJumpdest, 0, 0),
   (0x60, .opPush1, 0, 1),
   (0xf3, .opReturn, 2, 0),
   (0xfd, .opRevert, 2, 0)]

/-- Specification of the computational opcode bytes (Yellow Paper Appendix H.2, EIP-145,
EIP-3855 PUSH0, EIP-5656 MCOPY): the transcribed function the byte must run, δ (items removed)
and α (items added).  `p022` = the fork that introduces PUSH0/MCOPY is active. -/
def specOp (p022 : Bool) (op : Nat) : Option (Exec × Nat × Nat) :=
  if 0x61 ≤ op ∧ op ≤ 0x7f then some (.push (op - 0x5f) (op - 0x5f), 0, 1)
  else if 0x80 ≤ op ∧ op ≤ 0x8f then some (.dup (op - 0x7f), op - 0x7f, op - 0x7f + 1)
  else if 0x90 ≤ op ∧ op ≤ 0x9f then some (.swap (op - 0x8f), op - 0x8f + 1, op - 0x8f + 1)
  else if op = 0x5e then (if p022 then some (.opMcopy, 3, 0) else none)
  else if op = 0x5f then (if p022 then some (.opPush0, 0, 1) else none)
  else (specFixed.find? (fun e => e.1 == op)).map (fun e => e.2)

/-- one slot against the specification: function, stack demand, control-flow flags, and the
two fork-gated bytes undefined before their fork -/
def slotMatches (p022 : Bool) (op : Nat) (slot : Option OpInfo) : Bool :=
  match specOp p022 op, slot with
  | some (e, δ, α), some i =>
    (i.exec == e) && (i.minStack == δ) && (i.maxStack == 1024 + δ - α) &&
    (i.jumps == (op == 0x56 || op == 0x57)) && (i.halts == (op == 0x00 || op == 0xf3)) &&
    (i.reverts == (op == 0xfd)) && (i.returns == (op == 0xfd)) && !i.writes
  | some _, none => false
  | none, some i =>
    -- everything else may exist (environment, storage, calls, extensions) but must not be one of
    -- the control-flow functions, must not carry the `jumps` flag, and PUSH0/MCOPY bytes stay undefined
    !(i.exec == .opJump) && !(i.exec == .opJumpi) && !i.jumps && !(op == 0x5e) && !(op == 0x5f)
  | none, none => true

def tableMatches (p022 : Bool) (t : Table) : Bool :=
  (List.range 256).all (fun op => slotMatches p022 op (t.get op))

set_option maxRecDepth 100000 in
/-- **T-gen obligation**: all eight generated tables agree with the specification of the
computational opcode bytes (cfg bit 1 = Proposal022 = PUSH0/MCOPY active). -/
theorem table_ops_bound :
    tableMatches false table0 = true ∧ tableMatches false table1 = true ∧
    tableMatches true table2 = true ∧ tableMatches true table3 = true ∧
    tableMatches false table4 = true ∧ tableMatches false table5 = true ∧
    tableMatches true table6 = true ∧ tableMatches true table7 = true := by
  decide +kernel

/-- the consistency facts the no-panic theorem needs hold for every generated table -/
theorem table_consistent (cfg : Nat) : tableOK (table cfg) = true := tables_ok cfg


/-! ## Fork-flag reads on the C10 path are pinned (T-gen, go/ast scan of src/vm) -/

/-- what the model accounts for: the interpreter builds its table from Proposal014/022/026 in
`NewEVMInterpreter`; the gas functions the model transcribes read only `IsProposal026`; nothing
in the opcode bodies, stack, memory, analysis or contract code reads a fork flag; every other
read sits in a function outside the computational set (contract creation, SSTORE/LOG/CREATE2 gas). -/
def forkReadOK (r : String × String × Nat) : Bool :=
  let (file, fn, n) := r
  if file == "interpreter.go" then fn == "NewEVMInterpreter" && (n == 14 || n == 22 || n == 26)
  else if file == "gas_table.go" then
    if fn == "memoryGasCost" || fn == "memoryCopierGas" || fn == "gasSha3" ||
       fn == "gasExpFrontier" || fn == "gasExpEIP158" then n == 26
    else fn == "gasSStore" || fn == "gasSStoreEIP2200" || fn == "makeGasLog" || fn == "gasCreate2"
  else file == "evm.go" && fn == "create"

/-- a new `common.IsProposalNNN()` / `.ProposalNNNBlock` read anywhere on the modelled path (for
instance inside an opcode body) makes this obligation fail: the model would then be missing an input. -/
theorem fork_reads_pinned : forkReads.all forkReadOK = true := by decide

end Rangers.Props.C10
