import Rangers.Model.TxAuth
import Rangers.Proofs.TxAuth
import Rangers.Proofs.TxAuthCodec
import Rangers.Proofs.TxAuthRlp
/-!
# C07 — only authentic transactions are admitted

Theorems about `Rangers.Model.TxAuth.verifyTx`, the function the driver
`drv_c07` executes against `TxPool.VerifyTransaction`.  The cryptographic
primitives are the parameter `cr : Crypto`; nothing is assumed about them
unless a hypothesis says so, and soundness statements end in an explicit
collision / second-signature witness instead of a hardness assumption.
-/
namespace Rangers.Props.C07
open Rangers Rangers.Model.TxAuth

/-- a toy instance of the primitives, used only to show hypotheses are satisfiable
    and to state counterexamples (nothing is claimed about real cryptography) -/
def toyCrypto : Crypto :=
  { sha256 := fun _ => List.replicate 32 7, keccak := fun _ => List.replicate 32 1,
    recoverCore := fun _ _ _ _ => some [4], verifyCore := fun _ _ _ _ => true }

def toyCfg : ChainCfg :=
  { chainId := [57], originalChainId := [57], proposal001Block := 0, genesisChainId := none }

/-! ## native transactions -/

/-- Acceptance of a native transaction is exactly: chain id is the chain's, the
    hash is the digest of the transaction's own content, the signature recovers a
    key that verifies for that hash and whose address is the declared sender. -/
theorem native_accept_iff (cr : Crypto) (cfg : ChainCfg) (h : Nat) (tx : Tx) :
    verifyNative cr cfg h tx = .ok ↔
      tx.chainId = chainIdStr cfg h ∧ tx.hash = cr.sha256 (ser tx) ∧
      ∃ sg pk, tx.sign = some sg ∧ recoverPubkey cr tx.hash sg.bytes = some pk ∧
        libVerify cr pk tx.hash (sg.bytes.take 64) = true ∧ tx.source = nativeAddrStr cr pk := by
  unfold verifyNative verifySign
  by_cases hc : tx.chainId = chainIdStr cfg h
  · by_cases hh : tx.hash = cr.sha256 (ser tx)
    · cases hs : tx.sign with
      | none => simp [hc, ← hh]
      | some sg =>
        cases hr : recoverPubkey cr tx.hash sg.bytes with
        | none => simp [hc, ← hh, hr]
        | some pk => simp [hc, ← hh, hr]
    · simp [hc, hh]
  · simp [hc]

example : ∃ cr cfg h tx, verifyNative cr cfg h tx = .ok :=
  ⟨{ sha256 := fun _ => List.replicate 32 7, keccak := fun _ => List.replicate 32 1,
     recoverCore := fun _ _ _ _ => some [4], verifyCore := fun _ _ _ _ => true },
   { chainId := [57], originalChainId := [57], proposal001Block := 0, genesisChainId := none }, 0,
   { source := toHex0x (toAddress (List.replicate 32 1)), target := [], type := 0, time := [], data := [],
     extraData := [], hash := List.replicate 32 7, sign := some ⟨1, 1, 27⟩, nonce := 0, chainId := [57],
     extraDataType := 0, requestId := 0, socketRequestId := [], subHash := [] }, by decide⟩

/-- A changed hash is always rejected (no cryptographic assumption). -/
theorem hash_mutation_rejected (cr : Crypto) (cfg : ChainCfg) (h : Nat) (tx : Tx) (h' : Bytes)
    (hacc : verifyNative cr cfg h tx = .ok) (hne : h' ≠ tx.hash) :
    verifyNative cr cfg h { tx with hash := h' } = .hash := by
  have ⟨hc, hh, _⟩ := (native_accept_iff cr cfg h tx).1 hacc
  have hser : ser { tx with hash := h' } = ser tx := rfl
  have hcid : ({ tx with hash := h' } : Tx).chainId = tx.chainId := rfl
  have hhash : ({ tx with hash := h' } : Tx).hash = h' := rfl
  unfold verifyNative
  rw [hser, hcid, hhash, if_neg (by simp [hc]), if_pos (by rw [← hh]; exact hne)]

/-- A changed chain id is always rejected. -/
theorem chainid_mutation_rejected (cr : Crypto) (cfg : ChainCfg) (h : Nat) (tx : Tx) (c' : Bytes)
    (hacc : verifyNative cr cfg h tx = .ok) (hne : c' ≠ tx.chainId) :
    verifyNative cr cfg h { tx with chainId := c' } = .chainId := by
  have ⟨hc, _, _⟩ := (native_accept_iff cr cfg h tx).1 hacc
  have hcid : ({ tx with chainId := c' } : Tx).chainId = c' := rfl
  unfold verifyNative
  rw [hcid, if_pos (by rw [← hc]; exact hne)]

/-- The same signed bytes are not accepted at a height where the chain id differs
    (before / after `Proposal001Block`). -/
theorem other_height_rejected (cr : Crypto) (cfg : ChainCfg) (h h' : Nat) (tx : Tx)
    (hacc : verifyNative cr cfg h tx = .ok) (hne : chainIdStr cfg h' ≠ chainIdStr cfg h) :
    verifyNative cr cfg h' tx = .chainId := by
  have ⟨hc, _, _⟩ := (native_accept_iff cr cfg h tx).1 hacc
  unfold verifyNative
  simp [hc, Ne.symm hne]

example : ∃ cfg h h', chainIdStr cfg h' ≠ chainIdStr cfg h :=
  ⟨{ chainId := [50], originalChainId := [56], proposal001Block := 5, genesisChainId := none }, 5, 4, by decide⟩

/-- The fields no check looks at: the verdict does not depend on them (so they
    are *not* authenticated; the property's "authenticated fields" are the others). -/
theorem unauthenticated_fields_ignored (cr : Crypto) (cfg : ChainCfg) (h : Nat) (tx : Tx)
    (edt : Int) (rid : Nat) (sock sub : Bytes) :
    verifyTx cr cfg h { tx with extraDataType := edt, requestId := rid, socketRequestId := sock, subHash := sub }
      = verifyTx cr cfg h tx := rfl

/-! ### the signature -/

/-- Honestly produced transactions are accepted: whenever the primitives recover
    from `Sign` a key that verifies, the transaction carrying this chain's id, the
    digest of its own content and that key's address as `Source` is admitted. -/
theorem honest_native_accepted (cr : Crypto) (cfg : ChainCfg) (h : Nat) (tx : Tx) (sg : Sign) (pk : Bytes)
    (hty : tx.type ≠ typeETHTX)
    (hcid : tx.chainId = chainIdStr cfg h) (hhash : tx.hash = cr.sha256 (ser tx))
    (hsign : tx.sign = some sg)
    (hrec : recoverPubkey cr tx.hash sg.bytes = some pk)
    (hver : libVerify cr pk tx.hash (sg.bytes.take 64) = true)
    (hsrc : tx.source = nativeAddrStr cr pk) :
    verifyTx cr cfg h tx = .ok := by
  unfold verifyTx
  simp only [hty, ↓reduceIte]
  exact (native_accept_iff cr cfg h tx).2 ⟨hcid, hhash, sg, pk, hsign, hrec, hver, hsrc⟩

/-- The full signature clause: changing `Sign` of an accepted transaction makes it rejected. -/
def FullStatementSignBound : Prop :=
  ∀ (cr : Crypto) (cfg : ChainCfg) (h : Nat) (tx : Tx) (sg' : Option Sign),
    verifyNative cr cfg h tx = .ok → sg' ≠ tx.sign →
    verifyNative cr cfg h { tx with sign := sg' } ≠ .ok

/-- For *every* instance of the primitives: respelling the recovery id 27..30 as
    0..3 (what `secp256k1.checkSignature` does before the library call) turns an
    accepted transaction into another accepted transaction with a different `Sign`. -/
theorem sign_recid_alias_accepted (cr : Crypto) (cfg : ChainCfg) (h : Nat) (tx : Tx) (sg : Sign)
    (hs : tx.sign = some sg) (hacc : verifyNative cr cfg h tx = .ok)
    (h1 : 27 ≤ sg.recid) (h2 : sg.recid ≤ 30) :
    verifyNative cr cfg h { tx with sign := some { sg with recid := sg.recid - 27 } } = .ok := by
  obtain ⟨hc, hh, sg0, pk, hs0, hrec, hver, hsrc⟩ := (native_accept_iff cr cfg h tx).1 hacc
  rw [hs] at hs0
  cases hs0
  have hlen := recoverPubkey_len _ _ _ _ hrec
  have hb : sg.body.length = 64 := by
    rw [Sign.bytes_eq] at hlen
    simpa using hlen
  apply (native_accept_iff cr cfg h _).2
  refine ⟨hc, hh, { sg with recid := sg.recid - 27 }, pk, rfl, ?_, ?_, hsrc⟩
  · show recoverPubkey cr tx.hash (sg.body ++ [sg.recid - 27]) = some pk
    rw [recoverPubkey_alias _ _ _ _ hb h1 h2]
    exact hrec
  · show libVerify cr pk tx.hash ((sg.body ++ [sg.recid - 27]).take 64) = true
    have e1 : (sg.body ++ [sg.recid - 27]).take 64 = sg.body := by rw [← hb]; exact List.take_left' rfl
    have e2 : (sg.body ++ [sg.recid]).take 64 = sg.body := by rw [← hb]; exact List.take_left' rfl
    rw [e1]
    rw [Sign.bytes_eq, e2] at hver
    exact hver

/-- an accepted toy transaction whose recovery id is spelled 27 -/
def toyNative : Tx :=
  { source := toHex0x (toAddress (List.replicate 32 1)), target := [], type := 0, time := [], data := [],
    extraData := [], hash := List.replicate 32 7, sign := some ⟨1, 1, 27⟩, nonce := 0, chainId := [57],
    extraDataType := 0, requestId := 0, socketRequestId := [], subHash := [] }

example : verifyNative toyCrypto toyCfg 0 toyNative = .ok := by decide

/-- The full signature clause is false of the model as of the code (known finding
    `native-sign-recid-alias-accepted`, replayed by the searcher on every run). -/
theorem sign_bound_counterexample : ¬ FullStatementSignBound := by
  intro hfull
  have hacc : verifyNative toyCrypto toyCfg 0 toyNative = .ok := by decide
  have := sign_recid_alias_accepted toyCrypto toyCfg 0 toyNative ⟨1, 1, 27⟩ rfl hacc (by decide) (by decide)
  exact hfull toyCrypto toyCfg 0 toyNative (some ⟨1, 1, 0⟩) hacc (by decide) this

/-- What does hold for a changed signature: if the mutant is accepted, the new
    `Sign` is a second signature of the *same* hash that recovers to a key which
    verifies and has the *same* address — i.e. either the same signature respelled
    (recovery-id alias above) or a second valid signature for the sender's address. -/
theorem sign_mutation_partial (cr : Crypto) (cfg : ChainCfg) (h : Nat) (tx : Tx) (sg' : Option Sign)
    (hacc : verifyNative cr cfg h tx = .ok)
    (hacc' : verifyNative cr cfg h { tx with sign := sg' } = .ok) :
    ∃ sg pk s' pk', tx.sign = some sg ∧ sg' = some s' ∧
      recoverPubkey cr tx.hash sg.bytes = some pk ∧ recoverPubkey cr tx.hash s'.bytes = some pk' ∧
      libVerify cr pk tx.hash (sg.bytes.take 64) = true ∧ libVerify cr pk' tx.hash (s'.bytes.take 64) = true ∧
      nativeAddrStr cr pk' = nativeAddrStr cr pk := by
  obtain ⟨_, _, sg, pk, hs, hrec, hver, hsrc⟩ := (native_accept_iff cr cfg h tx).1 hacc
  obtain ⟨_, _, s', pk', hs', hrec', hver', hsrc'⟩ := (native_accept_iff cr cfg h _).1 hacc'
  exact ⟨sg, pk, s', pk', hs, hs', hrec, hrec', hver, hver', by rw [← hsrc', ← hsrc]⟩

/-- The 65 signature bytes on the wire are exactly the bytes the recovery and the
    verification see (`BytesToSign` then `Sign.Bytes()` is the identity), so two
    different wire signatures — e.g. any single-bit flip — are different inputs to
    the checks; nothing is normalised away by the big-integer representation. -/
theorem sign_wire_faithful (b b' : Bytes) (sg sg' : Sign)
    (h : bytesToSign b = some sg) (h' : bytesToSign b' = some sg') :
    sg.bytes = b ∧ (b ≠ b' → sg.bytes ≠ sg'.bytes) := by
  have e := sign_bytes_roundtrip b sg h
  have e' := sign_bytes_roundtrip b' sg' h'
  exact ⟨e, fun hne heq => hne (by rw [← e, ← e', heq])⟩

example : ∃ b sg, bytesToSign b = some sg := ⟨List.replicate 65 1, _, rfl⟩

/-! ### every hashed field is bound by the hash -/

/-- the eight fields `GenHash` concatenates -/
inductive HashedField where
  | data | nonce | source | target | type | time | extraData | chainId
deriving DecidableEq, Repr

/-- `a` and `b` agree on every hashed field except possibly `f` -/
def AgreeExcept (f : HashedField) (a b : Tx) : Prop :=
  (f ≠ .data → a.data = b.data) ∧ (f ≠ .nonce → a.nonce = b.nonce) ∧
  (f ≠ .source → a.source = b.source) ∧ (f ≠ .target → a.target = b.target) ∧
  (f ≠ .type → a.type = b.type) ∧ (f ≠ .time → a.time = b.time) ∧
  (f ≠ .extraData → a.extraData = b.extraData) ∧ (f ≠ .chainId → a.chainId = b.chainId)

def Differs (f : HashedField) (a b : Tx) : Prop :=
  match f with
  | .data => a.data ≠ b.data | .nonce => a.nonce ≠ b.nonce | .source => a.source ≠ b.source
  | .target => a.target ≠ b.target | .type => a.type ≠ b.type | .time => a.time ≠ b.time
  | .extraData => a.extraData ≠ b.extraData | .chainId => a.chainId ≠ b.chainId

/-- Changing exactly one of the eight hashed fields changes the hashed byte string
    (prefix/suffix cancellation; the decimal renderings are injective). -/
theorem single_field_changes_ser (f : HashedField) (a b : Tx)
    (hag : AgreeExcept f a b) (hd : Differs f a b) : ser a ≠ ser b := by
  obtain ⟨h1, h2, h3, h4, h5, h6, h7, h8⟩ := hag
  intro heq
  unfold ser at heq
  cases f <;> simp only [ne_eq, reduceCtorEq, not_false_eq_true, not_true_eq_false, forall_const,
    false_implies] at h1 h2 h3 h4 h5 h6 h7 h8 <;> simp only [Differs] at hd
  · rw [h2, h3, h4, h5, h6, h7, h8] at heq
    simp only [List.append_assoc, List.append_left_inj] at heq
    exact hd heq
  · rw [h1, h3, h4, h5, h6, h7, h8] at heq
    simp only [List.append_assoc, List.append_left_inj, List.append_right_inj] at heq
    exact hd (decimal_injective heq)
  · rw [h1, h2, h4, h5, h6, h7, h8] at heq
    simp only [List.append_assoc, List.append_left_inj, List.append_right_inj] at heq
    exact hd heq
  · rw [h1, h2, h3, h5, h6, h7, h8] at heq
    simp only [List.append_assoc, List.append_left_inj, List.append_right_inj] at heq
    exact hd heq
  · rw [h1, h2, h3, h4, h6, h7, h8] at heq
    simp only [List.append_assoc, List.append_left_inj, List.append_right_inj] at heq
    exact hd (decimalInt_injective heq)
  · rw [h1, h2, h3, h4, h5, h7, h8] at heq
    simp only [List.append_assoc, List.append_left_inj, List.append_right_inj] at heq
    exact hd heq
  · rw [h1, h2, h3, h4, h5, h6, h8] at heq
    simp only [List.append_assoc, List.append_left_inj, List.append_right_inj] at heq
    exact hd heq
  · rw [h1, h2, h3, h4, h5, h6, h7] at heq
    simp only [List.append_assoc, List.append_right_inj] at heq
    exact hd heq

/-- An accepted single-field mutant of an accepted native transaction (same hash
    and signature, one hashed field changed) exhibits a SHA-256 collision. -/
theorem mutation_rejected_or_collision (cr : Crypto) (cfg : ChainCfg) (h : Nat)
    (f : HashedField) (a b : Tx)
    (hacc : verifyNative cr cfg h a = .ok) (hacc' : verifyNative cr cfg h b = .ok)
    (hhash : b.hash = a.hash) (hag : AgreeExcept f a b) (hd : Differs f a b) :
    cr.sha256 (ser a) = cr.sha256 (ser b) ∧ ser a ≠ ser b := by
  have ⟨_, ha, _⟩ := (native_accept_iff cr cfg h a).1 hacc
  have ⟨_, hb, _⟩ := (native_accept_iff cr cfg h b).1 hacc'
  exact ⟨by rw [← ha, ← hb, hhash], single_field_changes_ser f a b hag hd⟩

example : ∃ a b : Tx, AgreeExcept .nonce a b ∧ Differs .nonce a b :=
  ⟨{ source := [], target := [], type := 0, time := [], data := [], extraData := [], hash := [], sign := none,
     nonce := 1, chainId := [], extraDataType := 0, requestId := 0, socketRequestId := [], subHash := [] },
   { source := [], target := [], type := 0, time := [], data := [], extraData := [], hash := [], sign := none,
     nonce := 2, chainId := [], extraDataType := 0, requestId := 0, socketRequestId := [], subHash := [] },
   by simp [AgreeExcept], by simp [Differs]⟩

/-- The concatenation has no separators: moving a digit from the end of `Data`
    to the front of `Nonce` (two fields change) leaves the hashed bytes, hence hash
    and signature, unchanged.  Recorded as a fact about the code; it is outside the
    property's single-field quantifier. -/
theorem ser_boundary_ambiguity :
    ∃ a b : Tx, a.data ≠ b.data ∧ a.nonce ≠ b.nonce ∧ ser a = ser b ∧
      ∀ cr cfg h, verifyNative cr cfg h a = verifyNative cr cfg h { b with hash := a.hash, sign := a.sign } :=
  ⟨{ source := [], target := [], type := 0, time := [], data := [49], extraData := [], hash := [], sign := none,
     nonce := 23, chainId := [], extraDataType := 0, requestId := 0, socketRequestId := [], subHash := [] },
   { source := [], target := [], type := 0, time := [], data := [49, 50], extraData := [], hash := [], sign := none,
     nonce := 3, chainId := [], extraDataType := 0, requestId := 0, socketRequestId := [], subHash := [] },
   by decide, by decide, by decide, fun _ _ _ => rfl⟩

/-! ## wrapped Ethereum transactions -/

theorem compareTx_iff (tx exp : Tx) :
    compareTx tx exp = true ↔
      tx.source = exp.source ∧ tx.target = exp.target ∧ tx.type = exp.type ∧
      tx.extraData = exp.extraData ∧ tx.nonce = exp.nonce ∧ tx.chainId = exp.chainId ∧
      tx.data = exp.data ∧ tx.hash = exp.hash := by
  unfold compareTx
  simp only [Bool.and_eq_true, beq_iff_eq, and_assoc]

theorem verifyEth_eq (cr : Crypto) (cfg : ChainCfg) (h : Nat) (tx : Tx) :
    verifyEth cr cfg h tx =
      match decodeTx (fromHex tx.extraData) with
      | none => .illegal
      | some e =>
        if encodeTx e ≠ fromHex tx.extraData then .illegal
        else match ethSender cr (ethChainId cfg h) e with
          | none => .illegal
          | some sender =>
            if compareTx tx (convertTx cr e sender (fromHex tx.extraData)) then .ok else .illegal := rfl

/-- Acceptance of a wrapped Ethereum transaction is exactly: `ExtraData` is the
    canonical hex of a canonical RLP payload, the EIP-155 signer of this chain
    recovers a sender from it, and every declared field equals the value derived
    from the payload. -/
theorem eth_accept_iff (cr : Crypto) (cfg : ChainCfg) (h : Nat) (tx : Tx) :
    verifyEth cr cfg h tx = .ok ↔
      ∃ e sender, decodeTx (fromHex tx.extraData) = some e ∧
        encodeTx e = fromHex tx.extraData ∧
        ethSender cr (ethChainId cfg h) e = some sender ∧
        tx.source = toHex0x sender ∧
        tx.target = (match e.to with | some a => toHex0x a | none => []) ∧
        tx.type = typeETHTX ∧
        tx.extraData = toHex0x (fromHex tx.extraData) ∧
        tx.nonce = e.nonce ∧
        tx.chainId = decimal (deriveChainId e.v) ∧
        tx.data = contractDataJson e ∧
        tx.hash = cr.keccak (fromHex tx.extraData) := by
  rw [verifyEth_eq]
  generalize hd : decodeTx (fromHex tx.extraData) = od
  cases od with
  | none => simp
  | some e =>
    dsimp only
    by_cases henc : encodeTx e = fromHex tx.extraData
    · cases hs : ethSender cr (ethChainId cfg h) e with
      | none =>
        simp only [henc, ne_eq, not_true_eq_false, ↓reduceIte]
        constructor
        · intro hf; cases hf
        · rintro ⟨e', s', he', _, hs', _⟩
          cases he'
          rw [hs] at hs'
          cases hs'
      | some sender =>
        by_cases hx : compareTx tx (convertTx cr e sender (fromHex tx.extraData)) = true
        · have h8 := (compareTx_iff _ _).1 hx
          simp only [convertTx] at h8
          simp only [henc, ne_eq, not_true_eq_false, ↓reduceIte, hx, true_iff]
          exact ⟨e, sender, rfl, henc, hs, h8.1, h8.2.1, h8.2.2.1, h8.2.2.2.1, h8.2.2.2.2.1,
            h8.2.2.2.2.2.1, h8.2.2.2.2.2.2.1, by rw [h8.2.2.2.2.2.2.2, henc]⟩
        · simp only [henc, ne_eq, not_true_eq_false, ↓reduceIte, hx, Bool.false_eq_true]
          constructor
          · intro hf; cases hf
          · rintro ⟨e', s', he', _, hs', h1, h2, h3, h4, h5, h6, h7, h8⟩
            cases he'
            rw [hs] at hs'
            cases hs'
            exfalso
            apply hx
            apply (compareTx_iff _ _).2
            simp only [convertTx]
            exact ⟨h1, h2, h3, h4, h5, h6, h7, by rw [h8, henc]⟩
    · simp only [ne_eq, henc, not_false_eq_true, ↓reduceIte]
      constructor
      · intro hf; cases hf
      · rintro ⟨e', s', he', henc', _⟩
        cases he'
        exact absurd henc' henc

/-- an EIP-155 payload for chain 9 (v = 2·9+35) and its wrapped form -/
def toyEth155 : EthTx := { nonce := 3, price := 1, gas := 21000, to := none, value := 5, data := [1, 2], v := 53, r := 1, s := 1 }
def toyWrapped (e : EthTx) : Tx := convertTx toyCrypto e (List.replicate 20 1) (encodeTx e)

example : verifyEth toyCrypto toyCfg 0 (toyWrapped toyEth155) = .ok := by decide

/-- Hash of an accepted wrapped transaction is the Keccak digest of exactly the
    bytes in `ExtraData` (the signed RLP payload). -/
theorem eth_hash_is_payload_digest (cr : Crypto) (cfg : ChainCfg) (h : Nat) (tx : Tx)
    (hacc : verifyEth cr cfg h tx = .ok) :
    tx.hash = cr.keccak (fromHex tx.extraData) ∧ tx.extraData = toHex0x (fromHex tx.extraData) := by
  obtain ⟨e, s, _, _, _, _, _, _, hx, _, _, _, hh⟩ := (eth_accept_iff cr cfg h tx).1 hacc
  exact ⟨hh, hx⟩

/-- Declared sender, target, nonce, chain id, value/gas/data (`Data`) and hash of an
    accepted wrapped transaction are functions of the signed payload: two accepted
    transactions with the same `ExtraData` agree on all of them. -/
theorem eth_fields_bound (cr : Crypto) (cfg : ChainCfg) (h : Nat) (tx tx' : Tx)
    (hacc : verifyEth cr cfg h tx = .ok) (hacc' : verifyEth cr cfg h tx' = .ok)
    (hx : tx'.extraData = tx.extraData) :
    tx'.source = tx.source ∧ tx'.target = tx.target ∧ tx'.type = tx.type ∧ tx'.nonce = tx.nonce ∧
      tx'.chainId = tx.chainId ∧ tx'.data = tx.data ∧ tx'.hash = tx.hash := by
  obtain ⟨e, s, hd, _, hs, h1, h2, h3, _, h5, h6, h7, h8⟩ := (eth_accept_iff cr cfg h tx).1 hacc
  obtain ⟨e', s', hd', _, hs', h1', h2', h3', _, h5', h6', h7', h8'⟩ := (eth_accept_iff cr cfg h tx').1 hacc'
  rw [hx] at hd' h8'
  rw [hd] at hd'
  cases hd'
  rw [hs] at hs'
  cases hs'
  exact ⟨by rw [h1, h1'], by rw [h2, h2'], by rw [h3, h3'], by rw [h5, h5'], by rw [h6, h6'],
    by rw [h7, h7'], by rw [h8, h8']⟩

/-- Changing exactly one declared field (sender, target, nonce, chain id, data or
    hash) of an accepted wrapped transaction makes it rejected — unconditionally. -/
theorem eth_field_mutation_rejected (cr : Crypto) (cfg : ChainCfg) (h : Nat) (tx tx' : Tx)
    (hacc : verifyEth cr cfg h tx = .ok) (hx : tx'.extraData = tx.extraData)
    (hdiff : tx'.source ≠ tx.source ∨ tx'.target ≠ tx.target ∨ tx'.nonce ≠ tx.nonce ∨
      tx'.chainId ≠ tx.chainId ∨ tx'.data ≠ tx.data ∨ tx'.hash ≠ tx.hash) :
    verifyEth cr cfg h tx' ≠ .ok := by
  intro hacc'
  obtain ⟨a, b, _, c, d, e, f⟩ := eth_fields_bound cr cfg h tx tx' hacc hacc' hx
  rcases hdiff with hd | hd | hd | hd | hd | hd
  · exact hd a
  · exact hd b
  · exact hd c
  · exact hd d
  · exact hd e
  · exact hd f

example : ∃ tx' : Tx, tx'.extraData = (toyWrapped toyEth155).extraData ∧ tx'.nonce ≠ (toyWrapped toyEth155).nonce :=
  ⟨{ toyWrapped toyEth155 with nonce := 4 }, rfl, by decide⟩

/-- Changing the signed payload (`ExtraData`) of an accepted wrapped transaction,
    everything else kept, is rejected unless the two payloads are a Keccak collision.
    This covers every single-bit flip of the RLP payload, signature values included. -/
theorem eth_payload_mutation_rejected_or_collision (cr : Crypto) (cfg : ChainCfg) (h : Nat) (tx : Tx) (x' : Bytes)
    (hacc : verifyEth cr cfg h tx = .ok) (hne : x' ≠ tx.extraData)
    (hacc' : verifyEth cr cfg h { tx with extraData := x' } = .ok) :
    cr.keccak (fromHex x') = cr.keccak (fromHex tx.extraData) ∧ fromHex x' ≠ fromHex tx.extraData := by
  obtain ⟨hh, hc⟩ := eth_hash_is_payload_digest cr cfg h tx hacc
  obtain ⟨hh', hc'⟩ := eth_hash_is_payload_digest cr cfg h _ hacc'
  have e1 : ({ tx with extraData := x' } : Tx).hash = tx.hash := rfl
  have e2 : ({ tx with extraData := x' } : Tx).extraData = x' := rfl
  rw [e1, e2] at hh'
  rw [e2] at hc'
  refine ⟨by rw [← hh', ← hh], fun heq => hne ?_⟩
  rw [hc', hc, heq]

/-- The full EIP-155 clause of the property: an accepted wrapped transaction is
    replay-protected and signed for this chain's id. -/
def FullStatementEthChainBound : Prop :=
  ∀ (cr : Crypto) (cfg : ChainCfg) (h : Nat) (tx : Tx), verifyEth cr cfg h tx = .ok →
    ∃ e, decodeTx (fromHex tx.extraData) = some e ∧ isProtectedV e.v = true ∧
      deriveChainId e.v = ethChainId cfg h

/-- What does hold: an accepted payload is either EIP-155 for this chain's id, or
    an unprotected (v = 27/28) signature and then the declared chain id is "0". -/
theorem eth_chain_bound_partial (cr : Crypto) (cfg : ChainCfg) (h : Nat) (tx : Tx)
    (hacc : verifyEth cr cfg h tx = .ok) :
    ∃ e, decodeTx (fromHex tx.extraData) = some e ∧
      ((isProtectedV e.v = true ∧ deriveChainId e.v = ethChainId cfg h ∧
          tx.chainId = decimal (ethChainId cfg h)) ∨
       (isProtectedV e.v = false ∧ (e.v = 27 ∨ e.v = 28) ∧ tx.chainId = [48])) := by
  obtain ⟨e, s, hd, _, hs, _, _, _, _, _, hcid, _, _⟩ := (eth_accept_iff cr cfg h tx).1 hacc
  refine ⟨e, hd, ?_⟩
  unfold ethSender at hs
  by_cases hp : isProtectedV e.v = true
  · left
    simp only [hp, not_true_eq_false, ↓reduceIte] at hs
    by_cases hc : deriveChainId e.v = ethChainId cfg h
    · exact ⟨hp, hc, by rw [hcid, hc]⟩
    · simp [hc] at hs
  · right
    have hp' : isProtectedV e.v = false := by simpa using hp
    have hv : e.v = 27 ∨ e.v = 28 := by
      unfold isProtectedV at hp'
      by_cases hlt : e.v < 256
      · simp only [hlt, ↓reduceIte, decide_eq_false_iff_not, ne_eq] at hp'
        omega
      · simp [hlt] at hp'
    refine ⟨hp', hv, ?_⟩
    rw [hcid]
    rcases hv with hv | hv <;> rw [hv] <;> decide

/-- a pre-EIP-155 (Homestead, v = 27) payload, wrapped -/
def toyEthUnprotected : EthTx := { toyEth155 with v := 27 }

/-- The full clause is false of the model, as it is of the code (known finding
    `eth-unprotected-accepted`, replayed by the searcher on every run). -/
theorem eth_chain_bound_counterexample : ¬ FullStatementEthChainBound := by
  intro hfull
  obtain ⟨e, hd, hp, _⟩ := hfull toyCrypto toyCfg 0 (toyWrapped toyEthUnprotected) (by decide)
  have hd' : decodeTx (fromHex (toyWrapped toyEthUnprotected).extraData) = some toyEthUnprotected := by decide
  rw [hd'] at hd
  cases hd
  revert hp
  decide

/-- A wrapped transaction that declares a chain id other than "0" is EIP-155
    protected and signed for exactly this chain's id. -/
theorem eth_chain_bound_declared (cr : Crypto) (cfg : ChainCfg) (h : Nat) (tx : Tx)
    (hacc : verifyEth cr cfg h tx = .ok) (hnz : tx.chainId ≠ [48]) :
    ∃ e, decodeTx (fromHex tx.extraData) = some e ∧ isProtectedV e.v = true ∧
      deriveChainId e.v = ethChainId cfg h ∧ tx.chainId = decimal (ethChainId cfg h) := by
  obtain ⟨e, hd, hcase⟩ := eth_chain_bound_partial cr cfg h tx hacc
  rcases hcase with ⟨hp, hc, hs⟩ | ⟨_, _, hz⟩
  · exact ⟨e, hd, hp, hc, hs⟩
  · exact absurd hz hnz

example : (toyWrapped toyEth155).chainId ≠ [48] := by decide

/-! ### honest wrapped transactions are accepted -/

/-- What `eth_rpc.SendRawTransaction` builds from a payload whose signer recovers
    under this chain's rules is admitted, provided the payload survives the two
    codecs on the way (`ExtraData` hex and RLP) — both discharged below for
    well-formed transactions (`honest_eth_accepted`). -/
theorem honest_eth_accepted_of_roundtrip (cr : Crypto) (cfg : ChainCfg) (h : Nat) (e : EthTx) (sender : Bytes)
    (hhex : fromHex (toHex0x (encodeTx e)) = encodeTx e)
    (hrlp : decodeTx (encodeTx e) = some e)
    (hsnd : ethSender cr (ethChainId cfg h) e = some sender) :
    verifyTx cr cfg h (convertTx cr e sender (encodeTx e)) = .ok := by
  unfold verifyTx
  have ht : (convertTx cr e sender (encodeTx e)).type = typeETHTX := rfl
  simp only [ht, ↓reduceIte]
  apply (eth_accept_iff cr cfg h _).2
  have hx : (convertTx cr e sender (encodeTx e)).extraData = toHex0x (encodeTx e) := rfl
  refine ⟨e, sender, ?_, ?_, hsnd, rfl, rfl, rfl, ?_, rfl, rfl, rfl, ?_⟩
  · rw [hx, hhex]; exact hrlp
  · rw [hx, hhex]
  · rw [hx, hhex]
  · rw [hx, hhex]; rfl

example : fromHex (toHex0x (encodeTx toyEth155)) = encodeTx toyEth155 ∧
    decodeTx (encodeTx toyEth155) = some toyEth155 ∧
    ethSender toyCrypto (ethChainId toyCfg 0) toyEth155 = some (List.replicate 20 1) := by decide

/-- The payload codecs are lossless on well-formed transactions: hex and RLP. -/
theorem payload_roundtrip (e : EthTx) (wf : WfEthTx e) :
    fromHex (toHex0x (encodeTx e)) = encodeTx e ∧ decodeTx (encodeTx e) = some e :=
  ⟨fromHex_toHex0x _ (encodeTx_ne_nil e), decodeTx_encodeTx e wf⟩

/-- Honestly signed wrapped transactions are always accepted: for every well-formed
    Ethereum transaction whose signer the chain's EIP-155 rules recover, the wrapped
    form built by `ConvertTx` (what `eth_rpc.SendRawTransaction` submits) is admitted. -/
theorem honest_eth_accepted (cr : Crypto) (cfg : ChainCfg) (h : Nat) (e : EthTx) (sender : Bytes)
    (wf : WfEthTx e) (hsnd : ethSender cr (ethChainId cfg h) e = some sender) :
    verifyTx cr cfg h (convertTx cr e sender (encodeTx e)) = .ok :=
  honest_eth_accepted_of_roundtrip cr cfg h e sender (payload_roundtrip e wf).1 (payload_roundtrip e wf).2 hsnd

example : WfEthTx toyEth155 :=
  ⟨by decide, by decide, (by intro a ha; cases ha), by
    simp [toyEth155, itemOfTx, coreItems, toItem, RLP.Item.sizeOK, RLP.Item.sizeOKs, RLP.encodeList, RLP.encode,
      RLP.encString, RLP.encHead, RLP.toBE, RLP.toBEf]⟩

/-- When the EIP-155 signer of chain `c` recovers a sender: `v = 2c+35+k` with
    recovery bit `k`, `r`, `s` in range with low `s`, and the library recovers an
    uncompressed key from the EIP-155 signing hash; the sender is the low 20 bytes of
    the key's Keccak digest. -/
theorem ethSender_eip155 (cr : Crypto) (c : Nat) (e : EthTx) (k : Nat) (pub : Bytes)
    (hk : k < 2) (hv : e.v = 2 * c + 35 + k)
    (hr : 1 ≤ e.r ∧ e.r < secpN) (hs : 1 ≤ e.s ∧ e.s ≤ secpHalfN)
    (hrec : recoverPubkeyEth cr (cr.keccak (sigPreimage155 c e))
      (padLeft 32 (natToBE e.r) ++ padLeft 32 (natToBE e.s) ++ [UInt8.ofNat k]) = some pub)
    (hpub : pub.head? = some 4) :
    ethSender cr c e = some (((cr.keccak (pub.drop 1)).drop 12).take 20 ++
      List.replicate (20 - min 20 ((cr.keccak (pub.drop 1)).drop 12).length) 0) := by
  have hprot : isProtectedV e.v = true := by
    unfold isProtectedV
    by_cases hlt : e.v < 256
    · simp only [hlt, ↓reduceIte, decide_eq_true_eq]; omega
    · simp [hlt]
  have hder : deriveChainId e.v = c := by
    unfold deriveChainId
    by_cases hlt : e.v < 2 ^ 64
    · have h1 : ¬ (e.v = 27 ∨ e.v = 28) := by omega
      have h2 : e.v ≥ 35 := by omega
      simp only [hlt, ↓reduceIte, h1, h2]; omega
    · simp only [hlt, ↓reduceIte]; omega
  have hvb : Int.ofNat e.v - Int.ofNat (2 * c) - 8 = Int.ofNat (27 + k) := by
    rw [hv]; simp only [Int.ofNat_eq_natCast]; omega
  have hhalf : secpHalfN < secpN := by decide
  unfold ethSender
  simp only [hprot, not_true_eq_false, ↓reduceIte, hder, ne_eq, hvb]
  unfold recoverPlain
  have hna : (Int.ofNat (27 + k)).natAbs = 27 + k := rfl
  have hvk : ((27 + k) % 2 ^ 64 + 2 ^ 64 - 27) % 256 = k := by omega
  have c1 : ¬ (27 + k ≥ 256) := by omega
  have c2 : ¬ (e.r < 1 ∨ e.s < 1) := by omega
  have c3 : ¬ (e.s > secpHalfN) := by omega
  have c4 : e.r < secpN ∧ e.s < secpN ∧ (k = 0 ∨ k = 1) := ⟨hr.2, by omega, by omega⟩
  simp only [hna, hvk, c1, c2, c3, c4, ↓reduceIte, not_true_eq_false, and_self, hrec, hpub, ne_eq]

end Rangers.Props.C07
