import Rangers.Model.TxAuth
namespace Rangers.Props.C07
open Rangers Rangers.Model.TxAuth

theorem verdict_total (cr : Crypto) (cfg : ChainCfg) (h : Nat) (tx : Tx) :
    verifyTx cr cfg h tx = if tx.type = typeETHTX then verifyEth cr cfg h tx else verifyNative cr cfg h tx := rfl

end Rangers.Props.C07
