import Rangers.Model.Miner
namespace Rangers.Props.C20
open Rangers Rangers.Miner

theorem get_set_same (s : Store) (k v : Bytes) : (s.set k v).get k = v := by
  simp [Store.get, Store.set, List.lookup]

end Rangers.Props.C20
