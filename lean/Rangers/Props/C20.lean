import Rangers.Proofs.MinerToy
/-!
# C20 — miner registry and stake accounting agree with the applied miner transactions

Theorems about `Rangers.Miner` (Model/Miner.lean), the model the driver `drv_c20` executes against the
real executors. They hold for every `Cfg` (key hash, JSON codec) — the driver's instance is SHA-256 +
the `GetMinerInfo` JSON. Clauses that are false of the code as it is are stated in full as
`FullStatement…`, refuted by `…_counterexample` (the witnesses are replayed on the implementation by
the searcher, see known-findings.txt) and proved under the restriction that avoids the defect as
`…_partial`.
-/
namespace Rangers.Props.C20
open Rangers Rangers.Miner

/-- States the node can be in: an empty registry with arbitrary balances, then any operations. -/
def Reachable (cfg : Cfg) (st : State) : Prop :=
  ∃ h bal ops, (∀ o ∈ ops, OpOK cfg o) ∧ st = run cfg { State.empty h with bal := bal } ops

/-! ## a rejected miner transaction changes nothing but the fee -/

/-- Full strength, every state, every transaction, every codec: a transaction that is not accepted
    either leaves the state untouched (`skip:nofee`) or leaves exactly the fee-charged state —
    including `context["refund"]`, which lives outside the journal. -/
theorem rejected_changes_only_fee (cfg : Cfg) (st : State) (tx : Tx) (h : (runTx cfg st tx).1 ≠ "ok") :
    (runTx cfg st tx).2 = st ∨ processFee st tx.src = some (runTx cfg st tx).2 := by
  unfold runTx at h ⊢
  cases hf : processFee st tx.src with
  | none => left; rfl
  | some st1 =>
    right
    simp only [hf] at h ⊢
    by_cases hok : (execute cfg st1 tx).1 = "ok"
    · simp only [hok, if_true] at h; exact absurd rfl h
    · simp only [hok, if_false]
      rw [execute_fail cfg st1 tx hok]

/-- What "the fee" is: only balances move, `fee` from the payer to the fee account. -/
theorem fee_moves_only_fee (st st1 : State) (src : Bytes) (h : processFee st src = some st1) :
    st1.live = st.live ∧ st1.trie = st.trie ∧ st1.pending = st.pending ∧ st1.escrow = st.escrow ∧
      st1.code = st.code ∧ st1.height = st.height ∧ fee ≤ st.balOf (feePayer src) ∧
      (∀ a, a ≠ feeAccount → st1.balOf a = if a = feePayer src then st.balOf a - fee else st.balOf a) ∧
      st1.balOf feeAccount = (if feeAccount = feePayer src then st.balOf feeAccount - fee else st.balOf feeAccount) + fee := by
  have hl := processFee_live st st1 src h
  refine ⟨hl.1, hl.2.1, hl.2.2.1, hl.2.2.2.1, hl.2.2.2.2.1, hl.2.2.2.2.2, ?_⟩
  simp only [processFee] at h
  split at h
  · cases h
  · rename_i hge
    cases h
    refine ⟨by omega, ?_, ?_⟩
    · intro a ha
      simp only [State.addBal, State.subBal, balOf_setBal, ha, if_false]
      split <;> simp_all
    · simp only [State.addBal, State.subBal, balOf_setBal, if_true]
      split <;> simp_all

example : (runTx toyCfg funded (.refund addr1 [0x11] 5)).1 = "fail:nominer" := by decide
example : (runTx toyCfg funded (.add [] [0x11] 5)).1 = "skip:nofee" := by decide

/-! ## the three lookup paths agree (at block boundaries) -/

/-- iterator ⇒ by-id: a record the registry iterator yields is what `GetMinerById` returns for its id. -/
theorem lookup_agree_partial_iter_id (cfg : Cfg) (st : State) (d : DbId) (m : Miner)
    (hf : Flushed st) (hr : RecKeyed cfg st) (hm : m ∈ iter cfg st d) :
    getMinerById cfg st d m.id = some m :=
  iter_to_id cfg st d m hf hr hm

/-- by-id ⇒ iterator. -/
theorem lookup_agree_partial_id_iter (cfg : Cfg) (st : State) (d : DbId) (id : Bytes) (m : Miner)
    (hf : Flushed st) (hr : RecKeyed cfg st) (hm : getMinerById cfg st d id = some m) :
    m ∈ iter cfg st d ∧ m.id = id := by
  refine ⟨id_to_iter cfg st d id m hf hr hm, ?_⟩
  obtain ⟨hv, info, hdec, rfl⟩ := (getMinerById_some cfg st d id m).mp hm
  simp [readMiner, (hr d id info hv hdec).1]

/-- by-account ⇒ by-id: the id `GetMinerIdByAccount` returns names a record carrying that account. -/
theorem lookup_agree_partial_account_id (cfg : Cfg) (st : State) (a id : Bytes)
    (hf : Flushed st) (hr : RecKeyed cfg st) (h : byAccount cfg st a = some id) :
    ∃ d m, (d = .val ∨ d = .prop) ∧ getMinerById cfg st d id = some m ∧ m.account = a := by
  obtain ⟨m, hmem, hacc, hid⟩ := byAccount_some cfg st a id h
  rcases hmem with hmem | hmem
  · exact ⟨.val, m, Or.inl rfl, hid ▸ iter_to_id cfg st .val m hf hr hmem, hacc⟩
  · exact ⟨.prop, m, Or.inr rfl, hid ▸ iter_to_id cfg st .prop m hf hr hmem, hacc⟩

/-- by-id ⇒ by-account: the account of a registered miner is found by `GetMinerIdByAccount`. -/
theorem lookup_agree_partial_id_account (cfg : Cfg) (st : State) (d : DbId) (id : Bytes) (m : Miner)
    (hd : d = .val ∨ d = .prop) (hf : Flushed st) (hr : RecKeyed cfg st) (hm : getMinerById cfg st d id = some m) :
    (byAccount cfg st m.account).isSome := by
  have := id_to_iter cfg st d id m hf hr hm
  apply byAccount_isSome
  rcases hd with rfl | rfl
  · exact Or.inl this
  · exact Or.inr this

/-- The hypotheses of the four theorems above hold in every reachable state right after a block end
    (codec assumptions: decode∘encode keeps the id; stake/status bytes and the accounts used are not
    record encodings). -/
theorem lookup_hypotheses_reachable (cfg : Cfg) (st : State) (n : Nat) (hc : CodecId cfg) (hraw : RawOK cfg)
    (hs : Reachable cfg st) : Flushed (endBlock st n) ∧ RecKeyed cfg (endBlock st n) := by
  obtain ⟨h, bal, ops, hok, rfl⟩ := hs
  refine ⟨endBlock_flushed _ _, recKeyed_endBlock cfg _ n ?_⟩
  exact recKeyed_run cfg _ ops hc hraw hok (recKeyed_empty cfg _ (fun _ => rfl))

def tApply11 : Tx := .apply addr1 [0x11] 0 400 [] [1] [1]
def tApply22 : Tx := .apply addr1 [0x22] 0 400 [] [1] [1]

/-- Non-vacuity: a reachable state with a registered miner. -/
example : (getMinerById toyCfg (run toyCfg funded [.tx tApply11, .endBlock 101]) .val [0x11]).isSome = true := by decide
example : Reachable toyCfg (run toyCfg funded [.tx tApply11]) :=
  ⟨100, _, [.tx tApply11], by intro o ho; simp at ho; subst ho; exact ⟨by decide, by decide⟩, rfl⟩

/-- The clause as stated: in *every* reachable state the by-id and iterator views coincide. -/
def FullStatementLookup : Prop :=
  ∀ cfg st, CodecId cfg → RawOK cfg → Reachable cfg st →
    ∀ d id m, getMinerById cfg st d id = some m → m ∈ iter cfg st d

/-- False of the code: inside a block the iterator (storage trie) does not see the block's own writes. -/
theorem lookup_agree_counterexample : ¬ FullStatementLookup := by
  intro h
  have hr : Reachable toyCfg (run toyCfg funded [.tx tApply11]) :=
    ⟨100, _, [.tx tApply11], by intro o ho; simp at ho; subst ho; exact ⟨by decide, by decide⟩, rfl⟩
  have hm : ∃ m, getMinerById toyCfg (run toyCfg funded [.tx tApply11]) .val [0x11] = some m :=
    Option.isSome_iff_exists.mp (by decide)
  obtain ⟨m, hm⟩ := hm
  have := h toyCfg _ toy_codecId toy_rawOK hr .val [0x11] m hm
  have he : iter toyCfg (run toyCfg funded [.tx tApply11]) .val = [] := by decide
  rw [he] at this
  cases this

end Rangers.Props.C20
