import Rangers.Proofs.MinerToy
import Rangers.Proofs.MinerTx
import Rangers.Proofs.MinerTotals
/-!
# C20 — miner registry and stake accounting agree with the applied miner transactions

Theorems about `Rangers.Miner` (Model/Miner.lean), the model the driver `drv_c20` executes against the
real executors. They hold for every `Cfg` (key hash, JSON codec) — the driver's instance is SHA-256 +
the `GetMinerInfo` JSON. Clauses that are false of the code as it is are stated in full as
`FullStatement…`, refuted by `…_counterexample` (the witnesses are replayed on the implementation by
the searcher, see known-findings.txt) and proved under the restriction that avoids the defect as
`…_partial`.
-/
namespace Rangers.Props.C20
open Rangers Rangers.Miner

/-- States the node can be in: an empty registry with arbitrary balances, then any operations. -/
def Reachable (cfg : Cfg) (st : State) : Prop :=
  ∃ h bal ops, (∀ o ∈ ops, OpOK cfg o) ∧ st = run cfg { State.empty h with bal := bal } ops

/-! ## a rejected miner transaction changes nothing but the fee -/

/-- Full strength, every state, every transaction, every codec: a transaction that is not accepted
    either leaves the state untouched (`skip:nofee`) or leaves exactly the fee-charged state —
    including `context["refund"]`, which lives outside the journal. -/
theorem rejected_changes_only_fee (cfg : Cfg) (st : State) (tx : Tx) (h : (runTx cfg st tx).1 ≠ "ok") :
    (runTx cfg st tx).2 = st ∨ processFee st tx.src = some (runTx cfg st tx).2 := by
  unfold runTx at h ⊢
  cases hf : processFee st tx.src with
  | none => left; rfl
  | some st1 =>
    right
    simp only [hf] at h ⊢
    by_cases hok : (execute cfg st1 tx).1 = "ok"
    · simp only [hok, if_true] at h; exact absurd rfl h
    · simp only [hok, if_false]
      rw [execute_fail cfg st1 tx hok]

/-- What "the fee" is: only balances move, `fee` from the payer to the fee account. -/
theorem fee_moves_only_fee (st st1 : State) (src : Bytes) (h : processFee st src = some st1) :
    st1.live = st.live ∧ st1.trie = st.trie ∧ st1.pending = st.pending ∧ st1.escrow = st.escrow ∧
      st1.code = st.code ∧ st1.height = st.height ∧ fee ≤ st.balOf (feePayer src) ∧
      (∀ a, a ≠ feeAccount → st1.balOf a = if a = feePayer src then st.balOf a - fee else st.balOf a) ∧
      st1.balOf feeAccount = (if feeAccount = feePayer src then st.balOf feeAccount - fee else st.balOf feeAccount) + fee := by
  have hl := processFee_live st st1 src h
  refine ⟨hl.1, hl.2.1, hl.2.2.1, hl.2.2.2.1, hl.2.2.2.2.1, hl.2.2.2.2.2, ?_⟩
  simp only [processFee] at h
  split at h
  · cases h
  · rename_i hge
    cases h
    refine ⟨by omega, ?_, ?_⟩
    · intro a ha
      simp only [State.addBal, State.subBal, balOf_setBal, ha, if_false]
      split <;> simp_all
    · simp only [State.addBal, State.subBal, balOf_setBal, if_true]
      split <;> simp_all

example : (runTx toyCfg funded (.refund addr1 [0x11] 5)).1 = "fail:nominer" := by decide
example : (runTx toyCfg funded (.add [] [0x11] 5)).1 = "skip:nofee" := by decide

/-! ## the three lookup paths agree (at block boundaries) -/

/-- iterator ⇒ by-id: a record the registry iterator yields is what `GetMinerById` returns for its id. -/
theorem lookup_agree_partial_iter_id (cfg : Cfg) (st : State) (d : DbId) (m : Miner)
    (hf : Flushed st) (hr : RecKeyed cfg st) (hm : m ∈ iter cfg st d) :
    getMinerById cfg st d m.id = some m :=
  iter_to_id cfg st d m hf hr hm

/-- by-id ⇒ iterator. -/
theorem lookup_agree_partial_id_iter (cfg : Cfg) (st : State) (d : DbId) (id : Bytes) (m : Miner)
    (hf : Flushed st) (hr : RecKeyed cfg st) (hm : getMinerById cfg st d id = some m) :
    m ∈ iter cfg st d ∧ m.id = id := by
  refine ⟨id_to_iter cfg st d id m hf hr hm, ?_⟩
  obtain ⟨hv, info, hdec, rfl⟩ := (getMinerById_some cfg st d id m).mp hm
  simp [readMiner, (hr d id info hv hdec).1]

/-- by-account ⇒ by-id: the id `GetMinerIdByAccount` returns names a record carrying that account. -/
theorem lookup_agree_partial_account_id (cfg : Cfg) (st : State) (a id : Bytes)
    (hf : Flushed st) (hr : RecKeyed cfg st) (h : byAccount cfg st a = some id) :
    ∃ d m, (d = .val ∨ d = .prop) ∧ getMinerById cfg st d id = some m ∧ m.account = a := by
  obtain ⟨m, hmem, hacc, hid⟩ := byAccount_some cfg st a id h
  rcases hmem with hmem | hmem
  · exact ⟨.val, m, Or.inl rfl, hid ▸ iter_to_id cfg st .val m hf hr hmem, hacc⟩
  · exact ⟨.prop, m, Or.inr rfl, hid ▸ iter_to_id cfg st .prop m hf hr hmem, hacc⟩

/-- by-id ⇒ by-account: the account of a registered miner is found by `GetMinerIdByAccount`. -/
theorem lookup_agree_partial_id_account (cfg : Cfg) (st : State) (d : DbId) (id : Bytes) (m : Miner)
    (hd : d = .val ∨ d = .prop) (hf : Flushed st) (hr : RecKeyed cfg st) (hm : getMinerById cfg st d id = some m) :
    (byAccount cfg st m.account).isSome := by
  have := id_to_iter cfg st d id m hf hr hm
  apply byAccount_isSome
  rcases hd with rfl | rfl
  · exact Or.inl this
  · exact Or.inr this

/-- The hypotheses of the four theorems above hold in every reachable state right after a block end
    (codec assumptions: decode∘encode keeps the id; stake/status bytes and the accounts used are not
    record encodings). -/
theorem lookup_hypotheses_reachable (cfg : Cfg) (st : State) (n : Nat) (hc : CodecId cfg) (hraw : RawOK cfg)
    (hs : Reachable cfg st) : Flushed (endBlock st n) ∧ RecKeyed cfg (endBlock st n) := by
  obtain ⟨h, bal, ops, hok, rfl⟩ := hs
  refine ⟨endBlock_flushed _ _, recKeyed_endBlock cfg _ n ?_⟩
  exact recKeyed_run cfg _ ops hc hraw hok (recKeyed_empty cfg _ (fun _ => rfl))

def tApply11 : Tx := .apply addr1 [0x11] 0 400 [] [1] [1]
def tApply22 : Tx := .apply addr1 [0x22] 0 400 [] [1] [1]

/-- Non-vacuity: a reachable state with a registered miner. -/
example : (getMinerById toyCfg (run toyCfg funded [.tx tApply11, .endBlock 101]) .val [0x11]).isSome = true := by decide
example : Reachable toyCfg (run toyCfg funded [.tx tApply11]) :=
  ⟨100, _, [.tx tApply11], by intro o ho; simp at ho; subst ho; exact ⟨by decide, by decide⟩, rfl⟩

/-- The clause as stated: in *every* reachable state the by-id and iterator views coincide. -/
def FullStatementLookup : Prop :=
  ∀ cfg st, CodecId cfg → RawOK cfg → Reachable cfg st →
    ∀ d id m, getMinerById cfg st d id = some m → m ∈ iter cfg st d

/-- False of the code: inside a block the iterator (storage trie) does not see the block's own writes. -/
theorem lookup_agree_counterexample : ¬ FullStatementLookup := by
  intro h
  have hr : Reachable toyCfg (run toyCfg funded [.tx tApply11]) :=
    ⟨100, _, [.tx tApply11], by intro o ho; simp at ho; subst ho; exact ⟨by decide, by decide⟩, rfl⟩
  have hm : ∃ m, getMinerById toyCfg (run toyCfg funded [.tx tApply11]) .val [0x11] = some m :=
    Option.isSome_iff_exists.mp (by decide)
  obtain ⟨m, hm⟩ := hm
  have := h toyCfg _ toy_codecId toy_rawOK hr .val [0x11] m hm
  have he : iter toyCfg (run toyCfg funded [.tx tApply11]) .val = [] := by decide
  rw [he] at this
  cases this

/-! ## an account controls at most one miner -/

/-- The clause as stated, over every reachable state. -/
def FullStatementOnePerAccount : Prop :=
  ∀ cfg st, CodecId cfg → RawOK cfg → Reachable cfg st →
    ∀ d1 d2 id1 id2 m1 m2, getMinerById cfg st d1 id1 = some m1 → getMinerById cfg st d2 id2 = some m2 →
      m1.account = m2.account → id1 = id2

/-- False of the code: two applications with the same account in ONE block both succeed, because the
    uniqueness check iterates the storage trie, which has not yet received the first one. The two miners
    stay registered after the block end. -/
theorem one_miner_per_account_counterexample : ¬ FullStatementOnePerAccount := by
  intro h
  let ops : List Op := [.tx tApply11, .tx tApply22, .endBlock 101]
  have hr : Reachable toyCfg (run toyCfg funded ops) :=
    ⟨100, _, ops, by
      intro o ho
      simp only [ops, List.mem_cons, List.not_mem_nil, or_false] at ho
      rcases ho with rfl | rfl | rfl
      · exact ⟨by decide, by decide⟩
      · exact ⟨by decide, by decide⟩
      · trivial, rfl⟩
  obtain ⟨m1, hm1⟩ : ∃ m, getMinerById toyCfg (run toyCfg funded ops) .val [0x11] = some m :=
    Option.isSome_iff_exists.mp (by decide)
  obtain ⟨m2, hm2⟩ : ∃ m, getMinerById toyCfg (run toyCfg funded ops) .val [0x22] = some m :=
    Option.isSome_iff_exists.mp (by decide)
  have hacc : m1.account = m2.account := by
    have e1 : (getMinerById toyCfg (run toyCfg funded ops) .val [0x11]).map (·.account) = some addr1 := by decide
    have e2 : (getMinerById toyCfg (run toyCfg funded ops) .val [0x22]).map (·.account) = some addr1 := by decide
    rw [hm1] at e1; rw [hm2] at e2
    simp only [Option.map_some, Option.some.injEq] at e1 e2
    rw [e1, e2]
  have := h toyCfg _ toy_codecId toy_rawOK hr .val .val [0x11] [0x22] m1 m2 hm1 hm2 hacc
  exact absurd this (by decide)

/-- What does hold: against a *committed* registry (block boundary) the check is effective — an
    application whose (effective) account already controls a registered miner is never accepted. -/
theorem one_miner_per_account_partial_apply (cfg : Cfg) (st : State) (d : DbId) (id0 : Bytes) (m : Miner)
    (hd : d = .val ∨ d = .prop) (hf : Flushed st) (hr : RecKeyed cfg st) (hm : getMinerById cfg st d id0 = some m)
    (src id : Bytes) (typ stake : Nat) (acct pk vrf : Bytes)
    (hacc : (if isEmptySlice acct then src else acct) = m.account) :
    (runTx cfg st (.apply src id typ stake acct pk vrf)).1 ≠ "ok" := by
  intro hok
  obtain ⟨st1, hfee, hex, _⟩ := runTx_ok cfg st _ hok
  have hl := processFee_live st st1 _ hfee
  simp only [execute] at hex
  obtain ⟨_, _, heq⟩ := execApply_ok cfg st1 src id typ stake acct pk vrf hex
  rw [heq] at hex
  have hno := (addMiner_ok cfg st1 _ _ _ _ hex).2.2.2
  rw [byAccount_congr cfg st st1 hl.1 hl.2.1, hacc] at hno
  have := lookup_agree_partial_id_account cfg st d id0 m hd hf hr hm
  rw [hno] at this
  cases this

/-- Likewise for a change of account to an occupied account. -/
theorem one_miner_per_account_partial_chacc (cfg : Cfg) (st : State) (d : DbId) (id0 : Bytes) (m : Miner)
    (hd : d = .val ∨ d = .prop) (hf : Flushed st) (hr : RecKeyed cfg st) (hm : getMinerById cfg st d id0 = some m)
    (src id : Bytes) : (runTx cfg st (.chacc src id m.account)).1 ≠ "ok" := by
  intro hok
  obtain ⟨st1, hfee, hex, _⟩ := runTx_ok cfg st _ hok
  have hl := processFee_live st st1 _ hfee
  simp only [execute] at hex
  obtain ⟨_, _, _, _, hno, _⟩ := execChacc_ok cfg st1 src id m.account hex
  rw [byAccount_congr cfg st st1 hl.1 hl.2.1] at hno
  have := lookup_agree_partial_id_account cfg st d id0 m hd hf hr hm
  rw [hno] at this
  cases this

/-- Non-vacuity of the two theorems: a committed state with a registered miner, and the second
    application with the same account is indeed rejected there. -/
example : (runTx toyCfg (run toyCfg funded [.tx tApply11, .endBlock 101]) tApply22).1 = "fail:acctexists" := by decide

/-! ## record stake = applied + added − refunded

`stakeAt cfg st d id` is the stake the registry of type `d` records for `id` (what `GetMiner`,
the iterator and the totals all read). Each accepted transaction moves the stake of its target by
exactly its amount and leaves every other miner's stake alone — provided the key families of the
ids involved do not collide (`Untouched`; SHA-256 gives this except for ids crafted as
`Sha256^k(other id)`, see `stake_accounting_counterexample`). -/

theorem stake_accounting_apply (cfg : Cfg) (st : State) (src id : Bytes) (typ stake : Nat) (acct pk vrf : Bytes)
    (hok : (runTx cfg st (.apply src id typ stake acct pk vrf)).1 = "ok") (hu : Untouched cfg id id) :
    stakeAt cfg (runTx cfg st (.apply src id typ stake acct pk vrf)).2 (dbOfType typ) id = stake := by
  obtain ⟨st1, _, hex, hst⟩ := runTx_ok cfg st _ hok
  rw [hst]
  simp only [execute] at hex ⊢
  obtain ⟨h0, _, heq⟩ := execApply_ok cfg st1 src id typ stake acct pk vrf hex
  rw [heq] at hex ⊢
  rw [(addMiner_ok cfg st1 _ _ _ _ hex).1]
  unfold addMinerApply
  rw [stakeAt_updateMiner_new cfg _ _ _ hu]
  have : stake < 2 ^ 64 := by
    have := (not_or.mp h0).2
    unfold maxU64 at this
    omega
  exact Nat.mod_eq_of_lt this

theorem stake_accounting_add (cfg : Cfg) (st : State) (src id : Bytes) (delta : Nat) (hr : RecKeyed cfg st) (hd : delta ≠ 0)
    (hok : (runTx cfg st (.add src id delta)).1 = "ok") (hu : Untouched cfg id id) :
    ∃ m, getMiner cfg st id = some m ∧
      stakeAt cfg (runTx cfg st (.add src id delta)).2 (dbOfType m.typ) id
        = (stakeAt cfg st (dbOfType m.typ) id + delta) % 2 ^ 64 := by
  obtain ⟨st1, hfee, hex, hst⟩ := runTx_ok cfg st _ hok
  have hl := (processFee_live st st1 _ hfee).1
  have hr1 : RecKeyed cfg st1 := (recKeyed_congr cfg st st1 hl).mpr hr
  rw [hst]
  simp only [execute] at hex ⊢
  obtain ⟨_, heq⟩ := execAdd_ok cfg st1 src id delta hex
  rw [heq] at hex ⊢
  obtain ⟨m, hm, hap, _⟩ := addStake_ok cfg st1 _ id delta hd hex
  obtain ⟨d, _, _, hid, _, _, hstake, hdb⟩ := getMiner_some cfg st1 id m hr1 hm
  refine ⟨m, by rw [← getMiner_congr cfg st st1 hl]; exact hm, ?_⟩
  rw [hap]
  subst hid
  rw [stakeAt_addStakeApply_self cfg _ _ _ _ hu, hstake, hdb, ← stakeAt_of_live cfg st st1 hl]
  rfl

theorem stake_accounting_refund (cfg : Cfg) (st : State) (src id : Bytes) (amount : Nat) (hr : RecKeyed cfg st)
    (hok : (runTx cfg st (.refund src id amount)).1 = "ok") (hu : Untouched cfg id id) :
    ∃ m, getMiner cfg st id = some m ∧ m.account = src ∧ m.stake = stakeAt cfg st (dbOfType m.typ) id ∧
      refundMoney m amount ≤ m.stake ∧
      stakeAt cfg (runTx cfg st (.refund src id amount)).2 (dbOfType m.typ) id
        = stakeAt cfg st (dbOfType m.typ) id - refundMoney m amount := by
  obtain ⟨st1, hfee, hex, hst⟩ := runTx_ok cfg st _ hok
  have hl := (processFee_live st st1 _ hfee).1
  have hr1 : RecKeyed cfg st1 := (recKeyed_congr cfg st st1 hl).mpr hr
  rw [hst]
  simp only [execute] at hex ⊢
  obtain ⟨m, hm, hsrc, hle, hap⟩ := execRefund_ok cfg st1 src id amount hex
  obtain ⟨d, _, _, hid, _, _, hstake, hdb⟩ := getMiner_some cfg st1 id m hr1 hm
  have hs : m.stake = stakeAt cfg st (dbOfType m.typ) id := by
    rw [hstake, hdb, ← stakeAt_of_live cfg st st1 hl]; rfl
  refine ⟨m, by rw [← getMiner_congr cfg st st1 hl]; exact hm, hsrc.symm, hs, hle, ?_⟩
  rw [hap, ← hs]
  subst hid
  have hlt : m.stake - refundMoney m amount < 2 ^ 64 := by
    have := stakeAt_lt cfg st (dbOfType m.typ) m.id
    omega
  rw [stakeAt_refundApply, stakeAt_refundCore_self cfg _ _ _ _ hu]
  exact Nat.mod_eq_of_lt hlt

/-- The id a transaction works on. -/
def target : Tx → Bytes
  | .apply _ id .. => id
  | .add _ id _ => id
  | .refund _ id _ => id
  | .chacc _ id _ => id
  | .bad .. => []

/-- Frame: whatever the transaction and its outcome, the stake of every *other* miner (in any
    registry) is unchanged, as long as its stake slot is not one of the target's keys. -/
theorem stake_accounting_frame (cfg : Cfg) (st : State) (tx : Tx) (hr : RecKeyed cfg st) (d : DbId) (j : Bytes)
    (hu : Untouched cfg (target tx) j) (hne : cfg.H j ≠ cfg.H (target tx)) :
    stakeAt cfg (runTx cfg st tx).2 d j = stakeAt cfg st d j := by
  by_cases hok : (runTx cfg st tx).1 = "ok"
  · obtain ⟨st1, hfee, hex, hst⟩ := runTx_ok cfg st _ hok
    have hl := (processFee_live st st1 _ hfee).1
    have hr1 : RecKeyed cfg st1 := (recKeyed_congr cfg st st1 hl).mpr hr
    rw [hst, ← stakeAt_of_live cfg st st1 hl]
    cases tx with
    | apply src id typ stake acct pk vrf =>
      simp only [execute, target] at hex hu hne ⊢
      obtain ⟨_, _, heq⟩ := execApply_ok cfg st1 src id typ stake acct pk vrf hex
      rw [heq] at hex ⊢
      rw [(addMiner_ok cfg st1 _ _ _ _ hex).1]
      unfold addMinerApply
      rw [stakeAt_updateMiner_frame cfg _ _ _ d j hu (Or.inr hne)]
      exact stakeAt_of_live cfg st1 _ rfl d j
    | add src id delta =>
      simp only [execute, target] at hex hu hne ⊢
      obtain ⟨_, heq⟩ := execAdd_ok cfg st1 src id delta hex
      rw [heq] at hex ⊢
      by_cases hd : delta = 0
      · subst hd; simp [addStake]
      · obtain ⟨m, hm, hap, _⟩ := addStake_ok cfg st1 _ id delta hd hex
        obtain ⟨_, _, _, hid, _⟩ := getMiner_some cfg st1 id m hr1 hm
        rw [hap]
        subst hid
        exact stakeAt_addStakeApply_frame cfg _ _ _ _ d j hu hne
    | refund src id amount =>
      simp only [execute, target] at hex hu hne ⊢
      obtain ⟨m, hm, _, _, hap⟩ := execRefund_ok cfg st1 src id amount hex
      obtain ⟨_, _, _, hid, _⟩ := getMiner_some cfg st1 id m hr1 hm
      rw [hap]
      subst hid
      rw [stakeAt_refundApply]
      exact stakeAt_refundCore_frame cfg _ _ _ _ d j hu hne
    | chacc src id na =>
      simp only [execute, target] at hex hu hne ⊢
      obtain ⟨m, hm, _, _, _, hap⟩ := execChacc_ok cfg st1 src id na hex
      obtain ⟨_, _, _, hid, _⟩ := getMiner_some cfg st1 id m hr1 hm
      rw [hap]
      subst hid
      exact stakeAt_updateMiner_frame cfg _ _ _ d j hu (Or.inr hne)
    | bad k src => cases k <;> simp [execute] at hex
  · exact stakeAt_of_live cfg st _ (runTx_not_ok_live cfg st tx hok) d j

def tApplyVictim : Tx := .apply addr1 [0x11] 0 400 [] [1] [1]
/-- id = H(victim id): with `toyCfg` the "hash" prepends 0xff. -/
def tApplyCrafted : Tx := .apply addr2 [0xff, 0x11] 0 400 [] [1] [1]

/-- Non-vacuity of `Untouched`/frame hypotheses and of the step theorems. -/
example : Untouched toyCfg [0x11] [0x11] ∧ Untouched toyCfg [0x11] [0x22] ∧ toyCfg.H [0x22] ≠ toyCfg.H [0x11] := by
  simp [Untouched, toyCfg]
example : stakeAt toyCfg (run toyCfg funded [.tx tApplyVictim, .tx (.add addr2 [0x11] 7)]) .val [0x11] = 407 := by decide

/-- The frame clause without the key-separation hypothesis. -/
def FullStatementStakeFrame : Prop :=
  ∀ cfg st tx d j, CodecId cfg → RawOK cfg → Reachable cfg st → j ≠ target tx →
    stakeAt cfg (runTx cfg st tx).2 d j = stakeAt cfg st d j

/-- False of the code: ids are free-form and the four key families share one key space, so applying a
    miner whose id is `H(victim id)` writes the new record into the victim's stake slot. (Replayed on
    the implementation with `H = Sha256`: the victim's stake reads 8872761351423686984.) -/
theorem stake_accounting_counterexample : ¬ FullStatementStakeFrame := by
  intro h
  have hr : Reachable toyCfg (run toyCfg funded [.tx tApplyVictim, .endBlock 101]) :=
    ⟨100, _, [.tx tApplyVictim, .endBlock 101], by
      intro o ho
      simp only [List.mem_cons, List.not_mem_nil, or_false] at ho
      rcases ho with rfl | rfl
      · exact ⟨by decide, by decide⟩
      · trivial, rfl⟩
  have := h toyCfg _ tApplyCrafted .val [0x11] toy_codecId toy_rawOK hr (by decide)
  exact absurd this (by decide)

/-! ## locked + scheduled + liquid tokens are constant

`balSum st A` is the liquid balance of the (duplicate-free) address list `A`, `wei * stakeAt …` the
tokens locked for the transaction's target, `pendingSum st.pending` the refunds recorded in the
block's context (moved to the per-height escrow account at the block end), `st.escrow` the escrow.
Each accepted miner transaction keeps their sum — under the bounds the proof forces:
stake/delta < 2^53 (the debit goes through `float64`), no `uint64` wrap, a fresh stake slot on
application, and for refunds that the block's refund list for that height is either new or already
contains the account (`lock_conservation_counterexample` shows what happens otherwise). -/

theorem lock_conservation_partial_apply (cfg : Cfg) (st : State) (src id : Bytes) (typ stake : Nat) (acct pk vrf : Bytes)
    (A : List Bytes) (hn : A.Nodup) (hp : feePayer src ∈ A) (hf : feeAccount ∈ A) (hs : toAddr src ∈ A)
    (hok : (runTx cfg st (.apply src id typ stake acct pk vrf)).1 = "ok") (hu : Untouched cfg id id)
    (hb : stake < 2 ^ 53) (hfresh : stakeAt cfg st (dbOfType typ) id = 0) :
    balSum (runTx cfg st (.apply src id typ stake acct pk vrf)).2 A
        + wei * stakeAt cfg (runTx cfg st (.apply src id typ stake acct pk vrf)).2 (dbOfType typ) id
        + pendingSum (runTx cfg st (.apply src id typ stake acct pk vrf)).2.pending
      = balSum st A + wei * stakeAt cfg st (dbOfType typ) id + pendingSum st.pending
    ∧ (runTx cfg st (.apply src id typ stake acct pk vrf)).2.escrow = st.escrow := by
  rw [stake_accounting_apply cfg st src id typ stake acct pk vrf hok hu, hfresh]
  obtain ⟨st1, hfee, hex, hst⟩ := runTx_ok cfg st _ hok
  have hl := processFee_live st st1 _ hfee
  have hbs := balSum_processFee st st1 src A hn hp hf hfee
  rw [hst]
  simp only [execute] at hex ⊢
  obtain ⟨_, _, heq⟩ := execApply_ok cfg st1 src id typ stake acct pk vrf hex
  rw [heq] at hex ⊢
  obtain ⟨hap, hle, _, _⟩ := addMiner_ok cfg st1 _ _ _ _ hex
  rw [hap]
  unfold addMinerApply
  have hpend := updateMiner_pending cfg (st1.subBal (toAddr src) (stakeWei stake))
    { id := id, typ := typ, stake := stake, status := statusNormal, applyHeight := st1.height + heightAfterStake,
      account := if isEmptySlice acct then src else acct }
    (some { id := id, pk := pk, vrf := vrf, applyHeight := st1.height + heightAfterStake, typ := typ })
  have hbal := updateMiner_bal cfg (st1.subBal (toAddr src) (stakeWei stake))
    { id := id, typ := typ, stake := stake, status := statusNormal, applyHeight := st1.height + heightAfterStake,
      account := if isEmptySlice acct then src else acct }
    (some { id := id, pk := pk, vrf := vrf, applyHeight := st1.height + heightAfterStake, typ := typ })
  simp only at hpend hbal ⊢
  rw [balSum_of_bal _ _ hbal A, hpend.1, hpend.2.1]
  have hsub := balSum_subBal st1 (toAddr src) (stakeWei stake) A hs hn hle
  have hw : stakeWei stake = wei * stake := by unfold stakeWei; rw [f64_small _ hb, Nat.mul_comm]
  refine ⟨?_, hl.2.2.2.1⟩
  show balSum (st1.subBal (toAddr src) (stakeWei stake)) A + wei * stake + pendingSum st1.pending = _
  rw [hl.2.2.1]
  omega

theorem lock_conservation_partial_add (cfg : Cfg) (st : State) (src id : Bytes) (delta : Nat)
    (A : List Bytes) (hn : A.Nodup) (hp : feePayer src ∈ A) (hf : feeAccount ∈ A) (hs : toAddr src ∈ A)
    (hr : RecKeyed cfg st) (hd : delta ≠ 0) (hok : (runTx cfg st (.add src id delta)).1 = "ok") (hu : Untouched cfg id id)
    (hb : delta < 2 ^ 53) :
    ∃ m, getMiner cfg st id = some m ∧ (stakeAt cfg st (dbOfType m.typ) id + delta < 2 ^ 64 →
      balSum (runTx cfg st (.add src id delta)).2 A + wei * stakeAt cfg (runTx cfg st (.add src id delta)).2 (dbOfType m.typ) id
          + pendingSum (runTx cfg st (.add src id delta)).2.pending
        = balSum st A + wei * stakeAt cfg st (dbOfType m.typ) id + pendingSum st.pending
      ∧ (runTx cfg st (.add src id delta)).2.escrow = st.escrow) := by
  obtain ⟨m, hm, hstake⟩ := stake_accounting_add cfg st src id delta hr hd hok hu
  refine ⟨m, hm, ?_⟩
  intro hnw
  rw [hstake, Nat.mod_eq_of_lt hnw]
  obtain ⟨st1, hfee, hex, hst⟩ := runTx_ok cfg st _ hok
  have hl := processFee_live st st1 _ hfee
  have hbs := balSum_processFee st st1 src A hn hp hf hfee
  rw [hst]
  simp only [execute] at hex ⊢
  obtain ⟨_, heq⟩ := execAdd_ok cfg st1 src id delta hex
  rw [heq] at hex ⊢
  obtain ⟨m', hm', hap, hle⟩ := addStake_ok cfg st1 _ id delta hd hex
  rw [hap]
  unfold addStakeApply
  have hpend := updateMiner_pending cfg (st1.subBal (toAddr src) (stakeWei delta))
    { m' with stake := (m'.stake + delta) % 2 ^ 64,
              status := if reactivates m'.typ ((m'.stake + delta) % 2 ^ 64) then statusNormal else m'.status } none
  have hbal := updateMiner_bal cfg (st1.subBal (toAddr src) (stakeWei delta))
    { m' with stake := (m'.stake + delta) % 2 ^ 64,
              status := if reactivates m'.typ ((m'.stake + delta) % 2 ^ 64) then statusNormal else m'.status } none
  simp only at hpend hbal ⊢
  rw [balSum_of_bal _ _ hbal A, hpend.1, hpend.2.1]
  have hsub := balSum_subBal st1 (toAddr src) (stakeWei delta) A hs hn hle
  have hw : stakeWei delta = wei * delta := by unfold stakeWei; rw [f64_small _ hb, Nat.mul_comm]
  refine ⟨?_, hl.2.2.2.1⟩
  show balSum (st1.subBal (toAddr src) (stakeWei delta)) A + wei * (stakeAt cfg st (dbOfType m.typ) id + delta) + pendingSum st1.pending = _
  rw [hl.2.2.1, Nat.mul_add]
  omega

theorem lock_conservation_partial_refund (cfg : Cfg) (st : State) (src id : Bytes) (amount : Nat)
    (A : List Bytes) (hn : A.Nodup) (hp : feePayer src ∈ A) (hf : feeAccount ∈ A)
    (hr : RecKeyed cfg st) (hok : (runTx cfg st (.refund src id amount)).1 = "ok") (hu : Untouched cfg id id)
    (hpn : (st.pending.map Prod.fst).Nodup)
    (hclash : ∀ l, st.pending.lookup (st.height + refundDelay) = some l → l.any (fun e => e.1 = src) = true) :
    ∃ m, getMiner cfg st id = some m ∧
      balSum (runTx cfg st (.refund src id amount)).2 A + wei * stakeAt cfg (runTx cfg st (.refund src id amount)).2 (dbOfType m.typ) id
          + pendingSum (runTx cfg st (.refund src id amount)).2.pending
        = balSum st A + wei * stakeAt cfg st (dbOfType m.typ) id + pendingSum st.pending
      ∧ (runTx cfg st (.refund src id amount)).2.escrow = st.escrow := by
  obtain ⟨m, hm, hacc, hs, hle, hstake⟩ := stake_accounting_refund cfg st src id amount hr hok hu
  refine ⟨m, hm, ?_⟩
  rw [hstake]
  obtain ⟨st1, hfee, hex, hst⟩ := runTx_ok cfg st _ hok
  have hl := processFee_live st st1 _ hfee
  have hbs := balSum_processFee st st1 src A hn hp hf hfee
  rw [hst]
  simp only [execute] at hex ⊢
  obtain ⟨m', hm', _, _, hap⟩ := execRefund_ok cfg st1 src id amount hex
  have hmm : m' = m := by
    rw [getMiner_congr cfg st st1 hl.1, hm] at hm'
    exact (Option.some.inj hm').symm
  subst hmm
  rw [hap]
  have hfl := refundCore_fields cfg st1 id src m' (refundMoney m' amount)
  have hb : balSum (refundApply cfg st1 id src m' (refundMoney m' amount)) A = balSum st1 A :=
    balSum_of_bal _ _ hfl.2.2.2 A
  have hpd : (refundApply cfg st1 id src m' (refundMoney m' amount)).pending
      = pendingAdd st.pending (st.height + refundDelay) src (refundMoney m' amount * wei) := by
    show pendingAdd (refundCore cfg st1 id src m' (refundMoney m' amount)).pending
      ((refundCore cfg st1 id src m' (refundMoney m' amount)).height + refundDelay) m'.account _ = _
    rw [hfl.1, hfl.2.2.1, hl.2.2.1, hl.2.2.2.2.2, hacc]
  have hesc : (refundApply cfg st1 id src m' (refundMoney m' amount)).escrow = st.escrow := by
    show (refundCore cfg st1 id src m' (refundMoney m' amount)).escrow = _
    rw [hfl.2.1, hl.2.2.2.1]
  rw [hb, hpd, hesc, pendingSum_pendingAdd _ _ _ _ hpn hclash, hbs]
  refine ⟨?_, rfl⟩
  have : wei * (stakeAt cfg st (dbOfType m'.typ) id - refundMoney m' amount) + refundMoney m' amount * wei
      = wei * stakeAt cfg st (dbOfType m'.typ) id := by
    rw [Nat.mul_comm (refundMoney m' amount) wei, ← Nat.mul_add]
    congr 1
    omega
  omega

def tApplyA : Tx := .apply addr1 [0x11] 0 800 [] [1] [1]
def tApplyB : Tx := .apply addr2 [0x22] 0 800 [] [1] [1]
def opsTwoRefunds : List Op := [.tx tApplyA, .tx tApplyB, .endBlock 101, .tx (.refund addr1 [0x11] 100)]

/-- Non-vacuity: the first refund of a block satisfies the hypotheses and is accepted. -/
example : (runTx toyCfg (run toyCfg funded [.tx tApplyA, .tx tApplyB, .endBlock 101]) (.refund addr1 [0x11] 100)).1 = "ok"
    ∧ (run toyCfg funded [.tx tApplyA, .tx tApplyB, .endBlock 101]).pending = [] := by decide

/-- The refund clause with no condition on the block's refund list. -/
def FullStatementRefundConserves : Prop :=
  ∀ cfg st src id amount d, CodecId cfg → RawOK cfg → Reachable cfg st → Untouched cfg id id →
    (runTx cfg st (.refund src id amount)).1 = "ok" →
    wei * stakeAt cfg (runTx cfg st (.refund src id amount)).2 d id + pendingSum (runTx cfg st (.refund src id amount)).2.pending
      = wei * stakeAt cfg st d id + pendingSum st.pending

/-- False of the code: the second *account* refunding in one block (same release height) has its stake
    reduced but nothing recorded — `minerRefundExecutor` appends to a copy of the per-height list. -/
theorem lock_conservation_counterexample : ¬ FullStatementRefundConserves := by
  intro h
  have hr : Reachable toyCfg (run toyCfg funded opsTwoRefunds) :=
    ⟨100, _, opsTwoRefunds, by
      intro o ho
      simp only [opsTwoRefunds, List.mem_cons, List.not_mem_nil, or_false] at ho
      rcases ho with rfl | rfl | rfl | rfl
      · exact ⟨by decide, by decide⟩
      · exact ⟨by decide, by decide⟩
      · trivial
      · trivial, rfl⟩
  have := h toyCfg _ addr2 [0x22] 100 .val toy_codecId toy_rawOK hr (by simp [Untouched, toyCfg]) (by decide)
  exact absurd this (by decide)

/-! ## total stake and proposer count used for leader election -/

/-- Full strength: the total `GetProposerTotalStakeWithDetail` returns is the (`uint64`) sum of the stakes
    of the proposer records the iterator yields that are normal and already applied at height `h`. -/
theorem totals_agree_total (cfg : Cfg) (st : State) (h : Nat) :
    (proposerTotals cfg st h).1 = (((iter cfg st .prop).filter (active h)).map (·.stake)).sum % 2 ^ 64 := by
  unfold proposerTotals totalsFold
  rw [totalsFold_fst _ _ _ (by decide)]
  simp [sumActive]

/-- The proposer count (`GetProposerTotalStake` = size of the detail map) is the number of those
    records — in a committed, well-keyed registry (where the iterator yields each id once). -/
theorem totals_agree_count (cfg : Cfg) (st : State) (h : Nat) (hf : Flushed st) (hr : RecKeyed cfg st) :
    proposerCount cfg st h = ((iter cfg st .prop).filter (active h)).length := by
  unfold proposerCount proposerTotals totalsFold
  rw [totalsFold_snd]
  · simp
  · exact (iter_ids_nodup cfg st .prop hf hr).sublist (List.Sublist.map _ List.filter_sublist)
  · intro m _; simp

def tApplyP : Tx := .apply addr1 [0x11] 1 2000 [] [1] [1]
example : proposerTotals toyCfg (run toyCfg funded [.tx tApplyP, .endBlock 101]) 101 = (2000, [([0x11], 2000)]) := by decide

end Rangers.Props.C20
