import Rangers.Props.C18
import Rangers.Props.C18Aux
import Rangers.Generated.C18Facts
/-!
# C18 (deepening) — every call site of a conversion helper, and the theorem that covers it

`gen/cmd/c18facts` lists every call of a `data_convert.go` helper under `src/`
(`Generated.C18.convSites`: file, function, callee, class of the argument that decides
exactness, literal). Here the list is pinned, every entry is mapped to the theorem that
shows the conversion at that site is exact (identity / exact floor) on the site's domain,
and the classes that had no theorem yet get one.

| callee : class | sites | domain | theorem |
|---|---|---|---|
| StrToBigInt : lit | genesis constants, `ten`, pool `delta`s | the literal | `gen_literal_sites_exact` |
| StrToBigInt : uint64dec | `opGetStake`, `genSubGenesisBlock` | x < 2^64 | `uint64_decimal_site_exact` |
| StrToBigInt : expr | `decodeContractData`, `newRPCTransaction`, `callVM`, `transferBalance`, genesis config | ≤ 78 integer, ≤ 18 fraction digits | `C18.parse_exact_domain`; composed with `ConvertTx`: `C18.evm_value_unchanged`; whole game transfer: `game_transfer_exact`, `game_transfer_refused` |
| BigIntToStr : expr | `ConvertTx`, `ChangeAssets`, `ReplaceBigInt`, `getBalance` | \|n\| < 2^510 | `C18.roundtrip_word`, `format_injective` |
| BigIntToStrWithoutDot : expr | `opStake`, `opUnStake` | money ≥ 0 | `C18Aux.stakeArg_value` |
| Float64ToBigInt : float64(u) | `AddStake`, `AddMiner` | stake < 2^53 (all uint64: `stake_value`) | `C18Aux.stake_exact` |
| Float64ToBigInt : float-arith | `calculateRewardPerBlock` | every finite double | `C18Aux.float64_exact` |
| Uint64ToBigInt : expr | `GetRefundStake` | uint64 | `C18Aux.uint64_exact` |
| BigIntBase10toN : 16 | `GenerateCallDataBigInt` | n < 2^256 | `C18Aux.callData_word` |
| FormatDecimalForERC20/Rocket : decimal | `SetFT/AddFT/SubFT/GetFT`, `setBalance` | d ≤ 18; native token d = 18 | `C18.ft_18_exact`, `C18.ft_set_get`, `gen_native_binding_decimals` |
-/
namespace Rangers.Props.C18Sites
open Rangers.Decimal
open Rangers.Generated

/-- which theorem covers a site of a given (callee, argument class); `none` = a kind of
    use for which no exactness theorem exists. -/
def coveredBy : String → String → Option String
  | "StrToBigInt", "lit" => some "gen_literal_sites_exact"
  | "StrToBigInt", "uint64dec" => some "uint64_decimal_site_exact"
  | "StrToBigInt", "expr" => some "parse_exact_domain"
  | "BigIntToStr", "expr" => some "roundtrip_word, format_injective"
  | "BigIntToStrWithoutDot", "expr" => some "stakeArg_value"
  | "Float64ToBigInt", "float64(u)" => some "stake_exact"
  | "Float64ToBigInt", "float-arith" => some "float64_exact"
  | "Uint64ToBigInt", "expr" => some "uint64_exact"
  | "BigIntBase10toN", "16" => some "callData_word"
  | "FormatDecimalForERC20", "decimal" => some "erc20_floor, ft_set_get, ft_18_exact"
  | "FormatDecimalForRocket", "decimal" => some "rocket_scale, ft_set_get, ft_18_exact"
  | _, _ => none

/-- **Every conversion call site is of a class an exactness theorem covers.** A site that
    switches to another helper or feeds it a different kind of argument (e.g. a float
    expression into `StrToBigInt`'s place, a literal decimal count into `FormatDecimalFor*`)
    falls out of the table. -/
theorem gen_all_sites_covered :
    ∀ s ∈ C18.convSites, (coveredBy s.2.2.1 s.2.2.2.1).isSome = true := by decide

/-- The inventory itself (42 sites): a new, removed or altered site is flagged. -/
theorem gen_conversion_sites :
    C18.convSites =
      [("src/common/abi_helper.go", "GenerateCallDataBigInt", "BigIntBase10toN", "16", ""),
       ("src/core/game_executor_service.go", "callVM", "StrToBigInt", "expr", ""),
       ("src/core/game_executor_service.go", "callVM", "StrToBigInt", "expr", ""),
       ("src/core/genesis_block.go", "genGenesisBlock", "StrToBigInt", "lit", "10661998"),
       ("src/core/genesis_block.go", "genGenesisBlock", "StrToBigInt", "lit", "2"),
       ("src/core/genesis_block_dev.go", "addDevTestAsset", "StrToBigInt", "lit", "1000000000"),
       ("src/core/genesis_block_dev.go", "genDevGenesisBlock", "StrToBigInt", "lit", "10661998"),
       ("src/core/genesis_block_dev.go", "genDevGenesisBlock", "StrToBigInt", "lit", "2"),
       ("src/core/genesis_block_robin.go", "addRobinTestAsset", "StrToBigInt", "lit", "1000000000"),
       ("src/core/genesis_block_robin.go", "genRobinGenesisBlock", "StrToBigInt", "lit", "10661998"),
       ("src/core/genesis_block_robin.go", "genRobinGenesisBlock", "StrToBigInt", "lit", "2"),
       ("src/core/genesis_sub.go", "createEconomyContract", "StrToBigInt", "expr", ""),
       ("src/core/genesis_sub.go", "createSubGovernance", "StrToBigInt", "expr", ""),
       ("src/core/genesis_sub.go", "genSubGenesisBlock", "StrToBigInt", "expr", ""),
       ("src/core/genesis_sub.go", "genSubGenesisBlock", "StrToBigInt", "lit", "10"),
       ("src/core/genesis_sub.go", "genSubGenesisBlock", "StrToBigInt", "uint64dec", ""),
       ("src/eth_rpc/api.go", "newRPCTransaction", "StrToBigInt", "expr", ""),
       ("src/eth_tx/transaction.go", "ConvertTx", "BigIntToStr", "expr", ""),
       ("src/executor/contract_executor.go", "decodeContractData", "StrToBigInt", "expr", ""),
       ("src/executor/miner_node_executor.go", "(package)", "StrToBigInt", "lit", "10"),
       ("src/gx/cli/wallets.go", "getBalance", "BigIntToStr", "expr", ""),
       ("src/middleware/types/core.go", "ReplaceBigInt", "BigIntToStr", "expr", ""),
       ("src/service/game.go", "ChangeAssets", "BigIntToStr", "expr", ""),
       ("src/service/game.go", "ChangeAssets", "BigIntToStr", "expr", ""),
       ("src/service/game.go", "transferBalance", "StrToBigInt", "expr", ""),
       ("src/service/miner_manager.go", "AddMiner", "Float64ToBigInt", "float64(u)", ""),
       ("src/service/miner_manager.go", "AddStake", "Float64ToBigInt", "float64(u)", ""),
       ("src/service/refund_manager.go", "GetRefundStake", "Uint64ToBigInt", "expr", ""),
       ("src/service/reward_calculator.go", "calculateRewardPerBlock", "Float64ToBigInt", "float-arith", ""),
       ("src/service/reward_calculator.go", "calculateRewardPerBlock", "Float64ToBigInt", "float-arith", ""),
       ("src/service/reward_calculator.go", "calculateRewardPerBlock", "Float64ToBigInt", "float-arith", ""),
       ("src/service/transaction_pool.go", "(package)", "StrToBigInt", "lit", "0.0001"),
       ("src/service/transaction_pool.go", "(package)", "StrToBigInt", "lit", "0.001"),
       ("src/storage/account/accountdb.go", "setBalance", "FormatDecimalForERC20", "decimal", ""),
       ("src/storage/account/accountdb_tuntun.go", "AddFT", "FormatDecimalForERC20", "decimal", ""),
       ("src/storage/account/accountdb_tuntun.go", "GetFT", "FormatDecimalForRocket", "decimal", ""),
       ("src/storage/account/accountdb_tuntun.go", "SetFT", "FormatDecimalForERC20", "decimal", ""),
       ("src/storage/account/accountdb_tuntun.go", "SubFT", "FormatDecimalForERC20", "decimal", ""),
       ("src/storage/account/accountdb_tuntun.go", "SubFT", "FormatDecimalForRocket", "decimal", ""),
       ("src/vm/instructions.go", "opGetStake", "StrToBigInt", "uint64dec", ""),
       ("src/vm/instructions.go", "opStake", "BigIntToStrWithoutDot", "expr", ""),
       ("src/vm/instructions.go", "opUnStake", "BigIntToStrWithoutDot", "expr", "")] := by decide

/-- The native token's binding has 18 decimals in both branches of `GetERC20Binding`, so
    every native balance read/write (`GetBalance`/`SetBalance`/`AddBalance`/`SubBalance` →
    `GetFT`/`SetFT`/… with `common.BLANCE_NAME`) is covered by `C18.ft_18_exact`. -/
theorem gen_native_binding_decimals : C18.nativeBinding = ["4:18", "3:18"] := by decide

/-- integer-arithmetic reading of an unsigned plain decimal literal at 18 decimals
    (`none` if it is not of the form digits[.digits] with at most 18 fraction digits) -/
def denote18 (s : Str) : Option Int :=
  let ip := s.takeWhile (· != '.')
  let rest := s.dropWhile (· != '.')
  let fp := rest.drop 1
  if (ip ++ fp).all isDig && (ip ++ fp) ≠ [] && fp.length ≤ 18 && (rest = [] || rest.head? = some '.') then
    some ((Nat.ofDigitChars 10 (ip ++ fp) 0 * 10 ^ (18 - fp.length) : Nat) : Int)
  else none

/-- **Literal sites**: every string literal the code passes to `StrToBigInt` is a plain
    decimal with at most 18 fraction digits and parses to exactly the integer it denotes. -/
theorem gen_literal_sites_exact :
    ∀ l ∈ C18.strLiterals, ∃ v, denote18 l.toList = some v ∧ StrToBigInt l.toList = .ok v := by
  decide +kernel

example : denote18 "0.0001".toList = some 100000000000000 ∧ denote18 "1e3".toList = none ∧
    denote18 "0.0000000000000000001".toList = none := by decide +kernel

/-- **uint64 sites** (`StrToBigInt(strconv.FormatUint(x, 10))`): exactly `x·10^18`, which
    fits 124 bits (so `opGetStake`'s `SetBytes` into a 256-bit word loses nothing). -/
theorem uint64_decimal_site_exact (x : Nat) (h : x < 2 ^ 64) :
    StrToBigInt (Nat.toDigits 10 x) = .ok ((x : Int) * 10 ^ 18) ∧ x * 10 ^ 18 < 2 ^ 124 := by
  constructor
  · have hne : Nat.toDigits 10 x ++ [] ≠ [] := by simp [Nat.toDigits_ne_nil]
    have := C18.parse_exact none (Nat.toDigits 10 x) [] false (allDig_toDigits x) allDig_nil (fun _ => rfl) hne
      (by simp) (by
        rw [List.append_nil, Nat.ofDigitChars_ten_toDigits]
        calc x * 10 ^ (18 - 0) < 2 ^ 64 * 10 ^ 18 := Nat.mul_lt_mul_of_pos_right h (by positivity)
          _ < 2 ^ 510 := by decide +kernel)
    simp only [signStr, plainBody, List.nil_append, List.append_nil, signNeg, Bool.false_eq_true, if_false,
      Nat.ofDigitChars_ten_toDigits, List.length_nil, Nat.sub_zero] at this
    rw [this]; push_cast; rfl
  · calc x * 10 ^ 18 < 2 ^ 64 * 10 ^ 18 := Nat.mul_lt_mul_of_pos_right h (by positivity)
      _ < 2 ^ 124 := by decide +kernel

example : StrToBigInt (Nat.toDigits 10 18446744073709551615) = .ok (18446744073709551615 * 10 ^ 18) := by
  decide +kernel

/-- **Output-only sites** (`ChangeAssets` responses, `ReplaceBigInt`, wallet `getBalance`):
    `BigIntToStr` is injective, two different amounts are never printed alike. -/
theorem format_injective (a b : Int) (ha : a.natAbs < 2 ^ 510) (hb : b.natAbs < 2 ^ 510)
    (h : BigIntToStr a = BigIntToStr b) : a = b := by
  have h1 := C18.format_parse_id_exported a ha
  have h2 := C18.format_parse_id_exported b hb
  rw [h] at h1
  rw [h1] at h2
  exact Res.ok.inj h2

example : BigIntToStr 5 ≠ BigIntToStr 50 := by decide +kernel

/-! ## service/game.go: `ChangeAssets` → `transferBalance` -/

/-- **A game transfer moves exactly the parsed amount.** Source holding `n`, an amount
    string that parses to `amt` with `0 ≤ amt ≤ n`: afterwards the source holds `n - amt`,
    the (fresh) target holds `amt`, and the decimal string in the response reads back as the
    new source balance — nothing is lost in `StrToBigInt`, the 18-decimal re-scalings of
    `AddBalance`/`SubBalance`, or `BigIntToStr`. -/
theorem game_transfer_exact (n amt : Int) (s : Str) (hs : StrToBigInt s = .ok amt)
    (h0 : 0 ≤ amt) (h1 : amt ≤ n) (hn : n.natAbs < 2 ^ 509) :
    gameTransfer n s = some (true, .ok (n - amt), .ok amt,
        "{\"balance\":\"".toList ++ BigIntToStr (n - amt) ++ "\"}".toList) ∧
    StrToBigInt (BigIntToStr (n - amt)) = .ok (n - amt) := by
  have hn0 : 0 ≤ n := le_trans h0 h1
  have hnn : (n.natAbs : Int) = n := by omega
  have f1 := C18.ft_18_exact n.natAbs n hn0 hn hn
  have f2 := C18.ft_18_exact n.natAbs amt h0 hn (by omega)
  have f3 := C18.ft_18_exact 0 amt h0 (by positivity) (by omega)
  have f4 := C18.ft_18_exact (n.natAbs - amt.natAbs) amt h0 (by omega) (by omega)
  have f5 := C18.ft_18_exact amt.natAbs amt h0 (by omega) (by omega)
  have h510 : (2 : ℕ) ^ 509 < 2 ^ 510 := Nat.pow_lt_pow_right (by norm_num) (by norm_num)
  refine ⟨?_, C18.format_parse_id_exported _ (by omega)⟩
  unfold gameTransfer
  rw [f1.1]
  dsimp only
  rw [hs]
  dsimp only
  rw [if_neg (by omega), f2.2.1]
  dsimp only
  rw [hnn, if_neg (by omega), f3.2.2.1, f2.2.2.2, if_neg (by rw [hnn]; omega)]
  dsimp only
  rw [f4.2.1, Nat.zero_add, f5.2.1]
  have e1 : ((n.natAbs - amt.natAbs : ℕ) : Int) = n - amt := by omega
  have e2 : (amt.natAbs : Int) = amt := by omega
  rw [e1, e2, hnn]

example : StrToBigInt "1.5".toList = .ok 1500000000000000000 ∧
    gameTransfer 5000000000000000000 "1.5".toList =
      some (true, .ok 3500000000000000000, .ok 1500000000000000000,
        "{\"balance\":\"3.500000000000000000\"}".toList) := by decide +kernel

/-- A transfer that is refused (unparsable, negative, or more than the balance) changes
    neither balance. -/
theorem game_transfer_refused (n : Int) (s : Str) (hn0 : 0 ≤ n) (hn : n.natAbs < 2 ^ 509)
    (h : StrToBigInt s = .err ∨ ∃ amt, StrToBigInt s = .ok amt ∧ (amt < 0 ∨ n < amt)) :
    gameTransfer n s = some (false, .ok n, .ok 0, gameFailMsg) := by
  have hnn : (n.natAbs : Int) = n := by omega
  have f1 := C18.ft_18_exact n.natAbs n hn0 hn hn
  have f0 := C18.ft_18_exact 0 0 (le_refl _) (by positivity) (by positivity)
  unfold gameTransfer
  rw [f1.1]
  dsimp only
  rw [f1.2.1, f0.2.1, hnn]
  rcases h with h | ⟨amt, h, hc⟩
  · rw [h]; rfl
  · rw [h]
    dsimp only
    rcases hc with hc | hc
    · rw [if_pos hc]; rfl
    · by_cases hneg : amt < 0
      · rw [if_pos hneg]; rfl
      · rw [if_neg hneg, if_pos hc]; rfl

example : gameTransfer 5 "9".toList = some (false, .ok 5, .ok 0, gameFailMsg) := by decide +kernel

end Rangers.Props.C18Sites
