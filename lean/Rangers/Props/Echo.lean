import Rangers.Basic.Hex
/-! Self-test obligations for the pipeline (not a property of go-rangers). -/
namespace Rangers.Props.Echo
open Rangers

theorem beToNat_nil : beToNat [] = 0 := rfl

theorem beToNat_append_one (bs : Bytes) (b : UInt8) :
    beToNat (bs ++ [b]) = beToNat bs * 256 + b.toNat := by
  simp [beToNat, List.foldl_append]

end Rangers.Props.Echo
