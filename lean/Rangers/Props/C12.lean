import Rangers.Proofs.Evm12Lemmas
/-!
# C12 — failed/static EVM frames leave no trace; per-tx scratch state does not leak

Property theorems about the model the driver executes (`Model/Evm12*.lean`). `RevertRestoresObs`
("`RevertToSnapshot` restores the observation", C04's theorem) is a hypothesis wherever a revert is
involved; `restore`, which the driver uses, satisfies it (`restore_restoresObs`).

Clause 1 (failed frame): `failed_call_no_trace`, `failed_authcall_no_trace`,
`failed_create_no_trace_partial` (+ `FullStatementFailedCreateNoTrace`, `…_counterexample`:
`ErrCodeStoreOutOfGas` is not reverted), `nested_frames_are_entry_points`.
Clause 2 (static): `static_no_write_partial`, `staticcall_no_write_partial`
(+ `FullStatementStaticNoWrite`, `…_counterexample`: AUTHCALL bumps a nonce in a read-only frame).
Clause 3 (per-tx scratch, receipts): in `Props/C12B.lean`.
-/
namespace Rangers.Props.C12
open Rangers.Model.Evm12

/-! ## Clause 1: a failed frame leaves no trace -/

/-- `Call`, `CallCode`, `DelegateCall`, `StaticCall`: if the frame returns an error -- whichever:
    depth, balance, write protection, out of gas, invalid opcode, REVERT, and whatever its
    sub-frames did -- the observation (balances, nonces, storage, code, logs, existing accounts)
    is exactly the one at the call. -/
theorem failed_call_no_trace (env : Env) (hrv : RevertRestoresObs env.rv) (depth : Nat) (ro : Bool)
    (self : Addr) (kind : CallKind) (target : Addr) (value : Nat) (body : Frame) (w : World)
    (hfail : (callFrame env depth ro self kind target value body w).err.isSome) :
    obs (callFrame env depth ro self kind target value body w).world = obs w := by
  have hs := callEnter_snapshot env depth ro self kind target value w
  unfold callFrame callFrameK at hfail ⊢
  split at hs
  · next w' e h => rw [h]; simp only; rw [hs]
  · next w' h => rw [h] at hfail; simp at hfail
  · next saved w' self' ro' exec h =>
    rw [h] at hfail ⊢
    simp only [callExit_err] at hfail
    simp only [callExit_world, hfail, ↓reduceIte]
    rw [hrv, hs]

example : RevertRestoresObs restore := restore_restoresObs

/-- non-vacuity: a CALL whose callee writes storage, logs and REVERTs does fail, and would have
    left a trace without the revert -/
example :
    let env : Env := { origin := .base 10, rv := restore }
    let w : World := ({} : World).setCode (.base 20) .hosted
    let r := callFrame env 0 false (.base 10) .call (.base 20) 0 (.sstore 1 7 (.log 1 5 (.done .revert))) w
    r.err = some .reverted ∧ r.world.getState (.base 20) 1 = 0 ∧ w.getState (.base 20) 1 = 0 := by
  decide

/-- non-vacuity for the precompile branch (snapshot, transfer, `RunPrecompiledContract`, revert on
    error): a value CALL to a precompile that fails leaves the caller's balance and the precompile's
    (non-)existence as they were; the same call succeeding moves the value -/
example :
    let env : Env := { origin := .base 10, rv := restore, isPrecompile := fun a => a == .base 109 }
    let w : World := ({} : World).addBalance (.base 20) 5
    let bad := callFrame env 1 false (.base 20) .call (.base 109) 1 (.done .invalid) w
    let good := callFrame env 1 false (.base 20) .call (.base 109) 1 (.done .stop) w
    bad.err = some .precompileFail ∧ bad.world.getBalance (.base 20) = 5 ∧ bad.world.exists? (.base 109) = false
    ∧ good.err = none ∧ good.world.getBalance (.base 20) = 4 ∧ good.world.getBalance (.base 109) = 1 := by
  decide

/-- `AuthCall`: a failed frame restores the observation at its snapshot, i.e. the caller's world
    with the authorized account's nonce already bumped (`authEntryWorld`). -/
theorem failed_authcall_no_trace (env : Env) (hrv : RevertRestoresObs env.rv) (depth : Nat) (ro : Bool)
    (au target : Addr) (value : Nat) (body : Frame) (w : World)
    (hfail : (authFrame env depth ro (some au) (w.getNonce au) target value body w).err.isSome) :
    obs (authFrame env depth ro (some au) (w.getNonce au) target value body w).world
      = obs (authEntryWorld env depth ro au target value w) := by
  unfold authFrame authFrameK authEntryWorld at *
  simp only [bne_self_eq_false, Bool.false_eq_true, ↓reduceIte] at hfail ⊢
  cases h : authEnter env depth ro au target value w with
  | fail w' e => rfl
  | skip w' => simp [h] at hfail
  | enter saved w' self' ro' callee =>
    simp only [h, authExit] at hfail ⊢
    simp only [hfail, ↓reduceIte]
    exact hrv _ _

/-- what the snapshot world of `AuthCall` is: the pre-checks refuse without touching anything,
    otherwise only the authorized account's nonce has moved -/
theorem authEntryWorld_eq (env : Env) (depth : Nat) (ro : Bool) (au target : Addr) (value : Nat) (w : World) :
    authEntryWorld env depth ro au target value w = w
    ∨ authEntryWorld env depth ro au target value w = w.setNonce au (w.getNonce au + 1) := by
  unfold authEntryWorld authEnter
  by_cases hd : depth > CallCreateDepth
  · left; simp [hd]
  · by_cases h1 : (value != 0 && !w.canTransfer env.origin value) = true
    · left; simp [hd, h1]
    · right
      simp only [hd, h1, ↓reduceIte, Bool.false_eq_true]
      by_cases h2 : (!(w.setNonce au (w.getNonce au + 1)).exists? target && !env.isPrecompile target
          && value == 0) = true
      · simp [h2]
      · simp [h2]

/-- `create` (CREATE, CREATE2, contract-creation transactions): a failure other than
    `ErrCodeStoreOutOfGas` -- depth, balance, address collision, any error of the init code,
    REVERT, max code size -- restores the observation at the snapshot (`createEntryWorld`: after
    the creator's nonce bump and access-list insertion, which Ethereum keeps too). -/
theorem failed_create_no_trace_partial (env : Env) (hrv : RevertRestoresObs env.rv) (depth : Nat)
    (ro : Bool) (self : Addr) (two : Bool) (salt value : Nat) (init : Frame) (w : World)
    (hfail : (createFrame env depth ro self two salt value init w).err.isSome)
    (hnot : (createFrame env depth ro self two salt value init w).err ≠ some .codeStoreOutOfGas) :
    obs (createFrame env depth ro self two salt value init w).world
      = obs (createEntryWorld env depth ro self value (createAddr w self two salt) w) := by
  unfold createFrame createFrameK createEntryWorld at *
  simp only at hfail hnot ⊢
  cases h : createEnter env depth ro self value (createAddr w self two salt) w with
  | fail w' e => rfl
  | skip w' => simp [h] at hfail
  | enter saved w' self' ro' exec =>
    simp only [h] at hfail hnot ⊢
    generalize run env (depth + 1) ro' self' w' [] [] init = r at hfail hnot ⊢
    unfold createExit createStored at hfail hnot ⊢
    simp only at hfail hnot ⊢
    by_cases hmax : (r.ret == RetKind.huge) = true
    · simp only [hmax, Bool.true_or, ↓reduceIte]
      exact hrv _ _
    · simp only [hmax, Bool.false_or, Bool.false_and, Bool.false_eq_true, ↓reduceIte, Bool.not_false,
        Bool.and_true] at hfail hnot ⊢
      by_cases he : r.err.isNone = true
      · simp only [he, ↓reduceIte] at hfail hnot ⊢
        cases hr : r.ret <;> simp [hr] at hfail hnot ⊢
      · simp only [he, Bool.false_eq_true, ↓reduceIte] at hfail hnot ⊢
        have hs : r.err.isSome = true := by
          cases hx : r.err <;> simp [hx] at he ⊢
        have hne : (r.err != some Err.codeStoreOutOfGas) = true := by
          simpa using hnot
        simp only [hs, hne, Bool.and_self, ↓reduceIte]
        exact hrv _ _

/-- the clause at full strength: EVERY failed creation restores the snapshot observation -/
def FullStatementFailedCreateNoTrace : Prop :=
  ∀ (env : Env), RevertRestoresObs env.rv → ∀ (depth : Nat) (ro : Bool) (self : Addr) (two : Bool)
    (salt value : Nat) (init : Frame) (w : World),
    (createFrame env depth ro self two salt value init w).err.isSome →
    obs (createFrame env depth ro self two salt value init w).world
      = obs (createEntryWorld env depth ro self value (createAddr w self two salt) w)

/-- It is false of the model and of the code (`evm.go:457` excludes `ErrCodeStoreOutOfGas` from the
    revert): init code `SSTORE(1,7); RETURN(24576 bytes)` fails with that error and the storage
    write (with the new account, its nonce and the endowment) stays. Replayed on the
    implementation by the searcher (known finding `failed-frame:create:retbig`). -/
theorem failed_create_no_trace_counterexample : ¬ FullStatementFailedCreateNoTrace := by
  intro h
  have := h { origin := .base 10, rv := restore } restore_restoresObs 0 false (.base 20) false 0 0
    (.sstore 1 7 (.done .retBig)) ({} : World) (by decide)
  have h2 := congrArg (fun o => o.stor (.created (.base 20) 0) 1) this
  revert h2
  decide

/-- nested frames ARE these entry points: the interpreter's CALL-family / CREATE / AUTHCALL cases
    run `callFrame` / `createFrame` / `authFrame` on the current world, so the three theorems
    above hold at every nesting depth -/
theorem nested_frames_are_entry_points (env : Env) (depth : Nat) (ro : Bool) (self : Addr) (w : World)
    (clogs : List Log) (tr : List Event) (id : Nat) (rest : Frame) :
    (∀ kind target value body, roBlocked ro (CallKind.op kind) value = false →
      run env depth ro self w clogs tr (.call id kind target value body rest) =
        let r := callFrame env depth ro self kind target value body w
        run env depth ro self r.world (clogs ++ r.logs)
          (tr ++ r.trace ++ [{ id := id, ok := r.ok, world := r.world, err := r.err }]) rest)
    ∧ (∀ two salt value init, roBlocked ro (if two then Op.create2 else Op.create) value = false →
      run env depth ro self w clogs tr (.create id two salt value init rest) =
        let r := createFrame env depth ro self two salt value init w
        run env depth ro self r.world (clogs ++ r.logs)
          (tr ++ r.trace ++ [{ id := id, ok := r.ok, world := r.world, err := r.err }]) rest)
    ∧ (∀ au n target value body, roBlocked ro Op.authcall value = false →
      run env depth ro self w clogs tr (.authcall id au n target value body rest) =
        let r := authFrame env depth ro au n target value body (w.addAccess target)
        run env depth ro self r.world (clogs ++ r.logs)
          (tr ++ r.trace ++ [{ id := id, ok := r.ok, world := r.world, err := r.err }]) rest) := by
  refine ⟨?_, ?_, ?_⟩
  · intro kind target value body h
    rw [run]; simp only [h, Bool.false_eq_true, ↓reduceIte]; rfl
  · intro two salt value init h
    rw [run]; simp only [h, Bool.false_eq_true, ↓reduceIte]; rfl
  · intro au n target value body h
    rw [run]; simp only [h, Bool.false_eq_true, ↓reduceIte]; rfl

/-! ## Clause 2: nothing executed inside a static call modifies the state -/

/-- Once `in.readOnly` is set, a frame body -- every program tree of CALL / CALLCODE / DELEGATECALL /
    STATICCALL / CREATE / CREATE2 frames with SSTORE, TSTORE, LOGn, SELFDESTRUCT, value transfers
    anywhere, any success/failure pattern, any depth -- leaves balances, nonces, storage, code, logs
    and the set of (non-empty) existing accounts untouched. Excluded: trees containing AUTHCALL or
    the STAKE family (see the counterexample). -/
theorem static_no_write_partial (env : Env) (hrv : RevertRestoresObs env.rv) (body : Frame)
    (hplain : body.plain = true) (depth : Nat) (self : Addr) (w : World) (clogs : List Log)
    (tr : List Event) (hwf : (obs w).WF) :
    liveObs (run env depth true self w clogs tr body).world = liveObs w :=
  (static_run env hrv body hplain depth self w clogs tr hwf).1

/-- `StaticCall` itself (entered from a writable frame): the whole frame, success or failure. -/
theorem staticcall_no_write_partial (env : Env) (hrv : RevertRestoresObs env.rv) (body : Frame)
    (hplain : body.plain = true) (depth : Nat) (ro : Bool) (self target : Addr) (w : World)
    (hwf : (obs w).WF) :
    liveObs (callFrame env depth ro self .staticcall target 0 body w).world = liveObs w := by
  unfold callFrame callFrameK callEnter
  by_cases hd : depth > CallCreateDepth
  · simp [hd]
  · simp only [hd, ↓reduceIte]
    have h1 : Keeps w (w.addBalance target 0) := Keeps.of_obs_eq (World.obs_addBalance_zero _ _) hwf
    rw [callExit_world]
    split
    · exact liveObs_congr (hrv _ _)
    · cases calleeOf env (w.addBalance target 0) target
      · exact h1.1
      · exact (h1.trans (static_run env hrv body hplain _ _ _ _ _ h1.2)).1
      · exact h1.1

/-- non-vacuity: a well-formed world with a contract, and a plain body that tries every kind of
    write below a nested CALL and DELEGATECALL -/
example :
    let w : World := (({} : World).setCode (.base 20) .hosted).addBalance (.base 20) 5
    (obs w).WF ∧
    (Frame.call 1 .call (.base 21) 0
        (.call 2 .delegatecall (.base 20) 0 (.sstore 1 1 (.done .stop)) (.log 2 3 (.done .stop)))
        (.tstore 0 1 (.selfdestruct (.base 9)))).plain = true := by
  refine ⟨?_, by decide⟩
  intro a ha
  by_cases h : Addr.base 20 = a
  · subst h
    have : (obs ((({} : World).setCode (.base 20) .hosted).addBalance (.base 20) 5)).exist (.base 20) = true := by decide
    rw [this] at ha; cases ha
  · refine ⟨rfl, ?_, fun _ => rfl⟩
    simp [obs, World.getCode, World.setCode, World.addBalance, World.touchNew, World.exists?,
      AMap.get, AMap.set, h]

/-- the clause at full strength: for EVERY program tree -/
def FullStatementStaticNoWrite : Prop :=
  ∀ (env : Env), RevertRestoresObs env.rv → ∀ (body : Frame) (depth : Nat) (self : Addr) (w : World)
    (clogs : List Log) (tr : List Event), (obs w).WF →
    liveObs (run env depth true self w clogs tr body).world = liveObs w

/-- False of the model and of the code: AUTHCALL is not flagged `writes` (and the value test of the
    read-only guard only looks at `op == CALL`), and `AuthCall` bumps the authorized account's nonce
    before its snapshot. In a read-only frame `AUTHCALL(authority b30, nonce 0, target b21)` leaves
    b30 with nonce 1. Replayed on the implementation (known finding `static-frame:authcall:accounts`). -/
theorem static_no_write_counterexample : ¬ FullStatementStaticNoWrite := by
  intro h
  have := h { origin := .base 10, rv := restore } restore_restoresObs
    (.authcall 1 (some (.base 30)) 0 (.base 21) 0 (.done .stop) (.done .stop)) 0 (.base 20) ({} : World) [] []
    (by intro a _; exact ⟨rfl, rfl, fun _ => rfl⟩)
  have h2 := congrArg (fun o => o.nonce (.base 30)) this
  revert h2
  decide

/-- the read-only guard tests the WHOLE value word (`stack.Back(2).Sign() != 0`, pinned by
    `read_only_guard_as_modelled`): in a read-only frame a CALL with any non-zero value is refused --
    also a value whose low 64 or 128 bits are zero (2^64, 2^128, 2^256 - 2^64: the searcher and the
    generators draw value operands from that lattice with accounts rich enough to afford them) -/
theorem static_call_value_refused (v : Nat) (hv : v ≠ 0) : roBlocked true CallKind.call.op v = true := by
  simp [roBlocked, CallKind.op, hv]

example : roBlocked true CallKind.call.op (2 ^ 64) = true ∧ roBlocked true CallKind.call.op (2 ^ 256 - 2 ^ 64) = true :=
  ⟨static_call_value_refused _ (by decide), static_call_value_refused _ (by decide)⟩

/-- boundary of the depth check `evm.depth > CallCreateDepth` (1024, a generated fact): an entry point
    called at depth 1024 is not refused for depth, at depth 1025 it is, before touching anything. The
    searcher runs a self-recursive contract on the implementation and counts exactly 1025 frames. -/
theorem depth_limit_boundary (env : Env) (ro : Bool) (self : Addr) (kind : CallKind) (target : Addr)
    (value : Nat) (w : World) :
    callEnter env 1025 ro self kind target value w = .fail w .depth
    ∧ (∀ w', callEnter env 1024 ro self kind target value w ≠ .fail w' .depth)
    ∧ createEnter env 1025 ro self value target w = .fail w .depth
    ∧ (∀ w', createEnter env 1024 ro self value target w ≠ .fail w' .depth) := by
  refine ⟨by simp [callEnter, CallCreateDepth], ?_, by simp [createEnter, CallCreateDepth], ?_⟩
  · intro w' h
    unfold callEnter at h
    simp only [CallCreateDepth, Nat.lt_irrefl, gt_iff_lt, ↓reduceIte] at h
    cases kind <;> simp only at h
    · split at h
      · cases h
      · split at h <;> cases h
    · split at h <;> cases h
    · cases h
    · cases h
  · intro w' h
    unfold createEnter at h
    simp only [CallCreateDepth, Nat.lt_irrefl, gt_iff_lt, ↓reduceIte] at h
    by_cases h1 : (!w.canTransfer self value) = true
    · simp only [h1, ↓reduceIte] at h; cases h
    · simp only [h1, Bool.false_eq_true, ↓reduceIte] at h
      by_cases h2 : env.createBumpsNonce = true
      · simp only [h2, ↓reduceIte] at h
        split at h <;> cases h
      · simp only [h2, Bool.false_eq_true, ↓reduceIte] at h
        split at h <;> cases h

/-! ## The gas abstraction is sound: the clauses hold for every gas outcome -/

/-- running out of gas somewhere (or failing to pay a code deposit) never introduces an AUTHCALL or a
    STAKE-family opcode -/
theorem plain_of_gasCut {f f' : Frame} (h : GasCut f f') (hp : f.plain = true) : f'.plain = true := by
  induction h with
  | refl f => exact hp
  | oog f => rfl
  | deposit t => rfl
  | sstore k v _ ih => exact ih hp
  | tstore k v _ ih => exact ih hp
  | log n t _ ih => exact ih hp
  | call id kind tg v _ _ ihb ihr =>
    simp only [Frame.plain, Bool.and_eq_true] at hp ⊢
    exact ⟨ihb hp.1, ihr hp.2⟩
  | create id two salt v _ _ ihb ihr =>
    simp only [Frame.plain, Bool.and_eq_true] at hp ⊢
    exact ⟨ihb hp.1, ihr hp.2⟩
  | authcall id au n tg v _ _ _ _ => simp [Frame.plain] at hp
  | stake a _ _ => simp [Frame.plain] at hp
  | unstake a _ _ => simp [Frame.plain] at hp
  | unstakeall _ _ => simp [Frame.plain] at hp
  | stakenum p _ _ => simp [Frame.plain] at hp

/-- Clause 2 for every gas outcome: whichever frames of the tree run out of gas, wherever, the
    read-only frame leaves the live observation untouched. -/
theorem static_no_write_any_gas (env : Env) (hrv : RevertRestoresObs env.rv) (body body' : Frame)
    (hcut : GasCut body body') (hplain : body.plain = true) (depth : Nat) (self : Addr) (w : World)
    (clogs : List Log) (tr : List Event) (hwf : (obs w).WF) :
    liveObs (run env depth true self w clogs tr body').world = liveObs w :=
  static_no_write_partial env hrv body' (plain_of_gasCut hcut hplain) depth self w clogs tr hwf

/-- Clause 1 for every gas outcome: a call frame that fails -- for whatever reason, under whatever
    allotment of gas to it and its sub-frames -- restores the observation. -/
theorem failed_call_no_trace_any_gas (env : Env) (hrv : RevertRestoresObs env.rv) (depth : Nat) (ro : Bool)
    (self : Addr) (kind : CallKind) (target : Addr) (value : Nat) (body body' : Frame) (_hcut : GasCut body body')
    (w : World) (hfail : (callFrame env depth ro self kind target value body' w).err.isSome) :
    obs (callFrame env depth ro self kind target value body' w).world = obs w :=
  failed_call_no_trace env hrv depth ro self kind target value body' w hfail

/-- running out of gas is itself a failure the frame recovers from: cutting a successful body short
    makes the call fail and the observation is the one at the call -/
example :
    let env : Env := { origin := .base 10, rv := restore }
    let w : World := ({} : World).setCode (.base 20) .hosted
    let full := Frame.sstore 1 7 (.log 1 5 (.done .stop))
    let cut := Frame.sstore 1 7 (.done .oog)
    (callFrame env 0 false (.base 10) .call (.base 20) 0 full w).world.getState (.base 20) 1 = 7
    ∧ (callFrame env 0 false (.base 10) .call (.base 20) 0 cut w).err = some .outOfGas
    ∧ (callFrame env 0 false (.base 10) .call (.base 20) 0 cut w).world.getState (.base 20) 1 = 0 := by
  decide

example : GasCut (.sstore 1 7 (.log 1 5 (.done .stop))) (.sstore 1 7 (.done .oog)) :=
  .sstore 1 7 (.oog _)

/-- The STAKE family is a second way the full statement fails (of model and code): none of STAKE,
    UNSTAKE, UNSTAKEALL is flagged `writes` or tests `readOnly`. In a read-only frame running at a
    registered miner account, `STAKE 1` moves 1 RPG out of the balance into the stake and `UNSTAKE 1`
    lowers the stake. Replayed on the implementation inside generated frame trees (known findings
    `static-frame:stakefamily:*`). -/
theorem static_no_write_counterexample_stake :
    let env : Env := { origin := .base 10, rv := restore, isMiner := fun a => a == .base 23 }
    let w : World := { bal := [(.base 23, 2 * oneRPG)], stake := [(.base 23, 400)] }
    (obs (run env 1 true (.base 23) w [] [] (.stake 1 (.done .stop))).world).bal (.base 23) = oneRPG
    ∧ (obs (run env 1 true (.base 23) w [] [] (.stake 1 (.done .stop))).world).stake (.base 23) = 401
    ∧ (obs (run env 1 true (.base 23) w [] [] (.unstake 1 (.done .stop))).world).stake (.base 23) = 399
    ∧ (obs (run env 1 true (.base 23) w [] [] (.unstakeall (.done .stop))).world).stake (.base 23) = 0 := by
  decide

end Rangers.Props.C12
