import Rangers.Model.Evm12Tx
namespace Rangers.Props.C12
open Rangers.Model.Evm12

theorem restore_restores (s c : World) : obs (restore s c) = obs s := rfl

end Rangers.Props.C12
