import Rangers.Model.RLPTyped
import Rangers.Proofs.RLPTypedComplete
import Rangers.Proofs.RLPTypedFuel
import Rangers.Generated.C08Types
/-!
# C08 — typed coders: lossless ("encoding any supported value and decoding returns an equal value")

`typed_roundtrip_fuel`: for every type and every well-formed value `v` of it (`WFV`), decoding the
encoding returns `norm ty v` and exactly the bytes that followed — `norm` maps nil pointers,
nil `*big.Int` and nil `interface{}` to the zero value (documented Go-RLP behaviour) and is the
identity on everything else; on the node's own types it is the identity (`*_norm_id`).
-/
namespace Rangers.Props.C08
open Rangers Rangers.RLP Rangers.Generated.C08

/-- Lossless, with the recursion fuel explicit (any fuel ≥ `vfuel v + 1` works). -/
theorem typed_roundtrip_fuel (ty : Ty) (v : Val) (enc rest : Bytes) (f : Nat)
    (hwf : WFV ty v) (henc : encT ty v = .ok enc) (hf : vfuel v + 1 ≤ f) :
    decT f ty (enc ++ rest) = .ok (norm ty v, rest) :=
  (typed_complete f).1 ty v enc rest hwf henc (by cases ty <;> simp only [axtra] <;> omega)

/-- Total: the typed decoder's recursion fuel is never the reason for a rejection. -/
theorem decodeTy_total (ty : Ty) (b : Bytes) : decodeTy ty b ≠ .error .fuel := by
  unfold decodeTy
  have := typed_fuel_suffices ty b
  cases hd : decT (typedFuel ty b) ty b with
  | error e => simp only; intro h; injection h with h; subst h; exact this hd
  | ok r => obtain ⟨v, rest⟩ := r; simp only; split <;> simp

/-- Lossless at the level of `DecodeBytes`/`EncodeToBytes`: for every type and every well-formed
    value, decoding the encoding returns the (normalised) value. -/
theorem typed_roundtrip (ty : Ty) (v : Val) (enc : Bytes) (hwf : WFV ty v) (henc : encT ty v = .ok enc) :
    decodeTy ty enc = .ok (norm ty v) := by
  have h1 := typed_roundtrip_fuel ty v enc [] (vfuel v + 1) hwf henc (Nat.le_refl _)
  rw [List.append_nil] at h1
  have h2 := decT_mono_le (Nat.le_max_left (vfuel v + 1) (typedFuel ty enc)) ty enc _ h1 (by simp)
  have h3 := typed_fuel_suffices ty enc
  have h4 := decT_mono_le (Nat.le_max_right (vfuel v + 1) (typedFuel ty enc)) ty enc _ rfl h3
  unfold decodeTy
  rw [← h4, h2]
  simp

-- non-vacuity: an account record is well-formed, encodes, and `norm` leaves it alone
example : WFV account_Account (.list [.num 7, .bytes (List.replicate 32 0xab), .bytes [0x01, 0x02]]) := by
  simp [account_Account, WFV, WFF, goWidth, encFields, encT, encUint, encString, encHead]

/-- A decoded value is in normal form: normalising twice changes nothing (leaf types shown; the
    recursive cases are `normL`/`normF` of the same). -/
theorem norm_leaf_id (ty : Ty) (v : Val)
    (h : ty = .uint 8 ∨ ty = .uint 16 ∨ ty = .uint 32 ∨ ty = .uint 64 ∨ ty = .bool ∨ ty = .str ∨ ty = .bytes ∨ ty = .raw
         ∨ (∃ n, ty = .barr n)) : norm ty v = v := by
  rcases h with h | h | h | h | h | h | h | h | ⟨n, h⟩ <;> subst h <;> cases v <;> simp [norm]

/-- `norm` is the identity on every well-formed `account.Account` value. -/
theorem account_norm_id (v : Val) (h : WFV account_Account v) : norm account_Account v = v := by
  unfold account_Account at h ⊢
  cases v with
  | list vs =>
    simp only [WFV] at h
    obtain ⟨hf, _⟩ := h
    match vs, hf with
    | [a, b, c], _ => cases a <;> cases b <;> cases c <;> simp [norm, normF]
    | [], hf => simp [WFF] at hf
    | [_], hf => simp [WFF] at hf
    | [_, _], hf => simp [WFF] at hf
    | _ :: _ :: _ :: _ :: _, hf => simp [WFF] at hf
  | _ => simp [WFV] at h

/-- account records round-trip exactly -/
theorem account_roundtrip (v : Val) (enc : Bytes) (hwf : WFV account_Account v)
    (henc : encT account_Account v = .ok enc) : decodeTy account_Account enc = .ok v := by
  have := typed_roundtrip _ v enc hwf henc
  rwa [account_norm_id v hwf] at this

theorem norm_big_id (p : Val) (h : p ≠ .nil) : norm .big p = p := by
  cases p <;> simp [norm] at h ⊢

/-- `norm` is the identity on `eth_tx.txdata` values whose five `*big.Int` fields are set (what
    `eth_tx.newTransaction` guarantees: it allocates all of them); the recipient may be nil
    (contract creation) or an address. -/
theorem txdata_norm_id (n p g r a pl v' r' s' : Val) (h : WFV eth_tx_txdata (.list [n, p, g, r, a, pl, v', r', s']))
    (hp : p ≠ .nil) (ha : a ≠ .nil) (hv : v' ≠ .nil) (hr : r' ≠ .nil) (hs : s' ≠ .nil) :
    norm eth_tx_txdata (.list [n, p, g, r, a, pl, v', r', s']) = .list [n, p, g, r, a, pl, v', r', s'] := by
  unfold eth_tx_txdata at h ⊢
  simp only [WFV] at h
  obtain ⟨hf, _⟩ := h
  have hu : ∀ x, norm (.uint 64) x = x := fun x => norm_leaf_id _ x (by simp)
  have hby : ∀ x, norm .bytes x = x := fun x => norm_leaf_id _ x (by simp)
  have hba : ∀ x, norm (.barr 20) x = x := fun x => norm_leaf_id _ x (by simp)
  cases r with
  | nil => simp [norm, normF, hu, hby, norm_big_id, hp, ha, hv, hr, hs]
  | some x => simp [norm, normF, hu, hby, hba, norm_big_id, hp, ha, hv, hr, hs]
  | num _ => simp [WFF] at hf
  | bool _ => simp [WFF] at hf
  | bytes _ => simp [WFF] at hf
  | list _ => simp [WFF] at hf

/-- `interface{}` trees without nil (trie node lists, `[]interface{}{addr, nonce}`): leaves are unchanged -/
theorem any_bytes_norm_id (b : Bytes) : norm .any (.bytes b) = .bytes b := by simp [norm]

theorem normL_raw_id : ∀ vs : List Val, normL .raw vs = vs := by
  intro vs
  induction vs with
  | nil => simp [normL]
  | cons v vs ih => cases v <;> simp [normL, norm, ih]

/-- RawValue elements at every position of a list round-trip exactly: a `[]RawValue` whose elements
    are each one well-formed item (the empty string `80` and the empty list `c0` included, anywhere)
    decodes from its encoding to itself. -/
theorem raw_slice_roundtrip (vs : List Val) (enc : Bytes) (hwf : WFV (.slice .raw) (.list vs))
    (henc : encT (.slice .raw) (.list vs) = .ok enc) : decodeTy (.slice .raw) enc = .ok (.list vs) := by
  have := typed_roundtrip (.slice .raw) (.list vs) enc hwf henc
  simpa [norm, normL_raw_id] using this

set_option maxRecDepth 16384 in
example : decodeTy (.slice .raw) [0xc3, 0x80, 0xc0, 0x05] = .ok (.list [.bytes [0x80], .bytes [0xc0], .bytes [0x05]]) := by rfl

end Rangers.Props.C08
