import Rangers.Props.C11B
/-!
# C11 — precompiles: what `RequiredGas` charged bounds what `Run` allocates

`RequiredGas` of MODEXP prices the three header length words as unbounded integers, `Run`
then truncates them to 64 bits and allocates operand buffers of those sizes.  The theorems
show that whenever the price is not the saturated `MaxUint64` (which no gas limit below
2^64−1 can pay), the truncated lengths *are* the priced ones and their sum is linearly bounded
by the price — so a payable MODEXP cannot make `Run` allocate more than `6·gas + 3200` bytes,
far below Go's `makeslice` limit for every gas amount below 2^44.
-/
namespace Rangers.Props.C11G
open Rangers.Evm11 Rangers.Props.C11B

theorem bitLen_gt_64 (n : Nat) : bitLen n > 64 ↔ n ≥ 2 ^ 64 := by
  unfold bitLen
  split
  · rename_i h; subst h; simp
  · rename_i h
    have := Nat.log2_lt h (k := 64)
    omega

/-- the Yellow-Paper-style complexity term of EIP-198 as `modExpGas` computes it -/
def mulComplexity (x : Nat) : Nat :=
  if x ≤ 64 then x * x
  else if x ≤ 1024 then x * x / 4 + (96 * x - 3072)
  else x * x / 16 + (480 * x - 199680)

theorem mulComplexity_lower (x : Nat) : x ≤ 1024 ∨ 480 * x - 199680 ≤ mulComplexity x := by
  unfold mulComplexity
  by_cases h : x ≤ 1024
  · left; exact h
  · right
    rw [if_neg (by omega), if_neg h]
    omega

theorem mulComplexity_pos (x : Nat) (h : 1 ≤ x) : 1 ≤ mulComplexity x := by
  unfold mulComplexity
  split
  · exact Nat.mul_le_mul h h
  · split <;> omega

/-- the raw (unsaturated) price, in terms of the untruncated header words -/
def modExpRaw (b e m expHeadBits : Nat) : Nat :=
  mulComplexity (max m b) * max ((if e > 32 then 8 * (e - 32) else 0) + expHeadBits) 1 / 20

/-- **modexp_lengths_priced (arithmetic core).** If the raw price is below 2^64 then base and
    modulus lengths are below 2^64 (so `Run`'s truncation changes nothing), are at most
    `price + 1024`, and the exponent length — truncated or not — is at most `3·price + 35`
    unless both base and modulus are empty. -/
theorem modexp_core (b e m hb : Nat) (hlt : modExpRaw b e m hb < 2 ^ 64) :
    max m b < 2 ^ 64 ∧ max m b ≤ modExpRaw b e m hb + 1024 ∧
    (1 ≤ max m b → e % 2 ^ 64 ≤ 3 * modExpRaw b e m hb + 35) := by
  unfold modExpRaw at *
  generalize hx : max m b = x at *
  generalize hadj : (if e > 32 then 8 * (e - 32) else 0) + hb = adj at *
  have hmax1 : 1 ≤ max adj 1 := by omega
  -- price ≥ f(x)/20
  have h1 : mulComplexity x / 20 ≤ mulComplexity x * max adj 1 / 20 :=
    Nat.div_le_div_right (Nat.le_mul_of_pos_right _ hmax1)
  have hlow := mulComplexity_lower x
  refine ⟨?_, ?_, ?_⟩
  · rcases hlow with h | h <;> omega
  · rcases hlow with h | h <;> omega
  · intro hx1
    have hpos := mulComplexity_pos x hx1
    have h2 : max adj 1 / 20 ≤ mulComplexity x * max adj 1 / 20 := by
      apply Nat.div_le_div_right
      exact Nat.le_mul_of_pos_left _ hpos
    have hmod : e % 2 ^ 64 ≤ e := Nat.mod_le _ _
    by_cases he : e > 32
    · rw [if_pos he] at hadj
      omega
    · omega

/-- **modexp_alloc_priced.** A MODEXP whose price is not the saturated `MaxUint64` makes
    `Run` allocate at most `6·price + 3200` bytes of operand / result buffers. -/
theorem modexp_alloc_priced (input : BA) (h : modExpGas input < maxU64) :
    modExpRunAlloc input ≤ 6 * modExpGas input + 3200 := by
  unfold modExpGas at h ⊢
  simp only at h ⊢
  generalize hb : beNat (getData input 0 32) = b at *
  generalize he : beNat (getData input 32 32) = e at *
  generalize hm : beNat (getData input 64 32) = m at *
  generalize hhead : (if bitLen (if (if input.size > 96 then input.extract 96 input.size else #[]).size ≤ b then 0
      else if e > 32 then beNat (getData (if input.size > 96 then input.extract 96 input.size else #[]) (lo64 b) 32)
      else beNat (getData (if input.size > 96 then input.extract 96 input.size else #[]) (lo64 b) (lo64 e))) > 0
      then bitLen (if (if input.size > 96 then input.extract 96 input.size else #[]).size ≤ b then 0
      else if e > 32 then beNat (getData (if input.size > 96 then input.extract 96 input.size else #[]) (lo64 b) 32)
      else beNat (getData (if input.size > 96 then input.extract 96 input.size else #[]) (lo64 b) (lo64 e))) - 1 else 0) = hbits at *
  have hraw : (if max m b ≤ 64 then max m b * max m b
      else if max m b ≤ 1024 then max m b * max m b / 4 + (96 * max m b - 3072)
      else max m b * max m b / 16 + (480 * max m b - 199680)) *
      max ((if e > 32 then 8 * (e - 32) else 0) + hbits) 1 / 20 = modExpRaw b e m hbits := by
    unfold modExpRaw mulComplexity; rfl
  rw [hraw] at h ⊢
  generalize hr : modExpRaw b e m hbits = raw at *
  have hrlt : raw < 2 ^ 64 := by
    by_cases hg : bitLen raw > 64
    · rw [if_pos hg] at h; exact absurd h (Nat.lt_irrefl _)
    · exact Nat.lt_of_not_ge (fun hge => hg ((bitLen_gt_64 raw).mpr hge))
  have hgas : (if bitLen raw > 64 then maxU64 else raw) = raw := by
    rw [if_neg]; intro hg; have := (bitLen_gt_64 raw).mp hg; omega
  rw [hgas]
  have hc := modexp_core b e m hbits (by rw [hr]; exact hrlt)
  rw [hr] at hc
  obtain ⟨hx64, hxle, hele⟩ := hc
  unfold modExpRunAlloc
  simp only [hb, he, hm]
  have hb64 : b % 2 ^ 64 = b := Nat.mod_eq_of_lt (by omega)
  have hm64 : m % 2 ^ 64 = m := Nat.mod_eq_of_lt (by omega)
  rw [hb64, hm64]
  split
  · omega
  · rename_i hne
    have hx1 : 1 ≤ max m b := by omega
    have := hele hx1
    omega

/-- every other precompile allocates a constant amount beyond what is proportional to its input -/
theorem precompile_alloc_priced (addr : Nat) (input : BA) (h : precompileGas addr input < maxU64) :
    precompileRunAlloc addr input ≤ 6 * precompileGas addr input + 3200 := by
  unfold precompileRunAlloc
  split
  · omega
  · have : precompileGas 5 input = modExpGas input := rfl
    rw [this] at h ⊢
    exact modexp_alloc_priced input h
  all_goals omega

/-- the seeded-regression class c11-1a: header `baseLen = 1, expLen = 2^61+32, modLen = 1`
    is priced at the exact `8·2^61/20` (≈ 9.2·10^17, unpayable), not at the wrapped 51 -/
example : modExpRaw 1 (2 ^ 61 + 32) 1 0 = 2 ^ 64 / 20 := by decide
/-- and with `expLen = 2^64 + 40` (truncates to 40 in `Run`) the price is still above 7·10^18 -/
example : modExpRaw 1 (2 ^ 64 + 40) 1 0 > 7 * 10 ^ 18 := by decide

/-- a precompile `Run` that succeeded passed its length gate, so its input length is one of the
    few shapes the gate admits — e.g. BLS12-381 pairing takes a positive multiple of 384 bytes -/
example : precompileLenOk 16 768 = true ∧ precompileLenOk 16 0 = false ∧ precompileLenOk 9 212 = false := by decide

end Rangers.Props.C11G
