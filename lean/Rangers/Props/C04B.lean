import Rangers.Generated.JournalFacts
import Rangers.Model.Journal
/-!
# C04 — journal completeness facts re-extracted from the source on every run (T-gen)

`Rangers.Generated.JournalFacts` is rewritten by `gen/cmd/c04facts` from `src/storage/account/*.go`
(go/ast): per method of `*AccountDB` / `*accountObject`, how many `append(…transitions…)` it contains,
which un-journaled lower-case setters it calls, which journaled fields it assigns directly, and
whether the first append precedes the first such write.  A new mutator without a journal entry, a
write moved in front of its append, or a new journal entry kind breaks one of these theorems before
any test runs.
-/
namespace Rangers.Props.C04B
open Rangers.Generated.JournalFacts Rangers.Model.Journal

/-- writers that legitimately write without (or before) a journal append -/
def exempt : List (String × String) :=
  [ ("AccountDB", "AddFT"),      -- raw `setData` only on the pre-Proposal002 branch; `SetData` otherwise
    ("AccountDB", "SubFT"),      -- idem
    ("AccountDB", "setBalance"), -- helper of Suicide (journaled as suicideChange) and of suicideChange.undo
    ("AccountDB", "createObject"), -- `setNonce(0)` on the object before it is published, then the append
    ("AccountDB", "Reset"), ("AccountDB", "clearJournalAndRefund") ] -- block / transaction boundary

/-- every method that writes journaled state appends its undo entry first, or is a listed exemption -/
theorem journal_complete :
    ∀ f ∈ facts, (f.raw ≠ [] ∨ f.direct ≠ []) → f.appendFirst = true ∨ (f.recv, f.name) ∈ exempt := by
  decide

/-- exactly the journaling methods the model transcribes append to the journal -/
theorem journal_writers :
    (facts.filter (fun f => decide (f.appends > 0))).map (fun f => (f.recv, f.name, f.appends)) =
      [("AccountDB", "AddAddressToAccessList", 1), ("AccountDB", "AddLog", 1), ("AccountDB", "AddRefund", 1),
       ("AccountDB", "AddSlotToAccessList", 2), ("AccountDB", "SetTransientState", 1), ("AccountDB", "SubRefund", 1),
       ("AccountDB", "Suicide", 1), ("AccountDB", "createObject", 2), ("accountObject", "IncreaseNonce", 1),
       ("accountObject", "SetData", 1), ("accountObject", "SetNFTSetDefinition", 1), ("accountObject", "SetNonce", 1),
       ("accountObject", "touch", 1)] := by
  decide

/-- name of the Go type behind a model entry -/
def kindName : Entry → String
  | .create _ => "createObjectChange"
  | .suicide .. => "suicideChange"
  | .nonce .. => "nonceChange"
  | .storage .. => "storageChange"
  | .code .. => "nftSetDefinitionChange"
  | .refund _ => "refundChange"
  | .addLog _ => "addLogChange"
  | .touch .. => "touchChange"
  | .alAddr _ => "accessListAddAccountChange"
  | .alSlot .. => "accessListAddSlotChange"
  | .transient .. => "transientStorageChange"

/-- the journal entry kinds of the source are the model's eleven plus `resetObjectChange` (appended only by
    `createObject(addr, prev)` with `prev != nil`; see design/C04.md why no caller does that) -/
theorem undo_kinds_modelled :
    undoKinds.filter (· ≠ "resetObjectChange") =
      [kindName (.alAddr []), kindName (.alSlot [] []), kindName (.addLog []), kindName (.create []),
       kindName (.code [] none []), kindName (.nonce [] 0), kindName (.refund 0), kindName (.storage [] [] []),
       kindName (.suicide [] false 0), kindName (.touch [] false false), kindName (.transient [] [] [])] := by
  decide

/-- fields of the model's journal entries, under the Go names, in the order of the constructor arguments -/
def modelFields : List (String × List String) :=
  [ ("accessListAddAccountChange", ["address"]),            -- Entry.alAddr a
    ("accessListAddSlotChange", ["address", "slot"]),       -- Entry.alSlot a slot
    ("addLogChange", ["txhash"]),                           -- Entry.addLog th
    ("createObjectChange", ["account"]),                    -- Entry.create a
    ("nftSetDefinitionChange", ["account", "prev", "prevhash"]), -- Entry.code a prevCode prevHash
    ("nonceChange", ["account", "prev"]),                   -- Entry.nonce a prev
    ("refundChange", ["prev"]),                             -- Entry.refund prev
    ("resetObjectChange", ["prev"]),                        -- (unreachable, not in the model)
    ("storageChange", ["account", "key", "prevalue"]),      -- Entry.storage a k prev
    ("suicideChange", ["account", "prev", "prevbalance"]),  -- Entry.suicide a prev prevBal
    ("touchChange", ["account", "prev", "prevDirty"]),      -- Entry.touch a prev prevDirty
    ("transientStorageChange", ["account", "key", "prevalue"]) ] -- Entry.transient a k prev

/-- every journal entry struct of `transition.go` carries exactly the fields the model's entry carries
    (a dropped or added field breaks this) -/
theorem entry_fields_modelled : entryFields = modelFields := by decide

/-- every undo method reads every field of its entry (an undo that substitutes a constant for a recorded
    value leaves the field unread and breaks this) -/
theorem undo_reads_all_fields : undoUses = entryFields := by decide

/-- every place that builds a journal entry sets all of its fields (keyed literals list them, the two
    positional ones give one value for the single field) -/
theorem literals_set_all_fields :
    literals = ["accessListAddAccountChange:#1", "accessListAddAccountChange:#1", "accessListAddSlotChange:address,slot",
      "addLogChange:txhash", "createObjectChange:account", "nftSetDefinitionChange:account,prevhash,prev",
      "nonceChange:account,prev", "nonceChange:account,prev", "refundChange:prev", "refundChange:prev",
      "resetObjectChange:prev", "storageChange:account,key,prevalue", "suicideChange:account,prev,prevbalance",
      "touchChange:account,prev,prevDirty", "transientStorageChange:account,key,prevalue"] := by decide

/-- the only package-level state of `src/storage/account` that any function assigns: the logger (start-up) and
    the process-wide bound-token-contract cache, which is an explicit parameter of the model (`Cfg.tok`) and is
    exercised in two processes (zero and non-zero contract). No scratch buffers, pools or other shared state. -/
theorem package_state_writers : pkgStateWriters = ["Init:accountLog", "loadContractCache:rpgContractAddress"] := by decide

/-- the fork / configuration flags read on this code path, each an input of the model: `IsProposal002` in the two
    balance writers (`Cfg.p002`), `IsSub` only selects the slot position inside the Keccak pre-image (`Cfg.balKey`) -/
theorem fork_flag_reads : forkReads = ["AddFT:IsProposal002", "GetERC20Binding:IsSub", "SubFT:IsProposal002"] := by decide

/-- the fields of the state-carrying structs and where each lives in the model (`Obj`, `ADB`, `Leaf`, `AccessList`);
    a new cache or memo field in `accountObject` / `AccountDB` (e.g. a memoised code size) breaks this before any
    input is searched — the searcher then supplies the failing history (derived reads inside the reverted region) -/
theorem state_fields_modelled :
    stateFields =
      [ ("Account", ["Nonce", "Root", "kind", "NFTSetDefinitionHash"]),   -- Leaf.nonce, Leaf.storage (content of Root), –, Leaf.codeHash
        ("AccountDB", ["db", "trie", "accessList", "accountObjectsLock", "accountObjects", "accountObjectsDirty", "dbErr",
          "refund", "transientStorage", "transitions", "validRevisions", "nextRevisionID", "thash", "bhash", "txIndex",
          "logs", "logSize"]),   -- codes/committed, trie, al, –, objs, dirtySet, (not modelled), refund, transient, journal, revisions, nextRev, thash, bhash, txIndex, logs, logSize
        ("accessList", ["addresses", "slots"]),   -- AccessList.addrs, .slots
        ("accountObject", ["address", "addrHash", "data", "db", "dbErr", "trie", "nftSet", "dirtyNFTSet", "cachedLock",
          "cachedStorage", "dirtyStorage", "suicided", "touched", "deleted", "onDirty"]) ] := by   -- key of objs, –, nonce/codeHash, –, (not modelled), strie, code, dirtyCode, –, cached, dirty, suicided, touched, deleted, armed
  decide

end Rangers.Props.C04B
