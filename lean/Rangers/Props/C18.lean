import Rangers.Model.Decimal
/-! C18 property theorems (being built; see design/C18.md). -/
namespace Rangers.Props.C18
open Rangers.Decimal

theorem strToBigInt_empty (d : Int) : strToBigInt [] d = .ok 0 := rfl

end Rangers.Props.C18
