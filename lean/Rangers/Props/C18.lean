import Rangers.Proofs.DecimalFormat
import Rangers.Proofs.DecimalTotal
/-!
# C18 — decimal amount strings and 18-decimal integers convert without loss

Every theorem is about `Rangers.Model.Decimal`, the model the correspondence
driver (`Rangers.Drive.C18`) executes against the Go code on every run.

Reading of the property statement:
* "formatting an integer amount and parsing it back returns the same integer"
  → `format_parse_id`, `roundtrip_word` (all of −(2^256−1) … 2^256−1, in fact |n| < 2^510);
* "parsing a decimal string with at most 18 fractional digits yields exactly the
  integer it denotes" → `parse_exact`, `parse_exact_domain` (≤ 78 integer digits);
* "re-scaling between 18 decimals and a token's unit is the identity at 18
  decimals" → `erc20_18_id`, `rocket_18_id`; for token decimals 0 … 18:
  `erc20_floor`, `rocket_scale`;
* "a value carried in a wrapped Ethereum transaction reaches the EVM unchanged"
  → `evm_value_unchanged`.
The arithmetic these rest on: `roundAway_spec`, `roundAway_idempotent`,
`strToBigInt_plain_general`. The bound `2^510` is what two away-from-zero roundings
at 512 bits leave; `format_parse_id_unbounded_counterexample` shows it is not an artefact.
-/
namespace Rangers.Props.C18
open Rangers.Decimal

/-! ## the rounding lemma everything rests on -/

/-- One `AwayFromZero` rounding of the integer mantissa `m` to `p` bits never goes
    below `m` and overshoots by a relative error strictly below `2^(1-p)`. -/
theorem roundAway_spec (p m : Nat) (hp : 1 ≤ p) (hm : 0 < m) :
    (m : ℚ) ≤ ((roundMant .away p m false).1 : ℚ) * 2 ^ (roundMant .away p m false).2 ∧
    ((roundMant .away p m false).1 : ℚ) * 2 ^ (roundMant .away p m false).2
      < (m : ℚ) * (1 + 1 / 2 ^ (p - 1)) :=
  roundMant_away_spec p m false (m : ℚ) hp hm (le_refl _) (by linarith) (by simp) (by simp)

example : roundMant .away 3 13 false = (7, 1) := by decide +kernel
example : roundMant .away 3 12 false = (6, 1) := by decide +kernel

/-- Rounding (in either mode) does not change a mantissa that already fits. -/
theorem roundAway_idempotent (mode : Mode) (p m : Nat) (h : bitLen m ≤ p) :
    roundMant mode p m false = (m, 0) :=
  roundMant_fits mode false h

example : bitLen 13 ≤ 4 := by decide +kernel

/-- The rounded mantissa itself fits into `p` bits or is exactly `2^p` (carry). -/
theorem roundAway_le_pow (mode : Mode) (p m : Nat) (st : Bool) (h : p < bitLen m) :
    (roundMant mode p m st).1 ≤ 2 ^ p := by
  unfold roundMant
  have h' : ¬ bitLen m ≤ p := by omega
  simp only [h', if_false]
  have hlt : m / 2 ^ (bitLen m - p) < 2 ^ p := by
    rw [Nat.div_lt_iff_lt_mul (Nat.two_pow_pos _), ← Nat.pow_add]
    have : p + (bitLen m - p) = bitLen m := by omega
    rw [this]
    exact lt_two_pow_bitLen m
  cases mode <;> dsimp only <;> split <;> omega

example : 3 < bitLen 13 := by decide +kernel

/-! ## parsing -/

/-- **General exactness of `strToBigInt`.** For a plain decimal string
    `[sign] ip [ "." fp ]` (`ip`, `fp` digit strings, not both empty, at most 248
    fraction digits: as long as `pow5` is exact) with digit value `N`, and `d` decimals: if
    `N·10^(d-|fp|) < 2^510` then `strToBigInt` returns exactly `± ⌊N·10^d / 10^|fp|⌋`
    — no error, no binary rounding visible. -/
theorem strToBigInt_plain_general (sg : Option Bool) (ip fp : Str) (dot : Bool) (d : Nat)
    (hip : allDig ip) (hfp : allDig fp) (hdot : dot = false → fp = []) (hne : ip ++ fp ≠ [])
    (hf : fp.length ≤ 248)
    (hbound : Nat.ofDigitChars 10 (ip ++ fp) 0 * 10 ^ (d - fp.length) < 2 ^ 510) :
    strToBigInt (signStr sg ++ plainBody ip fp dot) (d : Int) =
      .ok (if signNeg sg then -((Nat.ofDigitChars 10 (ip ++ fp) 0 * 10 ^ d / 10 ^ fp.length : ℕ) : Int)
           else ((Nat.ofDigitChars 10 (ip ++ fp) 0 * 10 ^ d / 10 ^ fp.length : ℕ) : Int)) :=
  strToBigInt_plain sg ip fp dot d hip hfp hdot hne hf hbound

example : allDig "12".toList ∧ allDig "50".toList ∧ ("12".toList ++ "50".toList ≠ []) ∧
    Nat.ofDigitChars 10 ("12".toList ++ "50".toList) 0 * 10 ^ (18 - 2) < 2 ^ 510 := by decide +kernel
example : strToBigInt (signStr (some true) ++ plainBody "12".toList "50".toList true) 18
    = .ok (-12500000000000000000) := by decide +kernel

/-- The digit value of `ip ++ fp` is `value(ip)·10^|fp| + value(fp)`: the string
    `ip.fp` denotes `N / 10^|fp|`. -/
theorem digits_value_split (ip fp : Str) :
    Nat.ofDigitChars 10 (ip ++ fp) 0 =
      Nat.ofDigitChars 10 ip 0 * 10 ^ fp.length + Nat.ofDigitChars 10 fp 0 := by
  rw [Nat.ofDigitChars_append, Nat.ofDigitChars_eq_ofDigitChars_zero, Nat.mul_comm]

/-- **parse_exact.** A decimal string with at most 18 fraction digits denoting
    `± N / 10^f` parses (at 18 decimals) to exactly `± N·10^(18-f)`, provided that
    integer is below `2^510`. -/
theorem parse_exact (sg : Option Bool) (ip fp : Str) (dot : Bool)
    (hip : allDig ip) (hfp : allDig fp) (hdot : dot = false → fp = []) (hne : ip ++ fp ≠ [])
    (hf : fp.length ≤ 18)
    (hbound : Nat.ofDigitChars 10 (ip ++ fp) 0 * 10 ^ (18 - fp.length) < 2 ^ 510) :
    StrToBigInt (signStr sg ++ plainBody ip fp dot) =
      .ok (if signNeg sg then -((Nat.ofDigitChars 10 (ip ++ fp) 0 * 10 ^ (18 - fp.length) : ℕ) : Int)
           else ((Nat.ofDigitChars 10 (ip ++ fp) 0 * 10 ^ (18 - fp.length) : ℕ) : Int)) := by
  have h := strToBigInt_plain sg ip fp dot 18 hip hfp hdot hne (by omega) hbound
  have hdiv : Nat.ofDigitChars 10 (ip ++ fp) 0 * 10 ^ 18 / 10 ^ fp.length
      = Nat.ofDigitChars 10 (ip ++ fp) 0 * 10 ^ (18 - fp.length) := by
    have h18 : 18 = (18 - fp.length) + fp.length := by omega
    conv_lhs => rw [h18, Nat.pow_add, ← Nat.mul_assoc]
    exact Nat.mul_div_cancel _ (by positivity)
  rw [hdiv] at h
  exact h

example : StrToBigInt (signStr none ++ plainBody "0".toList "000000000000000001".toList true) = .ok 1 := by
  decide +kernel

/-- **parse_exact on the stated domain**: at most 78 integer digits and at most 18
    fraction digits need no numeric side condition (`10^96 < 2^510`). -/
theorem parse_exact_domain (sg : Option Bool) (ip fp : Str) (dot : Bool)
    (hip : allDig ip) (hfp : allDig fp) (hdot : dot = false → fp = []) (hne : ip ++ fp ≠ [])
    (hi : ip.length ≤ 78) (hf : fp.length ≤ 18) :
    StrToBigInt (signStr sg ++ plainBody ip fp dot) =
      .ok (if signNeg sg then -((Nat.ofDigitChars 10 (ip ++ fp) 0 * 10 ^ (18 - fp.length) : ℕ) : Int)
           else ((Nat.ofDigitChars 10 (ip ++ fp) 0 * 10 ^ (18 - fp.length) : ℕ) : Int)) := by
  apply parse_exact sg ip fp dot hip hfp hdot hne hf
  have h1 : Nat.ofDigitChars 10 (ip ++ fp) 0 < 10 ^ (ip ++ fp).length :=
    ofDigitChars_lt _ (allDig_append.mpr ⟨hip, hfp⟩)
  rw [List.length_append] at h1
  have h2 : Nat.ofDigitChars 10 (ip ++ fp) 0 * 10 ^ (18 - fp.length)
      < 10 ^ (ip.length + fp.length) * 10 ^ (18 - fp.length) :=
    Nat.mul_lt_mul_of_pos_right h1 (by positivity)
  rw [← Nat.pow_add] at h2
  have h3 : 10 ^ (ip.length + fp.length + (18 - fp.length)) ≤ 10 ^ 96 :=
    Nat.pow_le_pow_right (by norm_num) (by omega)
  have h4 : (10 : ℕ) ^ 96 < 2 ^ 510 := by decide +kernel +kernel
  omega

example : allDig "115792089237316195423570985008687907853269984665640564039457584007913129639935".toList ∧
    "115792089237316195423570985008687907853269984665640564039457584007913129639935".toList.length ≤ 78 := by
  decide +kernel

/-! ## format → parse -/

/-- **format_parse_id.** `strToBigInt (bigIntToStr n 18) 18 = n` for every integer
    with `|n| < 2^510` (both signs; covers every balance and every EVM word). -/
theorem format_parse_id (n : Int) (h : n.natAbs < 2 ^ 510) :
    strToBigInt (bigIntToStr n 18) 18 = .ok n := by
  obtain ⟨first, last, hs, hd1, hd2, hlen, hne, hdot, hval⟩ := bigIntToStr_shape n 18
  have hs' : bigIntToStr n 18 = signStr (if n < 0 then some true else none) ++ plainBody first last (18 != 0) := hs
  rw [hs']
  have := strToBigInt_plain (if n < 0 then some true else none) first last (18 != 0) 18 hd1 hd2 hdot
    (by intro h; exact hne (List.append_eq_nil_iff.mp h).1) (by omega)
    (by rw [hval, hlen]; simpa using h)
  rw [hval, hlen, Nat.mul_div_cancel _ (by positivity)] at this
  rw [signed_natAbs] at this
  exact this

example : strToBigInt (bigIntToStr (-5) 18) 18 = .ok (-5) := by decide +kernel

/-- The exported pair `BigIntToStr` / `StrToBigInt` (zero is printed as "0"). -/
theorem format_parse_id_exported (n : Int) (h : n.natAbs < 2 ^ 510) :
    StrToBigInt (BigIntToStr n) = .ok n := by
  unfold BigIntToStr StrToBigInt
  by_cases h0 : n = 0
  · subst h0; decide +kernel
  · rw [if_neg h0]; exact format_parse_id n h

/-- **Round trip on the stated range**: every integer from `-(2^256-1)` to `2^256-1`. -/
theorem roundtrip_word (n : Int) (h1 : -(2 ^ 256 : Int) < n) (h2 : n < 2 ^ 256) :
    StrToBigInt (BigIntToStr n) = .ok n := by
  apply format_parse_id_exported
  have h3 : (2 : ℕ) ^ 256 < 2 ^ 510 := Nat.pow_lt_pow_right (by norm_num) (by norm_num)
  have h4 : n.natAbs < 2 ^ 256 := by
    have : ((2 ^ 256 : ℕ) : Int) = (2 : Int) ^ 256 := by push_cast
    omega
  omega

example : StrToBigInt (BigIntToStr (2 ^ 256 - 1)) = .ok (2 ^ 256 - 1) := by decide +kernel

/-- `BigIntToStrWithoutDot` (used by the VM's stake instructions before
    `strconv.ParseUint`): the sign, then digits spelling `⌊|n| / 10^18⌋`. -/
theorem nodot_value (n : Int) :
    ∃ ds, allDig ds ∧ BigIntToStrWithoutDot n = (if n < 0 then ['-'] else []) ++ ds ∧
      Nat.ofDigitChars 10 ds 0 = n.natAbs / 10 ^ 18 := by
  unfold BigIntToStrWithoutDot BigIntToStr
  by_cases h0 : n = 0
  · subst h0
    exact ⟨['0'], by decide, by decide, by decide⟩
  · rw [if_neg h0]
    obtain ⟨first, last, hs, hd1, hd2, hlen, hne, hdot, hval⟩ := bigIntToStr_shape n 18
    have hs' : bigIntToStr n 18 = signStr (if n < 0 then some true else none) ++ plainBody first last (18 != 0) := hs
    refine ⟨first, hd1, ?_, ?_⟩
    · rw [hs']
      have hsign : signStr (if n < 0 then some true else none) = (if n < 0 then ['-'] else []) := by
        split <;> rfl
      rw [hsign]
      have hpre : ∀ c ∈ (if n < 0 then ['-'] else ([] : Str)) ++ first, (c != '.') = true := by
        intro c hc
        rcases List.mem_append.mp hc with h | h
        · split at h
          · simp at h; subst h; decide
          · simp at h
        · have := isDig_ne_dot (hd1 c h)
          simpa using this
      have : (if n < 0 then ['-'] else ([] : Str)) ++ plainBody first last (18 != 0)
          = ((if n < 0 then ['-'] else ([] : Str)) ++ first) ++ '.' :: last := by
        unfold plainBody; simp
      rw [this, List.takeWhile_append_of_pos hpre]
      simp
    · have hsplit := digits_value_split first last
      rw [hval, hlen] at hsplit
      have hlast : Nat.ofDigitChars 10 last 0 < 10 ^ 18 := by
        have := ofDigitChars_lt last hd2
        rwa [hlen] at this
      rw [hsplit]
      rw [Nat.add_comm, Nat.add_mul_div_right _ _ (by positivity), Nat.div_eq_of_lt hlast, Nat.zero_add]

example : BigIntToStrWithoutDot 1234567890123456789012 = "1234".toList := by decide +kernel

/-! ## re-scaling between the ledger unit and a token unit -/

/-- general form: ledger (18 decimals) → token with `d` decimals. -/
theorem erc20_general (n : Int) (d : Nat) (h : n.natAbs * 10 ^ (d - 18) < 2 ^ 510) :
    formatERC20 n d =
      .ok (if n < 0 then -((n.natAbs * 10 ^ d / 10 ^ 18 : ℕ) : Int) else ((n.natAbs * 10 ^ d / 10 ^ 18 : ℕ) : Int)) := by
  unfold formatERC20
  by_cases h0 : n = 0
  · subst h0; simp
  · rw [if_neg h0]
    unfold BigIntToStr
    rw [if_neg h0]
    obtain ⟨first, last, hs, hd1, hd2, hlen, hne, hdot, hval⟩ := bigIntToStr_shape n 18
    have hs' : bigIntToStr n 18 = signStr (if n < 0 then some true else none) ++ plainBody first last (18 != 0) := hs
    rw [hs']
    have := strToBigInt_plain (if n < 0 then some true else none) first last (18 != 0) d hd1 hd2 hdot
      (by intro h; exact hne (List.append_eq_nil_iff.mp h).1) (by omega)
      (by rw [hval, hlen]; exact h)
    rw [hval, hlen] at this
    rw [this]
    by_cases hn : n < 0 <;> simp [hn, signNeg]

/-- general form: token with `d ≤ 248` decimals → ledger (18 decimals). -/
theorem rocket_general (n : Int) (d : Nat) (hd : d ≤ 248) (h : n.natAbs * 10 ^ (18 - d) < 2 ^ 510) :
    formatRocket n d =
      .ok (if n < 0 then -((n.natAbs * 10 ^ 18 / 10 ^ d : ℕ) : Int) else ((n.natAbs * 10 ^ 18 / 10 ^ d : ℕ) : Int)) := by
  unfold formatRocket
  by_cases h0 : n = 0
  · subst h0; simp
  · rw [if_neg h0]
    unfold StrToBigInt
    obtain ⟨first, last, hs, hd1, hd2, hlen, hne, hdot, hval⟩ := bigIntToStr_shape n d
    rw [hs]
    have := strToBigInt_plain (if n < 0 then some true else none) first last (d != 0) 18 hd1 hd2 hdot
      (by intro h; exact hne (List.append_eq_nil_iff.mp h).1) (by omega)
      (by rw [hval, hlen]; exact h)
    rw [hval, hlen] at this
    rw [show (18 : Int) = ((18 : ℕ) : Int) from rfl, this]
    by_cases hn : n < 0 <;> simp [hn, signNeg]

/-- **erc20_18_id.** Ledger → 18-decimal token is the identity. -/
theorem erc20_18_id (n : Int) (h : n.natAbs < 2 ^ 510) : formatERC20 n 18 = .ok n := by
  have := erc20_general n 18 (by simpa using h)
  rw [Nat.mul_div_cancel _ (by positivity)] at this
  rw [show (18 : Int) = ((18 : ℕ) : Int) from rfl, this, signed_natAbs']

/-- **rocket_18_id.** 18-decimal token → ledger is the identity. -/
theorem rocket_18_id (n : Int) (h : n.natAbs < 2 ^ 510) : formatRocket n 18 = .ok n := by
  have := rocket_general n 18 (by norm_num) (by simpa using h)
  rw [Nat.mul_div_cancel _ (by positivity)] at this
  rw [show (18 : Int) = ((18 : ℕ) : Int) from rfl, this, signed_natAbs']

example : formatERC20 (-(2 ^ 256 - 1)) 18 = .ok (-(2 ^ 256 - 1)) ∧ formatRocket (2 ^ 256 - 1) 18 = .ok (2 ^ 256 - 1) := by
  decide +kernel

/-- **erc20_floor.** For token decimals `0 ≤ d ≤ 18` the ledger → token conversion is
    division by `10^(18-d)` truncated toward zero (Go's `Quo`, Lean's `Int.tdiv`). -/
theorem erc20_floor (n : Int) (d : Nat) (hd : d ≤ 18) (h : n.natAbs < 2 ^ 510) :
    formatERC20 n d = .ok (n.tdiv (10 ^ (18 - d))) := by
  have h' : n.natAbs * 10 ^ (d - 18) < 2 ^ 510 := by
    have : d - 18 = 0 := by omega
    rw [this]; simpa using h
  rw [erc20_general n d h']
  have hdiv : n.natAbs * 10 ^ d / 10 ^ 18 = n.natAbs / 10 ^ (18 - d) := by
    have h18 : 18 = (18 - d) + d := by omega
    conv_lhs => rw [h18, Nat.pow_add]
    rw [Nat.mul_div_mul_right _ _ (by positivity)]
  rw [hdiv]
  congr 1
  have hk : ((10 : Int) ^ (18 - d)) = ((10 ^ (18 - d) : ℕ) : Int) := by push_cast; rfl
  rw [hk]
  by_cases hn : n < 0
  · have hneg : n = -((n.natAbs : ℕ) : Int) := by omega
    rw [if_pos hn]
    conv_rhs => rw [hneg, Int.neg_tdiv, ← Int.ofNat_tdiv]
  · have hpos : n = ((n.natAbs : ℕ) : Int) := by omega
    rw [if_neg hn]
    conv_rhs => rw [hpos, ← Int.ofNat_tdiv]

example : formatERC20 1234567890123456789012 6 = .ok 1234567890 := by decide +kernel

/-- **rocket_scale.** For token decimals `0 ≤ d ≤ 18` the token → ledger conversion
    multiplies by `10^(18-d)` exactly. -/
theorem rocket_scale (n : Int) (d : Nat) (hd : d ≤ 18) (h : n.natAbs * 10 ^ (18 - d) < 2 ^ 510) :
    formatRocket n d = .ok (n * 10 ^ (18 - d)) := by
  rw [rocket_general n d (by omega) h]
  have hdiv : n.natAbs * 10 ^ 18 / 10 ^ d = n.natAbs * 10 ^ (18 - d) := by
    have h18 : 18 = (18 - d) + d := by omega
    conv_lhs => rw [h18, Nat.pow_add, ← Nat.mul_assoc]
    exact Nat.mul_div_cancel _ (by positivity)
  rw [hdiv]
  congr 1
  by_cases hn : n < 0
  · have hneg : n = -((n.natAbs : ℕ) : Int) := by omega
    rw [if_pos hn]
    conv_rhs => rw [hneg]
    push_cast; ring
  · have hpos : n = ((n.natAbs : ℕ) : Int) := by omega
    rw [if_neg hn]
    conv_rhs => rw [hpos]
    push_cast; ring

example : formatRocket 1234567 6 = .ok 1234567000000000000 := by decide +kernel

/-- Token → ledger → token returns the token amount for every `d ≤ 18`. -/
theorem rocket_then_erc20 (m : Int) (d : Nat) (hd : d ≤ 18) (h : m.natAbs * 10 ^ (18 - d) < 2 ^ 510) :
    formatRocket m d = .ok (m * 10 ^ (18 - d)) ∧ formatERC20 (m * 10 ^ (18 - d)) d = .ok m := by
  refine ⟨rocket_scale m d hd h, ?_⟩
  have habs : (m * 10 ^ (18 - d)).natAbs = m.natAbs * 10 ^ (18 - d) := by
    rw [Int.natAbs_mul, Int.natAbs_pow]; rfl
  rw [erc20_floor _ d hd (by rw [habs]; exact h)]
  congr 1
  exact Int.mul_tdiv_cancel _ (by positivity)

example : (1234567 : Int).natAbs * 10 ^ (18 - 6) < 2 ^ 510 := by decide +kernel

/-! ## token balances bound to an ERC-20 contract (accountdb_tuntun.go) -/

/-- **At 18 decimals every balance operation is exact**: `SetFT` stores `n`, `GetFT`
    returns what is stored, `AddFT` adds, `SubFT` subtracts (or refuses and reports the
    balance) — no re-scaling loss anywhere (`0 ≤ n`, values below `2^510`). -/
theorem ft_18_exact (bal : Nat) (n : Int) (hn : 0 ≤ n) (hb : bal < 2 ^ 509) (hn2 : n.natAbs < 2 ^ 509) :
    ftSet 18 n = some n.natAbs ∧
    ftGet 18 bal = .ok (bal : Int) ∧
    ftAdd 18 bal n = some (bal + n.natAbs) ∧
    ftSub 18 bal n = some (if (bal : Int) < n then (false, bal, .ok (bal : Int))
                           else (true, bal - n.natAbs, .ok ((bal : Int) - n))) := by
  have h510 : (2 : ℕ) ^ 509 < 2 ^ 510 := Nat.pow_lt_pow_right (by norm_num) (by norm_num)
  have he := erc20_18_id n (by omega)
  have hnn : (n.natAbs : Int) = n := by omega
  refine ⟨?_, ?_, ?_, ?_⟩
  · unfold ftSet; rw [he]
  · unfold ftGet; exact rocket_18_id bal (by simp; omega)
  · unfold ftAdd; rw [he]; simp only [Option.some.injEq]; omega
  · unfold ftSub; rw [he]
    by_cases hlt : (bal : Int) < n
    · simp [hlt]
    · simp only [hlt, if_false, Option.some.injEq, Prod.mk.injEq, true_and]
      have hr : ((bal : Int) - n).natAbs < 2 ^ 510 := by omega
      exact ⟨by omega, rocket_18_id _ hr⟩

example : ftSet 18 5 = some 5 ∧ ftGet 18 5 = .ok 5 ∧ ftAdd 18 5 7 = some 12 ∧
    ftSub 18 12 7 = some (true, 5, .ok 5) ∧ ftSub 18 5 7 = some (false, 5, .ok 5) := by decide +kernel

/-- With `d ≤ 18` token decimals a balance written and read back comes back rounded
    down to the token's granularity `10^(18-d)` — and never larger than what was written. -/
theorem ft_set_get (n : Int) (d : Nat) (hn : 0 ≤ n) (hd : d ≤ 18) (h : n.natAbs < 2 ^ 510) :
    ∃ b, ftSet d n = some b ∧ ftGet d b = .ok (n / 10 ^ (18 - d) * 10 ^ (18 - d)) := by
  have he := erc20_floor n d hd h
  have hK : (0 : Int) < 10 ^ (18 - d) := by positivity
  have htd : n.tdiv (10 ^ (18 - d)) = n / 10 ^ (18 - d) := Int.tdiv_eq_ediv_of_nonneg hn
  have hq0 : 0 ≤ n / 10 ^ (18 - d) := Int.ediv_nonneg hn (le_of_lt hK)
  refine ⟨(n / 10 ^ (18 - d)).natAbs, ?_, ?_⟩
  · unfold ftSet; rw [he, htd]
  · unfold ftGet
    have hcast : (((n / 10 ^ (18 - d)).natAbs : ℕ) : Int) = n / 10 ^ (18 - d) := by omega
    rw [hcast]
    apply rocket_scale _ d hd
    -- (n / K) * K ≤ n < 2^510
    have hle : n / 10 ^ (18 - d) * 10 ^ (18 - d) ≤ n := Int.ediv_mul_le n (ne_of_gt hK)
    have hKn : ((10 ^ (18 - d) : ℕ) : Int) = (10 : Int) ^ (18 - d) := by push_cast; rfl
    have : (((n / 10 ^ (18 - d)).natAbs * 10 ^ (18 - d) : ℕ) : Int) ≤ n := by
      rw [Nat.cast_mul, hcast, hKn]; exact hle
    omega

example : ∃ b, ftSet 6 1234567890123456789012 = some b ∧ ftGet 6 b = .ok 1234567890000000000000 :=
  ⟨1234567890, by decide +kernel⟩

/-! ## the wrapped Ethereum transaction value path -/

/-- **evm_value_unchanged.** `ConvertTx` (→ `BigIntToStr`) followed by
    `decodeContractData` (→ `StrToBigInt`) is the identity on `[0, 2^256)`. -/
theorem evm_value_unchanged (v : Int) (h0 : 0 ≤ v) (h1 : v < 2 ^ 256) : evmValue v = .ok v := by
  unfold evmValue
  exact roundtrip_word v (by have : (0 : Int) < 2 ^ 256 := by positivity
                             omega) h1

example : evmValue 115792089237316195423570985008687907853269984665640564039457584007913129639935
    = .ok 115792089237316195423570985008687907853269984665640564039457584007913129639935 := by decide +kernel

/-! ## totality -/

/-- **No `ErrNaN` panic.** For every input string and every decimal count
    `strToBigInt` returns a value or an error; the 0·Inf / 0/0 / Inf/Inf panics of
    `big.Float.Mul`/`Quo` are unreachable (`pow5` is never zero, the parsed float is
    never NaN, the scale factor is finite). -/
theorem strToBigInt_never_panics (s : Str) (d : Int) : strToBigInt s d ≠ .panic :=
  strToBigInt_ne_panic s d

example : strToBigInt "1e1000000000".toList 18 = .ok 0 ∧ strToBigInt "1e-1000000000".toList 18 = .ok 0 := by
  decide +kernel

/-- `pow5 n = 5^n` exactly for `n ≤ 248` (table, then a loop that never rounds). -/
theorem pow5_exact_to_248 : ∀ n < 249, pow5 n = BF.fin false (5 ^ n) 0 := pow5_exact

/-- `pow5` (the only place an infinity can arise next to the parsed mantissa) is
    always a positive finite float or `+Inf`. -/
theorem pow5_positive_or_inf (n : Nat) : posOrInf (pow5 n) := pow5_posOrInf n

/-- The formatter's output always parses: `FormatDecimalForERC20` /
    `FormatDecimalForRocket` never return the nil pointer their callers would
    dereference (`.Bytes()`, `Add`), whatever the decimal count (size caveat: the
    exponent range of `big.Float`, i.e. fewer than 10^6 bits / digits). -/
theorem format_never_nil (n : Int) (d : Int) (h : n.natAbs < 2 ^ 1000000) (hd : d ≤ 1000000) :
    (∃ v, formatERC20 n d = .ok v) ∧ (∃ v, formatRocket n d = .ok v) := by
  have hbits : bitLen n.natAbs ≤ 1000000 := bitLen_le_of_lt h
  have key : ∀ (p : Nat) (dd : Int), p ≤ 1000000 → ∃ v, strToBigInt (bigIntToStr n (p : Int)) dd = .ok v := by
    intro p dd hp
    obtain ⟨first, last, hs, hd1, hd2, hlen, hne, hdot, hval⟩ := bigIntToStr_shape n p
    have hne' : first ++ last ≠ [] := by intro h; exact hne (List.append_eq_nil_iff.mp h).1
    have hsne : signStr (if n < 0 then some true else none) ++ plainBody first last (p != 0) ≠ [] := by
      intro h
      exact plainBody_ne_nil first last _ hne' hdot (List.append_eq_nil_iff.mp h).2
    have hpf : ∃ t, parseFloat (bigIntToStr n (p : Int)) = some t := by
      rw [hs, parseFloat_eq_scanFloat _ (plain_no_f _ first last _ hd1 hd2),
        scanFloat_plain _ first last _ hd1 hd2 hdot hne' (by omega) (by rw [hval]; exact hbits)]
      split <;> exact ⟨_, rfl⟩
    obtain ⟨t, ht⟩ := hpf
    have hnp := strToBigInt_ne_panic (bigIntToStr n (p : Int)) dd
    unfold strToBigInt at hnp ⊢
    rw [hs] at hnp ht ⊢
    rw [if_neg hsne, ht] at hnp ⊢
    dsimp only at hnp ⊢
    cases hm : mul .away prec t (baseFloat dd) with
    | nan => rw [hm] at hnp; simp at hnp
    | zero b => exact ⟨_, rfl⟩
    | inf b => exact ⟨_, rfl⟩
    | fin b m e => exact ⟨_, rfl⟩
  constructor
  · unfold formatERC20
    by_cases h0 : n = 0
    · exact ⟨0, by simp [h0]⟩
    · rw [if_neg h0]; unfold BigIntToStr; rw [if_neg h0]
      exact key 18 d (by norm_num)
  · unfold formatRocket
    by_cases h0 : n = 0
    · exact ⟨0, by simp [h0]⟩
    · rw [if_neg h0]
      unfold StrToBigInt
      by_cases hneg : d < 0
      · refine ⟨0, ?_⟩
        unfold bigIntToStr
        rw [if_pos hneg]
        decide +kernel
      · obtain ⟨p, rfl⟩ := Int.eq_ofNat_of_zero_le (by omega : 0 ≤ d)
        exact key p 18 (by omega)

example : formatRocket 5 40 = .ok 0 ∧ formatERC20 5 (-3) = .ok 0 := by decide +kernel

/-! ## what is accepted beyond decimal strings (leads of DESIGN 6, not part of C18) -/

/-- `big.ParseFloat` accepts more than decimal strings, and so does `StrToBigInt`:
    `Inf` (any sign) silently becomes 0, `e`/`p` exponent forms are amounts. Model and code
    agree on these (corpus `edge.ops`); C18 speaks of decimal strings only, so this is
    recorded for the properties about amount validation (C06/C07), not claimed as a defect here. -/
theorem nondecimal_inputs_accepted :
    StrToBigInt "Inf".toList = .ok 0 ∧ StrToBigInt "-inf".toList = .ok 0 ∧
    StrToBigInt "1e30".toList = .ok (10 ^ 48) ∧ StrToBigInt "1p3".toList = .ok (8 * 10 ^ 18) ∧
    StrToBigInt "1e-30".toList = .ok 0 ∧ StrToBigInt "0x10".toList = .err ∧
    StrToBigInt "1_000".toList = .err := by decide +kernel

/-! ## the bound is real -/

/-- The round trip without a size bound (what one would like to write). -/
def FullStatementFormatParseUnbounded : Prop :=
  ∀ n : Int, strToBigInt (bigIntToStr n 18) 18 = .ok n

/-- `format_parse_id` is the proved restriction (`|n| < 2^510`, far beyond every
    balance and EVM word) of `FullStatementFormatParseUnbounded`. -/
theorem format_parse_id_partial (n : Int) (h : n.natAbs < 2 ^ 510) :
    strToBigInt (bigIntToStr n 18) 18 = .ok n := format_parse_id n h

/-- Beyond 512 significant bits the float rounds: `2^513 + 1` does not survive. -/
theorem format_parse_id_unbounded_counterexample : ¬ FullStatementFormatParseUnbounded := by
  intro h
  have := h (2 ^ 513 + 1)
  revert this
  decide +kernel

end Rangers.Props.C18
