import Rangers.Props.C17
import Rangers.Model.PoolChain
/-!
# C17, part F — the chain's side of the contract is a theorem, not a hypothesis

`Props/C17.at_most_once` is about histories that obey `HOp.WF` (receipts belong to the block, a marked block
carries nothing already executed on the chain, only the top block is removed). Here the histories are *produced* by
the model of `AddBlockOnChain` (`Model/PoolChain.lean`, tied to `core.blockChain` by the `chain-reorg` stream: result
code of every delivery and the pool's content afterwards): for **arbitrary** delivered blocks — any parent, weight,
prove value, transactions, skip and evicted lists — every pool call the chain makes is well-formed, so
at-most-once holds for chain-driven histories without any assumption on the blocks.
-/
namespace Rangers.Props.C17F
open Rangers Rangers.Pool Rangers.Pool.Chain Rangers.Props.C17

/-- what the pool is told about a block -/
def toBlock (b : CBlock) : Block := ⟨b.receipts, b.txs, b.evicted⟩

def blocksOf (ch : List CBlock) : List Block := ch.map toBlock

/-- Every receipt `saveStates` hands over belongs to a transaction of the block (`VMExecutor.Execute` appends
transaction and receipt together). -/
theorem receipts_covered (b : CBlock) : Covered b.receipts b.txs := by
  intro h hh
  simp only [CBlock.receipts, List.mem_filter, List.mem_map] at hh
  obtain ⟨⟨t, ht, e⟩, _⟩ := hh
  exact ⟨t, ht, e⟩

theorem executedOn_suffix {a b : List Block} (h : a <:+ b) : ∀ x, x ∈ executedOn a → x ∈ executedOn b := by
  obtain ⟨pre, rfl⟩ := h
  induction pre with
  | nil => intro x hx; exact hx
  | cons p ps ih =>
    intro x hx
    simp only [List.cons_append, executedOn, List.mem_append]
    exact Or.inr (ih x hx)

/-- `removeFromCommonAncestor`: each removal is a removal of the top block; what is left is a suffix of the chain. -/
theorem removeTo_reach (limit : Nat) (anc : Nat) : ∀ (ch : List CBlock) (p : Pool),
    Reach limit p (blocksOf ch) →
    Reach limit (removeTo anc ch p).2 (blocksOf (removeTo anc ch p).1) ∧ (removeTo anc ch p).1 <:+ ch
  | [], p, h => ⟨h, List.suffix_refl _⟩
  | b :: rest, p, h => by
    unfold removeTo
    split
    · exact ⟨h, List.suffix_refl _⟩
    · have h1 : Reach limit (p.unmarkE b.txs b.evicted) (blocksOf rest) := by
        have := Reach.step (limit := limit) HOp.remove h trivial
        simpa [hstep, blocksOf, toBlock] using this
      obtain ⟨h2, h3⟩ := removeTo_reach limit anc rest _ h1
      exact ⟨h2, h3.trans (List.suffix_cons b rest)⟩

theorem fresh_spec {p : Pool} {b : CBlock} (h : fresh p b = true) : ∀ t ∈ b.txs, t.hash ∉ p.execHashes := by
  intro t ht hm
  simp only [fresh, List.all_eq_true] at h
  have := h t ht
  simp [isExecuted_iff.mpr hm] at this

/-- inserting a block the proposal-008 test let through, on a chain that is a suffix of the one it was tested
against, is a well-formed `mark` -/
theorem insert_reach (limit : Nat) (st : CSt) (b : CBlock) (p0 : Pool) (ch0 : List CBlock)
    (h0 : Reach limit p0 (blocksOf ch0)) (hf : fresh p0 b = true)
    (hs : Reach limit st.pool (blocksOf st.chain)) (hsuf : st.chain <:+ ch0) :
    Reach limit (Chain.insert st b).pool (blocksOf (Chain.insert st b).chain) := by
  obtain ⟨_, hx, _⟩ := history_refines limit p0 (blocksOf ch0) h0
  have hfresh : ∀ t ∈ b.txs, t.hash ∉ executedOn (blocksOf st.chain) := by
    intro t ht hm
    have hsuf' : blocksOf st.chain <:+ blocksOf ch0 := by
      obtain ⟨pre, e⟩ := hsuf
      exact ⟨blocksOf pre, by rw [← e]; simp [blocksOf]⟩
    exact fresh_spec hf t ht ((hx _).mpr (executedOn_suffix hsuf' _ hm))
  have := Reach.step (limit := limit) (HOp.mark (toBlock b)) hs ⟨receipts_covered b, hfresh⟩
  simpa [hstep, Chain.insert, blocksOf, toBlock] using this

/-- **Every pool call `AddBlockOnChain` makes is well-formed**: a reachable (pool, chain) pair stays reachable,
whatever block is delivered. -/
theorem addBlock_reach (limit : Nat) (st : CSt) (b : CBlock) (h : Reach limit st.pool (blocksOf st.chain)) :
    Reach limit (addBlock st b).1.pool (blocksOf (addBlock st b).1.chain) := by
  obtain ⟨pool, chain, future⟩ := st
  simp only at h
  unfold addBlock
  simp only
  split
  · exact h
  · split
    · exact h
    · cases chain with
      | nil => exact h
      | cons top rest =>
        simp only
        by_cases hf : fresh pool b = true
        · simp only [hf, Bool.not_true, Bool.false_eq_true, if_false]
          have reorgOk : Reach limit
              (Chain.insert { pool := (removeTo b.pre (top :: rest) pool).2, chain := (removeTo b.pre (top :: rest) pool).1, future := future } b).pool
              (blocksOf (Chain.insert { pool := (removeTo b.pre (top :: rest) pool).2, chain := (removeTo b.pre (top :: rest) pool).1, future := future } b).chain) := by
            obtain ⟨h2, h3⟩ := removeTo_reach limit b.pre (top :: rest) pool h
            exact insert_reach limit _ b pool (top :: rest) h hf h2 h3
          split
          · exact insert_reach limit ⟨pool, top :: rest, future⟩ b pool (top :: rest) h hf h (List.suffix_refl _)
          · split
            · exact h
            · split
              · exact reorgOk
              · split
                · exact h
                · split
                  · exact h
                  · exact reorgOk
        · simp only [hf, Bool.not_false, if_true]
          exact h

/-- What the node's goroutines do to the pool between blocks. -/
inductive Event where
  | deliver (b : CBlock)   -- AddBlockOnChain
  | submit (t : Tx)        -- AddTransaction
  | tick                   -- ring timer

def run (st : CSt) : Event → CSt
  | .deliver b => (addBlock st b).1
  | .submit t => { st with pool := (st.pool.addTransaction t).1 }
  | .tick => { st with pool := st.pool.expire }

/-- the node after start-up: empty pool, genesis block -/
def boot (limit : Nat) (genesis : Nat) : CSt := { pool := Pool.empty limit, chain := [⟨genesis, 0, 0, 0, 0, [], [], []⟩] }

theorem boot_reach (limit genesis : Nat) : Reach limit (boot limit genesis).pool (blocksOf (boot limit genesis).chain) := by
  have := Reach.step (limit := limit) (HOp.mark ⟨[], [], []⟩) Reach.init (by simp [HOp.WF, Covered])
  simpa [hstep, boot, blocksOf, toBlock, CBlock.receipts, Pool.markExecuted, Pool.markExecutedZ, Pool.evictAll, Pool.removeHashes,
    Pool.empty] using this

theorem run_reach (limit : Nat) (st : CSt) (e : Event) (h : Reach limit st.pool (blocksOf st.chain)) :
    Reach limit (run st e).pool (blocksOf (run st e).chain) := by
  cases e with
  | deliver b => exact addBlock_reach limit st b h
  | submit t => have := Reach.step (limit := limit) (HOp.add t) h trivial; simpa [hstep, run] using this
  | tick => have := Reach.step (limit := limit) HOp.expire h trivial; simpa [hstep, run] using this

/-- **At most once, with the chain in the loop.** From start-up, after any sequence of block deliveries (blocks
of any shape: forks, duplicates, orphans, blocks carrying executed transactions, lying evicted lists),
submissions and timer ticks: a transaction executed in a block of the canonical chain is refused by
`AddTransaction` and is in no batch `PackForCast` returns. No hypothesis about the histories is left. -/
theorem chain_at_most_once (limit genesis : Nat) (events : List Event) (k : Nat)
    (hk : k ∈ executedOn (blocksOf (events.foldl run (boot limit genesis)).chain)) :
    (∀ t : Tx, t.hash = k → (events.foldl run (boot limit genesis)).pool.addTransaction t =
        ((events.foldl run (boot limit genesis)).pool, .exist)) ∧
    (∀ (c : Cfg) (σ : Nat → Nat) (l : List Tx), (events.foldl run (boot limit genesis)).pool.pack c σ = some l →
        ∀ t ∈ l, t.hash ≠ k) := by
  have hr : ∀ (evs : List Event) (st : CSt), Reach limit st.pool (blocksOf st.chain) →
      Reach limit (evs.foldl run st).pool (blocksOf (evs.foldl run st).chain) := by
    intro evs
    induction evs with
    | nil => intro st h; exact h
    | cons e es ih => intro st h; simp only [List.foldl_cons]; exact ih _ (run_reach limit st e h)
  exact at_most_once limit _ _ (hr events _ (boot_reach limit genesis)) k hk

/-- A delivery that does not end with `AddBlockSucc` leaves pool and chain untouched (only a parked orphan is noted). -/
theorem addBlock_rejected_noop (st : CSt) (b : CBlock) (h : (addBlock st b).2 ≠ .succ) :
    (addBlock st b).1.pool = st.pool ∧ (addBlock st b).1.chain = st.chain := by
  obtain ⟨pool, chain, future⟩ := st
  unfold addBlock at h ⊢
  simp only at h ⊢
  split
  · exact ⟨rfl, rfl⟩
  · split
    · exact ⟨rfl, rfl⟩
    · cases chain with
      | nil => exact ⟨rfl, rfl⟩
      | cons top rest =>
        simp only at h ⊢
        repeat' split
        all_goals first | exact ⟨rfl, rfl⟩ | (exfalso; simp_all)

/-- **What this node casts, its own chain accepts.** `CastBlock` builds its block from `PackForCast` (then keeps the
executed subset): whatever subset and order execution keeps, the block passes the proposal-008 test of `verifyBlock`
on the state it was packed from — a caster never proposes a transaction that is executed on its chain. -/
theorem cast_block_fresh (c : Cfg) (σ : Nat → Nat) (s : Pool) (l kept : List Tx) (hi : Inv s)
    (hp : s.pack c σ = some l) (hk : ∀ t ∈ kept, t ∈ l) (id pre h qn pv : Nat) (skip ev : List Nat) :
    fresh s ⟨id, pre, h, qn, pv, kept, skip, ev⟩ = true := by
  simp only [fresh, List.all_eq_true, Bool.not_eq_true']
  intro t ht
  exact pack_disjoint_executed c σ s l hi hp t (hk t ht)

example : fresh sA ⟨7, 0, 1, 1, 1, [tA], [], []⟩ = true := by decide

def gB : CBlock := ⟨100, 0, 0, 0, 0, [], [], []⟩
def b1 : CBlock := ⟨101, 100, 1, 1, 5, [tA], [], []⟩
def b2 : CBlock := ⟨102, 100, 1, 9, 5, [], [], []⟩

/-- non-vacuity: a block with a transaction goes on the chain, a heavier empty fork removes it again, and a fork
block that still carries the executed transaction is refused -/
example : ((addBlock ⟨Pool.empty 5, [gB], []⟩ b1).2 = .succ) ∧
    ((addBlock (addBlock ⟨Pool.empty 5, [gB], []⟩ b1).1 b2).2 = .succ) ∧
    ((addBlock (addBlock ⟨Pool.empty 5, [gB], []⟩ b1).1 b2).1.pool.contains 11 = true) ∧
    ((addBlock (addBlock ⟨Pool.empty 5, [gB], []⟩ b1).1 ⟨103, 100, 1, 9, 5, [tA], [], []⟩).2 = .failed) := by decide

end Rangers.Props.C17F
