import Rangers.Proofs.TrieDBInv
import Rangers.Proofs.TrieDBExample
/-!
# C03 — a committed state root is durable, complete and never invalidates older roots

Theorems about `Rangers.Model.TrieDB` (the model the driver `drv_c03` executes).
Predicates (`Closed`, `AllRes`, `Resolvable`, `CacheInv`, `Consistent`, `Extends`,
`Inv`, `StoreOk`, `Reach`) are defined in `Rangers/Proofs/TrieDB*.lean`.
`emptyData`/`emptyCode` are parameters: every theorem holds for all values.
-/
namespace Rangers.Props.C03
open Rangers.Model.TrieDB Rangers.Generated

/-! ## crash points: every prefix of the write sequence -/

/-- DESIGN `commit_prefix_closed`.  Whatever order Go's map iteration gives the
    external children (`c` is arbitrary), after **every** prefix of the Put
    sequence of `commit(root)` the disk is closed.  Node-granularity prefixes
    subsume every way of splitting the sequence into batches. -/
theorem commit_prefix_closed (c : Cache) (d : Disk) (f : Nat) (root : Hash) (ws : List Hash)
    (hcl : Closed d) (hci : CacheInv c d) (hw : walk c f root = some ws) :
    ∀ p, p <+: ws → Closed (applyWrites c d p) := by
  have g := walk_good c d hci f root ws hw
  exact writes_closed ws [] d hcl (fun _ h => h) (by simp) g.cached (g.post [])

/-- the same at full strength: every hash present on disk is fully resolvable
    after every prefix ("every root whose top node is present on disk is fully
    resolvable", at any point of a commit). -/
theorem commit_prefix_resolvable (c : Cache) (d : Disk) (f : Nat) (root : Hash) (ws : List Hash)
    (ha : AllRes d) (hci : CacheInv c d) (hcs : Consistent c d) (hw : walk c f root = some ws) :
    ∀ p, p <+: ws → AllRes (applyWrites c d p) :=
  fun _ hp => (commit_prefix_facts ha hci hcs hw hp).1

/-- Go randomises map iteration per `range` statement: a node the walk reaches
    twice may be walked in two different child orders within one commit.
    `WalksN c f root ws` admits an order of its own for **every visit**; the
    executable `walk` is one instance (`walk_is_a_visit_order`).  The crash-point
    guarantees hold for all of them. -/
theorem any_visit_order_prefix_closed (c : Cache) (d : Disk) (f : Nat) (root : Hash) (ws : List Hash)
    (hcl : Closed d) (hci : CacheInv c d) (hw : WalksN c f root ws) :
    ∀ p, p <+: ws → Closed (applyWrites c d p) := by
  have g := walksN_good c d hci f root ws hw
  exact writes_closed ws [] d hcl (fun _ h => h) (by simp) g.cached (g.post [])

theorem any_visit_order_prefix_resolvable (c : Cache) (d : Disk) (f : Nat) (root : Hash) (ws : List Hash)
    (ha : AllRes d) (hci : CacheInv c d) (hcs : Consistent c d) (hw : WalksN c f root ws) :
    ∀ p, p <+: ws → AllRes (applyWrites c d p) ∧ Extends d (applyWrites c d p) := by
  have g := walksN_good c d hci f root ws hw
  intro p hp
  exact ⟨writes_allRes ws [] d ha hcs (fun _ h => h) (by simp) g.cached (g.post []) p hp,
    (writes_extends p d hcs).1⟩

theorem walk_is_a_visit_order (c : Cache) (f : Nat) (h : Hash) (ws : List Hash)
    (hw : walk c f h = some ws) : WalksN c f h ws := walk_walksN c f h ws hw

/-- what the driver executes: `walkO`/`commitV` take the order the runtime picked at
    **every visit** (found from the observed Put sequence); whatever those orders are,
    the sequence is a `WalksN` one, so all crash-point theorems apply to it … -/
theorem walkO_is_a_visit_order (c : Cache) (f : Nat) (h : Hash) (ords : Ords) (ws : List Hash) (rest : Ords)
    (hw : walkO c f h ords = some (ws, rest)) : WalksN c f h ws := walkO_walksN c f h ords ws rest hw

/-- … and `commitV` (complete, or refused at any physical write) preserves the invariant
    and only extends the disk, for every choice of per-visit orders. -/
theorem commitV_preserves_invariant (s : St) (root : Hash) (failAt : Option Nat) (fuel : Nat) (ords : Ords)
    (out : CommitOut) (hi : Inv s) (hc : commitV s root failAt fuel ords = some out) :
    Inv out.st ∧ Extends s.disk out.st.disk :=
  ⟨commitV_inv hi hc, commitV_extends hi.consistent hc⟩

/-- `commit` is `commitWith` after the stored-order walk: the two commits differ only in the walk -/
theorem commit_is_commitWith_after_walk (s : St) (root : Hash) (failAt : Option Nat) (fuel : Nat) :
    commit s root failAt fuel = (walk s.cache fuel root).map (commitWith s failAt) :=
  commit_eq_commitWith s root failAt fuel

/-- the physical batches are exactly the Put sequence cut into pieces (nothing
    lost, nothing reordered), the last piece being the final `batch.Write()`. -/
theorem batches_cover_writes (c : Cache) (ws : List Hash) :
    (splitBatches c ws [] 0).flatten = ws := by
  rw [splitBatches_flatten]; simp

/-- the Put/flush loop of `commit` written against the batch object (`BatchSt`: `Put` adds
    `len(value)` to the size, `ValueSize`, `Reset`, final `Write`) issues exactly the physical
    writes `splitBatches` describes — the flush rule of the model *is* the Go loop. -/
theorem commit_loop_is_splitBatches (c : Cache) (ws : List Hash) :
    commitLoop c ws ⟨[], 0⟩ [] = splitBatches c ws [] 0 := by
  rw [commitLoop_eq]; simp

/-- crash after any number `j` of physical batch writes of a commit, however
    the flush rule split it ("including commits large enough to be split over
    several batches"): every stored hash is fully resolvable. -/
theorem crash_point_resolvable (c : Cache) (d : Disk) (f : Nat) (root : Hash) (ws : List Hash)
    (ha : AllRes d) (hci : CacheInv c d) (hcs : Consistent c d) (hw : walk c f root = some ws) (j : Nat) :
    AllRes (applyBatches c d ((splitBatches c ws [] 0).take j)) := by
  rw [applyBatches_eq]
  have hp : ((splitBatches c ws [] 0).take j).flatten <+: ws := by
    have := take_flatten_prefix (splitBatches c ws [] 0) j
    rwa [batches_cover_writes] at this
  exact commit_prefix_resolvable c d f root ws ha hci hcs hw _ hp

/-! ## the state machine: every history, every crash point -/

/-- The invariant holds in every state reachable from the empty store by
    stores (respecting `StoreOk`), references, map re-orderings, commits that
    succeed or are refused at **any** physical write, and process deaths. -/
theorem reachable_invariant (eD eC : Hash) (s : St) (h : Reach eD eC s) : Inv s := reach_inv h

/-- The same with the assumption `StoreOk` replaced by what the driver verifies on
    every run: a run in which every `ins`/`insl` was answered `ok` (the model's
    `storeCheck` passed; `ok!pre` would be a diff against the implementation) or
    `dup` passes only through states satisfying the invariant.  What the callers of
    `hasher.store` guarantee is thus observed on each execution, not assumed. -/
theorem checked_run_invariant (eD eC : Hash) (s : St) (h : ReachChecked eD eC s) : Inv s := reachChecked_inv h

/-- … hence in such a run every hash present on disk resolves, at every point -/
theorem checked_run_top_present_resolvable (eD eC : Hash) (s : St) (hr : ReachChecked eD eC s) (h : Hash)
    (hh : Has s.disk h) : Resolvable s.disk h := (reachChecked_inv hr).allRes h hh

/-- DESIGN `top_present_resolvable`, for every history and crash point: a hash
    whose top node is on disk is fully resolvable from the disk alone. -/
theorem top_present_resolvable (eD eC : Hash) (s : St) (hr : Reach eD eC s) (h : Hash)
    (hh : Has s.disk h) : Resolvable s.disk h := (reach_inv hr).allRes h hh

/-- DESIGN's literal statement needs acyclicity (a hash-addressed store is
    acyclic unless Keccak has a cycle): closed + ranked ⇒ present roots resolve. -/
theorem closed_acyclic_resolvable (d : Disk) (hcl : Closed d) (hr : Ranked d) (h : Hash) (hh : Has d h) :
    Resolvable d h := closed_ranked_resolvable hcl hr h hh

/-- without acyclicity closedness alone is not enough: the one-node cycle. -/
theorem closed_alone_insufficient :
    ∃ d : Disk, Closed d ∧ Has d 1 ∧ ¬ Resolvable d 1 := by
  refine ⟨[(1, ⟨1, 0, [1]⟩)], ?_, by decide, ?_⟩
  · intro h n hn r hr
    rw [lookup_cons_eq] at hn
    by_cases hk : h = 1
    · subst hk; simp at hn; subst hn; simp at hr; subst hr; decide
    · simp [hk] at hn
  · intro hres
    have key : ∀ k, Resolvable [(1, (⟨1, 0, [1]⟩ : DNode))] k → k ≠ 1 := by
      intro k hk
      induction hk with
      | node h n hl _ ih =>
        intro he
        subst he
        rw [lookup_cons_eq] at hl
        simp at hl
        subst hl
        exact ih 1 (by simp) rfl
    exact key 1 hres rfl

/-- DESIGN `older_roots_survive`: no operation removes or changes anything on
    disk; a root resolvable before any step is resolvable after it. -/
theorem older_roots_survive (eD eC : Hash) (s s' : St) (op : Op) (hr : Reach eD eC s)
    (hs : step eD eC s op = some s') (r : Hash) (hres : Resolvable s.disk r) :
    Extends s.disk s'.disk ∧ Resolvable s'.disk r := by
  have he := step_extends (reach_inv hr) hs
  exact ⟨he, resolvable_extends he hres⟩

/-- … and reads below it return the same content (same tree of blob tags). -/
theorem older_roots_same_content (d d' : Disk) (he : Extends d d') (f : Nat) (r : Hash) (v : Nat × Nat)
    (hv : view (diskGet d) f r = some v) : view (diskGet d') f r = some v := by
  refine view_transfer (diskGet d) (diskGet d') (fun _ => True) ?_ f r v trivial hv
  intro h _ n hn
  exact ⟨he h n hn, fun _ _ => trivial⟩

/-- the same for an arbitrary Put sequence, e.g. the part of a commit that
    reached the disk before a crash: older roots are untouched. -/
theorem older_roots_survive_writes (c : Cache) (d : Disk) (hcs : Consistent c d) (ws : List Hash) (r : Hash)
    (hres : Resolvable d r) : Resolvable (applyWrites c d ws) r :=
  resolvable_extends (writes_extends ws d hcs).1 hres

/-- The second sentence of the property, spelled out: the process dies after
    `k` physical writes of a commit (any `k`, any reachable state, any root).
    In the restarted process (empty caches) every hash present on disk is fully
    resolvable, and every root resolvable before the commit began still is,
    with the disk only extended. -/
theorem crash_during_commit (eD eC : Hash) (s s1 s2 : St) (hr : Reach eD eC s) (root : Hash) (k : Nat)
    (h1 : step eD eC s (.commit root (some k)) = some s1) (h2 : step eD eC s1 .die = some s2) :
    s2.cache = [] ∧ (∀ h, Has s2.disk h → Resolvable s2.disk h) ∧
    (∀ r, Resolvable s.disk r → Resolvable s2.disk r) ∧ Extends s.disk s2.disk := by
  have r1 : Reach eD eC s1 := Reach.step (.commit root (some k)) hr trivial h1
  have r2 : Reach eD eC s2 := Reach.step .die r1 trivial h2
  have e1 := step_extends (reach_inv hr) h1
  have e2 := step_extends (reach_inv r1) h2
  refine ⟨?_, (reach_inv r2).allRes, fun r hres => resolvable_extends (extends_trans e1 e2) hres, extends_trans e1 e2⟩
  simp only [step, Option.some.injEq] at h2
  subst h2; rfl

/-- a commit (successful or refused at any write) never changes what the live
    node database answers for a hash: nothing is dropped from the cache before
    it is on disk. -/
theorem live_reads_stable_across_commit (s : St) (root : Hash) (failAt : Option Nat) (fuel : Nat)
    (out : CommitOut) (hi : Inv s) (hc : commit s root failAt fuel = some out) (h : Hash) (n : DNode)
    (hn : liveLookup s h = some n) : liveLookup out.st h = some n :=
  commit_live_stable hi hc h n hn

/-- the fuel of the walk only decides termination, never the result. -/
theorem walk_fuel_irrelevant (c : Cache) (f k : Nat) (h : Hash) (ws : List Hash)
    (hw : walk c f h = some ws) : walk c (f + k) h = some ws := by
  induction k with
  | zero => exact hw
  | succ k ih => exact walk_fuel_mono c (f + k) h ws ih

/-! ## complete: what was readable before the commit is readable from disk alone -/

/-- DESIGN `commit_complete`: after a commit that reported success the root
    (if it was readable at all) is fully resolvable from the disk alone, and a
    reader sees below it exactly the tree (blob by blob) it saw before the
    commit through cache-then-disk. -/
theorem commit_complete (s : St) (root : Hash) (fuel : Nat) (out : CommitOut) (hi : Inv s)
    (hc : commit s root none fuel = some out) (hroot : (liveLookup s root).isSome = true) :
    out.ok = true ∧ Resolvable out.st.disk root ∧
    ∀ f v, view (liveLookup s) f root = some v → view (diskGet out.st.disk) f root = some v := by
  have hinv' := commit_inv hi hc
  unfold commit at hc
  cases hw : walk s.cache fuel root with
  | none => simp [hw] at hc
  | some ws =>
    simp only [hw, Option.some.injEq] at hc
    subst hc
    have g := walk_good s.cache s.disk hi.cacheInv fuel root ws hw
    have hd : applyBatches s.cache s.disk (splitBatches s.cache ws [] 0) = applyWrites s.cache s.disk ws := by
      rw [applyBatches_eq, batches_cover_writes]
    have hG : root ∈ ws ∨ Has s.disk root := by
      unfold liveLookup at hroot
      cases hcr : s.cache.lookup root with
      | some n => exact Or.inl (g.top (has_of_lookup hcr))
      | none => simp only [hcr] at hroot; exact Or.inr hroot
    refine ⟨rfl, ?_, ?_⟩
    · apply hinv'.allRes
      simp only
      rw [hd]
      rcases hG with h | h
      · obtain ⟨n, hn⟩ := lookup_of_has (g.cached root h)
        exact has_of_lookup (writes_lookup hn ws s.disk (Or.inl h))
      · exact extends_has (writes_extends ws s.disk hi.consistent).1 h
    · intro f v hv
      simp only
      rw [hd]
      exact commit_view hi hw f root v hG hv

/-- "uncache only after the final batch write succeeded": a commit whose k-th
    physical write is refused leaves the memory cache exactly as it was. -/
theorem failed_commit_keeps_cache (s : St) (root : Hash) (k fuel : Nat) (out : CommitOut)
    (hc : commit s root (some k) fuel = some out) (hfail : out.ok = false) : out.st.cache = s.cache := by
  unfold commit at hc
  cases hw : walk s.cache fuel root with
  | none => simp [hw] at hc
  | some ws =>
    simp only [hw] at hc
    split at hc
    · simp at hc; subst hc; rfl
    · simp at hc; subst hc; simp at hfail

/-! ## the leaf-reference rule -/

/-- DESIGN `leaf_refs_covered`: `hasher.store` followed by the leaf callback of
    `AccountDB.Commit` keeps the cache invariant: the storage root and the code
    blob of an account leaf become children of the node holding the leaf, so
    they are committed with the account trie.  Hypothesis `StoreOk` says what the
    callers provide (children stored first; the callback is handed the root and
    code hash the reader will follow; guards `≠ emptyData` / `≠ emptyCode`). -/
theorem leaf_refs_covered (eD eC : Hash) (s : St) (h : Hash) (n : CNode) (leaf : Option (Hash × Hash))
    (c' : Cache) (hi : Inv s) (hok : StoreOk eD eC s h n leaf)
    (hs : store eD eC s.cache h n leaf = some c') : CacheInv c' s.disk :=
  (store_inv hi hok hs).cacheInv

/-! ## what the driver prints is what the predicates say -/

theorem resolve_flag_sound (d : Disk) (f : Nat) (h : Hash) :
    (resolve (diskGet d) f h = .ok → Resolvable d h) ∧
    (resolve (diskGet d) f h = .missing → ¬ Resolvable d h) :=
  ⟨resolve_ok_sound d f h, resolve_missing_sound d f h⟩

/-! ## non-vacuity: a concrete history satisfies the hypotheses used above

Two storage-trie leaves `1`,`2` under a storage root `3`, a code blob `4`, and an
account-trie node `5` holding an account leaf whose storage root is `3` and whose
code hash is `4` (`emptyData = emptyCode = 0`).  The external references of `5`
exist only because the leaf callback ran. -/

/-- its commit walk is the post-order `1,2,3,4,5` -/
example : walk exS5.cache 6 5 = some [1, 2, 3, 4, 5] := by decide

/-- the batch loop on the example: sizes 5,6,20,30,40 stay below the flush threshold: one final write -/
example : commitLoop exS5.cache [1, 2, 3, 4, 5] ⟨[], 0⟩ [] = [[1, 2, 3, 4, 5]] := by decide

/-- `walkO` on the example: the runtime lists code `4` before storage root `3` at the visit of `5` -/
example : walkO exS5.cache 3 5 [(5, [4, 3])] = some ([4, 1, 2, 3, 5], []) ∧
    walkO exS5.cache 3 5 [] = some ([1, 2, 3, 4, 5], []) ∧
    walkO exS5.cache 3 5 [(5, [4, 9])] = some ([1, 2, 3, 4, 5], [(5, [4, 9])]) := by decide

/-- hypotheses of `any_visit_order_*`: the other map order at node `5` (code `4` before storage root `3`) -/
example : WalksN exS5.cache 3 5 [4, 1, 2, 3, 5] := by
  unfold WalksN
  refine ⟨[4, 3], [[4], [1, 2, 3]], by intro x; simp; exact Or.comm, ?_, rfl⟩
  refine All2.cons ?_ (All2.cons ?_ All2.nil)
  · unfold WalksN
    exact ⟨[], [], by intro x; simp, All2.nil, rfl⟩
  · unfold WalksN
    refine ⟨[], [[1], [2]], by intro x; simp, ?_, rfl⟩
    refine All2.cons ?_ (All2.cons ?_ All2.nil)
    · unfold WalksN; exact ⟨[], [], by intro x; simp, All2.nil, rfl⟩
    · unfold WalksN; exact ⟨[], [], by intro x; simp, All2.nil, rfl⟩

/-- hypotheses of `commit_prefix_closed` / `commit_prefix_resolvable` / `crash_point_resolvable` -/
example : AllRes exS5.disk ∧ CacheInv exS5.cache exS5.disk ∧ Consistent exS5.cache exS5.disk ∧
    walk exS5.cache 6 5 = some [1, 2, 3, 4, 5] :=
  ⟨(reach_inv exS5_reach).allRes, (reach_inv exS5_reach).cacheInv, (reach_inv exS5_reach).consistent, by decide⟩

/-- a crash after the first three Puts leaves the storage root `3` on disk and resolvable, the state root `5` absent -/
example : Resolvable (applyWrites exS5.cache exS5.disk [1, 2, 3]) 3 ∧ ¬ Has (applyWrites exS5.cache exS5.disk [1, 2, 3]) 5 := by
  refine ⟨?_, by decide⟩
  have := commit_prefix_resolvable exS5.cache exS5.disk 6 5 [1, 2, 3, 4, 5]
    (reach_inv exS5_reach).allRes (reach_inv exS5_reach).cacheInv (reach_inv exS5_reach).consistent (by decide)
    [1, 2, 3] ⟨[4, 5], rfl⟩
  exact this 3 (by decide)

/-- hypotheses of `commit_complete`: the commit succeeds and the root was readable -/
example : ∃ out, commit exS5 5 none 6 = some out ∧ (liveLookup exS5 5).isSome = true ∧ out.st.cache = [] ∧
    view (diskGet out.st.disk) 6 5 = some (5, 65) := by
  refine ⟨_, rfl, by decide, by decide, by decide⟩

/-- the driver's check passes on the example store of the account-leaf node `5`
    (and fails without the leaf callback: `3`,`4` are then no children of `5`) -/
example : storeCheck exS4.disk exS5.cache 5 ⟨40, 15, [], [], [3, 4]⟩ = true ∧
    storeCheck exS4.disk ((5, ⟨40, 15, [], [], [3, 4]⟩) :: exS4.cache) 5 ⟨40, 15, [], [], [3, 4]⟩ = false := by
  decide

/-- hypotheses of `crash_during_commit`: the first write of the commit of `5` is refused, then the process dies -/
example : ∃ s1 s2, step 0 0 exS5 (.commit 5 (some 0)) = some s1 ∧ step 0 0 s1 .die = some s2 ∧ s2.cache = [] :=
  ⟨_, _, rfl, rfl, rfl⟩

/-- hypotheses of `failed_commit_keeps_cache`: the first physical write is refused -/
example : ∃ out, commit exS5 5 (some 0) 6 = some out ∧ out.ok = false ∧ out.written = [] :=
  ⟨_, rfl, by decide, by decide⟩

/-- without the leaf callback the same node violates the cache invariant:
    `5` needs `3` and `4`, which are neither on disk nor children of `5`. -/
example : ¬ CacheInv ((5, ⟨40, 15, [], [], [3, 4]⟩) :: exS4.cache) [] := by
  intro h
  have := h 5 ⟨40, 15, [], [], [3, 4]⟩ (by decide) 3 (by simp)
  rcases this with h1 | ⟨h1, _⟩
  · exact absurd h1 (by decide)
  · simp [CNode.childs] at h1

/-- `Ranked`/`Closed` hypotheses of `closed_acyclic_resolvable` -/
example : Closed [(2, (⟨1, 0, [1]⟩ : DNode)), (1, ⟨1, 0, []⟩)] ∧ Ranked [(2, (⟨1, 0, [1]⟩ : DNode)), (1, ⟨1, 0, []⟩)] := by
  refine ⟨?_, ⟨id, ?_⟩⟩
  · intro h n hn r hr
    rw [lookup_cons_eq] at hn
    by_cases h2 : h = 2
    · subst h2; simp at hn; subst hn; simp at hr; subst hr; decide
    · simp only [h2, if_false] at hn
      rw [lookup_cons_eq] at hn
      by_cases h1 : h = 1
      · subst h1; simp at hn; subst hn; simp at hr
      · simp [h1] at hn
  · intro h n hn r hr
    rw [lookup_cons_eq] at hn
    by_cases h2 : h = 2
    · subst h2; simp at hn; subst hn; simp at hr; subst hr; decide
    · simp only [h2, if_false] at hn
      rw [lookup_cons_eq] at hn
      by_cases h1 : h = 1
      · subst h1; simp at hn; subst hn; simp at hr
      · simp [h1] at hn

end Rangers.Props.C03
