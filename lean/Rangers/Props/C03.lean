import Rangers.Model.TrieDB
/-! C03 property theorems (see design/C03.md). -/
namespace Rangers.Props.C03
open Rangers.Model.TrieDB

theorem die_keeps_disk (s : St) : (die s).disk = s.disk := rfl

end Rangers.Props.C03
