import Rangers.Proofs.TrieNdb
import Rangers.Props.C02
/-!
# C02, the NodeDatabase layers and the RLP splitting the disk path relies on

`Model/TrieNdb.lean` (memory cache + disk, `insert`, `reference`, `childs`/`gatherChildren`,
`Commit` = `commit` + `uncache`, `Node`/`node`) is executed by the driver on every
`commit`/`reopen`/`snap`/`commitref`/`dbcommit`/`blob` and observed through `dbstate` and `node`.
-/
namespace Rangers.Props.C02Ndb
open Rangers Rangers.Trie

/-- `gatherChildren` on the collapsed form of a full node: the hash references of the sixteen child
    slots, in slot order, embedded children looked through; the value slot contributes nothing -/
theorem gather_children_full (H : Bytes → Bytes) (cs : List Node) (hlen : cs.length = 17) :
    gatherC (collapse H (.full cs)) = (cs.take 16).flatMap (fun x => gatherC (refOf H x)) :=
  gatherC_collapse_full H cs hlen

theorem gather_children_short (H : Bytes → Bytes) (k : Key) (cs : List Node) (b : Bytes) :
    gatherC (collapse H (.short k (.full cs))) = gatherC (refOf H (.full cs)) ∧
    gatherC (collapse H (.short k (.value b))) = [] :=
  ⟨gatherC_collapse_ext H k cs, gatherC_collapse_leaf H k b⟩

/-- **`NodeDatabase.Commit` writes the whole trie to disk** (fresh cache; no hash hypothesis) -/
theorem ndb_commit_writes_whole_trie (H : Bytes → Bytes) (db : NDb) (t : Node) (hwf : WF t)
    (hin : ∀ e ∈ storeOf H true t, InMem db.mem e) (F : Nat) (hF : height t + 1 ≤ F) :
    ∀ e ∈ storeOf H true t, (db.commit F (H (enc H t))).disk.lookup e.1 = some (encC e.2) :=
  ndb_commit_disk_complete H db t hwf hin F hF

/-- `uncache` never adds or alters a cache entry -/
theorem uncache_only_removes (F : Nat) (mem : List (Bytes × NEntry)) (root x : Bytes) :
    (uncacheRec F mem root).lookup x = none ∨ (uncacheRec F mem root).lookup x = mem.lookup x :=
  (Trie.uncache_only_removes F).1 mem root x

/-- **`NodeDatabase.Commit` is a no-op on resolution** (memory cache first, else `decodeNode` of the
    disk blob), for every node of the committed trie -/
theorem ndb_commit_noop_on_resolution (H : Bytes → Bytes) (h32 : ∀ x, (H x).length = 32) (db : NDb) (t : Node)
    (hwf : WF t) (hin : ∀ e ∈ storeOf H true t, InMem db.mem e)
    (hsz : ∀ e ∈ storeOf H true t, (encC e.2).length < 256 ^ 8) (F : Nat) (hF : height t + 1 ≤ F) (gen : Nat) :
    ∀ e ∈ storeOf H true t,
      (db.commit F (H (enc H t))).node gen e.1 = db.node gen e.1 ∧ db.node gen e.1 = expandNode gen (some e.1) e.2 :=
  ndb_commit_resolution H h32 db t hwf hin hsz F hF gen

-- non-vacuity: a one-leaf trie freshly inserted into an empty NodeDatabase
example (H : Bytes → Bytes) :
    let t := run [.upd [1] [2]]
    WF t ∧ (∀ e ∈ storeOf H true t, InMem (NDb.empty.insertAll (storeOf H true t)).mem e) ∧ height t + 1 ≤ 8200 := by
  have hr : run [.upd [1] [2]] = .short [0, 1, 16] (.value [2]) := rfl
  refine ⟨(C02.run_wf _).resolve_left (by rw [hr]; simp), ?_, by rw [hr]; decide⟩
  rw [hr]
  intro e he
  simp only [storeOf, Bool.true_or, if_true, List.append_nil, List.mem_singleton] at he
  subst he
  exact ⟨{ val := .cn (collapse H (.short [0, 1, 16] (.value [2]))), children := [] },
    by simp [NDb.insertAll, NDb.insert, NDb.empty, storeOf], rfl⟩

/-! ## RLP as used on the disk path (storage/rlp/raw.go) -/

/-- big-endian length bytes round-trip (`putint` / `readSize`) -/
theorem be_length_roundtrip (n : Nat) : beToNat (natToBE n) = n ∧ (0 < n → (natToBE n).headD 0 ≠ 0) :=
  ⟨beToNat_natToBE n, natToBE_head_ne_zero n⟩

/-- **`Split` inverts the encoder**: splitting an encoded string or list followed by anything gives
    back the payload and the rest, with the right kind — for every payload shorter than 2^64 bytes
    (single bytes, short and long headers, the canon-size and leading-zero checks included) -/
theorem rlp_split_encode (isList : Bool) (payload rest : Bytes) (hlen : payload.length < 256 ^ 8) :
    ∃ k, rlpSplit ((if isList then rlpList payload else rlpString payload) ++ rest) = some (k, payload, rest) ∧
      (k = RKind.list ↔ isList = true) :=
  rlpSplit_item isList payload rest hlen

/-- `CountValues` of a concatenation of encoded items is their number -/
theorem rlp_count_values (items : List (Bool × Bytes)) (hb : ∀ i ∈ items, i.2.length < 256 ^ 8) :
    countValues (items.flatMap encItem).length (items.flatMap encItem) = some items.length :=
  countValues_exact items hb

example : (([1, 2, 3] : Bytes)).length < 256 ^ 8 := by decide

end Rangers.Props.C02Ndb
