import Rangers.Model.Trie
/-! C02 property theorems (under construction). -/
namespace Rangers.Props.C02
open Rangers Rangers.Trie

theorem rootHash_empty (H : Bytes → Bytes) : rootHash H .nil = emptyRoot := rfl

end Rangers.Props.C02
