import Rangers.Proofs.TrieIterBytes
import Rangers.Proofs.TrieCompact
import Rangers.Proofs.TrieYPRoot
import Rangers.Proofs.TrieTotal
import Rangers.Proofs.TrieStore
import Rangers.Basic.Keccak
/-!
# C02 — the state trie root is the canonical Merkle-Patricia commitment of its content

Theorems about `Rangers.Trie` (Model/Trie.lean), the model `Drive/C02.lean` executes and the
correspondence run compares with `src/storage/trie`.  `H` (the node hash) is a parameter:
every statement holds for every hash function.

Vocabulary: `WFRoot t` = `t` is empty or in minimal form (no short-below-short, no full node with
fewer than two occupied slots, no empty value, values only behind a terminator);
`content t κ` = value stored under hex path `κ`; `run ops` = model state after the history
`ops`; `finalMap ops` = the map the history defines (last write wins; delete / empty write remove).
-/
namespace Rangers.Props.C02
open Rangers Rangers.Trie

/-! ## insert / delete keep the minimal form and do to the content what they say -/

theorem insert_wf (t : Node) (key : Key) (val : Bytes) (ht : WFRoot t) (hk : ValidKey key) (hv : val ≠ []) :
    WF (insert t key (.value val)).2 :=
  Trie.insert_wf val hv t key ht hk

theorem delete_wf (t : Node) (key : Key) (ht : WFRoot t) (hk : ValidKey key) :
    WFRoot (delete t key).2 :=
  Trie.delete_wf t key ht hk

theorem toMap_insert (t : Node) (key : Key) (val : Bytes) (ht : WFRoot t) (hk : ValidKey key) (k' : Key) :
    content (insert t key (.value val)).2 k' = if k' = key then some val else content t k' :=
  content_insert val t key ht hk k'

theorem toMap_delete (t : Node) (key : Key) (ht : WFRoot t) (hk : ValidKey key) (k' : Key) :
    content (delete t key).2 k' = if k' = key then none else content t k' :=
  content_delete t key ht hk k'

/-- `Trie.TryGet` reads the abstract content (the association list the iterator returns). -/
theorem get_eq_lookup (t : Node) (k : Key) (ht : WFRoot t) (hk : ValidKey k) :
    get t k = (iter t).lookup k :=
  get_eq_content t k ht hk

/-- the exported API only ever produces terminated keys -/
theorem api_keys_valid (k : Bytes) : ValidKey (keybytesToHex k) := validKey_keybytesToHex k

/-- **totality**: on a minimal-form trie and a terminated key none of the branches in which the Go
    code indexes out of range, fails a type assertion or reaches `panic("invalid node")` is
    taken — by `tryGet`, `insert` or `delete`.  (The model is total; this shows no theorem here is
    true thanks to a default value.) -/
theorem no_panic (t : Node) (k : Key) (val : Bytes) (ht : WFRoot t) (hk : ValidKey k) :
    getPanics t k = false ∧ insertPanics t k (.value val) = false ∧ deletePanics t k = false :=
  ⟨no_panic_get t k ht hk, no_panic_insert val t k ht hk, no_panic_delete t k ht hk⟩

/-- …hence no exported operation panics after any history -/
theorem no_panic_after_history (ops : List Op) (k val : Bytes) :
    getPanics (run ops) (keybytesToHex k) = false ∧
    insertPanics (run ops) (keybytesToHex k) (.value val) = false ∧
    deletePanics (run ops) (keybytesToHex k) = false :=
  no_panic (run ops) (keybytesToHex k) val (represents_run ops).wf (validKey_keybytesToHex k)

-- non-vacuity: a three-key trie with a key that is a prefix of another satisfies the hypotheses
example : WFRoot (run [.upd [0x12] [1], .upd [0x12, 0x34] [2], .upd [0x13] [3]]) := (represents_run _).wf
example : ValidKey (keybytesToHex [0x12, 0x34]) := api_keys_valid _

/-! ## the in-memory form is a function of the content -/

/-- **uniqueness**: two minimal-form tries with the same reads are the same tree. -/
theorem wf_unique (a b : Node) (ha : WFRoot a) (hb : WFRoot b)
    (h : ∀ κ, ValidKey κ → get a κ = get b κ) : a = b := by
  apply wf_unique_iter a b ha hb
  apply sorted_ext _ _ (sortedKeys_iter a) (sortedKeys_iter b)
  intro κ
  show content a κ = content b κ
  by_cases hκ : ValidKey κ
  · rw [← get_eq_content a κ ha hκ, ← get_eq_content b κ hb hκ, h κ hκ]
  · have hnone : ∀ t, WFRoot t → content t κ = none := by
      intro t ht
      apply lookup_none_of_not_mem
      intro e he heq
      rcases ht with rfl | ht
      · simp [iter] at he
      · exact hκ (heq ▸ (iter_valid t ht e he).1)
    rw [hnone a ha, hnone b hb]

/-- the trie a history leaves behind is in minimal form -/
theorem run_wf (ops : List Op) : WFRoot (run ops) := (represents_run ops).wf

/-- **reads return the last write**: after any history (including hash / commit / reopen /
    cache-limit steps) `Get k` is the last value written to `k`, absent after delete or empty write. -/
theorem reads_last_write (ops : List Op) (k : Bytes) : lookup (run ops) k = finalMap ops k := by
  unfold lookup
  rw [get_eq_content _ _ (run_wf ops) (api_keys_valid k)]
  exact (represents_run ops).agree k

/-- **history independence of the tree**: two histories that define the same map leave the
    very same trie behind. -/
theorem run_history_independent (ops₁ ops₂ : List Op) (h : finalMap ops₁ = finalMap ops₂) :
    run ops₁ = run ops₂ :=
  represents_unique (represents_run ops₁) (h ▸ represents_run ops₂)

/-- **history independence of the root**, for every hash function `H`. -/
theorem root_history_independent (H : Bytes → Bytes) (ops₁ ops₂ : List Op)
    (h : finalMap ops₁ = finalMap ops₂) : rootHash H (run ops₁) = rootHash H (run ops₂) := by
  rw [run_history_independent ops₁ ops₂ h]

-- non-vacuity: different orders, an overwrite, a delete and interleaved commits define the same map
example : finalMap [.upd [1] [7], .commit, .upd [2] [8], .upd [3] [9], .del [3], .reopen]
        = finalMap [.upd [2] [5], .upd [1] [7], .dbcommit, .upd [2] [8], .cachelimit 0] := by
  funext k
  simp only [finalMap, List.foldl, specStep]
  by_cases h1 : k = [1] <;> by_cases h2 : k = [2] <;> by_cases h3 : k = [3] <;> simp_all

theorem rootHash_empty (H : Bytes → Bytes) : rootHash H .nil = emptyRoot := rfl

/-! ## the root is the Ethereum Merkle-Patricia root of the content -/

/-- the node encoding the hasher produces for a minimal-form subtree below the nibble path `P` is
    the Yellow Paper's `c(J, |P|)` of the pairs stored below it (`absK` = absolute keys, no terminator) -/
theorem node_encoding_eq_yellow_paper (H : Bytes → Bytes) (t : Node) (ht : WF t) (P : Key) (f : Nat)
    (hf : height t ≤ f) : enc H t = ypC H f (absK P (iter t)) P.length :=
  (ypC_enc H t ht P f hf).symm

/-- **canonical commitment**: after any history the root equals `TRIE(J)` of Yellow Paper
    appendix D (`ypRoot`, a transcription that never looks at a trie), where `J` is *any*
    enumeration of the map the history defines, listed in path order.
    Hypothesis on `H`: the hard-coded `emptyRoot` constant is `H` of the empty string's RLP
    (true for Keccak-256, checked below). -/
theorem root_eq_yellow_paper (H : Bytes → Bytes) (hH : H [0x80] = emptyRoot) (ops : List Op)
    (J : List (Bytes × Bytes))
    (hsorted : J.Pairwise (fun a b => keybytesToHex a.1 < keybytesToHex b.1))
    (hJ : ∀ k v, (k, v) ∈ J ↔ finalMap ops k = some v) :
    rootHash H (run ops) = ypRoot H (J.map (fun e => (hexOfBytes e.1, e.2))) := by
  rw [rootHash_eq_ypRoot H hH _ (run_wf ops), ← enumeration_eq_iter (represents_run ops) J hsorted hJ]
  congr 1
  simp [absK, keybytesToHex, List.map_map, Function.comp_def]

/-- such an enumeration always exists: what full iteration returns -/
theorem enumeration_exists (ops : List Op) :
    (iterFrom (run ops) []).Pairwise (fun a b => keybytesToHex a.1 < keybytesToHex b.1) ∧
    ∀ k v, (k, v) ∈ iterFrom (run ops) [] ↔ finalMap ops k = some v :=
  ⟨iterFrom_sorted_hex (represents_run ops), mem_iterFrom_nil (represents_run ops)⟩

-- non-vacuity of the hypothesis on `H`: the executable Keccak-256 satisfies it
set_option maxRecDepth 100000 in
example : Keccak.keccak256 [0x80] = emptyRoot := by decide +kernel

/-! ## commit / reopen through the node database -/

/-- **commit + reopen is a no-op on the trie** (`expand_collapse`): collapsing a minimal-form trie
    into hash-addressed store entries (`hasher.store` with a database: nodes of ≥ 32 bytes and the
    root, children embedded or referenced by hash, keys hex-prefix encoded) and expanding the root
    hash again (`resolveHash`/`expandNode`, every reference followed) returns the very same trie —
    provided no two different nodes written by this commit share a hash (`Functional`; the
    "no collision among stored nodes" hypothesis, explicit because `NodeDatabase.insert` keeps
    the first entry for a hash). The driver executes `reload` on every `reopen`/`dbcommit`. -/
theorem expand_collapse (H : Bytes → Bytes) (t : Node) (ht : WFRoot t)
    (hnc : Functional (commitStore H t)) : reload H t = some t :=
  reload_eq H t ht hnc

/-- …in particular after any history -/
theorem reopen_noop_after_history (H : Bytes → Bytes) (ops : List Op)
    (hnc : Functional (commitStore H (run ops))) : reload H (run ops) = some (run ops) :=
  reload_eq H _ (run_wf ops) hnc

-- non-vacuity: a commit that writes a single node cannot collide, whatever `H` is
example (H : Bytes → Bytes) : Functional (commitStore H (run [.upd [1] [2]])) := by
  intro e1 h1 e2 h2 _
  have hs : commitStore H (run [.upd [1] [2]]) = [(H (enc H (run [.upd [1] [2]])), collapse H (run [.upd [1] [2]]))] := rfl
  rw [hs] at h1 h2
  simp only [List.mem_singleton] at h1 h2
  rw [h1, h2]

/-! ## hex-prefix (compact) key encoding -/

/-- `compactToHex (hexToCompact k) = k` for every key the trie stores in a short node:
    nibble paths (extension nodes) and terminated paths (leaves). `some` = no out-of-range slice. -/
theorem compact_roundtrip (k : Key) (hk : Nibs k ∨ ValidKey k) : compactToHex (hexToCompact k) = some k := by
  rcases hk with hk | hk
  · exact compact_roundtrip_nibs k hk
  · obtain ⟨n, rfl, hn⟩ := (validKey_iff k).mp hk
    exact compact_roundtrip_term n hn

example : Nibs [1, 15, 0] ∨ ValidKey [1, 15, 0] := Or.inl (by simp [Nibs])
example : Nibs [1, 15, 16] ∨ ValidKey [1, 15, 16] := Or.inr (by simp [ValidKey])

/-! ## iteration -/

/-- the iterator returns strictly ascending hex paths (terminator greatest) — for *every* trie,
    so no pair is returned twice -/
theorem iter_sorted_paths (t : Node) : (iter t).Pairwise (fun e1 e2 => e1.1 < e2.1) := sortedKeys_iter t

/-- **completeness**: after any history, full iteration returns exactly the live pairs. -/
theorem iter_complete (ops : List Op) (k v : Bytes) :
    (k, v) ∈ iterFrom (run ops) [] ↔ finalMap ops k = some v :=
  mem_iterFrom_nil (represents_run ops) k v

/-- **order, as implemented**: ascending in hex-path order, where the terminator sorts last. -/
theorem iter_sorted_hex (ops : List Op) :
    (iterFrom (run ops) []).Pairwise (fun e1 e2 => keybytesToHex e1.1 < keybytesToHex e2.1) :=
  iterFrom_sorted_hex (represents_run ops)

/-- the same order expressed on byte keys: ascending bytewise, *except* that a key comes after
    every longer key it is a proper prefix of. -/
theorem iter_order_bytes (ops : List Op) :
    (iterFrom (run ops) []).Pairwise
      (fun e1 e2 => (e1.1 < e2.1 ∧ ¬ e1.1 <+: e2.1) ∨ (e2.1 <+: e1.1 ∧ e2.1 ≠ e1.1)) :=
  (iter_sorted_hex ops).imp (fun h => (hex_lt_iff _ _).mp h)

/-- The property's clause "iteration returns the live pairs in ascending key order", read with
    the bytewise order on keys, for arbitrary byte keys. -/
def FullStatementIterAscending : Prop :=
  ∀ ops : List Op, (iterFrom (run ops) []).Pairwise (fun e1 e2 => e1.1 < e2.1)

/-- proved restriction: ascending bytewise whenever no live key is a proper prefix of another
    (e.g. all keys of one length, as for hashed / address keys). -/
theorem iter_sorted_complete_partial (ops : List Op)
    (hpf : ∀ k1 k2, (finalMap ops k1).isSome → (finalMap ops k2).isSome → k1 <+: k2 → k1 = k2) :
    (iterFrom (run ops) []).Pairwise (fun e1 e2 => e1.1 < e2.1) := by
  apply List.Pairwise.imp_of_mem _ (iter_order_bytes ops)
  intro a b ha hb hab
  rcases hab with ⟨h, _⟩ | ⟨h1, h2⟩
  · exact h
  · have la := (iter_complete ops a.1 a.2).mp ha
    have lb := (iter_complete ops b.1 b.2).mp hb
    exact absurd (hpf b.1 a.1 (by simp [lb]) (by simp [la]) h1) h2

-- non-vacuity: a prefix-free content with a shared prefix
example : ∀ k1 k2, (finalMap [.upd [1, 2] [7], .upd [1, 3] [8]] k1).isSome →
    (finalMap [.upd [1, 2] [7], .upd [1, 3] [8]] k2).isSome → k1 <+: k2 → k1 = k2 := by
  intro k1 k2 h1 h2 hp
  simp only [finalMap, List.foldl, specStep] at h1 h2
  by_cases a1 : k1 = [1, 3] <;> by_cases a2 : k1 = [1, 2] <;> by_cases b1 : k2 = [1, 3] <;> by_cases b2 : k2 = [1, 2] <;>
    simp_all

/-- the full clause is false of the model (and of the code: the same history is replayed on the
    implementation by the searcher, known finding `iter-order-prefix-keys`): after writing keys
    `00` and `0000` the longer key is returned first. -/
theorem iter_ascending_counterexample : ¬ FullStatementIterAscending := by
  intro h
  have := h [.upd [0] [1], .upd [0, 0] [2]]
  have e : iterFrom (run [.upd [0] [1], .upd [0, 0] [2]]) [] = [([0, 0], [2]), ([0], [1])] := by decide
  rw [e] at this
  simp at this

end Rangers.Props.C02
