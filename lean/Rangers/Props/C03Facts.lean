import Rangers.Generated.TrieDbFacts
import Rangers.Model.StateCommit
/-!
# C03 — proof obligations about the facts the translator regenerates on every run

`gen/cmd/c03facts` rewrites `Rangers/Generated/TrieDbFacts.lean` from the
go-rangers working tree before every proof run.  The model
(`Rangers/Model/TrieDB.lean`) is written against the values asserted here: a
re-ordered statement in `commit`/`Commit`/`childs`, a new caller of
`Dereference`/`Cap`/`Delete`, or a changed leaf callback changes the generated
definitions and these obligations stop checking.
-/
namespace Rangers.Props.C03Facts
open Rangers.Generated

/-- `commit`: lookup, recurse into `childs()`, then `batch.Put` of the node, then the flush test. -/
theorem facts_commit_is_post_order :
    TrieDbFacts.commitSkeleton =
      ["lookup-cached-else-return-nil", "for-childs-recurse-commit", "batch.Put-self",
       "if-ValueSize-flush-Write-Reset", "return-nil"] := by decide

/-- `Commit`: the root walk, the final `batch.Write()`, and only then `uncache`. -/
theorem facts_uncache_after_final_write :
    TrieDbFacts.commitTopSkeleton =
      ["RLock", "NewBatch", "range-preimages", "db.commit-root", "batch.Write-final", "RUnlock", "Lock",
       "reset-preimages", "uncache-root"] := by decide

theorem facts_childs_ext_then_inner :
    TrieDbFacts.childsSkeleton = ["range-n.children-append", "if-not-rawNode-gatherChildren"] := by decide

/-- history is append-only: nobody calls `Dereference`, `Cap`, a `Delete` on
    the state store, or fills the preimage table. -/
theorem facts_history_append_only :
    TrieDbFacts.dereferenceCallers = [] ∧ TrieDbFacts.capCallers = [] ∧
    TrieDbFacts.stateStoreDeleteSites = [] ∧ TrieDbFacts.preimageCallers = [] := by decide

/-- the leaf callback references exactly the storage root and the code hash, each behind its guard. -/
theorem facts_leaf_callback :
    TrieDbFacts.leafCallbackRefs =
      [("account.Root", "account.Root != emptyData"), ("code", "code != emptyCode")] ∧
    TrieDbFacts.storeInsertBeforeOnleaf = true ∧
    TrieDbFacts.stateCommitSkeleton =
      ["InsertBlob-code-if-dirty", "CommitTrie-storage", "updateAccountObject", "trie.Commit-with-leaf-callback"] := by
  decide


/-- What gates a write in `AccountDB.Commit` and where dirty state is reset:
    `InsertBlob` is gated by `nftSet != nil && dirtyNFTSet`; the only place a
    `dirty*` flag is cleared (set to anything but `true`) besides the one-shot
    `onDirty` callback, object copies and whole-state `Reset`/`Clean` is
    `AccountDB.Commit` itself, after the blob was inserted; the dirty sets are
    only drained by `updateTrie` (which writes the slot), by `Commit`, and by the
    undo of an object creation / a touch.  A journal undo that clears a flag
    (so that what it restored is never flushed) changes this inventory. -/
theorem facts_dirty_flags :
    TrieDbFacts.insertBlobGate = "accountObject.nftSet != nil && accountObject.dirtyNFTSet" ∧
    TrieDbFacts.dirtyFlagClearSites =
      ["src/storage/account/account_object.go:accountObject.deepCopy:dirtyStorage=ao.dirtyStorage.Copy()",
       "src/storage/account/account_object.go:accountObject.markSuicided:onDirty=nil",
       "src/storage/account/account_object.go:accountObject.setData:onDirty=nil",
       "src/storage/account/account_object.go:accountObject.setNonce:onDirty=nil",
       "src/storage/account/account_object.go:accountObject.touch:onDirty=nil",
       "src/storage/account/account_object_nftset.go:accountObject.setNFTSetDefinition:onDirty=nil",
       "src/storage/account/accountdb.go:AccountDB.Clean:accountObjectsDirty=make(map[common.Address]struct{})",
       "src/storage/account/accountdb.go:AccountDB.Commit:dirtyNFTSet=false",
       "src/storage/account/accountdb.go:AccountDB.Reset:accountObjectsDirty=make(map[common.Address]struct{})"] ∧
    TrieDbFacts.dirtySetDeleteSites =
      ["src/storage/account/account_object.go:accountObject.updateTrie:ao.dirtyStorage",
       "src/storage/account/accountdb.go:AccountDB.Commit:adb.accountObjectsDirty",
       "src/storage/account/transition.go:createObjectChange.undo:s.accountObjectsDirty",
       "src/storage/account/transition.go:touchChange.undo:s.accountObjectsDirty"] := by decide

/-- no journal undo (transition.go) assigns a `dirty*` field directly: undos restore
    fields through the setters, which mark the object and the field dirty again. -/
theorem facts_no_undo_assigns_a_dirty_flag : TrieDbFacts.undoDirtyFieldAssignments = [] := by decide

/-- The only fork / network flags the state path reads are `IsProposal002` (in
    `AddFT`/`SubFT`: journaled `SetData` or direct `setData`) and `IsSub` (slot
    position of the balance binding); the harness runs schedules on both sides of
    Proposal002.  The only package-level variables written by functions of
    `storage/trie` and `storage/account` are the logger (at `Init`) and the cached
    token-contract address (`loadContractCache`): no scratch buffer or table shared
    across calls sits on the commit path.  A new flag read or a new global write
    changes these lists. -/
theorem facts_fork_flags_and_globals :
    TrieDbFacts.forkFlagReads =
      ["src/storage/account/accountdb_eth.go:GetERC20Binding:IsSub",
       "src/storage/account/accountdb_tuntun.go:AddFT:IsProposal002",
       "src/storage/account/accountdb_tuntun.go:SubFT:IsProposal002"] ∧
    TrieDbFacts.packageLevelWrites =
      ["src/storage/account/accountdb_eth.go:loadContractCache:rpgContractAddress",
       "src/storage/account/init.go:Init:accountLog"] := by decide

/-- the batch objects of `src/middleware/db` as `Model.TrieDB.BatchSt` transcribes them:
    `Put` appends the pair and adds `len(value)` (not the key) to `size`, `ValueSize` returns
    `size`, `Reset` clears the pairs and `size`, `Write` hands the pairs to the store in one call
    (`leveldb.DB.Write` of one `leveldb.Batch`; one locked loop for the in-memory store). -/
theorem facts_batch_objects :
    TrieDbFacts.batchObjectFacts =
      ["ldbBatch.Put: b.b.Put(key, value) ; b.size += len(value) ; return nil",
       "ldbBatch.ValueSize: return b.size",
       "ldbBatch.Write: return b.db.Write(b.b, nil)",
       "ldbBatch.Reset: b.b.Reset() ; b.size = 0",
       "prefixBatch.Put: b.b.Put(generateKey(key, b.prefix), value) ; b.size += len(value) ; return nil",
       "prefixBatch.ValueSize: return b.size",
       "prefixBatch.Write: return b.db.Write(b.b, nil)",
       "prefixBatch.Reset: b.b.Reset() ; b.size = 0",
       "memBatch.Put: b.writes = append(b.writes, kv{common.CopyBytes(key), common.CopyBytes(value)}) ; b.size += len(value) ; return nil",
       "memBatch.ValueSize: return b.size",
       "memBatch.Write: b.db.lock.Lock() ; defer b.db.lock.Unlock() ; for _, kv := range b.writes { b.db.db[string(kv.k)] = kv.v } ; return nil",
       "memBatch.Reset: b.writes = b.writes[:0] ; b.size = 0"] := by rfl

/-! ## which accounts a state commit may change -/

open Rangers.Model.StateCommit in
/-- the guards `Model/StateCommit.lean` transcribes, verbatim from the source: `Commit`
    deletes an object only if it self-destructed or is **dirty** and empty (with
    `deleteEmptyObjects`), writes it only if dirty; `Finalise` walks the dirty set only.
    A helper call, a dropped `isDirty`, a new case — any change of these texts breaks this. -/
theorem facts_commit_guards :
    TrieDbFacts.commitObjectCases =
      ["accountObject.suicided || (isDirty && deleteEmptyObjects && accountObject.empty()) => delete",
       "isDirty => update"] ∧
    TrieDbFacts.commitIsDirtyDef = "_, isDirty := adb.accountObjectsDirty[addr]" ∧
    TrieDbFacts.finaliseDeleteGuard = "accountObject.suicided || (deleteEmptyObjects && accountObject.empty())" ∧
    TrieDbFacts.finaliseRangesOver = "adb.accountObjectsDirty" := by decide

open Rangers.Model.StateCommit in
/-- **a commit changes only what the block changed**: an account object that was merely
    loaded (looked at through `Exist`/`GetNonce`/`GetCode*`/…, not modified, not
    self-destructed) is neither deleted nor rewritten — whatever `empty()` says about
    it, i.e. also when all it has is storage on disk, nonce 0 and no code. -/
theorem commit_leaves_clean_objects (del : Bool) (o : Obj) (hs : o.suicided = false) (hd : o.dirty = false) :
    commitAction del o = .none := by
  simp [commitAction, hs, hd]

open Rangers.Model.StateCommit in
/-- `Commit` and `Finalise` (hence `IntermediateRoot`) agree on every object that did not
    self-destruct while clean: the root computed just before the commit is the committed root's content. -/
theorem commit_agrees_with_finalise (del : Bool) (o : Obj) (h : o.suicided = true → o.dirty = true) :
    commitAction del o = finaliseAction del o := by
  cases hs : o.suicided <;> cases hd : o.dirty <;> cases he : o.empty <;> cases del <;>
    simp_all [commitAction, finaliseAction]

open Rangers.Model.StateCommit in
/-- non-vacuity: a data-only account (storage on disk, nonce 0, no code) that a block only looked at -/
example : commitAction true ⟨false, false, true⟩ = .none ∧ commitAction true ⟨false, true, true⟩ = .delete := by decide

end Rangers.Props.C03Facts
