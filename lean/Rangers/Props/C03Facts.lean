import Rangers.Generated.TrieDbFacts
/-!
# C03 — proof obligations about the facts the translator regenerates on every run

`gen/cmd/c03facts` rewrites `Rangers/Generated/TrieDbFacts.lean` from the
go-rangers working tree before every proof run.  The model
(`Rangers/Model/TrieDB.lean`) is written against the values asserted here: a
re-ordered statement in `commit`/`Commit`/`childs`, a new caller of
`Dereference`/`Cap`/`Delete`, or a changed leaf callback changes the generated
definitions and these obligations stop checking.
-/
namespace Rangers.Props.C03Facts
open Rangers.Generated

/-- `commit`: lookup, recurse into `childs()`, then `batch.Put` of the node, then the flush test. -/
theorem facts_commit_is_post_order :
    TrieDbFacts.commitSkeleton =
      ["lookup-cached-else-return-nil", "for-childs-recurse-commit", "batch.Put-self",
       "if-ValueSize-flush-Write-Reset", "return-nil"] := by decide

/-- `Commit`: the root walk, the final `batch.Write()`, and only then `uncache`. -/
theorem facts_uncache_after_final_write :
    TrieDbFacts.commitTopSkeleton =
      ["RLock", "NewBatch", "range-preimages", "db.commit-root", "batch.Write-final", "RUnlock", "Lock",
       "reset-preimages", "uncache-root"] := by decide

theorem facts_childs_ext_then_inner :
    TrieDbFacts.childsSkeleton = ["range-n.children-append", "if-not-rawNode-gatherChildren"] := by decide

/-- history is append-only: nobody calls `Dereference`, `Cap`, a `Delete` on
    the state store, or fills the preimage table. -/
theorem facts_history_append_only :
    TrieDbFacts.dereferenceCallers = [] ∧ TrieDbFacts.capCallers = [] ∧
    TrieDbFacts.stateStoreDeleteSites = [] ∧ TrieDbFacts.preimageCallers = [] := by decide

/-- the leaf callback references exactly the storage root and the code hash, each behind its guard. -/
theorem facts_leaf_callback :
    TrieDbFacts.leafCallbackRefs =
      [("account.Root", "account.Root != emptyData"), ("code", "code != emptyCode")] ∧
    TrieDbFacts.storeInsertBeforeOnleaf = true ∧
    TrieDbFacts.stateCommitSkeleton =
      ["InsertBlob-code-if-dirty", "CommitTrie-storage", "updateAccountObject", "trie.Commit-with-leaf-callback"] := by
  decide


end Rangers.Props.C03Facts
