import Rangers.Proofs.JournalSteps4
import Rangers.Proofs.JournalRoot
/-!
# Property C04 — reverting to a snapshot restores the account state exactly

All theorems are about `Rangers.Model.Journal` — the model `drv_c04` executes against the real
`account.AccountDB` (see design/C04.md).  `obs` lists every query named in the property statement;
`Sim` (Proofs/JournalSim) is the relation "answers all of them alike".

* `revert_restores_obs_partial` — headline: any run of covered ops with arbitrarily nested
  snapshots / reverts, then revert to the first snapshot: every observation is as it was.
* `FullStatementObs` / `revert_restores_obs_counterexample` — over *all* ops of the package the
  statement is false: `GetCommittedState` inside the region changes what `GetData` answers.
* `FullStatementRoot` / `revert_restores_root_counterexample_*` — the content of the account trie
  after `Finalise(true)` is *not* restored (four mechanisms, each replayed on the implementation
  by the searcher; known findings).
* `empty_query_counterexample` — `Empty(addr)` is not restored.
* `revisions_stack`, `snapshot_ids_fresh` — the revision stack discipline.
-/
namespace Rangers.Props.C04
open Rangers Rangers.Model.Journal Rangers.Proofs.Journal

/-- ops whose undo-inverse lemma needs no side condition (`Proofs/JournalSteps*`); SetCode, Suicide, AddLog and
    AddSlotToAccessList are covered under the conditions in `StepOk`; only `GetCommittedState` is left out -/
def Covered : Op → Bool
  | .setNonce .. | .incNonce .. | .setData .. | .create .. => true
  | .addBal .. | .subBal .. | .setBal .. | .transfer .. | .qBal .. => true
  | .addFT .. | .subFT .. | .setFT .. | .qFT .. => true
  | .setStorage .. | .qAllRefund .. | .addBinding .. => true
  | .addRefund .. | .subRefund .. | .alAddr .. | .tset .. => true
  | .snapshot | .revert .. => true
  | .qExist .. | .qEmpty .. | .qNonce .. | .qData .. | .qSuicided .. | .qCode .. | .qCodeSize .. | .qCodeHash .. => true
  | _ => false

/-- `SetCode` journals the previous code hash through `common.BytesToHash`: the object's current code
    hash must be a 32-byte hash (true of every hash the package itself produces) -/
def CodeHashOk (s : ADB) (a : Addr) : Prop :=
  match (resolveNew s a).2 with
  | some o => o.codeHash.length = 32
  | none => True

instance (s : ADB) (a : Addr) : Decidable (CodeHashOk s a) := by
  unfold CodeHashOk; split <;> infer_instance

/-- side condition of one op in the state it is executed in -/
def StepOk (c : Cfg) (s : ADB) : Op → Prop
  | .setCode a _ _ => CodeHashOk s a
  | .suicide a => SuicideOk c s a
  | .addLog .. => AddLogOk s
  | .alSlot a _ => AddSlotOk s a
  | op => Covered op = true

instance (c : Cfg) (s : ADB) (op : Op) : Decidable (StepOk c s op) := by
  unfold StepOk; split <;> infer_instance

instance decRunOk (c : Cfg) : (ops : List Op) → (s : ADB) → Decidable (RunOk (StepOk c) c s ops)
  | [], _ => isTrue trivial
  | op :: ops, s => @instDecidableAnd _ _ inferInstance (decRunOk c ops (step c s op))

/-- what `StepOk` excludes: `GetCommittedState`, and the four ops with a side condition when it fails -/
theorem uncovered_ops (c : Cfg) (s : ADB) (op : Op) (h : ¬ StepOk c s op) :
    (∃ a k, op = .qCommitted a k) ∨ (∃ a cd hh, op = .setCode a cd hh ∧ ¬ CodeHashOk s a) ∨
    (∃ a, op = .suicide a ∧ ¬ SuicideOk c s a) ∨ (∃ a t d, op = .addLog a t d ∧ ¬ AddLogOk s) ∨
    (∃ a sl, op = .alSlot a sl ∧ ¬ AddSlotOk s a) := by
  cases op <;> simp_all [StepOk, Covered]

/-- every op of the run is covered -/
def AllCovered (ops : List Op) : Prop := ∀ op ∈ ops, Covered op = true

instance (ops : List Op) : Decidable (AllCovered ops) := by unfold AllCovered; infer_instance

theorem step_revAt (c : Cfg) (hp : c.p002 = true) (s : ADB) (op : Op) (hc : StepOk c s op)
    (h1 : op ≠ Op.snapshot) (h2 : ∀ id, op ≠ Op.revert id) : RevAt c (fun x => step c x op) s := by
  cases op with
  | setCode a code h =>
    refine revAt_setCode c s a code h (fun s1 o hr => ?_)
    have : CodeHashOk s a := hc
    unfold CodeHashOk at this
    rw [hr] at this; exact this
  | suicide a => exact revAt_suicide c s a hc
  | addLog a t d => exact revAt_addLog c s a t d hc
  | alSlot a sl => exact revAt_alSlot c s a sl hc
  | qCode a => exact revAt_qCode c s a
  | setNonce a n => exact revAt_setNonce c s a n
  | incNonce a => exact revAt_incNonce c s a
  | setData a k v => exact revAt_setData c s a k v
  | create a => exact revAt_create c s a
  | addBal a n => exact revAt_addBalance c hp s a n
  | subBal a n => exact revAt_subBalance c hp s a n
  | setBal a n => exact revAt_setBalance c s a n
  | transfer a b n => exact revAt_transfer c hp s a b n
  | qBal a => exact revAt_getBalance c s a
  | addFT a k n => exact revAt_addFT c s a k n
  | subFT a k n => exact revAt_subFT c s a k n
  | setFT a k n => exact revAt_setFT c s a k n
  | qFT a k => exact revAt_getFT c s a k
  | setStorage a kvs => exact revAt_setStorage c s a kvs
  | qAllRefund a => exact revAt_getAllRefund c s a
  | addBinding b ct p d => exact revAt_addBinding c s b ct p d
  | addRefund g => exact revAt_addRefund c s g
  | subRefund g => exact revAt_subRefund c s g
  | alAddr a => exact revAt_alAddr c s a
  | tset a k v => exact revAt_tset c s a k v
  | snapshot => exact absurd rfl h1
  | revert id => exact absurd rfl (h2 id)
  | qExist a => exact revAt_qExist c s a
  | qEmpty a => exact revAt_qEmpty c s a
  | qNonce a => exact revAt_qNonce c s a
  | qData a k => exact revAt_qData c s a k
  | qSuicided a => exact revAt_qSuicided c s a
  | qCodeSize a => exact revAt_qCodeSize c s a
  | qCodeHash a => exact revAt_qCodeHash c s a
  | _ => simp [StepOk, Covered] at hc

theorem stepOk_of_covered (c : Cfg) (s : ADB) (op : Op) (h : Covered op = true) : StepOk c s op := by
  cases op <;> first | exact h | simp [Covered] at h

theorem runOk_of_allCovered (c : Cfg) (ops : List Op) (h : AllCovered ops) (s : ADB) :
    RunOk (StepOk c) c s ops := by
  induction ops generalizing s with
  | nil => trivial
  | cons op ops ih =>
    exact ⟨stepOk_of_covered c _ _ (h op (List.mem_cons_self ..)), ih (fun o ho => h o (List.mem_cons_of_mem _ ho)) _⟩

/-- `Sim`-equal states answer every query of the property alike -/
theorem obs_of_sim (c : Cfg) {s t : ADB} (h : Sim s t) (hs : s.crashed = false) (a : Addr) (k : Key) (th hh : Hash) :
    obs c s a k th hh = obs c t a k th hh := by
  have F := h.frame hs
  have key : ∀ b, (liveObj s b).isSome = (liveObj t b).isSome ∧
      ∀ o o', liveObj s b = some o → liveObj t b = some o' → ObjSim s.codes o o' := by
    intro b
    have R := h.objs hs b
    unfold liveObj
    cases hr : res s b with
    | absent => rw [hr] at R; rw [R.of_absent]; exact ⟨rfl, fun _ _ h => by cases h⟩
    | deleted => rw [hr] at R; rw [R.of_deleted]; exact ⟨rfl, fun _ _ h => by cases h⟩
    | live o =>
      rw [hr] at R; obtain ⟨o', e, ho⟩ := R.of_live; rw [e]
      exact ⟨rfl, fun _ _ h1 h2 => by cases h1; cases h2; exact ho⟩
  have fld : ∀ {β : Type} (b : Addr) (f : Obj → β) (d : β), (∀ o o', ObjSim s.codes o o' → f o = f o') →
      ((liveObj s b).map f).getD d = ((liveObj t b).map f).getD d := by
    intro β b f d hf
    obtain ⟨k1, k2⟩ := key b
    cases h1 : liveObj s b with
    | none =>
      rw [h1] at k1
      cases h2 : liveObj t b with
      | none => rfl
      | some o' => rw [h2] at k1; cases k1
    | some o =>
      rw [h1] at k1
      cases h2 : liveObj t b with
      | none => rw [h2] at k1; cases k1
      | some o' => simp [hf o o' (k2 o o' h1 h2)]
  unfold obs
  congr 1
  · exact h.crashed
  · exact (key a).1
  · exact fld a (·.nonce) 0 (fun _ _ ho => ho.1)
  · exact fld a (·.get k) [] (fun _ _ ho => ho.2.2.2.1 k)
  · refine fld a (fun o => (codeLookup s o).getD []) [] (fun o o' ho => ?_) |>.trans ?_
    · simp only [codeLookup_eq]; rw [ho.2.2.2.2]
    · congr 2; funext o; simp only [codeLookup_eq, F.codes]
  · exact fld a (fun o => toHash o.codeHash) zeroHash (fun _ _ ho => by simp [ho.2.1])
  · exact fld a (·.suicided) false (fun _ _ ho => ho.2.2.1)
  · exact fld c.tok (fun o => beToNat (o.get (c.balKey a))) 0 (fun _ _ ho => by simp [ho.2.2.2.1])
  · exact F.refund
  · simp [getLogs, F.logs]
  · exact F.logSize
  · simp [F.al]
  · simp [F.al]
  · exact F.transient a hh

/-- **C04, observations (proved part).** Start in any state whose revision stack is accounted for
(`Inv`/`RevsOk`: e.g. any state with an empty stack, see `revert_restores_obs_fresh`), take a
snapshot, run any list of covered ops — nested snapshots and reverts to any id included —, revert
to the snapshot.  If that revert does not panic, every query of the property answers as it did
when the snapshot was taken. -/
theorem revert_restores_obs_partial (c : Cfg) (hp : c.p002 = true) (s : ADB) (G : List ADB) (ops : List Op)
    (hs : s.crashed = false) (ok : RevsOk s) (inv : Inv c s G) (hrun : RunOk (StepOk c) c (snapshot s).1 ops)
    (hnc : (revert c (run c (snapshot s).1 ops) (snapshot s).2).crashed = false)
    (a : Addr) (k : Key) (th h : Hash) :
    obs c (revert c (run c (snapshot s).1 ops) (snapshot s).2) a k th h = obs c s a k th h := by
  have hsim := revert_sim_generic c (StepOk c)
    (fun s op hc h1 h2 => step_revAt c hp s op hc h1 h2) ops hs ok inv hrun hnc
  exact obs_of_sim c hsim hnc a k th h

/-- the same from a state with an empty revision stack (start of a transaction); for runs without
    `SetCode` the side condition is just `AllCovered ops` (`runOk_of_allCovered`) -/
theorem revert_restores_obs_fresh (c : Cfg) (hp : c.p002 = true) (s : ADB) (ops : List Op)
    (hs : s.crashed = false) (hr : s.revisions = []) (hrun : RunOk (StepOk c) c (snapshot s).1 ops)
    (hnc : (revert c (run c (snapshot s).1 ops) (snapshot s).2).crashed = false)
    (a : Addr) (k : Key) (th h : Hash) :
    obs c (revert c (run c (snapshot s).1 ops) (snapshot s).2) a k th h = obs c s a k th h :=
  revert_restores_obs_partial c hp s [] ops hs
    ⟨by simp [hr], by simp [hr], by simp [hr]⟩ ⟨by simp [hr], by simp [hr]⟩ hrun hnc a k th h

/-- every `undo` method maps states that answer all queries alike to such states -/
theorem undo_respects_view (c : Cfg) (s t : ADB) (e : Entry) (h : Sim s t) : Sim (undo c s e) (undo c t e) :=
  undo_congr c h e


/-! ## concrete witnesses (the same histories are replayed on the implementation by the searcher) -/

def c0 : Cfg := { tok := [0], ripemd := [3], p002 := true, balKey := fun a => 0xbb :: a }
def A1 : Addr := [0xa1]

/-- region of the non-vacuity example: nested snapshot, writes, inner revert, more writes -/
def demoOps : List Op :=
  [.setNonce A1 7, .addBal A1 5, .snapshot, .setData A1 [0x6b] [1], .transfer A1 [0xa2] 2, .revert 1,
   .tset A1 [1] [2], .alAddr A1, .addRefund 9, .qData A1 [0x6b], .incNonce A1]

/-- non-vacuity of `revert_restores_obs_fresh`: hypotheses hold for a concrete committed state and region,
    the region changes observations, and the revert brings them back -/
example : AllCovered demoOps := by decide
example : RunOk (StepOk c0) c0 (snapshot (setNonce ADB.empty A1 1)).1
    (demoOps ++ [.setCode A1 [0x60] (toHash [9]), .addFT A1 [0x66, 0x3a, 0x78] 0, .suicide A1, .qFT A1 [0x66, 0x3a, 0x78],
       .addLog A1 [] [1], .alSlot A1 (toHash [1]), .alSlot A1 (toHash [2]), .qCode A1,
       .setStorage A1 [(toHash [1], toHash [2]), (toHash [3], toHash [4])], .qAllRefund A1, .addBinding [0xb1] A1 3 18]) := by
  decide
example : (revert c0 (run c0 (snapshot (setNonce ADB.empty A1 1)).1 demoOps) 0).crashed = false := by decide
example : obs c0 (run c0 (snapshot (setNonce ADB.empty A1 1)).1 demoOps) A1 [0x6b] [] [1]
    ≠ obs c0 (setNonce ADB.empty A1 1) A1 [0x6b] [] [1] := by decide
example : obs c0 (revert c0 (run c0 (snapshot (setNonce ADB.empty A1 1)).1 demoOps) 0) A1 [0x6b] [] [1]
    = obs c0 (setNonce ADB.empty A1 1) A1 [0x6b] [] [1] := by decide

/-- the statement over *all* ops of the package -/
def FullStatementObs : Prop :=
  ∀ (c : Cfg) (s : ADB) (ops : List Op), c.p002 = true → s.crashed = false → s.revisions = [] →
    (revert c (run c (snapshot s).1 ops) (snapshot s).2).crashed = false →
    ∀ a k th h, obs c (revert c (run c (snapshot s).1 ops) (snapshot s).2) a k th h = obs c s a k th h

/-- state with a flushed slot `k ↦ 1` overwritten (not yet flushed) by `k ↦ 2` -/
def sClobber : ADB := setData (finalise false (setData ADB.empty A1 [0x6b] [1])) A1 [0x6b] [2]

/-- `GetCommittedState` inside the region overwrites the cached value: `GetData` answers 1 instead of 2
    after the revert (known finding `committed-read-clobbers-cache`) -/
theorem revert_restores_obs_counterexample : ¬ FullStatementObs := by
  intro h
  have := h c0 sClobber [.qCommitted A1 [0x6b]] rfl (by decide) (by decide) (by decide) A1 [0x6b] [] []
  revert this
  decide

/-- `Empty(addr)` (not in the property's list, but an exported query the EVM uses) -/
def emptyView (s : ADB) (a : Addr) : Bool := (isEmptyQ s a).2

/-- DESIGN lead 1 at query level: a created account, a reverted `SetData`: `Empty` flips to false
    (known finding `empty-query-after-revert`) -/
theorem empty_query_counterexample :
    let s := createAccount ADB.empty A1
    emptyView (revert c0 (setData (snapshot s).1 A1 [0x6b] [1]) (snapshot s).2) A1 ≠ emptyView s A1 := by
  decide

/-- content of the account trie after `Finalise(true)`: what `IntermediateRoot(true)` hashes -/
def content (s : ADB) : List (Addr × Leaf) := (finalise true s).trie

/-- root clause of the property, for histories `prefix; snapshot; region; revert; suffix` -/
def FullStatementRoot : Prop :=
  ∀ (c : Cfg) (s : ADB) (region suffix : List Op), c.p002 = true → s.crashed = false → s.revisions = [] →
    (revert c (run c (snapshot s).1 region) (snapshot s).2).crashed = false →
    content (run c (revert c (run c (snapshot s).1 region) (snapshot s).2) suffix) = content (run c s suffix)

/-- lead 1 (`empty-looks-at-storage-cache`): `storageChange.undo` leaves the key in the caches, the
    created account is no longer `empty()` and survives `Finalise(true)` -/
theorem revert_restores_root_counterexample_storage_key : ¬ FullStatementRoot := by
  intro h
  have := h c0 (createAccount ADB.empty A1) [.setData A1 [0x6b] [1]] [] rfl (by decide) (by decide) (by decide)
  revert this
  decide

/-- a committed account with storage only (nonce 0, no code), freshly opened -/
def sStorageOnly : ADB := reopen (commit true (setData ADB.empty A1 [0x6b] [7]))

/-- `revert-leaves-dirty-mark`: the reverted `SetNonce` leaves the account dirty; with a cold cache it
    is `empty()` and `Finalise(true)` deletes it together with its storage -/
theorem revert_restores_root_counterexample_dirty_mark :
    content (revert c0 (setNonce (snapshot sStorageOnly).1 A1 5) (snapshot sStorageOnly).2) = [] ∧
    content sStorageOnly = [(A1, ⟨0, [([0x6b], [7])], emptyCodeHash⟩)] := by
  decide

/-- `touch-undo-disarms-ondirty`: after the reverted zero-amount `AddFT` a later `SetNonce` is lost -/
theorem revert_restores_root_counterexample_touch :
    content (setNonce (revert c0 (addFT (snapshot sStorageOnly).1 A1 [0x66, 0x3a, 0x78] 0) (snapshot sStorageOnly).2) A1 5)
      = [(A1, ⟨0, [([0x6b], [7])], emptyCodeHash⟩)] ∧
    content (setNonce sStorageOnly A1 5) = [(A1, ⟨5, [([0x6b], [7])], emptyCodeHash⟩)] := by
  decide

/-- `committed-read-clobbers-cache` at root level: the journal records the clobbered value -/
theorem revert_restores_root_counterexample_clobber :
    let s := (getCommitted sClobber A1 [0x6b]).1
    content (revert c0 (setData (snapshot s).1 A1 [0x6b] [3]) (snapshot s).2) = [(A1, ⟨0, [([0x6b], [1])], emptyCodeHash⟩)] ∧
    content s = [(A1, ⟨0, [([0x6b], [2])], emptyCodeHash⟩)] := by
  decide

/-- state in which the balance slot of `A1` holds 5 as a 32-byte word (as the EVM writes it) -/
def sPadded : ADB := setNonce (setData ADB.empty c0.tok (c0.balKey A1) (toHash [5])) A1 1

/-- `suicide-undo-rewrites-balance-slot`: found while proving the undo-inverse lemma for `Suicide`, then
    replayed on the implementation: the slot comes back as `[5]`, `GetBalance` is unchanged -/
theorem suicide_undo_rewrites_slot_counterexample :
    let r := revert c0 (suicide c0 (snapshot sPadded).1 A1).1 (snapshot sPadded).2
    (obs c0 r c0.tok (c0.balKey A1) [] []).slot = [5] ∧
    (obs c0 sPadded c0.tok (c0.balKey A1) [] []).slot = toHash [5] ∧
    (obs c0 r A1 [] [] []).balance = (obs c0 sPadded A1 [] [] []).balance := by
  decide

/-- **C04, root clause (proved part).** A reverted region made only of ops that do not touch account
objects — AddRefund, SubRefund, AddLog, AddAddressToAccessList, AddSlotToAccessList, SetTransientState,
nested snapshots and reverts (6 of the 11 journal entry kinds) — leaves everything `Finalise` reads
untouched, so `IntermediateRoot(d)` hashes exactly the content it would have hashed without the region.
This hypothesis excludes all four root mechanisms of the counterexamples above, which need a region
that writes to (or reads through) an account object. -/
theorem revert_restores_root_partial (c : Cfg) (s : ADB) (region : List Op) (d : Bool)
    (hs : s.crashed = false) (hr : s.revisions = []) (hops : ∀ op ∈ region, opGlobal op = true)
    (hnc : (revert c (run c (snapshot s).1 region) (snapshot s).2).crashed = false) :
    (finalise d (revert c (run c (snapshot s).1 region) (snapshot s).2)).trie = (finalise d s).trie :=
  finalise_trie_congr d _ _ hnc hs (revert_objview_global c s region hs hr hops)

/-- non-vacuity: such a region on a state with pending (dirty) account changes -/
example : let s := setData (setNonce ADB.empty A1 1) A1 [0x6b] [7]
    let region : List Op := [.addRefund 5, .snapshot, .tset A1 (toHash [1]) (toHash [2]), .alSlot A1 (toHash [1]),
      .addLog A1 [] [1], .revert 1, .alAddr [0xa2], .subRefund 2]
    (∀ op ∈ region, opGlobal op = true) ∧ s.revisions = [] ∧
    (revert c0 (run c0 (snapshot s).1 region) (snapshot s).2).crashed = false ∧ (finalise true s).trie ≠ [] := by
  decide

/-- the side condition of `Suicide` in `StepOk` is exactly what fails in that history -/
example : ¬ SuicideOk c0 (snapshot sPadded).1 A1 := by decide

/-- historical configuration (height below `Proposal002Block`): `AddFT`/`SubFT` write the balance slot
    without a journal entry, so the revert does not restore the balance — why every restoration theorem
    here carries `c.p002 = true` (known finding `pre-proposal002-balance-not-journaled`, replayed on the
    implementation by the searcher and corpus 13) -/
theorem pre_proposal002_balance_not_restored :
    let c := { c0 with p002 := false }
    let s := setBalance c ADB.empty A1 7
    (obs c (revert c (addBalance c (snapshot s).1 A1 2) (snapshot s).2) A1 [] [] []).balance = 9 ∧
    (obs c s A1 [] [] []).balance = 7 := by
  decide

/-- `ripemd-touch-not-undone`: `touchChange.undo` skips the address `ripemd`; a storage-only `ripemd`
    account touched inside a reverted region stays dirty and is deleted by `Finalise(true)` -/
theorem revert_restores_root_counterexample_ripemd :
    let s := reopen (commit true (setData ADB.empty c0.ripemd [0x6b] [7]))
    content (revert c0 (addFT (snapshot s).1 c0.ripemd [0x66, 0x3a, 0x78] 0) (snapshot s).2) = [] ∧
    content s = [(c0.ripemd, ⟨0, [([0x6b], [7])], emptyCodeHash⟩)] ∧
    -- any other address: the touch is undone and the account stays
    content (revert c0 (addFT (snapshot sStorageOnly).1 A1 [0x66, 0x3a, 0x78] 0) (snapshot sStorageOnly).2) = content sStorageOnly := by
  decide

/-! ## revision stack -/

/-- a snapshot id is larger than every id on the stack and the stack stays sorted: ids are never reused -/
theorem snapshot_ids_fresh (s : ADB) (hs : s.crashed = false) (ok : RevsOk s) :
    (snapshot s).2 = s.nextRev ∧ (∀ r ∈ s.revisions, r.1 < (snapshot s).2) ∧ RevsOk (snapshot s).1 := by
  refine ⟨by rw [snapshot_eq hs], fun r hr => by rw [snapshot_eq hs]; exact (ok.below r hr).1, ?_⟩
  rw [snapshot_eq hs]
  refine ⟨?_, ?_, ?_⟩
  · simp only [List.pairwise_append, ok.ids, List.pairwise_cons, List.Pairwise.nil, true_and]
    refine ⟨by simp, fun r hr r' hr' => ?_⟩
    simp only [List.mem_singleton] at hr'; subst hr'
    exact (ok.below r hr).1
  · simp only [List.pairwise_append, ok.idx, List.pairwise_cons, List.Pairwise.nil, true_and]
    refine ⟨by simp, fun r hr r' hr' => ?_⟩
    simp only [List.mem_singleton] at hr'; subst hr'
    exact (ok.below r hr).2
  · intro r hr
    simp only [List.mem_append, List.mem_singleton] at hr
    rcases hr with hr | hr
    · exact ⟨Nat.lt_succ_of_lt (ok.below r hr).1, (ok.below r hr).2⟩
    · subst hr; exact ⟨Nat.lt_succ_self _, Nat.le_refl _⟩

/-- reverting to the revision at stack position `i` pops it and everything above it (inner ids become
    invalid), truncates the journal to the recorded index, keeps `nextRev`; an id that is not on the
    stack panics -/
theorem revisions_stack (c : Cfg) (s : ADB) (hs : s.crashed = false) (ok : RevsOk s) (i : Nat) (r : Nat × Nat)
    (hi : s.revisions[i]? = some r) (hnc : (revert c s r.1).crashed = false) :
    (revert c s r.1).revisions = s.revisions.take i ∧ (revert c s r.1).journal = s.journal.take r.2 ∧
    (revert c s r.1).nextRev = s.nextRev ∧
    (∀ r' ∈ s.revisions.drop i, (revert c (revert c s r.1) r'.1).crashed = true) := by
  have hat := revert_at c hs ok hi
  have hs1 : (undoAll c s (s.journal.drop r.2)).crashed = false := by
    cases h : (undoAll c s (s.journal.drop r.2)).crashed with
    | false => rfl
    | true => rw [hat] at hnc; simp [h] at hnc
  have hform : revert c s r.1 = { undoAll c s (s.journal.drop r.2) with journal := s.journal.take r.2, revisions := s.revisions.take i } := by
    rw [hat, if_neg (by simp [hs1])]
  refine ⟨by rw [hform], by rw [hform], by rw [hform]; exact undoAll_nextRev c s _, fun r' hr' => ?_⟩
  -- r' sits at a position ≥ i, so its id is ≥ every id kept: not found, or found with a different id
  cases hcr : (revert c (revert c s r.1) r'.1).crashed with
  | true => rfl
  | false =>
    exfalso
    obtain ⟨k, j, hk⟩ := revert_valid c hnc hcr
    rw [hform] at hk
    simp only [List.getElem?_take] at hk
    split at hk
    · rename_i hki
      obtain ⟨m, hm⟩ := List.getElem?_of_mem hr'
      rw [List.getElem?_drop] at hm
      have hkl : k < s.revisions.length := by
        rcases Nat.lt_or_ge k s.revisions.length with h | h
        · exact h
        · rw [List.getElem?_eq_none h] at hk; cases hk
      have hml : i + m < s.revisions.length := by
        rcases Nat.lt_or_ge (i + m) s.revisions.length with h | h
        · exact h
        · rw [List.getElem?_eq_none h] at hm; cases hm
      have e1 : s.revisions[k] = (r'.1, j) := by
        rw [List.getElem?_eq_getElem hkl] at hk; exact Option.some.inj hk
      have e2 : s.revisions[i + m] = r' := by
        rw [List.getElem?_eq_getElem hml] at hm; exact Option.some.inj hm
      have := List.pairwise_iff_getElem.mp ok.ids k (i + m) hkl hml (by omega)
      rw [e1, e2] at this
      exact Nat.lt_irrefl _ this
    · cases hk

end Rangers.Props.C04
