import Rangers.Model.Journal
/-! Property C04 — reverting to a snapshot restores the account state exactly (theorems). -/
namespace Rangers.Props.C04
open Rangers Rangers.Model.Journal

theorem undoAll_append (c : Cfg) (s : ADB) (a b : List Entry) :
    undoAll c s (a ++ b) = undoAll c (undoAll c s b) a := by
  simp [undoAll, List.reverse_append, List.foldl_append]

end Rangers.Props.C04
