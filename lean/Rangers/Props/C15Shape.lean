import Rangers.Model.Round
import Rangers.Model.RoundFacts
import Rangers.Generated.C15Facts
/-!
C15, T-gen obligations: the statement sequences the translator `gen/cmd/c15facts` re-reads from the
source on every run are the ones `Rangers.Model.Round` transcribes. A new, removed or re-ordered
statement in the handlers becomes `.unknown` / a different list and the corresponding obligation fails.
-/
namespace Rangers.Props.C15
open Rangers.Model.Round
open Rangers.Generated

/-! ### T-gen: the statements of the handlers are the ones the model transcribes -/

/-- `round1.Update` consists of exactly the guards/effects the model's `update` performs, in that order. -/
theorem update_shape : C15Facts.updateSteps = expectedUpdateSteps C15Facts.bindsHash := by decide

/-- `round2.checkSignature` verifies `bh.Signature` over `bh.Hash` and `bh.Random` over `preBH.Random` under the group key. -/
theorem checkSignature_shape : C15Facts.checkSignatureSteps = expectedCheckSignatureSteps := by decide

/-- `round2.Start` runs `checkBlockExisted` and `checkSignature` before `GenerateBlock`, and only then
adds the block and signals completion. -/
theorem start2_shape : C15Facts.start2Steps = expectedStart2Steps := by decide

/-- `groupSignGenerator`: ignore when already recovered; dedup by sender id; recover when the map size
reaches the threshold (`>=`); `genGroupSign` keeps a valid group signature and reports success. -/
theorem generator_shape :
    C15Facts.addWitnessSignSteps = expectedAddWitnessSignSteps ∧
    C15Facts.addWitnessForceSteps = expectedAddWitnessForceSteps ∧
    C15Facts.genGroupSignSteps = expectedGenGroupSignSteps := by decide

/-- The handlers on the path keep no process-wide state of their own package (the model treats every
call as a function of the round state and the message) and read no fork configuration (the model has
no proposal flags). -/
theorem path_is_stateless_and_fork_independent :
    C15Facts.pathGlobals = expectedPathGlobals ∧ C15Facts.pathForkReads = [] := by decide

/-- `loadOrNewSignParty` parks a verify message that has no party yet by appending it to the list under
its key: the parked store is a multiset per key, exactly `Life.pfuture` / `Proc.stray` of the model. -/
theorem loadParty_shape : C15Facts.loadPartySteps = expectedLoadPartySteps := by decide

/-- `baseParty.Update`, `StoreMessage`, the three `CanAccept`s, `round1.NextRound`, `OnMessageVerify` and
`waitUntilDone` (closure `fn`, the 10-second timer, the changeId step) consist of exactly the statements
`partyUpdate` / `advance` / `storeRule` / `canAccept1` / `Proc.onVerify` / `settle` / `Life.onTimeout` /
`Life.enterSigning` transcribe. -/
theorem handlers_canon :
    C15Facts.partyUpdateCanon = expectedPartyUpdateCanon ∧
    C15Facts.storeMessageCanon = expectedStoreMessageCanon ∧
    C15Facts.canAccept0Canon = expectedCanAccept0Canon ∧
    C15Facts.canAccept1Canon = expectedCanAccept1Canon ∧
    C15Facts.canAccept2Canon = expectedCanAccept2Canon ∧
    C15Facts.nextRound1Canon = expectedNextRound1Canon ∧
    C15Facts.onMessageVerifyCanon = expectedOnMessageVerifyCanon ∧
    C15Facts.waitUntilDoneCanon = expectedWaitUntilDoneCanon := by decide +kernel

/-- The capacities of the processor's two LRU caches are the ones the model (`futureCap`) and the hook use. -/
theorem lru_capacities : C15Facts.futureCap = futureCap ∧ C15Facts.finishedCap = finishedCap := by decide

/-- `SignInfo.VerifySign` = signer id non-zero ∧ `VerifySig(pk, dataHash, signature)`. -/
theorem verifySign_shape : C15Facts.verifySignSteps = expectedVerifySignSteps := by decide

end Rangers.Props.C15
