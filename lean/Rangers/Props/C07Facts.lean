import Rangers.Generated.C07Facts
import Rangers.Generated.C08Types
import Rangers.Model.TxAuth
/-!
# C07 — T-gen tie

`Rangers.Generated.C07` is re-extracted from the go-rangers source on every run
(`gen/cmd/c07facts`, go/ast).  The theorems below say that the model *is* the
interpretation of the extracted shape: the hashed byte string is the
concatenation of exactly the extracted `buffer.Write` arguments in their order,
`compareTx` compares exactly the extracted fields, and the call sequences /
constants are the ones the model was written against.  Re-ordering a write,
dropping a comparison, adding or removing a check call, or changing the type
constant makes one of these fail to check.
-/
namespace Rangers.Props.C07Facts
open Rangers Rangers.Model.TxAuth Rangers.Generated.C07

/-- meaning of one `buffer.Write` argument of `GenHash` -/
def writeBytes (tx : Tx) (w : String) : Option Bytes :=
  if w = "[]byte(tx.Data)" then some tx.data
  else if w = "[]byte(strconv.FormatUint(tx.Nonce,10))" then some (decimal tx.nonce)
  else if w = "[]byte(tx.Source)" then some tx.source
  else if w = "[]byte(tx.Target)" then some tx.target
  else if w = "[]byte(strconv.Itoa(int(tx.Type)))" then some (decimalInt tx.type)
  else if w = "[]byte(tx.Time)" then some tx.time
  else if w = "[]byte(tx.ExtraData)" then some tx.extraData
  else if w = "[]byte(tx.ChainId)" then some tx.chainId
  else none

def interpWrites (tx : Tx) : List String → Option Bytes
  | [] => some []
  | w :: ws =>
    match writeBytes tx w, interpWrites tx ws with
    | some a, some b => some (a ++ b)
    | _, _ => none

/-- The model's hashed byte string is the concatenation of the source's
    `buffer.Write` arguments, in the source's order. -/
theorem ser_is_genhash_writes (tx : Tx) : interpWrites tx genHashWrites = some (ser tx) := by
  simp [genHashWrites, interpWrites, writeBytes, ser]

theorem genhash_returns_sha256_of_buffer :
    genHashReturns = ["common.Hash{}", "common.BytesToHash(common.Sha256(buffer.Bytes()))"] := rfl

/-- meaning of one `tx.F != expectedTx.F` comparison of `compareTx` -/
def fieldEq (a b : Tx) (f : String) : Option Bool :=
  if f = "Source" then some (a.source == b.source)
  else if f = "Target" then some (a.target == b.target)
  else if f = "Type" then some (a.type == b.type)
  else if f = "ExtraData" then some (a.extraData == b.extraData)
  else if f = "Nonce" then some (a.nonce == b.nonce)
  else if f = "ChainId" then some (a.chainId == b.chainId)
  else if f = "Data" then some (a.data == b.data)
  else if f = "Hash" then some (a.hash == b.hash)
  else none

def interpCmp (a b : Tx) : List String → Option Bool
  | [] => some true
  | f :: fs =>
    match fieldEq a b f, interpCmp a b fs with
    | some x, some y => some (x && y)
    | _, _ => none

/-- The model's `compareTx` compares exactly the fields the source compares. -/
theorem compareTx_is_compared_fields (a b : Tx) : interpCmp a b compareTxFields = some (compareTx a b) := by
  simp [compareTxFields, interpCmp, fieldEq, compareTx, Bool.and_assoc]

theorem type_constant : transactionTypeETHTX = typeETHTX := rfl

/-- `VerifyTransaction`: ETH branch first (guarded by the type), then chain id, hash, signature. -/
theorem verify_call_order :
    verifyTransactionCalls = ["verifyETHTx", "verifyTxChainId", "verifyTransactionHash", "verifyTransactionSign"] ∧
    verifyTransactionGuards = ["tx.Type==types.TransactionTypeETHTX", "nil!=err", "nil!=err", "nil!=err"] :=
  ⟨rfl, rfl⟩

/-- `verifyETHTx`: decode, canonical re-encoding check, signer of this chain, sender, convert, compare. -/
theorem verify_eth_call_order :
    verifyETHTxCalls = ["common.FromHex", "rlp.DecodeBytes", "rlp.EncodeToBytes", "bytes.Equal",
      "eth_tx.NewEIP155Signer", "common.GetChainId", "eth_tx.Sender", "eth_tx.ConvertTx", "compareTx"] := rfl

theorem verify_native_call_order :
    verifyTxChainIdCalls = ["common.ChainId"] ∧ verifyTransactionHashCalls = ["tx.GenHash"] ∧
    verifyTransactionSignCalls = ["tx.Sign.RecoverPubkey", "pk.Verify", "pk.GetAddress"] := ⟨rfl, rfl, rfl⟩

theorem convert_assignments :
    convertTxAssigns = ["data.AbiData=common.ToHex(txRaw.Data())", "data.GasLimit=strconv.FormatUint(txRaw.Gas(),10)",
      "data.GasPrice=txRaw.GasPrice().String()", "data.TransferValue=utility.BigIntToStr(transferValue)",
      "result.ChainId=txRaw.ChainId().String()", "result.Data=string(dataByes)",
      "result.ExtraData=common.ToHex(encodedTx)", "result.Hash=txRaw.Hash()",
      "result.Nonce=txRaw.data.AccountNonce", "result.Source=sender.String()",
      "result.Target=txRaw.To().String()", "result.Type=types.TransactionTypeETHTX"] := rfl

/-- JSON keys and their order in `Data` (`omitempty` never triggers: all four strings are non-empty). -/
theorem contract_data_fields :
    contractDataFields = ["GasPrice string json:'gasPrice,omitempty'", "GasLimit string json:'gasLimit,omitempty'",
      "TransferValue string json:'transferValue,omitempty'", "AbiData string json:'abiData,omitempty'"] := rfl

/-- The secp256k1 decision layer the model's `recoverPubkey` / `recoverPubkeyEth` / `libVerify`
    were written against: the native wrapper respells 27.. as 0.. before the `>= 4` check, the
    ETH wrapper does not; the library's verify starts with the low-s test; each path imports
    its own wrapper. -/
theorem secp_layer_shape :
    checkSignatureCommon = ["if len(sig)!=65", "if sig[64]>26", "sig[64]-=27", "if sig[64]>=4"] ∧
    checkSignatureEth = ["if len(sig)!=65", "if sig[64]>=4"] ∧
    recoverPubkeyCommonCalls = ["len", "checkSignature", "C.secp256k1_ext_ecdsa_recover"] ∧
    recoverPubkeyEthCalls = ["len", "checkSignature", "C.secp256k1_ext_ecdsa_recover"] ∧
    ecdsaVerifyReturnCommon = ["return (!secp256k1_scalar_is_high(&s) && secp256k1_pubkey_load(ctx, &q, pubkey) && secp256k1_ecdsa_sig_verify(&ctx->ecmult_ctx, &r, &s, &q, &m))"] ∧
    secpImportNative = ["com.tuntun.rangers/node/src/common/secp256k1"] ∧
    secpImportEth = ["com.tuntun.rangers/node/src/eth_crypto/secp256k1"] :=
  ⟨rfl, rfl, rfl, rfl, rfl, rfl, rfl⟩

/-- At source level no check reads `SubTransactions`, `SubHash`, `ExtraDataType`, `RequestId` or
    `SocketRequestId` (the model's `unauthenticated_fields_ignored`): the selectors on `tx` in
    the whole verification path are exactly these (`ToTxJson` only feeds a log line). A check
    that starts reading another field — or stops reading one — breaks this obligation. -/
theorem verify_reads_only_authenticated_fields :
    verifyFieldsRead = ["VerifyTransaction: Hash,Type", "verifyTxChainId: ChainId,Hash",
      "verifyTransactionHash: GenHash,Hash", "verifyTransactionSign: Hash,Sign,Source",
      "verifyETHTx: ExtraData,Hash,ToTxJson",
      "compareTx: ChainId,Data,ExtraData,Hash,Nonce,Source,Target,Type",
      "GenHash: ChainId,Data,ExtraData,Nonce,Source,Target,Time,Type"] := rfl

/-- The fixed-width serialisations the model pads inside itself (`getIDInput`, `Sign.bytes`,
    `toAddress`, `bytesToSign`): `GetID` copies each coordinate right-aligned into its 32-byte
    slot, `Sign.Bytes` does the same for r and s, `Address.SetBytes` keeps the last 20 bytes,
    `BytesToSign` splits 32/32/1. A changed padding breaks this obligation (and `addr` ops). -/
theorem padding_shape :
    getIDBody = ["x := pk.PubKey.X.Bytes()", "y := pk.PubKey.Y.Bytes()", "digest := make([]byte, 64)",
      "copy(digest[32-len(x):], x)", "copy(digest[64-len(y):], y)", "d := sha3.NewKeccak256()",
      "d.Write(digest)", "hash := d.Sum(nil)", "return hash"] ∧
    getAddressBody = ["addrBuf := pk.GetID()", "return BytesToAddress(addrBuf[:])"] ∧
    addressSetBytesBody = ["if len(b) > len(a) { b = b[len(b)-AddressLength:] }", "copy(a[:], b[:])"] ∧
    signBytesBody = ["rb := s.r.Bytes()", "sb := s.s.Bytes()", "r := make([]byte, SignLength)",
      "copy(r[32-len(rb):32], rb)", "copy(r[64-len(sb):64], sb)", "r[64] = s.recid", "return r"] ∧
    bytesToSignBody = ["if len(b) == 65 { var r, s big.Int br := b[:32] r = *r.SetBytes(br) sr := b[32:64] s = *s.SetBytes(sr) recid := b[64] return &Sign{r, s, recid} } else { return nil }"] :=
  ⟨rfl, rfl, rfl, rfl, rfl⟩

/-- Shared state on the verification path (hardening classes 3c, 5, 7): no function on the path
    assigns a package-level variable or calls a store; the only fork flag read is
    `IsProposal001` (through `common.ChainId`); the package-level reads are the logger, the
    error values, `big8`, the chain configuration (`LocalChainConfig`, `Genesis`) and the two
    hasher pools; the only caches are the per-object `hash`/`from` atomics of a freshly
    decoded `eth_tx.Transaction`.  A new cache, a `sync.Once`, a new flag read or a store
    call on the path changes this list. -/
theorem path_shared_state :
    pathSharedState = [
      ("service.TxPool.VerifyTransaction", "", "txPoolLogger", "", "", ""),
      ("service.verifyTxChainId", "", "ErrChainId,txPoolLogger", "", "", ""),
      ("service.verifyTransactionHash", "", "ErrHash,txPoolLogger", "", "", ""),
      ("service.verifyTransactionSign", "", "ErrSign,txPoolLogger", "", "", ""),
      ("service.verifyETHTx", "", "ErrIllegal,ErrNil,txPoolLogger", "", "", ""),
      ("service.compareTx", "", "", "", "", ""),
      ("types.Transaction.GenHash", "", "", "", "", ""),
      ("eth_tx.ConvertTx", "", "", "", "", ""),
      ("eth_tx.Transaction.Hash", "", "", "", "", "tx.hash.Load,tx.hash.Store"),
      ("eth_tx.rlpHash", "", "hasherPool", "", "", "hasherPool.Get,hasherPool.Put"),
      ("eth_tx.isProtectedV", "", "", "", "", ""),
      ("eth_tx.Sender", "", "", "", "", "tx.from.Load,tx.from.Store"),
      ("eth_tx.EIP155Signer.Sender", "", "ErrInvalidChainId,big8", "", "", ""),
      ("eth_tx.HomesteadSigner.Sender", "", "", "", "", ""),
      ("eth_tx.EIP155Signer.Hash", "", "", "", "", ""),
      ("eth_tx.NewEIP155Signer", "", "", "", "", ""),
      ("eth_tx.recoverPlain", "", "ErrInvalidSig", "", "", ""),
      ("eth_tx.deriveChainId", "", "", "", "", ""),
      ("common.ChainId", "", "LocalChainConfig", "IsProposal001", "", ""),
      ("common.GetChainId", "", "Genesis", "", "", ""),
      ("common.IsProposal001", "", "LocalChainConfig", "isForked", "", ""),
      ("common.Sha256", "", "hasherPool", "", "", "hasherPool.Get,hasherPool.Put"),
      ("common.Sign.RecoverPubkey", "", "", "", "", ""),
      ("common.Sign.Bytes", "", "", "", "", ""),
      ("common.PublicKey.Verify", "", "", "", "", ""),
      ("common.PublicKey.GetAddress", "", "", "", "", ""),
      ("common.PublicKey.GetID", "", "", "", "", ""),
      ("common.BytesToPublicKey", "", "", "", "", ""),
      ("common.FromHex", "", "", "", "", ""),
      ("common.ToHex", "", "", "", "", "")] := rfl

/-- no function on the path writes a package-level variable or calls a store; the only fork
    flag is `IsProposal001` (via `isForked`) -/
theorem path_writes_nothing :
    pathSharedState.all (fun e => e.2.1 == "" && e.2.2.2.2.1 == "" &&
      (e.2.2.2.1 == "" || e.2.2.2.1 == "IsProposal001" || e.2.2.2.1 == "isForked")) = true := by decide

/-- The built-in chain configurations (the only inputs of `chainIdStr`): main net switches
    its chain id 8888 → 2025 at height 894116; the others never switch. -/
theorem chain_configs :
    chainConfigs = ["mainNetChainConfig ChainId='2025' OriginalChainId='8888' Proposal001Block=894116",
      "robinChainConfig ChainId='9527' OriginalChainId='9527' Proposal001Block=0",
      "devNetChainConfig ChainId='9500' OriginalChainId='9500' Proposal001Block=0",
      "subNetChainConfig ChainId='9500' OriginalChainId='9500' Proposal001Block=0"] ∧
    chainConfigSelection = ["devNetChainConfig",
      "mainNetChainConfig",
      "robinChainConfig",
      "subNetChainConfig"] := ⟨rfl, rfl⟩

/-- Every top-level guard of the verification path (`VerifyTransaction`, the three native checks,
    `verifyETHTx`, `compareTx`, `EIP155Signer.Sender`, `recoverPlain`), pinned: condition and
    the last statement of the guarded block. -/
theorem path_guards :
    pathGuards = [
      ("VerifyTransaction", "tx.Type==types.TransactionTypeETHTX", "return verifyETHTx(tx, height)", "return"),
      ("VerifyTransaction", "nil!=err", "return err", "return"),
      ("VerifyTransaction", "nil!=err", "return err", "return"),
      ("VerifyTransaction", "nil!=err", "return err", "return"),
      ("verifyTxChainId", "tx.ChainId!=expectedChainId", "return ErrChainId", "return"),
      ("verifyTransactionHash", "tx.Hash!=expectHash", "return ErrHash", "return"),
      ("verifyTransactionSign", "tx.Sign==nil", "return ErrSign", "return"),
      ("verifyTransactionSign", "err!=nil", "return ErrSign", "return"),
      ("verifyTransactionSign", "!pk.Verify(hashByte,tx.Sign)", "return ErrSign", "return"),
      ("verifyTransactionSign", "tx.Source!=expectAddr", "return ErrSign", "return"),
      ("verifyETHTx", "tx==nil", "return ErrNil", "return"),
      ("verifyETHTx", "err!=nil", "return ErrIllegal", "return"),
      ("verifyETHTx", "err!=nil||!bytes.Equal(canonicalTx,encodedTx)", "return ErrIllegal", "return"),
      ("verifyETHTx", "err!=nil", "return ErrIllegal", "return"),
      ("verifyETHTx", "!compareTx(tx,expectedTx)", "return ErrIllegal", "return"),
      ("compareTx", "tx==nil||expectedTx==nil", "return false", "return"),
      ("compareTx", "tx.Source!=expectedTx.Source||tx.Target!=expectedTx.Target||tx.Type!=expectedTx.Type||tx.ExtraData!=expectedTx.ExtraData", "return false", "return"),
      ("compareTx", "tx.Nonce!=expectedTx.Nonce||tx.ChainId!=expectedTx.ChainId||tx.Data!=expectedTx.Data||tx.Hash!=expectedTx.Hash", "return false", "return"),
      ("Sender", "!tx.Protected()", "return HomesteadSigner{}.Sender(tx)", "return"),
      ("Sender", "tx.ChainId().Cmp(s.chainId)!=0", "return common.Address{}, ErrInvalidChainId", "return"),
      ("recoverPlain", "Vb.BitLen()>8", "return common.Address{}, ErrInvalidSig", "return"),
      ("recoverPlain", "!crypto.ValidateSignatureValues(V,R,S,homestead)", "return common.Address{}, ErrInvalidSig", "return"),
      ("recoverPlain", "err!=nil", "return common.Address{}, err", "return"),
      ("recoverPlain", "len(pub)==0||pub[0]!=4", "return common.Address{}, errors.New(\"invalid public key\")", "return")] := rfl

/-- … and each of them ends by *returning*: no error branch logs and falls through (the model's
    `none`/error results stop the evaluation in exactly the same places). -/
theorem every_guard_returns : pathGuards.all (fun g => g.2.2.2 == "return") = true := by decide

/-- chain id by height: `ChainId` asks `IsProposal001(height)` = `height >= Proposal001Block`
    (so the current id is in force AT the fork block), `GetChainId` prefers a non-empty
    `Genesis.ChainId` (the model's `chainIdStr` / `ethChainId`). -/
theorem chain_id_shape :
    chainIdBody = ["if IsProposal001(height) { return LocalChainConfig.ChainId } else { return LocalChainConfig.OriginalChainId }"] ∧
    getChainIdBody = ["var chainIdStr string", "if nil != Genesis && 0 != len(Genesis.ChainId) { chainIdStr = Genesis.ChainId } else { chainIdStr = ChainId(height) }", "chainId, _ := big.NewInt(0).SetString(chainIdStr, 10)", "return chainId"] ∧
    isProposal001Body = ["return isForked(LocalChainConfig.Proposal001Block, height)"] ∧ isForkedBody = ["return height >= base"] := ⟨rfl, rfl, rfl, rfl⟩

/-- The signing path the model's `frontierSigValues`, `eip155SigValues`, `withSignature`,
    `signTx155`, `nativeSignBytes` follow: size check → panic, `sig[64] + 27` and `sig[64] + 35` in
    byte arithmetic, the `chainId.Sign() != 0` guard (the chain-id-0 quirk), `WithSignature`
    replacing exactly R, S, V, `SignTx` = Hash → Sign → WithSignature, the native wrapper's
    `sig[64] += 27` (absent in the eth_crypto copy). -/
theorem sign_path_shape :
    signPathBodies = ["FrontierSigner.SignatureValues: if len(sig) != crypto.SignatureLength { panic(fmt.Sprintf('wrong size for signature: got %d, want %d', len(sig), crypto.SignatureLength)) }",
      "FrontierSigner.SignatureValues: r = new(big.Int).SetBytes(sig[:32])",
      "FrontierSigner.SignatureValues: s = new(big.Int).SetBytes(sig[32:64])",
      "FrontierSigner.SignatureValues: v = new(big.Int).SetBytes([]byte{sig[64] + 27})",
      "FrontierSigner.SignatureValues: return r, s, v, nil",
      "EIP155Signer.SignatureValues: R, S, V, err = HomesteadSigner{}.SignatureValues(tx, sig)",
      "EIP155Signer.SignatureValues: if err != nil { return nil, nil, nil, err }",
      "EIP155Signer.SignatureValues: if s.chainId.Sign() != 0 { V = big.NewInt(int64(sig[64] + 35)) V.Add(V, s.chainIdMul) }",
      "EIP155Signer.SignatureValues: return R, S, V, nil",
      "HomesteadSigner.SignatureValues: return hs.FrontierSigner.SignatureValues(tx, sig)",
      "Transaction.WithSignature: r, s, v, err := signer.SignatureValues(tx, sig)",
      "Transaction.WithSignature: if err != nil { return nil, err }",
      "Transaction.WithSignature: cpy := &Transaction{ data: tx.data, time: tx.time, }",
      "Transaction.WithSignature: cpy.data.R, cpy.data.S, cpy.data.V = r, s, v",
      "Transaction.WithSignature: return cpy, nil",
      ".SignTx: h := s.Hash(tx)",
      ".SignTx: sig, err := crypto.Sign(h[:], prv)",
      ".SignTx: if err != nil { return nil, err }",
      ".SignTx: return tx.WithSignature(s, sig)",
      "PrivateKey.Sign: var sign Sign",
      "PrivateKey.Sign: sig, err := secp256k1.Sign(hash, pk.PrivKey.D.Bytes())",
      "PrivateKey.Sign: if err == nil { if len(sig) != 65 { fmt.Printf('secp256k1 sign wrong! hash = %v\n', hash) } sign = *BytesToSign(sig) } else { panic(fmt.Sprintf('Sign Failed, reason : %v.\n', err.Error())) }",
      "PrivateKey.Sign: return sign",
      "secp256k1.Sign: sig[64] = byte(recid)",
      "secp256k1.Sign: sig[64] += 27",
      "eth_crypto/secp256k1.Sign: sig[64] = byte(recid)"] := rfl

/-- `eth_tx.Sender`: cached address returned only when the cached signer `Equal`s the current one
    (EIP-155: same chain id); the cache is written only after a successful derivation. -/
theorem sender_cache_shape :
    senderCacheBody = ["if sc := tx.from.Load(); sc != nil { sigCache := sc.(sigCache) if sigCache.signer.Equal(signer) { return sigCache.from, nil } }",
      "addr, err := signer.Sender(tx)",
      "if err != nil { return common.Address{}, err }",
      "tx.from.Store(sigCache{signer: signer, from: addr})",
      "return addr, nil",
      "eip155, ok := s2.(EIP155Signer)",
      "return ok && eip155.chainId.Cmp(s.chainId) == 0"] := rfl

theorem signer_call_order :
    eip155SenderCalls = ["tx.Protected", "HomesteadSigner{}.Sender", "tx.ChainId().Cmp", "tx.ChainId",
      "new(big.Int).Sub", "new", "V.Sub", "recoverPlain", "s.Hash"] ∧
    recoverPlainCalls = ["Vb.BitLen", "crypto.ValidateSignatureValues", "crypto.Ecrecover", "crypto.Keccak256"] :=
  ⟨rfl, rfl⟩

/-- The reflected shape of `eth_tx.txdata` (C08's T-gen, regenerated by this check too) is
    the one `txOfItem` types the nine items with: uint64, big, uint64, `rlp:"nil"` *[20]byte,
    big, bytes, big, big, big.  A changed field type, order or tag breaks this obligation. -/
theorem txdata_shape :
    Rangers.Generated.C08.eth_tx_txdata =
      .struct [(.none, .uint 64), (.none, .big), (.none, .uint 64), (.nilOK, .ptr (.barr 20)),
        (.none, .big), (.none, .bytes), (.none, .big), (.none, .big), (.none, .big)] := rfl

end Rangers.Props.C07Facts
