import Rangers.Proofs.Bls14Twist
import Rangers.Props.C14W
import Rangers.Props.C14T
/-!
# C14, part 11 — the model's G2 arithmetic is the group law of the twist

GF(p²) is `QuadraticAlgebra (ZMod p) (-1) 0` — a field because `p ≡ 3 (mod 4)` — and the twist
`y² = x³ + 3/ξ` over it is a Mathlib `WeierstrassCurve`. `Pt2.neg / add / double / mul` (tied to
`G2.Neg / Add / ScalarMult` by the correspondence run) are its group operations; in particular the
twist is CLOSED under them, which removes the "on the twist" hypothesis from the public-key
round-trip theorems of part 7, and the key pair `(sk, sk·g₂)` of `GeneratePubkey` satisfies the
`Honest` relation of part 3 by proof rather than by assumption.
Hypothesis: `p` prime (as in C14W).
-/
namespace Rangers.Props.C14
open Rangers Rangers.Model.Bls14 Rangers.Proofs.Bls14

variable [hp : Fact (Nat.Prime P)]

theorem g2_neg_is_group_law (a : Pt2) (ha : Valid2 a) : Valid2 a.neg ∧ ι₂ a.neg = -ι₂ a :=
  ι₂_neg a ha

/-- `Pt2.add` — chord, tangent, opposite points, identity — is the group law of the twist, and the
    twist is closed under it. -/
theorem g2_add_is_group_law (a b : Pt2) (ha : Valid2 a) (hb : Valid2 b) :
    Valid2 (a.add b) ∧ ι₂ (a.add b) = ι₂ a + ι₂ b :=
  ι₂_add a b ha hb

theorem g2_mul_is_scalar_mul (a : Pt2) (ha : Valid2 a) (k : ℕ) (hk : k < 2 ^ 512) :
    Valid2 (Pt2.mul a k) ∧ ι₂ (Pt2.mul a k) = k • ι₂ a :=
  ι₂_mul a ha k hk

theorem g2_meaning_injective (a b : Pt2) (ha : Valid2 a) (hb : Valid2 b) (h : ι₂ a = ι₂ b) : a = b :=
  ι₂_inj a b ha hb h

omit hp in
theorem g2Gen_valid : Valid2 g2Gen := ⟨by decide, by decide⟩

/-- Every key `GeneratePubkey` produces is a point of the twist with reduced coordinates. -/
theorem generated_pubkey_valid (sk : ℕ) (hsk : sk < 2 ^ 512) : Valid2 (Pt2.mul g2Gen sk) :=
  (ι₂_mul g2Gen g2Gen_valid sk hsk).1

/-- **`generated_pubkey_roundtrip` at full strength**: for every secret key, the generated public
    key survives `Serialize` / `ByteToPublicKey` — unless it is the identity (the key of `sk ≡ 0`),
    which is the one value that does not (`identity_pubkey_not_roundtrip`). No "on the twist"
    hypothesis any more. -/
theorem generated_pubkey_roundtrip_full (sk : ℕ) (hsk : sk < 2 ^ 512)
    (hne : Pt2.mul g2Gen sk ≠ .inf) :
    byteToPublicKey (Pub.serialize (generatePubkey sk)) = generatePubkey sk := by
  have hv := generated_pubkey_valid sk hsk
  cases h : Pt2.mul g2Gen sk with
  | inf => exact absurd h hne
  | aff x y =>
    rw [h] at hv
    exact generated_pubkey_roundtrip sk x y (by simp [generatePubkey, h]) hv.1

example : Pt2.mul g2Gen 1 ≠ .inf := by decide +kernel

/-- Aggregates of valid keys are valid, and survive the round trip unless they are the identity. -/
theorem aggregated_pubkey_roundtrip_full (p : Pt2) (ps : List Pt2) (hp' : Valid2 p)
    (hps : ∀ q ∈ ps, Valid2 q) (r : Pt2) (h : aggregatePubkeys (p :: ps) = some r) :
    Valid2 r ∧ (r ≠ .inf → byteToPublicKey (Pub.serialize (.pt r)) = .pt r) := by
  have hv : Valid2 r := by
    simp only [aggregatePubkeys, Option.some.injEq] at h
    subst h
    induction ps generalizing p with
    | nil => exact hp'
    | cons q qs ih =>
      rw [List.foldl_cons]
      exact ih _ (ι₂_add p q hp' (hps q (by simp))).1 (fun q' hq' => hps q' (by simp [hq']))
  refine ⟨hv, fun hne => ?_⟩
  cases r with
  | inf => exact absurd rfl hne
  | aff x y =>
    have hr := hv.2
    simp only [Pt2.reduced, F2.isReduced, Bool.and_eq_true, decide_eq_true_eq] at hr
    exact pubkey_roundtrip x y ⟨hr.1.1, hr.1.2, hr.2.1, hr.2.2⟩ hv.1

section pairing
variable {GT : Type} [CommGroup GT]
  (e : W.Point → W2.Point → GT) (bil : Bilinear e) (nd : ∀ a, e a (ι₂ g2Gen) = 1 → a = 0)

/-- **The key pair of the node verifies its own signatures.** Both groups are the real ones
    (Mathlib's curve and twist), the key is what `GeneratePubkey` computes, the signature what
    `Sign` computes; ASSUMED is only the pairing (bilinear, trivial kernel against `g₂`). -/
theorem keypair_verifies (sk : ℕ) (hsk : sk < 2 ^ 512) (hm : Pt) (hv : Valid hm) :
    verifySig (curveInterp e bil ι₂ nd).pairEq hm (generatePubkey sk) (sign sk hm) = .accept :=
  sign_verifies e bil ι₂ nd sk hsk hm hv (Pt2.mul g2Gen sk) (ι₂_mul g2Gen g2Gen_valid sk hsk).2

/-- …and nothing else is accepted under that key. -/
theorem keypair_accepts_only_its_signature (sk : ℕ) (hsk : sk < 2 ^ 512) (hm : Pt) (hv : Valid hm)
    (sig : Sig) (hsr : ∀ s, sig = .pt s → s.reduced = true) :
    verifySig (curveInterp e bil ι₂ nd).pairEq hm (generatePubkey sk) sig = .accept ↔ sig = sign sk hm :=
  only_sign_verifies e bil ι₂ nd sk hsk hm hv (Pt2.mul g2Gen sk) (ι₂_mul g2Gen g2Gen_valid sk hsk).2 sig hsr

end pairing

end Rangers.Props.C14
