import Rangers.Proofs.Evm10Run
import Rangers.Proofs.Evm10Gas
/-!
# C10, part 5 — the per-opcode theorems compose along a run

For code made of pure stack instructions (arithmetic, comparison, bitwise, shifts, SIGNEXTEND,
BYTE, ADDMOD/MULMOD, EXP, PUSH0/PUSHn, DUPn, SWAPn, POP, JUMPDEST) the interpreter's `run` is
the fold `specFold` of the per-opcode word functions (`binFn/unFn/terFn`, each characterised by
its `_spec` theorem in `Props/C10.lean`) over the code decoded through the jump table: the loop
threads stack and pc exactly, never touches memory, and gas only decides *whether* a step
continues, never *what* it computes.
-/
namespace Rangers.Props.C10
open Rangers Rangers.Model.Evm10 Rangers.Model.Evm10.U256 Rangers.Proofs.Evm10
open Rangers.Generated.Evm10

/-- **Composition**: if `k` interpreter steps continue from `f` and the specification fold over the
same `k` instructions is defined, the interpreter is exactly at the fold's pc with the fold's
stack, with memory and code untouched. -/
theorem run_straightline (H : Bytes → Bytes) (t : Table) (p : GasParams) (ht : tableOK t = true)
    (k : Nat) (f fk : Frame) (hst : StepsTo H t p k f fk) (pc' : Nat) (st' : List Word)
    (hspec : specFold t f.code k f.pc f.stack = some (pc', st')) :
    fk.pc = pc' ∧ fk.stack = st' ∧ fk.mem = f.mem ∧ fk.code = f.code :=
  stepsTo_specFold ht hst (pc', st') hspec

/-- … and `run` from `f` is `run` from that frame with the remaining fuel, so the final outcome
of a program is the outcome of its last instruction (RETURN/STOP/…) on the folded state. -/
theorem run_continues (H : Bytes → Bytes) (t : Table) (p : GasParams) (k n : Nat) (f fk : Frame)
    (hst : StepsTo H t p k f fk) : run H t p (k + n) f = run H t p n fk :=
  run_of_stepsTo hst n

/-- the word functions the fold applies are the ones with `_spec` theorems: e.g. the slot of
byte 0x05 in every generated table folds `sdiv`, 0x1d folds `opSAR` (from `table_ops_bound`'s
table facts, here by evaluation) -/
theorem fold_uses_spec_functions :
    specFold (table 7) [0x60, 0x07, 0x60, 0x02, 0x03, 0x60, 0x03, 0x90, 0x05] 6 0 [] =
      some (9, [sdiv (sub (ofNat 2) (ofNat 7)) (ofNat 3)]) := by
  decide +kernel

/-- PUSH1 7, PUSH1 2, SUB, PUSH1 3, SWAP1, SDIV really runs for six steps with 1000 gas and
arrives where the fold says: (2 − 7) / 3 = −1 (truncated), i.e. 2^256 − 1. -/
example : ∃ fk, StepsTo (fun _ => []) (table 0) (gasParams false) 6
      (Frame.init [0x60, 0x07, 0x60, 0x02, 0x03, 0x60, 0x03, 0x90, 0x05] [] 1000) fk ∧
      fk.stack = [allOnes] ∧ fk.pc = 9 := by
  have h : (iterSteps (fun _ => []) (table 0) (gasParams false) 6
      (Frame.init [0x60, 0x07, 0x60, 0x02, 0x03, 0x60, 0x03, 0x90, 0x05] [] 1000)).map
        (fun fk => (fk.stack, fk.pc)) = some ([allOnes], 9) := by decide +kernel
  cases hi : iterSteps (fun _ => []) (table 0) (gasParams false) 6
      (Frame.init [0x60, 0x07, 0x60, 0x02, 0x03, 0x60, 0x03, 0x90, 0x05] [] 1000) with
  | none => rw [hi] at h; simp at h
  | some fk =>
    rw [hi] at h
    simp only [Option.map_some, Option.some.injEq, Prod.mk.injEq] at h
    exact ⟨fk, stepsTo_of_iter _ _ _ hi, h.1, h.2⟩


/-! ## Gas decides only whether, never what — memory opcodes and jumps included -/

/-- `execute` of every modelled function except GAS commutes with changing the gas bookkeeping. -/
theorem exec_gas_noninterference (H : Bytes → Bytes) (e : Exec) (f : Frame) (g l : Nat)
    (he : e ≠ .opGas) : execOp H e (setGas f g l) = mapGas g l (execOp H e f) :=
  execOp_setGas H e f g l he

/-- One interpreter step from two frames that differ only in gas, both continuing: the results
differ only in gas (stack, memory, pc, return data, code, call data all equal). -/
theorem step_gas_independent (H : Bytes → Bytes) (t : Table) (p : GasParams) (f fa fb : Frame)
    (g l : Nat) (ha : step H t p f = .next fa) (hb : step H t p (setGas f g l) = .next fb)
    (hng : ∀ info, t.get (getOp f.code f.pc) = some info → info.exec ≠ .opGas) :
    fb = setGas fa fb.gas fb.lastGasCost :=
  step_gas_noninterference ha hb hng

/-- **Along a whole run** (any mix of arithmetic, MSTORE/MLOAD/MCOPY/SHA3/copies, JUMP/JUMPI, …) of
code that does not contain an executable GAS slot: runs of equal length from frames that differ only
in gas stay equal in everything but gas.  With `run_straightline` and the per-opcode theorems this
is the composition statement for the memory opcodes and jumps: what a program computes is a function
of code, call data and initial stack/memory alone. -/
theorem run_gas_independent (H : Bytes → Bytes) (t : Table) (p : GasParams) (k : Nat)
    (f fa fb : Frame) (g l : Nat) (ha : StepsTo H t p k f fa) (hb : StepsTo H t p k (setGas f g l) fb)
    (hng : ∀ pc info, t.get (getOp f.code pc) = some info → info.exec ≠ .opGas) :
    fb = setGas fa fb.gas fb.lastGasCost :=
  stepsTo_gas_noninterference ha hb hng

/-- PUSH1 7, PUSH1 0, MSTORE, PUSH1 10, JUMP, INVALID, INVALID, JUMPDEST, PUSH1 0, MLOAD: eight steps
with 1000 gas and with 500 gas reach the same stack/memory/pc (memory write, jump, memory read). -/
example :
    (iterSteps (fun _ => []) (table 0) (gasParams false) 8
      (Frame.init [0x60, 0x07, 0x60, 0x00, 0x52, 0x60, 0x0a, 0x56, 0xfe, 0xfe, 0x5b, 0x60, 0x00, 0x51] [] 1000)).map
        (fun fk => (fk.stack, fk.pc, fk.mem.length)) = some ([ofNat 7], 14, 32) ∧
    (iterSteps (fun _ => []) (table 0) (gasParams false) 8
      (setGas (Frame.init [0x60, 0x07, 0x60, 0x00, 0x52, 0x60, 0x0a, 0x56, 0xfe, 0xfe, 0x5b, 0x60, 0x00, 0x51] [] 1000) 500 0)).map
        (fun fk => (fk.stack, fk.pc, fk.mem.length)) = some ([ofNat 7], 14, 32) := by
  constructor <;> decide +kernel

end Rangers.Props.C10
