import Rangers.Proofs.DecimalAux
/-!
# C18 (deepening) — the other amount helpers of `data_convert.go`

`Float64ToBigInt` (stakes: `MinerManager.AddStake`/`AddMiner` call it on `float64(uint64)`),
`Uint64ToBigInt` (refunds), `strconv.ParseUint(BigIntToStrWithoutDot(·))` (VM stake
instructions), `BigIntBase10toN` / `GenerateCallDataBigInt`. All theorems are about
`Rangers.Model.Decimal`, compared with the Go code by the ops `stake`, `f64`, `u64`,
`stakearg`, `basen`, `calldata`.
-/
namespace Rangers.Props.C18Aux
open Rangers.Decimal

/-! ## Float64ToBigInt -/

/-- **Float64ToBigInt is exact on the double it is given**: for every finite non-zero
    float64 `±m·2^e` the result is `trunc(±m·2^e·10^18)`; no binary rounding happens inside
    (whatever loss there is happened in the float64 arithmetic of the caller). -/
theorem float64_exact (bits : Nat) (neg : Bool) (m : Nat) (e : Int)
    (h : f64Decode bits = .fin neg m e) :
    float64ToBigInt bits = .ok (toInt (.fin neg (m * 1000000000000000000) e)) := by
  unfold float64ToBigInt
  rw [h]
  unfold f64Decode at h
  dsimp only at h
  have hf : bits % 2 ^ 52 < 2 ^ 52 := Nat.mod_lt _ (by positivity)
  have hee : bits / 2 ^ 52 % 2048 < 2048 := Nat.mod_lt _ (by norm_num)
  split_ifs at h with h1 h2 h3 h4
  all_goals (try (simp only [BF.fin.injEq] at h))
  · obtain ⟨_, rfl, rfl⟩ := h
    exact f64_mul_exact _ _ _ (by omega) (by omega) (by norm_num) (by norm_num)
  · obtain ⟨_, rfl, rfl⟩ := h
    exact f64_mul_exact _ _ _ (by positivity) (by omega) (by omega) (by omega)

example : f64Decode 4607182418800017408 = .fin false (2 ^ 52) (-52) ∧
    float64ToBigInt 4607182418800017408 = .ok 1000000000000000000 := by decide +kernel

/-- NaN is the only float64 on which `Float64ToBigInt` panics; ±Inf and ±0 give 0. -/
theorem float64_specials :
    float64ToBigInt 0x7ff8000000000000 = .panic ∧ float64ToBigInt 0x7ff0000000000000 = .ok 0 ∧
    float64ToBigInt 0xfff0000000000000 = .ok 0 ∧ float64ToBigInt 0 = .ok 0 ∧
    float64ToBigInt 0x8000000000000000 = .ok 0 := by decide +kernel

/-- **Stake conversion, all of uint64**: `Float64ToBigInt(float64(n))` is `10^18` times the
    float64 nearest to `n` (ties to even) — `float64(n)` is where a stake can be altered. -/
theorem stake_value (n : Nat) (hn : 0 < n) (hn2 : n < 2 ^ 64) :
    stakeToBigInt n =
      .ok (((roundMant .nearestEven 53 n false).1 * 2 ^ (roundMant .nearestEven 53 n false).2
            * 1000000000000000000 : ℕ) : Int) := by
  unfold stakeToBigInt u64ToF64
  rw [if_neg (by omega)]
  have hb64 : bitLen n ≤ 64 := bitLen_le_of_lt hn2
  have hpos := roundMant_pos .nearestEven 53 n false (by norm_num) hn
  have hs := roundMant_snd_le .nearestEven 53 n false
  have hle : (roundMant .nearestEven 53 n false).1 ≤ 2 ^ 53 := by
    by_cases hfit : bitLen n ≤ 53
    · rw [roundMant_fits _ _ hfit]
      exact Nat.le_of_lt (lt_of_lt_of_le (lt_two_pow_bitLen n) (Nat.pow_le_pow_right (by norm_num) hfit))
    · -- cut to 53 bits, possibly carrying to 2^53
      unfold roundMant
      simp only [hfit, if_false]
      have hlt : n / 2 ^ (bitLen n - 53) < 2 ^ 53 := by
        rw [Nat.div_lt_iff_lt_mul (Nat.two_pow_pos _), ← Nat.pow_add]
        have : 53 + (bitLen n - 53) = bitLen n := by omega
        rw [this]; exact lt_two_pow_bitLen n
      split <;> omega
  rw [f64_mul_exact false _ _ hpos hle (by omega) (by omega)]
  congr 1
  unfold toInt
  have hb := bitLen_pos (Nat.mul_pos hpos (by norm_num : 0 < 1000000000000000000))
  have hnn : ¬ ((bitLen ((roundMant .nearestEven 53 n false).1 * 1000000000000000000) : Int)
      + ((roundMant .nearestEven 53 n false).2 : Int) ≤ 0) := by omega
  simp only [hnn, if_false, Bool.false_eq_true]
  have hge : ((roundMant .nearestEven 53 n false).2 : Int) ≥ 0 := by omega
  simp only [hge, if_true, Int.toNat_natCast]
  congr 1
  ring

/-- **Stake exactness domain**: below `2^53` whole coins the stake is converted exactly,
    and agrees with what `Uint64ToBigInt` (the refund path) computes for the same number. -/
theorem stake_exact (n : Nat) (h : n < 2 ^ 53) :
    stakeToBigInt n = .ok ((n : Int) * 10 ^ 18) ∧ stakeToBigInt n = .ok (uint64ToBigInt n) := by
  have key : stakeToBigInt n = .ok ((n : Int) * 10 ^ 18) := by
    rcases Nat.eq_zero_or_pos n with h0 | h0
    · subst h0; decide +kernel
    · rw [stake_value n h0 (lt_trans h (by norm_num)),
        roundMant_fits .nearestEven false (bitLen_le_of_lt h)]
      push_cast; ring_nf
  exact ⟨key, by rw [key]; unfold uint64ToBigInt; norm_num⟩

example : stakeToBigInt 9007199254740991 = .ok (9007199254740991 * 10 ^ 18) := by decide +kernel

/-- what one would like: exact for every uint64 stake -/
def FullStatementStakeExact : Prop := ∀ n : Nat, n < 2 ^ 64 → stakeToBigInt n = .ok ((n : Int) * 10 ^ 18)

/-- `stake_exact` is the provable restriction (`n < 2^53`) of `FullStatementStakeExact`. -/
theorem stake_exact_partial (n : Nat) (h : n < 2 ^ 53) : stakeToBigInt n = .ok ((n : Int) * 10 ^ 18) :=
  (stake_exact n h).1

/-- `2^53 + 1` coins are charged as `2^53` coins (replayed on the real code: corpus
    `stake 9007199254740993`), while the refund path (`Uint64ToBigInt`) is exact: the two
    disagree above `2^53`. Far above any reachable stake; recorded for C20/C06. -/
theorem stake_exact_counterexample : ¬ FullStatementStakeExact := by
  intro h
  have := h (2 ^ 53 + 1) (by norm_num)
  revert this
  decide +kernel

/-! ## ParseUint(BigIntToStrWithoutDot(money)) — VM stake / unstake argument -/

/-- The whole-coin part: for `money ≥ 0` the VM reads `⌊money / 10^18⌋` when it fits 64
    bits and fails otherwise; a negative amount fails (the '-' is not a digit). -/
theorem stakeArg_value (money : Int) (h : 0 ≤ money) :
    stakeArg money =
      if money.natAbs / 10 ^ 18 < 2 ^ 64 then some (money.natAbs / 10 ^ 18) else none := by
  unfold stakeArg BigIntToStrWithoutDot BigIntToStr
  by_cases h0 : money = 0
  · subst h0; decide +kernel
  · rw [if_neg h0]
    obtain ⟨first, last, hs, hd1, hd2, hlen, hne, hdot, hval⟩ := bigIntToStr_shape money 18
    have hs' : bigIntToStr money 18 = signStr (if money < 0 then some true else none) ++ plainBody first last (18 != 0) := hs
    have hnn : ¬ money < 0 := by omega
    rw [hs', if_neg hnn]
    have hpre : ∀ c ∈ first, (c != '.') = true := by
      intro c hc
      have := isDig_ne_dot (hd1 c hc)
      simpa using this
    have htw : List.takeWhile (fun x => x != '.') (signStr none ++ plainBody first last (18 != 0)) = first := by
      have : signStr none ++ plainBody first last (18 != 0) = first ++ '.' :: last := by
        unfold plainBody signStr; simp
      rw [this, List.takeWhile_append_of_pos hpre]; simp
    rw [htw]
    -- value of `first`
    have hsplit : Nat.ofDigitChars 10 (first ++ last) 0 =
        Nat.ofDigitChars 10 first 0 * 10 ^ last.length + Nat.ofDigitChars 10 last 0 := by
      rw [Nat.ofDigitChars_append, Nat.ofDigitChars_eq_ofDigitChars_zero, Nat.mul_comm]
    rw [hval, hlen] at hsplit
    have hlast : Nat.ofDigitChars 10 last 0 < 10 ^ 18 := by
      have := ofDigitChars_lt last hd2
      rwa [hlen] at this
    have hv : money.natAbs / 10 ^ 18 = Nat.ofDigitChars 10 first 0 := by
      rw [hsplit, Nat.add_comm, Nat.add_mul_div_right _ _ (by positivity), Nat.div_eq_of_lt hlast,
        Nat.zero_add]
    unfold parseUint64
    rw [if_neg hne]
    have hall : first.all isDig = true := by
      rw [List.all_eq_true]; exact hd1
    rw [hall, hv]
    simp

example : stakeArg 1234567890123456789012 = some 1234 ∧ stakeArg (-5) = none ∧
    stakeArg (2 ^ 64 * 10 ^ 18) = none := by decide +kernel

/-- `Uint64ToBigInt n = n · 10^18` (refund path), and the VM's whole-coin reader gives `n` back. -/
theorem uint64_exact (n : Nat) (h : n < 2 ^ 64) :
    uint64ToBigInt n = (n : Int) * 10 ^ 18 ∧ stakeArg (uint64ToBigInt n) = some n := by
  have h1 : uint64ToBigInt n = (n : Int) * 10 ^ 18 := by unfold uint64ToBigInt; norm_num
  refine ⟨h1, ?_⟩
  rw [stakeArg_value _ (by rw [h1]; positivity), h1]
  have : ((n : Int) * 10 ^ 18).natAbs = n * 10 ^ 18 := by
    rw [Int.natAbs_mul, Int.natAbs_pow]; rfl
  rw [this, Nat.mul_div_cancel _ (by positivity), if_pos h]

/-! ## BigIntBase10toN / GenerateCallDataBigInt -/

/-- **BigIntBase10toN is a faithful base-`b` numeral** (`2 ≤ b ≤ 16`): reading the digits
    back gives `n`, and the result is empty exactly for `n = 0`. -/
theorem baseN_roundtrip (n b : Nat) (hb1 : 2 ≤ b) (hb2 : b ≤ 16) :
    ofBaseDigits b (bigIntBase10toN n b) = n ∧ (bigIntBase10toN n b = [] ↔ n = 0) := by
  have key : ∀ n, ofBaseDigits b (Nat.toDigits b n) = n := by
    intro n
    induction n using Nat.base_induction b (by omega) with
    | single m hm =>
      rw [Nat.toDigits_of_lt_base hm]
      simp [ofBaseDigits, digVal36_digitChar m (by omega : m < 16)]
    | digit m k hk hm ih =>
      rw [← Nat.toDigits_append_toDigits (by omega) hm hk, Nat.toDigits_of_lt_base hk]
      unfold ofBaseDigits at ih ⊢
      rw [List.foldl_append, ih]
      simp [digVal36_digitChar k (by omega : k < 16)]
  unfold bigIntBase10toN
  by_cases h0 : n = 0
  · subst h0; simp [ofBaseDigits]
  · rw [if_neg h0]
    exact ⟨key n, by simp [h0, Nat.toDigits_ne_nil]⟩

example : bigIntBase10toN 255 16 = "ff".toList ∧ bigIntBase10toN 0 16 = [] := by decide +kernel

/-- **Call-data word**: for `n < 2^256` the padded string has exactly 64 hex digits and its
    value is `n` (so it is the 32-byte big-endian word of `n`). -/
theorem callData_word (n : Nat) (h : n < 2 ^ 256) :
    (callDataBigInt n).length = 64 ∧ ofBaseDigits 16 (callDataBigInt n) = n := by
  unfold callDataBigInt
  dsimp only
  have hlen : (bigIntBase10toN n 16).length ≤ 64 := by
    unfold bigIntBase10toN
    by_cases h0 : n = 0
    · simp [h0]
    · rw [if_neg h0]
      rw [Nat.length_toDigits_le_iff (by norm_num) (by norm_num)]
      calc n < 2 ^ 256 := h
        _ = 16 ^ 64 := by norm_num
  constructor
  · rw [List.length_append, List.length_replicate]; omega
  · have hz : ∀ k (l : Str), ofBaseDigits 16 (List.replicate k '0' ++ l) = ofBaseDigits 16 l := by
      intro k l
      induction k with
      | zero => simp
      | succ k ih =>
        rw [List.replicate_succ, List.cons_append]
        unfold ofBaseDigits at ih ⊢
        rw [List.foldl_cons]
        have : 16 * 0 + digVal36 '0' = 0 := by decide
        rw [this]; exact ih
    rw [hz]
    exact (baseN_roundtrip n 16 (by norm_num) (by norm_num)).1

example : callDataBigInt 255 = (List.replicate 62 '0' ++ "ff".toList) := by decide +kernel

end Rangers.Props.C18Aux
