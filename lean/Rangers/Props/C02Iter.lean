import Rangers.Proofs.TrieIterMachine
import Rangers.Props.C02
/-!
# C02, the NodeIterator stack machine (`Model/TrieIter.lean`)

Proved: **full iteration** (`NodeIterator(nil)`, what `Iterator` consumers such as `MinerIterator` use)
by the stack machine — `seek`, `peek`, `nextChild`, `push`, `pop`, `Next`, leaf selection — returns
exactly `iterFrom t []`, for every minimal-form trie (`iterator_machine_full`, by a big-step
"draining" invariant over the frame stack), hence after any history exactly the live pairs in
hex-path order, a key after its proper extensions (`machine_iter_complete`, `machine_order_bytes`);
the slot order of `nextChild`; witnesses by kernel evaluation.
Not proved: iteration from a non-empty start key (`seekLoop` with `descend = HasPrefix(key, path)`);
that case is checked at run time (the driver runs machine and `iterFrom` side by side on every
`iter` op and flags a difference) and by the correspondence run against the Go iterator.
-/
namespace Rangers.Props.C02Iter
open Rangers Rangers.Trie

/-- **the stack machine = the specification**, full iteration -/
theorem iterator_machine_full (t : Node) (ht : WFRoot t) : iterMachine t [] = iterFrom t [] :=
  iterMachine_full t ht

/-- after any history the machine returns exactly the live pairs -/
theorem machine_iter_complete (ops : List Op) (k v : Bytes) :
    (k, v) ∈ iterMachine (run ops) [] ↔ finalMap ops k = some v := by
  rw [iterMachine_full _ (C02.run_wf ops)]; exact C02.iter_complete ops k v

/-- …in the order of the known finding: bytewise ascending except that a key follows every
    longer key it is a proper prefix of -/
theorem machine_order_bytes (ops : List Op) :
    (iterMachine (run ops) []).Pairwise
      (fun e1 e2 => (e1.1 < e2.1 ∧ ¬ e1.1 <+: e2.1) ∨ (e2.1 <+: e1.1 ∧ e2.1 ≠ e1.1)) := by
  rw [iterMachine_full _ (C02.run_wf ops)]; exact C02.iter_order_bytes ops

-- non-vacuity
example : WFRoot (run [.upd [0] [1], .upd [0, 0] [2]]) := C02.run_wf _

/-- `nextChild` on a full node returns the first occupied slot at or after `from`, in ascending
    slot order — so the value slot 16 comes after every child slot 0..15 -/
theorem firstChild_spec (cs : List Node) (frm i : Nat) (c : Node) (h : firstChild cs frm = some (i, c)) :
    frm ≤ i ∧ i < cs.length ∧ c = cs.getD i .nil ∧ c ≠ .nil ∧
    ∀ j, frm ≤ j → j < i → cs.getD j .nil = .nil :=
  firstChild_some h

/-- the stack machine on the finding's witness: after writing keys `00` and `0000`, the longer
    key is returned first (compare `Props.C02.iter_ascending_counterexample`) -/
theorem machine_prefix_key_order :
    iterMachine (run [.upd [0] [1], .upd [0, 0] [2]]) [] = [([0, 0], [2]), ([0], [1])] := by decide

/-- seek: iteration from a start key returns the paths `>=` it in path order — including a key
    that is bytewise smaller than the start key when it is a proper prefix of it (`00` for start `0001`) -/
theorem machine_seek_witness :
    iterMachine (run [.upd [0] [1], .upd [0, 0] [2], .upd [0, 2] [3], .upd [1] [4]]) [0, 1]
      = [([0, 2], [3]), ([0], [1]), ([1], [4])] ∧
    iterFrom (run [.upd [0] [1], .upd [0, 0] [2], .upd [0, 2] [3], .upd [1] [4]]) [0, 1]
      = [([0, 2], [3]), ([0], [1]), ([1], [4])] := by decide

end Rangers.Props.C02Iter
