import Rangers.Model.TrieIter
import Rangers.Model.TrieSpec
import Rangers.Proofs.TrieWF
/-!
# C02, the NodeIterator stack machine (`Model/TrieIter.lean`)

The general statement `iterMachine t start = iterFrom t start` is **not proved**; it is checked
at run time (the driver runs both on every `iter` op and flags a difference) and by the
correspondence run against the Go iterator.  Proved here: the order in which `nextChild`
visits the slots of a full node (the cause of finding `iter-order-prefix-keys`), and the machine's
answers on the finding's witness and on seek witnesses, by kernel evaluation.
-/
namespace Rangers.Props.C02Iter
open Rangers Rangers.Trie

/-- `nextChild` on a full node returns the first occupied slot at or after `from`, in ascending
    slot order — so the value slot 16 comes after every child slot 0..15 -/
theorem firstChild_spec (cs : List Node) (frm i : Nat) (c : Node) (h : firstChild cs frm = some (i, c)) :
    frm ≤ i ∧ i < cs.length ∧ c = cs.getD i .nil ∧ c ≠ .nil ∧
    ∀ j, frm ≤ j → j < i → cs.getD j .nil = .nil := by
  unfold firstChild at h
  cases hf : (List.range cs.length).filter (fun i => frm ≤ i && !isNil (cs.getD i .nil)) with
  | nil => rw [hf] at h; simp at h
  | cons x xs =>
    rw [hf] at h
    simp only [List.head?_cons, Option.map_some, Option.some.injEq, Prod.mk.injEq] at h
    obtain ⟨rfl, rfl⟩ := h
    have hx : x ∈ (List.range cs.length).filter (fun i => frm ≤ i && !isNil (cs.getD i .nil)) := by rw [hf]; simp
    simp only [List.mem_filter, List.mem_range, Bool.and_eq_true, decide_eq_true_eq, Bool.not_eq_true'] at hx
    refine ⟨hx.2.1, hx.1, rfl, (isNil_false_iff _).mp hx.2.2, fun j hj1 hj2 => ?_⟩
    -- `range` is ascending, so anything the filter kept before `x` would come first
    by_cases hne : cs.getD j .nil = .nil
    · exact hne
    exfalso
    have hjm : j ∈ (List.range cs.length).filter (fun i => frm ≤ i && !isNil (cs.getD i .nil)) := by
      simp only [List.mem_filter, List.mem_range, Bool.and_eq_true, decide_eq_true_eq, Bool.not_eq_true']
      exact ⟨by omega, hj1, (isNil_false_iff _).mpr hne⟩
    have hsorted : ((List.range cs.length).filter (fun i => frm ≤ i && !isNil (cs.getD i .nil))).Pairwise (· < ·) :=
      List.Pairwise.filter _ (List.pairwise_lt_range)
    rw [hf] at hsorted hjm
    have := (List.pairwise_cons.mp hsorted).1
    cases hjm with
    | head => omega
    | tail _ h' => have := this j h'; omega

/-- the stack machine on the finding's witness: after writing keys `00` and `0000`, the longer
    key is returned first (compare `Props.C02.iter_ascending_counterexample`) -/
theorem machine_prefix_key_order :
    iterMachine (run [.upd [0] [1], .upd [0, 0] [2]]) [] = [([0, 0], [2]), ([0], [1])] := by decide

/-- seek: iteration from a start key returns the paths `>=` it in path order — including a key
    that is bytewise smaller than the start key when it is a proper prefix of it (`00` for start `0001`) -/
theorem machine_seek_witness :
    iterMachine (run [.upd [0] [1], .upd [0, 0] [2], .upd [0, 2] [3], .upd [1] [4]]) [0, 1]
      = [([0, 2], [3]), ([0], [1]), ([1], [4])] ∧
    iterFrom (run [.upd [0] [1], .upd [0, 0] [2], .upd [0, 2] [3], .upd [1] [4]]) [0, 1]
      = [([0, 2], [3]), ([0], [1]), ([1], [4])] := by decide

end Rangers.Props.C02Iter
