import Rangers.Proofs.Evm12Logs
/-!
# C12, clause 3: per-transaction scratch state and receipt logs

`Prepare` is called before each transaction only under Proposal013 (`vmexecutor.go:80`), and only
then do receipts take `GetLogs(tx.Hash)`; the theorems say so (`cfg.p013 = true`).
-/
namespace Rangers.Props.C12B
open Rangers.Model.Evm12

/-- `AccountDB.Prepare`: fresh access list, new stamping context, observation untouched -/
theorem prepare_resets (w : World) (h i : Nat) :
    (∀ a, (prepare w h i).inAccessList a = false) ∧ (prepare w h i).thash = h
    ∧ (prepare w h i).txIndex = i ∧ obs (prepare w h i) = obs w :=
  ⟨fun _ => rfl, rfl, rfl, rfl⟩

/-- every transaction starts with an empty access list, whatever the earlier transactions of the
    block put into it, and `GetLogs` of its (so far unused) hash is empty -/
theorem tx_scratch_fresh_partial (cfg : Cfg) (h13 : cfg.p013 = true) (i : Nat) (w : World) (tx : Tx)
    (hfresh : w.getLogs tx.hash = []) :
    (∀ a, (txStartWorld cfg i w tx).inAccessList a = false)
    ∧ (txStartWorld cfg i w tx).getLogs tx.hash = [] := by
  simp only [txStartWorld, h13, ↓reduceIte]
  exact ⟨fun _ => rfl, hfresh⟩

example : ({ access := [.base 1], transient := [((.base 20, 1), 9)] } : World).getLogs 2 = [] := rfl

/-- the clause as stated: empty access list AND empty transient storage -/
def FullStatementTxScratchFresh : Prop :=
  ∀ (cfg : Cfg), cfg.p013 = true → ∀ (i : Nat) (w : World) (tx : Tx) (a : Addr) (k : Nat),
    (txStartWorld cfg i w tx).inAccessList a = false ∧ (txStartWorld cfg i w tx).getTransient a k = 0

/-- False of model and code: `Prepare` does not touch `transientStorage` (generated fact
    `prepare_assigns_as_modelled`), so a TSTORE of the previous transaction is still read.
    Replayed on the implementation (known finding `tx-scratch:transient-not-reset`). -/
theorem tx_scratch_fresh_counterexample : ¬ FullStatementTxScratchFresh := by
  intro h
  have := (h {} rfl 1 { transient := [((.base 20, 1), 9)] }
    { hash := 2, origin := .base 10, kind := .call (.base 21), value := 0, body := .done .stop } (.base 20) 1).2
  revert this
  decide

/-- Under Proposal013 the logs attached to a receipt are exactly the logs the transaction added
    to the state object and that were not reverted: the world's log list grows by precisely
    `receipt.logs`, each stamped with this transaction's hash -- whatever `w` (the earlier
    transactions' effects) is, provided the hash was not used before. -/
theorem receipt_logs_exact (cfg : Cfg) (h13 : cfg.p013 = true) (rv : World → World → World)
    (hrv : RevertRestoresObs rv) (hkc : RevertKeepsTxContext rv) (i : Nat) (w : World) (tx : Tx)
    (hfresh : w.getLogs tx.hash = []) :
    (execTx cfg rv i w tx).1.logs = w.logs ++ (execTx cfg rv i w tx).2.logs
    ∧ ∀ l ∈ (execTx cfg rv i w tx).2.logs, l.txh = tx.hash := by
  -- the world after Prepare, the frame result, the block loop's own revert, the nonce bump
  have key : ∀ (w3 : World), LogsExtend (prepare w tx.hash i) w3 →
      w3.logs = w.logs ++ w3.getLogs tx.hash ∧ ∀ l ∈ w3.getLogs tx.hash, l.txh = tx.hash := by
    intro w3 hext
    obtain ⟨_, _, new, hl, hnew⟩ := hext
    have hp : (prepare w tx.hash i).logs = w.logs := rfl
    have ht : (prepare w tx.hash i).thash = tx.hash := rfl
    rw [hp] at hl
    rw [ht] at hnew
    have hf : w3.getLogs tx.hash = new := by
      unfold World.getLogs at hfresh ⊢
      rw [hl, List.filter_append, hfresh, List.nil_append]
      exact List.filter_eq_self.mpr (fun l hlm => by simp [hnew l hlm])
    rw [hf]
    exact ⟨hl, hnew⟩
  have hext : LogsExtend (prepare w tx.hash i) (execTx cfg rv i w tx).1 := by
    have hfr : ∀ w0, LogsExtend w0 (txFrame cfg rv tx w0).world := by
      intro w0
      unfold txFrame
      cases tx.kind with
      | create =>
        exact createFrameK_extend (cfg.env rv tx.origin) hrv hkc 0 false tx.origin false 0 tx.value _
          (fun d r s w1 => run_extend (cfg.env rv tx.origin) hrv hkc tx.body d r s w1 [] []) w0
      | call target =>
        simp only
        have h1 : LogsExtend w0 (if cfg.p007 = true then w0.setNonce tx.origin (w0.getNonce tx.origin + 1) else w0) := by
          split
          · exact LogsExtend.of_same (World.same_setNonce _ _ _)
          · exact LogsExtend.refl w0
        exact h1.trans (callFrameK_extend (cfg.env rv tx.origin) hrv hkc 0 false tx.origin .call target tx.value _ _
          (fun d r s w1 => run_extend (cfg.env rv tx.origin) hrv hkc tx.body d r s w1 [] []) _)
    have hfin : ∀ w0 r, LogsExtend w0 r.world → LogsExtend w0 (txFinish cfg rv tx w0 r) := by
      intro w0 r hr
      unfold txFinish
      have h2 : LogsExtend w0 (if r.err.isSome = true then rv w0 r.world else r.world) := by
        split
        · exact LogsExtend.revert hrv hkc _ (LogsExtend.refl w0)
        · exact hr
      simp only
      split
      · exact h2.same_right (World.same_setNonce _ _ _)
      · exact h2
    unfold execTx
    simp only [h13, ↓reduceIte]
    exact hfin _ _ (hfr _)
  have hk := key _ hext
  have hlogs : (execTx cfg rv i w tx).2.logs = (execTx cfg rv i w tx).1.getLogs tx.hash := by
    unfold execTx
    simp only [h13, ↓reduceIte]
  rw [hlogs]
  exact hk

example : RevertRestoresObs restore ∧ RevertKeepsTxContext restore :=
  ⟨restore_restoresObs, restore_keepsTxContext⟩

/-- non-vacuity: two transactions back to back; the second one's receipt carries its own LOG only,
    not the first one's and not the one of its reverted sub-frame -/
example :
    let cfg : Cfg := {}
    let w0 : World := (({} : World).setCode (.base 20) .hosted).setCode (.base 21) .hosted
    let t1 : Tx := { hash := 1, origin := .base 10, kind := .call (.base 20), value := 0, body := .log 1 11 (.done .stop) }
    let t2 : Tx := { hash := 2, origin := .base 10, kind := .call (.base 21), value := 0,
                     body := .call 1 .call (.base 20) 0 (.log 0 12 (.done .revert)) (.log 0 21 (.done .stop)) }
    let p1 := execTx cfg restore 0 w0 t1
    let p2 := execTx cfg restore 1 p1.1 t2
    p2.2.logs.map (·.tag) = [21] ∧ p1.2.logs.map (·.tag) = [11] ∧ p2.1.logs.map (·.tag) = [11, 21] := by
  decide

/-- the clause for every fork configuration, and for the log list `evm.Call` returns (which is
    what the receipt's result JSON shows) -/
def FullStatementReceiptLogsExact : Prop :=
  ∀ (cfg : Cfg) (rv : World → World → World), RevertRestoresObs rv → RevertKeepsTxContext rv →
    ∀ (i : Nat) (w : World) (tx : Tx), w.getLogs tx.hash = [] →
      (execTx cfg rv i w tx).1.logs = w.logs ++ (execTx cfg rv i w tx).2.logs
      ∧ (execTx cfg rv i w tx).2.returned = (execTx cfg rv i w tx).2.logs

/-- False of model and code: a REVERTing frame hands its `callContext.logs` back
    (`interpreter.go:267`) and the caller appends them whatever the error (`opCall`), so the returned
    list -- and before Proposal013 `receipt.Logs` -- contains the LOG of a reverted sub-frame.
    Replayed on the implementation (known findings `returned-logs:reverted-subframe`,
    `receipt-logs:pre013`). -/
theorem receipt_logs_exact_counterexample : ¬ FullStatementReceiptLogsExact := by
  intro h
  have := (h {} restore restore_restoresObs restore_keepsTxContext 0
    ((({} : World).setCode (.base 20) .hosted).setCode (.base 22) .hosted)
    { hash := 1, origin := .base 10, kind := .call (.base 20), value := 0,
      body := .call 2 .call (.base 22) 0 (.log 2 77 (.done .revert)) (.done .stop) } rfl).2
  have h2 := congrArg List.length this
  revert h2
  decide

end Rangers.Props.C12B
