import Rangers.Generated.Bn256Consts
import Rangers.Generated.C13Sites
import Rangers.Proofs.C13GroupK
/-!
# C13 — facts tied to constants and call sites regenerated from the source (T-gen)

Kept in their own module so that a changed constant or a new call site breaks exactly these
obligations and not the arithmetic theorems of `Props/C13.lean`.
-/
namespace Rangers.Props.C13Facts
open Rangers.Model.Shamir Rangers.Proofs.C13 Rangers.Generated

/-! ## The threshold `GetGroupK` -/

/-- **groupK_formula**: with the constants read from `param.go`, the float expression
    `int(math.Ceil(float64(n*51)/100))` (modelled bit-exactly by `fdiv53`/`ceilDyadic`) is the integer
    ceiling `⌈51n/100⌉`, for every group size below `2^46`. -/
theorem groupK_formula (n : Nat) (hn : n < 2 ^ 46) :
    getGroupK Bn256.ssssThreshold Bn256.groupKDivisor n = some ((n * 51 + 99) / 100) :=
  getGroupK_51 n hn

/-- The threshold is a strict majority and never exceeds the group size, so threshold subsets
    exist and the dealt polynomial has degree `k-1 ≥ 0`. Breaks if `SSSS_THRESHOLD` leaves
    `(50, 100]` or the divisor changes. -/
theorem groupK_bounds (n k : Nat) (hn0 : 0 < n) (hn : n < 2 ^ 46)
    (hk : getGroupK Bn256.ssssThreshold Bn256.groupKDivisor n = some k) : 1 ≤ k ∧ k ≤ n ∧ n < 2 * k :=
  getGroupK_51_bounds n k hn0 hn hk

example : getGroupK Bn256.ssssThreshold Bn256.groupKDivisor 10 = some 6 ∧
    getGroupK Bn256.ssssThreshold Bn256.groupKDivisor 3 = some 2 := by decide

/-- The configured group sizes are inside the range of `groupK_formula`. -/
theorem group_size_range :
    1 ≤ Bn256.groupMinMembersDev ∧ Bn256.groupMinMembersDev ≤ Bn256.groupMinMembers ∧
    Bn256.groupMinMembers ≤ Bn256.groupMaxMembers ∧ Bn256.groupMaxMembers < 2 ^ 46 := by decide

/-! ## Facts regenerated from the source (T-gen) -/

/-- Every site that fixes a threshold — dealing (`genSecKeyList`) and recovery
    (`New/newGroupSignGenerator`) — takes it from `model.Param.GetGroupK`. A new call site with
    another expression makes this false. -/
theorem threshold_sites_use_groupK :
    C13Sites.thresholdSites.all (·.viaGroupK) = true ∧
    C13Sites.thresholdSites.any (·.callee == "genSecKeyList") = true ∧
    C13Sites.thresholdSites.any (·.callee == "newGroupSignGenerator") = true := by decide

/-- Every call of `RecoverGroupSignature` passes `(witnessSignMap, threshold)` and is reached only
    under `len(witnessSignMap) >= threshold`, so the panic branch `fewer than k entries` of the
    model is unreachable from the node. -/
theorem recover_calls_guarded :
    C13Sites.recoverSites.all (·.guardedByLenGeThreshold) = true ∧ C13Sites.recoverSites ≠ [] := by decide

/-- `logical.groupSignGenerator` (used by `round1`) is statement-for-statement the code of
    `model.GroupSignGenerator` (which the harness drives and `SignGen` models), locks aside. -/
theorem sign_generator_twin_same :
    C13Sites.twinMethods.all (·.2) = true ∧ C13Sites.twinMethods.length = 4 := by decide

/-- No function of packages `groupsig`, `groupsig/bn256`, `base` writes a package-level variable
    (assignment, increment/decrement, a mutating method or `gfpXxx(dst, …)` helper applied to one): results cannot
    depend on process-local history through package state. A scratch buffer or a constant mutated
    through an alias (also a local bound directly to a package variable) makes this false. -/
theorem path_writes_no_package_state :
    C13Sites.packageStateWrites = [] ∧ 20 ≤ C13Sites.pathFilesScanned := by decide

/-- No fork flag (`IsProposalNNN`, `LocalChainConfig`, `GetBlockHeight`) is read on the property's
    path (groupsig, bn256, base, the generators, `groupNodeInfo`, `GetGroupK`): the behaviour proved
    here is the same under every fork schedule and height. -/
theorem path_reads_no_fork_flag : C13Sites.forkFlagReads = [] := by decide

/-- The generator part of `round1.Update` is, statement for statement, what `Model.Shamir.round1Update`
    transcribes: block-signature share first, nothing else if it was not added, then the beacon
    share, header fields and `canProcessed` only under `radd && generate && rgen`; and the nil guard on
    the beacon share is there. A reordering, a dropped guard or a changed condition breaks this. -/
theorem round1_update_tail_pinned :
    C13Sites.round1UpdateTail =
      ["add, generate := r.gSignGenerator.AddWitnessSign(si.GetSignerID(), si.GetSignature())",
       "if !add { return nil }",
       "radd, rgen := r.rSignGenerator.AddWitnessSign(si.GetSignerID(), *sig)",
       "if radd && generate && rgen { bh.Signature = r.gSignGenerator.GetGroupSign().Serialize() ; bh.Random = r.rSignGenerator.GetGroupSign().Serialize() ; r.canProcessed = true }",
       "return nil"] ∧
    C13Sites.round1RandomNilGuard = true := ⟨rfl, rfl⟩

/-- Every `Lock()` / `RLock()` in `model.GroupSignGenerator`, `groupNodeInfo` and the round file is
    immediately followed by the matching `defer …Unlock()`: no return path can keep a lock (a kept
    lock makes every later `AddWitnessSign` / `SignRecovered` block forever). -/
theorem locks_are_deferred_unlocked :
    C13Sites.lockWithoutDeferUnlock = [] ∧ 5 ≤ C13Sites.lockStatementsSeen := by decide

end Rangers.Props.C13Facts
