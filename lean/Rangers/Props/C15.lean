import Rangers.Model.Round
import Rangers.Generated.C15Facts
import Rangers.Proofs.Round
import Rangers.Proofs.RoundSrc
/-!
C15 — verifiers count only signature shares valid for the block being signed.

Theorems are about `Rangers.Model.Round` (the model the driver `drv_c15` executes),
instantiated with the facts the translator re-reads from the source on every run
(`Rangers.Generated.C15Facts`). Cryptography is an oracle `Crypto G`; what is assumed
of it is the explicit hypothesis `Lawful` (C13 + C14), never an axiom.
-/
namespace Rangers.Props.C15
open Rangers.Model.Round Rangers.Proofs.Round
open Rangers.Generated

variable {G : Type}

/-! ### Clause 1: only valid shares are counted -/

/-- Every entry of a share set is a registered sender's share that verifies for `d`
under that sender's key, and no sender appears twice. -/
def SharesValid (c : Crypto G) (env : Env) (d : Data) (g : Gen G) : Prop :=
  (∀ e ∈ g.witness, e.1 ∈ env.pkKnown ∧ c.verify e.1 d e.2 = true) ∧ (g.witness.map (·.1)).Nodup

/-- **only_valid_shares** (full strength, no cryptographic assumption): for every
oracle, every stored early message, every sequence of packets in any order and
with any content, and any answers of the chain stub, every entry of `gSign` is
the sender's valid share for `bh.Hash`, every entry of `rSign` the sender's valid
share for `preBH.Random`, senders have a registered key, none appears twice. -/
theorem only_valid_shares (c : Crypto G) (env : Env) (hsrc : FromSource env)
    (future : List (VMsg G)) (ws : List (Bool × Wire G)) :
    let st := (Proc.runX c env (Proc.init c env future) ws).party.rs
    SharesValid c env env.hash st.gSign ∧ SharesValid c env env.prevRandom st.rSign := by
  intro st
  have hb := fromSource_binds hsrc
  have h := runX_inv c env hb ws _ (init_inv c env hb future)
  exact ⟨⟨h.g.valid, h.g.nodup⟩, ⟨h.r.valid, h.r.nodup⟩⟩

/-- The same statement for a handler that does *not* compare `dataHash` with the block hash
(the code before the fix; `bindsHash := false`). -/
def FullStatementUnbound : Prop :=
  ∀ (c : Crypto Sym) (env : Env), env.bindsHash = false →
    ∀ (future : List (VMsg Sym)) (ws : List (Bool × Wire Sym)),
      SharesValid c env env.hash (Proc.runX c env (Proc.init c env future) ws).party.rs.gSign

/-- Without the binding check the invariant is false: the foreign share is counted. -/
theorem only_valid_shares_unbound_counterexample : ¬ FullStatementUnbound := by
  intro h
  have := (h (symCrypto 2 [0, 1, 2]) leadEnv rfl [] [(false, .ok leadMsg)]).1 (0, .share 0 2) (by decide)
  exact absurd this.2 (by decide)

/-- Non-vacuity: the fixed handler on the same input ignores the message. -/
example : (Proc.runX (symCrypto 2 [0, 1, 2]) { leadEnv with bindsHash := true }
    (Proc.init (symCrypto 2 [0, 1, 2]) { leadEnv with bindsHash := true } [])
    [(false, .ok leadMsg)]).party.rs.gSign.witness = [] := by decide

/-! ### What is ignored, message by message -/

/-- A share from a sender without a registered member key changes nothing. -/
theorem non_member_ignored (c : Crypto G) (env : Env) (st : RState G) (m : VMsg G)
    (h : m.signer ∉ env.pkKnown) : (update c env st m).st = st := by
  unfold update
  split; · rfl
  split; · rfl
  split; · rfl
  rename_i h3
  exact absurd (by simpa using h3) h

/-- A well-signed share over any other hash changes nothing. -/
theorem other_hash_ignored (c : Crypto G) (env : Env) (hsrc : FromSource env) (st : RState G) (m : VMsg G)
    (h : m.dataHash ≠ env.hash) : (update c env st m).st = st := by
  have hb := fromSource_binds hsrc
  unfold update
  split; · rfl
  split; · rfl
  split; · rfl
  split; · rfl
  rename_i h4
  rw [hb] at h4
  exact absurd (by simpa using h4) h

/-- A share that does not verify under the sender's key for the block hash changes nothing
(replayed share of another member, garbage point, share over another hash filed as this one). -/
theorem bad_share_ignored (c : Crypto G) (env : Env) (hsrc : FromSource env) (st : RState G) (m : VMsg G)
    (h : c.verify m.signer env.hash m.sig = false) : (update c env st m).st = st := by
  have hb := fromSource_binds hsrc
  unfold update
  split; · rfl
  split; · rfl
  split; · rfl
  split; · rfl
  split; · rfl
  rename_i h4 h5
  have hdh : m.dataHash = env.hash := by rw [hb] at h4; simpa using h4
  rw [hdh, h] at h5
  simp at h5

/-- A share whose beacon share is missing or invalid for `preBH.Random` changes nothing. -/
theorem bad_beacon_share_ignored (c : Crypto G) (env : Env) (st : RState G) (m : VMsg G)
    (h : c.isNil m.rand = true ∨ c.verify m.signer env.prevRandom m.rand = false) :
    (update c env st m).st = st := by
  unfold update
  split; · rfl
  split; · rfl
  split; · rfl
  split; · rfl
  split; · rfl
  split; · rfl
  split; · rfl
  rename_i h6 h7
  rcases h with h | h
  · rw [h] at h6; simp at h6
  · rw [h] at h7; simp at h7

/-- A second share from a sender already present changes nothing. -/
theorem duplicate_ignored (c : Crypto G) (env : Env) (st : RState G) (m : VMsg G)
    (h : st.gSign.has m.signer = true) : (update c env st m).st = st := by
  have hadd : (st.gSign.addWitnessSign c m.signer m.sig).2.1 = false := by
    rcases addWitnessSign_cases c st.gSign m.signer m.sig with h1 | h1
    · exact h1.1
    · rw [h1.2.2.2.1] at h; exact Bool.noConfusion h
  unfold update
  split; · rfl
  split; · rfl
  split; · rfl
  split; · rfl
  split; · rfl
  split; · rfl
  split; · rfl
  simp only [hadd]
  rfl

/-- A packet that does not decode (protobuf error, missing `Sign`, empty `DataSign`) changes nothing. -/
theorem undecodable_ignored (c : Crypto G) (env : Env) (pr : Proc G) (w : Wire G) (h : decode w = none) :
    (pr.deliver c env w).1 = pr := by
  unfold Proc.deliver
  rw [h]

/-- A message filed under any other block hash never reaches the round: the round state is untouched. -/
theorem misfiled_never_reaches_round (c : Crypto G) (env : Env) (pr : Proc G) (m : VMsg G)
    (h : m.blockHash ≠ env.hash) : (pr.onVerify c env m).1.party = pr.party := by
  unfold Proc.onVerify
  have : (m.blockHash == env.hash) = false := by simpa using h
  simp [this]


end Rangers.Props.C15
