import Rangers.Generated.C08Facts
/-!
# C08 — T-gen facts about the bound checks of the Go source

`Generated/C08Facts.lean` is rewritten from the working tree on every run (go/ast). The model
(`kindBoundErr`, `willRead`, raw `readKind`) compares `size > listSize - pos` with *no addition on
either side*; `stream_no_wraparound` shows the subtraction cannot wrap. These obligations pin the
source to that form: rewriting a check as `pos + size > listSize` (which can overflow `uint64`)
or adding/removing a guard breaks them.
-/
namespace Rangers.Props.C08
open Rangers.Generated.C08

def hasChar (c : Char) (s : String) : Bool := s.toList.contains c

/-- No guard adds before comparing (an addition of two `uint64` can wrap; `a - b` with `b ≤ a` cannot). -/
theorem bound_checks_no_addition : boundChecks.all (fun c => !hasChar '+' c.2) = true := by decide

/-- Exactly three guards subtract, each as `x > a - b`: the in-list check of `Kind`, the in-list
    check of `willRead`, the slice check of raw `readKind`. -/
theorem bound_checks_subtractions :
    boundChecks.filter (fun c => hasChar '-' c.2) =
      [("Stream.Kind", "v > (v - v)"), ("Stream.willRead", "v > (v - v)"), ("raw.readKind", "v > (f - v)")] := by decide

/-- The guards of `Kind` and `willRead`, in source order (input-limit check `v > v`, in-list check
    `v > (v - v)`; `f > c` is `len(s.stack) > 0`, `v < c` is `s.kind < 0`). -/
theorem kind_willRead_guards :
    boundChecks.filter (fun c => c.1 == "Stream.Kind" || c.1 == "Stream.willRead") =
      [("Stream.Kind", "f > c"), ("Stream.Kind", "v < c"), ("Stream.Kind", "v > v"), ("Stream.Kind", "v > (v - v)"),
       ("Stream.willRead", "f > c"), ("Stream.willRead", "v > (v - v)"), ("Stream.willRead", "v > v")] := by decide

/-- Pool discipline of encode.go: `Encode` and `EncodeToBytes` take one buffer and give it back with a
    deferred `Put`; `EncodeToReader` takes one and must NOT give it back (the returned reader streams
    from it); the reader's `Read` gives it back, not deferred (only on its EOF path). A `Put` added to
    `EncodeToReader`, a missing `Put`, or a new user of the pool breaks this obligation. -/
theorem pool_discipline :
    poolUse = [("Encode", 1, 1, 1), ("EncodeToBytes", 1, 1, 1), ("EncodeToReader", 1, 0, 0), ("encReader.Read", 0, 1, 0)] := by
  decide

/-- The package imports the standard library only: no node configuration, no proposal/fork flag, no
    clock can influence coding (hardening class 5: nothing fork-dependent on this path). -/
theorem imports_stdlib_only : imports.all (fun p => !hasChar '.' p.2) = true := by decide

/-- The only package-level variable written after initialisation is the type cache, and only by
    `cachedTypeInfo1` (the pool is used through `Get`/`Put`, see `pool_discipline`): every other
    function on the coding path is free of process-local history. -/
theorem package_state_writes : pkgWrites = [("cachedTypeInfo1", "typeCache")] := by decide

/-- Narrowing conversions in decode.go: `byte(size)` only as the argument of `readUint` in
    `Stream.uint` — i.e. AFTER `size > maxbits/8` was checked on the full `uint64` — and
    `int(8 - size)` in `readUint` (size ≤ 8 there). A size narrowed before its range check (an
    assignment or a condition holding `byte(size)`) breaks this obligation; the model keeps `size` a
    `Nat` throughout (`sUint`: `if size > maxbits / 8 then uintOverflow`). -/
theorem narrowing_conversions :
    narrowConvs = [("Stream.uint", "byte", "arg"), ("Stream.readUint", "int", "assign")] := by decide

/-- Exit points of the `Stream` methods. `Raw` has four (`Kind` failed; single byte — re-arms `Kind`;
    `readFull` failed; header + content), `Bytes` six, `uint` nine …: a new early return — a fast path
    that answers without consuming the element or without re-arming `Kind` — changes a count. The model
    (`sRaw`, `sBytes`, `sUint`, `sList`, `sListEnd`) has exactly these paths. -/
theorem stream_returns :
    streamReturns = [("Stream.Bytes", 6), ("Stream.Raw", 4), ("Stream.Uint", 1), ("Stream.uint", 9), ("Stream.Bool", 4),
      ("Stream.List", 3), ("Stream.ListEnd", 3), ("Stream.Decode", 5), ("Stream.Reset", 0), ("Stream.Kind", 2),
      ("Stream.readKind", 6), ("Stream.readUint", 5), ("Stream.readFull", 2), ("Stream.readByte", 2),
      ("Stream.willRead", 3)] := by decide

/-- The type cache breaks recursion with a placeholder entry (`typeCache[key] = new(typeinfo)`) that is
    later FILLED IN PLACE (`*typeCache[key] = *info`): coders of element/pointer types generated while a
    self-referential type is under construction keep a pointer to that very entry. Replacing the entry
    instead (`typeCache[key] = info`) leaves them with nil functions — this obligation pins the
    in-place form; the behaviour is exercised on the recursive fixture types (`Props/C08Rec.lean`). -/
theorem typecache_fills_placeholder_in_place :
    cacheAssigns = [("cachedTypeInfo1", "v[v] = f"), ("cachedTypeInfo1", "*v[v] = *v")] := by decide

end Rangers.Props.C08
