import Rangers.Proofs.C13G1Recover
import Rangers.Proofs.C13G1Bridge
import Rangers.Drive.C13
import Mathlib.Data.List.Dedup
/-!
# C13 at the point level — the executable G1 of the driver, at the parameters of the code

`Props/C13.lean` proves recovery for an arbitrary `ZMod r`-module and *assumes* (`LawfulOps`) that
the point operations are module operations. Here that assumption is discharged for the operations
the driver actually runs (`Model.G1` at `bn256.P`, `curveB`, tied to `bn256.G1` by the
correspondence run):

* proved: `Model.G1.add/double/mul` on valid points (on the curve, coordinates reduced) are addition
  and scalar multiplication of Mathlib's Weierstrass group `E(F_p)`, `E : y² = x³ + 3`, and the
  meaning map is injective (via the C14 builder's `Proofs/Bls14Curve.lean` for add/double; directly
  for the `testBit` scalar loop); `r = bn256.Order` is prime (Pratt certificate);
* still assumed, as explicit hypotheses: `p = bn256.P` is prime (`[Fact (Nat.Prime P)]`) and
  `CurveKilledByOrder` (`r•Q = 0` for every `Q ∈ E(F_p)`, i.e. `#E(F_p) = r`); both sampled by the
  searcher every run.

Conclusions are equalities between *executable model points*: the recovered point is literally
`G1.mul hm gsk`.
-/
namespace Rangers.Props.C13G1
open Polynomial Rangers Rangers.Model Rangers.Model.Shamir Rangers.Model.Bls14 Rangers.Proofs.Bls14
open Rangers.Proofs.C13 Rangers.Proofs.C13G1 Rangers.Generated

/-- The theorems below are about exactly what `drv_c13` executes. -/
theorem driver_runs_this_model :
    Rangers.Drive.C13.ops = g1ops ∧ Rangers.Drive.C13.r = Bn256.order ∧ Rangers.Drive.C13.curve = bnCurve :=
  ⟨rfl, rfl, rfl⟩

/-- The C13 and C14 translators read the same field prime, curve constant and group order. -/
theorem translators_agree : Bn256.fieldP = P ∧ Bn256.curveB = B ∧ Bn256.order = R := consts_agree

variable [hp : Fact (Nat.Prime P)]

/-- **g1_model_is_group_law**: on valid points the executable `add`, `double`, `mul` (any scalar,
    reduced or not) are the group operations of `E(F_p)`, results stay valid, and distinct valid
    points are distinct group elements. -/
theorem g1_model_is_group_law :
    (∀ a b, Valid1 a → Valid1 b →
      Valid1 (G1.add bnCurve a b) ∧ μ (G1.add bnCurve a b) = μ a + μ b) ∧
    (∀ a, Valid1 a → Valid1 (G1.double bnCurve a) ∧ μ (G1.double bnCurve a) = μ a + μ a) ∧
    (∀ a k, Valid1 a → Valid1 (G1.mul bnCurve a k) ∧ μ (G1.mul bnCurve a k) = k • μ a) ∧
    (∀ a b, Valid1 a → Valid1 b → μ a = μ b → a = b) :=
  ⟨g1_add_law, g1_double_law, fun a k ha => g1_mul_law a ha k, μ_inj⟩

/-- **g1_models_agree**: the C13 model (`Model.G1` at the bn256 parameters — extended-Euclid inverse,
    `testBit` scalar loop, `padLeft ∘ natToBE` encoding) and the C14 model (`Model.Bls14.Pt` — Fermat
    inverse, bit-list scalar loop, `beFixed` encoding) are the same functions on valid points:
    negation, doubling, addition, the on-curve test (C14 builder's `Proofs/Bls14BridgeC13.lean`),
    scalar multiplication and `Marshal` (here). So each property's correspondence run also ties the
    other property's model to `bn256.G1`. -/
theorem g1_models_agree :
    (∀ p : Pt, G1.neg bnCurve (conv p) = conv p.neg) ∧
    (∀ p : Pt, p.reduced = true → G1.double bnCurve (conv p) = conv p.double) ∧
    (∀ p q : Pt, p.reduced = true → q.reduced = true → G1.add bnCurve (conv p) (conv q) = conv (p.add q)) ∧
    (∀ x y : Nat, G1.isOnCurve bnCurve (.aff x y) = onCurveXY x y) ∧
    (∀ (p : Pt) (k : Nat), Valid p → k < 2 ^ 512 → G1.mul bnCurve (conv p) k = conv (Pt.mul p k)) ∧
    (∀ p : Pt, p.reduced = true → G1.marshal (conv p) = g1Marshal p) :=
  ⟨c13_neg, c13_double, c13_add, c13_isOnCurve, fun p k hv hk => mul_models_agree p hv k hk,
   marshal_models_agree⟩

omit hp in
/-- non-vacuity: the generator `(1, p−2)` and infinity are valid points. -/
example : Valid1 (.aff 1 (Bn256.fieldP - 2)) ∧ Valid1 .inf := by
  refine ⟨⟨?_, ?_⟩, ⟨rfl, rfl⟩⟩ <;> decide

/-- **g1_recover_any_subset** (`_partial`: ids distinct mod `r`): for a valid message point `hm`,
    any list of ≥ `deg f + 1` ids in any order, the executable `recoverSignature` on the executable
    shares `G1.mul hm f(xᵢ)` returns the executable point `G1.mul hm f(0)`. -/
theorem g1_recover_any_subset_partial (hexp : CurveKilledByOrder)
    (cs : List Nat) (hcs : cs ≠ []) (hm : G1.Point) (hv : Valid1 hm) (ids : List Nat)
    (hk : cs.length ≤ ids.length) (hd : IdsDistinct Bn256.order ids) :
    recoverWith g1ops Bn256.order ids
        (ids.map (fun x => G1.mul bnCurve hm ((shareSeckey Bn256.order cs x).getD 0))) =
      .ok (some (G1.mul bnCurve hm (cs.headD 0))) := by
  have hne : ids ≠ [] := by
    intro h0; subst h0
    exact hcs (List.length_eq_zero_iff.1 (by simpa using hk))
  have hdeg : (polyOf (castList Bn256.order cs)).degree < ids.length := by
    refine lt_of_lt_of_le (degree_polyOf_lt _) ?_
    simp only [castList, List.length_map]; exact_mod_cast hk
  refine g1_recoverWith_poly hexp ids hne hd _ hdeg _ (fun x => ?_) hm hv _ ?_
  · obtain ⟨v, hv'⟩ := shareSeckey_isSome Bn256.order cs x hcs
    simp only [hv', Option.getD_some]
    exact shareSeckey_eval Bn256.order cs x v hv'
  · rw [eval_zero_polyOf]; cases cs <;> simp [castList]

/-- **Headline at the point level** (`_partial`: ids distinct mod `r`): DKG keys, any witness map
    with ≥ `k` honest executable shares, any admissible choice: `RecoverGroupSignature` returns the
    executable point `G1.mul hm gsk`. -/
theorem g1_dkg_any_threshold_subset_partial (hexp : CurveKilledByOrder)
    (dealers : List (List Nat)) (k : Nat) (hk0 : 0 < k) (hne : dealers ≠ [])
    (hk : ∀ cs ∈ dealers, cs ≠ [] ∧ cs.length ≤ k) (hm : G1.Point) (hv : Valid1 hm)
    (gsk : Nat) (hg : groupSecret Bn256.order dealers = some gsk)
    (m : List (Nat × Option G1.Point)) (hkm : k ≤ m.length)
    (hd : IdsDistinct Bn256.order (m.map Prod.fst))
    (hhon : ∀ en ∈ m, en.2 = some (G1.mul bnCurve hm ((memberKey Bn256.order dealers en.1).getD 0)))
    (c : Choice (Nat × Option G1.Point)) (hc : Admissible c m.length k) :
    recoverGroupSignature g1ops Bn256.order k m c = .ok (some (G1.mul bnCurve hm gsk)) := by
  have hs : ∀ x, (((memberKey Bn256.order dealers x).getD 0 : Nat) : ZMod Bn256.order) =
      (groupPoly Bn256.order dealers).eval (x : ZMod Bn256.order) := by
    intro x
    obtain ⟨v, hv'⟩ := memberKey_isSome (r := Bn256.order) dealers x hne (fun cs h => (hk cs h).1)
    simp only [hv', Option.getD_some]
    exact memberKey_eval dealers x v hv'
  have hdeg := degree_groupPoly_lt (r := Bn256.order) dealers k (fun cs h => (hk cs h).2)
  refine recoverGroupSignature_of_recoverWith g1ops Bn256.order k hk0
    (fun x => G1.mul bnCurve hm ((memberKey Bn256.order dealers x).getD 0)) _ ?_ m hkm hd hhon c hc
  intro ids hlen hids
  have hne' : ids ≠ [] := by intro h0; subst h0; simp at hlen; omega
  exact g1_recoverWith_poly hexp ids hne' hids _ (by simpa [hlen] using hdeg) _ hs hm hv gsk
    (groupSecret_eval dealers gsk hg)

/-- **Sign generator at the point level** (`_partial`: ids distinct mod `r`): the node's
    `GroupSignGenerator` run on the executable G1, with `IsValid` = the executable on-curve test, fed
    honest executable shares in any arrival order (repeats, late arrivals, any map order at recovery
    time), ends holding the executable point `G1.mul hm gsk`. -/
theorem g1_sign_generator_any_arrival_order_partial (hexp : CurveKilledByOrder)
    (dealers : List (List Nat)) (k : Nat) (hk0 : 0 < k) (hne : dealers ≠ [])
    (hk : ∀ cs ∈ dealers, cs ≠ [] ∧ cs.length ≤ k) (hm : G1.Point) (hv : Valid1 hm)
    (gsk : Nat) (hg : groupSecret Bn256.order dealers = some gsk)
    (arr : List (Nat × Option G1.Point × Choice (Nat × Option G1.Point)))
    (hhon : ∀ a ∈ arr, a.2.1 = some (G1.mul bnCurve hm ((memberKey Bn256.order dealers a.1).getD 0)) ∧
      ∀ l, (a.2.2.ord2 l).Perm l)
    (hmod : ∀ x ∈ arr.map (·.1), ∀ y ∈ arr.map (·.1), x % Bn256.order = y % Bn256.order → x = y)
    (hcount : k ≤ (arr.map (·.1)).dedup.length) :
    ∃ st, feed g1ops Bn256.order (G1.isOnCurve bnCurve) (SignGen.new k) arr = .ok st ∧
      st.groupSign = some (G1.mul bnCurve hm gsk) := by
  have hs : ∀ x, (((memberKey Bn256.order dealers x).getD 0 : Nat) : ZMod Bn256.order) =
      (groupPoly Bn256.order dealers).eval (x : ZMod Bn256.order) := by
    intro x
    obtain ⟨v, hv'⟩ := memberKey_isSome (r := Bn256.order) dealers x hne (fun cs h => (hk cs h).1)
    simp only [hv', Option.getD_some]
    exact memberKey_eval dealers x v hv'
  have hdeg := degree_groupPoly_lt (r := Bn256.order) dealers k (fun cs h => (hk cs h).2)
  have hval : G1.isOnCurve bnCurve (G1.mul bnCurve hm gsk) = true := by
    rw [isOnCurve_eq]; exact (g1_mul_law hm hv gsk).1.1
  obtain ⟨st, hf, hinv, hall⟩ := feed_inv g1ops Bn256.order (G1.isOnCurve bnCurve) k hk0
    (fun x => G1.mul bnCurve hm ((memberKey Bn256.order dealers x).getD 0)) (G1.mul bnCurve hm gsk)
    (by
      intro ids hlen hids
      have hne' : ids ≠ [] := by intro h0; subst h0; simp at hlen; omega
      exact g1_recoverWith_poly hexp ids hne' hids _ (by simpa [hlen] using hdeg) _ hs hm hv gsk
        (groupSecret_eval dealers gsk hg))
    hval arr (SignGen.new k)
    ⟨rfl, Or.inr ⟨rfl, by simpa [SignGen.new] using hk0, by simp [SignGen.new], by simp [SignGen.new]⟩⟩
    hhon (by simpa [SignGen.new] using hmod)
  refine ⟨st, hf, ?_⟩
  rcases hinv.cases with h1 | ⟨h1, hlen, hnd, _⟩
  · exact h1
  · exfalso
    have hsub : (arr.map (·.1)).dedup ⊆ st.witnesses.map Prod.fst := by
      intro x hx
      exact hall h1 x (by simpa [SignGen.new] using List.mem_dedup.1 hx)
    have := (List.subperm_of_subset (List.nodup_dedup _) hsub).length_le
    simp only [List.length_map] at this
    omega

omit hp in
/-- non-vacuity (kernel evaluation of the executable model at the real parameters, no hypothesis
    involved): `hm` = the generator, `f = 7 + 5X`, ids 1 and 2: the hypotheses that are decidable
    hold and the conclusion is what the model computes. -/
example :
    Valid1 (.aff 1 (Bn256.fieldP - 2)) ∧ IdsDistinct Bn256.order [1, 2] ∧
    recoverWith g1ops Bn256.order [1, 2]
        ([1, 2].map (fun x => G1.mul bnCurve (.aff 1 (Bn256.fieldP - 2)) ((shareSeckey Bn256.order [7, 5] x).getD 0))) =
      .ok (some (G1.mul bnCurve (.aff 1 (Bn256.fieldP - 2)) 7)) := by
  refine ⟨⟨?_, ?_⟩, ?_, ?_⟩ <;> decide +kernel

end Rangers.Props.C13G1
