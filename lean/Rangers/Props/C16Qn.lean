import Rangers.Model.Qn
import Rangers.Generated.C16Facts
import Rangers.Proofs.C16Qn
/-!
Property C16, part 3: the quality number. `validateProve` is the function the driver
runs (with the generated parameters); theorems hold for every parameter set with
`0 < maxQN < 2^52`.
-/
namespace Rangers.Props.C16Qn
open Rangers Rangers.Model Rangers.Model.Qn Rangers.Proofs.C16Qn

/-- the parameters of the running configuration (T-gen: `model.InitParam`) -/
def liveParams : Params :=
  { maxQN := Generated.C16Facts.maxQN
    potentialProposal := Generated.C16Facts.potentialProposal
    potentialProposalMax := Generated.C16Facts.potentialProposalMax
    potentialProposalIndex := Generated.C16Facts.potentialProposalIndex }

/-- The qn is a deterministic function of proof, height, working miners and total stake
    (and the configuration): `validateProve` has no other input. -/
theorem qn_deterministic (P : Params) (thr : Nat) (prove : Bytes) (h w t : Nat) (r r' : VOut)
    (e : validateProve P thr prove h w t = r) (e' : validateProve P thr prove h w t = r') : r = r' :=
  e.symm.trans e'

/-- PARTIAL: whenever `validateProve` accepts, the quality number is at least 1 and at most
    `maxQN + 1`. (The `+ 1` cannot be removed: `qn_range_counterexample`.) -/
theorem qn_range_partial (P : Params) (hmax : P.maxQN < 2 ^ 52) (thr : Nat) (prove : Bytes)
    (h w t q : Nat) (hv : validateProve P thr prove h w t = .res true (.val q)) :
    1 ≤ q ∧ q ≤ P.maxQN + 1 := by
  unfold validateProve at hv
  split at hv
  · cases hv
  · simp only [] at hv
    split at hv
    · cases hv
    · rename_i s hs
      split at hv
      · cases hv
      · rename_i qo hq hne
        injection hv with hok hqo
        unfold calcVrfValueRatio at hok hqo
        have hvle := value_le_max (Vrf.tryZeroPadding prove)
        obtain ⟨hpos, hle⟩ := accepted_ratio_bound _ s hvle hok
        unfold calQn at hqo
        exact calQnCore_range P hmax _ _ q (show 0 < max256 by decide) hpos hle hqo

/-- FULL STATEMENT (false of model and code): an accepted proof has `1 ≤ qn ≤ MaxQN`. -/
def FullStatement_qn_range (P : Params) : Prop :=
  ∀ thr prove h w t q, validateProve P thr prove h w t = .res true (.val q) → 1 ≤ q ∧ q ≤ P.maxQN

/-- witness 1 (float rounding): value = 2^256 − 2, total stake 1 -/
def witnessRounding : Bytes := List.replicate 31 0xff ++ [0xfe] ++ List.replicate 48 0
/-- witness 2 (exact arithmetic): value = 2^256 − 1, total stake 1 (ratio capped at 1) -/
def witnessAllOnes : Bytes := List.replicate 32 0xff ++ List.replicate 48 0

/-- COUNTEREXAMPLE for the live parameters: `validateProve` accepts with qn = MaxQN + 1.
    Both witnesses are replayed on the implementation by the searcher
    (keys `qn-above-max-float-rounding`, `qn-above-max-value-all-ones`). -/
theorem qn_range_counterexample : ¬ FullStatement_qn_range liveParams := by
  intro hfull
  have hw : validateProve liveParams 0 witnessRounding 0 0 1 = .res true (.val 6) := by decide +kernel
  have := (hfull 0 witnessRounding 0 0 1 6 hw).2
  revert this
  decide

/-- The second class does not involve floating point at all. -/
theorem qn_all_ones_counterexample :
    validateProve liveParams 0 witnessAllOnes 0 0 1 = .res true (.val 6) := by decide +kernel

/-- Isolating the float step: with an exact floor the bound `MaxQN` holds for every accepted
    value whose stake ratio is not capped (`s ≤ 1`), because then `r < MaxQN` strictly. -/
theorem qn_exact_partial (maxQN vn : Nat) (s : Frac) (hcap : ¬ ((s.den : Int) < s.num))
    (hv : vn ≤ max256) (hok : Frac.lt ⟨vn, max256⟩ s = true) :
    (vn * s.den * maxQN) / (max256 * s.num.natAbs) + 1 ≤ maxQN ∨ maxQN = 0 := by
  by_cases hm : maxQN = 0
  · exact Or.inr hm
  · left
    apply exact_floor_lt
    have hb := accepted_ratio_bound vn s hv hok
    unfold capRatio at hb
    simp only [hcap, ↓reduceIte, Int.toNat_natCast] at hb
    unfold Frac.lt at hok
    simp only [decide_eq_true_eq] at hok
    have hlt : vn * s.den < max256 * s.num.natAbs := by
      have : ((vn * s.den : Nat) : Int) < ((max256 * s.num.natAbs : Nat) : Int) := by
        push_cast
        rw [abs_of_pos hb.1, Int.mul_comm (max256 : Int)]
        exact hok
      exact_mod_cast this
    calc vn * s.den * maxQN < max256 * s.num.natAbs * maxQN :=
          Nat.mul_lt_mul_of_pos_right hlt (Nat.pos_of_ne_zero hm)
      _ = maxQN * (max256 * s.num.natAbs) := Nat.mul_comm _ _

/-- non-vacuity: an accepted, uncapped case (value 1, stake ratio 3/10) -/
example : ¬ (((⟨3, 10⟩ : Frac).den : Int) < (⟨3, 10⟩ : Frac).num) ∧
    Frac.lt ⟨1, max256⟩ ⟨3, 10⟩ = true := by decide

/-- non-vacuity of `qn_range_partial`: an accepted input with qn in range -/
example : validateProve liveParams 0 (List.replicate 80 0x10) 0 0 10 = .res true (.val 2) := by decide +kernel

/-- the live parameters satisfy the hypothesis of `qn_range_partial` -/
theorem live_params_in_scope : 0 < liveParams.maxQN ∧ liveParams.maxQN < 2 ^ 52 := by decide

end Rangers.Props.C16Qn
