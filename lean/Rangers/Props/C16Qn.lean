import Rangers.Model.Qn
import Rangers.Generated.C16Facts
import Rangers.Proofs.C16Qn
import Rangers.Proofs.C16Vrf
/-!
Property C16, part 3: the quality number. `validateProve` is the function the driver
runs (with the generated parameters); theorems hold for every parameter set with
`0 < maxQN < 2^52`.
-/
namespace Rangers.Props.C16Qn
open Rangers Rangers.Model Rangers.Model.Qn Rangers.Proofs.C16Qn

/-- the parameters of the running configuration (T-gen: `model.InitParam`) -/
def liveParams : Params :=
  { maxQN := Generated.C16Facts.maxQN
    potentialProposal := Generated.C16Facts.potentialProposal
    potentialProposalMax := Generated.C16Facts.potentialProposalMax
    potentialProposalIndex := Generated.C16Facts.potentialProposalIndex }

/-- The qn is a deterministic function of proof, height, working miners and total stake
    (and the configuration): `validateProve` has no other input. -/
theorem qn_deterministic (P : Params) (thr : Nat) (prove : Bytes) (h w t : Nat) (r r' : VOut)
    (e : validateProve P thr prove h w t = r) (e' : validateProve P thr prove h w t = r') : r = r' :=
  e.symm.trans e'

/-- PARTIAL: whenever `validateProve` accepts, the quality number is at least 1 and at most
    `maxQN + 1`. (The `+ 1` cannot be removed: `qn_range_counterexample`.) -/
theorem qn_range_partial (P : Params) (hmax : P.maxQN < 2 ^ 52) (thr : Nat) (prove : Bytes)
    (h w t q : Nat) (hv : validateProve P thr prove h w t = .res true (.val q)) :
    1 ≤ q ∧ q ≤ P.maxQN + 1 := by
  unfold validateProve at hv
  split at hv
  · cases hv
  · simp only [] at hv
    split at hv
    · cases hv
    · rename_i s hs
      split at hv
      · cases hv
      · rename_i qo hq hne
        injection hv with hok hqo
        unfold calcVrfValueRatio at hok hqo
        have hvle := value_le_max (Vrf.tryZeroPadding prove)
        obtain ⟨hpos, hle⟩ := accepted_ratio_bound _ s hvle hok
        unfold calQn at hqo
        exact calQnCore_range P hmax _ _ q (show 0 < max256 by decide) hpos hle hqo

/-! ### the qualification rule after header transport -/

/-- The quality number is a function of the PROOF, not of its byte form: `validateProve` on the
    bytes read back from the header's big integer (leading zeros dropped) equals `validateProve`
    on the proposer's 80-byte proof. Holds because the model (like the code) pads BEFORE it takes
    the value ratio; the order is pinned by `C16Gen.validate_call_order`. -/
theorem qn_survives_transport (P : Params) (thr : Nat) (pi : Bytes) (h w t : Nat)
    (hlen : pi.length = Vrf.proveSize) :
    validateProve P thr (Vrf.ofBig (Vrf.toBig pi)) h w t = validateProve P thr pi h w t := by
  have h1 : Vrf.tryZeroPadding (Vrf.ofBig (Vrf.toBig pi)) = Vrf.tryZeroPadding pi := by
    unfold Vrf.ofBig Vrf.toBig
    rw [Rangers.Proofs.C16Bytes.natToBE_beToNat, Rangers.Proofs.C16Bytes.pad_strip pi hlen,
      Rangers.Proofs.C16Bytes.pad_of_len_ge pi (by omega)]
  unfold validateProve
  rw [h1]

/-- An honest header passes `verifyBlockVRF` after transport: if the proposer's proof verifies,
    the proposer-side `validateProve` (on the full proof) says `(true, qn)` and the header carries
    `TotalQN = qn + pre.TotalQN`, the verifier — who only has the big integer — accepts. -/
theorem honest_header_passes_after_transport (P : Params) (thr : Nat) (pk pi msg : Bytes)
    (h w t qn pre : Nat) (hlen : pi.length = Vrf.proveSize)
    (hver : Vrf.verify pk pi msg = .ok true)
    (hq : validateProve P thr pi h w t = .res true (.val qn)) :
    verifyBlockVRF P thr pk (Vrf.toBig pi) msg h w t ((qn + pre) % two64) pre = .ok := by
  have h1 : Vrf.verify pk (Vrf.ofBig (Vrf.toBig pi)) msg = .ok true := by
    unfold Vrf.verify at hver ⊢
    rw [Rangers.Proofs.C16Vrf.verifyWith_eq_parts] at hver ⊢
    have : Vrf.tryZeroPadding (Vrf.ofBig (Vrf.toBig pi)) = Vrf.tryZeroPadding pi := by
      unfold Vrf.ofBig Vrf.toBig
      rw [Rangers.Proofs.C16Bytes.natToBE_beToNat, Rangers.Proofs.C16Bytes.pad_strip pi hlen,
        Rangers.Proofs.C16Bytes.pad_of_len_ge pi (by omega)]
    rw [this]; exact hver
  unfold verifyBlockVRF
  simp only [h1, qn_survives_transport P thr pi h w t hlen, hq]
  simp

/-- non-vacuity: an 80-byte proof starting with a zero byte that the rule accepts with a definite qn -/
example : validateProve liveParams 0 (0 :: List.replicate 79 0x10) 0 0 10 = .res true (.val 1) ∧
    (Vrf.ofBig (Vrf.toBig (0 :: List.replicate 79 0x10))).length = 79 := by
  constructor
  · decide +kernel
  · unfold Vrf.ofBig Vrf.toBig; rw [Rangers.Proofs.C16Bytes.natToBE_beToNat]; decide

/-! ### one normalisation: the verifier and the lottery read the same 80 bytes -/

/-- the bytes of a header prove value that matter: the first `ProveSize` bytes of its left-padded form -/
def verifiedBytes (pv : Bytes) : Bytes := (Vrf.tryZeroPadding pv).take 80

theorem verifiedBytes_length (pv : Bytes) : (verifiedBytes pv).length = 80 := by
  have := Rangers.Proofs.C16Bytes.pad_length_ge pv
  simp only [Vrf.proveSize] at this
  simp [verifiedBytes]; omega

theorem pad_verifiedBytes (pv : Bytes) : Vrf.tryZeroPadding (verifiedBytes pv) = verifiedBytes pv :=
  Rangers.Proofs.C16Bytes.pad_of_len_ge _ (by rw [verifiedBytes_length]; decide)

/-- For EVERY byte string `pv` (any length): `ECVRFVerify` decides on `verifiedBytes pv` only. -/
theorem verify_reads_verifiedBytes {P : Type} (o : Vrf.Ops P) (pk pv m : Bytes) :
    Vrf.verifyWith o pk pv m = Vrf.verifyWith o pk (verifiedBytes pv) m := by
  rw [Rangers.Proofs.C16Vrf.verifyWith_eq_parts, Rangers.Proofs.C16Vrf.verifyWith_eq_parts o pk (verifiedBytes pv),
    pad_verifiedBytes]
  unfold verifiedBytes
  simp only [List.take_take, List.drop_take]
  rfl

/-- … and every consumer of the lottery value (`validateProve`, `outputOf`, `VRFProve2Value`) reads the
    first 32 of exactly those bytes: verifier and qualification rule look at the same 80 bytes. -/
theorem lottery_reads_verifiedBytes (P : Params) (thr : Nat) (pv : Bytes) (h w t : Nat) :
    validateProve P thr pv h w t = validateProve P thr (verifiedBytes pv) h w t ∧
    Vrf.outputOf pv = (verifiedBytes pv).take 32 ∧
    Vrf.prove2Value (Vrf.toBig pv) = some (beToNat ((verifiedBytes (Vrf.ofBig (Vrf.toBig pv))).take 32)) := by
  refine ⟨?_, ?_, ?_⟩
  · unfold validateProve calcVrfValueRatio
    rw [pad_verifiedBytes]
    simp [verifiedBytes, List.take_take]
  · simp [Vrf.outputOf, verifiedBytes, List.take_take]
  · have hl : ¬ (Vrf.tryZeroPadding (Vrf.ofBig (Vrf.toBig pv))).length < 32 := by
      have := Rangers.Proofs.C16Bytes.pad_length_ge (Vrf.ofBig (Vrf.toBig pv))
      simp only [Vrf.proveSize] at this; omega
    simp [Vrf.prove2Value, Vrf.proof2Hash, hl, verifiedBytes, List.take_take]

/-- non-vacuity: an over-long value (prefix ‖ 80 bytes) — the bytes that matter are the FIRST 80 -/
example : verifiedBytes ([9, 9] ++ List.replicate 80 7) = [9, 9] ++ List.replicate 78 7 := by decide

/-- FULL STATEMENT (false of model and code): an accepted proof has `1 ≤ qn ≤ MaxQN`. -/
def FullStatement_qn_range (P : Params) : Prop :=
  ∀ thr prove h w t q, validateProve P thr prove h w t = .res true (.val q) → 1 ≤ q ∧ q ≤ P.maxQN

/-- witness 1 (float rounding): value = 2^256 − 2, total stake 1 -/
def witnessRounding : Bytes := List.replicate 31 0xff ++ [0xfe] ++ List.replicate 48 0
/-- witness 2 (exact arithmetic): value = 2^256 − 1, total stake 1 (ratio capped at 1) -/
def witnessAllOnes : Bytes := List.replicate 32 0xff ++ List.replicate 48 0

/-- COUNTEREXAMPLE for the live parameters: `validateProve` accepts with qn = MaxQN + 1.
    Both witnesses are replayed on the implementation by the searcher
    (keys `qn-above-max-float-rounding`, `qn-above-max-value-all-ones`). -/
theorem qn_range_counterexample : ¬ FullStatement_qn_range liveParams := by
  intro hfull
  have hw : validateProve liveParams 0 witnessRounding 0 0 1 = .res true (.val 6) := by decide +kernel
  have := (hfull 0 witnessRounding 0 0 1 6 hw).2
  revert this
  decide

/-- The second class does not involve floating point at all. -/
theorem qn_all_ones_counterexample :
    validateProve liveParams 0 witnessAllOnes 0 0 1 = .res true (.val 6) := by decide +kernel

/-- Isolating the float step: with an exact floor the bound `MaxQN` holds for every accepted
    value whose stake ratio is not capped (`s ≤ 1`), because then `r < MaxQN` strictly. -/
theorem qn_exact_partial (maxQN vn : Nat) (s : Frac) (hcap : ¬ ((s.den : Int) < s.num))
    (hv : vn ≤ max256) (hok : Frac.lt ⟨vn, max256⟩ s = true) :
    (vn * s.den * maxQN) / (max256 * s.num.natAbs) + 1 ≤ maxQN ∨ maxQN = 0 := by
  by_cases hm : maxQN = 0
  · exact Or.inr hm
  · left
    apply exact_floor_lt
    have hb := accepted_ratio_bound vn s hv hok
    unfold capRatio at hb
    simp only [hcap, ↓reduceIte, Int.toNat_natCast] at hb
    unfold Frac.lt at hok
    simp only [decide_eq_true_eq] at hok
    have hlt : vn * s.den < max256 * s.num.natAbs := by
      have : ((vn * s.den : Nat) : Int) < ((max256 * s.num.natAbs : Nat) : Int) := by
        push_cast
        rw [abs_of_pos hb.1, Int.mul_comm (max256 : Int)]
        exact hok
      exact_mod_cast this
    calc vn * s.den * maxQN < max256 * s.num.natAbs * maxQN :=
          Nat.mul_lt_mul_of_pos_right hlt (Nat.pos_of_ne_zero hm)
      _ = maxQN * (max256 * s.num.natAbs) := Nat.mul_comm _ _

/-- non-vacuity: an accepted, uncapped case (value 1, stake ratio 3/10) -/
example : ¬ (((⟨3, 10⟩ : Frac).den : Int) < (⟨3, 10⟩ : Frac).num) ∧
    Frac.lt ⟨1, max256⟩ ⟨3, 10⟩ = true := by decide

/-- non-vacuity of `qn_range_partial`: an accepted input with qn in range -/
example : validateProve liveParams 0 (List.replicate 80 0x10) 0 0 10 = .res true (.val 2) := by decide +kernel

/-- the live parameters satisfy the hypothesis of `qn_range_partial` -/
theorem live_params_in_scope : 0 < liveParams.maxQN ∧ liveParams.maxQN < 2 ^ 52 := by decide

end Rangers.Props.C16Qn
