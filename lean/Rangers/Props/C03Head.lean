import Rangers.Proofs.TrieDBHead
import Rangers.Proofs.TrieDBExample
/-!
# C03 — a head is recorded only after its state root is durable

The `blockchain_add.go` side of the C03 anchor.  `insertBlock` calls `saveStates`
(`state.Commit`, then `trieDB.Commit(root)`), gives up if either failed, and only
afterwards writes the head record; `remove` moves it back to a former head.
The statement order is regenerated from the source (`facts_head_after_save_states`);
over the model `Model/TrieDBHead.lean` this yields: whatever the head record names —
after any history of blocks, refused writes at any physical write, process deaths
and removals — its state root resolves from the disk alone.  That is the C03 half
of C05's "the head's state root can be opened" (C05 models the block store and
assumes this of the state store).  Assumption carried by C01/C05, not here: the
root returned by `state.Commit` is the `StateTree` of the header being recorded.
-/
namespace Rangers.Props.C03Head
open Rangers.Model.TrieDB Rangers.Generated

/-- `insertBlock` changes the head record only together with a node commit of that
    very root that reported success (all batches written). -/
theorem head_recorded_only_after_successful_commit (eD eC : Hash) (cs cs' : ChainSt) (root : Hash)
    (failAt : Option Nat) (headWriteOk : Bool)
    (hs : chainStep eD eC cs (.insertBlock root failAt headWriteOk) = some cs')
    (hchg : cs'.head ≠ cs.head ∨ cs'.heads ≠ cs.heads) :
    ∃ out, commit cs.st root failAt (cs.st.cache.length + 1) = some out ∧ out.ok = true ∧
      cs'.st = out.st ∧ cs'.head = some root := by
  simp only [chainStep] at hs
  cases hc : commit cs.st root failAt (cs.st.cache.length + 1) with
  | none => simp [hc] at hs
  | some out =>
    simp only [hc] at hs
    split at hs
    · rename_i hcond
      simp only [Bool.and_eq_true] at hcond
      simp only [Option.some.injEq] at hs
      subst hs
      exact ⟨out, rfl, hcond.1, rfl, rfl⟩
    · simp only [Option.some.injEq] at hs
      subst hs
      rcases hchg with h | h <;> exact absurd rfl h

/-- a refused write during `saveStates` leaves the head record untouched -/
theorem failed_save_keeps_head (eD eC : Hash) (cs cs' : ChainSt) (root : Hash) (k : Nat) (headWriteOk : Bool)
    (out : CommitOut) (hc : commit cs.st root (some k) (cs.st.cache.length + 1) = some out) (hfail : out.ok = false)
    (hs : chainStep eD eC cs (.insertBlock root (some k) headWriteOk) = some cs') :
    cs'.head = cs.head ∧ cs'.heads = cs.heads := by
  simp only [chainStep, hc, hfail, Bool.false_and] at hs
  simp at hs
  subst hs
  exact ⟨rfl, rfl⟩

/-- **recorded head ⇒ its state root opens from the disk alone**, in every reachable
    state: after any history of blocks, refused writes at any point, deaths, removals. -/
theorem recorded_head_openable (eD eC : Hash) (cs : ChainSt) (hr : ChainReach eD eC cs) (r : Hash)
    (hh : cs.head = some r) : Resolvable cs.st.disk r :=
  let i := chainReach_inv hr
  i.headsRes r (i.headIn r hh)

/-- every block that was ever head stays openable (what `remove` falls back to) -/
theorem former_heads_openable (eD eC : Hash) (cs : ChainSt) (hr : ChainReach eD eC cs) (r : Hash)
    (hm : r ∈ cs.heads) : Resolvable cs.st.disk r := (chainReach_inv hr).headsRes r hm

/-- the order facts regenerated from `src/core` on every run -/
theorem facts_head_after_save_states :
    TrieDbFacts.insertBlockSkeleton =
      ["marshal", "markAddBlock", "saveBlockByHash-or-fail", "marshal", "saveBlockByHeight-or-fail", "saveStates",
       "if-not-saved-return-failed", "updateVerifyHash", "updateTxPool", "topBlocks.Add", "updateLastBlock-or-fail",
       "eraseAddBlockMark", "successCallback", "return-succ"] ∧
    TrieDbFacts.saveStatesSkeleton =
      ["state-from-verified-cache-or-execute-else-return-false", "state.Commit", "if-err-return-false",
       "trieDB.Commit-root", "if-err-return-false", "return-true"] ∧
    TrieDbFacts.updateLastBlockSkeleton = ["stmt1:Put-latestBlockKey", "if-err-return-false"] ∧
    TrieDbFacts.headRecordWriters =
      ["src/core/blockchain.go:remove:Put", "src/core/blockchain_add.go:updateLastBlock:Put"] ∧
    TrieDbFacts.forkSaveStateSkeleton =
      ["state.Commit", "if-err-return-err", "trieDB.Commit-root", "if-err-return-err", "return-nil"] := by decide

/-! non-vacuity: the example history of `Props/C03.lean` as a block -/

example : ∃ cs', chainStep 0 0 ⟨Rangers.Props.C03.exS5, none, []⟩ (.insertBlock 5 none true) = some cs' ∧
    cs'.head = some 5 ∧ cs'.st.cache = [] := ⟨_, rfl, rfl, rfl⟩

/-- a refused first write: nothing recorded -/
example : ∃ cs', chainStep 0 0 ⟨Rangers.Props.C03.exS5, none, []⟩ (.insertBlock 5 (some 0) true) = some cs' ∧
    cs'.head = none := ⟨_, rfl, rfl⟩

/-- `ChainOpOk` of that block: the root is in the memory database -/
example : ChainOpOk 0 0 ⟨Rangers.Props.C03.exS5, none, []⟩ (.insertBlock 5 none true) := by
  show (liveLookup Rangers.Props.C03.exS5 5).isSome = true
  decide

end Rangers.Props.C03Head
