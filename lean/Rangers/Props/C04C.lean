import Rangers.Props.C04
import Rangers.Proofs.JournalRootFinal
import Rangers.Proofs.JournalRootSteps3
/-!
# C04 — root clause, proved for regions that touch account objects

`revert_restores_root`: after `snapshot; region; revert` the content `IntermediateRoot(d)` hashes is
the content it would have hashed without the region (same nonce, code hash and storage content per
leaf), for regions with any nesting of snapshots and reverts whose ops satisfy `StepOkR` in the state
they run in.  `StepOkR` excludes exactly the four mechanisms of the counterexamples in `Props/C04`:

* writes go to objects that are already disarmed (`onDirty == nil`, i.e. already dirty): no new dirty
  mark can leak (`revert-leaves-dirty-mark`), and `touchChange.undo` cannot disarm (`touch-undo-…`);
* storage writes go to objects whose caches already hold something, reads do not turn an empty read
  cache into a non-empty one: `empty()` cannot flip (`empty-looks-at-storage-cache`);
* the slot written is coherent (`GetData` answers what `updateTrie` would flush) and `GetCommittedState`
  is not in the region (`committed-read-clobbers-cache`);
* an account created inside the region is not in the dirty set.

The proof runs the generic nested snapshot/revert argument (`JournalRevertG`) with the finer relation
`SimR` (`Proofs/JournalRootRel`): `Sim` plus equal dirty sets and, per object, equal `onDirty` state,
flushed storage and cache emptiness.  Every `undo` respects it (`undo_congrR`, all 11 kinds).
-/
namespace Rangers.Props.C04C
open Rangers Rangers.Model.Journal Rangers.Proofs.Journal Rangers.Proofs.JournalG Rangers.Props.C04

/-- side condition of one op for the root theorem (decidable; evaluated in the state the op runs in) -/
def StepOkR (c : Cfg) (s : ADB) : Op → Prop
  | .setNonce a _ => NonceOk s a
  | .incNonce a => NonceOk s a
  | .setData a k _ => DataOk s a k
  | .create a => CreateOk s a
  | .setBal a _ => DataOk s c.tok (c.balKey a)
  | .addBal a _ => DataOk s c.tok (c.balKey a)
  | .subBal a _ => DataOk s c.tok (c.balKey a)
  | .transfer a b n => TransferOk c s a b n
  | .qBal a => BalReadOk c s a
  | .qAllRefund a => AllRefundOk s a
  | .qData a k => ReadOk s a k
  | .qExist _ | .qEmpty _ | .qNonce _ | .qSuicided _ | .qCodeSize _ | .qCodeHash _ => True
  | .snapshot | .revert _ => True
  | .addRefund _ | .subRefund _ | .alAddr _ | .tset .. => True
  | .addLog .. => AddLogOk s
  | .alSlot a _ => AddSlotOk s a
  | _ => False

instance (c : Cfg) (s : ADB) (op : Op) : Decidable (StepOkR c s op) := by
  unfold StepOkR; split <;> infer_instance

instance decRunOkR (c : Cfg) : (ops : List Op) → (s : ADB) → Decidable (RunOk (StepOkR c) c s ops)
  | [], _ => isTrue trivial
  | op :: ops, s => @instDecidableAnd _ _ inferInstance (decRunOkR c ops (step c s op))

instance (s : ADB) : Decidable (EndOk s) :=
  decidable_of_iff (s.crashed = false ∧ s.dirtySet.Nodup ∧ (∀ a ∈ s.dirtySet, (mget s.objs a).isSome = true) ∧
      (∀ p ∈ s.objs, p.2.deleted = false))
    ⟨fun ⟨a, b, c, d⟩ => ⟨a, b, c, d⟩, fun h => ⟨h.live, h.nodup, h.inmap, h.nodel⟩⟩

theorem step_revAtR (c : Cfg) (hp : c.p002 = true) (s : ADB) (op : Op) (hc : StepOkR c s op)
    (h1 : op ≠ Op.snapshot) (h2 : ∀ id, op ≠ Op.revert id) : Rangers.Proofs.JournalG.RevAt c SimR (fun x => step c x op) s := by
  cases op with
  | setNonce a n => exact revAtR_setNonce s a n hc
  | incNonce a => exact revAtR_incNonce s a hc
  | setData a k v => exact revAtR_setData s a k v hc
  | create a => exact revAtR_create s a hc
  | setBal a n => exact revAtR_setBalance s a n hc
  | addBal a n => exact revAtR_addBalance hp s a n hc
  | subBal a n => exact revAtR_subBalance hp s a n hc
  | transfer a b n => exact revAtR_transfer hp s a b n hc
  | qBal a => exact revAtR_getBalance s a hc
  | qAllRefund a => exact revAtR_getAllRefund s a hc
  | qData a k => exact revAtR_qData s a k hc
  | qExist a => exact revAtR_qExist s a
  | qEmpty a => exact revAtR_qEmpty s a
  | qNonce a => exact revAtR_qNonce s a
  | qSuicided a => exact revAtR_qSuicided s a
  | qCodeSize a => exact revAtR_qCodeSize s a
  | qCodeHash a => exact revAtR_qCodeHash s a
  | snapshot => exact absurd rfl h1
  | revert id => exact absurd rfl (h2 id)
  | addRefund g => exact revAtR_global s _ rfl h1 h2 (step_revAt c hp s _ rfl h1 h2)
  | subRefund g => exact revAtR_global s _ rfl h1 h2 (step_revAt c hp s _ rfl h1 h2)
  | alAddr a => exact revAtR_global s _ rfl h1 h2 (step_revAt c hp s _ rfl h1 h2)
  | tset a k v => exact revAtR_global s _ rfl h1 h2 (step_revAt c hp s _ rfl h1 h2)
  | addLog a t d => exact revAtR_global s _ rfl h1 h2 (step_revAt c hp s _ hc h1 h2)
  | alSlot a sl => exact revAtR_global s _ rfl h1 h2 (step_revAt c hp s _ hc h1 h2)
  | _ => exact absurd hc (by simp [StepOkR])

/-- **C04, root clause.** `snapshot; region; revert` from a start-of-transaction state `s`: if every op of
the region meets `StepOkR` where it runs and both end states are ordinary (`EndOk`: not crashed, dirty set
without duplicates and inside the object cache, no object already deleted by an earlier `Finalise`), then
`Finalise(d)` produces the same account-trie content as it would have produced from `s`. -/
theorem revert_restores_root (c : Cfg) (hp : c.p002 = true) (s : ADB) (region : List Op) (d : Bool)
    (hs : EndOk s) (hr : s.revisions = []) (hrun : RunOk (StepOkR c) c (snapshot s).1 region)
    (hend : EndOk (revert c (run c (snapshot s).1 region) (snapshot s).2)) (a : Addr) :
    LeafEq (mget (finalise d (revert c (run c (snapshot s).1 region) (snapshot s).2)).trie a)
           (mget (finalise d s).trie a) := by
  have hR := relOk_SimR c
  have hsim := revert_rel_generic (StepOkR c) (fun s op hc h1 h2 => step_revAtR c hp s op hc h1 h2) hR (G := [])
    region hs.live ⟨by simp [hr], by simp [hr], by simp [hr]⟩ ⟨by simp [hr], by simp [hr]⟩ hrun hend.live
  exact finalise_leafEq d hsim hend hs a

/-! non-vacuity: an account made dirty and warm in the prefix; the region rewrites its nonce and slots
(one of them new), nests a snapshot and a revert, reads, touches the refund counter and the access list -/
def sWarm : ADB := setBalance c0 (setData (setNonce ADB.empty A1 1) A1 [0x6b] [7]) A1 7

def regionR : List Op :=
  [.setData A1 [0x6b] [9], .snapshot, .setNonce A1 5, .setData A1 [0x6c] [1], .incNonce A1, .revert 1,
.qData A1 [0x6c], .addBal A1 3, .transfer A1 [0xa2] 2, .qBal A1, .subBal A1 1, .qAllRefund A1, .addRefund 3, .alSlot A1 (toHash [1]), .setData A1 [0x6b] [], .create [0xa2], .setNonce [0xa2] 4]

example : EndOk sWarm ∧ sWarm.revisions = [] ∧ RunOk (StepOkR c0) c0 (snapshot sWarm).1 regionR ∧
    EndOk (revert c0 (run c0 (snapshot sWarm).1 regionR) (snapshot sWarm).2) := by decide

/-- the region really changes what would be hashed, and the revert really brings it back -/
example : (finalise true (run c0 (snapshot sWarm).1 regionR)).trie ≠ (finalise true sWarm).trie ∧
    mget (finalise true sWarm).trie A1 = some ⟨1, [([0x6b], [7])], emptyCodeHash⟩ := by decide

/-- the first counterexample of `Props/C04` is outside the hypotheses: the written account is cold -/
example : ¬ RunOk (StepOkR c0) c0 (snapshot (createAccount ADB.empty A1)).1 [.setData A1 [0x6b] [1]] := by decide

/-- … and so is the dirty-mark one: the account is still armed -/
example : ¬ RunOk (StepOkR c0) c0 (snapshot sStorageOnly).1 [.setNonce A1 5] := by decide

end Rangers.Props.C04C
