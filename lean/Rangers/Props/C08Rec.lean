import Rangers.Model.RLPTyped
import Rangers.Props.C08Typed
import Rangers.Props.C08Round
/-!
# C08 — recursive Go types

`Ty` has no recursion construct; a self-referential Go type is modelled by its unfolding to a depth
`d` (`treeTy d`, `treeTTy d`, `treePTy d`, `linkTy d`, `maTy d`/`mbTy d` in `Model/RLPTyped.lean`).
The canonicity and round-trip theorems hold for EVERY unfolding depth (they are instances of the
general typed theorems); that the Go type behaves as its unfolding for values that fit the depth is
the tie (`enc`/`dec` ops on the fixture types `Tree`, `TreeT`, `TreeP`, `Link`, `MA`, `MB`, with the
expected bytes of the searcher taken from the specification encoder over the value's item tree).
-/
namespace Rangers.Props.C08
open Rangers Rangers.RLP

theorem treeTy_plain : ∀ d, (treeTy d).plain := by
  intro d; induction d with
  | zero => simp [treeTy, Ty.plain, plainFs]
  | succ d ih => simp [treeTy, Ty.plain, plainFs, ih]

theorem treeTTy_plain : ∀ d, (treeTTy d).plain := by
  intro d; induction d with
  | zero => simp [treeTTy, Ty.plain, plainFs]
  | succ d ih => simp [treeTTy, Ty.plain, plainFs, ih]

theorem treePTy_plain : ∀ d, (treePTy d).plain := by
  intro d; induction d with
  | zero => simp [treePTy, Ty.plain, plainFs]
  | succ d ih => simp [treePTy, Ty.plain, plainFs, ih]

theorem maTy_plain : ∀ d, (maTy d).plain := by
  intro d; induction d with
  | zero => simp [maTy, Ty.plain, plainFs]
  | succ d ih => simp [maTy, Ty.plain, plainFs, ih]

/-- trees (slice, tail slice, pointer slice children) and the mutually recursive pair: whatever the
    decoder accepts at any unfolding depth is the encoder's output for the decoded value -/
theorem recursive_types_canonical (d : Nat) (b : Bytes) (v : Val) :
    (decodeTy (treeTy d) b = .ok v → encT (treeTy d) v = .ok b) ∧
    (decodeTy (treeTTy d) b = .ok v → encT (treeTTy d) v = .ok b) ∧
    (decodeTy (treePTy d) b = .ok v → encT (treePTy d) v = .ok b) ∧
    (decodeTy (maTy d) b = .ok v → encT (maTy d) v = .ok b) ∧
    (decodeTy (mbTy d) b = .ok v → encT (mbTy d) v = .ok b) :=
  ⟨typed_canonical_partial _ b v (treeTy_plain d), typed_canonical_partial _ b v (treeTTy_plain d),
   typed_canonical_partial _ b v (treePTy_plain d), typed_canonical_partial _ b v (maTy_plain d),
   typed_canonical_partial _ b v (by simp [mbTy, Ty.plain, plainFs, maTy_plain d])⟩

/-- … and every well-formed value of any of the recursive types (the `rlp:"nil"` linked list
    included) decodes from its encoding to its normal form, at every unfolding depth -/
theorem recursive_types_roundtrip (d : Nat) (v : Val) (enc : Bytes) :
    (WFV (treeTy d) v → encT (treeTy d) v = .ok enc → decodeTy (treeTy d) enc = .ok (norm (treeTy d) v)) ∧
    (WFV (treeTTy d) v → encT (treeTTy d) v = .ok enc → decodeTy (treeTTy d) enc = .ok (norm (treeTTy d) v)) ∧
    (WFV (treePTy d) v → encT (treePTy d) v = .ok enc → decodeTy (treePTy d) enc = .ok (norm (treePTy d) v)) ∧
    (WFV (linkTy d) v → encT (linkTy d) v = .ok enc → decodeTy (linkTy d) enc = .ok (norm (linkTy d) v)) ∧
    (WFV (maTy d) v → encT (maTy d) v = .ok enc → decodeTy (maTy d) enc = .ok (norm (maTy d) v)) :=
  ⟨typed_roundtrip _ v enc, typed_roundtrip _ v enc, typed_roundtrip _ v enc, typed_roundtrip _ v enc, typed_roundtrip _ v enc⟩

-- non-vacuity: a two-level tree and a two-cell list
set_option maxRecDepth 32768 in
example : decodeTy (treeTy 3) [0xc5, 0x05, 0xc3, 0xc2, 0x06, 0xc0] = .ok (.list [.num 5, .list [.list [.num 6, .list []]]]) := by rfl
set_option maxRecDepth 32768 in
example : encT (linkTy 2) (.list [.num 5, .some (.list [.num 6, .nil])]) = .ok [0xc4, 0x05, 0xc2, 0x06, 0xc0] := by rfl

end Rangers.Props.C08
