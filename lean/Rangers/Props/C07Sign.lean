import Rangers.Props.C07
import Rangers.Props.C07Batch
import Rangers.Proofs.TxAuthSecp
/-!
# C07 — the signing path, and the admission flags

"Honestly signed transactions are always accepted" needs the *signing* side of the code too:
`Signer.SignatureValues` (Frontier/Homestead and EIP-155), `Transaction.WithSignature`, `SignTx`,
and the native wrapper `secp256k1.Sign`.  They are modelled (`frontierSigValues`,
`eip155SigValues`, `withSignature`, `signTx155`, `nativeSignBytes`) and tied by the
correspondence streams `sigv`, `fsigv`, `nsig` and the T-gen fact `sign_path_shape`.
-/
namespace Rangers.Props.C07
open Rangers Rangers.Model.TxAuth

theorem u8_add27 (k : UInt8) (h : k.toNat ≤ 228) : (k + 27).toNat = k.toNat + 27 := by
  rw [UInt8.toNat_add]
  have : (27 : UInt8).toNat = 27 := rfl
  rw [this]; exact Nat.mod_eq_of_lt (by omega)

theorem u8_add35 (k : UInt8) (h : k.toNat ≤ 220) : (k + 35).toNat = k.toNat + 35 := by
  rw [UInt8.toNat_add]
  have : (35 : UInt8).toNat = 35 := rfl
  rw [this]; exact Nat.mod_eq_of_lt (by omega)

/-- a 65-byte signature is rebuilt from the integers the signer extracts from it -/
theorem sig_rebuild (sig : Bytes) (h : sig.length = 65) :
    padLeft 32 (natToBE (sigR sig)) ++ padLeft 32 (natToBE (sigS sig)) ++ [(sig.drop 64).headD 0] = sig := by
  unfold sigR sigS
  have l1 : (sig.take 32).length = 32 := by simp [h]
  have l2 : ((sig.drop 32).take 32).length = 32 := by simp [h]
  have p1 := padLeft_natToBE_beToNat (sig.take 32)
  have p2 := padLeft_natToBE_beToNat ((sig.drop 32).take 32)
  rw [l1] at p1
  rw [l2] at p2
  rw [p1, p2]
  have l3 : (sig.drop 64).length = 1 := by simp [h]
  have h3 : [(sig.drop 64).headD 0] = sig.drop 64 := by
    match hd : sig.drop 64, l3 with
    | [x], _ => rfl
  rw [h3]
  have e : (sig.drop 32).take 32 ++ sig.drop 64 = sig.drop 32 := by
    have : sig.drop 64 = (sig.drop 32).drop 32 := by rw [List.drop_drop]
    rw [this, List.take_append_drop]
  rw [List.append_assoc, e, List.take_append_drop]

/-- `EIP155Signer.SignatureValues` for a chain id ≠ 0 and a recovery byte that does not wrap:
    r and s are the two 32-byte integers, v = 2·chainId + 35 + recid. -/
theorem eip155_sigvalues_spec (c : Nat) (sig : Bytes) (hc : c ≠ 0) (h : sig.length = 65)
    (hk : ((sig.drop 64).headD 0).toNat ≤ 220) :
    eip155SigValues c sig = some (sigR sig, sigS sig, 2 * c + 35 + ((sig.drop 64).headD 0).toNat) := by
  unfold eip155SigValues frontierSigValues
  simp only [h, ne_eq, not_true_eq_false, ↓reduceIte, hc, not_false_eq_true]
  rw [u8_add35 _ hk]
  congr 3
  omega

/-- …and for chain id 0 the Frontier value is kept: v = 27 + recid (byte arithmetic). -/
theorem eip155_sigvalues_chain0 (sig : Bytes) : eip155SigValues 0 sig = frontierSigValues sig := by
  unfold eip155SigValues
  cases frontierSigValues sig with
  | none => rfl
  | some p => obtain ⟨r, s, v⟩ := p; simp

/-- a wrong-size signature is the panic of `FrontierSigner.SignatureValues`, for every chain id -/
theorem sigvalues_panics_iff (c : Nat) (sig : Bytes) : eip155SigValues c sig = none ↔ sig.length ≠ 65 := by
  unfold eip155SigValues frontierSigValues
  by_cases h : sig.length = 65
  · by_cases hc : c = 0 <;> simp [h, hc]
  · simp [h]

example : eip155SigValues 9 (List.replicate 64 1 ++ [1]) = some (sigR (List.replicate 64 1 ++ [1]), sigS (List.replicate 64 1 ++ [1]), 54) := by
  decide

/-- **The node's own `SignTx` produces what its verifier accepts (chain id ≠ 0).** If the
    library's signature over the EIP-155 signing hash recovers an uncompressed key (recovery bit 0/1,
    r and s in range, low s — what libsecp256k1 produces), then `SignTx(tx, EIP155Signer(c), key)`
    succeeds and `EIP155Signer(c).Sender` of the signed transaction is that key's address. -/
theorem signTx155_sender (cr : Crypto) (c : Nat) (e : EthTx) (sig pub : Bytes) (hc : c ≠ 0)
    (hlen : sig.length = 65) (hk : ((sig.drop 64).headD 0).toNat < 2)
    (hr : 1 ≤ sigR sig ∧ sigR sig < secpN) (hs : 1 ≤ sigS sig ∧ sigS sig ≤ secpHalfN)
    (hrec : recoverPubkeyEth cr (cr.keccak (sigPreimage155 c e)) sig = some pub)
    (hpub : pub.head? = some 4) :
    ∃ e', signTx155 c e sig = some e' ∧
      ethSender cr c e' = some (((cr.keccak (pub.drop 1)).drop 12).take 20 ++
        List.replicate (20 - min 20 ((cr.keccak (pub.drop 1)).drop 12).length) 0) := by
  have hv := eip155_sigvalues_spec c sig hc hlen (by omega)
  refine ⟨withSignature e (sigR sig, sigS sig, 2 * c + 35 + ((sig.drop 64).headD 0).toNat), ?_, ?_⟩
  · unfold signTx155; rw [hv]; rfl
  · have hpre : sigPreimage155 c (withSignature e (sigR sig, sigS sig, 2 * c + 35 + ((sig.drop 64).headD 0).toNat))
        = sigPreimage155 c e := rfl
    apply ethSender_eip155 cr c _ ((sig.drop 64).headD 0).toNat pub hk rfl hr hs
    · rw [hpre]
      show recoverPubkeyEth cr (cr.keccak (sigPreimage155 c e))
        (padLeft 32 (natToBE (sigR sig)) ++ padLeft 32 (natToBE (sigS sig)) ++ [UInt8.ofNat ((sig.drop 64).headD 0).toNat]) = some pub
      rw [UInt8.ofNat_toNat, sig_rebuild sig hlen]
      exact hrec
    · exact hpub

/-- **The chain-id-0 signing quirk.** For chain id 0 `SignTx(EIP155Signer(0))` signs the EIP-155
    hash (…, 0, 0, 0) but stores v = 27/28, and the verifier — this node's included — then recovers
    over the *Homestead* hash: the sender it computes is `recoverPlain` of another message. -/
theorem signTx_chain0_verifier_uses_homestead (cr : Crypto) (e : EthTx) (sig : Bytes)
    (hlen : sig.length = 65) (hk : ((sig.drop 64).headD 0).toNat < 2) :
    ∃ e', signTx155 0 e sig = some e' ∧ e'.v = 27 + ((sig.drop 64).headD 0).toNat ∧
      ethSender cr 0 e' = recoverPlain cr (cr.keccak (sigPreimageHomestead e)) (sigR sig) (sigS sig) (Int.ofNat e'.v) := by
  have hv : ((sig.drop 64).headD 0 + 27).toNat = 27 + ((sig.drop 64).headD 0).toNat := by
    rw [u8_add27 _ (by omega)]; omega
  refine ⟨withSignature e (sigR sig, sigS sig, 27 + ((sig.drop 64).headD 0).toNat), ?_, rfl, ?_⟩
  · unfold signTx155
    rw [eip155_sigvalues_chain0]
    unfold frontierSigValues
    simp only [hlen, ne_eq, not_true_eq_false, ↓reduceIte, hv, Option.map_some]
  · have hp : isProtectedV (27 + ((sig.drop 64).headD 0).toNat) = false := by
      unfold isProtectedV
      have : 27 + ((sig.drop 64).headD 0).toNat < 256 := by omega
      simp only [this, ↓reduceIte, decide_eq_false_iff_not]
      omega
    unfold ethSender
    simp only [withSignature, hp, Bool.false_eq_true, not_false_eq_true, ↓reduceIte]
    rfl

/-- primitives under which the two signing hashes of `toyEth155` differ and recover different keys -/
def splitCrypto : Crypto :=
  { sha256 := fun _ => [],
    keccak := fun m => if m = sigPreimage155 0 toyEth155 then List.replicate 32 1
                       else if m = [1] then List.replicate 32 5 else List.replicate 32 2,
    recoverCore := fun msg _ _ _ => if msg = List.replicate 32 1 then some [4, 1] else some [4, 2],
    verifyCore := fun _ _ _ _ => true }

/-- …and so the quirk is a real failure of "own signature ⇒ own verifier accepts" for chain id 0:
    a witness where the signature recovers the signer over the signed hash, yet `Sender` of the
    transaction `SignTx` built gives another address.  (Replayed against the real code by the
    searcher on the chain-0 configuration: counted under `info`, chain id 0 is never configured.) -/
theorem signTx_chain0_counterexample :
    ∃ (sig : Bytes) (e' : EthTx),
      recoverPubkeyEth splitCrypto (splitCrypto.keccak (sigPreimage155 0 toyEth155)) sig = some [4, 1] ∧
      signTx155 0 toyEth155 sig = some e' ∧
      ethSender splitCrypto 0 e' = some (List.replicate 20 2) ∧
      List.replicate 20 2 ≠ ((splitCrypto.keccak [1]).drop 12).take 20 :=
  ⟨List.replicate 64 1 ++ [0], withSignature toyEth155 (sigR (List.replicate 64 1 ++ [0]), sigS (List.replicate 64 1 ++ [0]), 27),
   by decide, by decide, by decide, by decide⟩

/-- **The native wrapper `secp256k1.Sign` produces what `verifyTransactionSign` accepts**: the
    library's raw r‖s‖recid with 27 added to the last byte is recovered (through the 27..30 ↦ 0..3
    mapping) exactly like the raw signature. -/
theorem native_sign_wrapper_recovers (cr : Crypto) (msg raw : Bytes) (hlen : raw.length = 65)
    (hk : ((raw.drop 64).headD 0).toNat ≤ 3) (hm : msg.length = 32) :
    recoverPubkey cr msg (nativeSignBytes raw) = libRecover cr msg raw := by
  unfold nativeSignBytes
  have hb : (raw.take 64).length = 64 := by simp [hlen]
  have hraw : raw.take 64 ++ [(raw.drop 64).headD 0] = raw := by
    have l3 : (raw.drop 64).length = 1 := by simp [hlen]
    have h3 : [(raw.drop 64).headD 0] = raw.drop 64 := by
      match hd : raw.drop 64, l3 with
      | [x], _ => rfl
    rw [h3, List.take_append_drop]
  rw [recoverPubkey_snoc cr msg (raw.take 64) _ hb]
  generalize (raw.drop 64).headD 0 = k at hk hraw ⊢
  have h27 : (k + 27).toNat = k.toNat + 27 := u8_add27 k (by omega)
  have c26 : (26 : UInt8).toNat = 26 := rfl
  have c27 : (27 : UInt8).toNat = 27 := rfl
  have c4 : (4 : UInt8).toNat = 4 := rfl
  have g1 : k + 27 > 26 := by
    apply UInt8.lt_iff_toNat_lt.2; rw [h27, c26]; omega
  have g2 : k + 27 - 27 = k := by
    apply UInt8.toNat_inj.1
    rw [UInt8.toNat_sub_of_le _ _ (by apply UInt8.le_iff_toNat_le.2; rw [h27, c27]; omega), h27, c27]; omega
  have g3 : ¬ (k ≥ 4) := by
    intro hge; have := UInt8.le_iff_toNat_le.1 hge; rw [c4] at this; omega
  simp only [hm, ne_eq, not_true_eq_false, ↓reduceIte, g1, g2, g3, hraw]

example : nativeSignBytes (List.replicate 64 1 ++ [1]) = List.replicate 64 1 ++ [28] := by decide

/-! ## the per-object sender cache of `eth_tx.Sender` -/

/-- the cache invariant: what is cached is what the cached signer derives -/
def CacheOK (cr : Crypto) (e : EthTx) : Option SigCache → Prop
  | none => True
  | some sc => ethSender cr sc.chainId e = some sc.sender

theorem senderCached_spec (cr : Crypto) (e : EthTx) (cache : Option SigCache) (c : Nat)
    (hc : CacheOK cr e cache) :
    (senderCached cr cache c e).1 = ethSender cr c e ∧ CacheOK cr e (senderCached cr cache c e).2 := by
  have hderive : ∀ cache', CacheOK cr e cache' →
      ((match ethSender cr c e with
        | none => ((none : Option Bytes), cache')
        | some a => (some a, some ⟨c, a⟩)).1 = ethSender cr c e) ∧
      CacheOK cr e (match ethSender cr c e with
        | none => ((none : Option Bytes), cache')
        | some a => (some a, some ⟨c, a⟩)).2 := by
    intro cache' hc'
    cases hs : ethSender cr c e with
    | none => exact ⟨rfl, hc'⟩
    | some a => exact ⟨rfl, hs⟩
  unfold senderCached
  cases cache with
  | none => exact hderive none hc
  | some sc =>
    by_cases heq : sc.chainId = c
    · simp only [heq, ↓reduceIte]
      subst heq
      exact ⟨hc.symm, hc⟩
    · simp only [heq, ↓reduceIte]
      exact hderive (some sc) hc

/-- **The cache is transparent**: any sequence of `Sender` calls on one transaction object, with
    signers of any chain ids in any order, returns what the uncached derivation returns — the
    address cached for one chain id is never handed out for another (the failure class of the
    seeded regression C07-c, there one level up). -/
theorem sender_cache_transparent (cr : Crypto) (e : EthTx) (cs : List Nat) :
    senderRun cr e none cs = cs.map (fun c => ethSender cr c e) := by
  have gen : ∀ (cache : Option SigCache), CacheOK cr e cache →
      senderRun cr e cache cs = cs.map (fun c => ethSender cr c e) := by
    induction cs with
    | nil => intro _ _; rfl
    | cons c rest ih =>
      intro cache hc
      obtain ⟨h1, h2⟩ := senderCached_spec cr e cache c hc
      simp only [senderRun, List.map_cons, h1]
      rw [ih _ h2]
  exact gen none True.intro

example : senderRun toyCrypto toyEth155 none [9, 10, 9] =
    [some (List.replicate 20 1), none, some (List.replicate 20 1)] := by decide

/-! ## admission flags (the function the `batch` stream compares with the real handlers) -/

theorem admitFlags_length (cr : Crypto) (cfg : ChainCfg) (h : Nat) (have_ : List Bytes) (txs : List Tx) :
    (admitFlags cr cfg h have_ txs).length = txs.length := by
  induction txs generalizing have_ with
  | nil => rfl
  | cons x rest ih =>
    unfold admitFlags
    split <;> simp [ih]

/-- The flags select exactly the transactions `admitBatch` adds (so the theorems of
    `Props/C07Batch` speak about the function the correspondence stream runs). -/
theorem admitBatch_eq_flagged (cr : Crypto) (cfg : ChainCfg) (h : Nat) (have_ : List Bytes) (txs : List Tx) :
    admitBatch cr cfg h have_ txs =
      ((txs.zip (admitFlags cr cfg h have_ txs)).filter (fun p => p.2)).map (fun p => p.1) := by
  induction txs generalizing have_ with
  | nil => rfl
  | cons x rest ih =>
    unfold admitBatch admitFlags
    by_cases hc : verifyTx cr cfg h x = .ok ∧ x.hash ∉ have_
    · rw [if_pos hc, if_pos hc]
      simp [ih]
    · rw [if_neg hc, if_neg hc]
      simp [ih]

example : admitFlags toyCrypto toyCfg 0 [] [{ toyNative with hash := List.replicate 32 9 }, toyNative, toyNative]
    = [false, true, false] := by decide

end Rangers.Props.C07
