import Rangers.Proofs.Bls14Jac
import Rangers.Props.C14W
/-!
# C14, part 6 — the Jacobian arithmetic the node executes is inside the proof

`Model/Bls14Jac.lean` transcribes `curvePoint.Add / Double / Mul / Neg / MakeAffine` of
`bn256/curve.go` statement by statement (Jacobian `(x, y, z)`, the code's own case analysis,
the extra leading zero bit of `Mul`, the `z == 1` shortcut of `MakeAffine`). For every reduced
input — on the curve or not, normalised or not — the point `Marshal` would write after each
operation is the affine operation of `Model/Bls14G1.lean` on the points `Marshal` would write
for the inputs. With `Props/C14W` (affine model = Mathlib's elliptic-curve group law) the
signature `Sign` computes is `sk • H(m)` in the group, and it verifies.
Hypothesis as in C14W: `p` prime (field inverses).
-/
namespace Rangers.Props.C14
open Rangers Rangers.Model.Bls14 Rangers.Proofs.Bls14

variable [hp : Fact (Nat.Prime P)]

/-- `curvePoint.Add` (add-2007-bl, infinity / doubling / opposite-point exits as coded). -/
theorem jacobian_add_is_affine_add (a b : Jac) (ha : JRed a) (hb : JRed b) :
    (jAdd a b).toPt = Pt.add a.toPt b.toPt ∧ JRed (jAdd a b) :=
  ⟨toPt_jAdd a b ha hb, jAdd_red a b ha hb⟩

/-- `curvePoint.Double` (dbl-2009-l, no special case for infinity or `y = 0`). -/
theorem jacobian_double_is_affine_double (a : Jac) (ha : JRed a) :
    (jDouble a).toPt = Pt.double a.toPt ∧ JRed (jDouble a) :=
  ⟨toPt_jDouble a ha, jDouble_red a⟩

/-- `curvePoint.Neg`. -/
theorem jacobian_neg_is_affine_neg (a : Jac) (ha : JRed a) :
    (jNeg a).toPt = a.toPt.neg ∧ JRed (jNeg a) :=
  ⟨toPt_jNeg a ha, jNeg_red a ha⟩

/-- `curvePoint.Mul`: bits `BitLen … 0`, `t = 2·sum; sum = bit ? t + a : t`, for every scalar. -/
theorem jacobian_mul_is_affine_mul (a : Jac) (ha : JRed a) (k : ℕ) :
    (jMul a k).toPt = Pt.mul a.toPt k :=
  toPt_jMul a ha k

omit hp in
example : JRed (Jac.ofPt g1Gen) ∧ JRed Jac.infinity ∧ JRed ⟨5, 7, 11⟩ := by
  refine ⟨⟨?_, ?_, ?_⟩, ⟨?_, ?_, ?_⟩, ⟨?_, ?_, ?_⟩⟩ <;> decide

/-- What `Sign` computes in Jacobian coordinates serialises to the affine model's signature. -/
theorem sign_as_executed (sk : ℕ) (hm : Pt) (hr : hm.reduced = true) :
    jMarshal (signJ sk hm) = Sig.serialize (sign sk hm) := by
  have h := toPt_ofPt hm hr
  simp only [jMarshal, signJ, Sig.serialize, sign]
  rw [toPt_jMul _ h.2, h.1]

/-- …hence it is `sk • H(m)` in the elliptic-curve group (Mathlib), and a valid point. -/
theorem sign_as_executed_is_scalar_mul (sk : ℕ) (hsk : sk < 2 ^ 512) (hm : Pt) (hv : Valid hm) :
    Valid (signJ sk hm).toPt ∧ ι (signJ sk hm).toPt = sk • ι hm := by
  have h := toPt_ofPt hm hv.2
  simp only [signJ]
  rw [toPt_jMul _ h.2, h.1]
  exact ι_mul hm hv sk hsk

section pairing
variable {G2 GT : Type} [AddCommGroup G2] [CommGroup GT]
  (e : W.Point → G2 → GT) (bil : Bilinear e) (κ : Pt2 → G2) (nd : ∀ a, e a (κ g2Gen) = 1 → a = 0)

/-- **Completeness for the executed code path**: the value `ScalarMult(H(m), sk)` computes in
    Jacobian coordinates, once marshalled and parsed back, is accepted under `pk = sk·g₂`. -/
theorem sign_as_executed_verifies (sk : ℕ) (hsk : sk < 2 ^ 512) (hm : Pt) (hv : Valid hm) (pk : Pt2)
    (hpk : κ pk = sk • κ g2Gen) :
    verifySig (curveInterp e bil κ nd).pairEq hm (.pt pk) (deserializeSign (jMarshal (signJ sk hm)))
      = .accept := by
  rw [sign_as_executed sk hm hv.2]
  have H := sign_is_honest e bil κ nd sk hsk hm hv pk hpk
  have : deserializeSign (Sig.serialize (sign sk hm)) = sign sk hm :=
    sig_roundtrip _ H.onCurve H.reduced
  rw [this]
  exact sign_verifies e bil κ nd sk hsk hm hv pk hpk

end pairing

end Rangers.Props.C14
