import Rangers.Model.Bls14Misc
import Rangers.Proofs.Bls14Bytes
import Rangers.Proofs.Bls14Field
import Rangers.Proofs.Bls14Model
import Rangers.Props.C14
import Rangers.Props.C14E
/-!
# C14, part 10 — predicates, derived identifiers, key construction

`IsEqual` decides equality of the values it is given (with the nil/identity quirk), ids derived from
public keys are always serialisable, aggregated / derived secret keys are reduced (and CAN be the
invalid key 0), addresses are exactly 20 bytes.
-/
namespace Rangers.Props.C14
open Rangers Rangers.Model.Bls14 Rangers.Proofs.Bls14

/-- `G1.Marshal` is injective on valid points: equal bytes, equal points. -/
theorem g1_marshal_injective (p q : Pt) (hp : p.onCurve = true ∧ p.reduced = true)
    (hq : q.onCurve = true ∧ q.reduced = true) (h : g1Marshal p = g1Marshal q) : p = q := by
  have := g1_marshal_unmarshal .nil p hp.1 hp.2
  rw [h, g1_marshal_unmarshal .nil q hq.1 hq.2] at this
  exact (G1Val.pt.inj (Prod.mk.inj this).1).symm

/-- `Signature.IsEqual` on valid signatures is equality of the points. -/
theorem sig_isEqual_iff (p q : Pt) (hp : p.onCurve = true ∧ p.reduced = true)
    (hq : q.onCurve = true ∧ q.reduced = true) :
    sigIsEqual (.pt p) (.pt q) = true ↔ p = q := by
  simp only [sigIsEqual, g1ValMarshal, beq_iff_eq]
  exact ⟨g1_marshal_injective p q hp hq, fun h => by rw [h]⟩

/-- Quirk: the nil signature "equals" the identity signature (both marshal to 64 zero bytes). -/
theorem sig_isEqual_nil_identity : sigIsEqual .nil (.pt .inf) = true := by decide

/-- `Pubkey.IsEqual` on valid keys is equality of the points. -/
theorem pub_isEqual_iff (x y x' y' : F2) (hr : x.x < P ∧ x.y < P ∧ y.x < P ∧ y.y < P)
    (hc : onTwistXY x y = true) (hr' : x'.x < P ∧ x'.y < P ∧ y'.x < P ∧ y'.y < P)
    (hc' : onTwistXY x' y' = true) :
    pubIsEqual (.pt (.aff x y)) (.pt (.aff x' y')) = true ↔ (x = x' ∧ y = y') := by
  simp only [pubIsEqual, Pub.serialize, beq_iff_eq]
  constructor
  · intro h
    have e := g2_marshal_unmarshal .nil x y hr hc
    rw [h, g2_marshal_unmarshal .nil x' y' hr' hc'] at e
    have := G2Val.pt.inj (Prod.mk.inj e).1
    injection this with h1 h2
    exact ⟨h1.symm, h2.symm⟩
  · rintro ⟨rfl, rfl⟩; rfl

example : onTwistXY ⟨Generated.Bls14.twistGenXX, Generated.Bls14.twistGenXY⟩
    ⟨Generated.Bls14.twistGenYX, Generated.Bls14.twistGenYY⟩ = true := by decide

/-- Aggregated and seed-derived secret keys are reduced mod the group order … -/
theorem derived_seckeys_reduced (s : Nat) (ss : List Nat) (seed : Bytes) :
    (∃ v, aggregateSeckeys (s :: ss) = some v ∧ v < R) ∧ seckeyFromRand seed < R :=
  ⟨⟨_, rfl, Nat.mod_lt _ (by decide)⟩, Nat.mod_lt _ (by decide)⟩

/-- … and can be the INVALID key 0 (`IsValid() = false`): nothing in `AggregateSeckeys` /
    `NewSeckeyFromRand` excludes it (two opposite shares; a seed ≡ 0 mod r). -/
theorem derived_seckey_can_be_invalid :
    aggregateSeckeys [5, R - 5] = some 0 ∧ scalarIsValid 0 = false ∧
    seckeyFromRand (beFixed 32 R) = 0 := by
  refine ⟨by decide, rfl, ?_⟩
  unfold seckeyFromRand
  rw [List.take_of_length_le (by simp [beFixed_length]), beToNat_beFixed_of_lt 32 R (by decide)]
  exact Nat.mod_self R

/-- SHA3-256 digests are 32 bytes. -/
theorem sha3_256_length (m : Bytes) : (Sha3.sha3_256 m).length = 32 := by
  simp [Sha3.sha3_256, Sha3.squeeze32, List.length_flatMap]
  decide

/-- Ids derived from public keys are below 2^256, hence `ID.Serialize` never panics on them and they
    survive the byte and the hex round trip. -/
theorem newID_serializable (pk : Pub) :
    newIDFromPubkey pk < 2 ^ 256 ∧
    ∃ b, idSerialize (newIDFromPubkey pk) = some b ∧ b.length = 32 ∧
      scalarDeserialize b = newIDFromPubkey pk := by
  have hl : newIDFromPubkey pk < 2 ^ 256 := by
    have := beToNat_lt (Sha3.sha3_256 (Pub.serialize pk))
    rw [sha3_256_length] at this
    have e : (256 : Nat) ^ 32 = 2 ^ 256 := by decide
    unfold newIDFromPubkey; omega
  exact ⟨hl, id_roundtrip _ hl⟩

/-- Addresses are exactly 20 bytes, whatever goes in. -/
theorem bytesToAddress_length (b : Bytes) : (bytesToAddress b).length = 20 := by
  unfold bytesToAddress
  split
  · simp; omega
  · simp; omega

/-- Quirk: `ID.ToAddress` keeps only the LAST 20 of the 32 id bytes — ids that differ in their top
    12 bytes share an address. -/
theorem idToAddress_ignores_high_bytes : idToAddress 7 = idToAddress (7 + 2 ^ 200) ∧ (7 : Nat) ≠ 7 + 2 ^ 200 := by
  decide

/-- `ShortHex12` never returns more than 13 characters. -/
theorem shortHex12_length (s : List Char) : (shortHex12 s).length ≤ 13 := by
  unfold shortHex12
  split
  · omega
  · simp; omega

end Rangers.Props.C14
