import Rangers.Proofs.Evm12Inv
import Rangers.Proofs.Evm12Lemmas
/-! C12: the two invariants carried through frame trees by `run_inv`. Core Lean only. -/
namespace Rangers.Model.Evm12

/-- the logs of the block are numbered by their position: `Log.Index` = running `logSize` at emission -/
def LogsIndexed (w : World) : Prop :=
  w.logSize = w.logs.length ∧ ∀ (i : Nat) (h : i < w.logs.length), (w.logs[i]).index = i

/-- `RevertToSnapshot` puts the block-wide log counter back (`addLogChange.undo`: `s.logSize--`, generated fact
    `add_log_undo_as_modelled`) -/
def RevertRestoresLogSize (rv : World → World → World) : Prop :=
  ∀ saved cur, (rv saved cur).logSize = saved.logSize

theorem restore_restoresLogSize : RevertRestoresLogSize restore := fun _ _ => rfl

/-- same logs, same counter -/
def SameLogs (w w' : World) : Prop := w'.logs = w.logs ∧ w'.logSize = w.logSize

theorem LogsIndexed.of_same {w w' : World} (h : SameLogs w w') (hw : LogsIndexed w) : LogsIndexed w' := by
  obtain ⟨h1, h2⟩ := h
  unfold LogsIndexed
  rw [h1, h2]
  exact hw

theorem sameLogs_touchNew (w : World) (a : Addr) : SameLogs w (w.touchNew a) := by
  unfold World.touchNew; split <;> exact ⟨rfl, rfl⟩

theorem logsIndexed_prim (env : Env) (hrv : RevertRestoresObs env.rv) (hls : RevertRestoresLogSize env.rv) :
    PrimInv env LogsIndexed where
  setState w a k v hw := LogsIndexed.of_same (by have := sameLogs_touchNew w a; exact ⟨this.1, this.2⟩) hw
  setNonce w a n hw := LogsIndexed.of_same (by have := sameLogs_touchNew w a; exact ⟨this.1, this.2⟩) hw
  createAccount w a hw := LogsIndexed.of_same (sameLogs_touchNew w a) hw
  addBalance w a v hw := LogsIndexed.of_same ⟨rfl, rfl⟩ hw
  subBalance w a v hw := LogsIndexed.of_same (by unfold World.subBalance; split <;> exact ⟨rfl, rfl⟩) hw
  setCode w a c hw := LogsIndexed.of_same (by have := sameLogs_touchNew w a; exact ⟨this.1, this.2⟩) hw
  suicide w a hw := LogsIndexed.of_same (by unfold World.suicide; split <;> exact ⟨rfl, rfl⟩) hw
  addLog w a n t hw := by
    obtain ⟨h1, h2⟩ := hw
    refine ⟨by simp [World.addLog, h1], ?_⟩
    intro i hi
    simp only [World.addLog, List.length_append, List.length_cons, List.length_nil] at hi
    by_cases hlt : i < w.logs.length
    · simp only [World.addLog, List.getElem_append_left hlt]
      exact h2 i hlt
    · have hie : i = w.logs.length := by omega
      subst hie
      simp [World.addLog, World.newLog, h1]
  setTransient w a k v hw := LogsIndexed.of_same ⟨rfl, rfl⟩ hw
  addAccess w a hw := LogsIndexed.of_same (by unfold World.addAccess; split <;> exact ⟨rfl, rfl⟩) hw
  selfdestructRefund w a hw := LogsIndexed.of_same (by unfold World.selfdestructRefund; split <;> exact ⟨rfl, rfl⟩) hw
  stake w a n hw := LogsIndexed.of_same (by
    unfold stakeEffect; split
    · have : SameLogs w (w.subBalance a (oneRPG * n)) := by unfold World.subBalance; split <;> exact ⟨rfl, rfl⟩
      exact ⟨this.1, this.2⟩
    · exact ⟨rfl, rfl⟩) hw
  unstake w a n hw := LogsIndexed.of_same (by
    unfold unstakeEffect; split
    · split
      · exact ⟨rfl, rfl⟩
      · split <;> exact ⟨rfl, rfl⟩
    · exact ⟨rfl, rfl⟩) hw
  revert saved cur hs := LogsIndexed.of_same ⟨congrArg Obs.logs (hrv saved cur), hls saved cur⟩ hs

end Rangers.Model.Evm12

namespace Rangers.Model.Evm12

/-- `w'` differs from `w` on nonce / code / storage only at addresses that exist in `w'` -/
theorem wf_of {w w' : World}
    (h : ∀ b, w'.exists? b = false → w.exists? b = false ∧ w'.getNonce b = w.getNonce b ∧ w'.getCode b = w.getCode b
      ∧ ∀ k, w'.getState b k = w.getState b k)
    (hw : (obs w).WF) : (obs w').WF := by
  intro b hb
  obtain ⟨h0, h1, h2, h3⟩ := h b hb
  obtain ⟨g1, g2, g3⟩ := hw b h0
  exact ⟨h1.trans g1, h2.trans g2, fun k => (h3 k).trans (g3 k)⟩

theorem SMap.get_set (m : SMap) (a b : Addr) (k k' v : Nat) :
    SMap.get (SMap.set m a k v) b k' = if a = b ∧ k = k' then v else SMap.get m b k' := by
  simp [SMap.set, SMap.get]

theorem exists_touchNew (w : World) (a b : Addr) : (w.touchNew a).exists? b = (w.exists? b || decide (a = b)) := by
  cases h : w.exists? a with
  | true =>
    have : w.touchNew a = w := by unfold World.touchNew; simp [h]
    rw [this]
    by_cases hab : a = b
    · subst hab; simp [h]
    · simp [hab]
  | false =>
    have := exists_createAccount w a b h
    unfold World.createAccount at this
    rw [this]
    by_cases hab : a = b
    · simp [hab]
    · simp [hab]

theorem touchNew_getters (w : World) (a : Addr) :
    (w.touchNew a).getNonce = w.getNonce ∧ (w.touchNew a).getCode = w.getCode ∧ (w.touchNew a).getState = w.getState := by
  unfold World.touchNew; split <;> exact ⟨rfl, rfl, rfl⟩

theorem wf_touchNew (w : World) (a : Addr) (hw : (obs w).WF) : (obs (w.touchNew a)).WF := by
  obtain ⟨g1, g2, g3⟩ := touchNew_getters w a
  refine wf_of (fun b hb => ?_) hw
  rw [exists_touchNew] at hb
  simp only [Bool.or_eq_false_iff] at hb
  exact ⟨hb.1, by rw [g1], by rw [g2], fun k => by rw [g3]⟩

theorem wf_prim (env : Env) (hrv : RevertRestoresObs env.rv) : PrimInv env (fun w => (obs w).WF) where
  setState w a k v hw := by
    obtain ⟨g1, g2, g3⟩ := touchNew_getters w a
    refine wf_of (w := w.touchNew a) (fun b hb => ?_) (wf_touchNew w a hw)
    have hb' : (w.touchNew a).exists? b = false := hb
    have hne : a ≠ b := by
      intro h; subst h
      rw [exists_touchNew] at hb'; simp at hb'
    refine ⟨hb', rfl, rfl, fun k' => ?_⟩
    show SMap.get (SMap.set (w.touchNew a).stor a k v) b k' = SMap.get (w.touchNew a).stor b k'
    rw [SMap.get_set]; simp [hne]
  setNonce w a n hw := by
    refine wf_of (w := w.touchNew a) (fun b hb => ?_) (wf_touchNew w a hw)
    have hb' : (w.touchNew a).exists? b = false := hb
    have hne : a ≠ b := by
      intro h; subst h
      rw [exists_touchNew] at hb'; simp at hb'
    refine ⟨hb', ?_, rfl, fun _ => rfl⟩
    show AMap.get (AMap.set (w.touchNew a).nonce a n) 0 b = AMap.get (w.touchNew a).nonce 0 b
    rw [AMap.get_set]; simp [hne]
  createAccount w a hw := wf_touchNew w a hw
  addBalance w a v hw := wf_of (fun b hb => ⟨hb, rfl, rfl, fun _ => rfl⟩) hw
  subBalance w a v hw := by
    unfold World.subBalance; split
    · exact hw
    · exact wf_of (fun b hb => ⟨hb, rfl, rfl, fun _ => rfl⟩) hw
  setCode w a c hw := by
    refine wf_of (w := w.touchNew a) (fun b hb => ?_) (wf_touchNew w a hw)
    have hb' : (w.touchNew a).exists? b = false := hb
    have hne : a ≠ b := by
      intro h; subst h
      rw [exists_touchNew] at hb'; simp at hb'
    refine ⟨hb', rfl, ?_, fun _ => rfl⟩
    show AMap.get (AMap.set (w.touchNew a).code a c) Code.empty b = AMap.get (w.touchNew a).code Code.empty b
    rw [AMap.get_set]; simp [hne]
  suicide w a hw := by
    unfold World.suicide; split
    · exact wf_of (fun b hb => ⟨hb, rfl, rfl, fun _ => rfl⟩) hw
    · exact hw
  addLog w a n t hw := wf_of (fun b hb => ⟨hb, rfl, rfl, fun _ => rfl⟩) hw
  setTransient w a k v hw := wf_of (fun b hb => ⟨hb, rfl, rfl, fun _ => rfl⟩) hw
  addAccess w a hw := by
    unfold World.addAccess; split
    · exact hw
    · exact wf_of (fun b hb => ⟨hb, rfl, rfl, fun _ => rfl⟩) hw
  selfdestructRefund w a hw := by
    unfold World.selfdestructRefund; split
    · exact hw
    · exact wf_of (fun b hb => ⟨hb, rfl, rfl, fun _ => rfl⟩) hw
  stake w a n hw := by
    unfold stakeEffect; split
    · unfold World.subBalance; split
      · exact wf_of (fun b hb => ⟨hb, rfl, rfl, fun _ => rfl⟩) hw
      · exact wf_of (fun b hb => ⟨hb, rfl, rfl, fun _ => rfl⟩) hw
    · exact hw
  unstake w a n hw := by
    unfold unstakeEffect; split
    · split
      · exact wf_of (fun b hb => ⟨hb, rfl, rfl, fun _ => rfl⟩) hw
      · split
        · exact hw
        · exact wf_of (fun b hb => ⟨hb, rfl, rfl, fun _ => rfl⟩) hw
    · exact hw
  revert saved cur hs := by
    show (obs (env.rv saved cur)).WF
    rw [hrv]; exact hs

end Rangers.Model.Evm12
