import Rangers.Proofs.MinerRun
/-! C20: each accepted transaction, each rejected one and the block end preserve `Inv` and `wealth`. -/
namespace Rangers.Miner

theorem addMinerCore_preserves (cfg : Cfg) (U : List Bytes) (st : State) (p : Bytes) (info : Info) (stake : Nat) (m : Miner)
    (hsome : CodecSome cfg) (hs : SepU cfg U) (hn : U.Nodup) (hinv : Inv cfg U st) (hid : m.id ∈ U) (ht : info.typ < 256)
    (hb : stake < 2 ^ 53) (hle : stakeWei stake ≤ st.balOf p) (hmstake : m.stake = stake)
    (hnone : getMinerById cfg st (dbOfType m.typ) m.id = none)
    (hrk' : RecKeyed cfg (updateMiner cfg (st.subBal p (stakeWei stake)) m (some info))) :
    Inv cfg U (updateMiner cfg (st.subBal p (stakeWei stake)) m (some info)) ∧
      wealth cfg U (updateMiner cfg (st.subBal p (stakeWei stake)) m (some info)) = wealth cfg U st := by
  have hk := hs.1 m.id hid
  have hu := sep_untouched cfg U hs m.id m.id hid hid
  have h0 : stakeAt cfg st (dbOfType m.typ) m.id = 0 := hinv.clean _ _ hid hnone
  have hkeys : OnlyKeys cfg st (updateMiner cfg (st.subBal p (stakeWei stake)) m (some info)) (dbOfType m.typ) m.id :=
    onlyKeys_updateMiner cfg _ st m (some info) (onlyKeys_refl cfg st _ _ _ rfl)
  have hst : stakeAt cfg (updateMiner cfg (st.subBal p (stakeWei stake)) m (some info)) (dbOfType m.typ) m.id = stake := by
    rw [stakeAt_updateMiner_new cfg _ _ _ hu, hmstake]
    exact Nat.mod_eq_of_lt (by omega)
  have hpt := stakeTotal_point cfg U st _ (dbOfType m.typ) m.id hs hn hid hkeys
  have hf := updateMiner_pending cfg (st.subBal p (stakeWei stake)) m (some info)
  have hbal := updateMiner_bal cfg (st.subBal p (stakeWei stake)) m (some info)
  have hsub := balTotal_subBal st p (stakeWei stake) hle
  have hw : stakeWei stake = wei * stake := by unfold stakeWei; rw [f64_small _ hb, Nat.mul_comm]
  refine ⟨⟨hrk', ?_, by rw [hf.1]; exact hinv.pn, by unfold A20; rw [hf.1, hf.2.1]; exact hinv.a20⟩, ?_⟩
  · apply clean_step cfg U st _ (dbOfType m.typ) m.id hs hid hinv.clean hkeys
    intro hnn
    exfalso
    have hrec := updateMiner_some_rec cfg (st.subBal p (stakeWei stake)) m info hk
    have hcs := hsome info ht
    have : (getMinerById cfg (updateMiner cfg (st.subBal p (stakeWei stake)) m (some info)) (dbOfType m.typ) m.id).isSome := by
      rw [getMinerById_isSome, hrec]; exact hcs
    rw [hnn] at this; cases this
  · unfold wealth
    rw [balTotal_of_bal _ _ hbal, hf.1, escTotal_of_escrow _ _ hf.2.1]
    have hp' : pendingSum (st.subBal p (stakeWei stake)).pending = pendingSum st.pending := rfl
    have he' : escTotal (st.subBal p (stakeWei stake)) = escTotal st := rfl
    rw [hp', he']
    rw [hst, h0] at hpt
    have : wei * stakeTotal cfg (updateMiner cfg (st.subBal p (stakeWei stake)) m (some info)) U
        = wei * stakeTotal cfg st U + wei * stake := by
      have : stakeTotal cfg (updateMiner cfg (st.subBal p (stakeWei stake)) m (some info)) U = stakeTotal cfg st U + stake := by omega
      rw [this, Nat.mul_add]
    omega

theorem updateMiner_none_preserves (cfg : Cfg) (U : List Bytes) (st s0 : State) (m m' : Miner) (d : DbId)
    (hs : SepU cfg U) (hid : m.id ∈ U) (hclean : Clean cfg U st) (hl : s0.live = st.live)
    (hm'id : m'.id = m.id) (hm'typ : m'.typ = m.typ) (hdb : dbOfType m.typ = d)
    (hp : getMinerById cfg st d m.id ≠ none) :
    OnlyKeys cfg st (updateMiner cfg s0 m' none) d m.id ∧ Clean cfg U (updateMiner cfg s0 m' none) ∧
      stakeAt cfg (updateMiner cfg s0 m' none) d m.id = m'.stake % 2 ^ 64 := by
  have hk := hs.1 m.id hid
  have hu := sep_untouched cfg U hs m.id m.id hid hid
  have hkeys : OnlyKeys cfg st (updateMiner cfg s0 m' none) d m.id := by
    have := onlyKeys_updateMiner cfg s0 st m' none (by rw [hm'id, hm'typ, hdb]; exact onlyKeys_refl cfg st s0 _ _ hl)
    rwa [hm'id, hm'typ, hdb] at this
  refine ⟨hkeys, ?_, ?_⟩
  · apply clean_step cfg U st _ d m.id hs hid hclean hkeys
    intro hnn
    exfalso
    have hrec := updateMiner_none_rec cfg s0 m' (by rw [hm'id]; exact hk) d
    rw [hm'id, hl] at hrec
    exact present_of_rec cfg st _ d m.id hrec hp hnn
  · have := stakeAt_updateMiner_self cfg s0 m' (by rw [hm'id]; exact hu)
    rwa [hm'id, hm'typ, hdb] at this

theorem addStakeCore_preserves (cfg : Cfg) (U : List Bytes) (st : State) (p : Bytes) (m m' : Miner) (delta : Nat)
    (hs : SepU cfg U) (hn : U.Nodup) (hinv : Inv cfg U st) (hid : m.id ∈ U) (hm : getMiner cfg st m.id = some m)
    (hb : delta < 2 ^ 53) (hnw : ∀ d, stakeAt cfg st d m.id + delta < 2 ^ 64) (hle : stakeWei delta ≤ st.balOf p)
    (h1 : m'.id = m.id) (h2 : m'.typ = m.typ) (h3 : m'.stake = (m.stake + delta) % 2 ^ 64)
    (hrk' : RecKeyed cfg (updateMiner cfg (st.subBal p (stakeWei delta)) m' none)) :
    Inv cfg U (updateMiner cfg (st.subBal p (stakeWei delta)) m' none) ∧
      wealth cfg U (updateMiner cfg (st.subBal p (stakeWei delta)) m' none) = wealth cfg U st := by
  obtain ⟨d, _, hbyid, _, _, _, hstake, hdb⟩ := getMiner_some cfg st m.id m hinv.rk hm
  have hp : getMinerById cfg st d m.id ≠ none := by rw [hbyid]; simp
  obtain ⟨hkeys, hclean, hst⟩ := updateMiner_none_preserves cfg U st (st.subBal p (stakeWei delta)) m m' d hs hid hinv.clean rfl h1 h2 hdb hp
  have hpt := stakeTotal_point cfg U st _ d m.id hs hn hid hkeys
  have hf := updateMiner_pending cfg (st.subBal p (stakeWei delta)) m' none
  have hbal := updateMiner_bal cfg (st.subBal p (stakeWei delta)) m' none
  have hsub := balTotal_subBal st p (stakeWei delta) hle
  have hw : stakeWei delta = wei * delta := by unfold stakeWei; rw [f64_small _ hb, Nat.mul_comm]
  have hsa : stakeAt cfg st d m.id = m.stake := hstake.symm
  refine ⟨⟨hrk', hclean, by rw [hf.1]; exact hinv.pn, by unfold A20; rw [hf.1, hf.2.1]; exact hinv.a20⟩, ?_⟩
  unfold wealth
  rw [balTotal_of_bal _ _ hbal, hf.1, escTotal_of_escrow _ _ hf.2.1]
  have hp' : pendingSum (st.subBal p (stakeWei delta)).pending = pendingSum st.pending := rfl
  have he' : escTotal (st.subBal p (stakeWei delta)) = escTotal st := rfl
  rw [hp', he']
  have hnw' := hnw d
  rw [hst, h3, Nat.mod_mod, hsa] at hpt
  rw [hsa] at hnw'
  rw [Nat.mod_eq_of_lt hnw'] at hpt
  have : wei * stakeTotal cfg (updateMiner cfg (st.subBal p (stakeWei delta)) m' none) U
      = wei * stakeTotal cfg st U + wei * delta := by
    have : stakeTotal cfg (updateMiner cfg (st.subBal p (stakeWei delta)) m' none) U = stakeTotal cfg st U + delta := by omega
    rw [this, Nat.mul_add]
  omega

theorem refundCore_preserves (cfg : Cfg) (U : List Bytes) (st : State) (id src : Bytes) (m : Miner) (money : Nat)
    (hs : SepU cfg U) (hinv : Inv cfg U st) (hid : id ∈ U) (hm : getMiner cfg st id = some m) (hle : money ≤ m.stake) :
    ∃ d, OnlyKeys cfg st (refundCore cfg st id src m money) d id ∧ Clean cfg U (refundCore cfg st id src m money) ∧
      stakeAt cfg st d id = m.stake ∧ stakeAt cfg (refundCore cfg st id src m money) d id = m.stake - money := by
  obtain ⟨d, _, hbyid, hmid, _, _, hstake, hdb⟩ := getMiner_some cfg st id m hinv.rk hm
  subst hmid
  have hp : getMinerById cfg st d m.id ≠ none := by rw [hbyid]; simp
  have hk := hs.1 m.id hid
  have hu := sep_untouched cfg U hs m.id m.id hid hid
  have hlt : m.stake - money < 2 ^ 64 := by
    have := stakeAt_lt cfg st d m.id
    have e : stakeAt cfg st d m.id = m.stake := hstake.symm
    omega
  refine ⟨d, ?_⟩
  unfold refundCore
  split
  · have hkeys : OnlyKeys cfg st (removeMiner cfg st m.id src m.typ (m.stake - money)) d m.id := by
      have := onlyKeys_removeMiner cfg st st m.id src m.typ (m.stake - money) (onlyKeys_refl cfg st st _ _ rfl)
      rwa [hdb] at this
    refine ⟨hkeys, ?_, hstake.symm, ?_⟩
    · apply clean_step cfg U st _ d m.id hs hid hinv.clean hkeys
      have := removeMiner_target cfg st m.id src m.typ (m.stake - money) hk hu (by rw [hdb]; exact hp)
      rwa [hdb] at this
    · have := stakeAt_removeMiner_self cfg st m.id src m.typ (m.stake - money) hu
      rw [hdb] at this
      rw [this]; exact Nat.mod_eq_of_lt hlt
  · obtain ⟨hkeys, hclean, hst⟩ := updateMiner_none_preserves cfg U st st m { m with stake := m.stake - money } d hs hid hinv.clean rfl rfl rfl hdb hp
    exact ⟨hkeys, hclean, hstake.symm, by rw [hst]; exact Nat.mod_eq_of_lt hlt⟩

theorem refundApply_preserves (cfg : Cfg) (U : List Bytes) (st : State) (id src : Bytes) (m : Miner) (money : Nat)
    (hs : SepU cfg U) (hn : U.Nodup) (hinv : Inv cfg U st) (hid : id ∈ U) (hm : getMiner cfg st id = some m) (hle : money ≤ m.stake)
    (hacc : m.account = src) (h20 : src.length = 20)
    (hclash : ∀ l, st.pending.lookup (st.height + refundDelay) = some l → l.any (fun e => e.1 = src) = true)
    (hrk' : RecKeyed cfg (refundApply cfg st id src m money)) :
    Inv cfg U (refundApply cfg st id src m money) ∧ wealth cfg U (refundApply cfg st id src m money) = wealth cfg U st := by
  obtain ⟨d, hkeys, hclean, hs0, hs1⟩ := refundCore_preserves cfg U st id src m money hs hinv hid hm hle
  have hfl := refundCore_fields cfg st id src m money
  have hpt := stakeTotal_point cfg U st _ d id hs hn hid hkeys
  have hpend : (refundApply cfg st id src m money).pending = pendingAdd st.pending (st.height + refundDelay) src (money * wei) := by
    show pendingAdd (refundCore cfg st id src m money).pending ((refundCore cfg st id src m money).height + refundDelay) m.account _ = _
    rw [hfl.1, hfl.2.2.1, hacc]
  have hesc : (refundApply cfg st id src m money).escrow = st.escrow := hfl.2.1
  have hbal : (refundApply cfg st id src m money).bal = st.bal := hfl.2.2.2
  have hlive : (refundApply cfg st id src m money).live = (refundCore cfg st id src m money).live := rfl
  refine ⟨⟨hrk', clean_of_live cfg U _ _ hlive hclean, by rw [hpend]; exact pendingAdd_nodup _ _ _ _ hinv.pn, ?_⟩, ?_⟩
  · unfold A20
    rw [hpend, hesc]
    exact ⟨hinv.a20.1, pendingAdd_a20 _ _ _ _ h20 hinv.a20.2⟩
  · unfold wealth
    rw [balTotal_of_bal _ _ hbal, escTotal_of_escrow _ _ hesc, hpend, pendingSum_pendingAdd _ _ _ _ hinv.pn hclash,
      stakeTotal_of_live cfg U _ _ hlive]
    rw [hs0, hs1] at hpt
    have : wei * stakeTotal cfg (refundCore cfg st id src m money) U + money * wei = wei * stakeTotal cfg st U := by
      have : stakeTotal cfg (refundCore cfg st id src m money) U + money = stakeTotal cfg st U := by omega
      rw [← this, Nat.mul_add, Nat.mul_comm money wei]
    omega

theorem chacc_preserves (cfg : Cfg) (U : List Bytes) (st : State) (id na : Bytes) (m : Miner)
    (hs : SepU cfg U) (hn : U.Nodup) (hinv : Inv cfg U st) (hid : id ∈ U) (hm : getMiner cfg st id = some m)
    (hrk' : RecKeyed cfg (updateMiner cfg st { m with account := na } none)) :
    Inv cfg U (updateMiner cfg st { m with account := na } none) ∧
      wealth cfg U (updateMiner cfg st { m with account := na } none) = wealth cfg U st := by
  obtain ⟨d, _, hbyid, hmid, _, _, hstake, hdb⟩ := getMiner_some cfg st id m hinv.rk hm
  subst hmid
  have hp : getMinerById cfg st d m.id ≠ none := by rw [hbyid]; simp
  obtain ⟨hkeys, hclean, hst⟩ := updateMiner_none_preserves cfg U st st m { m with account := na } d hs hid hinv.clean rfl rfl rfl hdb hp
  have hpt := stakeTotal_point cfg U st _ d m.id hs hn hid hkeys
  have hf := updateMiner_pending cfg st { m with account := na } none
  have hbal := updateMiner_bal cfg st { m with account := na } none
  refine ⟨⟨hrk', hclean, by rw [hf.1]; exact hinv.pn, by unfold A20; rw [hf.1, hf.2.1]; exact hinv.a20⟩, ?_⟩
  unfold wealth
  rw [balTotal_of_bal _ _ hbal, hf.1, escTotal_of_escrow _ _ hf.2.1]
  have hlt := stakeAt_lt cfg st d m.id
  have e : stakeAt cfg st d m.id = m.stake := hstake.symm
  simp only at hst
  rw [hst, Nat.mod_eq_of_lt (by omega), e] at hpt
  have : stakeTotal cfg (updateMiner cfg st { m with account := na } none) U = stakeTotal cfg st U := by omega
  rw [this]

end Rangers.Miner
