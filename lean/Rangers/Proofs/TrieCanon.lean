import Rangers.Proofs.TrieIter
/- The canonical trie: `canon (iter t) = t` for minimal-form tries, hence uniqueness of the minimal form. -/
namespace Rangers.Trie
open Rangers

theorem canon_zero (J) : canon 0 J = .nil := by simp [canon]
theorem canon_nil (f) : canon f [] = .nil := by cases f <;> simp [canon]
theorem canon_single (f : Nat) (e : Key × Bytes) :
    canon (f + 1) [e] = if e.1 = [] then .value e.2 else .short e.1 (.value e.2) := by simp [canon]
theorem canon_many (f : Nat) (e1 e2 : Key × Bytes) (rest : List (Key × Bytes)) :
    canon (f + 1) (e1 :: e2 :: rest) =
      if lcpAll (e1 :: e2 :: rest) ≠ [] then .short (lcpAll (e1 :: e2 :: rest)) (canon f (dropKeys (lcpAll (e1 :: e2 :: rest)).length (e1 :: e2 :: rest)))
      else .full ((List.range 17).map (fun i => canon f (bucket (e1 :: e2 :: rest) i))) := by
  simp [canon]


/-! ### what the iterator of a minimal-form trie returns -/

theorem iter_valid (t : Node) : WF t → ∀ e ∈ iter t, ValidKey e.1 ∧ e.2 ≠ [] := by
  induction t using Node.induct with
  | hnil => intro h; exact absurd h not_WF_nil
  | hval b => intro h; exact absurd h (not_WF_value b)
  | hshort kk v ih =>
    intro hwf e he
    rcases (WF_short_iff kk v).mp hwf with ⟨b, rfl, hkk, hb⟩ | ⟨cs, rfl, hne, hnib, hfull⟩
    · simp only [iter, prepend, List.map_cons, List.map_nil, List.mem_singleton, List.append_nil] at he
      subst he; exact ⟨hkk, hb⟩
    · simp only [iter, prepend, List.mem_map] at he
      obtain ⟨e', he', rfl⟩ := he
      have := ih hfull e' (by simpa [iter] using he')
      exact ⟨(validKey_append kk e'.1 this.1.ne_nil).mpr ⟨hnib, this.1⟩, this.2⟩
  | hfull cs ih =>
    intro hwf e he
    obtain ⟨hlen, hslots, hcnt⟩ := (WF_full_iff cs).mp hwf
    simp only [iter] at he
    obtain ⟨j, hj, e', he', rfl⟩ := mem_iterL.mp he
    simp only [Nat.zero_add]
    rcases hslots j (by omega) with h | h
    · rw [h] at he'; simp [iter] at he'
    · by_cases h16 : j = 16
      · subst h16
        simp only [if_true] at h
        obtain ⟨b, hb, hbne⟩ := h
        rw [hb] at he'
        simp only [iter, List.mem_singleton] at he'
        subst he'
        exact ⟨by simp [ValidKey], hbne⟩
      · simp only [h16, if_false] at h
        have hmem : cs[j]?.getD .nil ∈ cs := by
          rcases getD_mem_or_nil cs j with h0 | h0
          · rw [h0] at h; exact absurd h not_WF_nil
          · exact h0
        have := ih _ hmem h e' he'
        exact ⟨(validKey_cons j e'.1).mpr (Or.inr ⟨by omega, this.1⟩), this.2⟩

theorem iter_ne_nil (t : Node) : WF t → iter t ≠ [] := by
  induction t using Node.induct with
  | hnil => intro h; exact absurd h not_WF_nil
  | hval b => intro h; exact absurd h (not_WF_value b)
  | hshort kk v ih =>
    intro hwf
    rcases (WF_short_iff kk v).mp hwf with ⟨b, rfl, hkk, hb⟩ | ⟨cs, rfl, hne, hnib, hfull⟩
    · simp [iter, prepend]
    · have := ih hfull
      simp only [iter, prepend, ne_eq, List.map_eq_nil_iff]
      simpa [iter] using this
  | hfull cs ih =>
    intro hwf
    obtain ⟨hlen, hslots, hcnt⟩ := (WF_full_iff cs).mp hwf
    obtain ⟨j, hj, hne⟩ := exists_of_countNN_pos cs (by omega)
    have : ∃ e', e' ∈ iter (cs[j]?.getD .nil) := by
      rcases hslots j (by omega) with h | h
      · exact absurd h hne
      · by_cases h16 : j = 16
        · subst h16
          simp only [if_true] at h
          obtain ⟨b, hb, _⟩ := h
          rw [hb]; exact ⟨([], b), by simp [iter]⟩
        · simp only [h16, if_false] at h
          have hmem : cs[j]?.getD .nil ∈ cs := by
            rcases getD_mem_or_nil cs j with h0 | h0
            · exact absurd h0 hne
            · exact h0
          have := ih _ hmem h
          cases hi : iter (cs[j]?.getD .nil) with
          | nil => exact absurd hi this
          | cons e' _ => exact ⟨e', by simp⟩
    obtain ⟨e', he'⟩ := this
    intro h0
    have : ((0 + j) :: e'.1, e'.2) ∈ iterL cs 0 := mem_iterL.mpr ⟨j, hj, e', he', rfl⟩
    simp only [iter] at h0
    rw [h0] at this; simp at this

/-! ### lcp, buckets -/

theorem lcp_append_left (p a b : Key) : lcp (p ++ a) (p ++ b) = p ++ lcp a b := by
  induction p with
  | nil => rfl
  | cons x p ih => simp [lcp, ih]

theorem lcp_prefix_left (a b : Key) : lcp a b <+: a := by
  induction a generalizing b with
  | nil => simp [lcp]
  | cons x a ih =>
    cases b with
    | nil => simp [lcp]
    | cons y b =>
      simp only [lcp]
      split
      · exact (List.cons_prefix_cons).mpr ⟨rfl, ih b⟩
      · exact List.nil_prefix

theorem lcp_prefix_right (a b : Key) : lcp a b <+: b := by
  induction a generalizing b with
  | nil => simp [lcp]
  | cons x a ih =>
    cases b with
    | nil => simp [lcp]
    | cons y b =>
      simp only [lcp]
      split
      · rename_i h; subst h; exact (List.cons_prefix_cons).mpr ⟨rfl, ih b⟩
      · exact List.nil_prefix

theorem lcpAll_prefix (J : List (Key × Bytes)) : ∀ e ∈ J, lcpAll J <+: e.1 := by
  induction J with
  | nil => simp
  | cons e J ih =>
    cases J with
    | nil => intro e' he'; simp at he'; subst he'; simp [lcpAll]
    | cons e2 rest =>
      intro e' he'
      simp only [lcpAll]
      cases he' with
      | head => exact lcp_prefix_left _ _
      | tail _ h => exact List.IsPrefix.trans (lcp_prefix_right _ _) (ih e' h)

theorem lcpAll_prepend (p : Key) (L : List (Key × Bytes)) (h : L ≠ []) :
    lcpAll (prepend p L) = p ++ lcpAll L := by
  induction L with
  | nil => exact absurd rfl h
  | cons e L ih =>
    cases L with
    | nil => simp [prepend, lcpAll]
    | cons e2 rest =>
      have := ih (by simp)
      simp only [prepend, List.map_cons] at this ⊢
      simp only [lcpAll, this, lcp_append_left]

theorem dropKeys_prepend (p : Key) (L : List (Key × Bytes)) : dropKeys p.length (prepend p L) = L := by
  simp [dropKeys, prepend, List.map_map, Function.comp_def]

theorem bucket_append (A B : List (Key × Bytes)) (i : Nat) : bucket (A ++ B) i = bucket A i ++ bucket B i := by
  simp [bucket, List.filterMap_append]

theorem bucket_prepend_single (s i : Nat) (L : List (Key × Bytes)) :
    bucket (prepend [s] L) i = if s = i then L else [] := by
  induction L with
  | nil => simp [bucket, prepend]
  | cons e L ih =>
    simp only [bucket, prepend, List.map_cons, List.filterMap_cons, List.singleton_append] at ih ⊢
    by_cases h : s = i
    · simp only [h, if_true] at ih ⊢; rw [ih]
    · simp only [h, if_false] at ih ⊢; exact ih

theorem bucket_iterL (cs : List Node) (s i : Nat) :
    bucket (iterL cs s) i = if s ≤ i then iter (cs[i - s]?.getD .nil) else [] := by
  induction cs generalizing s with
  | nil => simp [iterL, bucket, iter]
  | cons c cs ih =>
    simp only [iterL, bucket_append, bucket_prepend_single, ih]
    by_cases h1 : s = i
    · subst h1
      have : ¬ (s + 1 ≤ s) := by omega
      simp [this]
    · by_cases h2 : s ≤ i
      · have h3 : s + 1 ≤ i := by omega
        have : i - s = (i - (s + 1)) + 1 := by omega
        simp [h1, h2, h3, this]
      · have h3 : ¬ (s + 1 ≤ i) := by omega
        simp [h1, h2, h3]



/-! ### the canonical trie of the iterated content is the trie itself -/

theorem height_le_heightL (cs : List Node) : ∀ c ∈ cs, height c ≤ height.heightL cs := by
  induction cs with
  | nil => simp
  | cons x cs ih =>
    intro c hc
    simp only [height.heightL]
    cases hc with
    | head => exact Nat.le_max_left _ _
    | tail _ h => exact Nat.le_trans (ih c h) (Nat.le_max_right _ _)

theorem slot_has_entry (j : Nat) (c : Node) (h : SlotOK j c) (hne : c ≠ .nil) : ∃ e', e' ∈ iter c := by
  rcases h with h | h
  · exact absurd h hne
  · by_cases h16 : j = 16
    · simp only [h16, if_true] at h
      obtain ⟨b, hb, _⟩ := h
      rw [hb]; exact ⟨([], b), by simp [iter]⟩
    · simp only [h16, if_false] at h
      have := iter_ne_nil c h
      cases hi : iter c with
      | nil => exact absurd hi this
      | cons e' _ => exact ⟨e', by simp⟩

theorem iter_full_shape (cs : List Node) (hwf : WF (.full cs)) :
    (∃ e1 e2 rest, iterL cs 0 = e1 :: e2 :: rest) ∧ lcpAll (iterL cs 0) = [] := by
  obtain ⟨hlen, hslots, hcnt⟩ := (WF_full_iff cs).mp hwf
  obtain ⟨i, j, hij, hj, hni, hnj⟩ := exists_two_of_countNN cs hcnt
  obtain ⟨a, ha⟩ := slot_has_entry i _ (hslots i (by omega)) hni
  obtain ⟨b, hb⟩ := slot_has_entry j _ (hslots j (by omega)) hnj
  have m1 : ((0 + i) :: a.1, a.2) ∈ iterL cs 0 := mem_iterL.mpr ⟨i, by omega, a, ha, rfl⟩
  have m2 : ((0 + j) :: b.1, b.2) ∈ iterL cs 0 := mem_iterL.mpr ⟨j, hj, b, hb, rfl⟩
  constructor
  · match hJ : iterL cs 0, m1, m2 with
    | [], m1, _ => simp at m1
    | [e], m1, m2 =>
      simp only [List.mem_singleton] at m1 m2
      have := m1.trans m2.symm
      simp at this; omega
    | e1 :: e2 :: rest, _, _ => exact ⟨e1, e2, rest, rfl⟩
  · have p1 := lcpAll_prefix _ _ m1
    have p2 := lcpAll_prefix _ _ m2
    cases hp : lcpAll (iterL cs 0) with
    | nil => rfl
    | cons x p =>
      rw [hp] at p1 p2
      have e1 := (List.cons_prefix_cons.mp p1).1
      have e2 := (List.cons_prefix_cons.mp p2).1
      omega

theorem canon_iter (t : Node) : WF t → ∀ f, height t ≤ f → canon f (iter t) = t := by
  induction t using Node.induct with
  | hnil => intro h; exact absurd h not_WF_nil
  | hval b => intro h; exact absurd h (not_WF_value b)
  | hshort kk v ih =>
    intro hwf f hf
    rcases (WF_short_iff kk v).mp hwf with ⟨b, rfl, hkk, hb⟩ | ⟨cs, rfl, hne, hnib, hfull⟩
    · simp only [height] at hf
      obtain ⟨f', rfl⟩ : ∃ f', f = f' + 1 := ⟨f - 1, by omega⟩
      simp only [iter, prepend, List.map_cons, List.map_nil, List.append_nil]
      rw [canon_single]
      simp [hkk.ne_nil]
    · simp only [height] at hf
      obtain ⟨f', rfl⟩ : ∃ f', f = f' + 1 := ⟨f - 1, by omega⟩
      obtain ⟨⟨e1, e2, rest, hshape⟩, hl⟩ := iter_full_shape cs hfull
      have hL : iter (.full cs) = e1 :: e2 :: rest := by simp only [iter]; exact hshape
      have hlcp : lcpAll (prepend kk (iter (.full cs))) = kk := by
        rw [lcpAll_prepend _ _ (by rw [hL]; simp)]
        simp only [iter, hl, List.append_nil]
      have hdrop := dropKeys_prepend kk (iter (.full cs))
      have hrec := ih hfull f' (by simp only [height]; omega)
      show canon (f' + 1) (prepend kk (iter (.full cs))) = _
      have hJ : prepend kk (iter (.full cs)) = (kk ++ e1.1, e1.2) :: (kk ++ e2.1, e2.2) :: prepend kk rest := by
        rw [hL]; rfl
      rw [hJ, canon_many, ← hJ, hlcp, hdrop, hrec]
      simp [hne]
  | hfull cs ih =>
    intro hwf f hf
    obtain ⟨hlen, hslots, hcnt⟩ := (WF_full_iff cs).mp hwf
    simp only [height] at hf
    obtain ⟨f', rfl⟩ : ∃ f', f = f' + 1 := ⟨f - 1, by omega⟩
    obtain ⟨⟨e1, e2, rest, hshape⟩, hl⟩ := iter_full_shape cs hwf
    simp only [iter]
    rw [hshape, canon_many, ← hshape, hl]
    simp only [ne_eq, not_true_eq_false, if_false]
    congr 1
    apply List.ext_getElem
    · simp [hlen]
    · intro i h1 h2
      simp only [List.getElem_map, List.getElem_range, bucket_iterL, Nat.zero_le, if_true, Nat.sub_zero]
      have hi : i < 17 := by simpa using h1
      have hget : cs[i]?.getD .nil = cs[i] := by simp [h2]
      rw [hget]
      have hmem : cs[i] ∈ cs := List.getElem_mem h2
      have hh : height cs[i] ≤ f' := Nat.le_trans (height_le_heightL cs _ hmem) (by omega)
      have hs := hslots i hi
      rw [hget] at hs
      rcases hs with h | h
      · rw [h]; simp [iter, canon_nil]
      · by_cases h16 : i = 16
        · subst h16
          simp only [if_true] at h
          obtain ⟨b, hb, _⟩ := h
          rw [hb] at hh ⊢
          simp only [height] at hh
          obtain ⟨f'', rfl⟩ : ∃ f'', f' = f'' + 1 := ⟨f' - 1, by omega⟩
          simp [iter, canon_single]
        · simp only [h16, if_false] at h
          exact ih _ hmem h f' hh

/-- **uniqueness of the minimal form**: two minimal-form tries that iterate to the same
    content are the same tree. -/
theorem wf_unique_iter (a b : Node) (ha : WFRoot a) (hb : WFRoot b) (h : iter a = iter b) : a = b := by
  rcases ha with rfl | ha
  · rcases hb with rfl | hb
    · rfl
    · exact absurd h.symm (by simpa [iter] using iter_ne_nil b hb)
  · rcases hb with rfl | hb
    · exact absurd h (by simpa [iter] using iter_ne_nil a ha)
    · have h1 := canon_iter a ha (max (height a) (height b)) (Nat.le_max_left _ _)
      have h2 := canon_iter b hb (max (height a) (height b)) (Nat.le_max_right _ _)
      calc a = canon (max (height a) (height b)) (iter a) := h1.symm
        _ = canon (max (height a) (height b)) (iter b) := by rw [h]
        _ = b := h2

end Rangers.Trie
