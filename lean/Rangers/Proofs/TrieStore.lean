import Rangers.Model.TrieStore
import Rangers.Proofs.TrieYPRoot
/- Commit + reload through the node store gives the trie back (no hash collision among the nodes written). -/
namespace Rangers.Trie
open Rangers

/-- no two different stored nodes share a hash -/
def Functional (st : List (Bytes × CNode)) : Prop := ∀ e1 ∈ st, ∀ e2 ∈ st, e1.1 = e2.1 → e1.2 = e2.2

theorem lookup_functional {st : List (Bytes × CNode)} (hf : Functional st) {h : Bytes} {x : CNode}
    (hm : (h, x) ∈ st) : st.lookup h = some x := by
  induction st with
  | nil => simp at hm
  | cons e st ih =>
    obtain ⟨h1, x1⟩ := e
    simp only [List.lookup_cons]
    by_cases hh : h = h1
    · subst hh
      have : x1 = x := hf (h, x1) (by simp) (h, x) hm rfl
      simp [this]
    · have hne : (h == h1) = false := beq_false_of_ne hh
      simp only [hne]
      apply ih (fun e1 he1 e2 he2 => hf e1 (by simp [he1]) e2 (by simp [he2]))
      cases hm with
      | head => exact absurd rfl hh
      | tail _ h' => exact h'

/-- how a child is referenced from its collapsed parent -/
def refOf (H : Bytes → Bytes) (c : Node) : CNode :=
  match c with
  | .nil => .empty
  | c => if (enc H c).length < 32 then collapse H c else .hashRef (H (enc H c))

theorem collapse_leaf (H : Bytes → Bytes) (k : Key) (b : Bytes) :
    collapse H (.short k (.value b)) = .leaf (hexToCompact k) b := by simp [collapse]

theorem collapse_ext (H : Bytes → Bytes) (k : Key) (cs : List Node) :
    collapse H (.short k (.full cs)) = .ext (hexToCompact k) (refOf H (.full cs)) := by simp [collapse, refOf]

theorem collapseL_cons (H : Bytes → Bytes) (c : Node) (cs : List Node) (i : Nat) :
    collapseL H (c :: cs) i = if i < 16 then refOf H c :: collapseL H cs (i + 1) else [] := by
  cases c <;> simp [collapseL, refOf]

theorem collapseL_eq (H : Bytes → Bytes) (cs : List Node) (s : Nat) (h : s + cs.length = 17) :
    collapseL H cs s = (cs.take (16 - s)).map (refOf H) := by
  induction cs generalizing s with
  | nil => simp [collapseL]
  | cons c cs ih =>
    rw [collapseL_cons]
    simp only [List.length_cons] at h
    by_cases hs : s < 16
    · have h2 : 16 - s = (16 - (s + 1)) + 1 := by omega
      rw [if_pos hs, h2, List.take_succ_cons, List.map_cons, ih (s + 1) (by omega)]
    · have h2 : 16 - s = 0 := by omega
      rw [if_neg hs, h2]; simp

theorem collapse_full (H : Bytes → Bytes) (cs : List Node) (hlen : cs.length = 17) :
    collapse H (.full cs) = .branch ((cs.take 16).map (refOf H)) (valueBytes (cs[16]?.getD .nil)) := by
  have h0 : 0 + cs.length = 17 := by omega
  simp only [collapse, collapseL_eq H cs 0 h0, Nat.sub_zero, List.getD_eq_getElem?_getD]

theorem mapM_option_eq_some {α β : Type} (f : α → Option β) (g : α → β) (l : List α)
    (h : ∀ x ∈ l, f x = some (g x)) : l.mapM f = some (l.map g) := by
  induction l with
  | nil => rfl
  | cons a l ih =>
    rw [List.mapM_cons, h a (by simp), ih (fun x hx => h x (by simp [hx]))]
    rfl

/-! ### store membership -/

theorem storeOf_false_subset_true (H : Bytes → Bytes) (t : Node) : ∀ e ∈ storeOf H false t, e ∈ storeOf H true t := by
  intro e he
  cases t with
  | nil => simp [storeOf] at he
  | value b => simp [storeOf] at he
  | short k v =>
    simp only [storeOf, List.mem_append] at he ⊢
    rcases he with he | he
    · left; split at he
      · simpa using he
      · simp at he
    · right; exact he
  | full cs =>
    simp only [storeOf, List.mem_append] at he ⊢
    rcases he with he | he
    · left; split at he
      · simpa using he
      · simp at he
    · right; exact he

theorem self_mem_storeOf (H : Bytes → Bytes) (b : Bool) (t : Node) (ht : WF t)
    (hbig : b = true ∨ 32 ≤ (enc H t).length) : (H (enc H t), collapse H t) ∈ storeOf H b t := by
  have hc : (b || decide (32 ≤ (enc H t).length)) = true := by
    rcases hbig with h | h
    · simp [h]
    · simp [h]
  cases t with
  | nil => exact absurd ht not_WF_nil
  | value v => exact absurd ht (not_WF_value v)
  | short k v => simp only [storeOf, hc, if_true, List.mem_append]; left; simp
  | full cs => simp only [storeOf, hc, if_true, List.mem_append]; left; simp

theorem storeOf_child_short (H : Bytes → Bytes) (b : Bool) (k : Key) (v : Node) :
    ∀ e ∈ storeOf H false v, e ∈ storeOf H b (.short k v) := by
  intro e he; simp only [storeOf, List.mem_append]; right; exact he

theorem mem_storeOfL (H : Bytes → Bytes) (cs : List Node) (c : Node) (hc : c ∈ cs) :
    ∀ e ∈ storeOf H false c, e ∈ storeOfL H cs := by
  induction cs with
  | nil => simp at hc
  | cons x cs ih =>
    intro e he
    simp only [storeOfL, List.mem_append]
    cases hc with
    | head => left; exact he
    | tail _ h => right; exact ih h e he

theorem storeOf_child_full (H : Bytes → Bytes) (b : Bool) (cs : List Node) (c : Node) (hc : c ∈ cs) :
    ∀ e ∈ storeOf H false c, e ∈ storeOf H b (.full cs) := by
  intro e he; simp only [storeOf, List.mem_append]; right; exact mem_storeOfL H cs c hc e he

theorem height_pos_of_ne_nil (c : Node) (h : c ≠ .nil) : 1 ≤ height c := by
  cases c with
  | nil => exact absurd rfl h
  | value b => simp [height]
  | short k v => simp [height]
  | full cs => simp [height]

/-! ### expanding what was committed gives the node back -/

theorem expand_collapse_aux (H : Bytes → Bytes) (st : List (Bytes × CNode)) (hfun : Functional st) (c : Node) :
    WF c → (∀ e ∈ storeOf H false c, e ∈ st) →
      (∀ f, 2 * height c ≤ f + 1 → expand st f (collapse H c) = some c) ∧
      (∀ f, 2 * height c ≤ f → expand st f (refOf H c) = some c) := by
  induction c using Node.induct with
  | hnil => intro h; exact absurd h not_WF_nil
  | hval b => intro h; exact absurd h (not_WF_value b)
  | hshort kk v ih =>
    intro hwf hsub
    have hA : ∀ f, 2 * height (.short kk v) ≤ f + 1 → expand st f (collapse H (.short kk v)) = some (.short kk v) := by
      intro f hf
      rcases (WF_short_iff kk v).mp hwf with ⟨b, rfl, hkk, hb⟩ | ⟨cs, rfl, hne, hnib, hfull⟩
      · simp only [height] at hf
        obtain ⟨f', rfl⟩ : ∃ f', f = f' + 1 := ⟨f - 1, by omega⟩
        obtain ⟨n, rfl, hn⟩ := (validKey_iff kk).mp hkk
        rw [collapse_leaf]
        simp [expand, compact_roundtrip_term n hn]
      · simp only [height] at hf
        obtain ⟨f', rfl⟩ : ∃ f', f = f' + 1 := ⟨f - 1, by omega⟩
        have hB := (ih hfull (fun e he => hsub e (storeOf_child_short H false kk _ e he))).2 f' (by simp only [height]; omega)
        rw [collapse_ext]
        simp [expand, compact_roundtrip_nibs kk hnib, hB]
    refine ⟨hA, fun f hf => ?_⟩
    have hh : 1 ≤ height (.short kk v) := by simp [height]
    obtain ⟨f', rfl⟩ : ∃ f', f = f' + 1 := ⟨f - 1, by omega⟩
    simp only [refOf]
    split
    · exact hA _ (by omega)
    · rename_i hbig
      have hmem := hsub _ (self_mem_storeOf H false _ hwf (Or.inr (by omega)))
      simp only [expand, lookup_functional hfun hmem, Option.bind_some]
      exact hA f' (by omega)
  | hfull cs ih =>
    intro hwf hsub
    obtain ⟨hlen, hslots, hcnt⟩ := (WF_full_iff cs).mp hwf
    have hA : ∀ f, 2 * height (.full cs) ≤ f + 1 → expand st f (collapse H (.full cs)) = some (.full cs) := by
      intro f hf
      simp only [height] at hf
      -- some slot is occupied, so the children have height ≥ 1
      obtain ⟨j, hj, hnj⟩ := exists_of_countNN_pos cs (by omega)
      have hmemj : cs[j]?.getD .nil ∈ cs := by
        rcases getD_mem_or_nil cs j with h0 | h0
        · exact absurd h0 hnj
        · exact h0
      have hL : 1 ≤ height.heightL cs :=
        Nat.le_trans (height_pos_of_ne_nil _ hnj) (height_le_heightL cs _ hmemj)
      obtain ⟨f', rfl⟩ : ∃ f', f = f' + 1 := ⟨f - 1, by omega⟩
      rw [collapse_full H cs hlen]
      have hkids : ∀ x ∈ cs.take 16, expand st f' (refOf H x) = some x := by
        intro x hx
        have hxm : x ∈ cs := List.mem_of_mem_take hx
        obtain ⟨i, hi, hxi⟩ := List.getElem_of_mem hx
        have hi16 : i < 16 := by simp at hi; omega
        have hxi' : cs[i]?.getD .nil = x := by
          rw [List.getElem_take] at hxi
          simp [List.getElem?_eq_getElem (show i < cs.length by omega), hxi]
        rcases hslots i (by omega) with h | h
        · rw [hxi'] at h; subst h
          obtain ⟨f'', rfl⟩ : ∃ f'', f' = f'' + 1 := ⟨f' - 1, by omega⟩
          simp [refOf, expand]
        · have : ¬ i = 16 := by omega
          simp only [this, if_false, hxi'] at h
          have hhx := height_le_heightL cs x hxm
          exact (ih x hxm h (fun e he => hsub e (storeOf_child_full H false cs x hxm e he))).2 f' (by omega)
      simp only [expand, List.mapM_map] 
      have := mapM_option_eq_some (fun x => expand st f' (refOf H x)) id (cs.take 16) (by simpa using hkids)
      simp only [Function.comp_def]
      rw [this]
      simp only [List.map_id, Option.map_some, Option.some.injEq, Node.full.injEq]
      -- reassemble the 17 slots
      have hsplit : cs = cs.take 16 ++ [cs[16]?.getD .nil] := by
        apply List.ext_getElem
        · simp [hlen]
        · intro i h1 h2
          by_cases hi : i < 16
          · rw [List.getElem_append_left (by simp [hlen]; omega), List.getElem_take]
          · have : i = 16 := by omega
            subst this
            rw [List.getElem_append_right (by simp [hlen])]
            simp [hlen, List.getElem?_eq_getElem h1]
      conv => rhs; rw [hsplit]
      congr 2
      rcases hslots 16 (by omega) with h | h
      · rw [h]; simp [valueBytes]
      · simp only [if_true] at h
        obtain ⟨b, hb, hbne⟩ := h
        rw [hb]
        have : b.isEmpty = false := by
          cases b with
          | nil => exact absurd rfl hbne
          | cons _ _ => rfl
        simp [this, valueBytes]
    refine ⟨hA, fun f hf => ?_⟩
    have hh : 1 ≤ height (.full cs) := by simp [height]
    obtain ⟨f', rfl⟩ : ∃ f', f = f' + 1 := ⟨f - 1, by omega⟩
    simp only [refOf]
    split
    · exact hA _ (by omega)
    · rename_i hbig
      have hmem := hsub _ (self_mem_storeOf H false _ hwf (Or.inr (by omega)))
      simp only [expand, lookup_functional hfun hmem, Option.bind_some]
      exact hA f' (by omega)

/-- **commit + reopen is the identity on the trie**, provided no two different nodes written by
    the commit share a hash. -/
theorem reload_eq (H : Bytes → Bytes) (t : Node) (ht : WFRoot t) (hfun : Functional (commitStore H t)) :
    reload H t = some t := by
  rcases ht with rfl | ht
  · rfl
  · have hsub : ∀ e ∈ storeOf H false t, e ∈ commitStore H t := storeOf_false_subset_true H t
    have hA := (expand_collapse_aux H (commitStore H t) hfun t ht hsub).1 (2 * height t + 1) (by omega)
    have hmem : (H (enc H t), collapse H t) ∈ commitStore H t := self_mem_storeOf H true t ht (Or.inl rfl)
    have hr : reload H t = expand (commitStore H t) (2 * height t + 2) (.hashRef (H (enc H t))) := by
      cases t with
      | nil => exact absurd ht not_WF_nil
      | _ => rfl
    rw [hr]
    simp only [expand, lookup_functional hfun hmem, Option.bind_some]
    exact hA

end Rangers.Trie
