import Rangers.Model.G1
import Rangers.Proofs.C13ModArith
import Rangers.Proofs.Bls14Curve
/-!
Bridge between the two affine G1 models: `Rangers.Model.G1` (C13, curve as a parameter, inverse
by extended Euclid as `big.Int.ModInverse`) and `Rangers.Model.Bls14` (C14, inverse by Fermat as
`gfP.Invert`). On reduced points, at the bn256 parameters and for `p` prime, `neg`, `double`,
`add` and the on-curve test coincide — so the group-law theorems of `Proofs/Bls14Curve.lean`
(`ι_add`, `ι_neg`, `ι_inj`, against Mathlib's `WeierstrassCurve.Affine.Point`) transfer to the C13
model through `conv`. NOT in C14's `PROPS` (it depends on C13's files); C13 can import it.
Not bridged: `mul` (the two loops index bits differently: `testBit` over `bitLen … 0` vs a
bit list) — needs a bit-list lemma, see design/C14.md.
-/
namespace Rangers.Proofs.Bls14
open Rangers Rangers.Model.Bls14

variable [hp : Fact (Nat.Prime P)]

/-- The bn256 curve as a C13 `Curve`. -/
def c13 : Model.G1.Curve := ⟨P, B⟩

def conv : Pt → Model.G1.Point
  | .inf => .inf
  | .aff x y => .aff x y

omit hp in
theorem c13_fmul (a b : ℕ) : Model.G1.fmul c13 a b = fmul a b := rfl
omit hp in
theorem c13_fsub (a b : ℕ) : Model.G1.fsub c13 a b = fsub a b := rfl
omit hp in
theorem c13_fadd (a b : ℕ) : Model.G1.fadd c13 a b = fadd a b := rfl

/-- Extended Euclid and Fermat give the same inverse (and both give 0 for 0). -/
theorem c13_finv (a : ℕ) : Model.G1.finv c13 a = finv a := by
  unfold Model.G1.finv
  have hlt : finv a < P := powMod_lt _ _
  by_cases h0 : ((a % P : ℕ) : ZMod P) = 0
  · have h0' : (a : F) = 0 := by rwa [ZMod.natCast_mod] at h0
    have : finv a = 0 := by
      have hc := cast_finv a
      rw [h0', inv_zero] at hc
      exact natCast_inj_of_lt hlt P_pos (by rw [hc]; simp)
    simp only [c13]
    rw [Proofs.C13.modInverse_none (a % P) h0, this]
  · obtain ⟨v, hv, hvc, hvlt⟩ := Proofs.C13.modInverse_some (p := P) (a % P) h0
    simp only [c13]
    rw [hv]
    apply natCast_inj_of_lt hvlt hlt
    rw [hvc, cast_finv, ZMod.natCast_mod]

omit hp in
theorem c13_neg (p : Pt) : Model.G1.neg c13 (conv p) = conv p.neg := by
  cases p with
  | inf => rfl
  | aff x y => simp [Model.G1.neg, conv, Pt.neg, c13_fsub, fsub, fneg]

theorem c13_double (p : Pt) (hr : p.reduced = true) :
    Model.G1.double c13 (conv p) = conv p.double := by
  cases p with
  | inf => rfl
  | aff x y =>
    simp only [Pt.reduced, Bool.and_eq_true, decide_eq_true_eq] at hr
    simp only [Model.G1.double, conv, Pt.double, c13_fmul, c13_fsub, c13_finv]
    by_cases hy : y = 0
    · subst hy; simp [conv]
    · have hb : ¬ (y % P == 0) = true := by rw [Nat.mod_eq_of_lt hr.2]; simpa using hy
      simp only [hy, hb, if_false, Bool.false_eq_true, conv, Model.G1.Point.aff.injEq]
      constructor
      · apply natCast_inj_of_lt (fsub_lt _ _) (fsub_lt _ _)
        simp only [cast_fsub, cast_fmul, cast_finv]; push_cast; ring
      · apply natCast_inj_of_lt (fsub_lt _ _) (fsub_lt _ _)
        simp only [cast_fsub, cast_fmul, cast_finv]; push_cast; ring

theorem c13_add (p q : Pt) (hpr : p.reduced = true) (hqr : q.reduced = true) :
    Model.G1.add c13 (conv p) (conv q) = conv (p.add q) := by
  cases p with
  | inf => cases q <;> rfl
  | aff x1 y1 =>
    cases q with
    | inf => rfl
    | aff x2 y2 =>
      have h1 := hpr; have h2 := hqr
      simp only [Pt.reduced, Bool.and_eq_true, decide_eq_true_eq] at h1 h2
      simp only [Model.G1.add, conv, Pt.add, Nat.mod_eq_of_lt h1.1, Nat.mod_eq_of_lt h1.2,
        Nat.mod_eq_of_lt h2.1, Nat.mod_eq_of_lt h2.2, beq_iff_eq, c13_fmul, c13_fsub, c13_finv]
      by_cases hx : x1 = x2
      · by_cases hy : y1 = y2
        · simp only [hx, hy, if_true]
          have := c13_double (.aff x2 y2) hqr
          simpa [conv] using this
        · simp [hx, hy, conv]
      · simp [hx, conv]

omit hp in
/-- On-curve tests agree. -/
theorem c13_isOnCurve (x y : ℕ) :
    Model.G1.isOnCurve c13 (.aff x y) = onCurveXY x y := by
  show (fmul y y == fadd (fmul (fmul x x) x) (B % P)) = (y * y % P == (x * x * x + B) % P)
  have m1 : x * x % P * x % P ≡ x * x * x [MOD P] :=
    (Nat.mod_modEq _ _).trans ((Nat.mod_modEq (x * x) P).mul_right x)
  have e : (x * x % P * x % P + B % P) % P = (x * x * x + B) % P := m1.add (Nat.mod_modEq B P)
  simp only [fmul, fadd, e]

end Rangers.Proofs.Bls14
