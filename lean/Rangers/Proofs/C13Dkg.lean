import Rangers.Proofs.C13Recover
/-! The DKG: member keys are evaluations of the sum polynomial; the aggregated public key is
    `f(0)•g₂`. -/
namespace Rangers.Proofs.C13
open Polynomial Rangers.Model.Shamir

variable {r : Nat}

/-- The group polynomial: sum of the dealers' polynomials. -/
noncomputable def groupPoly (r : Nat) (dealers : List (List Nat)) : (ZMod r)[X] :=
  (dealers.map (fun cs => polyOf (castList r cs))).sum

theorem eval_groupPoly (dealers : List (List Nat)) (x : ZMod r) :
    (groupPoly r dealers).eval x = (dealers.map (fun cs => (polyOf (castList r cs)).eval x)).sum := by
  unfold groupPoly
  induction dealers with
  | nil => simp
  | cons cs ds ih => simp [eval_add, ih]

theorem degree_groupPoly_lt (dealers : List (List Nat)) (k : Nat)
    (hlen : ∀ cs ∈ dealers, cs.length ≤ k) : (groupPoly r dealers).degree < k := by
  unfold groupPoly
  induction dealers with
  | nil => simp only [List.map_nil, List.sum_nil, degree_zero]; exact WithBot.bot_lt_coe k
  | cons cs ds ih =>
    simp only [List.map_cons, List.sum_cons]
    refine lt_of_le_of_lt (degree_add_le _ _) (max_lt ?_ ?_)
    · refine lt_of_lt_of_le (degree_polyOf_lt _) ?_
      have : cs.length ≤ k := hlen cs (by simp)
      simp only [castList, List.length_map]; exact_mod_cast this
    · exact ih (fun cs' h => hlen cs' (by simp [h]))

theorem mapM_share_sum (x : Nat) : ∀ (dealers : List (List Nat)) (shares : List Nat),
    dealers.mapM (fun cs => shareSeckey r cs x) = some shares →
      (castList r shares).sum = (dealers.map (fun cs => (polyOf (castList r cs)).eval (x : ZMod r))).sum := by
  intro dealers
  induction dealers with
  | nil => intro shares h; simp at h; subst h; simp [castList]
  | cons cs ds ih =>
    intro shares h
    rw [List.mapM_cons] at h
    cases hs : shareSeckey r cs x with
    | none => simp [hs] at h
    | some v =>
      cases hm : ds.mapM (fun cs => shareSeckey r cs x) with
      | none => simp [hs, hm] at h
      | some rest =>
        simp [hs, hm] at h
        subst h
        simp only [castList, List.map_cons, List.sum_cons]
        rw [shareSeckey_eval r cs x v hs]
        have := ih rest hm
        simp only [castList] at this
        rw [this]; rfl

/-- `member_key_is_eval_of_sum`. -/
theorem memberKey_eval (dealers : List (List Nat)) (x v : Nat) (h : memberKey r dealers x = some v) :
    (v : ZMod r) = (groupPoly r dealers).eval (x : ZMod r) := by
  unfold memberKey at h
  split at h
  · rename_i shares hm
    rw [aggregateSeckeys_sum r shares v h, mapM_share_sum x dealers shares hm, eval_groupPoly]
  · simp at h

theorem mapM_share_isSome (x : Nat) : ∀ (dealers : List (List Nat)), (∀ cs ∈ dealers, cs ≠ []) →
    ∃ shares, dealers.mapM (fun cs => shareSeckey r cs x) = some shares ∧ shares.length = dealers.length := by
  intro dealers
  induction dealers with
  | nil => intro _; exact ⟨[], by simp⟩
  | cons cs ds ih =>
    intro hne
    obtain ⟨v, hv⟩ := shareSeckey_isSome r cs x (hne cs (by simp))
    obtain ⟨rest, hr, hl⟩ := ih (fun c hc => hne c (by simp [hc]))
    exact ⟨v :: rest, by rw [List.mapM_cons]; simp [hv, hr], by simp [hl]⟩

theorem memberKey_isSome (dealers : List (List Nat)) (x : Nat) (hd : dealers ≠ [])
    (hne : ∀ cs ∈ dealers, cs ≠ []) : ∃ v, memberKey r dealers x = some v := by
  obtain ⟨shares, hs, hl⟩ := mapM_share_isSome (r := r) x dealers hne
  have : shares ≠ [] := by
    intro h; subst h; simp at hl; exact hd (List.length_eq_zero_iff.1 hl.symm)
  obtain ⟨v, hv⟩ := aggregateSeckeys_isSome r shares this
  exact ⟨v, by unfold memberKey; simp [hs, hv]⟩

theorem groupSecret_eval (dealers : List (List Nat)) (g : Nat) (h : groupSecret r dealers = some g) :
    (g : ZMod r) = (groupPoly r dealers).eval 0 := by
  unfold groupSecret at h
  rw [aggregateSeckeys_sum r _ g h, eval_groupPoly]
  simp only [castList, List.map_map]
  congr 1
  apply List.map_congr_left
  intro cs _
  simp only [Function.comp]
  rw [eval_zero_polyOf]
  cases cs <;> simp [castList]

section pk
variable {G₂ : Type} [AddCommGroup G₂] [Module (ZMod r) G₂]

theorem foldl_add_sum (l : List G₂) (p : G₂) : l.foldl (· + ·) p = p + l.sum := by
  induction l generalizing p with
  | nil => simp
  | cons a l ih => simp [ih, add_assoc]

/-- `group_pk`: aggregating the dealers' public keys `c₀•g₂` gives `f(0)•g₂`. -/
theorem aggregatePoints_pk (ops : Ops G₂) (hops : LawfulOps r ops) (dealers : List (List Nat)) (hd : dealers ≠ [])
    (g2 : G₂) :
    aggregatePoints ops.add (dealers.map (fun cs => ops.mul g2 (cs.headD 0))) =
      some ((groupPoly r dealers).eval 0 • g2) := by
  have hadd : ops.add = (· + ·) := by funext a b; exact hops.add_eq a b
  obtain ⟨cs, ds, rfl⟩ := List.exists_cons_of_ne_nil hd
  clear hd
  simp only [List.map_cons, aggregatePoints, hadd]
  rw [foldl_add_sum, eval_groupPoly]
  simp only [List.map_cons, List.sum_cons, add_smul]
  congr 2
  · rw [hops.mul_eq, eval_zero_polyOf]; cases cs <;> simp [castList]
  · induction ds with
    | nil => simp
    | cons c ds ih =>
      simp only [List.map_cons, List.sum_cons, add_smul]
      rw [ih, hops.mul_eq, eval_zero_polyOf]
      cases c <;> simp [castList]
end pk

end Rangers.Proofs.C13
