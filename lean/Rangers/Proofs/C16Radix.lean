import Mathlib.Algebra.Group.Basic
import Mathlib.Algebra.Module.Basic
import Mathlib.Tactic.Ring
import Mathlib.Tactic.Abel
import Mathlib.Tactic.Linarith
import Rangers.Model.VrfCurve
/-! The signed radix-16 recoding of `GeScalarMultBase` and its two-pass evaluation, in any commutative group. -/
namespace Rangers.Proofs.C16Radix
open Rangers.Model.VrfCurve

/-- Σ l[i]·r^i -/
def valueR (r : Int) : List Int → Int
  | [] => 0
  | d :: ds => d + r * valueR r ds

theorem nibbles_value (n k : Nat) : valueR 16 (nibblesAux n k) = ((k % 16 ^ n : Nat) : Int) := by
  induction n generalizing k with
  | zero => simp [nibblesAux, valueR, Nat.mod_one]
  | succ n ih =>
    simp only [nibblesAux, valueR, ih]
    have : k % 16 ^ (n + 1) = k % 16 + 16 * (k / 16 % 16 ^ n) := by
      rw [Nat.pow_succ, Nat.mul_comm, Nat.mod_mul]
    rw [this]; push_cast; ring

/-- The carry pass preserves the value (plus the incoming carry) — for EVERY digit list. -/
theorem recode_value (l : List Int) (c : Int) (hl : l ≠ []) :
    valueR 16 (recodeAux l c) = valueR 16 l + c := by
  induction l generalizing c with
  | nil => exact absurd rfl hl
  | cons e rest ih =>
    cases rest with
    | nil => simp [recodeAux, valueR]
    | cons e' rest' =>
      simp only [recodeAux, valueR]
      rw [ih ((e + c + 8) / 16) (by simp)]
      simp only [valueR]
      ring

/-- The 64 signed digits represent the scalar exactly, for every scalar below 2^256. -/
theorem signedRadix16_value (k : Nat) (hk : k < 16 ^ 64) : valueR 16 (signedRadix16 k) = (k : Int) := by
  unfold signedRadix16
  rw [recode_value _ _ (by simp [nibblesAux]), nibbles_value, Nat.mod_eq_of_lt hk, add_zero]

theorem value_split (l : List Int) : valueR 16 l = valueR 256 (evens l) + 16 * valueR 256 (odds l) := by
  induction l using evens.induct with
  | case1 => simp [evens, odds, valueR]
  | case2 a => simp [evens, odds, valueR]
  | case3 a b rest ih => simp only [evens, odds, valueR, ih]; ring

variable {G : Type} [AddCommGroup G]

theorem accum_group (B : G) (tbl : Nat → Int → G) (htbl : ∀ pos d, tbl pos d = (d * 256 ^ pos) • B)
    (pos : Nat) (ds : List Int) (acc : G) :
    accumDigits (· + ·) tbl pos ds acc = acc + (256 ^ pos * valueR 256 ds) • B := by
  induction ds generalizing pos acc with
  | nil => simp [accumDigits, valueR]
  | cons d ds ih =>
    simp only [accumDigits, ih, htbl, valueR]
    rw [add_assoc, ← add_zsmul]
    congr 2
    rw [pow_succ]; ring

/-- `GeScalarMultBase`'s two passes compute (value of the digits) • B. -/
theorem baseMul_group (B : G) (tbl : Nat → Int → G) (htbl : ∀ pos d, tbl pos d = (d * 256 ^ pos) • B)
    (e : List Int) :
    baseMulWith (0 : G) (fun x => x + x) (· + ·) tbl e = valueR 16 e • B := by
  unfold baseMulWith
  simp only [accum_group B tbl htbl, zero_add, pow_zero, one_mul]
  have h16 : ∀ x : G, ((x + x) + (x + x)) + ((x + x) + (x + x)) + (((x + x) + (x + x)) + ((x + x) + (x + x))) = (16 : Int) • x := by
    intro x
    have : (16 : Int) • x = x + x + x + x + x + x + x + x + x + x + x + x + x + x + x + x := by
      simp only [show (16 : Int) = 1+1+1+1+1+1+1+1+1+1+1+1+1+1+1+1 by norm_num, add_zsmul, one_zsmul]
    rw [this]; abel
  rw [h16, ← mul_zsmul, ← add_zsmul, value_split]
  congr 1; ring

/-- `GeScalarMultBase` computes k • B for every scalar below 2^256 (recoding AND evaluation, no hypothesis
    on the scalar). -/
theorem radix16_mul (B : G) (tbl : Nat → Int → G) (htbl : ∀ pos d, tbl pos d = (d * 256 ^ pos) • B)
    (k : Nat) (hk : k < 16 ^ 64) :
    baseMulWith (0 : G) (fun x => x + x) (· + ·) tbl (signedRadix16 k) = (k : Int) • B := by
  rw [baseMul_group B tbl htbl, signedRadix16_value k hk]

end Rangers.Proofs.C16Radix
