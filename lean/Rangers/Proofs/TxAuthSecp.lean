import Rangers.Proofs.TxAuth
import Rangers.Proofs.TxAuthCodec
/-! The secp256k1 decision layer (`libRecover`, `libVerify`, the two Go wrappers): what an
accepted signature must satisfy, independent of the curve operations. -/
namespace Rangers.Model.TxAuth
open Rangers

theorem libVerify_spec (cr : Crypto) (pk msg sig : Bytes) :
    libVerify cr pk msg sig = true ↔
      (1 ≤ sigR sig ∧ sigR sig < secpN) ∧ (1 ≤ sigS sig ∧ sigS sig ≤ secpHalfN) ∧
      cr.verifyCore pk msg (sigR sig) (sigS sig) = true := by
  have hh : secpHalfN < secpN := by decide
  unfold libVerify
  by_cases h1 : sigR sig ≥ secpN ∨ sigS sig ≥ secpN
  · simp only [h1, ↓reduceIte, Bool.false_eq_true, false_iff]
    rintro ⟨⟨_, a⟩, ⟨_, b⟩, _⟩; omega
  · by_cases h2 : sigS sig > secpHalfN
    · simp only [h1, h2, ↓reduceIte, Bool.false_eq_true, false_iff]
      rintro ⟨_, ⟨_, b⟩, _⟩; omega
    · by_cases h3 : sigR sig = 0 ∨ sigS sig = 0
      · simp only [h1, h2, h3, ↓reduceIte, Bool.false_eq_true, false_iff]
        rintro ⟨⟨a, _⟩, ⟨b, _⟩, _⟩; omega
      · simp only [h1, h2, h3, ↓reduceIte]
        constructor
        · intro h; exact ⟨by omega, by omega, h⟩
        · intro h; exact h.2.2

theorem libRecover_spec (cr : Crypto) (msg sig pk : Bytes) (h : libRecover cr msg sig = some pk) :
    (1 ≤ sigR sig ∧ sigR sig < secpN) ∧ (1 ≤ sigS sig ∧ sigS sig < secpN) ∧
      cr.recoverCore msg (sigR sig) (sigS sig) ((sig.drop 64).headD 0).toNat = some pk := by
  unfold libRecover at h
  by_cases h1 : sigR sig ≥ secpN ∨ sigS sig ≥ secpN
  · simp [h1] at h
  · by_cases h3 : sigR sig = 0 ∨ sigS sig = 0
    · simp [h1, h3] at h
    · simp only [h1, h3, ↓reduceIte] at h
      exact ⟨by omega, by omega, h⟩

theorem beToNat_replicate_zero (k : Nat) (xs : Bytes) : beToNat (List.replicate k 0 ++ xs) = beToNat xs := by
  induction k with
  | zero => simp
  | succ k ih =>
    rw [List.replicate_succ, List.cons_append]
    unfold beToNat at ih ⊢
    simp only [List.foldl_cons]
    simpa using ih

theorem beToNat_padLeft (n x : Nat) : beToNat (padLeft n (natToBE x)) = x := by
  unfold padLeft
  rw [beToNat_replicate_zero, beToNat_natToBE]

theorem padLeft_length_ge (n : Nat) (xs : Bytes) : n ≤ (padLeft n xs).length := by
  unfold padLeft; simp; omega

/-- For a `Sign` whose wire form has 65 bytes, the integers the library sees are its `r` and `s`. -/
theorem sign_components (sg : Sign) (h : sg.bytes.length = 65) :
    sigR (sg.bytes.take 64) = sg.r ∧ sigS (sg.bytes.take 64) = sg.s ∧ sg.bytes.take 64 = sg.body := by
  have h1 := padLeft_length_ge 32 (natToBE sg.r)
  have h2 := padLeft_length_ge 32 (natToBE sg.s)
  have hb : sg.body.length = 64 := by rw [Sign.bytes_eq] at h; simpa using h
  have hb' : (padLeft 32 (natToBE sg.r)).length + (padLeft 32 (natToBE sg.s)).length = 64 := by
    simpa [Sign.body] using hb
  have l1 : (padLeft 32 (natToBE sg.r)).length = 32 := by omega
  have l2 : (padLeft 32 (natToBE sg.s)).length = 32 := by omega
  have ht : sg.bytes.take 64 = sg.body := by
    rw [Sign.bytes_eq, ← hb]; exact List.take_left' rfl
  refine ⟨?_, ?_, ht⟩
  · rw [ht]; unfold sigR Sign.body
    rw [List.take_left' l1]; exact beToNat_padLeft 32 sg.r
  · rw [ht]; unfold sigS Sign.body
    rw [List.drop_left' l1]
    have : (padLeft 32 (natToBE sg.s)).take 32 = padLeft 32 (natToBE sg.s) :=
      List.take_of_length_le (by omega)
    rw [this]; exact beToNat_padLeft 32 sg.s

end Rangers.Model.TxAuth
