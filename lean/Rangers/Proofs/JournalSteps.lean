import Rangers.Proofs.JournalOps
/-! `RevAt` for whole ops of the driver's op language (`step`). -/
namespace Rangers.Proofs.Journal
open Rangers Rangers.Model.Journal

theorem resolveNew_crashed (s : ADB) (a : Addr) : (resolveNew s a).1.crashed = s.crashed := by
  unfold resolveNew; repeat' split
  all_goals rfl

/-- crashing after a reversible step is still (vacuously) reversible -/
theorem RevAt.crash_after {c : Cfg} {h : ADB → ADB} {s : ADB} (hh : RevAt c h s) : RevAt c (fun x => crash (h x)) s := by
  obtain ⟨E, hj, _⟩ := hh.inv
  exact ⟨fun _ => rfl, hh.revs, hh.nextRev, ⟨E, hj, fun hc => by cases hc⟩⟩

section
variable (c : Cfg)

/-- common shape: `if crashed then s else match resolveNew s a with (s1,none) => s1 | (s1,some o) => g s1 o` -/
theorem revAt_viaResolveNew (s : ADB) (a : Addr) (f : ADB → ADB) (g : ADB → Obj → ADB) (crashOnNil : Bool)
    (hcr : s.crashed = true → f s = s)
    (hf : s.crashed = false → f s = (match resolveNew s a with
        | (s1, none) => if crashOnNil then crash s1 else s1
        | (s1, some o) => g s1 o))
    (hg : ∀ s1 o, s1.crashed = false → mget s1.objs a = some o → o.deleted = false → RevAt c (fun x => g x o) s1) :
    RevAt c f s := by
  by_cases hs : s.crashed = true
  · exact RevAt.of_crashed_fix hs (hcr hs)
  have hs : s.crashed = false := by simpa using hs
  have h1 := revAt_resolveNew c s a
  cases hrn : resolveNew s a with
  | mk s1 r =>
    have e1 : (resolveNew s a).1 = s1 := by rw [hrn]
    cases r with
    | none =>
      cases crashOnNil with
      | false => exact RevAt.congr_at (f' := fun x => (resolveNew x a).1) (by rw [hf hs, hrn]; simp) h1
      | true => exact RevAt.congr_at (f' := fun x => crash (resolveNew x a).1) (by rw [hf hs, hrn]; simp) h1.crash_after
    | some o =>
      obtain ⟨hm, hd, _⟩ := resolveNew_some hrn
      have hs1 : s1.crashed = false := by rw [← e1, resolveNew_crashed]; exact hs
      have h2 : RevAt c (fun x => g x o) (resolveNew s a).1 := by rw [e1]; exact hg s1 o hs1 hm hd
      exact RevAt.congr_at (f' := fun x => g (resolveNew x a).1 o) (by rw [hf hs, hrn]) (RevAt.comp h1 h2)

theorem revAt_setNonce (s : ADB) (a : Addr) (n : Nat) : RevAt c (fun x => setNonce x a n) s :=
  revAt_viaResolveNew c s a _ (fun s1 o => setNonceRaw { s1 with journal := s1.journal ++ [Entry.nonce a o.nonce] } a n) false
    (fun h => by simp [setNonce, h])
    (fun h => by simp only [setNonce, h, Bool.false_eq_true, if_false]; rcases resolveNew s a with ⟨s1, _ | _⟩ <;> rfl)
    (fun s1 o h1 hm hd => revAt_setNonceJ c n h1 hm hd)

theorem revAt_incNonce (s : ADB) (a : Addr) : RevAt c (fun x => (increaseNonce x a).1) s :=
  revAt_viaResolveNew c s a _ (fun s1 o => setNonceRaw { s1 with journal := s1.journal ++ [Entry.nonce a o.nonce] } a ((o.nonce + 1) % U64)) false
    (fun h => by simp [increaseNonce, h])
    (fun h => by simp only [increaseNonce, h, Bool.false_eq_true, if_false]; rcases resolveNew s a with ⟨s1, _ | _⟩ <;> rfl)
    (fun s1 o h1 hm hd => revAt_setNonceJ c _ h1 hm hd)

theorem revAt_setData (s : ADB) (a : Addr) (k : Key) (v : Val) : RevAt c (fun x => setData x a k v) s :=
  revAt_viaResolveNew c s a _ (fun s1 _ => setDataJ s1 a k v) false
    (fun h => by simp [setData, h])
    (fun h => by simp only [setData, h, Bool.false_eq_true, if_false]; rcases resolveNew s a with ⟨s1, _ | _⟩ <;> rfl)
    (fun s1 o h1 hm hd => revAt_setDataJ c k v h1 hm hd)

theorem revAt_create (s : ADB) (a : Addr) : RevAt c (fun x => createAccount x a) s := by
  by_cases hs : s.crashed = true
  · exact RevAt.of_crashed_fix hs (by simp [createAccount, hs])
  · exact RevAt.congr_at (f' := fun x => (resolveNew x a).1) (by simp [createAccount, hs]) (revAt_resolveNew c s a)

/-- readers that only resolve the address -/
theorem revAt_resolveOnly (s : ADB) (a : Addr) (f : ADB → ADB) (hcr : s.crashed = true → f s = s)
    (hf : s.crashed = false → f s = (resolve s a).1) : RevAt c f s := by
  by_cases hs : s.crashed = true
  · exact RevAt.of_crashed_fix hs (hcr hs)
  · exact RevAt.congr_at (f' := fun x => (resolve x a).1) (hf (by simpa using hs)) (revAt_resolve c s a)

theorem revAt_qExist (s : ADB) (a : Addr) : RevAt c (fun x => (exist x a).1) s :=
  revAt_resolveOnly c s a _ (fun h => by simp [exist, h])
    (fun h => by simp only [exist, h, Bool.false_eq_true, if_false]; rcases resolve s a with ⟨s1, _ | _⟩ <;> rfl)
theorem revAt_qEmpty (s : ADB) (a : Addr) : RevAt c (fun x => (isEmptyQ x a).1) s :=
  revAt_resolveOnly c s a _ (fun h => by simp [isEmptyQ, h])
    (fun h => by simp only [isEmptyQ, h, Bool.false_eq_true, if_false]; rcases resolve s a with ⟨s1, _ | _⟩ <;> rfl)
theorem revAt_qNonce (s : ADB) (a : Addr) : RevAt c (fun x => (getNonce x a).1) s :=
  revAt_resolveOnly c s a _ (fun h => by simp [getNonce, h])
    (fun h => by simp only [getNonce, h, Bool.false_eq_true, if_false]; rcases resolve s a with ⟨s1, _ | _⟩ <;> rfl)
theorem revAt_qSuicided (s : ADB) (a : Addr) : RevAt c (fun x => (hasSuicided x a).1) s :=
  revAt_resolveOnly c s a _ (fun h => by simp [hasSuicided, h])
    (fun h => by simp only [hasSuicided, h, Bool.false_eq_true, if_false]; rcases resolve s a with ⟨s1, _ | _⟩ <;> rfl)
theorem revAt_qCodeHash (s : ADB) (a : Addr) : RevAt c (fun x => (getCodeHash x a).1) s :=
  revAt_resolveOnly c s a _ (fun h => by simp [getCodeHash, h])
    (fun h => by simp only [getCodeHash, h, Bool.false_eq_true, if_false]; rcases resolve s a with ⟨s1, _ | _⟩ <;> rfl)
theorem revAt_qCodeSize (s : ADB) (a : Addr) : RevAt c (fun x => (getCodeSize x a).1) s :=
  revAt_resolveOnly c s a _ (fun h => by simp [getCodeSize, h])
    (fun h => by simp only [getCodeSize, h, Bool.false_eq_true, if_false]; rcases resolve s a with ⟨s1, _ | _⟩ <;> rfl)

theorem resolve_some {s : ADB} {a : Addr} {s1 : ADB} {o : Obj} (h : resolve s a = (s1, some o)) :
    mget s1.objs a = some o ∧ o.deleted = false := by
  cases hr : res s a with
  | deleted => rw [resolve_deleted hr] at h; cases h
  | absent => rw [(resolve_absent hr).1] at h; cases h
  | live o' =>
    obtain ⟨s2, e, m, hd, _, _⟩ := resolve_live hr
    rw [e] at h
    simp only [Prod.mk.injEq, Option.some.injEq] at h
    obtain ⟨rfl, rfl⟩ := h
    exact ⟨m, hd⟩

theorem resolve_crashed (s : ADB) (a : Addr) : (resolve s a).1.crashed = s.crashed := by rw [resolve_fields]

theorem revAt_qData (s : ADB) (a : Addr) (k : Key) : RevAt c (fun x => (getData x a k).1) s := by
  by_cases hs : s.crashed = true
  · exact RevAt.of_crashed_fix hs (by simp [getData, hs])
  have hs : s.crashed = false := by simpa using hs
  have h1 := revAt_resolve c s a
  cases hrn : resolve s a with
  | mk s1 r =>
    have e1 : (resolve s a).1 = s1 := by rw [hrn]
    cases r with
    | none => exact RevAt.congr_at (f' := fun x => (resolve x a).1) (by simp [getData, hs, hrn]) h1
    | some o =>
      obtain ⟨hm, hd⟩ := resolve_some hrn
      have h2 : RevAt c (fun x => (readAt x a k).1) (resolve s a).1 := by rw [e1]; exact revAt_readAt c k hm hd
      exact RevAt.congr_at (f' := fun x => (readAt (resolve x a).1 a k).1) (by simp [getData, hs, hrn]) (RevAt.comp h1 h2)

/-! ### balances on the bound token contract (Proposal002 active) -/

theorem revAt_getBalance (s : ADB) (a : Addr) : RevAt c (fun x => (getBalance c x a).1) s :=
  revAt_viaResolveNew c s c.tok _ (fun s1 _ => (readAt s1 c.tok (c.balKey a)).1) true
    (fun h => by simp [getBalance, h])
    (fun h => by simp only [getBalance, h, Bool.false_eq_true, if_false]; rcases resolveNew s c.tok with ⟨s1, _ | _⟩ <;> rfl)
    (fun s1 o _ hm hd => revAt_readAt c _ hm hd)

/-- after a successful `GetBalance` the token contract object sits in the cache -/
theorem getBalance_inmap {s : ADB} (a : Addr) (hnc : (getBalance c s a).1.crashed = false) :
    ∃ o, mget (getBalance c s a).1.objs c.tok = some o ∧ o.deleted = false := by
  unfold getBalance at hnc ⊢
  by_cases hs : s.crashed = true
  · simp [hs] at hnc
  simp only [hs, Bool.false_eq_true, if_false] at hnc ⊢
  cases hrn : resolveNew s c.tok with
  | mk s1 r =>
    cases r with
    | none => simp [hrn, crash] at hnc
    | some o =>
      obtain ⟨hm, hd, _⟩ := resolveNew_some hrn
      obtain ⟨h1, _, _⟩ := readAt_sim (c.balKey a) hm hd
      simp only
      refine ⟨(o.read (c.balKey a)).1, ?_, ?_⟩
      · show mget (readAt s1 c.tok (c.balKey a)).1.objs c.tok = _
        rw [h1]; simp [putObj]
      · rw [Obj.read_fst_other]; exact hd

theorem revAt_setBalance (s : ADB) (a : Addr) (n : Nat) : RevAt c (fun x => setBalance c x a n) s :=
  revAt_viaResolveNew c s c.tok _ (fun s1 _ => setDataJ s1 c.tok (c.balKey a) (natToBE n)) true
    (fun h => by simp [setBalance, h])
    (fun h => by simp only [setBalance, h, Bool.false_eq_true, if_false]; rcases resolveNew s c.tok with ⟨s1, _ | _⟩ <;> rfl)
    (fun s1 o h1 hm hd => revAt_setDataJ c _ _ h1 hm hd)

theorem revAt_addBalance (hp : c.p002 = true) (s : ADB) (a : Addr) (n : Nat) : RevAt c (fun x => addBalance c x a n) s := by
  have h1 := revAt_getBalance c s a
  by_cases hnc : (getBalance c s a).1.crashed = true
  · exact RevAt.congr_at (f' := fun x => (getBalance c x a).1) (by simp [addBalance, hnc]) h1
  have hnc : (getBalance c s a).1.crashed = false := by simpa using hnc
  obtain ⟨o, hm, hd⟩ := getBalance_inmap c a hnc
  have h2 := revAt_setDataJ c (c.balKey a) (natToBE ((getBalance c s a).2 + n)) hnc hm hd
  exact RevAt.congr_at (f' := fun x => setDataJ (getBalance c x a).1 c.tok (c.balKey a) (natToBE ((getBalance c s a).2 + n)))
    (by simp [addBalance, hnc, balWrite, hp]) (RevAt.comp h1 h2)

theorem revAt_subBalance (hp : c.p002 = true) (s : ADB) (a : Addr) (n : Nat) : RevAt c (fun x => (subBalance c x a n).1) s := by
  have h1 := revAt_getBalance c s a
  by_cases hnc : (getBalance c s a).1.crashed = true
  · exact RevAt.congr_at (f' := fun x => (getBalance c x a).1) (by simp [subBalance, hnc]) h1
  have hnc : (getBalance c s a).1.crashed = false := by simpa using hnc
  by_cases hlt : (getBalance c s a).2 < n
  · exact RevAt.congr_at (f' := fun x => (getBalance c x a).1) (by simp [subBalance, hnc, hlt]) h1
  obtain ⟨o, hm, hd⟩ := getBalance_inmap c a hnc
  have h2 := revAt_setDataJ c (c.balKey a) (natToBE ((getBalance c s a).2 - n)) hnc hm hd
  exact RevAt.congr_at (f' := fun x => setDataJ (getBalance c x a).1 c.tok (c.balKey a) (natToBE ((getBalance c s a).2 - n)))
    (by simp [subBalance, hnc, hlt, balWrite, hp]) (RevAt.comp h1 h2)

theorem revAt_transfer (hp : c.p002 = true) (s : ADB) (a b : Addr) (n : Nat) : RevAt c (fun x => transfer c x a b n) s := by
  by_cases hs : s.crashed = true
  · exact RevAt.of_crashed_fix hs (by simp [transfer, hs])
  by_cases hn : n = 0
  · exact RevAt.congr_at (f' := fun x => x) (by simp [transfer, hs, hn]) (RevAt.id c s)
  have h1 := revAt_subBalance c hp s a n
  by_cases hnc : (subBalance c s a n).1.crashed = true
  · exact RevAt.congr_at (f' := fun x => (subBalance c x a n).1) (by simp [transfer, hs, hn, hnc]) h1
  have h2 := revAt_addBalance c hp (subBalance c s a n).1 b n
  exact RevAt.congr_at (f' := fun x => addBalance c (subBalance c x a n).1 b n) (by simp [transfer, hs, hn, hnc]) (RevAt.comp h1 h2)

/-! ### fields outside the account objects -/

theorem revAt_addRefund (s : ADB) (g : Nat) : RevAt c (fun x => addRefund x g) s := by
  by_cases hs : s.crashed = true
  · exact RevAt.of_crashed_fix hs (by simp [addRefund, hs])
  have hs : s.crashed = false := by simpa using hs
  refine ⟨fun h => (by rw [hs] at h; cases h), by simp [addRefund, hs], by simp [addRefund, hs],
    ⟨[Entry.refund s.refund], by simp [addRefund, hs], fun _ => ?_⟩⟩
  rw [undoAll_singleton]
  simp only [addRefund, undo, hs, Bool.false_eq_true, if_false]
  exact sim_of_same_view hs.symm rfl ⟨rfl, rfl, rfl, rfl, rfl, rfl, fun _ _ => rfl, rfl, rfl, rfl⟩

theorem revAt_subRefund (s : ADB) (g : Nat) : RevAt c (fun x => subRefund x g) s := by
  by_cases hs : s.crashed = true
  · exact RevAt.of_crashed_fix hs (by simp [subRefund, hs])
  have hs : s.crashed = false := by simpa using hs
  by_cases hg : g > s.refund
  · exact ⟨fun h => (by rw [hs] at h; cases h), by simp [subRefund, hs, hg, crash], by simp [subRefund, hs, hg, crash],
      ⟨[Entry.refund s.refund], by simp [subRefund, hs, hg, crash], fun hc => by simp [subRefund, hs, hg, crash] at hc⟩⟩
  · refine ⟨fun h => (by rw [hs] at h; cases h), by simp [subRefund, hs, hg], by simp [subRefund, hs, hg],
      ⟨[Entry.refund s.refund], by simp [subRefund, hs, hg], fun _ => ?_⟩⟩
    rw [undoAll_singleton]
    simp only [subRefund, undo, hs, hg, Bool.false_eq_true, if_false]
    exact sim_of_same_view hs.symm rfl ⟨rfl, rfl, rfl, rfl, rfl, rfl, fun _ _ => rfl, rfl, rfl, rfl⟩

theorem toHash_length (b : Bytes) : (toHash b).length = 32 := by
  unfold toHash; split
  · simp; omega
  · simp; omega

theorem toHash_idem (b : Bytes) : toHash (toHash b) = toHash b := by
  have h := toHash_length b
  generalize toHash b = x at h
  simp [toHash, h]

theorem zeroHash_length : zeroHash.length = 32 := by simp [zeroHash]

theorem tget_length (t : List (Addr × List (Hash × Hash))) (a : Addr) (k : Hash) : (tget t a k).length = 32 := by
  unfold tget; split
  · exact zeroHash_length
  · exact toHash_length _

theorem toHash_of_length {b : Bytes} (h : b.length = 32) : toHash b = b := by simp [toHash, h]

theorem revAt_tset (s : ADB) (a : Addr) (k v : Hash) : RevAt c (fun x => setTransientState x a k v) s := by
  by_cases hs : s.crashed = true
  · exact RevAt.of_crashed_fix hs (by simp [setTransientState, hs])
  have hs : s.crashed = false := by simpa using hs
  by_cases hv : tget s.transient a k = v
  · exact RevAt.congr_at (f' := fun x => x) (by simp [setTransientState, hs, hv]) (RevAt.id c s)
  refine ⟨fun h => (by rw [hs] at h; cases h), by simp [setTransientState, hs, hv], by simp [setTransientState, hs, hv],
    ⟨[Entry.transient a k (tget s.transient a k)], by simp [setTransientState, hs, hv], fun _ => ?_⟩⟩
  rw [undoAll_singleton]
  simp only [setTransientState, undo, hs, hv, Bool.false_eq_true, if_false]
  refine sim_of_same_view hs.symm rfl ⟨rfl, rfl, rfl, rfl, rfl, rfl, fun a' k' => ?_, rfl, rfl, rfl⟩
  simp only [tget_tset]
  by_cases h : a = a' ∧ k = k'
  · obtain ⟨rfl, rfl⟩ := h
    simp [toHash_of_length (tget_length _ _ _)]
  · simp [h]

theorem mdel_mset_fresh {α : Type} (m : List (Bytes × α)) (k : Bytes) (v : α) (h : mget m k = none) :
    mdel (mset m k v) k = m := by
  induction m with
  | nil => simp [mset, mdel]
  | cons p t ih =>
    obtain ⟨pk, pv⟩ := p
    simp only [mget] at h
    by_cases hk : pk = k
    · simp [hk] at h
    · simp only [hk, if_false] at h
      simp only [mset, hk, if_false]
      unfold mdel at ih ⊢
      simp only [List.filter, ne_eq, hk, not_false_eq_true, decide_true]
      rw [ih h]

theorem revAt_alAddr (s : ADB) (a : Addr) : RevAt c (fun x => addAddressToAccessList x a) s := by
  by_cases hs : s.crashed = true
  · exact RevAt.of_crashed_fix hs (by simp [addAddressToAccessList, hs])
  have hs : s.crashed = false := by simpa using hs
  cases hm : mget s.al.addrs a with
  | some i =>
    exact RevAt.congr_at (f' := fun x => x) (by simp [addAddressToAccessList, hs, AccessList.addAddress, hm]) (RevAt.id c s)
  | none =>
    refine ⟨fun h => (by rw [hs] at h; cases h), by simp [addAddressToAccessList, hs, AccessList.addAddress, hm],
      by simp [addAddressToAccessList, hs, AccessList.addAddress, hm],
      ⟨[Entry.alAddr a], by simp [addAddressToAccessList, hs, AccessList.addAddress, hm], fun _ => ?_⟩⟩
    rw [undoAll_singleton]
    simp only [addAddressToAccessList, AccessList.addAddress, hm, undo, hs, Bool.false_eq_true, if_false, if_true,
      AccessList.deleteAddress]
    refine sim_of_same_view hs.symm rfl ⟨rfl, rfl, rfl, rfl, rfl, ?_, fun _ _ => rfl, rfl, rfl, rfl⟩
    simp only [mdel_mset_fresh _ _ _ hm]

end
end Rangers.Proofs.Journal
