import Rangers.Model.TrieLive
import Rangers.Proofs.TrieStore
/- Abstraction relation between live tries (flags, hash nodes) and fully loaded tries. -/
namespace Rangers.Trie
open Rangers

/-! ### the abstraction relation between live tries and fully loaded tries -/

/-- every node a commit of `t` writes resolves, in `st`, to its collapsed form -/
def Stored (H : Bytes → Bytes) (st : Store) (t : Node) : Prop :=
  ∀ e ∈ storeOf H false t, st.lookup e.1 = some e.2

/-- what the cache flags of a live node standing for `t` promise:
    a cached hash is the hash of the node (and a child that has one is referenced by hash, i.e. its
    RLP is ≥ 32 bytes); a clean node has everything below it in the store, under its hash if it has
    one, and is an embedded (< 32 byte) child if it has none -/
def FlagOK (H : Bytes → Bytes) (st : Store) (child : Bool) (fl : Flag) (t : Node) : Prop :=
  (∀ h, fl.hash = some h → h = H (enc H t) ∧ (child = true → 32 ≤ (enc H t).length)) ∧
  (fl.dirty = false → Stored H st t ∧
    (match fl.hash with
     | some h => st.lookup h = some (collapse H t)
     | none => child = true ∧ (enc H t).length < 32))

/-- `l` is the unloaded form (a hash node) of `t` -/
def HashOf (H : Bytes → Bytes) (st : Store) (child : Bool) (t : Node) (l : LNode) : Prop :=
  l = .hash (H (enc H t)) ∧ WF t ∧ (child = true → 32 ≤ (enc H t).length) ∧
  Stored H st t ∧ st.lookup (H (enc H t)) = some (collapse H t)

mutual
/-- `l` is a loaded live node standing for `t` (children may be unloaded) -/
def AbsL (H : Bytes → Bytes) (st : Store) : Bool → Node → LNode → Prop
  | _, .nil, .nil => True
  | _, .value b, .value b' => b = b'
  | child, .short k v, .short k' lv fl =>
    k = k' ∧ (AbsL H st true v lv ∨ HashOf H st true v lv) ∧ FlagOK H st child fl (.short k v)
  | child, .full cs, .full lcs fl => AbsLs H st cs lcs ∧ FlagOK H st child fl (.full cs)
  | _, _, _ => False
def AbsLs (H : Bytes → Bytes) (st : Store) : List Node → List LNode → Prop
  | [], [] => True
  | c :: cs, l :: ls => (AbsL H st true c l ∨ HashOf H st true c l) ∧ AbsLs H st cs ls
  | _, _ => False
end

/-- loaded or unloaded -/
def AbsR (H : Bytes → Bytes) (st : Store) (child : Bool) (t : Node) (l : LNode) : Prop :=
  AbsL H st child t l ∨ HashOf H st child t l

/-- `st'` answers every lookup `st` answers, identically -/
def Extends (st st' : Store) : Prop := ∀ h c, st.lookup h = some c → st'.lookup h = some c

theorem Extends.refl (st : Store) : Extends st st := fun _ _ h => h
theorem Extends.trans {a b c : Store} (h1 : Extends a b) (h2 : Extends b c) : Extends a c :=
  fun h x hx => h2 h x (h1 h x hx)

theorem Stored.mono {H : Bytes → Bytes} {st st' : Store} {t : Node} (he : Extends st st') (h : Stored H st t) :
    Stored H st' t := fun e hm => he _ _ (h e hm)

theorem FlagOK.mono {H : Bytes → Bytes} {st st' : Store} {child : Bool} {fl : Flag} {t : Node}
    (he : Extends st st') (h : FlagOK H st child fl t) : FlagOK H st' child fl t := by
  refine ⟨h.1, fun hd => ⟨(h.2 hd).1.mono he, ?_⟩⟩
  have := (h.2 hd).2
  cases hh : fl.hash with
  | none => rw [hh] at this; exact this
  | some x => rw [hh] at this; exact he _ _ this

theorem HashOf.mono {H : Bytes → Bytes} {st st' : Store} {child : Bool} {t : Node} {l : LNode}
    (he : Extends st st') (h : HashOf H st child t l) : HashOf H st' child t l :=
  ⟨h.1, h.2.1, h.2.2.1, h.2.2.2.1.mono he, he _ _ h.2.2.2.2⟩

theorem AbsL.mono (H : Bytes → Bytes) {st st' : Store} (he : Extends st st') (t : Node) :
    ∀ child l, AbsL H st child t l → AbsL H st' child t l := by
  induction t using Node.induct with
  | hnil => intro child l h; cases l <;> simp_all [AbsL]
  | hval b => intro child l h; cases l <;> simp_all [AbsL]
  | hshort k v ih =>
    intro child l h
    cases l with
    | short k' lv fl =>
      simp only [AbsL] at h ⊢
      refine ⟨h.1, ?_, h.2.2.mono he⟩
      rcases h.2.1 with h1 | h1
      · exact Or.inl (ih _ _ h1)
      · exact Or.inr (h1.mono he)
    | _ => simp [AbsL] at h
  | hfull cs ih =>
    intro child l h
    cases l with
    | full lcs fl =>
      simp only [AbsL] at h ⊢
      refine ⟨?_, h.2.mono he⟩
      have := h.1
      clear h
      induction cs generalizing lcs with
      | nil => cases lcs <;> simp_all [AbsLs]
      | cons c cs ihc =>
        cases lcs with
        | nil => simp [AbsLs] at this
        | cons l ls =>
          simp only [AbsLs] at this ⊢
          refine ⟨?_, ihc (fun c' hc' => ih c' (by simp [hc'])) ls this.2⟩
          rcases this.1 with h1 | h1
          · exact Or.inl (ih c (by simp) _ _ h1)
          · exact Or.inr (h1.mono he)
    | _ => simp [AbsL] at h

theorem AbsR.mono (H : Bytes → Bytes) {st st' : Store} (he : Extends st st') {child : Bool} {t : Node} {l : LNode}
    (h : AbsR H st child t l) : AbsR H st' child t l := by
  rcases h with h | h
  · exact Or.inl (AbsL.mono H he t _ _ h)
  · exact Or.inr (h.mono he)

/-! ### flags of fresh and of embedded nodes -/

theorem flagOK_new (H : Bytes → Bytes) (st : Store) (child : Bool) (g : Nat) (t : Node) :
    FlagOK H st child (newFlag g) t :=
  ⟨fun x hx => by simp [newFlag] at hx, fun hd => by simp [newFlag] at hd⟩

/-- the flags `expandNode` gives an embedded child -/
theorem flagOK_embedded {H : Bytes → Bytes} {st : Store} (g : Nat) {t : Node} (hst : Stored H st t)
    (hsmall : (enc H t).length < 32) : FlagOK H st true { hash := none, gen := g, dirty := false } t :=
  ⟨fun x hx => by simp at hx, fun _ => ⟨hst, rfl, hsmall⟩⟩

/-! ### unfolding `AbsL` -/

theorem AbsL_short {H : Bytes → Bytes} {st : Store} {child : Bool} {k : Key} {v : Node} {l : LNode} :
    AbsL H st child (.short k v) l ↔
      ∃ lv fl, l = .short k lv fl ∧ AbsR H st true v lv ∧ FlagOK H st child fl (.short k v) := by
  cases l with
  | short k' lv fl =>
    simp only [AbsL, AbsR, LNode.short.injEq]
    constructor
    · rintro ⟨rfl, h1, h2⟩; exact ⟨lv, fl, ⟨rfl, rfl, rfl⟩, h1, h2⟩
    · rintro ⟨lv', fl', ⟨rfl, rfl, rfl⟩, h1, h2⟩; exact ⟨rfl, h1, h2⟩
  | _ => simp [AbsL]

theorem AbsLs_iff {H : Bytes → Bytes} {st : Store} {cs : List Node} {lcs : List LNode} :
    AbsLs H st cs lcs ↔ cs.length = lcs.length ∧ ∀ i, i < cs.length → AbsR H st true (cs[i]?.getD .nil) (lcs[i]?.getD .nil) := by
  induction cs generalizing lcs with
  | nil => cases lcs <;> simp [AbsLs]
  | cons c cs ih =>
    cases lcs with
    | nil => simp [AbsLs]
    | cons l ls =>
      simp only [AbsLs, ih, List.length_cons]
      constructor
      · rintro ⟨h0, hl, hi⟩
        refine ⟨by omega, fun i hi' => ?_⟩
        cases i with
        | zero => simpa [AbsR] using h0
        | succ i => simpa using hi i (by omega)
      · rintro ⟨hl, hi⟩
        refine ⟨by simpa [AbsR] using hi 0 (by omega), by omega, fun i hi' => ?_⟩
        simpa using hi (i + 1) (by omega)

theorem AbsL_full {H : Bytes → Bytes} {st : Store} {child : Bool} {cs : List Node} {l : LNode} :
    AbsL H st child (.full cs) l ↔
      ∃ lcs fl, l = .full lcs fl ∧ cs.length = lcs.length ∧
        (∀ i, i < cs.length → AbsR H st true (cs[i]?.getD .nil) (lcs[i]?.getD .nil)) ∧
        FlagOK H st child fl (.full cs) := by
  cases l with
  | full lcs fl =>
    simp only [AbsL, AbsLs_iff, LNode.full.injEq]
    constructor
    · rintro ⟨⟨h1, h2⟩, h3⟩; exact ⟨lcs, fl, ⟨rfl, rfl⟩, h1, h2, h3⟩
    · rintro ⟨lcs', fl', ⟨rfl, rfl⟩, h1, h2, h3⟩; exact ⟨⟨h1, h2⟩, h3⟩
  | _ => simp [AbsL]

theorem AbsL_nil {H : Bytes → Bytes} {st : Store} {child : Bool} {l : LNode} : AbsL H st child .nil l ↔ l = .nil := by
  cases l <;> simp [AbsL]

theorem AbsL_value {H : Bytes → Bytes} {st : Store} {child : Bool} {b : Bytes} {l : LNode} :
    AbsL H st child (.value b) l ↔ l = .value b := by
  cases l <;> simp [AbsL]; exact eq_comm

theorem AbsR_nil {H : Bytes → Bytes} {st : Store} {child : Bool} {l : LNode} : AbsR H st child .nil l ↔ l = .nil := by
  simp only [AbsR, AbsL_nil]
  constructor
  · rintro (h | h)
    · exact h
    · exact absurd h.2.1 not_WF_nil
  · intro h; exact Or.inl h

theorem AbsR_value {H : Bytes → Bytes} {st : Store} {child : Bool} {b : Bytes} {l : LNode} :
    AbsR H st child (.value b) l ↔ l = .value b := by
  simp only [AbsR, AbsL_value]
  constructor
  · rintro (h | h)
    · exact h
    · exact absurd h.2.1 (not_WF_value b)
  · intro h; exact Or.inl h

end Rangers.Trie
