import Rangers.Proofs.ChainStoreOps
/-!
The invariant through `verify`, `removeFromCommonAncestor`, `insertBlock` with its orphan
cascade, `addBlockOnChain` (by induction on the re-entry bound) and `restart`.
-/
namespace Rangers.Proofs.ChainStore
open Rangers.Model.ChainStore

/-- a recoverable disk whose base chain comes from the tree -/
def RecIn (T : Nat → Option Block) (d : Disk) : Prop := ∃ c, RecTo d c ∧ ∀ z ∈ c, T z.hash = some z

/-- outcome of every chain operation: a live node satisfying the invariant for some chain, or a
    dead one on a recoverable disk -/
def Post (T : Nat → Option Block) (s : St) : Prop := Out (fun d m => ∃ c, Inv T d m c) (RecIn T) s

theorem Out.bind {P Q : Disk → Mem → Prop} {R R' : Disk → Prop} {s : St} {f : St → St} (h : Out P R s)
    (hf : Frozen f) (ha : s.crashed = false → P s.disk s.mem → Out Q R' (f s)) (hr : ∀ d, R d → R' d) :
    Out Q R' (f s) := by
  rcases h with ⟨a, p⟩ | ⟨a, r⟩
  · exact ha a p
  · have := hf s a
    exact Out.dead this.1 (by rw [this.2]; exact hr _ r)

theorem RemRec.recIn {T : Nat → Option Block} {c : List Block} {x : Block} {d : Disk}
    (hT : ∀ z ∈ x :: c, T z.hash = some z) (h : RemRec c x d) : RecIn T d := by
  rcases h with h | h
  · exact ⟨c, h, fun z hz => hT z (List.mem_cons_of_mem _ hz)⟩
  · exact ⟨x :: c, Or.inl h, hT⟩

/-! ### `verifyBlock` touches memory only -/

theorem verify_spec {T : Nat → Option Block} {s : St} {b : Block} {c : List Block}
    (inv : Inv T s.disk s.mem c) (hT : T b.hash = some b) :
    (verify s b).1.disk = s.disk ∧ (verify s b).1.crashed = s.crashed ∧
    Inv T s.disk (verify s b).1.mem c ∧ (verify s b).1.mem.latest = s.mem.latest ∧
    ((verify s b).2 = true → (verify s b).1.mem.verified.contains b.hash = true) := by
  unfold verify
  split
  · rename_i hc
    exact ⟨rfl, rfl, inv, rfl, fun _ => hc⟩
  · split
    · refine ⟨rfl, rfl, ⟨inv.chain, inv.latest, inv.cache, ?_, inv.fromT⟩, rfl, by intro h; cases h⟩
      intro k f hk
      have hk' : upd s.mem.future b.pre (some b) k = some f := hk
      rcases upd_eq_some hk' with ⟨e, hv⟩ | ⟨_, hm⟩
      · simp at hv; subst hv; exact ⟨e.symm, hT⟩
      · exact inv.fut k f hm
    · split
      · exact ⟨rfl, rfl, inv, rfl, by intro h; cases h⟩
      · split
        · exact ⟨rfl, rfl, inv, rfl, by intro h; cases h⟩
        · split
          · exact ⟨rfl, rfl, inv, rfl, by intro h; cases h⟩
          · refine ⟨rfl, rfl, ⟨inv.chain, inv.latest, inv.cache, inv.fut, inv.fromT⟩, rfl, ?_⟩
            intro _
            exact contains_lruAdd _ _

/-! ### `removeFromCommonAncestor` -/

theorem lookupHeight_heights {T : Nat → Option Block} {s : St} {c : List Block} (inv : Inv T s.disk s.mem c)
    {h : Nat} {hd : Block} (hl : s.lookupHeight h = some hd) : s.disk.heights h = some hd := by
  unfold St.lookupHeight at hl
  split at hl
  · rename_i x hx
    simp at hl; subst hl
    exact inv.cache h x hx
  · exact hl

theorem lookupHeight_none {s : St} {h : Nat} (hl : s.lookupHeight h = none) : s.disk.heights h = none := by
  unfold St.lookupHeight at hl
  split at hl
  · cases hl
  · exact hl

theorem removeLoop_spec {T : Nat → Option Block} (base : Nat) :
    ∀ (n : Nat) (s : St) (c : List Block), s.crashed = false → Inv T s.disk s.mem c →
      s.mem.latest.height ≤ base + n → Post T (removeLoop base n s) := by
  intro n
  induction n with
  | zero =>
    intro s c ha inv _
    exact Out.alive ha ⟨c, inv⟩
  | succ n ih =>
    intro s c ha inv hb
    unfold removeLoop
    simp only
    obtain ⟨rest, hc⟩ : ∃ rest, c = s.mem.latest :: rest := by
      have := inv.latest
      cases c with
      | nil => simp at this
      | cons z rest => simp at this; subst this; exact ⟨rest, rfl⟩
    have hmem : s.mem.latest ∈ c := by rw [hc]; exact List.mem_cons_self ..
    cases hL : s.lookupHeight (base + n + 1) with
    | none =>
      simp only
      refine ih s c ha inv ?_
      have h1 := lookupHeight_none hL
      have h2 := inv.chain.heights_mem _ hmem
      by_cases e : s.mem.latest.height = base + n + 1
      · rw [e, h1] at h2; cases h2
      · omega
    | some hd =>
      simp only
      have h1 := lookupHeight_heights inv hL
      have h2 := inv.chain.heights_only _ _ h1
      have hle : hd.height ≤ s.mem.latest.height := by
        have := inv.chain.linked
        rw [hc] at this
        exact this.le_head hd (by rw [← hc]; exact h2.1)
      have hlat : s.mem.latest.height = base + n + 1 := by omega
      have h3 := inv.chain.heights_mem _ hmem
      rw [hlat, h1] at h3
      have hhd : hd = s.mem.latest := by simpa using h3
      have hblk : s.disk.blocks hd.hash = some s.mem.latest := by
        rw [hhd]; exact inv.chain.blocks_mem _ hmem
      rw [hblk]
      simp only
      have hrest : rest ≠ [] := by
        intro e
        have := inv.chain.linked
        rw [hc, e] at this
        have : s.mem.latest.height = 0 := this
        omega
      have inv' : Inv T s.disk s.mem (s.mem.latest :: rest) := by rw [← hc]; exact inv
      have hR := remove_spec ha inv' hrest
      refine Out.bind hR (frozen_removeLoop base n) ?_ (fun d r => RemRec.recIn inv'.fromT r)
      intro ha' p
      refine ih _ rest ha' p.1 ?_
      -- the new head is strictly below the removed one
      have hl := p.1.latest
      have hlk := inv'.chain.linked
      cases rest with
      | nil => exact absurd rfl hrest
      | cons y r2 =>
        simp at hl
        have : y.height < s.mem.latest.height := hlk.2.1
        rw [← hl]; omega

theorem removeFrom_spec {T : Nat → Option Block} {s : St} {c : List Block} (anc : Block)
    (ha : s.crashed = false) (inv : Inv T s.disk s.mem c) : Post T (removeFromCommonAncestor s anc) := by
  unfold removeFromCommonAncestor
  exact removeLoop_spec anc.height _ s c ha inv (by omega)

/-! ### `insertBlock` with the orphan cascade, and `addBlockOnChain` -/

theorem insertBlock_spec {T : Nat → Option Block} {s : St} {b y : Block} {c : List Block}
    (cont : St → Block → St) (hfr : ∀ f, Frozen (fun s => cont s f))
    (hcont : ∀ s' f c', s'.crashed = false → Inv T s'.disk s'.mem c' → T f.hash = some f → Post T (cont s' f))
    (ha : s.crashed = false) (inv : Inv T s.disk s.mem c) (hp : b.pre = y.hash) (hy : c.head? = some y)
    (hh : y.height < b.height) (hn : s.disk.blocks b.hash = none) (hT : T b.hash = some b)
    (hv : s.mem.verified.contains b.hash = true) (hfresh : ∀ z ∈ c, ∀ t ∈ b.txs, t ∉ z.txs) :
    Post T (insertBlock cont s b).1 := by
  rw [insertBlock_hit cont s b hv]
  have hAB := insertAB_spec (s := touchVerified s b) ha (touchVerified_inv inv) hp hy hh hn hT hfresh
  have hrec : ∀ d, RecTo d c → RecIn T d := fun d r => ⟨c, r, inv.fromT⟩
  cases hf : (insertB (insertA (touchVerified s b) b) b).mem.future b.hash with
  | none =>
    simp only
    exact hAB.mono (fun d m p => ⟨b :: c, p.1⟩) hrec
  | some f =>
    simp only
    refine Out.bind hAB (hfr f) ?_ hrec
    intro ha' p
    have := p.1.fut _ _ hf
    exact hcont _ f _ ha' p.1 this.2

theorem addCore_post {T : Nat → Option Block} (vt : ValidTree T) :
    ∀ (fuel : Nat) (s : St) (b : Block) (c : List Block), s.crashed = false → Inv T s.disk s.mem c →
      T b.hash = some b → Post T (addCore fuel s b).1 := by
  intro fuel
  induction fuel with
  | zero =>
    intro s b c ha inv _
    exact Out.alive ha ⟨c, inv⟩
  | succ fuel ih =>
    intro s b c ha inv hT
    unfold addCore
    simp only
    split
    · exact Out.alive ha ⟨c, inv⟩
    · rename_i hex
      have hnb : s.disk.blocks b.hash = none := by
        cases hb : s.disk.blocks b.hash with
        | none => rfl
        | some z => exact absurd (Or.inr (by simp [hb])) hex
      have vs := verify_spec inv hT
      split
      · rename_i s1 heq
        have e : (verify s b).1 = s1 := by rw [heq]
        rw [← e]
        exact Out.alive (by rw [vs.2.1]; exact ha) ⟨c, by rw [vs.1]; exact vs.2.2.1⟩
      · rename_i s1 heq
        have e : (verify s b).1 = s1 := by rw [heq]
        have e2 : (verify s b).2 = true := by rw [heq]
        rw [e] at vs
        have ha1 : s1.crashed = false := by rw [vs.2.1]; exact ha
        have inv1 : Inv T s1.disk s1.mem c := by rw [vs.1]; exact vs.2.2.1
        have hver := vs.2.2.2.2 e2
        split
        · rename_i hpre
          have hy : c.head? = some s.mem.latest := inv.latest
          have hmemc : s.mem.latest ∈ c := by
            cases c with
            | nil => simp at hy
            | cons z r => simp at hy; subst hy; exact List.mem_cons_self ..
          have hTy := inv.fromT _ hmemc
          have hval := vt.parent b s.mem.latest hT (by rw [hpre]; exact hTy)
          exact insertBlock_spec (fun s f => (addCore fuel s f).1) (fun f => frozen_addCore fuel f)
            (fun s' f c' ha' inv' hTf => ih s' f c' ha' inv' hTf) ha1 inv1 hpre hy hval.1
            (by rw [vs.1]; exact hnb) hT hver (fresh_on_chain vt inv.chain.linked inv.fromT hy hpre hT)
        · split
          · exact Out.alive ha1 ⟨c, inv1⟩
          · split
            · exact Out.alive ha1 ⟨c, inv1⟩
            · rename_i anc _
              have hrm := removeFrom_spec anc ha1 inv1
              have reentry : Post T (addCore fuel (removeFromCommonAncestor s1 anc) b).1 := by
                refine Out.bind hrm (frozen_addCore fuel b) ?_ (fun _ r => r)
                intro ha2 p
                obtain ⟨c2, inv2⟩ := p
                exact ih _ b c2 ha2 inv2 hT
              split
              · exact reentry
              · split
                · exact Out.alive ha1 ⟨c, inv1⟩
                · split
                  · exact Out.alive ha1 ⟨c, inv1⟩
                  · exact reentry

/-- the exported `AddBlockOnChain` -/
theorem addBlock_post {T : Nat → Option Block} (vt : ValidTree T) (fuel : Nat) (s : St) (b : Block) (c : List Block)
    (ha : s.crashed = false) (inv : Inv T s.disk s.mem c) (hT : T b.hash = some b) :
    Post T (addBlock fuel s b).1 := by
  unfold addBlock
  split
  · refine Out.alive ha ⟨c, inv.chain, inv.latest, inv.cache, ?_, inv.fromT⟩
    intro k f hk
    have hk' : upd s.mem.future b.pre (some b) k = some f := hk
    rcases upd_eq_some hk' with ⟨e, hv⟩ | ⟨_, hm⟩
    · simp at hv; subst hv; exact ⟨e.symm, hT⟩
    · exact inv.fut k f hm
  · split
    · exact Out.alive ha ⟨c, inv⟩
    · exact addCore_post vt fuel s b c ha inv hT


/-! ### start-up repair -/

theorem frozen_repairAdd : Frozen repairAdd := by
  intro s h
  unfold repairAdd
  split
  · rename_i b _
    have a := frozen_remove b s h
    have c := frozen_write .delAddMark _ a.1
    exact ⟨c.1, c.2.trans a.2⟩
  · exact ⟨h, rfl⟩

theorem frozen_repairRemove : Frozen repairRemove := by
  intro s h
  unfold repairRemove
  split
  · rename_i b _
    have a := frozen_remove b s h
    have c := frozen_write .delRemoveMark _ a.1
    exact ⟨c.1, c.2.trans a.2⟩
  · exact ⟨h, rfl⟩

theorem ChainInv.delRemoveMark {d : Disk} {c : List Block} (ci : ChainInv d c) : ChainInv (d.apply .delRemoveMark) c :=
  { ci with noRemove := rfl }

/-- state between the two halves of `ensureChainConsistency` -/
def MidRepair (c : List Block) (d : Disk) (m : Mem) : Prop :=
  (ChainInv d c ∧ c.head? = some m.latest) ∨ (∃ x, Pending d c x ∧ d.addMark = none)

theorem repairAdd_spec {s : St} {c : List Block} (ha : s.crashed = false) (hr : RecTo s.disk c)
    (hl : s.disk.current = some s.mem.latest) :
    Out (fun d m => MidRepair c d m ∧ m.future = s.mem.future) (fun d => RecTo d c) (repairAdd s) := by
  unfold repairAdd
  rcases hr with ci | ⟨x, p⟩
  · rw [ci.noAdd]
    exact Out.alive ha ⟨Or.inl ⟨ci, by rw [← ci.cur]; exact hl⟩, rfl⟩
  · rcases p.addMark with hn | hs
    · rw [hn]
      exact Out.alive ha ⟨Or.inr ⟨x, p, hn⟩, rfl⟩
    · rw [hs]
      simp only
      have hc := remove_core (am := some x) (R := fun d => RecTo d c) ha (Or.inr ⟨p, hs⟩) (Or.inr ⟨x, p⟩) (fun _ r => r)
      refine hc.write .delAddMark ?_ ?_
      · intro d m q
        obtain ⟨⟨d4, st, hx4, hd⟩, ⟨y, hy, hlat⟩, _, hfut, _, _⟩ := q
        subst hd
        exact ⟨Or.inl ⟨st.finish_add hx4, by rw [hy, hlat]⟩, hfut⟩
      · intro d m q
        obtain ⟨⟨d4, st, _, hd⟩, _⟩ := q
        subst hd
        exact Or.inr ⟨x, st.mid⟩

theorem repairRemove_spec {s : St} {c : List Block} (ha : s.crashed = false) (hm : MidRepair c s.disk s.mem) :
    Out (fun d m => ChainInv d c ∧ c.head? = some m.latest ∧ m.future = s.mem.future) (fun d => RecTo d c)
      (repairRemove s) := by
  unfold repairRemove
  rcases hm with ⟨ci, hl⟩ | ⟨x, p, hn⟩
  · rw [ci.noRemove]
    exact Out.alive ha ⟨ci, hl, rfl⟩
  · have hrm : s.disk.removeMark = some x := by
      rcases p.marked with h | h
      · rw [hn] at h; cases h
      · exact h
    rw [hrm]
    simp only
    have hc := remove_core (am := none) (R := fun d => RecTo d c) ha (Or.inr ⟨p, hn⟩) (Or.inr ⟨x, p⟩) (fun _ r => r)
    refine hc.write .delRemoveMark ?_ ?_
    · intro d m q
      obtain ⟨⟨d4, st, hx4, hd⟩, ⟨y, hy, hlat⟩, _, hfut, _, _⟩ := q
      subst hd
      exact ⟨(st.finish hx4).delRemoveMark, by rw [hy, hlat], hfut⟩
    · intro d m q
      obtain ⟨⟨d4, st, hx4, hd⟩, _⟩ := q
      subst hd
      exact Or.inl (st.finish hx4)

theorem ite_some_of {α : Type} {p : Prop} [Decidable p] {a : Option α} {z : α}
    (h : (if p then a else none) = some z) : a = some z := by
  by_cases hp : p
  · simpa [hp] using h
  · simp [hp] at h

theorem restart_tail {T : Nat → Option Block} {c : List Block} (hT : ∀ z ∈ c, T z.hash = some z) (s3 : St)
    (h2 : Out (fun d m => ChainInv d c ∧ c.head? = some m.latest ∧ m.future = fun _ => none) (fun d => RecTo d c) s3) :
    Out (fun d m => Inv T d m c) (fun d => RecTo d c)
      (if !(s3.disk.roots s3.mem.latest.hash) then (s3, RestartRes.panic) else (buildCache s3, RestartRes.ok)).1 ∧
    ((if !(s3.disk.roots s3.mem.latest.hash) then (s3, RestartRes.panic) else (buildCache s3, RestartRes.ok)).1.crashed = false →
      (if !(s3.disk.roots s3.mem.latest.hash) then (s3, RestartRes.panic) else (buildCache s3, RestartRes.ok)).2 = .ok) := by
  rcases h2 with ⟨alive, ci, hl, hf⟩ | ⟨dead, r⟩
  · have hmemc : s3.mem.latest ∈ c := by
      cases c with
      | nil => simp at hl
      | cons z r => simp at hl; subst hl; exact List.mem_cons_self ..
    have hroot := ci.roots _ hmemc
    rw [hroot]
    simp only [Bool.not_true, Bool.false_eq_true, if_false]
    refine ⟨Out.alive alive ⟨ci, hl, ?_, ?_, hT⟩, by intros; first | rfl | trivial⟩
    · intro k z hk
      show s3.disk.heights k = some z
      exact ite_some_of hk
    · intro k f hk
      change s3.mem.future k = some f at hk
      rw [hf] at hk
      cases hk
  · split
    · exact ⟨Out.dead dead r, fun h => by rw [dead] at h; cases h⟩
    · exact ⟨Out.dead dead r, fun h => by simp [buildCache, dead] at h⟩

/-- `restart` on a disk recoverable to chain `c`: a live node on exactly `c`, or (death during
    the repair) a disk that is again recoverable to `c`. It never panics and never reports `fresh`. -/
theorem restart_spec {T : Nat → Option Block} {s : St} {c : List Block} (ha : s.crashed = false)
    (hr : RecTo s.disk c) (hT : ∀ z ∈ c, T z.hash = some z) :
    Out (fun d m => Inv T d m c) (fun d => RecTo d c) (restart s).1 ∧
    ((restart s).1.crashed = false → (restart s).2 = .ok) := by
  have hcur : ∃ cur, s.disk.current = some cur := by
    rcases hr with ci | ⟨x, p⟩
    · have := ci.linked.ne_nil
      cases c with
      | nil => exact absurd rfl this
      | cons z r => exact ⟨z, by rw [ci.cur]; rfl⟩
    · rcases p.cur with h | h
      · have := p.linked.ne_nil
        cases c with
        | nil => exact absurd rfl this
        | cons z r => exact ⟨z, by rw [h]; rfl⟩
      · exact ⟨x, h⟩
  obtain ⟨cur, hcur⟩ := hcur
  unfold restart
  rw [hcur]
  simp only
  let s1 := s.setMem { latest := cur, top := fun _ => none, verified := [], future := fun _ => none, pending := [] }
  have ha1 : s1.crashed = false := ha
  have h1 := repairAdd_spec (s := s1) ha1 hr hcur
  have h2 : Out (fun d m => ChainInv d c ∧ c.head? = some m.latest ∧ m.future = fun _ => none) (fun d => RecTo d c)
      (repairRemove (repairAdd s1)) := by
    refine Out.bind h1 frozen_repairRemove ?_ (fun _ r => r)
    intro ha2 p
    refine (repairRemove_spec ha2 p.1).mono ?_ (fun _ r => r)
    intro d m q
    exact ⟨q.1, q.2.1, by rw [q.2.2, p.2]; rfl⟩
  exact restart_tail hT _ h2

end Rangers.Proofs.ChainStore
