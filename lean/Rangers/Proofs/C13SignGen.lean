import Rangers.Proofs.C13RecoverMap
import Rangers.Proofs.C13Dkg
/-! `GroupSignGenerator`: whatever the arrival order, repeats and late arrivals, once `k` distinct
    honest members have been heard the stored group signature is `f(0)•h`. -/
namespace Rangers.Proofs.C13
open Polynomial Rangers.Model.Shamir

variable {r : Nat} {G : Type}

/-- With exactly `k` entries neither the first iteration order nor the draws are used. -/
theorem recoverGroupSignature_eq_len (ops : Ops G) (k : Nat) (m : List (Nat × Option G)) (hk : m.length = k)
    (c : Choice (Nat × Option G)) :
    recoverGroupSignature ops r k m c = recoverGroupSignature ops r k m ⟨id, List.replicate k 0, c.ord2⟩ := by
  unfold recoverGroupSignature
  simp [hk]

theorem admissible_of_ord2 (k : Nat) (c : Choice (Nat × Option G)) (h2 : ∀ l, (c.ord2 l).Perm l) :
    Admissible (⟨id, List.replicate k 0, c.ord2⟩ : Choice (Nat × Option G)) k k :=
  ⟨fun l => List.Perm.refl l, h2, by simp, fun i hi => by simp [List.getD, List.getElem?_replicate, hi]⟩

/-- Invariant of a generator fed with the honest shares `sig id` (any point type `M`). -/
structure GenInv {M : Type} (k : Nat) (sig : Nat → M) (target : M) (st : SignGen M) : Prop where
  hk : st.k = k
  cases : st.groupSign = some target ∨
    (st.groupSign = none ∧ st.witnesses.length < k ∧ (st.witnesses.map Prod.fst).Nodup ∧
      ∀ e ∈ st.witnesses, e.2 = some (sig e.1))

theorem feed_inv {M : Type} (ops : Ops M) (r : Nat) (isValid : M → Bool)
    (k : Nat) (hk0 : 0 < k) (sig : Nat → M) (t : M)
    (hrec : ∀ ids : List Nat, ids.length = k → IdsDistinct r ids →
      recoverWith ops r ids (ids.map sig) = .ok (some t))
    (hval : isValid t = true) :
    ∀ (arr : List (Nat × Option M × Choice (Nat × Option M))) (st : SignGen M),
      GenInv k sig t st →
      (∀ a ∈ arr, a.2.1 = some (sig a.1) ∧ ∀ l, (a.2.2.ord2 l).Perm l) →
      (∀ x ∈ st.witnesses.map Prod.fst ++ arr.map (·.1), ∀ y ∈ st.witnesses.map Prod.fst ++ arr.map (·.1),
          x % r = y % r → x = y) →
      ∃ st', feed ops r isValid st arr = .ok st' ∧ GenInv k sig t st' ∧
        (st'.groupSign = none → ∀ x ∈ st.witnesses.map Prod.fst ++ arr.map (·.1), x ∈ st'.witnesses.map Prod.fst) := by
  intro arr
  induction arr with
  | nil => intro st hinv _ _; exact ⟨st, rfl, hinv, fun _ x hx => by simpa using hx⟩
  | cons a arr ih =>
    intro st hinv hhon hmod
    obtain ⟨x, sg, c⟩ := a
    obtain ⟨hsg, hc2⟩ := hhon (x, sg, c) (by simp)
    simp only at hsg hc2
    have hhon' : ∀ a ∈ arr, a.2.1 = some (sig a.1) ∧ ∀ l, (a.2.2.ord2 l).Perm l :=
      fun a ha => hhon a (by simp [ha])
    rcases hinv.cases with hrec | ⟨hnone, hlen, hnd, hw⟩
    · -- already recovered: nothing changes
      have hsr : signRecovered isValid st = true := by simp [signRecovered, hrec, hval]
      have hstep : addWitnessSign ops r isValid st x sg c = .ok (st, false, true) := by
        simp [addWitnessSign, hsr]
      obtain ⟨st', hf, hinv', hall⟩ := ih st hinv hhon' (fun p hp q hq => hmod p (by
        simp only [List.map_cons, List.mem_append, List.mem_cons] at hp ⊢; tauto) q (by
        simp only [List.map_cons, List.mem_append, List.mem_cons] at hq ⊢; tauto))
      refine ⟨st', by simp [feed, hstep, hf], hinv', fun hn => ?_⟩
      -- a recovered signature is never cleared
      exfalso
      rcases hinv'.cases with h1 | ⟨h1, _⟩
      · rw [h1] at hn; cases hn
      · -- st' not recovered although st was: impossible since feed on a recovered state is the identity
        have : ∀ (arr : List (Nat × Option M × Choice (Nat × Option M))), feed ops r isValid st arr = .ok st := by
          intro arr; induction arr with
          | nil => rfl
          | cons b arr ihb =>
            obtain ⟨y, sg', c'⟩ := b
            have : addWitnessSign ops r isValid st y sg' c' = .ok (st, false, true) := by
              simp [addWitnessSign, hsr]
            simp [feed, this, ihb]
        rw [this arr] at hf
        injection hf with hf
        subst hf
        rw [hrec] at h1; cases h1
    · have hsr : signRecovered isValid st = false := by simp [signRecovered, hnone]
      by_cases hmem : st.witnesses.any (fun e => e.1 == x) = true
      · -- repeated sender: dropped
        have hstep : addWitnessSign ops r isValid st x sg c = .ok (st, false, false) := by
          simp [addWitnessSign, hsr, hmem]
        have hx : x ∈ st.witnesses.map Prod.fst := by
          simp only [List.any_eq_true, beq_iff_eq] at hmem
          obtain ⟨e, he, hex⟩ := hmem
          exact List.mem_map.2 ⟨e, he, hex⟩
        obtain ⟨st', hf, hinv', hall⟩ := ih st hinv hhon' (fun p hp q hq => hmod p (by
          simp only [List.map_cons, List.mem_append, List.mem_cons] at hp ⊢; tauto) q (by
          simp only [List.map_cons, List.mem_append, List.mem_cons] at hq ⊢; tauto))
        refine ⟨st', by simp [feed, hstep, hf], hinv', fun hn p hp => ?_⟩
        simp only [List.map_cons, List.mem_append, List.mem_cons] at hp
        rcases hp with hp | hp | hp
        · exact hall hn p (by simp [hp])
        · subst hp; exact hall hn _ (by simp [hx])
        · exact hall hn p (by simp only [List.mem_append]; exact Or.inr hp)
      · have hmem' : st.witnesses.any (fun e => e.1 == x) = false := Bool.eq_false_iff.mpr hmem
        have hxn : x ∉ st.witnesses.map Prod.fst := by
          intro hx
          obtain ⟨e, he, hex⟩ := List.mem_map.1 hx
          have : st.witnesses.any (fun e => e.1 == x) = true := by
            simp only [List.any_eq_true, beq_iff_eq]; exact ⟨e, he, hex⟩
          rw [this] at hmem'; cases hmem'
        have hnd' : ((st.witnesses ++ [(x, sg)]).map Prod.fst).Nodup := by
          simp only [List.map_append, List.map_cons, List.map_nil]
          refine List.nodup_append.2 ⟨hnd, List.nodup_singleton x, ?_⟩
          intro p hp q hq hpq
          simp only [List.mem_singleton] at hq
          subst hq; subst hpq; exact hxn hp
        have hw' : ∀ e ∈ st.witnesses ++ [(x, sg)], e.2 = some (sig e.1) := by
          intro e he
          rcases List.mem_append.1 he with he | he
          · exact hw e he
          · simp only [List.mem_singleton] at he; subst he; exact hsg
        by_cases hreach : st.k ≤ (st.witnesses ++ [(x, sg)]).length
        · -- the k-th distinct share arrives: recover from exactly these k
          have hlenk : (st.witnesses ++ [(x, sg)]).length = k := by
            have := hinv.hk; simp only [List.length_append, List.length_singleton] at hreach ⊢; omega
          have hdist : IdsDistinct r ((st.witnesses ++ [(x, sg)]).map Prod.fst) := by
            unfold IdsDistinct
            refine List.Nodup.map_on ?_ hnd'
            intro p hp q hq hpq
            refine hmod p ?_ q ?_ hpq <;>
              · simp only [List.map_append, List.map_cons, List.map_nil, List.mem_append, List.mem_singleton,
                  List.mem_cons] at hp hq ⊢
                tauto
          have hrecv : recoverGroupSignature ops r st.k (st.witnesses ++ [(x, sg)]) c = .ok (some t) := by
            rw [hinv.hk, recoverGroupSignature_eq_len ops k _ hlenk c]
            have hadm := admissible_of_ord2 (G := M) k c hc2
            exact recoverGroupSignature_of_recoverWith ops r k hk0 sig t hrec (st.witnesses ++ [(x, sg)])
              (by omega) hdist hw' ⟨id, List.replicate k 0, c.ord2⟩ (by rw [hlenk]; exact hadm)
          have hstep : addWitnessSign ops r isValid st x sg c =
              .ok (⟨st.k, st.witnesses ++ [(x, sg)], some t⟩, true, true) := by
            unfold addWitnessSign
            rw [hsr, hmem']
            simp only [Bool.false_eq_true, if_false]
            rw [if_pos hreach, hrecv]
          have hinv1 : GenInv k sig t ⟨st.k, st.witnesses ++ [(x, sg)], some t⟩ :=
            ⟨hinv.hk, Or.inl rfl⟩
          obtain ⟨st', hf, hinv', hall⟩ := ih _ hinv1 hhon' (fun p hp q hq => hmod p (by
            simp only [List.map_append, List.map_cons, List.map_nil, List.mem_append, List.mem_cons, List.mem_singleton] at hp ⊢; tauto) q (by
            simp only [List.map_append, List.map_cons, List.map_nil, List.mem_append, List.mem_cons, List.mem_singleton] at hq ⊢; tauto))
          refine ⟨st', by simp [feed, hstep, hf], hinv', fun hn p hp => ?_⟩
          apply hall hn p
          simp only [List.map_append, List.map_cons, List.map_nil, List.mem_append, List.mem_cons, List.mem_singleton] at hp ⊢
          tauto
        · have hstep : addWitnessSign ops r isValid st x sg c =
              .ok (⟨st.k, st.witnesses ++ [(x, sg)], st.groupSign⟩, true, false) := by
            unfold addWitnessSign
            rw [hsr, hmem']
            simp only [Bool.false_eq_true, if_false]
            rw [if_neg hreach]
          have hinv1 : GenInv k sig t ⟨st.k, st.witnesses ++ [(x, sg)], st.groupSign⟩ :=
            ⟨hinv.hk, Or.inr ⟨hnone, by have := hinv.hk; show (st.witnesses ++ [(x, sg)]).length < k; omega, hnd', hw'⟩⟩
          obtain ⟨st', hf, hinv', hall⟩ := ih _ hinv1 hhon' (fun p hp q hq => hmod p (by
            simp only [List.map_append, List.map_cons, List.map_nil, List.mem_append, List.mem_cons, List.mem_singleton] at hp ⊢; tauto) q (by
            simp only [List.map_append, List.map_cons, List.map_nil, List.mem_append, List.mem_cons, List.mem_singleton] at hq ⊢; tauto))
          refine ⟨st', by simp [feed, hstep, hf], hinv', fun hn p hp => ?_⟩
          apply hall hn p
          simp only [List.map_append, List.map_cons, List.map_nil, List.mem_append, List.mem_cons, List.mem_singleton] at hp ⊢
          tauto

end Rangers.Proofs.C13
