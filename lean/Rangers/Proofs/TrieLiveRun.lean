import Rangers.Proofs.TrieLiveSim
import Rangers.Proofs.TrieYPRoot
/- Run-level simulation; a height bound for the iteration fuel from the key sizes in the history. -/
namespace Rangers.Trie
open Rangers

theorem nrun_state (H : Bytes → Bytes) (t : Node) (ops : List Op) : (nrun H t ops).1 = ops.foldl applyOp t := by
  induction ops generalizing t with
  | nil => rfl
  | cons op ops ih =>
    simp only [nrun, List.foldl_cons]
    rw [ih]
    cases op <;> rfl

theorem nrun_nil_state (H : Bytes → Bytes) (ops : List Op) : (nrun H .nil ops).1 = run ops := nrun_state H .nil ops

/-- the live machine and the loaded machine make the same observations along a history, as long
    as the iteration fuel covers the height of every intermediate trie -/
theorem lrun_sim {H : Bytes → Bytes} {U : Node → Prop} (hok : HashOK H U) (F : Nat) (ops : List Op) :
    ∀ (lt : LTrie) (t : Node), Sim H U lt t →
      (∀ pre, pre <+: ops → U (pre.foldl applyOp t)) →
      (∀ pre, pre <+: ops → 2 * height (pre.foldl applyOp t) + 2 ≤ F) →
      (∀ pre, pre <+: ops → (enc H (pre.foldl applyOp t)).length < 256 ^ 8) →
      (lrun H F lt ops).2 = (nrun H t ops).2 ∧ Sim H U (lrun H F lt ops).1 (nrun H t ops).1 := by
  induction ops with
  | nil => intro lt t h _ _ _; exact ⟨rfl, h⟩
  | cons op ops ih =>
    intro lt t h hUs hF hS
    obtain ⟨ho, hs⟩ := sim_step hok F h (by simpa using hF [] List.nil_prefix)
      (by simpa using hS [] List.nil_prefix) (by simpa using hUs [] List.nil_prefix) op
    have hst : (nstep H t op).1 = applyOp t op := by cases op <;> rfl
    obtain ⟨ro, rs⟩ := ih _ _ hs (fun pre hp => by
      have := hUs (op :: pre) (by simpa [List.cons_prefix_cons] using hp)
      simpa [hst] using this) (fun pre hp => by
      have := hF (op :: pre) (by simpa [List.cons_prefix_cons] using hp)
      simpa [hst] using this) (fun pre hp => by
      have := hS (op :: pre) (by simpa [List.cons_prefix_cons] using hp)
      simpa [hst] using this)
    simp only [lrun, nrun]
    exact ⟨by rw [ho, ro], rs⟩

/-! ### the universe of a history: every node of every intermediate trie -/

mutual
def subnodes : Node → List Node
  | .nil => [.nil]
  | .value b => [.value b]
  | .short k v => .short k v :: subnodes v
  | .full cs => .full cs :: subnodesL cs
def subnodesL : List Node → List Node
  | [] => []
  | c :: cs => subnodes c ++ subnodesL cs
end

theorem self_mem_subnodes (t : Node) : t ∈ subnodes t := by
  cases t <;> simp [subnodes]

theorem mem_subnodesL {cs : List Node} {x : Node} : x ∈ subnodesL cs ↔ ∃ c ∈ cs, x ∈ subnodes c := by
  induction cs with
  | nil => simp [subnodesL]
  | cons c cs ih => simp [subnodesL, ih]

theorem subnodes_trans (b : Node) : ∀ a x, a ∈ subnodes b → x ∈ subnodes a → x ∈ subnodes b := by
  induction b using Node.induct with
  | hnil => intro a x ha hx; simp [subnodes] at ha; subst ha; exact hx
  | hval v => intro a x ha hx; simp [subnodes] at ha; subst ha; exact hx
  | hshort k v ih =>
    intro a x ha hx
    simp only [subnodes, List.mem_cons] at ha
    rcases ha with rfl | ha
    · exact hx
    · simp only [subnodes, List.mem_cons]; right; exact ih a x ha hx
  | hfull cs ih =>
    intro a x ha hx
    simp only [subnodes, List.mem_cons] at ha
    rcases ha with rfl | ha
    · exact hx
    · obtain ⟨c, hc, hac⟩ := mem_subnodesL.mp ha
      simp only [subnodes, List.mem_cons]; right
      exact mem_subnodesL.mpr ⟨c, hc, ih c hc a x hac hx⟩

/-- the nodes that occur in the history: all nodes of all intermediate tries (a finite set) -/
def Occurs (ops : List Op) (t : Node) : Prop := ∃ pre, pre <+: ops ∧ t ∈ subnodes (run pre)

theorem occurs_run {ops pre : List Op} (h : pre <+: ops) : Occurs ops (run pre) := ⟨pre, h, self_mem_subnodes _⟩

theorem closedU_occurs (ops : List Op) : ClosedU (Occurs ops) := by
  constructor
  · rintro k v ⟨pre, hp, hm⟩
    exact ⟨pre, hp, subnodes_trans _ _ _ hm (by simp [subnodes, self_mem_subnodes])⟩
  · rintro cs ⟨pre, hp, hm⟩ c hc
    refine ⟨pre, hp, subnodes_trans _ _ _ hm ?_⟩
    simp only [subnodes, List.mem_cons]; right
    exact mem_subnodesL.mpr ⟨c, hc, self_mem_subnodes c⟩

/-! ### a height bound from the key sizes in the history -/

def maxKeyBytes : List Op → Nat
  | [] => 0
  | .upd k _ :: ops => max k.length (maxKeyBytes ops)
  | _ :: ops => maxKeyBytes ops

theorem finalMap_written (ops : List Op) (m : Bytes → Option Bytes) (k v : Bytes)
    (h : ops.foldl specStep m k = some v) : m k = some v ∨ ∃ v', Op.upd k v' ∈ ops := by
  induction ops generalizing m with
  | nil => exact Or.inl h
  | cons op ops ih =>
    simp only [List.foldl_cons] at h
    rcases ih _ h with h1 | ⟨v', hv'⟩
    · cases op with
      | upd k' v' =>
        simp only [specStep] at h1
        by_cases hk : k = k'
        · subst hk; exact Or.inr ⟨v', by simp⟩
        · simp only [hk, if_false] at h1; exact Or.inl h1
      | del k' =>
        simp only [specStep] at h1
        by_cases hk : k = k'
        · simp [hk] at h1
        · simp only [hk, if_false] at h1; exact Or.inl h1
      | _ => exact Or.inl h1
    · exact Or.inr ⟨v', by simp [hv']⟩

theorem length_le_maxKeyBytes (ops : List Op) (k v : Bytes) (h : Op.upd k v ∈ ops) : k.length ≤ maxKeyBytes ops := by
  induction ops with
  | nil => simp at h
  | cons op ops ih =>
    cases h with
    | head => simp [maxKeyBytes]; exact Nat.le_max_left _ _
    | tail _ h' =>
      have := ih h'
      cases op <;> simp only [maxKeyBytes] <;> first | exact this | exact Nat.le_trans this (Nat.le_max_right _ _)

theorem length_hexOfBytes (k : Bytes) : (hexOfBytes k).length = 2 * k.length := by
  induction k with
  | nil => rfl
  | cons b k ih => simp [hexOfBytes, ih]; omega

theorem height_run_le (ops : List Op) : height (run ops) ≤ 2 * maxKeyBytes ops + 2 := by
  rcases (represents_run ops).wf with h | hwf
  · rw [h]; simp [height]
  · obtain ⟨e, he, hle⟩ := height_le_some_path _ hwf
    obtain ⟨k, hk, hm⟩ := iter_keys_are_byte_keys (represents_run ops) he
    rcases finalMap_written ops _ k e.2 hm with h0 | ⟨v', hv'⟩
    · cases h0
    · have := length_le_maxKeyBytes ops k v' hv'
      rw [hk] at hle
      simp only [keybytesToHex, List.length_append, length_hexOfBytes, List.length_singleton] at hle
      omega

theorem maxKeyBytes_prefix {pre ops : List Op} (h : pre <+: ops) : maxKeyBytes pre ≤ maxKeyBytes ops := by
  obtain ⟨suf, rfl⟩ := h
  induction pre with
  | nil => simp [maxKeyBytes]
  | cons op pre ih =>
    cases op <;> simp only [List.cons_append, maxKeyBytes] <;> first | exact ih | omega

end Rangers.Trie
