import Rangers.Model.Bls14Text
import Rangers.Proofs.Bls14Bytes
/-!
Helper lemmas for the textual encodings: printing and scanning base-16 digits.
-/
namespace Rangers.Proofs.Bls14
open Rangers Rangers.Model.Bls14

theorem hexVal_hexDigit (d : Nat) (h : d < 16) : hexVal? (hexDigit d) = some d := by
  have : ∀ d : Fin 16, hexVal? (hexDigit d.val) = some d.val := by decide
  exact this ⟨d, h⟩

/-- No hex digit is a sign character. -/
theorem hexDigit_not_sign (d : Nat) (h : d < 16) : hexDigit d ≠ '+' ∧ hexDigit d ≠ '-' := by
  have : ∀ d : Fin 16, hexDigit d.val ≠ '+' ∧ hexDigit d.val ≠ '-' := by decide
  exact this ⟨d, h⟩

/-- Scanning a string made of the digits `ds` (values < 16) followed by nothing. -/
def digitsVal (ds : List Nat) (acc : Nat) : Nat := ds.foldl (fun a d => a * 16 + d) acc

theorem scanHex_digits (ds : List Nat) (hd : ∀ d ∈ ds, d < 16) (acc k : Nat) :
    scanHex (ds.map hexDigit) acc k = (digitsVal ds acc, k + ds.length, []) := by
  induction ds generalizing acc k with
  | nil => simp [scanHex, digitsVal]
  | cons d ds ih =>
    simp only [List.map_cons, scanHex, hexVal_hexDigit d (hd d (by simp))]
    rw [ih (fun x hx => hd x (by simp [hx]))]
    simp [digitsVal, Nat.add_assoc, Nat.add_comm 1]

/-- Numeric digits of `n`, as `natHexAux` produces them. -/
def natDigitsAux : Nat → Nat → List Nat → List Nat
  | 0, _, acc => acc
  | f + 1, n, acc => if n < 16 then n :: acc else natDigitsAux f (n / 16) (n % 16 :: acc)

theorem natHexAux_eq (f n : Nat) (acc : List Nat) :
    natHexAux f n (acc.map hexDigit) = (natDigitsAux f n acc).map hexDigit := by
  induction f generalizing n acc with
  | zero => rfl
  | succ f ih =>
    simp only [natHexAux, natDigitsAux]
    split
    · simp
    · rw [← List.map_cons, ih]

theorem natDigitsAux_lt (f n : Nat) (acc : List Nat) (ha : ∀ d ∈ acc, d < 16) :
    ∀ d ∈ natDigitsAux f n acc, d < 16 := by
  induction f generalizing n acc with
  | zero => simpa [natDigitsAux] using ha
  | succ f ih =>
    simp only [natDigitsAux]
    split
    · next h => intro d hd; simp at hd; rcases hd with rfl | hd; exact h; exact ha d hd
    · apply ih
      intro d hd; simp at hd; rcases hd with rfl | hd
      · exact Nat.mod_lt _ (by decide)
      · exact ha d hd

theorem digitsVal_append (a b : List Nat) (acc : Nat) :
    digitsVal (a ++ b) acc = digitsVal b (digitsVal a acc) := by
  simp [digitsVal, List.foldl_append]

theorem digitsVal_acc (ds : List Nat) (acc : Nat) :
    digitsVal ds acc = acc * 16 ^ ds.length + digitsVal ds 0 := by
  induction ds generalizing acc with
  | nil => simp [digitsVal]
  | cons d ds ih =>
    simp only [digitsVal, List.foldl_cons, List.length_cons] at ih ⊢
    rw [ih (acc * 16 + d), ih (0 * 16 + d), Nat.pow_succ]
    simp only [Nat.zero_mul, Nat.zero_add]
    rw [Nat.add_mul, Nat.mul_assoc, Nat.mul_comm 16, Nat.add_assoc]

theorem natDigitsAux_val (f n : Nat) (acc : List Nat) (h : n < f) :
    digitsVal (natDigitsAux f n acc) 0 = n * 16 ^ acc.length + digitsVal acc 0 := by
  induction f generalizing n acc with
  | zero => omega
  | succ f ih =>
    simp only [natDigitsAux]
    split
    · show digitsVal (n :: acc) 0 = _
      rw [show n :: acc = [n] ++ acc by rfl, digitsVal_append, digitsVal_acc]
      simp [digitsVal]
    · next h16 =>
      have hlt : n / 16 < f := by
        have : n / 16 < n := Nat.div_lt_self (by omega) (by decide)
        omega
      rw [ih _ _ hlt]
      rw [show n % 16 :: acc = [n % 16] ++ acc by rfl, digitsVal_append, digitsVal_acc acc]
      simp only [List.length_append, List.length_singleton, digitsVal, List.foldl_cons, List.foldl_nil,
        Nat.zero_mul, Nat.zero_add]
      have := Nat.div_add_mod n 16
      rw [Nat.add_comm 1, Nat.pow_succ]
      calc n / 16 * (16 ^ acc.length * 16) + (n % 16 * 16 ^ acc.length + List.foldl (fun a d => a * 16 + d) 0 acc)
          = (16 * (n / 16) + n % 16) * 16 ^ acc.length + List.foldl (fun a d => a * 16 + d) 0 acc := by
            rw [Nat.add_mul, Nat.mul_comm (16 ^ acc.length) 16, ← Nat.mul_assoc, Nat.mul_comm (n / 16) 16,
              Nat.add_assoc]
        _ = _ := by rw [this]

/-- `SetString(Text(16))` gives the number back, for every number. -/
theorem scanHex_natHex (n : Nat) : (scanHex (natHex n) 0 0).1 = n ∧ (scanHex (natHex n) 0 0).2.2 = [] := by
  unfold natHex
  have e := natHexAux_eq (n + 1) n []
  simp only [List.map_nil] at e
  rw [e, scanHex_digits _ (natDigitsAux_lt _ _ _ (by simp))]
  have := natDigitsAux_val (n + 1) n [] (by omega)
  simp [digitsVal] at this
  exact ⟨by simpa [digitsVal] using this, rfl⟩

/-- The printed number starts with a hex digit (never empty, never a sign). -/
theorem natHex_head (n : Nat) : ∃ d cs, d < 16 ∧ natHex n = hexDigit d :: cs := by
  unfold natHex
  have e := natHexAux_eq (n + 1) n []
  simp only [List.map_nil] at e
  rw [e]
  have hlt := natDigitsAux_lt (n + 1) n [] (by simp)
  have hne : natDigitsAux (n + 1) n [] ≠ [] := by
    have : ∀ f n acc, f ≠ 0 → natDigitsAux f n acc ≠ [] ∨ False := by
      intro f
      induction f with
      | zero => intro _ _ h; exact absurd rfl h
      | succ f ih =>
        intro n acc _
        left
        simp only [natDigitsAux]
        split
        · simp
        · cases f with
          | zero => simp [natDigitsAux]
          | succ f => exact (ih (n / 16) (n % 16 :: acc) (by simp)).resolve_right id
    exact (this (n + 1) n [] (by simp)).resolve_right id
  cases hl : natDigitsAux (n + 1) n [] with
  | nil => exact absurd hl hne
  | cons d ds => exact ⟨d, ds.map hexDigit, hlt d (by rw [hl]; simp), by simp⟩

/-! ### bytes ↔ hex -/

theorem hex2Bytes_bytes2Hex_append (b : Bytes) (rest : List Char)
    (hr : rest = [] ∨ (∃ c, rest = [c]) ∨ ∃ c cs, rest = c :: cs ∧ hexVal? c = none) :
    hex2Bytes (bytes2Hex b ++ rest) = b := by
  induction b with
  | nil =>
    rcases hr with rfl | ⟨c, rfl⟩ | ⟨c, cs, rfl, hc⟩
    · rfl
    · rfl
    · cases cs with
      | nil => rfl
      | cons c2 cs => simp [bytes2Hex, hex2Bytes, hc]
  | cons x xs ih =>
    have h1 : x.toNat / 16 < 16 := by have := UInt8.toNat_lt x; omega
    have h2 : x.toNat % 16 < 16 := Nat.mod_lt _ (by decide)
    simp only [bytes2Hex, List.cons_append, hex2Bytes, hexVal_hexDigit _ h1, hexVal_hexDigit _ h2, ih]
    congr 1
    have := Nat.div_add_mod x.toNat 16
    rw [Nat.mul_comm] at this
    rw [this]
    simp

/-- `Hex2Bytes(Bytes2Hex(b)) = b`. -/
theorem hex2Bytes_bytes2Hex (b : Bytes) : hex2Bytes (bytes2Hex b) = b := by
  have := hex2Bytes_bytes2Hex_append b [] (Or.inl rfl)
  simpa using this

/-- Scanning the hex text of a byte string gives its big-endian value. -/
theorem scanHex_bytes2Hex (b : Bytes) (acc k : Nat) :
    (scanHex (bytes2Hex b) acc k).1 = acc * 256 ^ b.length + beToNat b := by
  induction b generalizing acc k with
  | nil => simp [bytes2Hex, scanHex, beToNat]
  | cons x xs ih =>
    have h1 : x.toNat / 16 < 16 := by have := UInt8.toNat_lt x; omega
    have h2 : x.toNat % 16 < 16 := Nat.mod_lt _ (by decide)
    simp only [bytes2Hex, scanHex, hexVal_hexDigit _ h1, hexVal_hexDigit _ h2]
    rw [ih, beToNat_cons, List.length_cons, Nat.pow_succ]
    have := Nat.div_add_mod x.toNat 16
    have e : (acc * 16 + x.toNat / 16) * 16 + x.toNat % 16 = acc * 256 + x.toNat := by omega
    rw [e, Nat.add_mul, Nat.mul_assoc, Nat.mul_comm 256, Nat.add_assoc]

theorem bytes2Hex_head (x : UInt8) (xs : Bytes) :
    ∃ d cs, d < 16 ∧ bytes2Hex (x :: xs) = hexDigit d :: cs :=
  ⟨x.toNat / 16, _, by have := UInt8.toNat_lt x; omega, rfl⟩

end Rangers.Proofs.Bls14
