import Rangers.Proofs.TrieIterBytes
/- Hex-prefix (compact) encoding round trip. -/
namespace Rangers.Trie
open Rangers

theorem hexOfBytes_decodeNibbles : ∀ (n : Key), Nibs n → n.length % 2 = 0 → hexOfBytes (decodeNibbles n) = n
  | [], _, _ => by simp [decodeNibbles, hexOfBytes]
  | [a], _, he => by simp at he
  | a :: b :: n, hn, he => by
    have ha := hn a (by simp)
    have hb := hn b (by simp)
    have hn' : Nibs n := fun x hx => hn x (by simp [hx])
    have he' : n.length % 2 = 0 := by simp at he; omega
    simp only [decodeNibbles, hexOfBytes]
    have hlt : a * 16 + b < 256 := by omega
    have hto : (UInt8.ofNat (a * 16 + b)).toNat = a * 16 + b := by
      simp [UInt8.toNat_ofNat, Nat.mod_eq_of_lt hlt]
    rw [hto]
    have h1 : (a * 16 + b) / 16 = a := by omega
    have h2 : (a * 16 + b) % 16 = b := by omega
    rw [h1, h2, hexOfBytes_decodeNibbles n hn' he']

theorem hasTerm_nibs (n : Key) (hn : Nibs n) : hasTerm n = false := by
  unfold hasTerm
  cases h : n.getLast? with
  | none => rfl
  | some x =>
    have := hn x (List.mem_of_getLast? h)
    have : x ≠ 16 := by omega
    simp [this]

theorem compactToHex_cons (b : UInt8) (rest : Bytes) :
    compactToHex (b :: rest) =
      let base := b.toNat / 16 :: b.toNat % 16 :: (hexOfBytes rest ++ [16])
      let base := if b.toNat / 16 < 2 then base.dropLast else base
      let chop := 2 - b.toNat / 16 % 2
      if chop ≤ base.length then some (base.drop chop) else none := by
  simp [compactToHex, keybytesToHex, hexOfBytes]

theorem dropLast_cons2 (x y : Nat) (n : Key) : (x :: y :: (n ++ [16])).dropLast = x :: y :: n := by
  rw [← List.cons_append, ← List.cons_append, List.dropLast_concat]

theorem hexToCompact_nibs (n : Key) (hn : Nibs n) :
    hexToCompact n = if n.length % 2 = 1 then UInt8.ofNat (0 + 16 + n.headD 0) :: decodeNibbles n.tail
                     else UInt8.ofNat 0 :: decodeNibbles n := by
  simp [hexToCompact, hasTerm_nibs n hn]

theorem hexToCompact_term (n : Key) :
    hexToCompact (n ++ [16]) = if n.length % 2 = 1 then UInt8.ofNat (32 + 16 + n.headD 0) :: decodeNibbles n.tail
                               else UInt8.ofNat 32 :: decodeNibbles n := by
  simp [hexToCompact, hasTerm_append_16 n]

/-- hex-prefix encoding round trip, nibble path without terminator (extension node keys) -/
theorem compact_roundtrip_nibs (n : Key) (hn : Nibs n) : compactToHex (hexToCompact n) = some n := by
  rw [hexToCompact_nibs n hn]
  by_cases hodd : n.length % 2 = 1
  · simp only [hodd, if_true]
    obtain ⟨a, r, rfl⟩ : ∃ a r, n = a :: r := by
      cases n with
      | nil => simp at hodd
      | cons a r => exact ⟨a, r, rfl⟩
    have ha := hn a (by simp)
    have hr : Nibs r := fun x hx => hn x (by simp [hx])
    have her : r.length % 2 = 0 := by simp at hodd; omega
    simp only [List.headD_cons, List.tail_cons]
    rw [compactToHex_cons, hexOfBytes_decodeNibbles r hr her]
    have hto : (UInt8.ofNat (0 + 16 + a)).toNat = 16 + a := by
      simp [UInt8.toNat_ofNat]; omega
    have h1 : (16 + a) / 16 = 1 := by omega
    have h2 : (16 + a) % 16 = a := by omega
    simp only [hto, h1, h2, dropLast_cons2]
    simp
  · have heven : n.length % 2 = 0 := by omega
    simp only [hodd, if_false]
    rw [compactToHex_cons, hexOfBytes_decodeNibbles n hn heven]
    have hto : (UInt8.ofNat 0).toNat = 0 := by simp
    simp only [hto, dropLast_cons2]
    simp

/-- hex-prefix encoding round trip, terminated path (leaf keys) -/
theorem compact_roundtrip_term (n : Key) (hn : Nibs n) : compactToHex (hexToCompact (n ++ [16])) = some (n ++ [16]) := by
  rw [hexToCompact_term n]
  by_cases hodd : n.length % 2 = 1
  · simp only [hodd, if_true]
    obtain ⟨a, r, rfl⟩ : ∃ a r, n = a :: r := by
      cases n with
      | nil => simp at hodd
      | cons a r => exact ⟨a, r, rfl⟩
    have ha := hn a (by simp)
    have hr : Nibs r := fun x hx => hn x (by simp [hx])
    have her : r.length % 2 = 0 := by simp at hodd; omega
    simp only [List.headD_cons, List.tail_cons]
    rw [compactToHex_cons, hexOfBytes_decodeNibbles r hr her]
    have hto : (UInt8.ofNat (32 + 16 + a)).toNat = 48 + a := by
      simp [UInt8.toNat_ofNat]; omega
    have h1 : (48 + a) / 16 = 3 := by omega
    have h2 : (48 + a) % 16 = a := by omega
    simp only [hto, h1, h2]
    simp
  · have heven : n.length % 2 = 0 := by omega
    simp only [hodd, if_false]
    rw [compactToHex_cons, hexOfBytes_decodeNibbles n hn heven]
    have hto : (UInt8.ofNat 32).toNat = 32 := by simp
    simp only [hto]
    simp

end Rangers.Trie
