import Rangers.Proofs.C09Msgs
/-! Helper lemmas for the C09 converters: fixed-width integers, `time.Time` binary form,
big-endian prove values, hashes. Core Lean only. -/
namespace Rangers.Json
open Rangers

theorem beToNat_snoc (bs : Bytes) (b : UInt8) : beToNat (bs ++ [b]) = beToNat bs * 256 + b.toNat := by
  simp [beToNat, List.foldl_append]

theorem beFixed_length (w n : Nat) : (beFixed w n).length = w := by
  induction w generalizing n with
  | zero => rfl
  | succ w ih => simp [beFixed, ih]

theorem beToNat_beFixed (w : Nat) : ∀ n, beToNat (beFixed w n) = n % 256 ^ w := by
  induction w with
  | zero => intro n; simp [beFixed, beToNat, Nat.mod_one]
  | succ w ih =>
    intro n
    have hb : (UInt8.ofNat (n % 256)).toNat = n % 256 := Wire.u8_ofNat_toNat _ (Nat.mod_lt _ (by decide))
    rw [beFixed, beToNat_snoc, ih, hb, Nat.pow_succ, Nat.mul_comm (256 ^ w) 256, Nat.mod_mul]
    omega

/-- A time whose binary form Go 1.23 reads back unchanged: 64-bit seconds, a nanosecond field,
    and a zone that is UTC or an offset `60*m + s` with `-32768 ≤ m ≤ 32767`, `m ≠ -1`, `0 ≤ s < 60`. -/
def TimeOK (t : GoTime) : Prop :=
  -9223372036854775808 ≤ t.sec ∧ t.sec < 9223372036854775808 ∧ t.nsec < 1073741824 ∧
  match t.zone with
  | none => True
  | some off => -32768 ≤ Int.tdiv off 60 ∧ Int.tdiv off 60 ≤ 32767 ∧ Int.tdiv off 60 ≠ -1 ∧ 0 ≤ Int.tmod off 60

theorem toSigned64 (s : Int) (h1 : -9223372036854775808 ≤ s) (h2 : s < 9223372036854775808) :
    toSigned 64 ((s % 18446744073709551616).toNat % 256 ^ 8) = s := by
  have : (256 : Nat) ^ 8 = 18446744073709551616 := by decide
  rw [this]
  unfold toSigned
  simp only [show (2 : Nat) ^ (64 - 1) = 9223372036854775808 by decide,
    show (2 : Nat) ^ 64 = 18446744073709551616 by decide]
  split <;> omega

theorem toSigned16 (m : Int) (h1 : -32768 ≤ m) (h2 : m ≤ 32767) :
    toSigned 16 ((m % 65536).toNat % 256 ^ 2) = m := by
  have : (256 : Nat) ^ 2 = 65536 := by decide
  rw [this]
  unfold toSigned
  simp only [show (2 : Nat) ^ (16 - 1) = 32768 by decide, show (2 : Nat) ^ 16 = 65536 by decide]
  split <;> omega

theorem take_core (a b c : Bytes) (n : Nat) (h : a.length = n) : (a ++ b ++ c).take n = a := by
  rw [List.append_assoc, List.take_left' h]

theorem drop_core (a b c : Bytes) (n : Nat) (h : a.length = n) : (a ++ b ++ c).drop n = b ++ c := by
  rw [List.append_assoc, List.drop_left' h]

theorem take_app (a x : Bytes) (n : Nat) (h : a.length = n) : (a ++ x).take n = a := List.take_left' h
theorem drop_app (a x : Bytes) (n : Nat) (h : a.length = n) : (a ++ x).drop n = x := List.drop_left' h
theorem drop_app2 (a b x : Bytes) (n : Nat) (h : a.length + b.length = n) : (a ++ (b ++ x)).drop n = x := by
  rw [← List.append_assoc]; exact List.drop_left' (by simp [h])
theorem drop_app3 (a b c x : Bytes) (n : Nat) (h : a.length + b.length + c.length = n) :
    (a ++ (b ++ (c ++ x))).drop n = x := by
  rw [← List.append_assoc, ← List.append_assoc]; exact List.drop_left' (by simp; omega)

/-- `UnmarshalBinary(MarshalBinary(t)) = t` on observable content. -/
theorem binToTime_timeToBin (t : GoTime) (h : TimeOK t) :
    ∃ b, timeToBin t = some b ∧ binToTime b = some t := by
  obtain ⟨h1, h2, h3, hz⟩ := h
  cases t with
  | mk sec nsec zone =>
  simp only at h1 h2 h3 hz
  have l8 : (beFixed 8 (sec % 18446744073709551616).toNat).length = 8 := beFixed_length _ _
  have l4 : (beFixed 4 nsec).length = 4 := beFixed_length _ _
  have esec := toSigned64 sec h1 h2
  have ens : beToNat (beFixed 4 nsec) = nsec := by
    rw [beToNat_beFixed]; have : (256 : Nat) ^ 4 = 4294967296 := by decide
    omega
  cases zone with
  | none =>
    refine ⟨_, rfl, ?_⟩
    simp only [binToTime, List.cons_append, List.nil_append, List.length_cons, List.length_append, l8, l4,
      List.length_nil]
    have t8 := take_core (beFixed 8 (sec % 18446744073709551616).toNat) (beFixed 4 nsec) [255, 255] 8 l8
    have d8 := drop_core (beFixed 8 (sec % 18446744073709551616).toNat) (beFixed 4 nsec) [255, 255] 8 l8
    have d12 : ((beFixed 8 (sec % 18446744073709551616).toNat) ++ beFixed 4 nsec ++ [255, 255]).drop 12 = [255, 255] := by
      rw [List.drop_left' (by simp [l8, l4])]
    simp only [t8, d8, d12, List.take_left' l4, beToNat_beFixed 8, esec, ens]
    have hlt : nsec < 2147483648 := by omega
    have hmod : nsec % 1073741824 = nsec := Nat.mod_eq_of_lt h3
    simp [hlt, hmod, beToNat, toSigned]
  | some off =>
    obtain ⟨z1, z2, z3, z4⟩ := hz
    have hdm : 60 * Int.tdiv off 60 + Int.tmod off 60 = off := Int.mul_tdiv_add_tmod off 60
    have hslt : Int.tmod off 60 < 60 := Int.tmod_lt_of_pos off (by decide)
    generalize hmdef : Int.tdiv off 60 = m at *
    generalize hsdef : Int.tmod off 60 = s at *
    have hc : ¬ (m < -32768 ∨ m = -1 ∨ m > 32767) := by omega
    have l2 : (beFixed 2 (m % 65536).toNat).length = 2 := beFixed_length _ _
    have em := toSigned16 m z1 z2
    have hlt : nsec < 2147483648 := by omega
    have hmod : nsec % 1073741824 = nsec := Nat.mod_eq_of_lt h3
    have hne : ¬ (off = -60) := by omega
    by_cases hs : s = 0
    · refine ⟨[1] ++ (beFixed 8 (sec % 18446744073709551616).toNat ++ beFixed 4 nsec) ++ beFixed 2 (m % 65536).toNat, ?_, ?_⟩
      · simp only [timeToBin, hmdef, hsdef, hc, if_false, hs, ne_eq, not_true_eq_false]
      · simp only [binToTime, List.cons_append, List.nil_append, List.length_cons, List.length_append, l8, l4, l2,
          List.append_assoc]
        rw [take_app _ _ 8 l8, drop_app _ _ 8 l8, take_app _ _ 4 l4, drop_app2 _ _ _ 12 (by rw [l8, l4])]
        have tk : (beFixed 2 (m % 65536).toNat).take 2 = beFixed 2 (m % 65536).toNat := by
          rw [← l2]; exact List.take_length
        simp only [tk, beToNat_beFixed 8, beToNat_beFixed 2, esec, ens, em]
        have hoff : m * 60 + 0 = off := by omega
        simp [hlt, hmod, hne, hoff]
    · refine ⟨[2] ++ (beFixed 8 (sec % 18446744073709551616).toNat ++ beFixed 4 nsec) ++ beFixed 2 (m % 65536).toNat
          ++ [UInt8.ofNat (s % 256).toNat], ?_, ?_⟩
      · simp only [timeToBin, hmdef, hsdef, hc, if_false, hs, ne_eq, not_false_eq_true, if_true]
      · have hbyte : (UInt8.ofNat (s % 256).toNat).toNat = s.toNat := by
          rw [Wire.u8_ofNat_toNat _ (by omega)]; omega
        simp only [binToTime, List.cons_append, List.nil_append, List.length_cons, List.length_append, l8, l4, l2,
          List.length_nil, List.append_assoc]
        rw [take_app _ _ 8 l8, drop_app _ _ 8 l8, take_app _ _ 4 l4, drop_app2 _ _ _ 12 (by rw [l8, l4]),
          take_app _ _ 2 l2, drop_app3 _ _ _ _ 14 (by rw [l8, l4, l2])]
        simp only [beToNat_beFixed 8, beToNat_beFixed 2, esec, ens, em, List.headD_cons, hbyte]
        simp [hlt, hmod]
        omega

end Rangers.Json

namespace Rangers.Json
open Rangers

theorem fold_acc (l : Bytes) : ∀ a : Nat,
    l.foldl (fun acc b => acc * 256 + b.toNat) a = a * 256 ^ l.length + l.foldl (fun acc b => acc * 256 + b.toNat) 0 := by
  induction l with
  | nil => intro a; simp
  | cons b l ih =>
    intro a
    simp only [List.foldl_cons, List.length_cons]
    rw [ih (a * 256 + b.toNat), ih (0 * 256 + b.toNat)]
    simp only [Nat.zero_mul, Nat.zero_add, Nat.pow_succ, Nat.add_mul, Nat.mul_assoc, Nat.add_assoc,
      Nat.mul_comm (256 ^ l.length) 256]

theorem beToNat_cons (b : UInt8) (l : Bytes) : beToNat (b :: l) = b.toNat * 256 ^ l.length + beToNat l := by
  unfold beToNat
  simp only [List.foldl_cons]
  rw [fold_acc l (0 * 256 + b.toNat)]
  simp

theorem natToBE_go (fuel : Nat) : ∀ (n : Nat) (acc : Bytes), n < 256 ^ fuel →
    beToNat (natToBE.go fuel n acc) = n * 256 ^ acc.length + beToNat acc := by
  induction fuel with
  | zero => intro n acc h; simp at h; subst h; simp [natToBE.go]
  | succ fuel ih =>
    intro n acc h
    unfold natToBE.go
    by_cases hn : n = 0
    · simp [hn]
    · simp only [hn, if_false]
      have hlt : n / 256 < 256 ^ fuel := by
        rw [Nat.pow_succ] at h
        exact Nat.div_lt_of_lt_mul (by rw [Nat.mul_comm]; exact h)
      rw [ih (n / 256) _ hlt, beToNat_cons, Wire.u8_ofNat_toNat _ (Nat.mod_lt _ (by decide))]
      simp only [List.length_cons, Nat.pow_succ]
      have hd := Nat.div_add_mod n 256
      calc n / 256 * (256 ^ acc.length * 256) + (n % 256 * 256 ^ acc.length + beToNat acc)
          = (256 * (n / 256) + n % 256) * 256 ^ acc.length + beToNat acc := by
            rw [Nat.add_mul, Nat.mul_comm (256 ^ acc.length) 256, ← Nat.mul_assoc, Nat.mul_comm (n / 256) 256,
              Nat.add_assoc]
        _ = n * 256 ^ acc.length + beToNat acc := by rw [hd]

/-- `new(big.Int).SetBytes(v.Bytes()) = v`: the prove value crosses the wire unchanged. -/
theorem beToNat_natToBE (n : Nat) : beToNat (natToBE n) = n := by
  unfold natToBE
  have h : n < 256 ^ (n + 1) := by
    have h1 : n < 2 ^ n := Nat.lt_two_pow_self
    have h2 : 2 ^ n ≤ 256 ^ (n + 1) := by
      calc 2 ^ n ≤ 256 ^ n := Nat.pow_le_pow_left (by decide) n
        _ ≤ 256 ^ (n + 1) := Nat.pow_le_pow_right (by decide) (by omega)
    omega
  rw [natToBE_go (n + 1) n [] h]
  simp [beToNat]

/-- Leading zero bytes are dropped by `SetBytes` (the only place they are dropped). -/
theorem beToNat_zero_cons (l : Bytes) : beToNat (0 :: l) = beToNat l := by
  rw [beToNat_cons]; simp

end Rangers.Json

namespace Rangers.Wire
open Rangers

theorem bytesToHash_length (b : Bytes) : (bytesToHash b).length = 32 := by
  unfold bytesToHash
  split
  · simp; omega
  · simp; omega

theorem bytesToHash_id (b : Bytes) (h : b.length = 32) : bytesToHash b = b := by
  unfold bytesToHash
  simp [h]

end Rangers.Wire
