import Rangers.Proofs.Evm10Step
/-!
C10 — under a consistent jump table no Go run-time panic branch of the model is reachable:
the stack check covers every pop and memory is resized to the word-rounded touched range
before `execute`.
-/
namespace Rangers.Proofs.Evm10
open Rangers Rangers.Model.Evm10 Rangers.Model.Evm10.U256

theorem resize_length (m : Bytes) (n : Nat) : (Mem.resize m n).length = max m.length n := by
  unfold Mem.resize
  split
  · simp; omega
  · omega

theorem lo64_lt (x : Word) : lo64 x < 2 ^ 64 := Nat.mod_lt _ (by omega)

/-- `toWordSize sz * 32` not overflowing means it covers `sz`. -/
theorem safeMul_words {sz m : Nat} (h : safeMul (toWordSize sz) 32 = (m, false)) :
    sz ≤ m ∧ m % 32 = 0 := by
  unfold safeMul toWordSize maxUint64 at h
  simp only [Prod.mk.injEq, decide_eq_false_iff_not] at h
  obtain ⟨h1, h2⟩ := h
  split at h1 <;> split at h2 <;> omega

theorem calc_uint {off : Word} {len sz : Nat} (hlen : 0 < len) (hlen64 : len < 2 ^ 64)
    (h : calcMemSize64WithUint off len = (sz, false)) :
    lo64 off + len = sz ∧ sz < 2 ^ 64 ∧ isUint64 off = true := by
  have hl := lo64_lt off
  have hne : len ≠ 0 := by omega
  simp only [calcMemSize64WithUint, hne, if_false] at h
  by_cases hu : (!isUint64 off) = true
  · simp [hu] at h
  · simp only [hu] at h
    have h1 := congrArg Prod.fst h
    have h2 := congrArg Prod.snd h
    simp only [Bool.false_eq_true, if_false, decide_eq_false_iff_not] at h1 h2
    refine ⟨by omega, by omega, ?_⟩
    simpa using hu

theorem calc_two {off l : Word} {sz : Nat} (hl0 : lo64 l ≠ 0)
    (h : calcMemSize64 off l = (sz, false)) :
    lo64 off + lo64 l = sz ∧ sz < 2 ^ 64 ∧ isUint64 off = true := by
  unfold calcMemSize64 at h
  split at h
  · simp at h
  · exact calc_uint (by omega) (lo64_lt l) h

theorem calc_two_len {off l : Word} {sz : Nat} (h : calcMemSize64 off l = (sz, false)) :
    isUint64 l = true := by
  unfold calcMemSize64 at h
  split at h
  · simp at h
  · rename_i hu; simpa using hu

theorem pre_mem_ge (f : Frame) (gas2 last ms sz : Nat)
    (h : safeMul (toWordSize sz) 32 = (ms, false)) (hsz : 0 < sz) :
    sz ≤ (preExec f gas2 last ms).mem.length := by
  obtain ⟨h1, _⟩ := safeMul_words h
  have hpos : ms > 0 := by omega
  simp only [preExec, hpos, if_true, resize_length]
  omega

/-- executes that touch no memory and have fixed arity: the stack check suffices -/
theorem execOp_no_panic_simple (H : Bytes → Bytes) (e : Exec) (g : Frame)
    (hmem : expectedMem e = .none) (har : arity e ≤ g.stack.length)
    (hdup : ∀ n, e = .dup n → 0 < n) (hswap : ∀ n, e = .swap n → 0 < n) :
    execOp H e g ≠ .err .goPanic := by
  rcases hs : g.stack with _ | ⟨a, _ | ⟨b, _ | ⟨c, tl⟩⟩⟩ <;>
    cases e <;> simp only [expectedMem, reduceCtorEq] at hmem <;>
    simp only [hs, arity, List.length_cons, List.length_nil] at har <;>
    (try omega) <;>
    simp only [execOp, bin, un, pushW, hs] <;>
    (try (intro h; (repeat' split at h) <;> simp at h))
  all_goals (first
    | (have := hdup _ rfl; omega)
    | (have := hswap _ rfl; omega)
    | (rename_i _ heq; have := List.getElem?_eq_none_iff.1 heq; simp at this; omega))


theorem memorySizeOf_none : ∀ st, memorySizeOf .none st = .noFn := by
  intro st; simp [memorySizeOf]

theorem slotOK_parts {i : OpInfo} (h : slotOK i = true) (hno : isOther i.exec = false) :
    arity i.exec ≤ i.minStack ∧ i.memSize = expectedMem i.exec ∧
    (∀ n, i.exec = .dup n → 0 < n) ∧ (∀ n, i.exec = .swap n → 0 < n) := by
  unfold slotOK at h
  simp only [hno, Bool.false_and, Bool.false_or, Bool.and_eq_true, decide_eq_true_eq, beq_iff_eq] at h
  obtain ⟨⟨⟨h1, h2⟩, _⟩, h4⟩ := h
  refine ⟨h1, h2, ?_, ?_⟩
  · intro n hn; rw [hn] at h4; simpa using h4
  · intro n hn; rw [hn] at h4; simpa using h4

theorem slotOK_other {i : OpInfo} (h : slotOK i = true) (ho : isOther i.exec = true) :
    memArity i.memSize ≤ i.minStack := by
  unfold slotOK at h
  simp only [ho, Bool.true_and, Bool.or_eq_true, decide_eq_true_eq] at h
  rcases h with h | h
  · exact h
  · cases he : i.exec <;> simp [he, isOther] at ho
    simp only [he, expectedMem, Bool.and_eq_true, beq_iff_eq] at h
    obtain ⟨⟨⟨_, hm⟩, _⟩, _⟩ := h
    rw [hm]; simp [memArity]

theorem memorySizeOf_ne_panic_arity (fn : MemFn) (st : List Word) (h : memArity fn ≤ st.length) :
    memorySizeOf fn st ≠ .panic := by
  rcases st with _ | ⟨a0, _ | ⟨a1, _ | ⟨a2, _ | ⟨a3, _ | ⟨a4, _ | ⟨a5, _ | ⟨a6, _ | ⟨a7, _ | ⟨a8, tl⟩⟩⟩⟩⟩⟩⟩⟩⟩ <;>
    cases fn <;> simp only [memArity, List.length_cons, List.length_nil] at h <;>
    (try omega) <;> simp [memorySizeOf] <;> (repeat' split) <;> simp

/-- No Go panic for every instruction that touches no memory (stack, arithmetic, PUSH/DUP/SWAP,
jumps, PC/MSIZE/GAS, calldata/code size and load). -/
theorem step_no_goPanic_nomem (H : Bytes → Bytes) (t : Table) (p : GasParams) (f : Frame)
    (ht : tableOK t = true)
    (hnm : ∀ info, t.get (getOp f.code f.pc) = some info → info.memSize = .none) :
    step H t p f ≠ .fail .goPanic := by
  intro h
  obtain ⟨info, hget, hmin, hcase⟩ := step_goPanic_decomp h
  have hok := slotOK_of_get ht hget
  have hm := hnm info hget
  rcases hcase with hp | ⟨gas2, last, ms, _, hex⟩
  · rw [hm, memorySizeOf_none] at hp; simp at hp
  · by_cases hoth : isOther info.exec = true
    · cases he : info.exec <;> simp [he, isOther] at hoth
      rw [he] at hex; simp [execOp] at hex
    · have hoth' : isOther info.exec = false := by
        cases hh : isOther info.exec
        · rfl
        · exact absurd hh hoth
      obtain ⟨har, hme, hd, hsw⟩ := slotOK_parts hok hoth'
      rw [hm] at hme
      exact execOp_no_panic_simple H info.exec (preExec f gas2 last ms) hme.symm
        (by simp only [preExec]; omega) hd hsw hex


/-! ### memory-touching functions -/

theorem getPtr_ne_none (m : Bytes) (off size : Nat) (h : size = 0 ∨ off + size ≤ m.length) :
    Mem.getPtr m off size ≠ none := by
  unfold Mem.getPtr
  split
  · simp
  · split
    · split
      · simp
      · omega
    · simp

theorem set_ne_none (m : Bytes) (off size : Nat) (v : Bytes) (h : size = 0 ∨ off + size ≤ m.length) :
    Mem.set m off size v ≠ none := by
  unfold Mem.set
  split
  · simp
  · split
    · omega
    · simp

theorem set32_ne_none (m : Bytes) (off : Nat) (v : Word) (h : off + 32 ≤ m.length) :
    Mem.set32 m off v ≠ none := by
  unfold Mem.set32
  split
  · omega
  · simp

theorem setByte_ne_none (m : Bytes) (off : Nat) (b : UInt8) (h : off + 1 ≤ m.length) :
    Mem.setByte m off b ≠ none := by
  unfold Mem.setByte
  split
  · simp
  · omega

theorem copy_ne_none (m : Bytes) (dst src len : Nat)
    (h : len = 0 ∨ (src + len ≤ m.length ∧ dst ≤ m.length)) : Mem.copy m dst src len ≠ none := by
  unfold Mem.copy
  split
  · simp
  · split
    · omega
    · simp

/-- what the interpreter's resize guarantees for an access described by `calcMemSize64 off l` -/
theorem cover_two {info : OpInfo} {f : Frame} {ms : Nat} (gas2 last : Nat) {off l : Word}
    (hms : MemSized info f.stack ms)
    (hfn : memorySizeOf info.memSize f.stack =
      .size (calcMemSize64 off l).1 (calcMemSize64 off l).2) :
    isUint64 l = true ∧
    (lo64 l = 0 ∨ (isUint64 off = true ∧ lo64 off + lo64 l ≤ (preExec f gas2 last ms).mem.length)) := by
  rcases hms with ⟨h1, _⟩ | ⟨sz, h1, h2⟩
  · rw [hfn] at h1; simp at h1
  · rw [hfn] at h1
    simp only [MemSizeResult.size.injEq] at h1
    have hc : calcMemSize64 off l = (sz, false) := by
      rw [← h1.1, ← h1.2]
    refine ⟨calc_two_len hc, ?_⟩
    by_cases hl0 : lo64 l = 0
    · exact Or.inl hl0
    · right
      obtain ⟨e1, _, e3⟩ := calc_two hl0 hc
      refine ⟨e3, ?_⟩
      have hl := Nat.pos_of_ne_zero hl0
      have := pre_mem_ge f gas2 last ms sz h2 (by omega)
      omega

theorem cover_one {info : OpInfo} {f : Frame} {ms : Nat} (gas2 last : Nat) {off : Word} {len : Nat}
    (hlen : 0 < len) (hlen64 : len < 2 ^ 64)
    (hms : MemSized info f.stack ms)
    (hfn : memorySizeOf info.memSize f.stack =
      .size (calcMemSize64WithUint off len).1 (calcMemSize64WithUint off len).2) :
    lo64 off + len ≤ (preExec f gas2 last ms).mem.length := by
  rcases hms with ⟨h1, _⟩ | ⟨sz, h1, h2⟩
  · rw [hfn] at h1; simp at h1
  · rw [hfn] at h1
    simp only [MemSizeResult.size.injEq] at h1
    have hc : calcMemSize64WithUint off len = (sz, false) := by
      rw [← h1.1, ← h1.2]
    obtain ⟨e1, _, _⟩ := calc_uint hlen hlen64 hc
    have := pre_mem_ge f gas2 last ms sz h2 (by omega)
    omega

theorem preExec_stack (f : Frame) (a b c : Nat) : (preExec f a b c).stack = f.stack := rfl

/-- the ten memory-touching `execute` functions never reach a panic branch after the resize -/
theorem execOp_no_panic_mem (H : Bytes → Bytes) (info : OpInfo) (f : Frame) (gas2 last ms : Nat)
    (hmem : info.memSize = expectedMem info.exec) (hne : expectedMem info.exec ≠ .none)
    (har : arity info.exec ≤ f.stack.length) (hms : MemSized info f.stack ms) :
    execOp H info.exec (preExec f gas2 last ms) ≠ .err .goPanic := by
  generalize hg : preExec f gas2 last ms = g
  have hgs : g.stack = f.stack := by rw [← hg]; rfl
  have hgm : g.mem = (preExec f gas2 last ms).mem := by rw [hg]
  cases he : info.exec <;> simp only [he, expectedMem, ne_eq, not_true_eq_false, reduceCtorEq,
    not_false_eq_true] at hne <;> simp only [he, arity] at har
  -- opSha3
  · rcases hs : f.stack with _ | ⟨offset, _ | ⟨size, rest⟩⟩ <;> simp only [hs, List.length_cons, List.length_nil] at har <;> try omega
    have hc := cover_two gas2 last (off := offset) (l := size) hms
      (by rw [hmem, he]; simp [expectedMem, memorySizeOf, hs])
    simp only [execOp, hgs, hs]
    cases hr : Mem.getPtr g.mem (lo64 offset) (lo64 size) with
    | some d => simp
    | none =>
      exfalso
      refine getPtr_ne_none _ _ _ ?_ hr
      rw [hgm]; rcases hc.2 with h | h
      · exact Or.inl h
      · exact Or.inr h.2
  · rcases hs : f.stack with _ | ⟨a, _ | ⟨b, _ | ⟨c, rest⟩⟩⟩ <;> simp only [hs, List.length_cons, List.length_nil] at har <;> try omega
    have hc := cover_two gas2 last (off := a) (l := c) hms
      (by rw [hmem, he]; simp [expectedMem, memorySizeOf, hs])
    simp only [execOp, hgs, hs]
    split
    · simp
    · rename_i hr
      exfalso
      refine set_ne_none _ _ _ _ ?_ hr
      rw [hgm]; rcases hc.2 with h | h
      · exact Or.inl h
      · exact Or.inr h.2
  · rcases hs : f.stack with _ | ⟨a, _ | ⟨b, _ | ⟨c, rest⟩⟩⟩ <;> simp only [hs, List.length_cons, List.length_nil] at har <;> try omega
    have hc := cover_two gas2 last (off := a) (l := c) hms
      (by rw [hmem, he]; simp [expectedMem, memorySizeOf, hs])
    simp only [execOp, hgs, hs]
    split
    · simp
    · rename_i hr
      exfalso
      refine set_ne_none _ _ _ _ ?_ hr
      rw [hgm]; rcases hc.2 with h | h
      · exact Or.inl h
      · exact Or.inr h.2
  -- opReturnDataCopy
  · rcases hs : f.stack with _ | ⟨a, _ | ⟨b, _ | ⟨c, rest⟩⟩⟩ <;> simp only [hs, List.length_cons, List.length_nil] at har <;> try omega
    have hc := cover_two gas2 last (off := a) (l := c) hms
      (by rw [hmem, he]; simp [expectedMem, memorySizeOf, hs])
    simp only [execOp, hgs, hs]
    have hcu : isUint64 c = true := hc.1
    by_cases hbu : isUint64 b = true
    · have hb : lo64 b = b.toNat := lo64_of_isUint64 b hbu
      have hcn : lo64 c = c.toNat := lo64_of_isUint64 c hcu
      have hb64 : b.toNat < 2 ^ 64 := by simpa [isUint64] using hbu
      have hc64 : c.toNat < 2 ^ 64 := by simpa [isUint64] using hcu
      have hend : (add b c).toNat = b.toNat + c.toNat := by
        simp only [add, BitVec.toNat_add]; apply Nat.mod_eq_of_lt; omega
      intro hcontra
      split at hcontra
      · simp at hcontra
      · split at hcontra
        · simp at hcontra
        · rename_i hov
          have heu : isUint64 (add b c) = true := by
            cases hh : isUint64 (add b c)
            · simp [hh] at hov
            · rfl
          have hle : lo64 (add b c) = b.toNat + c.toNat := by
            rw [lo64_of_isUint64 _ heu, hend]
          split at hcontra
          · rename_i hgt; rw [hle, hb] at hgt; omega
          · split at hcontra
            · simp at hcontra
            · rename_i hr
              refine set_ne_none _ _ _ _ ?_ hr
              rw [hgm]; rcases hc.2 with h | h
              · exact Or.inl h
              · exact Or.inr h.2
    · simp [hbu]
  -- opMload
  · rcases hs : f.stack with _ | ⟨a, rest⟩ <;> simp only [hs, List.length_cons, List.length_nil] at har <;> try omega
    have hc := cover_one gas2 last (off := a) (len := 32) (by omega) (by omega) hms
      (by rw [hmem, he]; simp [expectedMem, memorySizeOf, hs])
    simp only [execOp, hgs, hs]
    split
    · simp
    · rename_i hr
      exfalso
      exact getPtr_ne_none _ _ _ (Or.inr (by rw [hgm]; exact hc)) hr
  -- opMstore
  · rcases hs : f.stack with _ | ⟨a, _ | ⟨b, rest⟩⟩ <;> simp only [hs, List.length_cons, List.length_nil] at har <;> try omega
    have hc := cover_one gas2 last (off := a) (len := 32) (by omega) (by omega) hms
      (by rw [hmem, he]; simp [expectedMem, memorySizeOf, hs])
    simp only [execOp, hgs, hs]
    split
    · simp
    · rename_i hr
      exfalso
      exact set32_ne_none _ _ _ (by rw [hgm]; exact hc) hr
  -- opMstore8
  · rcases hs : f.stack with _ | ⟨a, _ | ⟨b, rest⟩⟩ <;> simp only [hs, List.length_cons, List.length_nil] at har <;> try omega
    have hc := cover_one gas2 last (off := a) (len := 1) (by omega) (by omega) hms
      (by rw [hmem, he]; simp [expectedMem, memorySizeOf, hs])
    simp only [execOp, hgs, hs]
    split
    · simp
    · rename_i hr
      exfalso
      exact setByte_ne_none _ _ _ (by rw [hgm]; exact hc) hr
  -- opMcopy
  · rcases hs : f.stack with _ | ⟨a, _ | ⟨b, _ | ⟨c, rest⟩⟩⟩ <;> simp only [hs, List.length_cons, List.length_nil] at har <;> try omega
    have hc := cover_two gas2 last (off := if gt b a then b else a) (l := c) hms
      (by rw [hmem, he]; simp [expectedMem, memorySizeOf, hs])
    simp only [execOp, hgs, hs]
    split
    · simp
    · rename_i hr
      exfalso
      refine copy_ne_none _ _ _ _ ?_ hr
      rw [hgm]; rcases hc.2 with h | ⟨hu, h⟩
      · exact Or.inl h
      · right
        by_cases hgtb : gt b a = true
        · simp only [hgtb, if_true] at hu h
          have hbn : lo64 b = b.toNat := lo64_of_isUint64 b hu
          have : a.toNat < b.toNat := by simpa [gt, lt] using hgtb
          have hb64 : b.toNat < 2 ^ 64 := by simpa [isUint64] using hu
          have han : lo64 a = a.toNat := by simp only [lo64]; apply Nat.mod_eq_of_lt; omega
          omega
        · have hgf : gt b a = false := by
            cases hh : gt b a
            · rfl
            · exact absurd hh hgtb
          simp only [hgf, Bool.false_eq_true, if_false] at hu h
          have han : lo64 a = a.toNat := lo64_of_isUint64 a hu
          have : ¬ a.toNat < b.toNat := by simpa [gt, lt] using hgf
          have ha64 : a.toNat < 2 ^ 64 := by simpa [isUint64] using hu
          have hbn : lo64 b = b.toNat := by simp only [lo64]; apply Nat.mod_eq_of_lt; omega
          omega
  · rcases hs : f.stack with _ | ⟨a, _ | ⟨b, rest⟩⟩ <;> simp only [hs, List.length_cons, List.length_nil] at har <;> try omega
    have hc := cover_two gas2 last (off := a) (l := b) hms
      (by rw [hmem, he]; simp [expectedMem, memorySizeOf, hs])
    simp only [execOp, hgs, hs]
    split
    · simp
    · rename_i hr
      exfalso
      refine getPtr_ne_none _ _ _ ?_ hr
      rw [hgm]; rcases hc.2 with h | h
      · exact Or.inl h
      · exact Or.inr h.2
  · rcases hs : f.stack with _ | ⟨a, _ | ⟨b, rest⟩⟩ <;> simp only [hs, List.length_cons, List.length_nil] at har <;> try omega
    have hc := cover_two gas2 last (off := a) (l := b) hms
      (by rw [hmem, he]; simp [expectedMem, memorySizeOf, hs])
    simp only [execOp, hgs, hs]
    split
    · simp
    · rename_i hr
      exfalso
      refine getPtr_ne_none _ _ _ ?_ hr
      rw [hgm]; rcases hc.2 with h | h
      · exact Or.inl h
      · exact Or.inr h.2


theorem memorySizeOf_ne_panic (e : Exec) (st : List Word) (har : arity e ≤ st.length) :
    memorySizeOf (expectedMem e) st ≠ .panic := by
  rcases hs : st with _ | ⟨a, _ | ⟨b, _ | ⟨c, rest⟩⟩⟩ <;>
    cases e <;> simp only [hs, arity, List.length_cons, List.length_nil] at har <;>
    (try omega) <;> simp [expectedMem, memorySizeOf]

/-- **Under a consistent jump table the interpreter never reaches a Go run-time panic.** -/
theorem step_no_goPanic (H : Bytes → Bytes) (t : Table) (p : GasParams) (f : Frame)
    (ht : tableOK t = true) : step H t p f ≠ .fail .goPanic := by
  intro h
  obtain ⟨info, hget, hmin, hcase⟩ := step_goPanic_decomp h
  have hok := slotOK_of_get ht hget
  by_cases hoth : isOther info.exec = true
  · rcases hcase with hp | ⟨gas2, last, ms, _, hex⟩
    · exact memorySizeOf_ne_panic_arity _ _ (Nat.le_trans (slotOK_other hok hoth) hmin) hp
    · cases he : info.exec <;> simp [he, isOther] at hoth
      rw [he] at hex; simp [execOp] at hex
  · have hoth' : isOther info.exec = false := by
      cases hh : isOther info.exec
      · rfl
      · exact absurd hh hoth
    obtain ⟨har, hme, hd, hsw⟩ := slotOK_parts hok hoth'
    rcases hcase with hp | ⟨gas2, last, ms, hms, hex⟩
    · rw [hme] at hp
      exact memorySizeOf_ne_panic info.exec f.stack (by omega) hp
    · by_cases hnone : expectedMem info.exec = .none
      · exact execOp_no_panic_simple H info.exec (preExec f gas2 last ms) hnone
          (by simp only [preExec]; omega) hd hsw hex
      · exact execOp_no_panic_mem H info f gas2 last ms hme hnone (by omega) hms hex

end Rangers.Proofs.Evm10
