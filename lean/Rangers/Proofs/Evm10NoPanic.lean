import Rangers.Proofs.Evm10Step
/-!
C10 — under a consistent jump table no Go run-time panic branch of the model is reachable:
the stack check covers every pop and memory is resized to the word-rounded touched range
before `execute`.
-/
namespace Rangers.Proofs.Evm10
open Rangers Rangers.Model.Evm10 Rangers.Model.Evm10.U256

theorem resize_length (m : Bytes) (n : Nat) : (Mem.resize m n).length = max m.length n := by
  unfold Mem.resize
  split
  · simp; omega
  · omega

theorem lo64_lt (x : Word) : lo64 x < 2 ^ 64 := Nat.mod_lt _ (by omega)

/-- `toWordSize sz * 32` not overflowing means it covers `sz`. -/
theorem safeMul_words {sz m : Nat} (h : safeMul (toWordSize sz) 32 = (m, false)) :
    sz ≤ m ∧ m % 32 = 0 := by
  unfold safeMul toWordSize maxUint64 at h
  simp only [Prod.mk.injEq, decide_eq_false_iff_not] at h
  obtain ⟨h1, h2⟩ := h
  split at h1 <;> split at h2 <;> omega

theorem calc_uint {off : Word} {len sz : Nat} (hlen : 0 < len) (hlen64 : len < 2 ^ 64)
    (h : calcMemSize64WithUint off len = (sz, false)) : lo64 off + len = sz ∧ sz < 2 ^ 64 := by
  have hl := lo64_lt off
  have hne : len ≠ 0 := by omega
  simp only [calcMemSize64WithUint, hne, if_false] at h
  by_cases hu : (!isUint64 off) = true
  · simp [hu] at h
  · simp only [hu] at h
    have h1 := congrArg Prod.fst h
    have h2 := congrArg Prod.snd h
    simp only [Bool.false_eq_true, if_false, decide_eq_false_iff_not] at h1 h2
    omega

theorem calc_two {off l : Word} {sz : Nat} (hl0 : lo64 l ≠ 0)
    (h : calcMemSize64 off l = (sz, false)) : lo64 off + lo64 l = sz ∧ sz < 2 ^ 64 := by
  unfold calcMemSize64 at h
  split at h
  · simp at h
  · exact calc_uint (by omega) (lo64_lt l) h


theorem pre_mem_ge (f : Frame) (gas2 last ms sz : Nat)
    (h : safeMul (toWordSize sz) 32 = (ms, false)) (hsz : 0 < sz) :
    sz ≤ (preExec f gas2 last ms).mem.length := by
  obtain ⟨h1, _⟩ := safeMul_words h
  have hpos : ms > 0 := by omega
  simp only [preExec, hpos, if_true, resize_length]
  omega

/-- executes that touch no memory and have fixed arity: the stack check suffices -/
theorem execOp_no_panic_simple (H : Bytes → Bytes) (e : Exec) (g : Frame)
    (hmem : expectedMem e = .none) (har : arity e ≤ g.stack.length)
    (hdup : ∀ n, e = .dup n → 0 < n) (hswap : ∀ n, e = .swap n → 0 < n) :
    execOp H e g ≠ .err .goPanic := by
  rcases hs : g.stack with _ | ⟨a, _ | ⟨b, _ | ⟨c, tl⟩⟩⟩ <;>
    cases e <;> simp only [expectedMem, reduceCtorEq] at hmem <;>
    simp only [hs, arity, List.length_cons, List.length_nil] at har <;>
    (try omega) <;>
    simp only [execOp, bin, un, pushW, hs] <;>
    (try (intro h; (repeat' split at h) <;> simp at h))
  all_goals (first
    | (have := hdup _ rfl; omega)
    | (have := hswap _ rfl; omega)
    | (rename_i _ heq; have := List.getElem?_eq_none_iff.1 heq; simp at this; omega))


theorem memorySizeOf_none : ∀ st, memorySizeOf .none st = .noFn := by
  intro st; simp [memorySizeOf]

theorem slotOK_parts {i : OpInfo} (h : slotOK i = true) (hno : isOther i.exec = false) :
    arity i.exec ≤ i.minStack ∧ i.memSize = expectedMem i.exec ∧
    (∀ n, i.exec = .dup n → 0 < n) ∧ (∀ n, i.exec = .swap n → 0 < n) := by
  unfold slotOK at h
  simp only [hno, Bool.false_or, Bool.and_eq_true, decide_eq_true_eq, beq_iff_eq] at h
  obtain ⟨⟨⟨h1, h2⟩, _⟩, h4⟩ := h
  refine ⟨h1, h2, ?_, ?_⟩
  · intro n hn; rw [hn] at h4; simpa using h4
  · intro n hn; rw [hn] at h4; simpa using h4

/-- No Go panic for every instruction that touches no memory (stack, arithmetic, PUSH/DUP/SWAP,
jumps, PC/MSIZE/GAS, calldata/code size and load). -/
theorem step_no_goPanic_nomem (H : Bytes → Bytes) (t : Table) (p : GasParams) (f : Frame)
    (ht : tableOK t = true)
    (hnm : ∀ info, t.get (getOp f.code f.pc) = some info → info.memSize = .none) :
    step H t p f ≠ .fail .goPanic := by
  intro h
  obtain ⟨info, hget, hmin, hcase⟩ := step_goPanic_decomp h
  have hok := slotOK_of_get ht hget
  have hm := hnm info hget
  rcases hcase with hp | ⟨gas2, last, ms, _, hex⟩
  · rw [hm, memorySizeOf_none] at hp; simp at hp
  · by_cases hoth : isOther info.exec = true
    · cases he : info.exec <;> simp [he, isOther] at hoth
      rw [he] at hex; simp [execOp] at hex
    · have hoth' : isOther info.exec = false := by
        cases hh : isOther info.exec
        · rfl
        · exact absurd hh hoth
      obtain ⟨har, hme, hd, hsw⟩ := slotOK_parts hok hoth'
      rw [hm] at hme
      exact execOp_no_panic_simple H info.exec (preExec f gas2 last ms) hme.symm
        (by simp only [preExec]; omega) hd hsw hex

end Rangers.Proofs.Evm10
