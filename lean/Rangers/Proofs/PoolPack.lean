import Rangers.Proofs.PoolInv
/-! `PackForCast` of the pool model: what it returns relative to the pending list. Core Lean only. -/
namespace Rangers.Pool

theorem txs_map_hash (s : Pool) : s.txs.map (·.hash) = s.hashes := by
  simp [Pool.txs, Pool.hashes, List.map_map, Function.comp_def]

/-- the sorted slice `checkNonce` walked over (the pending list itself when proposal 018 is off) -/
def packSource (c : Cfg) (s : Pool) : Option (List Tx) := if c.p018 then goSort c s.txs else some s.txs

theorem pack_some {c : Cfg} {σ : Nat → Nat} {s : Pool} {l : List Tx} (h : s.pack c σ = some l) :
    ∃ r, packSource c s = some r ∧ r.Perm s.txs ∧ l.Sublist r ∧ l.length ≤ txCountPerBlock ∧
      (c.p018 = true → l = (walk σ txCountPerBlock [] r).take txCountPerBlock) := by
  unfold Pool.pack at h
  unfold packSource
  cases hp : c.p018
  · simp [hp] at h
    subst h
    exact ⟨s.txs, by simp, List.Perm.refl _, List.take_sublist _ _, by simp [List.length_take]; omega, by simp⟩
  · simp only [hp, if_true] at h ⊢
    cases hs : goSort c s.txs with
    | none => simp [hs] at h
    | some r =>
      simp [hs] at h
      subst h
      exact ⟨r, rfl, goSort_perm hs, (List.take_sublist _ _).trans (walk_sublist σ r _ _),
        by simp [List.length_take]; omega, fun _ => rfl⟩

theorem pack_isSome {c : Cfg} (σ : Nat → Nat) {s : Pool} (hi : Inv s) : ∃ l, s.pack c σ = some l := by
  unfold Pool.pack
  cases hp : c.p018
  · exact ⟨s.txs.take txCountPerBlock, by simp⟩
  · obtain ⟨r, hr⟩ := goSort_isSome (c := c) (l := s.txs) (by rw [txs_map_hash]; exact hi.nodup)
    exact ⟨(walk σ txCountPerBlock [] r).take txCountPerBlock, by simp [hr]⟩

end Rangers.Pool
