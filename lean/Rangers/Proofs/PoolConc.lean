import Rangers.Model.PoolConc
import Rangers.Proofs.PoolInv
/-! Serializability of the lock-protected small-step model. Core Lean only. -/
namespace Rangers.Pool.Conc
open Rangers Rangers.Pool

/-- operations of the threads that have not finished -/
def unf (ts : List Thread) : List AOp := (ts.filter (fun t => !t.code.isEmpty)).map (·.op)

theorem unf_set_same : ∀ {ts : List Thread} {i : Nat} {t t' : Thread}, ts[i]? = some t → t'.op = t.op →
    t.code ≠ [] → t'.code ≠ [] → unf (ts.set i t') = unf ts
  | [], i, t, t', h, _, _, _ => by simp at h
  | x :: xs, 0, t, t', h, hop, h1, h2 => by
    simp at h; subst h
    have e1 : x.code.isEmpty = false := by cases hx : x.code <;> simp_all
    have e2 : t'.code.isEmpty = false := by cases hx : t'.code <;> simp_all
    simp [unf, List.filter_cons, e1, e2, hop]
  | x :: xs, i + 1, t, t', h, hop, h1, h2 => by
    simp at h
    have ih := unf_set_same (ts := xs) (i := i) h hop h1 h2
    simp only [unf, List.set_cons_succ, List.filter_cons] at ih ⊢
    split <;> simp [ih]

theorem unf_set_finish : ∀ {ts : List Thread} {i : Nat} {t t' : Thread}, ts[i]? = some t → t'.op = t.op →
    t.code ≠ [] → t'.code = [] → (t.op :: unf (ts.set i t')).Perm (unf ts)
  | [], i, t, t', h, _, _, _ => by simp at h
  | x :: xs, 0, t, t', h, hop, h1, h2 => by
    simp at h; subst h
    have e1 : x.code.isEmpty = false := by cases hx : x.code <;> simp_all
    simp [unf, List.filter_cons, e1, h2]
  | x :: xs, i + 1, t, t', h, hop, h1, h2 => by
    simp at h
    have ih := unf_set_finish (ts := xs) (i := i) h hop h1 h2
    simp only [unf, List.set_cons_succ, List.filter_cons] at ih ⊢
    split
    · simp only [List.map_cons]
      exact (List.Perm.swap _ _ _).trans (ih.cons _)
    · exact ih

def seqRun (p0 : Pool) (os : List AOp) : Pool := os.foldl (fun p o => o.run p) p0

/-- threads other than the lock owner are before their critical section or done -/
def Others (ts : List Thread) (owner : Option Nat) : Prop :=
  ∀ j t, ts[j]? = some t → some j ≠ owner → t.code = lockedProg ∨ t.code = []

/-- The simulation invariant: `done` = operations whose critical section is over, in commit order. -/
structure CInv (ops : List AOp) (p0 : Pool) (st : CState) (done : List AOp) : Prop where
  perm : (done ++ unf st.threads).Perm ops
  others : Others st.threads st.lock
  free : st.lock = none → st.pool = seqRun p0 done
  held : ∀ i, st.lock = some i → ∃ t, st.threads[i]? = some t ∧
    ((t.code = [.s1, .s2, .rel] ∧ st.pool = seqRun p0 done) ∨
     (t.code = [.s2, .rel] ∧ st.pool = (t.op.s1 (seqRun p0 done)).1 ∧ t.loc = (t.op.s1 (seqRun p0 done)).2) ∨
     (t.code = [.rel] ∧ st.pool = t.op.run (seqRun p0 done)))

theorem getElem?_set_self' {ts : List Thread} {i : Nat} {t t' : Thread} (h : ts[i]? = some t) : (ts.set i t')[i]? = some t' := by
  have hl : i < ts.length := by
    rcases Nat.lt_or_ge i ts.length with h' | h'
    · exact h'
    · rw [List.getElem?_eq_none h'] at h; cases h
  simp [hl]

theorem cinv_step {ops : List AOp} {p0 : Pool} {st st' : CState} {done : List AOp} {j : Nat}
    (hi : CInv ops p0 st done) (hs : stepThread st j = some st') : ∃ done', CInv ops p0 st' done' := by
  unfold stepThread at hs
  cases htj : st.threads[j]? with
  | none => simp [htj] at hs
  | some t =>
    simp only [htj] at hs
    cases hl : st.lock with
    | none =>
      -- nobody is inside: t must be about to acquire
      have ho := hi.others j t htj (by rw [hl]; simp)
      rcases ho with hc | hc
      · simp only [hc, lockedProg, hl, if_true, Option.some.injEq] at hs
        subst hs
        refine ⟨done, ⟨?_, ?_, ?_, ?_⟩⟩
        · simp only
          rw [unf_set_same (t' := { t with code := [.s1, .s2, .rel] }) htj rfl (by rw [hc]; simp [lockedProg]) (by simp)]
          exact hi.perm
        · intro k u hk hne
          simp only at hk hne
          have hkj : j ≠ k := fun e => hne (by rw [e])
          rw [List.getElem?_set_ne hkj] at hk
          exact hi.others k u hk (by rw [hl]; simp)
        · intro h; simp at h
        · intro i hie
          simp only [Option.some.injEq] at hie; subst hie
          exact ⟨_, getElem?_set_self' htj, Or.inl ⟨rfl, hi.free hl⟩⟩
      · simp [hc] at hs
    | some i =>
      obtain ⟨ti, hti, hcase⟩ := hi.held i hl
      by_cases hji : j = i
      · subst hji
        rw [htj] at hti; cases hti
        have hothers : ∀ (tn : Thread) (lk : Option Nat), (lk = some j ∨ lk = none) →
            (lk = none → tn.code = []) → Others (st.threads.set j tn) lk := by
          intro tn lk hlk hfin k u hk hne
          by_cases hkj : k = j
          · subst hkj
            rw [getElem?_set_self' htj] at hk; cases hk
            rcases hlk with e | e
            · exact absurd (by rw [e]) hne
            · exact Or.inr (hfin e)
          · rw [List.getElem?_set_ne (Ne.symm hkj)] at hk
            exact hi.others k u hk (by rw [hl]; intro e; cases e; exact hkj rfl)
        rcases hcase with ⟨hc, hp⟩ | ⟨hc, hp, hloc⟩ | ⟨hc, hp⟩
        · simp only [hc, Option.some.injEq] at hs
          subst hs
          refine ⟨done, ⟨?_, hothers _ _ (Or.inl hl) (by intro e; rw [hl] at e; cases e), by intro h; simp [hl] at h, ?_⟩⟩
          · simp only
            rw [unf_set_same (t' := { t with code := [.s2, .rel], loc := (t.op.s1 st.pool).2 }) htj rfl (by rw [hc]; simp) (by simp)]
            exact hi.perm
          · intro i' hie
            simp only at hie; rw [hl] at hie; cases hie
            exact ⟨_, getElem?_set_self' htj, Or.inr (Or.inl ⟨rfl, by simp [hp], by simp [hp]⟩)⟩
        · simp only [hc, Option.some.injEq] at hs
          subst hs
          refine ⟨done, ⟨?_, hothers _ _ (Or.inl hl) (by intro e; rw [hl] at e; cases e), by intro h; simp [hl] at h, ?_⟩⟩
          · simp only
            rw [unf_set_same (t' := { t with code := [.rel] }) htj rfl (by rw [hc]; simp) (by simp)]
            exact hi.perm
          · intro i' hie
            simp only at hie; rw [hl] at hie; cases hie
            exact ⟨_, getElem?_set_self' htj, Or.inr (Or.inr ⟨rfl, by simp [AOp.run, hp, hloc]⟩)⟩
        · simp only [hc, Option.some.injEq] at hs
          subst hs
          refine ⟨done ++ [t.op], ⟨?_, hothers _ _ (Or.inr rfl) (fun _ => rfl), ?_, by intro i' h; simp at h⟩⟩
          · simp only
            have h1 := unf_set_finish (t' := { t with code := [] }) htj rfl (by rw [hc]; simp) rfl
            have : (done ++ [t.op] ++ unf (st.threads.set j { t with code := [] })).Perm (done ++ unf st.threads) := by
              rw [List.append_assoc]
              exact List.Perm.append_left done (by simpa using h1)
            exact this.trans hi.perm
          · intro _
            simp only [seqRun, List.foldl_append, List.foldl_cons, List.foldl_nil]
            exact hp
      · -- a thread that is not the owner cannot move: it is done or waits for the lock
        have ho := hi.others j t htj (by rw [hl]; intro e; cases e; exact hji rfl)
        rcases ho with hc | hc
        · simp [hc, lockedProg, hl] at hs
        · simp [hc] at hs

theorem cinv_run {ops : List AOp} {p0 : Pool} : ∀ (sched : List Nat) {st st' : CState} {done : List AOp},
    CInv ops p0 st done → run st sched = some st' → ∃ done', CInv ops p0 st' done'
  | [], st, st', done, hi, h => by simp [run] at h; subst h; exact ⟨done, hi⟩
  | i :: is, st, st', done, hi, h => by
    unfold run at h
    cases hs : stepThread st i with
    | none => simp [hs] at h
    | some st1 =>
      simp only [hs] at h
      obtain ⟨d1, hi1⟩ := cinv_step hi hs
      exact cinv_run is hi1 h

theorem cinv_init (ops : List AOp) (p0 : Pool) :
    CInv ops p0 (initState p0 (ops.map (fun o => (o, lockedProg)))) [] := by
  refine ⟨?_, ?_, fun _ => rfl, by intro i h; simp [initState] at h⟩
  · have : unf (initState p0 (ops.map (fun o => (o, lockedProg)))).threads = ops := by
      simp only [initState, unf, List.map_map]
      induction ops with
      | nil => rfl
      | cons o os ih => simp [List.filter_cons, lockedProg, Function.comp_def] at ih ⊢; exact ih
    simp [this]
  · intro j t hj _
    simp only [initState, List.map_map, List.getElem?_map] at hj
    cases ho : ops[j]? with
    | none => simp [ho] at hj
    | some o => simp [ho] at hj; subst hj; exact Or.inl rfl

theorem unf_nil_of_finished {ts : List Thread} (h : ∀ t ∈ ts, t.code = []) : unf ts = [] := by
  simp only [unf, List.map_eq_nil_iff, List.filter_eq_nil_iff]
  intro t ht; simp [h t ht]

end Rangers.Pool.Conc
