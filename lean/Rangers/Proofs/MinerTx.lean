import Rangers.Proofs.MinerStake
/-! C20: `runTx` level facts (success decomposition, frames, balance sums). -/
namespace Rangers.Miner

theorem runTx_ok (cfg : Cfg) (st : State) (tx : Tx) (h : (runTx cfg st tx).1 = "ok") :
    ∃ st1, processFee st tx.src = some st1 ∧ (execute cfg st1 tx).1 = "ok" ∧ (runTx cfg st tx).2 = (execute cfg st1 tx).2 := by
  unfold runTx at h ⊢
  cases hf : processFee st tx.src with
  | none => simp [hf] at h
  | some st1 =>
    simp only [hf] at h ⊢
    by_cases hok : (execute cfg st1 tx).1 = "ok"
    · exact ⟨st1, rfl, hok, by simp [hok]⟩
    · simp [hok] at h

theorem runTx_not_ok_live (cfg : Cfg) (st : State) (tx : Tx) (h : (runTx cfg st tx).1 ≠ "ok") :
    (runTx cfg st tx).2.live = st.live := by
  unfold runTx at h ⊢
  cases hf : processFee st tx.src with
  | none => rfl
  | some st1 =>
    simp only [hf] at h ⊢
    by_cases hok : (execute cfg st1 tx).1 = "ok"
    · simp [hok] at h
    · simp only [hok, if_false]
      exact (processFee_live st st1 _ hf).1

theorem execApply_ok (cfg : Cfg) (st : State) (src id : Bytes) (t s : Nat) (ac pk vrf : Bytes)
    (h : (execApply cfg st src id t s ac pk vrf).1 = "ok") :
    ¬ (t > 255 ∨ s > maxU64) ∧ isEmptySlice id = false ∧
    execApply cfg st src id t s ac pk vrf =
      addMiner cfg st (toAddr src) { id := id, pk := pk, vrf := vrf, applyHeight := st.height + heightAfterStake, typ := t } s
        (if isEmptySlice ac then src else ac) := by
  unfold execApply at h ⊢
  by_cases h0 : t > 255 ∨ s > maxU64
  · rw [if_pos h0] at h; simp at h
  · rw [if_neg h0] at h ⊢
    by_cases h1 : isEmptySlice id = true
    · rw [if_pos h1] at h; simp at h
    · rw [if_neg h1]
      exact ⟨h0, by simpa using h1, rfl⟩

theorem execAdd_ok (cfg : Cfg) (st : State) (src id : Bytes) (dl : Nat) (h : (execAdd cfg st src id dl).1 = "ok") :
    ¬ dl > maxU64 ∧ execAdd cfg st src id dl = addStake cfg st (toAddr src) id dl := by
  unfold execAdd at h ⊢
  by_cases h0 : dl > maxU64
  · rw [if_pos h0] at h; simp at h
  · rw [if_neg h0] at h ⊢
    by_cases h1 : isEmptySlice id = true
    · rw [if_pos h1] at h; simp at h
    · rw [if_neg h1]
      exact ⟨h0, rfl⟩

/-- Sum of the balances of a list of addresses. -/
def balSum (st : State) (A : List Bytes) : Nat := (A.map st.balOf).sum

theorem balSum_setBal_notin (st : State) (a : Bytes) (n : Nat) (A : List Bytes) (h : a ∉ A) :
    balSum (st.setBal a n) A = balSum st A := by
  induction A with
  | nil => rfl
  | cons b A ih =>
    have hb : b ≠ a := fun e => h (by simp [e])
    have hA : a ∉ A := fun e => h (List.mem_cons_of_mem _ e)
    simp only [balSum, List.map_cons, List.sum_cons, balOf_setBal, hb, if_false] at ih ⊢
    rw [ih hA]

theorem balSum_setBal (st : State) (a : Bytes) (n : Nat) (A : List Bytes) (h : a ∈ A) (hn : A.Nodup) :
    balSum (st.setBal a n) A + st.balOf a = balSum st A + n := by
  induction A with
  | nil => cases h
  | cons b A ih =>
    have hbA : b ∉ A := (List.nodup_cons.mp hn).1
    by_cases hb : b = a
    · subst hb
      have := balSum_setBal_notin st b n A hbA
      simp only [balSum, List.map_cons, List.sum_cons, balOf_setBal, if_true] at this ⊢
      omega
    · have haA : a ∈ A := by
        rcases List.mem_cons.mp h with e | e
        · exact absurd e.symm hb
        · exact e
      have := ih haA (List.nodup_cons.mp hn).2
      simp only [balSum, List.map_cons, List.sum_cons, balOf_setBal, hb, if_false] at this ⊢
      omega

theorem balSum_subBal (st : State) (a : Bytes) (n : Nat) (A : List Bytes) (h : a ∈ A) (hn : A.Nodup) (hle : n ≤ st.balOf a) :
    balSum (st.subBal a n) A + n = balSum st A := by
  have := balSum_setBal st a (st.balOf a - n) A h hn
  unfold State.subBal
  omega

theorem balSum_addBal (st : State) (a : Bytes) (n : Nat) (A : List Bytes) (h : a ∈ A) (hn : A.Nodup) :
    balSum (st.addBal a n) A = balSum st A + n := by
  have := balSum_setBal st a (st.balOf a + n) A h hn
  unfold State.addBal
  omega

theorem balSum_processFee (st st1 : State) (src : Bytes) (A : List Bytes) (hn : A.Nodup)
    (hp : feePayer src ∈ A) (hf : feeAccount ∈ A) (h : processFee st src = some st1) : balSum st1 A = balSum st A := by
  simp only [processFee] at h
  split at h
  · cases h
  · rename_i hge
    cases h
    rw [balSum_addBal _ _ _ _ hf hn]
    have := balSum_subBal st (feePayer src) fee A hp hn (by omega)
    omega

theorem balSum_of_bal (st st' : State) (h : st'.bal = st.bal) (A : List Bytes) : balSum st' A = balSum st A := by
  unfold balSum State.balOf; rw [h]

theorem updateMiner_bal (cfg : Cfg) (st : State) (m : Miner) (oi : Option Info) : (updateMiner cfg st m oi).bal = st.bal := by
  unfold updateMiner; cases oi <;> rfl

theorem removeMiner_bal (cfg : Cfg) (st : State) (id a : Bytes) (t l : Nat) : (removeMiner cfg st id a t l).bal = st.bal := by
  unfold removeMiner; split <;> rfl

theorem updateMiner_pending (cfg : Cfg) (st : State) (m : Miner) (oi : Option Info) :
    (updateMiner cfg st m oi).pending = st.pending ∧ (updateMiner cfg st m oi).escrow = st.escrow ∧
    (updateMiner cfg st m oi).height = st.height ∧ (updateMiner cfg st m oi).trie = st.trie := by
  unfold updateMiner; cases oi <;> exact ⟨rfl, rfl, rfl, rfl⟩

theorem removeMiner_pending (cfg : Cfg) (st : State) (id a : Bytes) (t l : Nat) :
    (removeMiner cfg st id a t l).pending = st.pending ∧ (removeMiner cfg st id a t l).escrow = st.escrow ∧
    (removeMiner cfg st id a t l).height = st.height ∧ (removeMiner cfg st id a t l).trie = st.trie := by
  unfold removeMiner; split <;> exact ⟨rfl, rfl, rfl, rfl⟩

theorem refundCore_fields (cfg : Cfg) (st : State) (id src : Bytes) (m : Miner) (money : Nat) :
    (refundCore cfg st id src m money).pending = st.pending ∧ (refundCore cfg st id src m money).escrow = st.escrow ∧
    (refundCore cfg st id src m money).height = st.height ∧ (refundCore cfg st id src m money).bal = st.bal := by
  unfold refundCore
  split
  · exact ⟨(removeMiner_pending ..).1, (removeMiner_pending ..).2.1, (removeMiner_pending ..).2.2.1, removeMiner_bal ..⟩
  · exact ⟨(updateMiner_pending ..).1, (updateMiner_pending ..).2.1, (updateMiner_pending ..).2.2.1, updateMiner_bal ..⟩

theorem f64_small (n : Nat) (h : n < 2 ^ 53) : f64 n = n := by simp [f64, h]

/-- Total of the refunds recorded in `context["refund"]`. -/
def pendingSum (p : List (Nat × List (Bytes × Nat))) : Nat := (p.map (fun e => (e.2.map Prod.snd).sum)).sum

theorem bump_sum (l : List (Bytes × Nat)) (a : Bytes) (v : Nat) (h : l.any (fun e => e.1 = a) = true) :
    ((bump l a v).map Prod.snd).sum = (l.map Prod.snd).sum + v := by
  induction l with
  | nil => simp at h
  | cons e l ih =>
    unfold bump
    by_cases he : e.1 = a
    · simp only [he, if_true, List.map_cons, List.sum_cons]; omega
    · simp only [he, if_false, List.map_cons, List.sum_cons]
      have : l.any (fun e => e.1 = a) = true := by simpa [he] using h
      rw [ih this]; omega

/-- The refund context gains exactly `v` — unless the height already has a list that lacks the account
    (then the executor's append goes to a copy and is lost). -/
theorem pendingSum_pendingAdd (p : List (Nat × List (Bytes × Nat))) (h : Nat) (a : Bytes) (v : Nat)
    (hn : (p.map Prod.fst).Nodup)
    (hc : ∀ l, p.lookup h = some l → l.any (fun e => e.1 = a) = true) :
    pendingSum (pendingAdd p h a v) = pendingSum p + v := by
  unfold pendingAdd
  cases hl : p.lookup h with
  | none => simp [pendingSum]; omega
  | some l =>
    have hany := hc l hl
    simp only [hany, if_true]
    clear hc
    induction p with
    | nil => simp at hl
    | cons e p ih =>
      obtain ⟨eh, el⟩ := e
      simp only [List.lookup_cons] at hl
      have hnd : eh ∉ p.map Prod.fst ∧ (p.map Prod.fst).Nodup := by
        simp only [List.map_cons] at hn
        exact List.nodup_cons.mp hn
      by_cases he : h = eh
      · subst he
        simp only [beq_self_eq_true] at hl
        cases hl
        have hrest : ∀ e ∈ p, e.1 ≠ h := by
          intro e' he' hh
          exact hnd.1 (by rw [← hh]; exact List.mem_map_of_mem he')
        have hmap : p.map (fun e => if e.1 = h then (e.1, bump e.2 a v) else e) = p := by
          conv => rhs; rw [← List.map_id p]
          apply List.map_congr_left
          intro e' he'
          simp [hrest e' he']
        simp only [pendingSum, List.map_cons, if_true, List.sum_cons, hmap]
        rw [bump_sum _ _ _ hany]; omega
      · have hb : (h == eh) = false := by simpa using he
        simp only [hb] at hl
        have he' : ¬ eh = h := fun x => he x.symm
        have := ih hnd.2 hl
        simp only [pendingSum, List.map_cons, he', if_false, List.sum_cons] at this ⊢
        omega

end Rangers.Miner
