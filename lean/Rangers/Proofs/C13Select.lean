import Mathlib.Data.List.Sort
import Mathlib.Data.List.Perm.Basic
import Mathlib.Data.List.Nodup
import Mathlib.Data.List.Range
import Batteries.Data.List.Perm
import Rangers.Model.Shamir
/-! `RandomPerm`, `sort.Ints` and the `getRandomKSignInfo` loop: whatever the draws, exactly `k`
    distinct entries of the map are picked. -/
namespace Rangers.Proofs.C13
open Rangers.Model.Shamir

theorem swapList_perm : ∀ (l : List Nat) (i j : Nat), i < l.length → j < l.length → (swapList l i j).Perm l
  | [], _, _, hi, _ => by simp at hi
  | a :: xs, 0, 0, _, _ => by simp [swapList]
  | a :: xs, 0, j + 1, _, hj => by
    have hj' : j < xs.length := by simpa using hj
    have := List.getD_set_perm_cons xs j a
    simp only [swapList, List.getD_cons_zero, List.getD_cons_succ, List.set_cons_zero, List.set_cons_succ]
    simpa [List.getD, List.getElem?_eq_getElem hj'] using this
  | a :: xs, i + 1, 0, hi, _ => by
    have hi' : i < xs.length := by simpa using hi
    have := List.getD_set_perm_cons xs i a
    simp only [swapList, List.getD_cons_zero, List.getD_cons_succ, List.set_cons_zero, List.set_cons_succ]
    simpa [List.getD, List.getElem?_eq_getElem hi'] using this
  | a :: xs, i + 1, j + 1, hi, hj => by
    have ih := swapList_perm xs i j (by simpa using hi) (by simpa using hj)
    simp only [swapList, List.getD_cons_succ, List.set_cons_succ] at ih ⊢
    exact ih.cons a

theorem randomPermAux_perm (n : Nat) : ∀ (steps i : Nat) (js l : List Nat),
    l.Perm (List.range n) → steps ≤ js.length → (∀ t, t < steps → js.getD t 0 + (i + t) < n) →
      (randomPermAux i steps js l).Perm (List.range n) := by
  intro steps
  induction steps with
  | zero => intro i js l hl _ _; simpa [randomPermAux] using hl
  | succ steps ih =>
    intro i js l hl hjs hr
    cases js with
    | nil => simp at hjs
    | cons jr js' =>
      simp only [randomPermAux]
      have hlen : l.length = n := by simpa using hl.length_eq
      have h0 := hr 0 (by omega)
      simp only [List.getD_cons_zero, Nat.add_zero] at h0
      apply ih (i + 1) js' _ ((swapList_perm l i (jr + i) (by omega) (by omega)).trans hl)
      · simpa using hjs
      · intro t ht
        have := hr (t + 1) (by omega)
        simp only [List.getD_cons_succ] at this
        omega

theorem randomPerm_spec (n k : Nat) (js : List Nat) (hk : k ≤ n) (hjs : k ≤ js.length)
    (hr : ∀ i, i < k → js.getD i 0 + i < n) :
    (randomPerm n k js).length = k ∧ (randomPerm n k js).Nodup ∧ ∀ x ∈ randomPerm n k js, x < n := by
  have hp := randomPermAux_perm n k 0 js (List.range n) (List.Perm.refl _) hjs (by simpa using hr)
  unfold randomPerm
  refine ⟨?_, ?_, ?_⟩
  · rw [List.length_take, hp.length_eq, List.length_range]; omega
  · exact ((hp.nodup_iff).2 List.nodup_range).sublist (List.take_sublist _ _)
  · intro x hx
    have := hp.subset (List.mem_of_mem_take hx)
    simpa using this

theorem sortInts_eq (l : List Nat) : sortInts l = l.insertionSort (· ≤ ·) := by
  induction l with
  | nil => rfl
  | cons a l ih =>
    simp only [sortInts, List.insertionSort_cons, ih]
    generalize l.insertionSort (· ≤ ·) = m
    induction m with
    | nil => rfl
    | cons b m ihm => simp only [insertSorted, List.orderedInsert_cons, ihm]

theorem sortInts_spec (l : List Nat) : (sortInts l).Perm l ∧ (sortInts l).Pairwise (· ≤ ·) := by
  rw [sortInts_eq]
  exact ⟨List.perm_insertionSort _ l, List.pairwise_insertionSort _ l⟩

theorem sortInts_strict (l : List Nat) (hnd : l.Nodup) : (sortInts l).Pairwise (· < ·) := by
  obtain ⟨hp, hs⟩ := sortInts_spec l
  have hn : (sortInts l).Pairwise (· ≠ ·) := (hp.nodup_iff).2 hnd
  exact (hs.and hn).imp (fun h => Nat.lt_of_le_of_ne h.1 h.2)

theorem pickSorted_sublist {α : Type} : ∀ (es : List α) (i : Nat) (ds : List Nat),
    (pickSorted i es ds).Sublist es
  | [], _, _ => by simp [pickSorted]
  | e :: es, i, [] => by simp [pickSorted]
  | e :: es, i, d :: ds => by
    simp only [pickSorted]
    split
    · exact (pickSorted_sublist es (i + 1) ds).cons_cons e
    · exact (pickSorted_sublist es (i + 1) (d :: ds)).cons e

theorem pickSorted_length {α : Type} : ∀ (es : List α) (i : Nat) (ds : List Nat),
    ds.Pairwise (· < ·) → (∀ d ∈ ds, i ≤ d) → (∀ d ∈ ds, d < i + es.length) →
      (pickSorted i es ds).length = ds.length
  | [], i, ds, _, hlo, hhi => by
    cases ds with
    | nil => simp [pickSorted]
    | cons d ds =>
      have h1 := hlo d (by simp); have h2 := hhi d (by simp); simp at h2; omega
  | e :: es, i, [], _, _, _ => by simp [pickSorted]
  | e :: es, i, d :: ds, hs, hlo, hhi => by
    simp only [pickSorted]
    have hd1 := hlo d (by simp)
    have hrel := (List.pairwise_cons.1 hs)
    split
    · rename_i hid
      simp only [List.length_cons, Nat.add_right_cancel_iff]
      apply pickSorted_length es (i + 1) ds hrel.2
      · intro d' hd'; have := hrel.1 d' hd'; omega
      · intro d' hd'; have := hhi d' (by simp [hd']); simp only [List.length_cons] at this; omega
    · rename_i hid
      apply pickSorted_length es (i + 1) (d :: ds) hs
      · intro d' hd'
        rcases List.mem_cons.1 hd' with h | h
        · subst h; omega
        · have := hrel.1 d' h; omega
      · intro d' hd'; have := hhi d' hd'; simp only [List.length_cons] at this; omega

/-- The k-subset selection of `getRandomKSignInfo`: for every outcome of the draws, exactly `k`
    entries, forming a sublist of the iteration order. -/
theorem pick_random_k {α : Type} (es : List α) (k : Nat) (js : List Nat) (hk : k ≤ es.length)
    (hjs : k ≤ js.length) (hr : ∀ i, i < k → js.getD i 0 + i < es.length) :
    (pickSorted 0 es (sortInts (randomPerm es.length k js))).Sublist es ∧
    (pickSorted 0 es (sortInts (randomPerm es.length k js))).length = k := by
  obtain ⟨hlen, hnd, hlt⟩ := randomPerm_spec es.length k js hk hjs hr
  obtain ⟨hp, _⟩ := sortInts_spec (randomPerm es.length k js)
  refine ⟨pickSorted_sublist _ _ _, ?_⟩
  rw [pickSorted_length es 0 _ (sortInts_strict _ hnd) (fun _ _ => Nat.zero_le _)
    (fun d hd => by simpa using hlt d (hp.subset hd))]
  rw [hp.length_eq, hlen]

end Rangers.Proofs.C13
