import Rangers.Proofs.TrieLiveInsert
/- `delete` on live tries (incl. resolution inside the branch reduction) refines `delete` on loaded tries. -/
namespace Rangers.Trie
open Rangers

/-- the slots of a full node after deleting below slot `i` -/
theorem delete_full_slots {cs : List Node} (hwf : WF (.full cs)) {i : Nat} {r : Key} (hk : ValidKey (i :: r)) :
    (cs.set i (delete (cs[i]?.getD .nil) r).2).length = 17 ∧
    (∀ j, j < 17 → SlotOK j ((cs.set i (delete (cs[i]?.getD .nil) r).2)[j]?.getD .nil)) ∧
    1 ≤ countNN (cs.set i (delete (cs[i]?.getD .nil) r).2) := by
  obtain ⟨hlen, hslots, hcnt⟩ := (WF_full_iff cs).mp hwf
  obtain ⟨hi, hc⟩ := slot_cases hwf hk
  have hX : SlotOK i (delete (cs[i]?.getD .nil) r).2 := by
    rcases hc with ⟨rfl, h⟩ | ⟨hr, hroot, _⟩
    · rw [delete_at_value_pos _ h]; left; rfl
    · have hne16 : ¬ i = 16 := by
        rcases (validKey_cons i r).mp hk with ⟨_, h0⟩ | ⟨h0, _⟩
        · subst h0; exact absurd rfl hr.ne_nil
        · omega
      rcases delete_wf _ r hroot hr with h | h
      · left; exact h
      · right; simp only [hne16, if_false]; exact h
  refine ⟨by simp [hlen], fun j hj => ?_, ?_⟩
  · rw [getD_set _ _ _ _ hi]
    by_cases hji : j = i
    · subst hji; simpa using hX
    · simpa [hji] using hslots j hj
  · have := countNN_set cs i (delete (cs[i]?.getD .nil) r).2 hi
    split at this <;> split at this <;> omega

theorem AbsR.nil_iff {H : Bytes → Bytes} {st : Store} {child : Bool} {t : Node} {l : LNode}
    (h : AbsR H st child t l) : isNilL l = isNil t := by
  rcases h with h | h
  · cases t <;> cases l <;> simp_all [AbsL, isNilL, isNil]
  · rw [h.1]
    have := h.2.1
    cases t <;> simp_all [isNilL, isNil, WF]

theorem soleChildL_eq {H : Bytes → Bytes} {st : Store} {cs : List Node} {lcs : List LNode}
    (hlen : cs.length = lcs.length)
    (hpt : ∀ j, j < cs.length → AbsR H st true (cs[j]?.getD .nil) (lcs[j]?.getD .nil)) :
    soleChildL lcs = soleChild cs := by
  unfold soleChildL soleChild
  simp only [← hlen]
  have : (List.range cs.length).filter (fun i => !isNilL (lcs.getD i .nil))
       = (List.range cs.length).filter (fun i => !isNil (cs.getD i .nil)) := by
    apply List.filter_congr
    intro j hj
    have := (hpt j (List.mem_range.mp hj)).nil_iff
    simp only [List.getD_eq_getElem?_getD, this]
  rw [this]
  rfl

/-- live counterpart of `mergeShort` -/
def mergeShortL (gen : Nat) (kk : Key) (child : LNode) : LNode :=
  match child with
  | .short ck cv _ => .short (kk ++ ck) cv (newFlag gen)
  | c => .short kk c (newFlag gen)

theorem AbsL_mergeShort {H : Bytes → Bytes} {st : Store} (child : Bool) (gen : Nat) (kk : Key) {t2 : Node} {l2 : LNode}
    (hwf : WF t2) (h : AbsL H st true t2 l2) : AbsL H st child (mergeShort kk t2) (mergeShortL gen kk l2) := by
  cases t2 with
  | nil => exact absurd hwf not_WF_nil
  | value b => exact absurd hwf (not_WF_value b)
  | short ck cv =>
    obtain ⟨lcv, fl, rfl, hcv, _⟩ := AbsL_short.mp h
    exact AbsL_short.mpr ⟨lcv, _, rfl, hcv, flagOK_new H st child gen _⟩
  | full cs =>
    obtain ⟨lcs, fl, rfl, _, _, _⟩ := AbsL_full.mp h
    exact AbsL_short.mpr ⟨_, _, rfl, Or.inl h, flagOK_new H st child gen _⟩

/-- the branch reduction on a live full node -/
theorem reduceL_refines {H : Bytes → Bytes} {st : Store} (child : Bool) (gen : Nat) {cs' : List Node} {lcs' : List LNode}
    (hlen : cs'.length = lcs'.length) (h17 : cs'.length = 17)
    (hpt : ∀ j, j < cs'.length → AbsR H st true (cs'[j]?.getD .nil) (lcs'[j]?.getD .nil))
    (hslots : ∀ j, j < 17 → SlotOK j (cs'[j]?.getD .nil)) :
    ∃ l', reduceL st gen lcs' = some l' ∧ AbsL H st child (reduce cs') l' := by
  unfold reduceL reduce
  rw [soleChildL_eq hlen hpt]
  cases hs : soleChild cs' with
  | none =>
    exact ⟨_, rfl, AbsL_full.mpr ⟨lcs', _, rfl, hlen, hpt, flagOK_new H st child gen _⟩⟩
  | some pos =>
    obtain ⟨hp, hne, _, _⟩ := soleChild_some hs
    have hc := hpt pos hp
    have hsl := hslots pos (by omega)
    simp only [List.getD_eq_getElem?_getD]
    by_cases h16 : pos = 16
    · subst h16
      simp only [bne_self_eq_false, Bool.false_eq_true, if_false]
      exact ⟨_, rfl, AbsL_short.mpr ⟨_, _, rfl, hc, flagOK_new H st child gen _⟩⟩
    · have hne16 : (pos != 16) = true := by simpa using h16
      simp only [hne16, if_true]
      have hwfc : WF (cs'[pos]?.getD .nil) := by
        rcases hsl with h | h
        · exact absurd h hne
        · simpa [h16] using h
      -- resolve the remaining child if it is unloaded
      have hres : ∃ cn, resolveL st gen (lcs'[pos]?.getD .nil) = some cn ∧ AbsL H st true (cs'[pos]?.getD .nil) cn := by
        rcases hc with hl | hh
        · refine ⟨lcs'[pos]?.getD .nil, ?_, hl⟩
          cases hcase : lcs'[pos]?.getD .nil with
          | hash h =>
            rw [hcase] at hl
            cases hct : cs'[pos]?.getD .nil <;> rw [hct] at hl <;> simp [AbsL] at hl
          | _ => rfl
        · obtain ⟨l1, hr, hl1⟩ := resolve_hashOf hh gen
          exact ⟨l1, by rw [hh.1]; exact hr, hl1⟩
      obtain ⟨cn, hcn, habs⟩ := hres
      rw [hcn]
      simp only [Option.map_some]
      cases hct : cs'[pos]?.getD .nil with
      | nil => exact absurd hct hne
      | value b => rw [hct] at hwfc; exact absurd hwfc (not_WF_value b)
      | short ck cv =>
        rw [hct] at habs
        obtain ⟨lcv, fl, rfl, hcv, _⟩ := AbsL_short.mp habs
        exact ⟨_, rfl, AbsL_short.mpr ⟨lcv, _, rfl, hcv, flagOK_new H st child gen _⟩⟩
      | full cs2 =>
        rw [hct] at habs hc
        obtain ⟨lcs2, fl, rfl, _, _, _⟩ := AbsL_full.mp habs
        exact ⟨_, rfl, AbsL_short.mpr ⟨_, _, rfl, hc, flagOK_new H st child gen _⟩⟩



theorem mergeShortL_eq (gen : Nat) (kk : Key) (l2 : LNode) :
    (match l2 with
      | .short ck cv _ => (true, LNode.short (kk ++ ck) cv (newFlag gen))
      | child => (true, LNode.short kk child (newFlag gen))) = (true, mergeShortL gen kk l2) := by
  cases l2 <;> rfl

/-! ### `delete` on a live trie -/

theorem deleteL_refines (H : Bytes → Bytes) (st : Store) (gen : Nat) (t : Node) :
    ∀ child l key f, WFRoot t → ValidKey key → AbsR H st child t l → 2 * key.length + 2 ≤ f →
      ∃ l', deleteL st gen f l key = some ((delete t key).1, l') ∧ AbsL H st child (delete t key).2 l' := by
  induction t using Node.induct with
  | hnil =>
    intro child l key f _ hk habs hf
    rw [AbsR_nil.mp habs]
    obtain ⟨f', rfl⟩ : ∃ f', f = f' + 1 := ⟨f - 1, by omega⟩
    exact ⟨.nil, by simp [deleteL, delete], by simp [delete]; exact AbsL_nil.mpr rfl⟩
  | hval b => intro child l key f h; rcases h with h | h <;> simp [WF] at h
  | hshort kk v ih =>
    intro child l key f hwf hk habs hf
    have hwf : WF (.short kk v) := hwf.resolve_left (by simp)
    have hQ : ∀ l f, AbsL H st child (.short kk v) l → 2 * key.length + 1 ≤ f →
        ∃ l', deleteL st gen f l key = some ((delete (.short kk v) key).1, l') ∧
          AbsL H st child (delete (.short kk v) key).2 l' := by
      intro l f hl hf
      obtain ⟨lv, fl, rfl, hv, hfl⟩ := AbsL_short.mp hl
      obtain ⟨f', rfl⟩ : ∃ f', f = f' + 1 := ⟨f - 1, by omega⟩
      rw [delete_short_eq]
      simp only [deleteL]
      by_cases hlt : prefixLen key kk < kk.length
      · simp only [hlt, if_true]; exact ⟨_, rfl, hl⟩
      · simp only [hlt, if_false]
        have hm : prefixLen key kk = kk.length := by
          have := prefixLen_le_right key kk; omega
        have hpre : kk <+: key := (prefixLen_eq_right_iff _ _).mp hm
        by_cases hwhole : prefixLen key kk = key.length
        · simp only [hwhole, if_true]; exact ⟨_, rfl, AbsL_nil.mpr rfl⟩
        · simp only [hwhole, if_false]
          rcases (WF_short_iff kk v).mp hwf with ⟨b, rfl, hkk, hb⟩ | ⟨cs, rfl, hne, hnib, hfull⟩
          · have heq : kk = key := hk.eq_of_prefix hkk hpre
            subst heq; exact absurd hm hwhole
          · have hk2 : ValidKey (key.drop kk.length) := hk.drop_of_nibs hpre hnib
            have hlen : (key.drop kk.length).length + 1 ≤ key.length := by
              have : kk.length ≠ 0 := by simpa using hne
              have := hpre.length_le
              simp only [List.length_drop]; omega
            obtain ⟨l2, hg, habs2⟩ := ih true lv _ f' (Or.inr hfull) hk2 hv (by omega)
            rw [hg]
            by_cases hd : (delete (.full cs) (key.drop kk.length)).1 = false
            · simp only [hd, if_true]
              exact ⟨_, by simp, hl⟩
            · have hd' : (delete (.full cs) (key.drop kk.length)).1 = true := by simpa using hd
              simp only [hd', Bool.true_eq_false, if_false, Option.map_some, Bool.not_true]
              have hw2 : WF (delete (.full cs) (key.drop kk.length)).2 :=
                (delete_wf _ _ (Or.inr hfull) hk2).resolve_left (delete_full_ne_nil cs _)
              refine ⟨mergeShortL gen kk l2, ?_, AbsL_mergeShort child gen kk hw2 habs2⟩
              cases l2 <;> simp [mergeShortL]
    rcases habs with hl | hh
    · exact hQ l f hl (by omega)
    · obtain ⟨l1, hres, hl1⟩ := resolve_hashOf hh gen
      obtain ⟨f', rfl⟩ : ∃ f', f = f' + 1 := ⟨f - 1, by omega⟩
      obtain ⟨l2, hg, habs2⟩ := hQ l1 f' hl1 (by omega)
      rw [hh.1]
      simp only [deleteL, hres, Option.bind_some, hg, Option.map_some]
      by_cases hd : (delete (.short kk v) key).1 = false
      · have := delete_not_dirty _ _ hd
        simp only [hd, Bool.not_false, if_true]
        exact ⟨_, rfl, by rw [this]; exact hl1⟩
      · have hd' : (delete (.short kk v) key).1 = true := by simpa using hd
        simp only [hd', Bool.not_true, Bool.false_eq_true, if_false]
        exact ⟨_, rfl, habs2⟩
  | hfull cs ih =>
    intro child l key f hwf hk habs hf
    have hwf : WF (.full cs) := hwf.resolve_left (by simp)
    obtain ⟨i, r, rfl⟩ : ∃ x r, key = x :: r := by
      cases key with
      | nil => exact absurd rfl hk.ne_nil
      | cons x r => exact ⟨x, r, rfl⟩
    obtain ⟨hi, hc⟩ := slot_cases hwf hk
    obtain ⟨hlen17, _, _⟩ := (WF_full_iff cs).mp hwf
    have hQ : ∀ l f, AbsL H st child (.full cs) l → 2 * (i :: r).length + 1 ≤ f →
        ∃ l', deleteL st gen f l (i :: r) = some ((delete (.full cs) (i :: r)).1, l') ∧
          AbsL H st child (delete (.full cs) (i :: r)).2 l' := by
      intro l f hl hf
      obtain ⟨lcs, fl, rfl, hlen, hpt, hfl⟩ := AbsL_full.mp hl
      obtain ⟨f', rfl⟩ : ∃ f', f = f' + 1 := ⟨f - 1, by omega⟩
      have hil : i < lcs.length := by omega
      have hci := live_slot hlen hpt hi
      rw [delete_full_eq cs i r hi]
      simp only [deleteL, hil, if_true]
      simp only [List.length_cons] at hf
      obtain ⟨f'', rfl⟩ : ∃ f'', f' = f'' + 1 := ⟨f' - 1, by omega⟩
      have hsub : ∃ l2, deleteL st gen (f'' + 1) (lcs.getD i .nil) r = some ((delete (cs[i]?.getD .nil) r).1, l2) ∧
          AbsR H st true (delete (cs[i]?.getD .nil) r).2 l2 := by
        rcases hc with ⟨rfl, h | ⟨b, h⟩⟩ | ⟨hr, hroot, h | hmem⟩
        · rw [h] at hci ⊢; rw [AbsR_nil.mp hci]
          exact ⟨.nil, by simp [deleteL, delete], by simp [delete]; exact AbsR_nil.mpr rfl⟩
        · rw [h] at hci ⊢; rw [AbsR_value.mp hci]
          exact ⟨.nil, by simp [deleteL, delete], by simp [delete]; exact AbsR_nil.mpr rfl⟩
        · rw [h] at hci ⊢; rw [AbsR_nil.mp hci]
          exact ⟨.nil, by simp [deleteL, delete], by simp [delete]; exact AbsR_nil.mpr rfl⟩
        · obtain ⟨l2, h1, h2⟩ := ih _ hmem true _ r (f'' + 1) hroot hr hci (by omega)
          exact ⟨l2, h1, Or.inl h2⟩
      obtain ⟨l2, hg, habs2⟩ := hsub
      rw [hg]
      by_cases hd : (delete (cs[i]?.getD .nil) r).1 = false
      · simp only [hd, if_true, Option.bind_some, Bool.not_false]
        exact ⟨_, rfl, hl⟩
      · have hd' : (delete (cs[i]?.getD .nil) r).1 = true := by simpa using hd
        simp only [hd', Bool.true_eq_false, if_false, Option.bind_some, Bool.not_true]
        obtain ⟨h17, hslots', _⟩ := delete_full_slots hwf hk
        have hpt' := AbsR_set hlen hi hpt habs2
        obtain ⟨l', hr, hla⟩ := reduceL_refines (H := H) (st := st) child gen
          (cs' := cs.set i (delete (cs[i]?.getD .nil) r).2) (lcs' := lcs.set i l2)
          (by simp [hlen]) h17 hpt' hslots'
        rw [hr]
        exact ⟨l', rfl, hla⟩
    rcases habs with hl | hh
    · exact hQ l f hl (by omega)
    · obtain ⟨l1, hres, hl1⟩ := resolve_hashOf hh gen
      obtain ⟨f', rfl⟩ : ∃ f', f = f' + 1 := ⟨f - 1, by omega⟩
      obtain ⟨l2, hg, habs2⟩ := hQ l1 f' hl1 (by omega)
      rw [hh.1]
      simp only [deleteL, hres, Option.bind_some, hg, Option.map_some]
      by_cases hd : (delete (.full cs) (i :: r)).1 = false
      · have := delete_not_dirty _ _ hd
        simp only [hd, Bool.not_false, if_true]
        exact ⟨_, rfl, by rw [this]; exact hl1⟩
      · have hd' : (delete (.full cs) (i :: r)).1 = true := by simpa using hd
        simp only [hd', Bool.not_true, Bool.false_eq_true, if_false]
        exact ⟨_, rfl, habs2⟩

end Rangers.Trie
