import Rangers.Proofs.RLPInt
/-! Header lemmas: `readKind` (raw.go) accepts exactly the headers `puthead` writes. -/
namespace Rangers.RLP
open Rangers

theorem toNat_ofNat_lt {n : Nat} (h : n < 256) : (UInt8.ofNat n).toNat = n := by
  simp [UInt8.toNat_ofNat']; omega

theorem putint_eq {n : Nat} (h : n ≠ 0) : putint n = toBE n := by simp [putint, h]

theorem encHead_small (s l : Nat) {n : Nat} (h : n < 56) : encHead s l n = [UInt8.ofNat (s + n)] := by
  simp [encHead, h]

theorem encHead_large (s l : Nat) {n : Nat} (h : 56 ≤ n) :
    encHead s l n = UInt8.ofNat (l + (toBE n).length) :: toBE n := by
  have h1 : ¬ n < 56 := by omega
  have h2 : n ≠ 0 := by omega
  simp [encHead, h1, putint_eq h2]

theorem toBE_len_64 {n : Nat} (h : n < 2 ^ 64) : (toBE n).length ≤ 8 :=
  toBE_length_le 8 n (by simpa using h)

theorem readSize_toBE (n : Nat) (tail : Bytes) (h56 : 56 ≤ n) :
    readSize (toBE n ++ tail) (toBE n).length = .ok n := by
  have hpos : 0 < (toBE n).length := toBE_length_pos (by omega)
  unfold readSize
  have h1 : ¬ (toBE n).length > (toBE n ++ tail).length := by simp
  rw [if_neg h1]
  cases hb : toBE n with
  | nil => rw [hb] at hpos; simp at hpos
  | cons b0 rest =>
    have hm := toBE_head_ne_zero n b0 rest hb
    have ht : List.take (b0 :: rest).length ((b0 :: rest) ++ tail) = b0 :: rest := List.take_left' rfl
    simp only [List.cons_append] at ht ⊢
    rw [ht, ← hb, beNat_toBE]
    have : ¬ (n < 56 ∨ b0.toNat = 0) := by omega
    rw [if_neg this]

theorem readSize_inv {b : Bytes} {slen s : Nat} (h : readSize b slen = .ok s) (h1 : 1 ≤ slen) :
    slen ≤ b.length ∧ toBE s = b.take slen ∧ 56 ≤ s := by
  unfold readSize at h
  by_cases hl : slen > b.length
  · rw [if_pos hl] at h; cases h
  · rw [if_neg hl] at h
    cases b with
    | nil => cases h
    | cons b0 tl =>
      simp only at h
      by_cases hc : beNat (List.take slen (b0 :: tl)) < 56 ∨ b0.toNat = 0
      · rw [if_pos hc] at h; cases h
      · rw [if_neg hc] at h
        injection h with h
        refine ⟨by omega, ?_, by omega⟩
        rw [← h]
        apply toBE_beNat
        cases slen with
        | zero => omega
        | succ k => simp only [List.take_succ_cons, Minimal]; omega

/-- `readKind` on a string header written by `puthead`. -/
theorem readKind_str (n : Nat) (tail : Bytes) (hn : n < 2 ^ 64) (hlen : n ≤ tail.length)
    (hc : ¬ (n = 1 ∧ headLt128 tail = true)) :
    readKind (encHead 0x80 0xb7 n ++ tail) = .ok (.string, (encHead 0x80 0xb7 n).length, n) := by
  by_cases h56 : n < 56
  · rw [encHead_small _ _ h56]
    have ht : (UInt8.ofNat (0x80 + n)).toNat = 0x80 + n := toNat_ofNat_lt (by omega)
    simp only [List.cons_append, List.nil_append, readKind, ht, List.length_cons, List.length_nil]
    have a1 : ¬ (0x80 + n < 0x80) := by omega
    have a2 : 0x80 + n < 0xb8 := by omega
    have a3 : 0x80 + n - 0x80 = n := by omega
    rw [if_neg a1, if_pos a2, a3, if_neg hc]
    simp only
    have a4 : ¬ n > tail.length + 1 - 1 := by omega
    rw [if_neg a4]
  · have h56' : 56 ≤ n := by omega
    have hL := toBE_len_64 hn
    have hpos : 0 < (toBE n).length := toBE_length_pos (by omega)
    rw [encHead_large _ _ h56']
    have ht : (UInt8.ofNat (0xb7 + (toBE n).length)).toNat = 0xb7 + (toBE n).length := toNat_ofNat_lt (by omega)
    simp only [List.cons_append, readKind, ht, List.length_cons, List.length_append]
    have a1 : ¬ (0xb7 + (toBE n).length < 0x80) := by omega
    have a2 : ¬ (0xb7 + (toBE n).length < 0xb8) := by omega
    have a3 : 0xb7 + (toBE n).length < 0xc0 := by omega
    have a4 : 0xb7 + (toBE n).length - 0xb7 = (toBE n).length := by omega
    rw [if_neg a1, if_neg a2, if_pos a3, a4, readSize_toBE n tail h56']
    simp only
    have a5 : ¬ n > (toBE n).length + tail.length + 1 - ((toBE n).length + 1) := by omega
    rw [if_neg a5]

/-- `readKind` on a list header written by `puthead`. -/
theorem readKind_list (n : Nat) (tail : Bytes) (hn : n < 2 ^ 64) (hlen : n ≤ tail.length) :
    readKind (encHead 0xc0 0xf7 n ++ tail) = .ok (.list, (encHead 0xc0 0xf7 n).length, n) := by
  by_cases h56 : n < 56
  · rw [encHead_small _ _ h56]
    have ht : (UInt8.ofNat (0xc0 + n)).toNat = 0xc0 + n := toNat_ofNat_lt (by omega)
    simp only [List.cons_append, List.nil_append, readKind, ht, List.length_cons, List.length_nil]
    have a1 : ¬ (0xc0 + n < 0x80) := by omega
    have a2 : ¬ (0xc0 + n < 0xb8) := by omega
    have a2' : ¬ (0xc0 + n < 0xc0) := by omega
    have a2'' : 0xc0 + n < 0xf8 := by omega
    have a3 : 0xc0 + n - 0xc0 = n := by omega
    rw [if_neg a1, if_neg a2, if_neg a2', if_pos a2'', a3]
    simp only
    have a4 : ¬ n > tail.length + 1 - 1 := by omega
    rw [if_neg a4]
  · have h56' : 56 ≤ n := by omega
    have hL := toBE_len_64 hn
    have hpos : 0 < (toBE n).length := toBE_length_pos (by omega)
    rw [encHead_large _ _ h56']
    have ht : (UInt8.ofNat (0xf7 + (toBE n).length)).toNat = 0xf7 + (toBE n).length := toNat_ofNat_lt (by omega)
    simp only [List.cons_append, readKind, ht, List.length_cons, List.length_append]
    have a1 : ¬ (0xf7 + (toBE n).length < 0x80) := by omega
    have a2 : ¬ (0xf7 + (toBE n).length < 0xb8) := by omega
    have a3 : ¬ 0xf7 + (toBE n).length < 0xc0 := by omega
    have a3' : ¬ 0xf7 + (toBE n).length < 0xf8 := by omega
    have a4 : 0xf7 + (toBE n).length - 0xf7 = (toBE n).length := by omega
    rw [if_neg a1, if_neg a2, if_neg a3, if_neg a3', a4, readSize_toBE n tail h56']
    simp only
    have a5 : ¬ n > (toBE n).length + tail.length + 1 - ((toBE n).length + 1) := by omega
    rw [if_neg a5]

/-- `readKind` on a single byte below 0x80. -/
theorem readKind_byte (x : UInt8) (tail : Bytes) (hx : x.toNat < 0x80) :
    readKind (x :: tail) = .ok (.byte, 0, 1) := by
  simp only [readKind, if_pos hx, List.length_cons]
  have : ¬ 1 > tail.length + 1 - 0 := by omega
  rw [if_neg this]

/-- What an accepted header looks like: it is the header `puthead` writes for the content size. -/
theorem readKind_inv {buf : Bytes} {k : Kind} {ts cs : Nat} (h : readKind buf = .ok (k, ts, cs)) :
    ts + cs ≤ buf.length ∧ cs < 2 ^ 64 ∧
    ((k = .byte ∧ ts = 0 ∧ cs = 1 ∧ ∃ x tl, buf = x :: tl ∧ x.toNat < 0x80) ∨
     (k = .string ∧ buf.take ts = encHead 0x80 0xb7 cs ∧ ¬ (cs = 1 ∧ headLt128 (buf.drop ts) = true)) ∨
     (k = .list ∧ buf.take ts = encHead 0xc0 0xf7 cs)) := by
  cases buf with
  | nil => simp [readKind] at h
  | cons b tl =>
    have hb := b.toNat_lt
    simp only [readKind] at h
    by_cases c1 : b.toNat < 0x80
    · rw [if_pos c1] at h
      simp only [List.length_cons] at h
      split at h
      · cases h
      · injection h with h; injection h with h1 h; injection h with h2 h3
        subst h1 h2 h3
        refine ⟨by simp, by omega, Or.inl ⟨rfl, rfl, rfl, b, tl, rfl, c1⟩⟩
    · rw [if_neg c1] at h
      by_cases c2 : b.toNat < 0xb8
      · rw [if_pos c2] at h
        by_cases cc : b.toNat - 0x80 = 1 ∧ headLt128 tl = true
        · rw [if_pos cc] at h; cases h
        · rw [if_neg cc] at h
          simp only [List.length_cons] at h
          split at h
          · cases h
          · rename_i hle
            injection h with h; injection h with h1 h; injection h with h2 h3
            subst h1 h2 h3
            refine ⟨by simp only [List.length_cons]; omega, by omega, Or.inr (Or.inl ⟨rfl, ?_, ?_⟩)⟩
            · rw [encHead_small _ _ (by omega)]
              have : 0x80 + (b.toNat - 0x80) = b.toNat := by omega
              simp [this]
            · simpa using cc
      · rw [if_neg c2] at h
        by_cases c3 : b.toNat < 0xc0
        · rw [if_pos c3] at h
          cases hr : readSize tl (b.toNat - 0xb7) with
          | error e => rw [hr] at h; cases h
          | ok s =>
            rw [hr] at h
            simp only [List.length_cons] at h
            obtain ⟨hl, hbe, h56⟩ := readSize_inv hr (by omega)
            split at h
            · cases h
            · rename_i hle
              injection h with h; injection h with h1 h; injection h with h2 h3
              subst h1 h2 h3
              have hlen : (toBE s).length = b.toNat - 0xb7 := by rw [hbe]; simp; omega
              have hs : s < 2 ^ 64 := by
                have := beNat_lt (toBE s)
                rw [beNat_toBE] at this
                have h8 : (toBE s).length ≤ 8 := by omega
                calc s < 256 ^ (toBE s).length := this
                  _ ≤ 256 ^ 8 := Nat.pow_le_pow_right (by omega) h8
                  _ = 2 ^ 64 := by decide
              refine ⟨by simp only [List.length_cons]; omega, hs, Or.inr (Or.inl ⟨rfl, ?_, by omega⟩)⟩
              rw [encHead_large _ _ h56, hlen]
              have : 0xb7 + (b.toNat - 0xb7) = b.toNat := by omega
              rw [this, hbe]
              simp
        · rw [if_neg c3] at h
          by_cases c4 : b.toNat < 0xf8
          · rw [if_pos c4] at h
            simp only [List.length_cons] at h
            split at h
            · cases h
            · rename_i hle
              injection h with h; injection h with h1 h; injection h with h2 h3
              subst h1 h2 h3
              refine ⟨by simp only [List.length_cons]; omega, by omega, Or.inr (Or.inr ⟨rfl, ?_⟩)⟩
              rw [encHead_small _ _ (by omega)]
              have : 0xc0 + (b.toNat - 0xc0) = b.toNat := by omega
              simp [this]
          · rw [if_neg c4] at h
            cases hr : readSize tl (b.toNat - 0xf7) with
            | error e => rw [hr] at h; cases h
            | ok s =>
              rw [hr] at h
              simp only [List.length_cons] at h
              obtain ⟨hl, hbe, h56⟩ := readSize_inv hr (by omega)
              split at h
              · cases h
              · rename_i hle
                injection h with h; injection h with h1 h; injection h with h2 h3
                subst h1 h2 h3
                have hlen : (toBE s).length = b.toNat - 0xf7 := by rw [hbe]; simp; omega
                have hs : s < 2 ^ 64 := by
                  have := beNat_lt (toBE s)
                  rw [beNat_toBE] at this
                  have h8 : (toBE s).length ≤ 8 := by omega
                  calc s < 256 ^ (toBE s).length := this
                    _ ≤ 256 ^ 8 := Nat.pow_le_pow_right (by omega) h8
                    _ = 2 ^ 64 := by decide
                refine ⟨by simp only [List.length_cons]; omega, hs, Or.inr (Or.inr ⟨rfl, ?_⟩)⟩
                rw [encHead_large _ _ h56, hlen]
                have : 0xf7 + (b.toNat - 0xf7) = b.toNat := by omega
                rw [this, hbe]
                simp

end Rangers.RLP
